(* Proofs/NewickProofsC.v — C05: the reader's state machine on written trees
   (round trip), sequences of trees, totality (no panic), condensed output. *)
From Bio Require Import Base.
From Bio.Model Require Import Newick.
From Bio.Spec Require Import NewickSpec.
From Bio.Proofs Require Import NewickProofs NewickProofsB.

Definition cfg (st : rstate) (top : frame) (below : list frame) (any : bool) (input : bytes) : config :=
  {| c_state := st; c_top := top; c_below := below; c_any := any; c_input := input |}.
Definition mk (n : bytes) (d : F) (ks : list tree) : frame :=
  {| fr_name := n; fr_dist := d; fr_kids := ks |}.

Definition is_closer (x : N) : bool := (x =? 44) || (x =? 41) || (x =? 59).

Lemma closer_punct x : is_closer x = true -> is_punct x = true.
Proof.
  unfold is_closer, is_punct. rewrite !Bool.orb_true_iff.
  intros [[H|H]|H]; rewrite H; auto 10.
Qed.

Section Machine.
Variable o : foracle.

(* ---- single iterations ---------------------------------------------------- *)
Lemma step_open tm f b ra rest :
  read_step o tm (cfg BeforeNode f b ra (40 :: rest))
  = Continue (cfg BeforeNode fresh (f :: b) true rest).
Proof.
  unfold read_step, cfg. cbn [c_input c_state c_top c_below c_any].
  rewrite next_token_punct by reflexivity. reflexivity.
Qed.

Lemma step_close tm st f p b ra rest : st <> AfterColon ->
  read_step o tm (cfg st f (p :: b) ra (41 :: rest))
  = Continue (cfg AfterChildren (add_kid (close f) p) b true rest).
Proof.
  intros H. unfold read_step, cfg. cbn [c_input c_state c_top c_below c_any].
  rewrite next_token_punct by reflexivity. destruct st; try reflexivity. congruence.
Qed.

Lemma step_comma tm st f p b ra rest : st <> AfterColon ->
  read_step o tm (cfg st f (p :: b) ra (44 :: rest))
  = Continue (cfg BeforeNode fresh (add_kid (close f) p :: b) true rest).
Proof.
  intros H. unfold read_step, cfg. cbn [c_input c_state c_top c_below c_any].
  rewrite next_token_punct by reflexivity. destruct st; try reflexivity. congruence.
Qed.

Lemma step_colon tm st f b ra rest : st <> AfterColon -> st <> AfterDist ->
  read_step o tm (cfg st f b ra (58 :: rest)) = Continue (cfg AfterColon f b true rest).
Proof.
  intros H1 H2. unfold read_step, cfg. cbn [c_input c_state c_top c_below c_any].
  rewrite next_token_punct by reflexivity. destruct st; try reflexivity; congruence.
Qed.

Lemma step_semi tm st f ra rest : st <> AfterColon ->
  read_step o tm (cfg st f [] ra (59 :: rest)) = Done (ROk (close f) rest).
Proof.
  intros H. unfold read_step, cfg. cbn [c_input c_state c_top c_below c_any].
  rewrite next_token_punct by reflexivity. destruct st; try reflexivity. congruence.
Qed.

Lemma step_word_name tm st f b ra input tok rest :
  next_token input tm = TokOk tok rest -> is_word tok = true ->
  st = BeforeNode \/ st = AfterChildren ->
  read_step o tm (cfg st f b ra input)
  = Continue (cfg AfterName (set_name (name_from_text tok) f) b true rest).
Proof.
  intros Ht Hw Hst. unfold read_step, cfg. cbn [c_input c_state c_top c_below c_any].
  rewrite Ht. destruct (word_not_punct tok Hw) as (H1 & H2 & H3 & H4 & H5).
  rewrite H1, H2, H3, H4, H5. destruct Hst; subst; reflexivity.
Qed.

Lemma step_word_dist tm f b ra input tok rest d :
  next_token input tm = TokOk tok rest -> is_word tok = true -> parseF o tok = Some d ->
  read_step o tm (cfg AfterColon f b ra input)
  = Continue (cfg AfterDist (set_dist d f) b true rest).
Proof.
  intros Ht Hw Hp. unfold read_step, cfg. cbn [c_input c_state c_top c_below c_any].
  rewrite Ht. destruct (word_not_punct tok Hw) as (H1 & H2 & H3 & H4 & H5).
  rewrite H1, H2, H3, H4, H5. cbn [st_eqb orb negb]. rewrite Hp. reflexivity.
Qed.

(* ---- runs ------------------------------------------------------------------ *)
Inductive steps (tm : term) : config -> config -> Prop :=
| steps_refl c : steps tm c c
| steps_cons c c' c'' : read_step o tm c = Continue c' -> steps tm c' c'' -> steps tm c c''.

Lemma steps_trans tm a b c : steps tm a b -> steps tm b c -> steps tm a c.
Proof. induction 1; intros; [assumption|]. eapply steps_cons; eauto. Qed.

Lemma steps_one tm c c' : read_step o tm c = Continue c' -> steps tm c c'.
Proof. intros H. eapply steps_cons; [exact H | apply steps_refl]. Qed.

(* every continuing iteration consumes input *)
Lemma read_step_consumes tm c c' : read_step o tm c = Continue c' ->
  (length (c_input c') < length (c_input c))%nat.
Proof.
  unfold read_step. destruct (next_token (c_input c) tm) as [tok rest| |] eqn:Ht.
  - apply next_token_consumes in Ht. intros H.
    repeat match type of H with
    | (if ?b then _ else _) = _ => destruct b
    | match ?l with [] => _ | _ :: _ => _ end = _ => destruct l
    | match ?x with Some _ => _ | None => _ end = _ => destruct x
    end; inversion H; subst; exact Ht.
  - destruct (c_any c); discriminate.
  - discriminate.
Qed.

Lemma read_step_done_rest tm c t rest : read_step o tm c = Done (ROk t rest) ->
  (length rest < length (c_input c))%nat.
Proof.
  unfold read_step. destruct (next_token (c_input c) tm) as [tok rest'| |] eqn:Ht.
  - apply next_token_consumes in Ht. intros H.
    repeat match type of H with
    | (if ?b then _ else _) = _ => destruct b
    | match ?l with [] => _ | _ :: _ => _ end = _ => destruct l
    | match ?x with Some _ => _ | None => _ end = _ => destruct x
    end; inversion H; subst; exact Ht.
  - destruct (c_any c); discriminate.
  - discriminate.
Qed.

(* panic("unexpected state") is unreachable *)
Lemma read_step_no_panic tm c : read_step o tm c <> Done RPanic.
Proof.
  unfold read_step. destruct (next_token (c_input c) tm) as [tok rest| |].
  - destruct (c_state c); cbn [st_eqb negb orb];
      repeat match goal with
      | |- (if ?b then _ else _) <> _ => destruct b
      | |- match ?l with [] => _ | _ :: _ => _ end <> _ => destruct l
      | |- match ?x with Some _ => _ | None => _ end <> _ => destruct x
      end; discriminate.
  - destruct (c_any c); discriminate.
  - discriminate.
Qed.

Lemma read_loop_no_panic tm : forall fuel c,
  (length (c_input c) < fuel)%nat -> read_loop o fuel tm c <> RPanic.
Proof.
  induction fuel as [|f IH]; intros c Hlen; [lia|].
  cbn [read_loop]. destruct (read_step o tm c) as [c'|r] eqn:E.
  - apply IH. apply read_step_consumes in E. lia.
  - intros ->. exact (read_step_no_panic tm c E).
Qed.

Lemma read_loop_rest tm : forall fuel c t rest,
  read_loop o fuel tm c = ROk t rest -> (length rest < length (c_input c))%nat.
Proof.
  induction fuel as [|f IH]; intros c t rest H; [discriminate|].
  cbn [read_loop] in H. destruct (read_step o tm c) as [c'|r] eqn:E.
  - apply IH in H. apply read_step_consumes in E. lia.
  - subst r. exact (read_step_done_rest tm c t rest E).
Qed.

(* with enough fuel, a run can be followed *)
Lemma steps_loop tm c c' : steps tm c c' -> forall fuel,
  (length (c_input c) < fuel)%nat ->
  exists fuel', (length (c_input c') < fuel')%nat /\ read_loop o fuel tm c = read_loop o fuel' tm c'.
Proof.
  induction 1 as [c | c c1 c2 Hs _ IH]; intros fuel Hf.
  - exists fuel. auto.
  - destruct fuel as [|f]; [lia|]. cbn [read_loop]. rewrite Hs.
    apply IH. apply read_step_consumes in Hs. lia.
Qed.

Lemma steps_done tm c c' r fuel : steps tm c c' -> read_step o tm c' = Done r ->
  (length (c_input c) < fuel)%nat -> read_loop o fuel tm c = r.
Proof.
  intros Hs Hd Hf. destruct (steps_loop tm c c' Hs fuel Hf) as (f' & Hf' & ->).
  destruct f' as [|f']; [lia|]. cbn [read_loop]. rewrite Hd. reflexivity.
Qed.

(* ---- the stages of one written node ---------------------------------------- *)
Lemma name_stage tm nm dist kids b ra y r st :
  st = BeforeNode \/ st = AfterChildren -> is_punct y = true ->
  exists st' ra', (st' = st \/ st' = AfterName) /\
    steps tm (cfg st (mk [] dist kids) b ra (name_to_text nm ++ y :: r))
             (cfg st' (mk nm dist kids) b ra' (y :: r)).
Proof.
  intros Hst Hy. destruct nm as [|c nm'].
  - exists st, ra. split; [left; reflexivity | apply steps_refl].
  - assert (Hne : name_to_text (c :: nm') <> []).
    { intros E. apply (proj1 (name_text_nil _)) in E. discriminate E. }
    exists AfterName, true. split; [right; reflexivity|]. apply steps_one.
    rewrite (step_word_name tm st _ b ra _ (name_to_text (c :: nm')) (y :: r)).
    + rewrite name_roundtrip. reflexivity.
    + apply name_one_token; assumption.
    + apply name_text_word. exact Hne.
    + exact Hst.
Qed.

Lemma dist_stage tm nm d kids b ra x r st :
  st <> AfterColon -> st <> AfterDist -> is_punct x = true -> float_ok o d ->
  steps tm (cfg st (mk nm zeroF kids) b ra (58 :: fmtF o d ++ x :: r))
           (cfg AfterDist (mk nm d kids) b true (x :: r)).
Proof.
  intros H1 H2 Hx (Hparse & Hne & Hclean).
  eapply steps_cons; [apply step_colon; assumption|].
  apply steps_one.
  rewrite (step_word_dist tm _ b true _ (fmtF o d) (x :: r) d).
  - reflexivity.
  - apply tok_word_punct; [apply clean_delims_plain; exact Hclean | exact Hne | exact Hx].
  - apply plain_word; [apply clean_delims_plain; exact Hclean | exact Hne].
  - exact Hparse.
Qed.

Lemma tail_stage tm nm d kids b ra x r st :
  st = BeforeNode \/ st = AfterChildren -> is_punct x = true ->
  (is_zeroF d = false -> float_ok o d) ->
  exists st' ra', st' <> AfterColon /\
    steps tm (cfg st (mk [] zeroF kids) b ra
                (name_to_text nm ++ (if is_zeroF d then [] else 58 :: fmtF o d) ++ x :: r))
             (cfg st' (mk nm (norm_dist d) kids) b ra' (x :: r)).
Proof.
  intros Hst Hx Hd. unfold norm_dist. destruct (is_zeroF d) eqn:Ez.
  - destruct (name_stage tm nm zeroF kids b ra x r st Hst Hx) as (st' & ra' & Hst' & Hs).
    exists st', ra'. split; [|exact Hs].
    destruct Hst' as [->| ->]; [destruct Hst as [->| ->]|]; discriminate.
  - destruct (name_stage tm nm zeroF kids b ra 58 (fmtF o d ++ x :: r) st Hst eq_refl)
      as (st' & ra' & Hst' & Hs).
    exists AfterDist, true. split; [discriminate|].
    eapply steps_trans; [exact Hs|].
    apply dist_stage; [| | exact Hx | exact (Hd eq_refl)];
      destruct Hst' as [->| ->]; try discriminate; destruct Hst as [->| ->]; discriminate.
Qed.

(* ---- whole trees -------------------------------------------------------------- *)
Definition frame_of (t : tree) : frame :=
  mk (t_name t) (norm_dist (t_dist t)) (rev (map norm (t_children t))).

Lemma close_frame_of t : close (frame_of t) = norm t.
Proof.
  destruct t as [nm d cs]. unfold close, frame_of, mk. cbn [fr_name fr_dist fr_kids t_name t_dist t_children norm].
  rewrite rev_involutive. reflexivity.
Qed.

Definition add_kids (ts : list tree) (f : frame) : frame := fold_left (fun f t => add_kid t f) ts f.

Lemma add_kids_mk : forall ts n d ks, add_kids ts (mk n d ks) = mk n d (rev ts ++ ks).
Proof.
  induction ts as [|t ts IH]; intros n d ks; [reflexivity|].
  cbn [add_kids fold_left]. change (add_kid t (mk n d ks)) with (mk n d (t :: ks)).
  fold (add_kids ts (mk n d (t :: ks))). rewrite IH. cbn [rev]. rewrite <- app_assoc. reflexivity.
Qed.

Lemma add_kids_fresh ts : add_kids ts fresh = mk [] zeroF (rev ts).
Proof. change fresh with (mk [] zeroF []). rewrite add_kids_mk, app_nil_r. reflexivity. Qed.

Fixpoint kids_rest (l : list tree) : bytes :=
  match l with [] => [] | c :: r => 44 :: newick_text o c ++ kids_rest r end.

Lemma newick_text_leaf nm d :
  newick_text o (Node nm d []) = name_to_text nm ++ (if is_zeroF d then [] else 58 :: fmtF o d).
Proof. reflexivity. Qed.

Lemma newick_text_inner nm d c0 cr :
  newick_text o (Node nm d (c0 :: cr))
  = (40 :: newick_text o c0 ++ kids_rest cr ++ [41])
    ++ name_to_text nm ++ (if is_zeroF d then [] else 58 :: fmtF o d).
Proof. reflexivity. Qed.

Definition tree_reads (t : tree) : Prop :=
  forall tm b ra x r, is_closer x = true ->
  exists st' ra', st' <> AfterColon /\
    steps tm (cfg BeforeNode fresh b ra (newick_text o t ++ x :: r))
             (cfg st' (frame_of t) b ra' (x :: r)).

Lemma kids_stage tm : forall l c0 p b ra rest,
  tree_reads c0 -> Forall tree_reads l ->
  exists ra',
    steps tm (cfg BeforeNode fresh (p :: b) ra (newick_text o c0 ++ kids_rest l ++ 41 :: rest))
             (cfg AfterChildren (add_kids (map norm (c0 :: l)) p) b ra' rest).
Proof.
  induction l as [|c1 l IH]; intros c0 p b ra rest H0 HF.
  - cbn [kids_rest app].
    destruct (H0 tm (p :: b) ra 41 rest eq_refl) as (st' & ra' & Hst' & Hs).
    exists true. eapply steps_trans; [exact Hs|]. apply steps_one.
    rewrite (step_close tm st' _ p b ra' rest Hst'), close_frame_of. reflexivity.
  - inversion HF as [|? ? H1 HF']; subst.
    cbn [kids_rest]. rewrite <- app_comm_cons, <- app_assoc.
    destruct (H0 tm (p :: b) ra 44 (newick_text o c1 ++ kids_rest l ++ 41 :: rest) eq_refl)
      as (st' & ra' & Hst' & Hs).
    destruct (IH c1 (add_kid (norm c0) p) b true rest H1 HF') as (ra'' & Hs').
    exists ra''. eapply steps_trans; [exact Hs|].
    eapply steps_cons; [apply step_comma; exact Hst'|].
    rewrite close_frame_of. exact Hs'.
Qed.

Lemma Forall_flat_map' {A B} (P : B -> Prop) (f : A -> list B) l :
  Forall P (flat_map f l) -> Forall (fun x => Forall P (f x)) l.
Proof.
  induction l as [|a l IH]; intros H; [constructor|].
  cbn [flat_map] in H. apply Forall_app in H. destruct H as [Ha Hl].
  constructor; [exact Ha | exact (IH Hl)].
Qed.

Lemma floats_ok_node nm d cs : floats_ok o (Node nm d cs) ->
  (is_zeroF d = false -> float_ok o d) /\ Forall (floats_ok o) cs.
Proof.
  unfold floats_ok. cbn [dists]. intros H. inversion H as [|? ? Hd Hr]; subst.
  split; [exact Hd|]. apply Forall_flat_map' in Hr. exact Hr.
Qed.

Lemma all_trees_read : forall t, floats_ok o t -> tree_reads t.
Proof.
  induction t as [nm d cs HF] using tree_ind'. intros Hok.
  apply floats_ok_node in Hok. destruct Hok as [Hd Hcs].
  assert (HR : Forall tree_reads cs).
  { rewrite Forall_forall in *. intros c Hc. apply (HF c Hc). apply (Hcs c Hc). }
  intros tm b ra x r Hx. pose proof (closer_punct x Hx) as Hp.
  unfold frame_of. cbn [t_name t_dist t_children].
  destruct cs as [|c0 cr].
  - rewrite newick_text_leaf, <- app_assoc.
    apply (tail_stage tm nm d [] b ra x r BeforeNode (or_introl eq_refl) Hp Hd).
  - rewrite newick_text_inner.
    inversion HR as [|? ? H0 HR']; subst.
    destruct (kids_stage tm cr c0 fresh b true
                (name_to_text nm ++ (if is_zeroF d then [] else 58 :: fmtF o d) ++ x :: r) H0 HR')
      as (ra1 & Hs1).
    rewrite add_kids_fresh in Hs1.
    destruct (tail_stage tm nm d (rev (map norm (c0 :: cr))) b ra1 x r AfterChildren
                (or_intror eq_refl) Hp Hd) as (st' & ra' & Hst' & Hs2).
    exists st', ra'. split; [exact Hst'|].
    eapply steps_cons.
    + rewrite <- !app_assoc, <- app_comm_cons. apply step_open.
    + eapply steps_trans; [|exact Hs2].
      rewrite <- !app_assoc. cbn [app]. exact Hs1.
Qed.

(* ---- read_tree on a written tree ------------------------------------------------ *)
Lemma read_step_skip_ws tm st f b ra ws s : ws_string ws ->
  read_step o tm (cfg st f b ra (ws ++ s)) = read_step o tm (cfg st f b ra s).
Proof.
  intros H. unfold read_step, cfg. cbn [c_input c_state c_top c_below c_any].
  rewrite (next_token_skip_ws ws s tm H). reflexivity.
Qed.

Lemma read_tree_marshal tm t ws rest : ws_string ws -> floats_ok o t ->
  read_tree o (ws ++ marshal o t ++ rest) tm = ROk (norm t) rest.
Proof.
  intros Hws Hok. unfold read_tree, init_config, marshal.
  fold (cfg BeforeNode fresh [] false (ws ++ (newick_text o t ++ [59]) ++ rest)).
  cbn [read_loop]. rewrite (read_step_skip_ws tm _ _ _ _ ws _ Hws).
  rewrite <- app_assoc. cbn [app].
  destruct (all_trees_read t Hok tm [] false 59 rest eq_refl) as (st' & ra' & Hst' & Hs).
  change (match read_step o tm (cfg BeforeNode fresh [] false (newick_text o t ++ 59 :: rest)) with
          | Continue c' => read_loop o (length (ws ++ newick_text o t ++ 59 :: rest)) tm c'
          | Done r => r end)
    with (read_loop o (S (length (ws ++ newick_text o t ++ 59 :: rest))) tm
            (cfg BeforeNode fresh [] false (newick_text o t ++ 59 :: rest))).
  rewrite (steps_done tm _ _ (ROk (close (frame_of t)) rest) _ Hs (step_semi tm st' _ ra' rest Hst')).
  - rewrite close_frame_of. reflexivity.
  - cbn [c_input cfg]. rewrite !app_length. lia.
Qed.

Lemma read_tree_ws_eof ws : ws_string ws -> read_tree o ws TEOF = REOF.
Proof.
  intros H. unfold read_tree, init_config. cbn [read_loop]. unfold read_step.
  cbn [c_input c_any]. rewrite (next_token_ws_eof ws H). reflexivity.
Qed.

(* ---- sequences of trees ---------------------------------------------------------- *)
Lemma marshal_length t : (1 <= length (marshal o t))%nat.
Proof. unfold marshal. rewrite app_length. cbn [length]. lia. Qed.

Lemma decode_loop_seq : forall l ws0 fuel acc,
  ws_string ws0 -> Forall (fun p => floats_ok o (fst p) /\ ws_string (snd p)) l ->
  (length (ws0 ++ seq_text o l) < fuel)%nat ->
  decode_loop o fuel (ws0 ++ seq_text o l) TEOF acc
  = Ok (rev acc ++ map (fun p => Rec (norm (fst p))) l).
Proof.
  induction l as [|[t sep] l IH]; intros ws0 fuel acc Hws HF Hfuel.
  - destruct fuel as [|f]; [lia|]. cbn [seq_text decode_loop map]. rewrite app_nil_r.
    rewrite (read_tree_ws_eof ws0 Hws), app_nil_r. reflexivity.
  - inversion HF as [|? ? [Hok Hsep] HF']; subst. cbn [fst snd] in *.
    destruct fuel as [|f]; [lia|]. cbn [seq_text decode_loop].
    rewrite (read_tree_marshal TEOF t ws0 (sep ++ seq_text o l) Hws Hok).
    rewrite (IH sep f (Rec (norm t) :: acc) Hsep HF').
    + cbn [rev map fst]. rewrite <- app_assoc. reflexivity.
    + cbn [seq_text] in Hfuel. pose proof (marshal_length t).
      rewrite !app_length in *. lia.
Qed.

Lemma decode_seq ws0 l :
  ws_string ws0 -> Forall (fun p => floats_ok o (fst p) /\ ws_string (snd p)) l ->
  decode o (ws0 ++ seq_text o l) TEOF = Ok (map (fun p => Rec (norm (fst p))) l).
Proof.
  intros Hws HF. unfold decode. rewrite (decode_loop_seq l ws0 _ [] Hws HF); [reflexivity | lia].
Qed.

Lemma decode_marshal t : floats_ok o t -> decode o (marshal o t) TEOF = Ok [Rec (norm t)].
Proof.
  intros Hok.
  pose proof (decode_seq [] [(t, [])] (Forall_nil _)) as H.
  cbn [seq_text app map fst] in H. rewrite app_nil_r in H. apply H.
  constructor; [|constructor]. split; [exact Hok | constructor].
Qed.

(* ---- totality: the reader never panics -------------------------------------------- *)
Lemma read_tree_no_panic s tm : read_tree o s tm <> RPanic.
Proof. unfold read_tree. apply read_loop_no_panic. cbn [init_config c_input]. lia. Qed.

Lemma decode_loop_no_panic tm : forall fuel s acc,
  (length s < fuel)%nat -> decode_loop o fuel s tm acc <> Panic.
Proof.
  induction fuel as [|f IH]; intros s acc Hlen; [lia|].
  cbn [decode_loop]. destruct (read_tree o s tm) as [t rest| | |] eqn:E; try discriminate.
  - apply IH. unfold read_tree in E. apply read_loop_rest in E. cbn [init_config c_input] in E. lia.
  - exfalso. exact (read_tree_no_panic s tm E).
Qed.

Lemma decode_no_panic s tm : decode o s tm <> Panic.
Proof. unfold decode. apply decode_loop_no_panic. lia. Qed.

(* ---- condensed ----------------------------------------------------------------------- *)
(* parity of the number of quote bytes *)
Fixpoint odd_quotes (s : bytes) : bool :=
  match s with
  | [] => false
  | c :: r => if c =? 39 then negb (odd_quotes r) else odd_quotes r
  end.

Lemma outside_app : forall a q b,
  outside_quotes q (a ++ b) = outside_quotes q a ++ outside_quotes (xorb q (odd_quotes a)) b.
Proof.
  induction a as [|c a IH]; intros q b.
  - cbn [app outside_quotes odd_quotes]. rewrite Bool.xorb_false_r. reflexivity.
  - cbn [app outside_quotes odd_quotes]. destruct (c =? 39).
    + rewrite IH. f_equal. f_equal. destruct q, (odd_quotes a); reflexivity.
    + destruct q; rewrite IH; reflexivity.
Qed.

Lemma odd_app : forall a b, odd_quotes (a ++ b) = xorb (odd_quotes a) (odd_quotes b).
Proof.
  induction a as [|c a IH]; intros b; cbn [app odd_quotes].
  - destruct (odd_quotes b); reflexivity.
  - destruct (c =? 39); rewrite IH; [|reflexivity].
    destruct (odd_quotes a), (odd_quotes b); reflexivity.
Qed.

(* an even number of quotes, and no whitespace outside them *)
Definition quiet (s : bytes) : Prop :=
  odd_quotes s = false /\ Forall (fun b => is_ws b = false) (outside_quotes false s).

Lemma quiet_app a b : quiet a -> quiet b -> quiet (a ++ b).
Proof.
  intros [Pa Qa] [Pb Qb]. split.
  - rewrite odd_app, Pa, Pb. reflexivity.
  - rewrite outside_app, Pa. cbn [xorb]. apply Forall_app. split; assumption.
Qed.

Lemma quiet_nil : quiet [].
Proof. split; [reflexivity | constructor]. Qed.

Lemma quiet_byte c : (c =? 39) = false -> is_ws c = false -> quiet [c].
Proof.
  intros H Hw. unfold quiet. cbn [odd_quotes outside_quotes]. rewrite H.
  split; [reflexivity|]. repeat constructor. exact Hw.
Qed.

Lemma quiet_cons c s : (c =? 39) = false -> is_ws c = false -> quiet s -> quiet (c :: s).
Proof. intros H Hw Hs. apply (quiet_app [c] s); [apply quiet_byte; assumption | exact Hs]. Qed.

Lemma quiet_plain : forall w : list N, Forall (fun b => plain b = true) w -> quiet w.
Proof.
  induction w as [|c w IH]; intros H; [apply quiet_nil|].
  inversion H as [|? ? Hc Hw]; subst. unfold plain in Hc.
  rewrite !Bool.andb_true_iff, !Bool.negb_true_iff in Hc. destruct Hc as [[H39 _] Hws].
  apply quiet_cons; [exact H39 | exact Hws | exact (IH Hw)].
Qed.

(* inside quotes everything is hidden; a doubled quote leaves and re-enters *)
Lemma outside_dbl : forall s rest,
  outside_quotes true (dbl_quotes s ++ rest) = outside_quotes true rest.
Proof.
  induction s as [|c r IH]; intros rest; [reflexivity|].
  cbn [dbl_quotes]. destruct (c =? 39) eqn:E.
  - cbn [app outside_quotes N.eqb Pos.eqb negb]. apply IH.
  - cbn [app outside_quotes]. rewrite E. apply IH.
Qed.

Lemma odd_dbl : forall s, odd_quotes (dbl_quotes s) = false.
Proof.
  induction s as [|c r IH]; [reflexivity|].
  cbn [dbl_quotes]. destruct (c =? 39) eqn:E.
  - cbn [odd_quotes N.eqb Pos.eqb]. rewrite IH. reflexivity.
  - cbn [odd_quotes]. rewrite E. exact IH.
Qed.

Lemma quiet_quoted s : quiet (39 :: dbl_quotes s ++ [39]).
Proof.
  split.
  - cbn [odd_quotes N.eqb Pos.eqb]. rewrite odd_app, odd_dbl. reflexivity.
  - cbn [outside_quotes N.eqb Pos.eqb negb]. rewrite outside_dbl.
    cbn [outside_quotes N.eqb Pos.eqb negb]. constructor.
Qed.

Lemma quiet_name s : quiet (name_to_text s).
Proof.
  unfold name_to_text. destruct (existsb name_trigger s) eqn:E.
  - apply quiet_quoted.
  - apply quiet_plain. apply unquoted_text_plain. exact E.
Qed.

Lemma quiet_dist d : (is_zeroF d = false -> float_ok o d) ->
  quiet (if is_zeroF d then [] else 58 :: fmtF o d).
Proof.
  intros H. destruct (is_zeroF d); [apply quiet_nil|].
  destruct (H eq_refl) as (_ & _ & Hc).
  apply quiet_cons; [reflexivity | reflexivity |].
  apply quiet_plain. apply clean_delims_plain. exact Hc.
Qed.

Lemma quiet_text : forall t, floats_ok o t -> quiet (newick_text o t).
Proof.
  induction t as [nm d cs HF] using tree_ind'. intros Hok.
  apply floats_ok_node in Hok. destruct Hok as [Hd Hcs].
  assert (HQ : Forall (fun c => quiet (newick_text o c)) cs).
  { rewrite Forall_forall in *. intros c Hc. apply (HF c Hc). apply (Hcs c Hc). }
  destruct cs as [|c0 cr].
  - rewrite newick_text_leaf. apply quiet_app; [apply quiet_name | apply quiet_dist; exact Hd].
  - rewrite newick_text_inner. inversion HQ as [|? ? H0 HQ']; subst.
    apply quiet_app; [|apply quiet_app; [apply quiet_name | apply quiet_dist; exact Hd]].
    apply quiet_cons; [reflexivity | reflexivity |].
    apply quiet_app; [exact H0|]. apply quiet_app; [|apply quiet_byte; reflexivity].
    clear - HQ'. induction HQ' as [|c l Hc _ IH]; [apply quiet_nil|].
    cbn [kids_rest]. apply quiet_cons; [reflexivity | reflexivity |].
    apply quiet_app; assumption.
Qed.

Lemma marshal_condensed t : floats_ok o t ->
  condensed (marshal o t) /\ last (marshal o t) 0 = 59.
Proof.
  intros Hok. split.
  - unfold condensed, marshal.
    apply (quiet_app _ [59] (quiet_text t Hok) (quiet_byte 59 eq_refl eq_refl)).
  - unfold marshal. apply last_last.
Qed.

End Machine.

(* ---- norm only touches negative zeros ------------------------------------------------ *)
Lemma beqb_true : forall a b, beqb a b = true -> a = b.
Proof.
  induction a as [|x a IH]; destruct b as [|y b]; cbn [beqb]; intros H; try discriminate; [reflexivity|].
  apply Bool.andb_true_iff in H. destruct H as [H1 H2]. apply N.eqb_eq in H1. subst.
  f_equal. apply IH. exact H2.
Qed.

Lemma norm_dist_id d : d <> [45; 48] -> norm_dist d = d.
Proof.
  intros H. unfold norm_dist, is_zeroF. destruct (beqb d [48]) eqn:E1.
  - apply beqb_true in E1. subst. reflexivity.
  - destruct (beqb d [45; 48]) eqn:E2; [|reflexivity].
    apply beqb_true in E2. contradiction.
Qed.

Lemma norm_id : forall t, Forall (fun d => d <> [45; 48]) (dists t) -> norm t = t.
Proof.
  induction t as [nm d cs HF] using tree_ind'. cbn [dists norm]. intros H.
  inversion H as [|? ? Hd Hr]; subst. apply Forall_flat_map' in Hr.
  rewrite (norm_dist_id d Hd). f_equal.
  rewrite <- (map_id cs) at 2. apply map_ext_in. intros c Hc.
  rewrite Forall_forall in HF, Hr. apply (HF c Hc). apply (Hr c Hc).
Qed.
