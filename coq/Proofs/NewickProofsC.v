(* Proofs/NewickProofsC.v *)
From Bio Require Import Base.
