(* Proofs/ImpProofsN.v — translated source vs hand-written model, part 14: the SAM writer
   (tags.go: tagToText with its type switch on the `any` value, tagsToText with the range over
   the tag map and sort.Strings; sam.go: SAM.Write). *)
From Coq Require Import Sorting.Sorted.
From Coq Require Import ZifyBool ZifyNat ZifyN.
From Bio Require Import Base.
From Bio.gen Require Import ImpGen.
From Bio.Model Require Import GoSem GoLib.
From Bio.Model Require Sam.
From Bio.Spec Require Import SamSpec.
From Bio.Proofs Require Import ImpProofs ImpProofsB.
From Bio.Proofs Require ImpProofsE.
From Bio.Proofs Require SeqProofs SamProofsB.

Import Sam.

Definition any_of (v : tagval) : go_any :=
  match v with TA b => AnyByte b | TI z => AnyInt z | TF x => AnyFloat x | TZ s => AnyString s | TH h => AnyBytes h end.

Definition tags_of (m : tagmap) : list (list N * go_any) := map (fun p => (fst p, any_of (snd p))) m.

Definition sam_of (r : sam) : imp_sam_SAM :=
  Imp_sam_SAM (s_qname r) (s_flag r) (s_rname r) (s_pos r) (s_mapq r) (s_cigar r) (s_rnext r)
    (s_pnext r) (s_tlen r) (s_seq r) (s_qual r) (tags_of (s_tags r)).

(* ---- tagToText ---------------------------------------------------------------------------- *)
Lemma imp_tagToText o tag v : imp_sam_tagToText o tag (any_of v) = Ret (tag_text o (tag, v)).
Proof.
  unfold imp_sam_tagToText, tag_text, COLON. cbn [fst snd].
  destruct v; cbn [any_of tag_type tag_value go_hex_encode]; rewrite <- app_assoc; reflexivity.
Qed.

(* ---- sort.Strings --------------------------------------------------------------------------- *)
Lemma insert_same x : forall r, Sorted bytes_le (x :: r) -> insert_by go_string_lt x r = x :: r.
Proof.
  induction r as [|y r IH]; intros H; [reflexivity|].
  cbn [insert_by]. unfold go_string_lt at 1.
  inversion H as [|? ? Hs Hh]; subst. inversion Hh as [|? ? Hxy]; subst.
  unfold bytes_le in Hxy. destruct (bcompare x y) eqn:E; try reflexivity; [|congruence].
  apply SeqProofs.bcompare_eq in E. subst y. f_equal. apply IH. exact Hs.
Qed.

Lemma insert_by_is_insert_sorted e : forall l, Sorted bytes_le l ->
  insert_by go_string_lt e l = insert_sorted e l.
Proof.
  induction l as [|x r IH]; intros H; [reflexivity|].
  cbn [insert_by insert_sorted]. unfold go_string_lt, ble.
  destruct (bcompare e x) eqn:E.
  - apply SeqProofs.bcompare_eq in E. subst x. f_equal. apply insert_same. exact H.
  - reflexivity.
  - f_equal. apply IH. inversion H; assumption.
Qed.

Lemma go_sort_is_sort_strings l : go_sort go_string_lt l = sort_strings l.
Proof.
  induction l as [|e r IH]; [reflexivity|]. cbn [go_sort]. unfold sort_strings. cbn [fold_right].
  fold (sort_strings r). rewrite IH. apply insert_by_is_insert_sorted. apply SamProofsB.sort_strings_sorted.
Qed.

(* ---- tagsToText ------------------------------------------------------------------------------- *)
Theorem imp_tagsToText o m : imp_sam_tagsToText o (tags_of m) = Ret (tags_text o m).
Proof.
  unfold imp_sam_tagsToText, tags_text, go_make. cbn [Z.ltb Z.compare Z.to_nat repeat]. cbv zeta.
  assert (L : forall m acc,
    go_range (R := list (list N)) (tags_of m) (fun _ '(tag, val) texts => go_call (imp_sam_tagToText o tag val) (fun t__2 => Next (texts ++ [t__2]))) acc
    = Next (acc ++ map (tag_text o) m)).
  { clear. intros m acc. unfold go_range, indexed. generalize 0%Z as j. revert acc.
    induction m as [|[k v] m IH]; intros acc j; cbn [tags_of map length].
    - cbn. rewrite app_nil_r. reflexivity.
    - rewrite zseq_cons. cbn [combine go_iter fst snd].
      rewrite imp_tagToText. cbn [go_call]. fold (tags_of m). rewrite IH, <- app_assoc. reflexivity. }
  rewrite (L m []). cbn [after app]. rewrite go_sort_is_sort_strings. reflexivity.
Qed.

(* ---- SAM.Write ------------------------------------------------------------------------------------ *)
Definition tag_chunk_body : Z -> list N -> list (list N) -> res (list (list N)) (list (list N) * bool) :=
  (fun _ tag out__ => (let out__ := out__ ++ [[9%N] ++ tag] in let t__3 := (0%Z, false) in let err_2 := (snd t__3) in (if err_2 then Ret (out__, err_2) else Next out__))).

Lemma tag_chunks_iter l : forall j acc,
  go_iter (fun p => tag_chunk_body (fst p) (snd p)) (combine (zseq j (length l)) l) acc
  = Next (acc ++ map (fun t => TAB :: t) l).
Proof.
  induction l as [|x l IH]; intros j acc; cbn [length map].
  - cbn. rewrite app_nil_r. reflexivity.
  - rewrite zseq_cons. cbn [combine go_iter fst snd]. unfold tag_chunk_body at 1. cbn [snd].
    rewrite IH, <- app_assoc. reflexivity.
Qed.

Lemma tag_chunks_loop l acc : go_range l tag_chunk_body acc = Next (acc ++ map (fun t => TAB :: t) l).
Proof. unfold go_range, indexed. apply tag_chunks_iter. Qed.

Theorem imp_SAM_Write o r : imp_sam_SAM_Write o (sam_of r) = Ret (write_calls o r, false).
Proof.
  unfold imp_sam_SAM_Write, sam_of, write_calls, fields11.
  cbn [imp_sam_SAM_Qname imp_sam_SAM_Flag imp_sam_SAM_Rname imp_sam_SAM_Pos imp_sam_SAM_Mapq imp_sam_SAM_Cigar
       imp_sam_SAM_Rnext imp_sam_SAM_Pnext imp_sam_SAM_Tlen imp_sam_SAM_Seq imp_sam_SAM_Qual imp_sam_SAM_Tags].
  cbv zeta. cbn [snd after]. rewrite imp_tagsToText. cbn [go_call].
  change (go_range ?l _ ?a) with (go_range l tag_chunk_body a).
  rewrite tag_chunks_loop. cbn [after snd app join_with].
  unfold TAB, LF. repeat (rewrite <- ?app_assoc; cbn [app]). reflexivity.
Qed.

(* ---- splitTag ------------------------------------------------------------------------------------ *)
Lemma cut_at_split sep s a r : cut_at sep s = Some (a, r) -> s = a ++ sep :: r.
Proof.
  revert a r. induction s as [|c s IH]; intros a r H; cbn [cut_at] in H; [discriminate|].
  destruct (N.eqb_spec c sep) as [->|_].
  - injection H as <- <-. reflexivity.
  - destruct (cut_at sep s) as [[a' b']|]; [|discriminate]. injection H as <- <-.
    cbn [app]. f_equal. apply IH. reflexivity.
Qed.

Definition st_body : Z * N -> Z * Z -> res (Z * Z) (list (list N) * bool) :=
  fun p '(colon1, colon2) => let i := fst p in let c__ := snd p in
  let c := Z.of_N c__ in (if (Z.eqb c (58)%Z) then (if (Z.eqb colon1 (-1)%Z) then let colon1 := i in Next (colon1, colon2) else let colon2 := i in Brk (colon1, colon2)) else Next (colon1, colon2)).

Lemma st_second s : forall j c1 c2, c1 <> (-1)%Z ->
  go_iter st_body (combine (zseq j (length s)) s) (c1, c2)
  = match cut_at 58 s with
    | None => Next (c1, c2)
    | Some (b, _) => Next (c1, (j + Z.of_nat (length b))%Z)
    end.
Proof.
  induction s as [|c s IH]; intros j c1 c2 H1; [reflexivity|].
  cbn [length]. rewrite zseq_cons. cbn [combine go_iter cut_at]. unfold st_body at 1. cbn [fst snd]. cbv zeta.
  replace (Z.of_N c =? 58)%Z with (c =? 58) by (destruct (N.eqb_spec c 58); lia).
  destruct (c =? 58).
  - replace (c1 =? -1)%Z with false by lia. cbn [length]. f_equal. f_equal. lia.
  - rewrite IH by exact H1. destruct (cut_at 58 s) as [[b r]|]; [|reflexivity].
    cbn [length]. f_equal. f_equal. lia.
Qed.

Lemma st_first s : forall j, (0 <= j)%Z ->
  go_iter st_body (combine (zseq j (length s)) s) ((-1)%Z, (-1)%Z)
  = match cut_at 58 s with
    | None => Next ((-1)%Z, (-1)%Z)
    | Some (a, rest) =>
      match cut_at 58 rest with
      | None => Next ((j + Z.of_nat (length a))%Z, (-1)%Z)
      | Some (b, _) => Next ((j + Z.of_nat (length a))%Z, (j + Z.of_nat (length a) + 1 + Z.of_nat (length b))%Z)
      end
    end.
Proof.
  induction s as [|c s IH]; intros j Hj; [reflexivity|].
  cbn [length]. rewrite zseq_cons. cbn [combine go_iter cut_at]. unfold st_body at 1. cbn [fst snd]. cbv zeta.
  replace (Z.of_N c =? 58)%Z with (c =? 58) by (destruct (N.eqb_spec c 58); lia).
  destruct (c =? 58).
  - rewrite Z.eqb_refl. rewrite st_second by lia. cbn [length].
    destruct (cut_at 58 s) as [[b r]|]; f_equal; f_equal; lia.
  - rewrite IH by lia. destruct (cut_at 58 s) as [[a rest]|]; [|reflexivity].
    cbn [length]. destruct (cut_at 58 rest) as [[b r]|]; f_equal; f_equal; lia.
Qed.

Lemma slice_mid {A S R} (pre mid post : list A) i j (k : list A -> res S R) :
  i = go_len pre -> j = (go_len pre + go_len mid)%Z ->
  go_slice (pre ++ mid ++ post) i j k = k mid.
Proof.
  intros -> ->. unfold go_slice, go_len. rewrite !app_length.
  replace ((Z.of_nat (length pre) <? 0)%Z || (Z.of_nat (length pre) + Z.of_nat (length mid) <? Z.of_nat (length pre))%Z
           || (Z.of_nat (length pre + (length mid + length post)) <? Z.of_nat (length pre) + Z.of_nat (length mid))%Z) with false by lia.
  rewrite Nat2Z.id.
  replace (Z.to_nat (Z.of_nat (length pre) + Z.of_nat (length mid) - Z.of_nat (length pre))) with (length mid) by lia.
  rewrite skipn_app, skipn_all, Nat.sub_diag. cbn [app skipn].
  rewrite firstn_app, Nat.sub_diag, firstn_all. cbn [firstn]. rewrite app_nil_r. reflexivity.
Qed.

Theorem imp_splitTag tag :
  imp_sam_splitTag tag
  = match split_tag tag with
    | Some (a, b, c) => Ret ([a; b; c], false)
    | None => Ret ([[]; []; []], true)
    end.
Proof.
  unfold imp_sam_splitTag, split_tag, COLON. cbv zeta.
  unfold go_range, indexed.
  timeout 120 (change (go_iter _ (combine (zseq 0 (length tag)) tag) ((-1)%Z, (-1)%Z))
    with (go_iter st_body (combine (zseq 0 (length tag)) tag) ((-1)%Z, (-1)%Z))).
  rewrite st_first by lia.
  destruct (cut_at 58 tag) as [[a rest]|] eqn:E1; cbn [after]; [|reflexivity].
  destruct (cut_at 58 rest) as [[b c]|] eqn:E2; cbn [after Z.eqb]; [|reflexivity].
  apply cut_at_split in E1. apply cut_at_split in E2. subst rest. subst tag.
  replace (0 + Z.of_nat (length a) + 1 + Z.of_nat (length b) =? -1)%Z with false by lia. cbn [after].
  unfold bytes, byte in *.
  remember (a ++ 58 :: b ++ 58 :: c) as T eqn:ET.
  assert (T1 : T = [] ++ a ++ (58 :: b ++ 58 :: c)) by (rewrite ET; reflexivity).
  assert (T2 : T = (a ++ [58]) ++ b ++ (58 :: c)) by (rewrite ET, <- app_assoc; reflexivity).
  assert (T3 : T = (a ++ [58] ++ b ++ [58]) ++ c ++ []) by (rewrite ET, app_nil_r, <- !app_assoc; reflexivity).
  assert (TL : go_len T = (Z.of_nat (length a) + 1 + Z.of_nat (length b) + 1 + Z.of_nat (length c))%Z)
    by (rewrite ET; unfold go_len; rewrite !app_length; cbn [length]; rewrite !app_length; cbn [length]; lia).
  rewrite T1 at 1. rewrite (slice_mid [] a _ _ _ _ eq_refl) by (unfold go_len; cbn [length]; lia).
  unfold go_set at 1. cbn [go_len repeat length Z.of_nat Z.ltb Z.leb Z.compare orb Z.to_nat set_nth Pos.of_succ_nat Pos.succ].
  rewrite T2 at 1. rewrite (slice_mid (a ++ [58]) b _ _ _ _) by (unfold go_len; rewrite ?app_length; cbn [length]; lia).
  unfold go_set at 1. cbn [go_len length Z.of_nat Z.ltb Z.leb Z.compare orb Z.to_nat Pos.to_nat Pos.iter_op Nat.add set_nth Pos.of_succ_nat Pos.succ].
  rewrite T3 at 1. rewrite (slice_mid (a ++ [58] ++ b ++ [58]) c [] _ _ _)
    by (first [rewrite TL | idtac]; unfold go_len; rewrite ?app_length; cbn [length]; rewrite ?app_length; cbn [length]; lia).
  unfold go_set at 1. cbn [go_len length Z.of_nat Z.ltb Z.leb Z.compare orb Z.to_nat Pos.to_nat Pos.iter_op Nat.add set_nth Pos.of_succ_nat Pos.succ].
  reflexivity.
Qed.

(* ---- parseInts (the *int out-parameters are the list of the values they point to) ----------- *)
Definition pi_body (i : Z) (s : list N) (p : list Z) : res (list Z) (list Z * bool) :=
  let '(t__1, t__2) := go_atoi s in let n := t__1 in let err := t__2 in after (if err then Ret (p, (err)) else Next tt) (fun 'tt => go_set p i n (fun t__3 => let p := t__3 in Next p)).

Lemma pi_loop : forall strs done rest,
  length rest = length strs ->
  match parse_ints_loop strs with
  | Ok zs => go_iter (fun q => pi_body (fst q) (snd q)) (combine (zseq (Z.of_nat (length done)) (length strs)) strs) (done ++ rest)
             = Next (done ++ zs)
  | _ => exists p', go_iter (fun q => pi_body (fst q) (snd q)) (combine (zseq (Z.of_nat (length done)) (length strs)) strs) (done ++ rest)
                    = Ret (p', true)
  end.
Proof.
  induction strs as [|s strs IH]; intros done rest Hl.
  - destruct rest; [|discriminate]. cbn. reflexivity.
  - destruct rest as [|r0 rest]; [discriminate|]. injection Hl as Hl.
    assert (E : go_iter (fun q => pi_body (fst q) (snd q)) (combine (zseq (Z.of_nat (length done)) (length (s :: strs))) (s :: strs)) (done ++ r0 :: rest)
                = match atoi s with
                  | Some z => go_iter (fun q => pi_body (fst q) (snd q)) (combine (zseq (Z.of_nat (length (done ++ [z]))) (length strs)) strs) ((done ++ [z]) ++ rest)
                  | None => Ret (done ++ r0 :: rest, true)
                  end).
    { cbn [length]. rewrite zseq_cons. cbn [combine go_iter fst snd].
      unfold pi_body at 1. unfold go_atoi.
      destruct (atoi s) as [z|]; cbv beta iota zeta; cbn [after]; [|reflexivity].
      rewrite (go_set_mid done r0 rest _ _ _ eq_refl).
      replace (Z.of_nat (length done) + 1)%Z with (Z.of_nat (length (done ++ [z]))) by (rewrite app_length; cbn [length]; lia).
      replace (done ++ z :: rest) with ((done ++ [z]) ++ rest) by (rewrite <- app_assoc; reflexivity).
      reflexivity. }
    rewrite E. cbn [parse_ints_loop].
    destruct (atoi s) as [z|]; [|eexists; reflexivity].
    specialize (IH (done ++ [z]) rest Hl).
    destruct (parse_ints_loop strs) as [zs| |]; cbn [obind].
    + rewrite IH, <- app_assoc. reflexivity.
    + exact IH.
    + exact IH.
Qed.

Theorem imp_parseInts strs p : length p = length strs ->
  match parse_ints_loop strs with
  | Ok zs => imp_sam_parseInts strs p = Ret (zs, false)
  | _ => exists p', imp_sam_parseInts strs p = Ret (p', true)
  end.
Proof.
  intros Hl. unfold imp_sam_parseInts. unfold bytes, byte in *.
  destruct (Z.eqb_spec (go_len strs) (go_len p)) as [_|Hne]; [|unfold go_len in Hne; lia]. cbn [negb after].
  unfold go_range, indexed.
  timeout 120 (change (go_iter _ ?l p) with (go_iter (fun q => pi_body (fst q) (snd q)) l p)).
  pose proof (pi_loop strs [] p Hl) as H. cbn [length app Z.of_nat] in H. unfold bytes, byte in *.
  destruct (parse_ints_loop strs) as [zs| |].
  - rewrite H. reflexivity.
  - destruct H as (p' & ->). eexists. reflexivity.
  - destruct H as (p' & ->). eexists. reflexivity.
Qed.

(* ---- parseTags ---------------------------------------------------------------------------------- *)
Lemma map_set_tags k v m : go_map_set k (any_of v) (tags_of m) = tags_of (tag_set k v m).
Proof.
  induction m as [|[k' v'] m IH]; cbn [tags_of map go_map_set tag_set fst snd]; [reflexivity|].
  destruct (beqb k' k); cbn [map fst snd]; [reflexivity|]. fold (tags_of m). rewrite IH. reflexivity.
Qed.

Section Tags.
Variable o : foracle.

Definition pt_body : list N -> list (list N * go_any) -> res (list (list N * go_any)) (list (list N * go_any) * bool) :=
  (fun f result => go_call (imp_sam_splitTag f) (fun '(t__1, t__2) => let parts := t__1 in let err := t__2 in after (if err then Ret ([], err) else Next tt) (fun 'tt => go_index parts (1)%Z (fun t__3 => (if (beqb t__3 [65%N]) then go_index parts (2)%Z (fun t__4 => after (if (negb (Z.eqb (go_len t__4) (1)%Z)) then Ret ([], true) else Next tt) (fun 'tt => go_index parts (2)%Z (fun t__5 => go_index t__5 (0)%Z (fun t__6 => go_index parts (0)%Z (fun t__7 => let result := (go_map_set t__7 (AnyByte t__6) result) in Next result))))) else (if (beqb t__3 [105%N]) then go_index parts (2)%Z (fun t__8 => let '(t__9, t__10) := go_atoi t__8 in let x := t__9 in let err_2 := t__10 in after (if err_2 then Ret ([], true) else Next tt) (fun 'tt => go_index parts (0)%Z (fun t__11 => let result := (go_map_set t__11 (AnyInt x) result) in Next result))) else (if (beqb t__3 [102%N]) then go_index parts (2)%Z (fun t__12 => let '(t__13, t__14) := go_parse_float o t__12 in let x_2 := t__13 in let err_3 := t__14 in after (if err_3 then Ret ([], true) else Next tt) (fun 'tt => go_index parts (0)%Z (fun t__15 => let result := (go_map_set t__15 (AnyFloat x_2) result) in Next result))) else (if (beqb t__3 [90%N]) then go_index parts (2)%Z (fun t__16 => go_index parts (0)%Z (fun t__17 => let result := (go_map_set t__17 (AnyString t__16) result) in Next result)) else (if (beqb t__3 [72%N]) then go_index parts (2)%Z (fun t__18 => let '(t__19, t__20) := go_hex_decode t__18 in let x_3 := t__19 in let err_4 := t__20 in after (if err_4 then Ret ([], true) else Next tt) (fun 'tt => go_index parts (0)%Z (fun t__21 => let result := (go_map_set t__21 (AnyBytes x_3) result) in Next result))) else (if (beqb t__3 [66%N]) then go_index parts (2)%Z (fun t__22 => go_index parts (0)%Z (fun t__23 => let result := (go_map_set t__23 (AnyString t__22) result) in Next result)) else Ret ([], true))))))))))).

Lemma pt_step f m :
  pt_body f (tags_of m)
  = match split_tag f with
    | None => Ret ([], true)
    | Some (name, ty, v) =>
      match parse_tag_value o ty v with
      | None => Ret ([], true)
      | Some tv => Next (tags_of (tag_set name tv m))
      end
    end.
Proof.
  unfold pt_body. rewrite imp_splitTag.
  destruct (split_tag f) as [[[name ty] v]|]; cbn [go_call]; cbv beta iota zeta; cbn [after]; [|reflexivity].
  assert (I0 : forall S' (k : list N -> res S' (list (list N * go_any) * bool)), go_index [name; ty; v] 0 k = k name) by reflexivity.
  assert (I1 : forall S' (k : list N -> res S' (list (list N * go_any) * bool)), go_index [name; ty; v] 1 k = k ty) by reflexivity.
  assert (I2 : forall S' (k : list N -> res S' (list (list N * go_any) * bool)), go_index [name; ty; v] 2 k = k v) by reflexivity.
  unfold parse_tag_value. rewrite I1.
  destruct (beqb ty [65%N]).
  { rewrite !I2. destruct v as [|b [|b' v']].
    - reflexivity.
    - change (go_len [b] =? 1)%Z with true. cbn [negb after].
      rewrite (ImpProofsE.go_index_some [b] 0%Z b) by (first [lia | reflexivity]). rewrite I0. rewrite (map_set_tags name (TA b)). reflexivity.
    - replace (go_len (b :: b' :: v') =? 1)%Z with false by (unfold go_len; cbn [length]; lia). reflexivity. }
  destruct (beqb ty [105%N]).
  { rewrite I2. unfold go_atoi. destruct (atoi v) as [z|]; cbv beta iota zeta; cbn [after option_map]; [|reflexivity].
    rewrite I0, (map_set_tags name (TI z)). reflexivity. }
  destruct (beqb ty [102%N]).
  { rewrite I2. unfold go_parse_float. destruct (parseF o v) as [x|]; cbv beta iota zeta; cbn [after option_map]; [|reflexivity].
    rewrite I0, (map_set_tags name (TF x)). reflexivity. }
  destruct (beqb ty [90%N]).
  { rewrite I2, I0, (map_set_tags name (TZ v)). reflexivity. }
  destruct (beqb ty [72%N]).
  { rewrite I2. unfold go_hex_decode. destruct (hex_decode v) as [h|]; cbv beta iota zeta; cbn [after option_map]; [|reflexivity].
    rewrite I0, (map_set_tags name (TH h)). reflexivity. }
  destruct (beqb ty [66%N]).
  { rewrite I2, I0, (map_set_tags name (TZ v)). reflexivity. }
  reflexivity.
Qed.

Lemma pt_loop values : forall m,
  go_iter pt_body values (tags_of m)
  = match parse_tags_from o m values with
    | Ok m' => Next (tags_of m')
    | _ => Ret ([], true)
    end.
Proof.
  induction values as [|f values IH]; intros m; cbn [go_iter parse_tags_from]; [reflexivity|].
  rewrite pt_step. destruct (split_tag f) as [[[name ty] v]|]; [|reflexivity].
  destruct (parse_tag_value o ty v) as [tv|]; [|reflexivity]. apply IH.
Qed.

Theorem imp_parseTags values :
  imp_sam_parseTags o values
  = match parse_tags o values with Ok m => Ret (tags_of m, false) | _ => Ret ([], true) end.
Proof.
  unfold imp_sam_parseTags, parse_tags. cbv zeta.
  rewrite (ImpProofs.go_range_elems values pt_body).
  change (@nil (list N * go_any)) with (tags_of []) at 1.
  rewrite pt_loop. destruct (parse_tags_from o [] values); reflexivity.
Qed.

End Tags.

(* ---- parseLine ------------------------------------------------------------------------------------ *)
Definition sam_zero : imp_sam_SAM := Imp_sam_SAM [] 0%Z [] 0%Z 0%Z [] [] 0%Z 0%Z [] [] [].

Lemma parse_ints_loop_length strs : forall zs, parse_ints_loop strs = Ok zs -> length zs = length strs.
Proof.
  induction strs as [|s strs IH]; intros zs H; cbn [parse_ints_loop] in H.
  - injection H as <-. reflexivity.
  - destruct (atoi s); [|discriminate]. destruct (parse_ints_loop strs) as [zs'| |]; try discriminate.
    cbn [obind] in H. injection H as <-. cbn [length]. f_equal. apply IH. reflexivity.
Qed.

Lemma parse_ints_loop_no_panic strs : parse_ints_loop strs <> Panic.
Proof.
  induction strs as [|s strs IH]; cbn [parse_ints_loop]; [discriminate|].
  destruct (atoi s); [|discriminate]. destruct (parse_ints_loop strs); cbn [obind]; try discriminate. congruence.
Qed.

Theorem imp_parseLine o line :
  imp_sam_parseLine o line
  = match parse_line o line with
    | Ok r => Ret (Some (sam_of r), false)
    | _ => Ret (None, true)
    end.
Proof.
  unfold imp_sam_parseLine, parse_line. unfold bytes, byte in *. change (Imp_sam_SAM [] 0%Z [] 0%Z 0%Z [] [] 0%Z 0%Z [] [] []) with sam_zero.
  destruct line as [|f0 [|f1 [|f2 [|f3 [|f4 [|f5 [|f6 [|f7 [|f8 [|f9 [|f10 rest]]]]]]]]]]]; try reflexivity.
  replace (go_len (f0 :: f1 :: f2 :: f3 :: f4 :: f5 :: f6 :: f7 :: f8 :: f9 :: f10 :: rest) <? 11)%Z with false
    by (unfold go_len; cbn [length]; lia).
  cbn [after]. cbv zeta.
  set (line := f0 :: f1 :: f2 :: f3 :: f4 :: f5 :: f6 :: f7 :: f8 :: f9 :: f10 :: rest).
  assert (I : forall S' R' (k : list N -> res S' R'),
    go_index line 0%Z k = k f0 /\ go_index line 1%Z k = k f1 /\ go_index line 2%Z k = k f2 /\ go_index line 3%Z k = k f3
    /\ go_index line 4%Z k = k f4 /\ go_index line 5%Z k = k f5 /\ go_index line 6%Z k = k f6 /\ go_index line 7%Z k = k f7
    /\ go_index line 8%Z k = k f8 /\ go_index line 9%Z k = k f9 /\ go_index line 10%Z k = k f10) by (intros; repeat split; reflexivity).
  rewrite (proj1 (I _ _ _)).
  rewrite (proj1 (proj2 (proj2 (I _ _ _)))).
  rewrite (proj1 (proj2 (proj2 (proj2 (proj2 (proj2 (I _ _ _))))))).
  rewrite (proj1 (proj2 (proj2 (proj2 (proj2 (proj2 (proj2 (I _ _ _)))))))).
  rewrite (proj1 (proj2 (proj2 (proj2 (proj2 (proj2 (proj2 (proj2 (proj2 (proj2 (I _ _ _))))))))))).
  rewrite (proj2 (proj2 (proj2 (proj2 (proj2 (proj2 (proj2 (proj2 (proj2 (proj2 (I _ _ _))))))))))).
  cbn [go_snm_at].
  rewrite (proj1 (proj2 (I _ _ _))).
  rewrite (proj1 (proj2 (proj2 (proj2 (I _ _ _))))).
  rewrite (proj1 (proj2 (proj2 (proj2 (proj2 (I _ _ _)))))).
  rewrite (proj1 (proj2 (proj2 (proj2 (proj2 (proj2 (proj2 (proj2 (I _ _ _))))))))).
  rewrite (proj1 (proj2 (proj2 (proj2 (proj2 (proj2 (proj2 (proj2 (proj2 (I _ _ _)))))))))).
  cbn [imp_sam_SAM_Flag imp_sam_SAM_Pos imp_sam_SAM_Mapq imp_sam_SAM_Pnext imp_sam_SAM_Tlen
       imp_sam_SAM_with_Qname imp_sam_SAM_with_Rname imp_sam_SAM_with_Cigar imp_sam_SAM_with_Rnext imp_sam_SAM_with_Seq imp_sam_SAM_with_Qual].
  change [imp_sam_SAM_Flag sam_zero; imp_sam_SAM_Pos sam_zero; imp_sam_SAM_Mapq sam_zero; imp_sam_SAM_Pnext sam_zero; imp_sam_SAM_Tlen sam_zero] with [0; 0; 0; 0; 0]%Z.
  unfold parse_ints. cbn [length Nat.eqb]. unfold bytes, byte in *.
  pose proof (imp_parseInts [f1; f3; f4; f7; f8] [0; 0; 0; 0; 0]%Z eq_refl) as HP.
  pose proof (parse_ints_loop_length [f1; f3; f4; f7; f8]) as HL.
  pose proof (parse_ints_loop_no_panic [f1; f3; f4; f7; f8]) as HN. unfold bytes, byte in *.
  destruct (parse_ints_loop [f1; f3; f4; f7; f8]) as [zs| |]; cbn [obind]; [| |congruence].
  - specialize (HL zs eq_refl). destruct zs as [|fl [|po [|mq [|pn [|tl [|x zs]]]]]]; try (cbn [length] in HL; lia).
    rewrite HP. cbn [go_call nth]. cbv zeta. cbn [after].
    unfold go_slice, go_len, line. cbn [length].
    replace ((11 <? 0)%Z || (Z.of_nat (S (S (S (S (S (S (S (S (S (S (S (length rest)))))))))))) <? 11)%Z
             || (Z.of_nat (S (S (S (S (S (S (S (S (S (S (S (length rest)))))))))))) <? Z.of_nat (S (S (S (S (S (S (S (S (S (S (S (length rest)))))))))))))%Z) with false by lia.
    replace (Z.to_nat (Z.of_nat (S (S (S (S (S (S (S (S (S (S (S (length rest))))))))))))- 11)) with (length rest) by lia.
    change (Z.to_nat 11) with 11%nat. cbn [skipn]. rewrite firstn_all.
    rewrite imp_parseTags. destruct (parse_tags o rest) as [m| |]; cbn [go_call obind]; cbv zeta; cbn [after]; reflexivity.
  - destruct HP as (p' & ->). cbn [go_call]. cbv zeta. cbn [after]. reflexivity.
Qed.

(* ---- SAM.MarshalText -------------------------------------------------------------------------------- *)
Theorem imp_SAM_MarshalText o r :
  imp_sam_SAM_MarshalText o (sam_of r) = Ret (write o r, false).
Proof. unfold imp_sam_SAM_MarshalText, write. cbv zeta. rewrite imp_SAM_Write. reflexivity. Qed.
