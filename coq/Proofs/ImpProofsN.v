(* Proofs/ImpProofsN.v — translated source vs hand-written model, part 14: the SAM writer
   (tags.go: tagToText with its type switch on the `any` value, tagsToText with the range over
   the tag map and sort.Strings; sam.go: SAM.Write). *)
From Coq Require Import Sorting.Sorted.
From Coq Require Import ZifyBool ZifyNat ZifyN.
From Bio Require Import Base.
From Bio.gen Require Import ImpGen.
From Bio.Model Require Import GoSem GoLib.
From Bio.Model Require Sam.
From Bio.Spec Require Import SamSpec.
From Bio.Proofs Require Import ImpProofs ImpProofsB.
From Bio.Proofs Require SeqProofs SamProofsB.

Import Sam.

Definition any_of (v : tagval) : go_any :=
  match v with TA b => AnyByte b | TI z => AnyInt z | TF x => AnyFloat x | TZ s => AnyString s | TH h => AnyBytes h end.

Definition tags_of (m : tagmap) : list (list N * go_any) := map (fun p => (fst p, any_of (snd p))) m.

Definition sam_of (r : sam) : imp_sam_SAM :=
  Imp_sam_SAM (s_qname r) (s_flag r) (s_rname r) (s_pos r) (s_mapq r) (s_cigar r) (s_rnext r)
    (s_pnext r) (s_tlen r) (s_seq r) (s_qual r) (tags_of (s_tags r)).

(* ---- tagToText ---------------------------------------------------------------------------- *)
Lemma imp_tagToText o tag v : imp_sam_tagToText o tag (any_of v) = Ret (tag_text o (tag, v)).
Proof.
  unfold imp_sam_tagToText, tag_text, COLON. cbn [fst snd].
  destruct v; cbn [any_of tag_type tag_value go_hex_encode]; rewrite <- app_assoc; reflexivity.
Qed.

(* ---- sort.Strings --------------------------------------------------------------------------- *)
Lemma insert_same x : forall r, Sorted bytes_le (x :: r) -> insert_by go_string_lt x r = x :: r.
Proof.
  induction r as [|y r IH]; intros H; [reflexivity|].
  cbn [insert_by]. unfold go_string_lt at 1.
  inversion H as [|? ? Hs Hh]; subst. inversion Hh as [|? ? Hxy]; subst.
  unfold bytes_le in Hxy. destruct (bcompare x y) eqn:E; try reflexivity; [|congruence].
  apply SeqProofs.bcompare_eq in E. subst y. f_equal. apply IH. exact Hs.
Qed.

Lemma insert_by_is_insert_sorted e : forall l, Sorted bytes_le l ->
  insert_by go_string_lt e l = insert_sorted e l.
Proof.
  induction l as [|x r IH]; intros H; [reflexivity|].
  cbn [insert_by insert_sorted]. unfold go_string_lt, ble.
  destruct (bcompare e x) eqn:E.
  - apply SeqProofs.bcompare_eq in E. subst x. f_equal. apply insert_same. exact H.
  - reflexivity.
  - f_equal. apply IH. inversion H; assumption.
Qed.

Lemma go_sort_is_sort_strings l : go_sort go_string_lt l = sort_strings l.
Proof.
  induction l as [|e r IH]; [reflexivity|]. cbn [go_sort]. unfold sort_strings. cbn [fold_right].
  fold (sort_strings r). rewrite IH. apply insert_by_is_insert_sorted. apply SamProofsB.sort_strings_sorted.
Qed.

(* ---- tagsToText ------------------------------------------------------------------------------- *)
Theorem imp_tagsToText o m : imp_sam_tagsToText o (tags_of m) = Ret (tags_text o m).
Proof.
  unfold imp_sam_tagsToText, tags_text, go_make. cbn [Z.ltb Z.compare Z.to_nat repeat]. cbv zeta.
  assert (L : forall m acc,
    go_range (R := list (list N)) (tags_of m) (fun _ '(tag, val) texts => go_call (imp_sam_tagToText o tag val) (fun t__2 => Next (texts ++ [t__2]))) acc
    = Next (acc ++ map (tag_text o) m)).
  { clear. intros m acc. unfold go_range, indexed. generalize 0%Z as j. revert acc.
    induction m as [|[k v] m IH]; intros acc j; cbn [tags_of map length].
    - cbn. rewrite app_nil_r. reflexivity.
    - rewrite zseq_cons. cbn [combine go_iter fst snd].
      rewrite imp_tagToText. cbn [go_call]. fold (tags_of m). rewrite IH, <- app_assoc. reflexivity. }
  rewrite (L m []). cbn [after app]. rewrite go_sort_is_sort_strings. reflexivity.
Qed.

(* ---- SAM.Write ------------------------------------------------------------------------------------ *)
Definition tag_chunk_body : Z -> list N -> list (list N) -> res (list (list N)) (list (list N) * bool) :=
  (fun _ tag out__ => (let out__ := out__ ++ [[9%N] ++ tag] in let t__3 := (0%Z, false) in let err_2 := (snd t__3) in (if err_2 then Ret (out__, err_2) else Next out__))).

Lemma tag_chunks_iter l : forall j acc,
  go_iter (fun p => tag_chunk_body (fst p) (snd p)) (combine (zseq j (length l)) l) acc
  = Next (acc ++ map (fun t => TAB :: t) l).
Proof.
  induction l as [|x l IH]; intros j acc; cbn [length map].
  - cbn. rewrite app_nil_r. reflexivity.
  - rewrite zseq_cons. cbn [combine go_iter fst snd]. unfold tag_chunk_body at 1. cbn [snd].
    rewrite IH, <- app_assoc. reflexivity.
Qed.

Lemma tag_chunks_loop l acc : go_range l tag_chunk_body acc = Next (acc ++ map (fun t => TAB :: t) l).
Proof. unfold go_range, indexed. apply tag_chunks_iter. Qed.

Theorem imp_SAM_Write o r : imp_sam_SAM_Write o (sam_of r) = Ret (write_calls o r, false).
Proof.
  unfold imp_sam_SAM_Write, sam_of, write_calls, fields11.
  cbn [imp_sam_SAM_Qname imp_sam_SAM_Flag imp_sam_SAM_Rname imp_sam_SAM_Pos imp_sam_SAM_Mapq imp_sam_SAM_Cigar
       imp_sam_SAM_Rnext imp_sam_SAM_Pnext imp_sam_SAM_Tlen imp_sam_SAM_Seq imp_sam_SAM_Qual imp_sam_SAM_Tags].
  cbv zeta. cbn [snd after]. rewrite imp_tagsToText. cbn [go_call].
  change (go_range ?l _ ?a) with (go_range l tag_chunk_body a).
  rewrite tag_chunks_loop. cbn [after snd app join_with].
  unfold TAB, LF. repeat (rewrite <- ?app_assoc; cbn [app]). reflexivity.
Qed.
