(* Proofs/SeqProofsC.v *)
From Bio Require Import Base.
