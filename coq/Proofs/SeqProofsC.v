(* Proofs/SeqProofsC.v — intentionally empty: the C12 lemmas are in SeqProofs.v,
   the C13 lemmas in SeqProofsB.v, the C14 lemmas in TranslateProofs.v. *)
From Bio Require Import Base.
