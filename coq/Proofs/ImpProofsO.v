(* Proofs/ImpProofsO.v — translated source vs hand-written model, part 15: smtext.ReadNCBI
   (the Scanner loop, comment and blank lines, the header row through extractSingleChar, the
   value rows through ParseFloat and the map store, the final sc.Err()). *)
From Coq Require Import ZifyBool ZifyNat ZifyN.
From Bio Require Import Base.
From Bio.gen Require Import ImpGen.
From Bio.Model Require Import GoSem GoLib.
From Bio.Model Require Smtext.
From Bio.Proofs Require Import ImpProofs ImpProofsB ImpProofsG.
From Bio.Proofs Require ImpProofsE.
Open Scope Z_scope.

Import Smtext.

Definition nc_result : Type := (go_scanner * (list ((N * N) * F) * Z))%type.

Lemma map_set2_is_mset k x m : go_map_set2 k x m = mset k x m.
Proof.
  induction m as [|[k' y] r IH]; cbn [go_map_set2 mset]; [reflexivity|]. unfold keqb, key, byte in *.
  destruct ((fst k =? fst k')%N && (snd k =? snd k')%N); [reflexivity|]. rewrite IH. reflexivity.
Qed.

Section NCBI.
Variable o : foracle.
Variable rd : go_scanner.   (* the scanner state while a line is processed: only returned with errors *)

(* ---- the header row ---------------------------------------------------------------------------------- *)
Definition hdr_body : list N -> list N -> res (list N) nc_result :=
  (fun char chars => go_call (imp_smtext_extractSingleChar char) (fun '(t__5, t__6) => let b := t__5 in let err := t__6 in (if (negb (Z.eqb err 0%Z)) then Ret (rd, ([], err)) else let chars := (chars ++ [b]) in Next chars))).

Lemma hdr_loop fs : forall chars,
  go_iter hdr_body fs chars
  = match header_chars fs with
    | Ok cs => Next (chars ++ cs)
    | _ => Ret (rd, ([], 2))
    end.
Proof.
  induction fs as [|f fs IH]; intros chars; cbn [go_iter header_chars].
  - rewrite app_nil_r. reflexivity.
  - unfold hdr_body at 1. rewrite imp_extractSingleChar.
    destruct (extract_single_char f) as [b| |]; cbn [go_call obind]; cbv beta iota zeta; cbn [Z.eqb negb]; try reflexivity.
    rewrite IH. destruct (header_chars fs) as [cs| |]; cbn [obind]; try reflexivity.
    rewrite <- app_assoc. reflexivity.
Qed.

Lemma header_chars_no_panic fs : header_chars fs <> Panic.
Proof.
  induction fs as [|f fs IH]; cbn [header_chars]; [discriminate|].
  unfold extract_single_char. destruct f as [|c [|d r]]; cbn [obind]; try discriminate.
  destruct (c =? 42)%N; cbn [obind]; destruct (header_chars fs); cbn [obind]; congruence.
Qed.

(* ---- a value row ----------------------------------------------------------------------------------------- *)
Definition row_body (c : N) (chars : list N) : Z * list N -> list ((N * N) * F) -> res (list ((N * N) * F)) nc_result :=
  fun p m => let i := fst p in let val := snd p in
  let '(t__11, t__12) := go_parse_float_z o val in let x := t__11 in let err_3 := t__12 in (if (negb (Z.eqb err_3 0%Z)) then Ret (rd, ([], 2%Z)) else go_index chars i (fun t__13 => let m := (go_map_set2 (c, t__13) x m) in Next m)).

Lemma row_loop c vals : forall pre rest m,
  go_iter (row_body c (pre ++ rest)) (combine (zseq (Z.of_nat (length pre)) (length vals)) vals) m
  = match set_row o c rest vals m with
    | Ok m' => Next m'
    | Err => Ret (rd, ([], 2))
    | Panic => Panics
    end.
Proof.
  induction vals as [|v vals IH]; intros pre rest m; cbn [length]; [reflexivity|].
  rewrite zseq_cons. cbn [combine go_iter set_row]. unfold row_body at 1. cbn [fst snd]. unfold go_parse_float_z.
  destruct (parseF o v) as [x|]; cbv beta iota zeta; cbn [Z.eqb negb]; [|reflexivity].
  destruct rest as [|d ds].
  - rewrite app_nil_r. unfold go_index. destruct (Z.ltb_spec (Z.of_nat (length pre)) 0); [lia|].
    rewrite Nat2Z.id. rewrite (proj2 (nth_error_None pre (length pre))) by lia. reflexivity.
  - rewrite (go_index_mid pre d ds _ _ eq_refl). cbv zeta. rewrite map_set2_is_mset.
    replace (pre ++ d :: ds) with ((pre ++ [d]) ++ ds) by (rewrite <- app_assoc; reflexivity).
    replace (Z.of_nat (length pre) + 1) with (Z.of_nat (length (pre ++ [d]))) by (rewrite app_length; cbn [length]; lia).
    apply IH.
Qed.

End NCBI.

(* ---- one line, the loop, the ending ---------------------------------------------------------------------- *)
Section NCBILoop.
Variable o : foracle.

Definition nc_state : Type := (list N * list ((N * N) * F) * go_scanner)%type.
Definition nc_body : nc_state -> res nc_state nc_result :=
  (fun '((chars, m, rd__) : ((list N) * (list ((N * N) * F)) * go_scanner)) => let '(t__1, rd__) := go_scan rd__ in (if (negb t__1) then Brk (chars, m, rd__) else let row := (sc_cur rd__) in go_orelse (beqb row (@nil N)) (fun t__4 => go_index row (0)%Z (fun t__2 => t__4 (N.eqb t__2 35%N))) (fun t__3 => (if t__3 then Next (chars, m, rd__) else (if (match chars with [] => true | _ => false end) then let charStrs := (go_fields row) in after (go_range charStrs (fun _ char chars => go_call (imp_smtext_extractSingleChar char) (fun '(t__5, t__6) => let b := t__5 in let err := t__6 in (if (negb (Z.eqb err 0%Z)) then Ret (rd__, ([], err)) else let chars := (chars ++ [b]) in Next chars))) chars) (fun chars => Next (chars, m, rd__)) else let valStrs := (go_fields row) in (if (negb (Z.eqb (go_len valStrs) (Z.add (go_len chars) (1)%Z))) then Ret (rd__, ([], 2%Z)) else go_index valStrs (0)%Z (fun t__7 => go_call (imp_smtext_extractSingleChar t__7) (fun '(t__8, t__9) => let c := t__8 in let err_2 := t__9 in (if (negb (Z.eqb err_2 0%Z)) then Ret (rd__, ([], err_2)) else go_slice valStrs (1)%Z (go_len valStrs) (fun t__10 => after (go_range t__10 (fun i val m => let '(t__11, t__12) := go_parse_float_z o val in let x := t__11 in let err_3 := t__12 in (if (negb (Z.eqb err_3 0%Z)) then Ret (rd__, ([], 2%Z)) else go_index chars i (fun t__13 => let m := (go_map_set2 (c, t__13) x m) in Next m))) m) (fun m => Next (chars, m, rd__)))))))))))).

Lemma nc_end chars m cur code dn :
  nc_body (chars, m, Scanner cur [] code dn) = Brk (chars, m, Scanner [] [] code true).
Proof. reflexivity. Qed.

Lemma nc_line chars m cur l toks code dn :
  nc_body (chars, m, Scanner cur (l :: toks) code dn)
  = match read_line o l (m, chars) with
    | Ok (m', chars') => Next (chars', m', Scanner l toks code dn)
    | Err => Ret (Scanner l toks code dn, ([], 2))
    | Panic => Panics
    end.
Proof.
  unfold nc_body. cbv beta iota. cbn [go_scan sc_toks sc_err sc_done negb sc_cur]. cbv beta iota zeta.
  unfold read_line, skip_line, go_orelse. cbn [fst snd].
  set (R := Scanner l toks code dn).
  destruct l as [|c0 l'].
  - reflexivity.
  - cbn [beqb]. rewrite (ImpProofsE.go_index_some (c0 :: l') 0 c0) by (first [lia | reflexivity]).
    destruct (c0 =? 35)%N; [reflexivity|].
    unfold go_fields. set (fs := fields (c0 :: l')).
    destruct chars as [|d ds].
    + (* the header row *)
      change (go_range fs _ []) with (go_range fs (fun _ x s => hdr_body R x s) []).
      rewrite (go_range_elems fs (hdr_body R) []). unfold bytes, byte in *. rewrite (hdr_loop R fs []).
      pose proof (header_chars_no_panic fs) as Hnp.
      destruct (header_chars fs) as [cs| |]; [reflexivity|reflexivity|congruence].
    + (* a value row *)
      unfold read_row. unfold go_len. cbn [length]. unfold bytes, byte in *.
      replace (Z.of_nat (length fs) =? Z.of_nat (S (length ds)) + 1) with (Nat.eqb (length fs) (S (S (length ds))))
        by (destruct (Nat.eqb_spec (length fs) (S (S (length ds)))); lia).
      destruct (Nat.eqb (length fs) (S (S (length ds)))) eqn:El; cbn [negb]; [|reflexivity].
      destruct fs as [|f0 vals]; [discriminate|].
      rewrite (ImpProofsE.go_index_some (f0 :: vals) 0 f0) by (first [lia | reflexivity]).
      rewrite imp_extractSingleChar.
      assert (Hx : extract_single_char f0 <> Panic) by (unfold extract_single_char; destruct f0 as [|c1 [|c2 r0]]; try discriminate; destruct (c1 =? 42)%N; discriminate).
      destruct (extract_single_char f0) as [c| |]; cbn [go_call obind]; cbv beta iota zeta; cbn [Z.eqb negb]; [|reflexivity|congruence].
      unfold go_slice, go_len. cbn [length].
      replace ((1 <? 0) || (Z.of_nat (S (length vals)) <? 1) || (Z.of_nat (S (length vals)) <? Z.of_nat (S (length vals)))) with false by lia.
      replace (Z.to_nat (Z.of_nat (S (length vals)) - 1)) with (length vals) by lia.
      change (Z.to_nat 1) with 1%nat. cbn [skipn]. rewrite firstn_all.
      unfold go_range, indexed.
      timeout 120 (change (go_iter _ (combine (zseq 0 (length vals)) vals) m)
        with (go_iter (row_body o R c ([] ++ d :: ds)) (combine (zseq (Z.of_nat (length (@nil N))) (length vals)) vals) m)).
      rewrite (row_loop o R c vals [] (d :: ds) m).
      destruct (set_row o c (d :: ds) vals m); reflexivity.
Qed.

Lemma fold_err its : fold_left (read_step o) its Err = Err.
Proof. induction its; [reflexivity|assumption]. Qed.
Lemma fold_panic its : fold_left (read_step o) its Panic = Panic.
Proof. induction its; [reflexivity|assumption]. Qed.

Definition nc_loop_agrees (code : Z) (m : outcome rstate) (r : res nc_state nc_result) : Prop :=
  match m with
  | Ok (m', chars') => r = Next (chars', m', Scanner [] [] code true)
  | Err => exists rd, r = Ret (rd, ([], 2))
  | Panic => r = Panics
  end.

Lemma nc_loop code : forall toks fuel chars m cur dn, (length toks < fuel)%nat ->
  nc_loop_agrees code (fold_left (read_step o) (map (@Rec bytes) toks) (Ok (m, chars)))
    (go_while fuel (fun _ => Ret true) nc_body (chars, m, Scanner cur toks code dn)).
Proof.
  induction toks as [|l toks IH]; intros fuel chars m cur dn Hf; (destruct fuel as [|fuel]; [cbn [length] in Hf; lia|]); cbn [go_while map fold_left].
  - rewrite nc_end. reflexivity.
  - rewrite nc_line. unfold read_step at 2. cbn [obind]. unfold rstate, smatrix, key, bytes, byte in *.
    destruct (read_line o l (m, chars)) as [[m' chars']| |].
    + cbv beta iota. apply IH. cbn [length] in Hf. lia.
    + rewrite fold_err. eexists. reflexivity.
    + rewrite fold_panic. reflexivity.
Qed.

(* what ReadNCBI may return for each answer of the model on the tokens and Err() of the scanner *)
Definition nc_agrees (code : Z) (m : outcome rstate) (r : res unit nc_result) : Prop :=
  match m with
  | Ok (m', _) => exists rd, r = (if code =? 0 then Ret (rd, (m', 0)) else Ret (rd, ([], code)))
  | Err => exists rd, r = Ret (rd, ([], 2))
  | Panic => r = Panics
  end.

Definition nc_final : nc_state -> res unit nc_result :=
  (fun '(chars, m, rd__) => (if (negb (Z.eqb (go_scan_err rd__) 0%Z)) then Ret (rd__, ([], (go_scan_err rd__))) else Ret (rd__, (m, 0%Z)))).

Lemma nc_finish code X r : nc_loop_agrees code X r -> nc_agrees code X (after r nc_final).
Proof.
  destruct X as [[m' chars']| |]; cbn [nc_loop_agrees nc_agrees].
  - intros ->. cbn [after nc_final]. cbv beta iota. cbn [go_scan_err sc_done sc_err].
    eexists. destruct (code =? 0); cbn [negb]; reflexivity.
  - intros (rd & ->). eexists. reflexivity.
  - intros ->. reflexivity.
Qed.

Theorem imp_ReadNCBI fuel cur (toks : list bytes) code : (length toks < fuel)%nat ->
  nc_agrees code (fold_left (read_step o) (map (@Rec bytes) toks) (Ok ([], [])))
    (imp_smtext_ReadNCBI fuel o (Scanner cur toks code false)).
Proof.
  intros Hf. unfold imp_smtext_ReadNCBI. cbv zeta.
  exact (nc_finish code _ _ (nc_loop code toks fuel [] [] cur false Hf)).
Qed.

End NCBILoop.

(* ---- SubstitutionMatrix.Symmetrical (align.go), floats as canonical texts --------------------------- *)
Lemma assoc2_is_mlookup (m : smatrix) a b : assoc2 m a b = mlookup (a, b) m.
Proof.
  induction m as [|[[x y] v] r IH]; cbn [assoc2 mlookup]; [reflexivity|]. unfold keqb. cbn [fst snd].
  rewrite (N.eqb_sym x a), (N.eqb_sym y b). destruct ((a =? x)%N && (b =? y)%N); [reflexivity|exact IH].
Qed.

Definition sym_body (m : list ((N * N) * F)) : Z * ((N * N) * F) -> list ((N * N) * F) -> res (list ((N * N) * F)) (list ((N * N) * F)) :=
  fun p => (fun (_ : Z) '(k, v) result => let result := (go_map_set2 k v result) in let flip := ((snd k), (fst k)) in (if (negb (N.eqb (fst k) (snd k))) then let '(t__1, t__2) := match assoc2 m (fst flip) (snd flip) with Some v__ => (v__, true) | None => ([48%N], false) end in let v2 := t__1 in let ok := t__2 in (if (andb ok (negb (go_feq v2 v))) then Panics else let result := (go_map_set2 flip v result) in Next result) else let result := (go_map_set2 flip v result) in Next result)) (fst p) (snd p).

Lemma sym_loop (m : smatrix) : forall (es : smatrix) j res,
  go_iter (sym_body m) (combine (zseq j (length es)) es) res
  = match fold_left (sym_step m) es (Ok res) with
    | Ok r => Next r
    | _ => Panics
    end.
Proof.
  induction es as [|[k v] es IH]; intros j res; cbn [length]; [reflexivity|].
  rewrite zseq_cons. cbn [combine go_iter fold_left]. unfold sym_body at 1. cbn [fst snd]. cbv beta iota zeta.
  unfold sym_step at 2. cbn [obind fst snd]. unfold flip. cbn [fst snd].
  rewrite !map_set2_is_mset, assoc2_is_mlookup.
  assert (Hp : forall l, fold_left (sym_step m) l Panic = Panic) by (induction l; [reflexivity|assumption]).
  unfold smatrix, key, byte in *. destruct k as [a b]. cbn [fst snd].
  destruct (negb (a =? b)%N).
  - destruct (mlookup (b, a) m) as [v2|]; cbv beta iota.
    + cbn [andb]. unfold go_feq. destruct (negb (feq v2 v)).
      * rewrite Hp. reflexivity.
      * apply IH.
    + cbn [andb]. apply IH.
  - apply IH.
Qed.

Lemma sym_finish (X : outcome smatrix) :
  after (match X with Ok r => Next (R := list ((N * N) * F)) r | _ => Panics end) (fun result : list ((N * N) * F) => Ret (S := unit) result)
  = match X with Ok r => Ret r | _ => Panics end.
Proof. destruct X; reflexivity. Qed.

Theorem imp_Symmetrical (m : smatrix) :
  imp_alignf_SubstitutionMatrix_Symmetrical m
  = match symmetrical m with Ok r => Ret r | _ => Panics end.
Proof.
  unfold imp_alignf_SubstitutionMatrix_Symmetrical, symmetrical. cbv zeta.
  unfold go_range, indexed.
  timeout 120 (change (go_iter _ ?l []) with (go_iter (sym_body m) l [])).
  rewrite sym_loop. apply sym_finish.
Qed.
