(* Proofs/MashProofs.v *)
From Bio Require Import Base.
