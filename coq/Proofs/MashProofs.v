(* Proofs/MashProofs.v — C17, part 1: the sketch built by Push after Push is the
   n smallest distinct hash values, descending; consequences that need nothing
   about DNA (content only, permutation, incremental Add, tail, letter case). *)
From Coq Require Import Sorted Permutation.
From Bio Require Import Base.
From Bio.Model Require Import Seq Mash.
From Bio.Spec Require Import MashSpec.

(* ---- strictly sorted lists are determined by their elements ----------------- *)
Lemma ss_unique {A} (R : A -> A -> Prop) :
  (forall x y, R x y -> R y x -> False) ->
  forall l1 l2, StronglySorted R l1 -> StronglySorted R l2 ->
  (forall x, In x l1 <-> In x l2) -> l1 = l2.
Proof.
  intros Asym. induction l1 as [|a l1 IH]; intros [|b l2] S1 S2 H.
  - reflexivity.
  - exfalso. apply (H b). left. reflexivity.
  - exfalso. apply (H a). left. reflexivity.
  - apply StronglySorted_inv in S1. destruct S1 as [S1 F1].
    apply StronglySorted_inv in S2. destruct S2 as [S2 F2].
    rewrite Forall_forall in F1, F2.
    assert (E : a = b).
    { destruct (proj1 (H a) (or_introl eq_refl)) as [E|Ia]; [congruence|].
      destruct (proj2 (H b) (or_introl eq_refl)) as [E|Ib]; [congruence|].
      exfalso. exact (Asym _ _ (F1 _ Ib) (F2 _ Ia)). }
    subst b. f_equal. apply IH; try assumption.
    intros x. split; intros Hx.
    + destruct (proj1 (H x) (or_intror Hx)) as [E|I]; [|exact I].
      subst x. exfalso. exact (Asym _ _ (F1 _ Hx) (F1 _ Hx)).
    + destruct (proj2 (H x) (or_intror Hx)) as [E|I]; [|exact I].
      subst x. exfalso. exact (Asym _ _ (F2 _ Hx) (F2 _ Hx)).
Qed.

Lemma asc_unique l1 l2 : asc l1 -> asc l2 -> (forall x, In x l1 <-> In x l2) -> l1 = l2.
Proof. apply ss_unique. intros x y H1 H2. lia. Qed.

Lemma desc_unique l1 l2 : desc l1 -> desc l2 -> (forall x, In x l1 <-> In x l2) -> l1 = l2.
Proof. apply ss_unique. intros x y H1 H2. cbv beta in *. lia. Qed.

Lemma ss_app {A} (R : A -> A -> Prop) l1 l2 :
  StronglySorted R l1 -> StronglySorted R l2 ->
  (forall a b, In a l1 -> In b l2 -> R a b) -> StronglySorted R (l1 ++ l2).
Proof.
  induction l1 as [|a l1 IH]; intros S1 S2 H; [exact S2|].
  apply StronglySorted_inv in S1. destruct S1 as [S1 F1].
  cbn [app]. constructor.
  - apply IH; [assumption|assumption|]. intros x y Hx Hy. apply H; [right; exact Hx|exact Hy].
  - apply Forall_app. split; [exact F1|].
    apply Forall_forall. intros y Hy. apply H; [left; reflexivity|exact Hy].
Qed.

Lemma ss_rev {A} (R : A -> A -> Prop) l :
  StronglySorted R l -> StronglySorted (fun a b => R b a) (rev l).
Proof.
  induction l as [|a l IH]; intros S; [constructor|].
  apply StronglySorted_inv in S. destruct S as [S F]. rewrite Forall_forall in F.
  cbn [rev]. apply ss_app.
  - apply IH. exact S.
  - constructor; constructor.
  - intros x y Hx [Hy|[]]. subst y. apply F. apply in_rev. exact Hx.
Qed.

Lemma asc_rev l : asc l -> desc (rev l).
Proof. apply ss_rev. Qed.

Lemma desc_rev l : desc l -> asc (rev l).
Proof. intros H. apply (ss_rev (fun a b => b < a)). exact H. Qed.

Lemma in_firstn {A} n (l : list A) x : In x (firstn n l) -> In x l.
Proof. intros H. rewrite <- (firstn_skipn n l). apply in_or_app. left. exact H. Qed.

Lemma ss_firstn {A} (R : A -> A -> Prop) n l : StronglySorted R l -> StronglySorted R (firstn n l).
Proof.
  revert l. induction n as [|n IH]; intros l S; [constructor|].
  destruct l as [|a l]; [constructor|].
  apply StronglySorted_inv in S. destruct S as [S F]. cbn [firstn]. constructor; [apply IH; exact S|].
  rewrite Forall_forall in *. intros x Hx. apply F. eapply in_firstn. exact Hx.
Qed.

(* ---- ins_asc ------------------------------------------------------------------ *)
Lemma ins_asc_in x l y : In y (ins_asc x l) <-> y = x \/ In y l.
Proof.
  induction l as [|z l IH]; cbn [ins_asc].
  - cbn. intuition congruence.
  - destruct (x <? z); [cbn; intuition congruence|].
    destruct (N.eqb_spec x z) as [E|E].
    + subst z. cbn. intuition congruence.
    + cbn [In]. rewrite IH. intuition congruence.
Qed.

Lemma ins_asc_sorted x l : asc l -> asc (ins_asc x l).
Proof.
  unfold asc. induction l as [|z l IH]; intros S; cbn [ins_asc].
  - constructor; constructor.
  - pose proof S as S0. apply StronglySorted_inv in S. destruct S as [S F].
    destruct (N.ltb_spec x z) as [L|L].
    + constructor; [exact S0|]. constructor; [exact L|].
      rewrite Forall_forall in *. intros y Hy. specialize (F y Hy). lia.
    + destruct (N.eqb_spec x z) as [E|E]; [exact S0|].
      constructor; [apply IH; exact S|].
      rewrite Forall_forall in *. intros y Hy. apply ins_asc_in in Hy. destruct Hy as [Hy|Hy].
      * subst y. lia.
      * apply F. exact Hy.
Qed.

Definition ins_all (l acc : list N) : list N := fold_left (fun a x => ins_asc x a) l acc.

Lemma ins_all_in l acc y : In y (ins_all l acc) <-> In y l \/ In y acc.
Proof.
  unfold ins_all. revert acc. induction l as [|x l IH]; intros acc; cbn [fold_left].
  - cbn. intuition.
  - rewrite IH, ins_asc_in. cbn [In]. intuition congruence.
Qed.

Lemma ins_all_sorted l acc : asc acc -> asc (ins_all l acc).
Proof.
  unfold ins_all. revert acc. induction l as [|x l IH]; intros acc S; cbn [fold_left]; [exact S|].
  apply IH. apply ins_asc_sorted. exact S.
Qed.

Lemma sort_dedup_in l y : In y (sort_dedup l) <-> In y l.
Proof. unfold sort_dedup. fold (ins_all l []). rewrite ins_all_in. cbn. intuition. Qed.

Lemma sort_dedup_asc l : asc (sort_dedup l).
Proof. unfold sort_dedup. fold (ins_all l []). apply ins_all_sorted. constructor. Qed.

(* the sorted distinct values depend on the SET of values only *)
Lemma sort_dedup_content l1 l2 : (forall x, In x l1 <-> In x l2) -> sort_dedup l1 = sort_dedup l2.
Proof.
  intros H. apply asc_unique; try apply sort_dedup_asc.
  intros x. rewrite !sort_dedup_in. apply H.
Qed.

Lemma sort_dedup_app l1 l2 : sort_dedup (l1 ++ l2) = ins_all l2 (sort_dedup l1).
Proof. unfold sort_dedup, ins_all. apply fold_left_app. Qed.

(* ---- truncation commutes with insertion ---------------------------------------- *)
Lemma firstn_ins n x l : firstn n (ins_asc x l) = firstn n (ins_asc x (firstn n l)).
Proof.
  revert n. induction l as [|z l IH]; intros [|n]; try reflexivity.
  cbn [firstn ins_asc]. destruct (x <? z).
  - cbn [firstn]. f_equal.
    change (z :: firstn n l) with (firstn (S n) (z :: l)).
    rewrite firstn_firstn. f_equal. lia.
  - destruct (x =? z).
    + cbn [firstn]. f_equal. rewrite firstn_firstn. f_equal. lia.
    + cbn [firstn]. f_equal. apply IH.
Qed.

(* one Push, on ascending lists of length <= n *)
Definition tstep (n : nat) (a : list N) (x : N) : list N := firstn n (ins_asc x a).

Lemma firstn_ins_all n l acc :
  firstn n (ins_all l acc) = fold_left (tstep n) l (firstn n acc).
Proof.
  unfold ins_all. revert acc. induction l as [|x l IH]; intros acc; cbn [fold_left]; [reflexivity|].
  rewrite IH. f_equal. unfold tstep. apply firstn_ins.
Qed.

Lemma tstep_sorted n a x : asc a -> asc (tstep n a x).
Proof. intros S. unfold tstep. apply ss_firstn. apply ins_asc_sorted. exact S. Qed.

Lemma tstep_length n a x : (length (tstep n a x) <= n)%nat.
Proof. unfold tstep. apply firstn_le_length. Qed.

(* ---- the descending view ---------------------------------------------------------- *)
Fixpoint dins (x : N) (l : list N) : list N :=
  match l with
  | [] => [x]
  | y :: r => if y <? x then x :: l else if y =? x then l else y :: dins x r
  end.

Lemma dins_in x l y : In y (dins x l) <-> y = x \/ In y l.
Proof.
  induction l as [|z l IH]; cbn [dins].
  - cbn. intuition congruence.
  - destruct (z <? x); [cbn; intuition congruence|].
    destruct (N.eqb_spec z x) as [E|E].
    + subst z. cbn. intuition congruence.
    + cbn [In]. rewrite IH. intuition congruence.
Qed.

Lemma dins_sorted x l : desc l -> desc (dins x l).
Proof.
  unfold desc. induction l as [|z l IH]; intros S; cbn [dins].
  - constructor; constructor.
  - pose proof S as S0. apply StronglySorted_inv in S. destruct S as [S F].
    destruct (N.ltb_spec z x) as [L|L].
    + constructor; [exact S0|]. constructor; [exact L|].
      rewrite Forall_forall in *. intros y Hy. specialize (F y Hy). cbv beta in *. lia.
    + destruct (N.eqb_spec z x) as [E|E]; [exact S0|].
      constructor; [apply IH; exact S|].
      rewrite Forall_forall in *. intros y Hy. apply dins_in in Hy. destruct Hy as [Hy|Hy].
      * subst y. lia.
      * apply F. exact Hy.
Qed.

Lemma dins_rev x a : asc a -> dins x (rev a) = rev (ins_asc x a).
Proof.
  intros S. apply desc_unique.
  - apply dins_sorted. apply asc_rev. exact S.
  - apply asc_rev. apply ins_asc_sorted. exact S.
  - intros y. rewrite dins_in, <- !in_rev, ins_asc_in. reflexivity.
Qed.

Lemma dins_mem x l : desc l -> In x l -> dins x l = l.
Proof.
  unfold desc. induction l as [|z l IH]; intros S H; [destruct H|].
  apply StronglySorted_inv in S. destruct S as [S F]. rewrite Forall_forall in F.
  cbn [dins]. destruct (N.ltb_spec z x) as [L|L].
  - exfalso. destruct H as [H|H]; [lia|]. specialize (F x H). cbv beta in F. lia.
  - destruct (N.eqb_spec z x) as [E|E]; [reflexivity|].
    f_equal. apply IH; [exact S|]. destruct H as [H|H]; [congruence|exact H].
Qed.

Lemma dins_notin x l : ~ In x l -> dins x l = insert_desc x l.
Proof.
  induction l as [|z l IH]; intros H; [reflexivity|].
  cbn [dins insert_desc]. destruct (z <? x); [reflexivity|].
  destruct (N.eqb_spec z x) as [E|E].
  - exfalso. apply H. left. exact E.
  - f_equal. apply IH. intros I. apply H. right. exact I.
Qed.

Lemma insert_desc_length x l : length (insert_desc x l) = S (length l).
Proof.
  induction l as [|z l IH]; [reflexivity|].
  cbn [insert_desc]. destruct (z <? x); cbn [length]; [reflexivity|]. rewrite IH. reflexivity.
Qed.

Lemma memb_in x l : memb x l = true <-> In x l.
Proof.
  unfold memb. rewrite existsb_exists. split.
  - intros [y [Hy E]]. apply N.eqb_eq in E. subst. exact Hy.
  - intros H. exists x. split; [exact H|apply N.eqb_refl].
Qed.

Lemma lastn_rev {A} n (l : list A) : lastn n (rev l) = rev (firstn n l).
Proof.
  unfold lastn. rewrite skipn_rev, rev_length. f_equal.
  destruct (Nat.le_gt_cases n (length l)) as [H|H].
  - f_equal. lia.
  - replace (length l - (length l - n))%nat with (length l) by lia.
    rewrite firstn_all. symmetry. apply firstn_all2. lia.
Qed.

Lemma lastn_all {A} n (l : list A) : (length l <= n)%nat -> lastn n l = l.
Proof. intros H. unfold lastn. replace (length l - n)%nat with 0%nat by lia. reflexivity. Qed.

(* Push on a sorted collection = insert, then keep the n smallest *)
Lemma push_desc n x d : desc d -> (length d <= n)%nat -> (1 <= n)%nat ->
  push (Z.of_nat n) x d = Ok (lastn n (dins x d)).
Proof.
  intros Sd Hlen Hn. unfold push.
  destruct (Z.eqb_spec (Z.of_nat (length d)) (Z.of_nat n)) as [E|E].
  - apply Nat2Z.inj in E. destruct d as [|hd tl]; [cbn in E; lia|].
    destruct (N.leb_spec hd x) as [L|L].
    + f_equal. cbn [dins]. destruct (N.ltb_spec hd x) as [L2|L2].
      * unfold lastn. change (length (x :: hd :: tl)) with (S (length (hd :: tl))). rewrite E.
        replace (S n - n)%nat with 1%nat by lia. reflexivity.
      * assert (hd = x) by lia. subst hd. rewrite N.eqb_refl. symmetry. apply lastn_all. lia.
    + destruct (memb x (hd :: tl)) eqn:M.
      * f_equal. apply memb_in in M. rewrite dins_mem by assumption. symmetry. apply lastn_all. lia.
      * f_equal. assert (NI : ~ In x (hd :: tl)).
        { intros I. apply memb_in in I. congruence. }
        rewrite dins_notin by exact NI. cbn [insert_desc].
        destruct (N.ltb_spec hd x) as [L2|L2]; [lia|].
        unfold lastn. cbn [length]. rewrite insert_desc_length.
        cbn [length] in E. rewrite E. replace (S n - n)%nat with 1%nat by lia. reflexivity.
  - assert (length d < n)%nat by lia.
    destruct (memb x d) eqn:M.
    + f_equal. apply memb_in in M. rewrite dins_mem by assumption. symmetry. apply lastn_all. lia.
    + f_equal. assert (NI : ~ In x d).
      { intros I. apply memb_in in I. congruence. }
      rewrite dins_notin by exact NI. symmetry. apply lastn_all. rewrite insert_desc_length. lia.
Qed.

Lemma push_asc n x a : asc a -> (length a <= n)%nat -> (1 <= n)%nat ->
  push (Z.of_nat n) x (rev a) = Ok (rev (tstep n a x)).
Proof.
  intros S Hlen Hn. rewrite push_desc; [|apply asc_rev; exact S|rewrite rev_length; exact Hlen|exact Hn].
  rewrite dins_rev by exact S. rewrite lastn_rev. reflexivity.
Qed.

(* ---- the loops of Add ------------------------------------------------------------ *)
Section Hash.
Variable h : bytes -> N.
Let hs : bytes -> option N := fun b => Some (h b).

Lemma push_kmers_asc n ks a : asc a -> (length a <= n)%nat -> (1 <= n)%nat ->
  fold_left (push_kmer hs (Z.of_nat n)) ks (Ok (rev a)) = Ok (rev (fold_left (tstep n) (map h ks) a)).
Proof.
  intros S Hlen Hn. revert a S Hlen. induction ks as [|b ks IH]; intros a S Hlen; cbn [fold_left map]; [reflexivity|].
  unfold push_kmer at 2. cbn [obind]. unfold hs at 2. rewrite push_asc by assumption.
  apply IH; [apply tstep_sorted; exact S|apply tstep_length].
Qed.

Lemma fold_push_kmer_notok (g : bytes -> option N) n ks (acc : outcome (list N)) :
  (forall l, acc <> Ok l) -> fold_left (push_kmer g n) ks acc = acc.
Proof.
  revert acc. induction ks as [|b ks IH]; intros acc H; cbn [fold_left]; [reflexivity|].
  destruct acc as [l| |]; [exfalso; apply (H l); reflexivity| |]; cbn [push_kmer obind]; apply IH; intros l; discriminate.
Qed.

Lemma fold_add_seq_panic (g : bytes -> option N) n k seqs :
  fold_left (add_seq g n k) seqs Panic = Panic.
Proof. induction seqs as [|s seqs IH]; cbn [fold_left]; [reflexivity|]. cbn [add_seq obind]. exact IH. Qed.

Lemma add_seq_ok (g : bytes -> option N) n k acc s ks :
  canon (map upper_byte s) k = Ok ks -> add_seq g n k acc s = fold_left (push_kmer g n) ks acc.
Proof.
  intros C. unfold add_seq. rewrite C. destruct acc as [l| |]; cbn [obind]; [reflexivity| |];
    symmetry; apply fold_push_kmer_notok; intros l; discriminate.
Qed.

Lemma kmers_cons k s r :
  kmers k (s :: r) = match canon (map upper_byte s) k, kmers k r with
                     | Ok a, Ok b => Ok (a ++ b) | _, _ => Panic end.
Proof. reflexivity. Qed.

Lemma kmers_not_err k seqs : kmers k seqs <> Err.
Proof.
  destruct seqs as [|s r]; [discriminate|]. rewrite kmers_cons.
  destruct (canon _ k); try discriminate. destruct (kmers k r); discriminate.
Qed.

(* all sequences of one Add = all their k-mers, in order *)
Lemma fold_add_seq_ok (g : bytes -> option N) n k seqs ks acc :
  kmers k seqs = Ok ks ->
  fold_left (add_seq g n k) seqs acc = fold_left (push_kmer g n) ks acc.
Proof.
  revert ks acc. induction seqs as [|s r IH]; intros ks acc K.
  - cbn in K. inversion K. reflexivity.
  - rewrite kmers_cons in K. destruct (canon (map upper_byte s) k) as [a| |] eqn:C; try discriminate.
    destruct (kmers k r) as [b| |] eqn:Kr; try discriminate. inversion K; subst ks.
    cbn [fold_left]. rewrite (add_seq_ok g n k acc s a C). rewrite (IH b _ eq_refl).
    rewrite fold_left_app. reflexivity.
Qed.

Lemma push_kmer_not_err (g : bytes -> option N) n ks acc :
  acc <> Err -> fold_left (push_kmer g n) ks acc <> Err.
Proof.
  revert acc. induction ks as [|b ks IH]; intros acc H; cbn [fold_left]; [exact H|].
  apply IH. destruct acc as [l| |]; cbn [push_kmer obind]; [|congruence|discriminate].
  destruct (g b); [|discriminate]. unfold push.
  destruct (_ =? _)%Z; [destruct l; [discriminate|]; destruct (_ <=? _); [discriminate|]|];
    destruct (memb _ _); discriminate.
Qed.

Lemma fold_add_seq_bad (g : bytes -> option N) n k seqs acc :
  kmers k seqs = Panic -> acc <> Err -> fold_left (add_seq g n k) seqs acc = Panic.
Proof.
  revert acc. induction seqs as [|s r IH]; intros acc K Hacc; [discriminate|].
  rewrite kmers_cons in K. cbn [fold_left].
  destruct (canon (map upper_byte s) k) as [a| |] eqn:C.
  - rewrite (add_seq_ok g n k acc s a C).
    destruct (kmers k r) as [b| |] eqn:Kr; [discriminate|exfalso; exact (kmers_not_err k r Kr)|].
    apply IH; [reflexivity|]. apply push_kmer_not_err. exact Hacc.
  - unfold add_seq. rewrite C. destruct acc as [l| |]; cbn [obind]; [|congruence|];
      apply fold_add_seq_panic.
  - unfold add_seq. rewrite C. destruct acc as [l| |]; cbn [obind]; [|congruence|];
      apply fold_add_seq_panic.
Qed.

(* Add on a collection holding the n smallest of [old]: the n smallest of old ++ new *)
Lemma add_spec n k seqs ks old : (1 <= n)%Z -> kmers k seqs = Ok ks ->
  add hs {| mh_k := n; mh_vals := sketch_of n old |} k seqs
  = Ok {| mh_k := n; mh_vals := sketch_of n (old ++ map h ks) |}.
Proof.
  intros Hn K. unfold add. cbn [mh_k mh_vals].
  rewrite (fold_add_seq_ok hs n k seqs ks _ K).
  unfold sketch_of. rewrite <- (Z2Nat.id n) at 1 by lia.
  rewrite push_kmers_asc.
  - rewrite sort_dedup_app, firstn_ins_all. reflexivity.
  - apply ss_firstn. apply sort_dedup_asc.
  - apply firstn_le_length.
  - lia.
Qed.

Lemma sketch_of_nil n : sketch_of n [] = [].
Proof. unfold sketch_of, sort_dedup. cbn. rewrite firstn_nil. reflexivity. Qed.

Lemma sequences_mh_spec n k seqs ks : (1 <= n)%Z -> kmers k seqs = Ok ks ->
  sequences_mh hs n k seqs = Ok {| mh_k := n; mh_vals := sketch_of n (map h ks) |}.
Proof.
  intros Hn K. unfold sequences_mh, mh_new.
  destruct (Z.ltb_spec n 1) as [L|L]; [lia|]. cbn [obind].
  rewrite <- (sketch_of_nil n). rewrite (add_spec n k seqs ks [] Hn K). reflexivity.
Qed.

(* the complete description of Sequences(...).View() *)
Lemma sequences_spec n k seqs :
  sequences hs n k seqs =
  if (n <? 1)%Z then Panic
  else match kmers k seqs with
       | Ok ks => Ok (sketch_of n (map h ks))
       | _ => Panic
       end.
Proof.
  destruct (Z.ltb_spec n 1) as [L|L].
  - unfold sequences, sequences_mh, mh_new. destruct (Z.ltb_spec n 1); [reflexivity|lia].
  - destruct (kmers k seqs) as [ks| |] eqn:K.
    + unfold sequences. rewrite (sequences_mh_spec n k seqs ks) by (assumption || lia). reflexivity.
    + exfalso. exact (kmers_not_err k seqs K).
    + unfold sequences, sequences_mh, mh_new. destruct (Z.ltb_spec n 1); [lia|]. cbn [obind].
      unfold add. cbn [mh_k mh_vals]. rewrite (fold_add_seq_bad hs n k seqs _ K) by discriminate. reflexivity.
Qed.

Lemma sketch_exact n k seqs ks : (1 <= n)%Z -> kmers k seqs = Ok ks ->
  sequences hs n k seqs = Ok (rev (firstn (Z.to_nat n) (sort_dedup (map h ks)))).
Proof.
  intros Hn K. rewrite sequences_spec. destruct (Z.ltb_spec n 1); [lia|]. rewrite K. reflexivity.
Qed.

Lemma sketch_panics n k seqs : (n < 1)%Z \/ kmers k seqs = Panic -> sequences hs n k seqs = Panic.
Proof.
  intros H. rewrite sequences_spec. destruct (Z.ltb_spec n 1); [reflexivity|].
  destruct H as [H|H]; [lia|]. rewrite H. reflexivity.
Qed.

(* ---- content only ------------------------------------------------------------------ *)
Lemma sketch_of_content n l1 l2 : (forall x, In x l1 <-> In x l2) -> sketch_of n l1 = sketch_of n l2.
Proof. intros H. unfold sketch_of. rewrite (sort_dedup_content l1 l2 H). reflexivity. Qed.

Lemma sketch_content n k seqs seqs' ks ks' :
  kmers k seqs = Ok ks -> kmers k seqs' = Ok ks' ->
  (forall b, In b ks <-> In b ks') ->
  sequences hs n k seqs = sequences hs n k seqs'.
Proof.
  intros K K' H. rewrite !sequences_spec, K, K'. destruct (n <? 1)%Z; [reflexivity|].
  f_equal. apply sketch_of_content. intros x. rewrite !in_map_iff.
  split; intros [b [E I]]; exists b; (split; [exact E|apply H; exact I]).
Qed.

Lemma sketch_perm n k seqs seqs' ks ks' :
  kmers k seqs = Ok ks -> kmers k seqs' = Ok ks' -> Permutation ks ks' ->
  sequences hs n k seqs = sequences hs n k seqs'.
Proof.
  intros K K' P. apply (sketch_content n k seqs seqs' ks ks' K K').
  intros b. split; apply Permutation_in; [exact P|apply Permutation_sym; exact P].
Qed.

(* kmers up to permutation *)
Definition kequiv (o o' : outcome (list bytes)) : Prop :=
  match o, o' with
  | Ok a, Ok b => Permutation a b
  | Panic, Panic => True
  | Err, Err => True
  | _, _ => False
  end.

Lemma kequiv_refl o : kequiv o o.
Proof. destruct o; cbn; auto. Qed.

Lemma kequiv_trans a b c : kequiv a b -> kequiv b c -> kequiv a c.
Proof. destruct a, b, c; cbn; try tauto. apply Permutation_trans. Qed.

Lemma kmers_reorder k seqs seqs' : Permutation seqs seqs' -> kequiv (kmers k seqs) (kmers k seqs').
Proof.
  induction 1 as [|s l l' P IH|s t l|l l' l'' P1 IH1 P2 IH2].
  - apply kequiv_refl.
  - rewrite !kmers_cons. destruct (canon (map upper_byte s) k) as [a| |]; cbn; auto.
    destruct (kmers k l), (kmers k l'); cbn in *; try tauto. apply Permutation_app_head. exact IH.
  - rewrite !kmers_cons.
    destruct (canon (map upper_byte s) k) as [a| |], (canon (map upper_byte t) k) as [b| |], (kmers k l) as [c| |];
      cbn; auto.
    rewrite !app_assoc. apply Permutation_app_tail. apply Permutation_app_comm.
  - eapply kequiv_trans; eassumption.
Qed.

Lemma sequences_kequiv n k seqs seqs' : kequiv (kmers k seqs) (kmers k seqs') ->
  sequences hs n k seqs = sequences hs n k seqs'.
Proof.
  intros H. rewrite !sequences_spec. destruct (n <? 1)%Z; [reflexivity|].
  destruct (kmers k seqs) as [a| |], (kmers k seqs') as [b| |]; cbn in H; try tauto.
  f_equal. apply sketch_of_content. intros x. rewrite !in_map_iff.
  split; intros [y [E I]]; exists y; (split; [exact E|]); eapply Permutation_in; try exact I;
    [exact H|apply Permutation_sym; exact H].
Qed.

Lemma sketch_reorder n k seqs seqs' : Permutation seqs seqs' ->
  sequences hs n k seqs = sequences hs n k seqs'.
Proof. intros P. apply sequences_kequiv. apply kmers_reorder. exact P. Qed.

(* ---- letter case ---------------------------------------------------------------------- *)
Lemma kmers_case k seqs seqs' :
  Forall2 (fun s s' => map upper_byte s = map upper_byte s') seqs seqs' -> kmers k seqs = kmers k seqs'.
Proof.
  induction 1 as [|s s' l l' E F IH]; [reflexivity|]. rewrite !kmers_cons, E, IH. reflexivity.
Qed.

Lemma sketch_case n k seqs seqs' :
  Forall2 (fun s s' => map upper_byte s = map upper_byte s') seqs seqs' ->
  sequences hs n k seqs = sequences hs n k seqs'.
Proof. intros H. rewrite !sequences_spec, (kmers_case k seqs seqs' H). reflexivity. Qed.

(* ---- a smaller sketch is the tail of a larger one ---------------------------------------- *)
Lemma sketch_of_tail n n' l : (0 <= n' <= n)%Z ->
  sketch_of n' l = lastn (Z.to_nat n') (sketch_of n l).
Proof.
  intros H. unfold sketch_of. rewrite lastn_rev, firstn_firstn. f_equal. f_equal. lia.
Qed.

Lemma sketch_tail n n' k seqs v : (1 <= n' <= n)%Z ->
  sequences hs n k seqs = Ok v ->
  sequences hs n' k seqs = Ok (lastn (Z.to_nat n') v).
Proof.
  intros H. rewrite !sequences_spec.
  destruct (Z.ltb_spec n 1); [lia|]. destruct (Z.ltb_spec n' 1); [lia|].
  destruct (kmers k seqs) as [ks| |]; try discriminate.
  intros E. inversion E. f_equal. apply sketch_of_tail. lia.
Qed.

(* ---- incremental Add ---------------------------------------------------------------------- *)
Lemma kmers_app k l1 l2 a b : kmers k l1 = Ok a -> kmers k l2 = Ok b -> kmers k (l1 ++ l2) = Ok (a ++ b).
Proof.
  revert a. induction l1 as [|s l1 IH]; intros a K1 K2.
  - cbn in K1. inversion K1. exact K2.
  - cbn [app]. rewrite kmers_cons in *. destruct (canon (map upper_byte s) k) as [c| |]; try discriminate.
    destruct (kmers k l1) as [d| |]; try discriminate. inversion K1.
    rewrite (IH d eq_refl K2). rewrite app_assoc. reflexivity.
Qed.

Lemma kmers_app_inv k l1 l2 c : kmers k (l1 ++ l2) = Ok c ->
  exists a b, kmers k l1 = Ok a /\ kmers k l2 = Ok b /\ c = a ++ b.
Proof.
  revert c. induction l1 as [|s l1 IH]; intros c K.
  - exists [], c. cbn in *. auto.
  - cbn [app] in K. rewrite kmers_cons in *. destruct (canon (map upper_byte s) k) as [x| |]; try discriminate.
    destruct (kmers k (l1 ++ l2)) as [y| |] eqn:E; try discriminate. inversion K.
    destruct (IH y eq_refl) as [a [b [Ka [Kb Ey]]]]. rewrite Ka.
    exists (x ++ a), b. subst y. rewrite app_assoc. auto.
Qed.

Lemma add_batches_spec n k batches ks old : (1 <= n)%Z -> kmers k (concat batches) = Ok ks ->
  add_batches hs {| mh_k := n; mh_vals := sketch_of n old |} k batches
  = Ok {| mh_k := n; mh_vals := sketch_of n (old ++ map h ks) |}.
Proof.
  intros Hn. unfold add_batches. revert ks old. induction batches as [|b r IH]; intros ks old K.
  - cbn in K. inversion K. cbn. rewrite app_nil_r. reflexivity.
  - cbn [concat] in K. apply kmers_app_inv in K. destruct K as [x [y [Kx [Ky E]]]]. subst ks.
    cbn [fold_left obind]. rewrite (add_spec n k b x old Hn Kx).
    rewrite (IH y _ Ky). rewrite map_app, app_assoc. reflexivity.
Qed.

(* Sequences on the first batch and Add for the others = Sequences on everything *)
Lemma sketch_incremental n k batches ks : batches <> [] -> (1 <= n)%Z ->
  kmers k (concat batches) = Ok ks ->
  incremental hs n k batches = sequences hs n k (concat batches).
Proof.
  intros NE Hn K. destruct batches as [|b r]; [congruence|].
  rewrite (sketch_exact n k _ ks Hn K). fold (sketch_of n (map h ks)).
  cbn [concat] in K. apply kmers_app_inv in K. destruct K as [x [y [Kx [Ky E]]]]. subst ks.
  unfold incremental. rewrite (sequences_mh_spec n k b x Hn Kx). cbn [obind].
  rewrite (add_batches_spec n k r y _ Hn Ky). cbn [obind mh_vals]. rewrite map_app. reflexivity.
Qed.

End Hash.
