(* Proofs/RegionsProofs.v *)
From Bio Require Import Base.
