(* Proofs/RegionsProofs.v — the event order, the sort, the key sets. *)
From Coq Require Import Sorting.Permutation Sorting.Sorted.
From Bio Require Import Base.
From Bio.Model Require Import Regions.
From Bio.Spec Require Import RegionsSpec.
Open Scope Z_scope.

(* ---------------- event_less is a strict total order ---------------- *)

Ltac ev_crush :=
  unfold ev_le, event_less; cbn [e_idx e_pos e_start];
  repeat match goal with
  | |- context [Z.eqb ?a ?b] => destruct (Z.eqb_spec a b); cbn [negb]
  | |- context [Z.ltb ?a ?b] => destruct (Z.ltb_spec a b)
  | |- context [Nat.ltb ?a ?b] => destruct (Nat.ltb_spec a b)
  | s : bool |- _ => destruct s; cbn [Bool.eqb negb]
  end; intros; subst; try congruence; try lia.

Lemma event_less_irrefl a : event_less a a = false.
Proof. destruct a as [ia pa sa]. ev_crush. Qed.

Lemma event_less_asym a b : event_less a b = true -> event_less b a = false.
Proof. destruct a as [ia pa sa], b as [ib pb sb]. ev_crush. Qed.

Lemma event_less_total a b : event_less a b = false -> event_less b a = false -> a = b.
Proof.
  destruct a as [ia pa sa], b as [ib pb sb]. ev_crush.
  all: f_equal; lia.
Qed.

Lemma event_less_trans a b c :
  event_less a b = true -> event_less b c = true -> event_less a c = true.
Proof. destruct a as [ia pa sa], b as [ib pb sb], c as [ic pc sc]. ev_crush. Qed.

Lemma ev_le_trans a b c : ev_le a b -> ev_le b c -> ev_le a c.
Proof. destruct a as [ia pa sa], b as [ib pb sb], c as [ic pc sc]. ev_crush. Qed.

Lemma ev_le_pos a b : ev_le a b -> e_pos a <= e_pos b.
Proof. destruct a as [ia pa sa], b as [ib pb sb]. ev_crush. Qed.

(* ---------------- the insertion sort ---------------- *)

Lemma insert_event_perm e l : Permutation (insert_event e l) (e :: l).
Proof.
  induction l as [|x r IH]; cbn; [reflexivity|].
  destruct (event_less e x); [reflexivity|].
  rewrite IH. apply perm_swap.
Qed.

Lemma sort_events_perm l : Permutation (sort_events l) l.
Proof.
  induction l as [|e r IH]; cbn; [reflexivity|].
  rewrite insert_event_perm. now constructor.
Qed.

Lemma insert_event_sorted e l : sorted_events l -> sorted_events (insert_event e l).
Proof.
  unfold sorted_events. induction l as [|x r IH]; cbn; intros H.
  - repeat constructor.
  - inversion H as [|? ? Hr Hx]; subst.
    destruct (event_less e x) eqn:E.
    + constructor; [exact H|]. constructor.
      * unfold ev_le. now apply event_less_asym.
      * rewrite Forall_forall in *. intros y Hy.
        apply ev_le_trans with x; [|now apply Hx].
        unfold ev_le. now apply event_less_asym.
    + constructor; [now apply IH|].
      rewrite Forall_forall in *. intros y Hy.
      apply (Permutation_in _ (insert_event_perm e r)) in Hy.
      destruct Hy as [<-|Hy]; [exact E|now apply Hx].
Qed.

Lemma sort_events_sorted l : sorted_events (sort_events l).
Proof.
  induction l as [|e r IH]; cbn; [constructor|]. now apply insert_event_sorted.
Qed.

(* two lists that satisfy sort.Slice's contract for the same elements are equal *)
Lemma sorted_perm_unique l1 : forall l2,
  sorted_events l1 -> sorted_events l2 -> Permutation l1 l2 -> l1 = l2.
Proof.
  unfold sorted_events.
  induction l1 as [|a t1 IH]; intros l2 H1 H2 P.
  - apply Permutation_nil in P. now subst.
  - destruct l2 as [|b t2].
    + apply Permutation_sym, Permutation_nil in P. discriminate.
    + inversion H1 as [|? ? Ht1 Ha]; inversion H2 as [|? ? Ht2 Hb]; subst.
      assert (a = b) as ->.
      { assert (Ia : In a (b :: t2)) by (apply (Permutation_in _ P); now left).
        assert (Ib : In b (a :: t1)) by (apply (Permutation_in _ (Permutation_sym P)); now left).
        rewrite Forall_forall in Ha, Hb.
        destruct Ia as [->|Ia]; [reflexivity|].
        destruct Ib as [->|Ib]; [reflexivity|].
        apply event_less_total; [apply (Hb _ Ia)|apply (Ha _ Ib)]. }
      f_equal. apply IH; auto. now apply Permutation_cons_inv in P.
Qed.

(* sort.Slice is modelled soundly: whatever (unstable) algorithm it runs, its result
   is the insertion sort's *)
Lemma sort_events_unique l l' :
  Permutation l' l -> sorted_events l' -> l' = sort_events l.
Proof.
  intros P S. apply sorted_perm_unique; [exact S|apply sort_events_sorted|].
  rewrite P. symmetry. apply sort_events_perm.
Qed.

(* ---------------- generic list facts ---------------- *)

Lemma filter_perm {A} (f : A -> bool) l l' :
  Permutation l l' -> Permutation (filter f l) (filter f l').
Proof.
  induction 1; cbn.
  - constructor.
  - destruct (f x); [now constructor|assumption].
  - destruct (f x), (f y); try reflexivity; try (now constructor).
  - etransitivity; eassumption.
Qed.

Lemma filter_sorted {A} (R : A -> A -> Prop) (f : A -> bool) l :
  StronglySorted R l -> StronglySorted R (filter f l).
Proof.
  induction 1 as [|a l Hl IH Ha]; cbn; [constructor|].
  destruct (f a); [|exact IH].
  constructor; [exact IH|].
  rewrite Forall_forall in *. intros y Hy. apply filter_In in Hy. now apply Ha.
Qed.

Lemma filter_comm {A} (f g : A -> bool) l :
  filter f (filter g l) = filter g (filter f l).
Proof.
  induction l as [|a l IH]; cbn; [reflexivity|].
  destruct (g a) eqn:G, (f a) eqn:F; cbn; rewrite ?G, ?F, IH; reflexivity.
Qed.

Lemma filter_none {A} (f : A -> bool) l :
  Forall (fun a => f a = false) l -> filter f l = [].
Proof.
  induction 1 as [|a l Ha _ IH]; cbn; [reflexivity|]. now rewrite Ha.
Qed.

(* ---------------- the key sets ---------------- *)

Lemma set_add_In k l z : In z (set_add k l) <-> z = k \/ In z l.
Proof.
  induction l as [|y r IH]; cbn [set_add In].
  - intuition.
  - destruct (Nat.ltb_spec k y); cbn [In]; [intuition|].
    destruct (Nat.eqb_spec k y); cbn [In].
    + subst. intuition.
    + rewrite IH. intuition.
Qed.

Lemma set_add_asc k l : asc l -> asc (set_add k l).
Proof.
  unfold asc. induction 1 as [|y r Hr IH Hy]; cbn [set_add].
  - repeat constructor.
  - destruct (Nat.ltb_spec k y).
    + constructor; [now constructor|]. constructor; [exact H|].
      rewrite Forall_forall in *. intros z Hz. specialize (Hy _ Hz). lia.
    + destruct (Nat.eqb_spec k y); [now constructor|].
      constructor; [exact IH|].
      rewrite Forall_forall in *. intros z Hz. apply set_add_In in Hz.
      destruct Hz as [->|Hz]; [lia|now apply Hy].
Qed.

Lemma set_remove_In k l z : In z (set_remove k l) <-> In z l /\ z <> k.
Proof.
  unfold set_remove. rewrite filter_In. destruct (Nat.eqb_spec z k); cbn; intuition congruence.
Qed.

Lemma set_remove_asc k l : asc l -> asc (set_remove k l).
Proof. apply filter_sorted. Qed.

Lemma step_set_asc idxs e : asc idxs -> asc (step_set idxs e).
Proof. unfold step_set. destruct (e_start e); [apply set_add_asc|apply set_remove_asc]. Qed.

Lemma apply_events_asc evs : forall idxs, asc idxs -> asc (apply_events evs idxs).
Proof.
  unfold apply_events. induction evs as [|e r IH]; cbn; intros idxs H; [exact H|].
  apply IH. now apply step_set_asc.
Qed.

(* ascending lists are determined by their members *)
Lemma asc_ext l1 : forall l2, asc l1 -> asc l2 -> (forall z, In z l1 <-> In z l2) -> l1 = l2.
Proof.
  unfold asc. induction l1 as [|a t1 IH]; intros l2 H1 H2 E.
  - destruct l2 as [|b t2]; [reflexivity|]. exfalso. apply (E b). now left.
  - destruct l2 as [|b t2]; [exfalso; apply (E a); now left|].
    inversion H1 as [|? ? Ht1 Ha]; inversion H2 as [|? ? Ht2 Hb]; subst.
    rewrite Forall_forall in Ha, Hb.
    assert (a = b) as ->.
    { assert (Ia : In a (b :: t2)) by (apply E; now left).
      assert (Ib : In b (a :: t1)) by (apply E; now left).
      destruct Ia as [->|Ia]; [reflexivity|].
      destruct Ib as [->|Ib]; [reflexivity|].
      specialize (Ha _ Ib). specialize (Hb _ Ia). lia. }
    f_equal. apply IH; auto.
    intros z. split; intros Hz.
    + assert (In z (b :: t2)) as [<-|?] by (apply E; now right); [|assumption].
      specialize (Ha _ Hz). lia.
    + assert (In z (b :: t1)) as [<-|?] by (apply E; now right); [|assumption].
      specialize (Hb _ Hz). lia.
Qed.

Lemma seq_asc n : forall a, asc (seq a n).
Proof.
  unfold asc. induction n as [|n IH]; intros a; cbn; constructor; [apply IH|].
  rewrite Forall_forall. intros z Hz. apply in_seq in Hz. lia.
Qed.
