(* Proofs/RegionsProofsC.v — the active set after a prefix of the sorted events is
   the set of covering intervals; the C16 lemmas. *)
From Coq Require Import Sorting.Permutation Sorting.Sorted.
From Bio Require Import Base.
From Bio.Model Require Import Regions.
From Bio.Spec Require Import RegionsSpec.
From Bio.Proofs Require Import RegionsProofs RegionsProofsB.
Open Scope Z_scope.

(* ---------------- membership after a run of events ---------------- *)

Lemma apply_events_status y evs : forall idxs b,
  (In y idxs <-> b = true) ->
  (In y (apply_events evs idxs) <-> status y evs b = true).
Proof.
  unfold apply_events.
  induction evs as [|e r IH]; intros idxs b H; cbn [fold_left status]; [exact H|].
  apply IH. unfold step_set.
  destruct (e_start e).
  - rewrite set_add_In. destruct (Nat.eqb_spec (e_idx e) y); intuition congruence.
  - rewrite set_remove_In. destruct (Nat.eqb_spec (e_idx e) y); intuition congruence.
Qed.

Lemma status_filter_idx y evs : forall b,
  status y evs b = status y (filter (fun e => (e_idx e =? y)%nat) evs) b.
Proof.
  induction evs as [|e r IH]; intros b; cbn [status filter]; [reflexivity|].
  destruct (e_idx e =? y)%nat eqn:E; cbn [status]; rewrite ?E; apply IH.
Qed.

(* ---------------- the events of one interval ---------------- *)

Lemma events_from_idx_ge starts : forall ends i,
  Forall (fun e => (i <= e_idx e)%nat) (events_from i starts ends).
Proof.
  induction starts as [|s ss IH]; intros ends i; cbn [events_from]; [constructor|].
  destruct ends as [|e es]; [constructor|].
  assert (T : Forall (fun ev => (i <= e_idx ev)%nat) (events_from (S i) ss es)).
  { eapply Forall_impl; [|apply IH]. cbn. intros; lia. }
  destruct (s >=? e); [exact T|].
  constructor; [cbn; lia|]. constructor; [cbn; lia|exact T].
Qed.

Lemma events_from_filter_idx starts : forall ends i k,
  length starts = length ends ->
  filter (fun e => (e_idx e =? i + k)%nat) (events_from i starts ends) =
  if (k <? length starts)%nat && (nth k starts 0 <? nth k ends 0)
  then [Ev (i + k) (nth k starts 0) true; Ev (i + k) (nth k ends 0) false]
  else [].
Proof.
  induction starts as [|s ss IH]; intros ends i k L; cbn [events_from].
  - reflexivity.
  - destruct ends as [|e es]; [discriminate|]. cbn [length] in L.
    destruct k as [|k].
    + rewrite Nat.add_0_r. cbn [nth length].
      assert (T : filter (fun ev => (e_idx ev =? i)%nat) (events_from (S i) ss es) = []).
      { apply filter_none. eapply Forall_impl; [|apply events_from_idx_ge].
        cbn. intros ev H. apply Nat.eqb_neq. lia. }
      replace (0 <? S (length ss))%nat with true by reflexivity. cbn [andb].
      destruct (Z.geb_spec s e); destruct (Z.ltb_spec s e); try lia.
      * exact T.
      * cbn [filter e_idx]. rewrite Nat.eqb_refl, T. reflexivity.
    + cbn [nth length].
      replace (S k <? S (length ss))%nat with (k <? length ss)%nat by reflexivity.
      replace (i + S k)%nat with (S i + k)%nat by lia.
      rewrite <- (IH es (S i) k) by lia.
      destruct (s >=? e); [reflexivity|].
      cbn [filter e_idx].
      replace (i =? S i + k)%nat with false by (symmetry; apply Nat.eqb_neq; lia).
      reflexivity.
Qed.

Lemma events_filter_idx starts ends y :
  length starts = length ends ->
  filter (fun e => (e_idx e =? y)%nat) (events starts ends) =
  if (y <? length starts)%nat && (nth y starts 0 <? nth y ends 0)
  then [Ev y (nth y starts 0) true; Ev y (nth y ends 0) false]
  else [].
Proof. intros L. exact (events_from_filter_idx starts ends 0 y L). Qed.

(* in any list that satisfies the sort contract, the events of interval y are its
   start followed by its end *)
Lemma sorted_filter_idx starts ends evs y :
  length starts = length ends ->
  Permutation evs (events starts ends) -> sorted_events evs ->
  filter (fun e => (e_idx e =? y)%nat) evs =
  if (y <? length starts)%nat && (nth y starts 0 <? nth y ends 0)
  then [Ev y (nth y starts 0) true; Ev y (nth y ends 0) false]
  else [].
Proof.
  intros L P S.
  pose proof (filter_perm (fun e => (e_idx e =? y)%nat) _ _ P) as P'.
  pose proof (filter_sorted ev_le (fun e => (e_idx e =? y)%nat) evs S) as S'.
  rewrite (events_filter_idx starts ends y L) in P'.
  destruct ((y <? length starts)%nat && (nth y starts 0 <? nth y ends 0)) eqn:C.
  - apply sorted_perm_unique; [exact S'| |exact P'].
    apply andb_prop in C. destruct C as [_ C]. apply Z.ltb_lt in C.
    constructor; [repeat constructor|]. constructor; [|constructor].
    unfold ev_le, event_less. cbn [e_pos e_start e_idx].
    destruct (Z.eqb_spec (nth y ends 0) (nth y starts 0)); [lia|]. cbn [negb].
    apply Z.ltb_ge. lia.
  - now apply Permutation_nil, Permutation_sym.
Qed.

(* the sweep invariant: after all events with position <= x, interval y is active
   iff it covers x *)
Lemma status_prefix starts ends evs x y :
  length starts = length ends ->
  Permutation evs (events starts ends) -> sorted_events evs ->
  status y (filter (fun e => e_pos e <=? x) evs) false =
  (y <? length starts)%nat && covers starts ends x y.
Proof.
  intros L P S.
  rewrite status_filter_idx, filter_comm, (sorted_filter_idx starts ends evs y L P S).
  unfold covers.
  destruct (Nat.ltb_spec y (length starts)); cbn [andb]; [|reflexivity].
  destruct (Z.ltb_spec (nth y starts 0) (nth y ends 0)).
  - cbn [filter e_pos].
    destruct (Z.leb_spec (nth y starts 0) x); destruct (Z.leb_spec (nth y ends 0) x);
      destruct (Z.ltb_spec x (nth y ends 0)); try lia;
      cbn [status e_idx e_start filter andb]; rewrite ?Nat.eqb_refl; reflexivity.
  - cbn [filter status].
    destruct (Z.leb_spec (nth y starts 0) x); destruct (Z.ltb_spec x (nth y ends 0));
      try lia; reflexivity.
Qed.

Lemma covering_asc starts ends x : asc (covering starts ends x).
Proof. unfold covering. apply filter_sorted, seq_asc. Qed.

Lemma active_prefix starts ends evs x :
  length starts = length ends ->
  Permutation evs (events starts ends) -> sorted_events evs ->
  apply_events (filter (fun e => e_pos e <=? x) evs) [] = covering starts ends x.
Proof.
  intros L P S. apply asc_ext.
  - apply apply_events_asc. constructor.
  - apply covering_asc.
  - intros y.
    rewrite (apply_events_status y _ [] false) by (cbn; intuition discriminate).
    rewrite (status_prefix starts ends evs x y L P S).
    unfold covering. rewrite filter_In, in_seq, andb_true_iff, Nat.ltb_lt. intuition lia.
Qed.

(* ---------------- the C16 lemmas ---------------- *)

(* for every event order that sort.Slice may legally produce *)
Lemma at_exact_any_sort starts ends evs x :
  length starts = length ends ->
  Permutation evs (events starts ends) -> sorted_events evs ->
  at_ (breakpoints evs) x = Ok (covering starts ends x).
Proof.
  intros L P S. pose proof (sorted_events_pos evs S) as PS.
  rewrite at_lookup by now apply breakpoints_sorted.
  rewrite breakpoints_lookup by exact PS.
  f_equal. now apply active_prefix.
Qed.

Lemma new_index_ok starts ends :
  length starts = length ends ->
  new_index starts ends = Ok (breakpoints (sort_events (events starts ends))).
Proof. intros L. unfold new_index. now rewrite L, Nat.eqb_refl. Qed.

Lemma at_exact starts ends :
  length starts = length ends ->
  exists ix, new_index starts ends = Ok ix /\
             forall x, at_ ix x = Ok (covering starts ends x).
Proof.
  intros L. eexists. split; [now apply new_index_ok|].
  intros x. apply at_exact_any_sort; [exact L|apply sort_events_perm|apply sort_events_sorted].
Qed.

Lemma breakpoints_strictly_sorted starts ends ix :
  new_index starts ends = Ok ix -> strictly_ascending (map fst ix).
Proof.
  unfold new_index. destruct (length starts =? length ends)%nat; [|discriminate].
  intros H. inversion H; subst.
  apply breakpoints_sorted, sorted_events_pos, sort_events_sorted.
Qed.

Lemma new_index_panics_iff starts ends :
  new_index starts ends = Panic <-> length starts <> length ends.
Proof.
  unfold new_index. destruct (Nat.eqb_spec (length starts) (length ends)); split; intros H;
    try discriminate; try reflexivity; try contradiction; try assumption.
Qed.

Lemma new_index_never_errs starts ends : new_index starts ends <> Err.
Proof. unfold new_index. now destruct (length starts =? length ends)%nat. Qed.

Lemma all_ok_map {A B} (f : A -> outcome B) (g : A -> B) l :
  (forall a, f a = Ok (g a)) -> all_ok (map f l) = Ok (map g l).
Proof.
  intros H. induction l as [|a r IH]; cbn [map all_ok]; [reflexivity|].
  now rewrite H, IH.
Qed.

Lemma regions_at_exact starts ends queries :
  length starts = length ends ->
  regions_at starts ends queries = Ok (map (covering starts ends) queries).
Proof.
  intros L. unfold regions_at.
  destruct (at_exact starts ends L) as (ix & -> & H). cbn [obind].
  now apply all_ok_map.
Qed.

Lemma regions_at_panics_iff starts ends queries :
  regions_at starts ends queries = Panic <-> length starts <> length ends.
Proof.
  split.
  - intros H L. rewrite (regions_at_exact _ _ _ L) in H. discriminate.
  - intros H. unfold regions_at. apply new_index_panics_iff in H. now rewrite H.
Qed.

(* members of the answer, spelled out *)
Lemma covering_In starts ends x y :
  length starts = length ends ->
  (In y (covering starts ends x) <->
   (y < length starts)%nat /\ nth y starts 0 <= x < nth y ends 0).
Proof.
  intros _. unfold covering, covers.
  rewrite filter_In, in_seq, andb_true_iff, Z.leb_le, Z.ltb_lt. intuition lia.
Qed.

Lemma covering_skips_empty starts ends x y :
  nth y ends 0 <= nth y starts 0 -> ~ In y (covering starts ends x).
Proof.
  unfold covering, covers. rewrite filter_In, andb_true_iff, Z.leb_le, Z.ltb_lt. lia.
Qed.
