(* Proofs/RegionsProofsC.v *)
From Bio Require Import Base.
