(* Proofs/BedProofsC.v *)
From Bio Require Import Base.
