(* Proofs/BedProofsC.v — the reader on written text: one line, files of
   records sharing one N, field counts, refusal outside 3..12. *)
From Bio Require Import Base.
From Bio.Model Require Import Bed.
From Bio.Spec Require Import BedSpec.
From Bio.Proofs Require Import BedProofs BedProofsB.

Lemma drop_cr_nob s : nob CR s -> drop_cr s = s.
Proof.
  induction s as [|c r IH]; intros H; [reflexivity|].
  inversion H as [|? ? Hc Hr]; subst.
  destruct r as [|c' r'].
  - cbn [drop_cr]. unfold CR in Hc. rewrite Hc. reflexivity.
  - change (drop_cr (c :: c' :: r')) with (c :: drop_cr (c' :: r')). rewrite (IH Hr). reflexivity.
Qed.

Lemma do_line_written n b : bed_ok b -> (n = 0 \/ n = Z.to_nat (b_n b))%nat ->
  do_line n (line_of b) = Yield (first_n b) (Z.to_nat (b_n b)).
Proof.
  intros Hok Hn. pose proof Hok as [Hr Hf].
  unfold do_line. rewrite drop_cr_nob by (apply line_nob; [exact Hok | discriminate | reflexivity]).
  destruct (line_head b Hr) as [rest E].
  destruct (line_of b) as [|c l] eqn:EL.
  { exfalso. symmetry in E. exact (app_cons_not_nil _ _ _ (eq_sym E)). }
  assert (Hc : (c =? 35) = false).
  { destruct (b_chrom b) as [|c' r'] eqn:EC; cbn [app] in E; injection E as E1 E2; subst c.
    - reflexivity.
    - apply N.eqb_neq. intros ->. destruct Hf as (_ & Hhash & _).
      cbn [first_n b_chrom] in Hhash. exact (Hhash r' EC). }
  rewrite Hc, <- EL, (split_line b Hok), (wfields_length b Hr), (parse_line_wfields b Hok).
  assert (E0 : (Z.to_nat (b_n b) =? 0)%nat = false) by (apply Nat.eqb_neq; lia).
  destruct Hn as [-> | ->].
  - cbn [Nat.eqb]. rewrite Nat.eqb_refl. reflexivity.
  - rewrite E0, Nat.eqb_refl. reflexivity.
Qed.

(* the text of a file *)
Definition text_of (bs : list bed) : bytes := concat (map (fun b => line_of b ++ [LF]) bs).

Lemma write_file_text bs : Forall (fun b => (3 <= b_n b <= 12)%Z) bs ->
  write_file bs = Ok (text_of bs).
Proof.
  induction 1 as [|b bs Hb Hbs IH]; [reflexivity|].
  cbn [write_file]. rewrite (write_line b Hb), IH. reflexivity.
Qed.

Lemma split_lines ls : Forall (nob LF) ls ->
  split_on LF (concat (map (fun l => l ++ [LF]) ls)) = ls ++ [[]].
Proof.
  induction 1 as [|l ls Hl Hls IH]; [reflexivity|].
  cbn [map concat]. rewrite <- app_assoc. cbn [app].
  rewrite split_on_app by exact Hl. rewrite IH. reflexivity.
Qed.

Lemma rs_lines_text bs : Forall bed_ok bs -> rs_lines (text_of bs) = (map line_of bs, []).
Proof.
  intros H. unfold rs_lines, text_of.
  replace (map (fun b => line_of b ++ [LF]) bs) with (map (fun l => l ++ [LF]) (map line_of bs))
    by (rewrite map_map; reflexivity).
  rewrite split_lines.
  - rewrite removelast_last, last_last. reflexivity.
  - apply Forall_forall. intros l Hl. apply in_map_iff in Hl. destruct Hl as [b [<- Hb]].
    rewrite Forall_forall in H. apply line_nob; [apply H, Hb | discriminate | reflexivity].
Qed.

Lemma dec_lines_written k bs : Forall (fun b => bed_ok b /\ b_n b = k) bs ->
  forall n, (n = 0 \/ n = Z.to_nat k)%nat ->
  dec_lines n (map line_of bs) [] TEOF = map (fun b => Rec (first_n b)) bs.
Proof.
  induction 1 as [|b bs [Hb Hk] Hbs IH]; intros n Hn; [reflexivity|].
  cbn [map dec_lines]. rewrite (do_line_written n b Hb) by (rewrite Hk; exact Hn).
  rewrite Hk. rewrite IH by (right; reflexivity). reflexivity.
Qed.

Lemma file_roundtrip k bs : Forall (fun b => bed_ok b /\ b_n b = k) bs ->
  exists w, write_file bs = Ok w /\ decode w TEOF = map (fun b => Rec (first_n b)) bs.
Proof.
  intros H. exists (text_of bs).
  assert (Hok : Forall bed_ok bs) by (eapply Forall_impl; [| exact H]; intros b [A _]; exact A).
  split.
  - apply write_file_text. eapply Forall_impl; [| exact Hok]. intros b [A _]; exact A.
  - unfold decode. rewrite (rs_lines_text bs Hok).
    apply (dec_lines_written k bs H). left; reflexivity.
Qed.

Lemma roundtrip b : bed_ok b ->
  exists w, write b = Ok w /\ decode w TEOF = [Rec (first_n b)].
Proof.
  intros H. destruct (file_roundtrip (b_n b) [b]) as [w [Hw Hd]].
  { constructor; [split; [exact H | reflexivity] | constructor]. }
  exists w. split; [| exact Hd].
  cbn [write_file] in Hw. destruct (write b) as [x| |]; try discriminate.
  rewrite app_nil_r in Hw. exact Hw.
Qed.

(* ------------------------------------------------------------------ *)
(* field count                                                          *)
Lemma count_app x a b : count_byte x (a ++ b) = (count_byte x a + count_byte x b)%nat.
Proof. unfold count_byte. rewrite filter_app, app_length. reflexivity. Qed.

Lemma count_nob x s : nob x s -> count_byte x s = 0%nat.
Proof.
  induction 1 as [|c s Hc Hs IH]; [reflexivity|].
  unfold count_byte in *. cbn [filter]. rewrite N.eqb_sym, Hc. exact IH.
Qed.

Lemma count_join x l : l <> [] -> Forall (nob x) l ->
  count_byte x (join_with [x] l) = (length l - 1)%nat.
Proof.
  induction l as [|a l IH]; intros Hne Hl; [congruence|].
  inversion Hl as [|? ? Ha Hr]; subst.
  destruct l as [|b r].
  - cbn [join_with length]. rewrite (count_nob _ _ Ha). reflexivity.
  - rewrite join_with_cons2, !count_app, (count_nob _ _ Ha), IH by (discriminate || exact Hr).
    unfold count_byte at 1. cbn [filter]. rewrite N.eqb_refl. cbn [length]. lia.
Qed.

Lemma field_count b : bed_ok b ->
  exists line, write b = Ok (line ++ [LF])
    /\ Z.of_nat (count_byte TAB line) = (b_n b - 1)%Z
    /\ Z.of_nat (length (split_on TAB line)) = b_n b
    /\ count_byte LF line = 0%nat /\ count_byte CR line = 0%nat.
Proof.
  intros Hok. pose proof Hok as [Hn Hf]. exists (line_of b). split; [apply write_line, Hn|].
  split; [| split; [| split]].
  - unfold line_of. rewrite count_join.
    + rewrite (wfields_length b Hn). lia.
    + apply wfields_nonnil, Hn.
    + apply wfields_nob; [exact Hf | reflexivity].
  - rewrite (split_line b Hok), (wfields_length b Hn). lia.
  - apply count_nob, line_nob; [exact Hok | discriminate | reflexivity].
  - apply count_nob, line_nob; [exact Hok | discriminate | reflexivity].
Qed.

Lemma write_refuses b : (b_n b < 3 \/ b_n b > 12)%Z -> write_calls b = Err /\ write b = Err.
Proof.
  intros H. assert (E : write_calls b = Err).
  { unfold write_calls.
    assert (C : ((b_n b <? 3) || (b_n b >? 12))%Z = true).
    { rewrite Z.gtb_ltb. apply orb_true_iff. destruct H; [left | right]; apply Z.ltb_lt; lia. }
    rewrite C. reflexivity. }
  split; [exact E|]. unfold write. rewrite E. reflexivity.
Qed.

(* inside 3..12 Write always succeeds, whatever the fields *)
Lemma write_accepts b : (3 <= b_n b <= 12)%Z -> exists cs, write_calls b = Ok cs /\ write b = Ok (concat cs).
Proof.
  intros H. pose proof (write_line b H) as W. unfold write in *.
  destruct (write_calls b) as [cs| |]; try discriminate. exists cs. split; reflexivity.
Qed.

(* ------------------------------------------------------------------ *)
(* the same line without its final LF, and with a CRLF line end         *)
Lemma drop_cr_snoc s : drop_cr (s ++ [CR]) = s.
Proof.
  induction s as [|c r IH]; [reflexivity|].
  destruct r as [|c' r'].
  - reflexivity.
  - change (drop_cr ((c :: c' :: r') ++ [CR])) with (c :: drop_cr ((c' :: r') ++ [CR])).
    rewrite IH. reflexivity.
Qed.

Lemma do_line_cr n s : nob CR s -> do_line n (s ++ [CR]) = do_line n s.
Proof. intros H. unfold do_line. rewrite drop_cr_snoc, (drop_cr_nob s H). reflexivity. Qed.

Lemma relaid b : bed_ok b ->
  exists line, write b = Ok (line ++ [LF])
    /\ decode line TEOF = [Rec (first_n b)]
    /\ decode (line ++ [CR; LF]) TEOF = [Rec (first_n b)].
Proof.
  intros Hok. pose proof Hok as [Hn Hf]. exists (line_of b).
  assert (HLF : nob LF (line_of b)) by (apply line_nob; [exact Hok | discriminate | reflexivity]).
  assert (HCR : nob CR (line_of b)) by (apply line_nob; [exact Hok | discriminate | reflexivity]).
  split; [apply write_line, Hn|]. split.
  - unfold decode, rs_lines. rewrite (split_on_free LF _ HLF). cbn [removelast last dec_lines].
    rewrite (do_line_written 0 b Hok) by (left; reflexivity). reflexivity.
  - unfold decode, rs_lines.
    match goal with
    | |- context [split_on LF ?t] =>
      assert (E : t = (line_of b ++ [CR]) ++ LF :: []) by (rewrite <- app_assoc; reflexivity);
      rewrite E
    end.
    rewrite split_on_app.
    + cbn [split_on removelast last dec_lines].
      rewrite (do_line_cr 0 _ HCR), (do_line_written 0 b Hok) by (left; reflexivity).
      reflexivity.
    + apply nob_app; [exact HLF|]. apply nob_cons; [reflexivity | apply nob_nil].
Qed.
