(* Proofs/NewickProofs.v *)
From Bio Require Import Base.
