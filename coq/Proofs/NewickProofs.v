(* Proofs/NewickProofs.v — C19: the explicit-stack traversal equals the classic
   recursive pre-/post-order; each node once; ancestors before descendants. *)
From Bio Require Import Base.
From Bio.Model Require Import Newick.
From Bio.Spec Require Import NewickSpec.
Local Open Scope nat_scope.

(* ---- induction on trees ------------------------------------------------ *)
Lemma tree_ind' (P : tree -> Prop) :
  (forall n d cs, Forall P cs -> P (Node n d cs)) -> forall t, P t.
Proof.
  intros H. fix IH 1. intros [n d cs]. apply H.
  induction cs; constructor; [apply IH | assumption].
Qed.

(* ---- vocabulary --------------------------------------------------------- *)
Definition order (pre : bool) : tree -> list occ := if pre then preorder else postorder.
Definition under1 (i : nat) (x : occ) : occ := (i :: fst x, snd x).
Definition pref (rp : path) (l : list occ) : list occ :=
  map (fun x => (rev rp ++ fst x, snd x)) l.

Definition kcost (steps : tree -> nat) (l : list tree) : nat :=
  list_sum (map (fun c => S (steps c)) l).
Fixpoint steps_of (t : tree) : nat :=
  match t with Node _ _ cs => S (list_sum (map (fun c => S (steps_of c)) cs)) end.

Lemma under_map i l : under i l = map (under1 i) l.
Proof. reflexivity. Qed.

Lemma kids_from_cons f i c r :
  kids_from f i (c :: r) = under i (f c) ++ kids_from f (S i) r.
Proof. reflexivity. Qed.

Lemma order_node pre n d cs :
  order pre (Node n d cs) =
  (if pre then [([], Node n d cs)] else []) ++ kids_from (order pre) 0 cs
  ++ (if pre then [] else [([], Node n d cs)]).
Proof. destruct pre; simpl; [rewrite app_nil_r|]; reflexivity. Qed.

Lemma pref_under rp i l : pref rp (under i l) = pref (i :: rp) l.
Proof.
  unfold pref, under. rewrite map_map. apply map_ext. intros [q n]. simpl.
  rewrite <- app_assoc. reflexivity.
Qed.

Lemma pref_nil l : pref [] l = l.
Proof.
  unfold pref. rewrite <- (map_id l) at 2. apply map_ext. intros [q n]. reflexivity.
Qed.

Lemma pref_app rp a b : pref rp (a ++ b) = pref rp a ++ pref rp b.
Proof. apply map_app. Qed.

(* ---- the loop ----------------------------------------------------------- *)
Definition tree_loop_ok (pre : bool) (c : tree) : Prop :=
  forall p rest acc f,
    traverse_loop pre (steps_of c + f) ((p, c, 0) :: rest) acc
    = traverse_loop pre f rest (rev (pref p (order pre c)) ++ acc).

Lemma loop_kids pre nm d cs p : forall l done i rest acc f,
  cs = done ++ l -> i = length done -> Forall (tree_loop_ok pre) l ->
  traverse_loop pre (kcost steps_of l + 1 + f) ((p, Node nm d cs, i) :: rest) acc
  = traverse_loop pre f rest
      ((if pre then [] else [(rev p, Node nm d cs)])
       ++ rev (pref p (kids_from (order pre) i l))
       ++ (if pre && Nat.eqb i 0 then (rev p, Node nm d cs) :: acc else acc)).
Proof.
  induction l as [|a l IH]; intros done i rest acc f Hcs Hi HF.
  - rewrite app_nil_r in Hcs. subst done.
    change (kcost steps_of [] + 1 + f) with (S f).
    cbn [traverse_loop t_children]. rewrite <- Hi, Nat.eqb_refl.
    destruct pre; reflexivity.
  - inversion HF as [|? ? Ha HF']; subst.
    replace (kcost steps_of (a :: l) + 1 + f)
      with (S (steps_of a + (kcost steps_of l + 1 + f))) by (unfold kcost; simpl; lia).
    cbn [traverse_loop t_children].
    assert (E1 : Nat.eqb (length done) (length (done ++ a :: l)) = false).
    { apply Nat.eqb_neq. rewrite app_length. simpl. lia. }
    rewrite E1.
    assert (E2 : nth_error (done ++ a :: l) (length done) = Some a).
    { rewrite nth_error_app2 by lia. rewrite Nat.sub_diag. reflexivity. }
    rewrite E2. rewrite Ha.
    rewrite (IH (done ++ [a]) (S (length done))).
    + rewrite kids_from_cons, pref_app, rev_app_distr, pref_under.
      cbn [Nat.eqb andb]. rewrite Bool.andb_false_r. rewrite <- !app_assoc. reflexivity.
    + rewrite <- app_assoc. reflexivity.
    + rewrite app_length. simpl. lia.
    + assumption.
Qed.

Lemma loop_tree pre : forall t, tree_loop_ok pre t.
Proof.
  induction t as [nm d cs HF] using tree_ind'. intros p rest acc f.
  change (steps_of (Node nm d cs) + f) with (S (kcost steps_of cs + f)).
  replace (S (kcost steps_of cs + f)) with (kcost steps_of cs + 1 + f) by lia.
  rewrite (loop_kids pre nm d cs p cs [] 0 rest acc f eq_refl eq_refl HF).
  rewrite order_node, !pref_app, !rev_app_distr.
  destruct pre; cbn [andb Nat.eqb pref map rev app fst snd]; rewrite ?app_nil_r;
    rewrite <- ?app_assoc; reflexivity.
Qed.

Lemma steps_size : forall t, steps_of t + 1 = 2 * size t.
Proof.
  induction t as [nm d cs HF] using tree_ind'. cbn [steps_of size].
  assert (E : list_sum (map (fun c => S (steps_of c)) cs) = 2 * list_sum (map size cs)).
  { induction HF as [|c l Hc _ IHl]; simpl; [reflexivity|]. simpl in IHl. lia. }
  lia.
Qed.

Lemma traverse_order pre t : traverse pre t = Ok (order pre t).
Proof.
  unfold traverse.
  replace (2 * size t + 2) with (steps_of t + 3) by (pose proof (steps_size t); lia).
  rewrite (loop_tree pre t [] [] [] 3). cbn [traverse_loop].
  rewrite app_nil_r, rev_involutive, pref_nil. reflexivity.
Qed.

Lemma traverse_preorder t : traverse true t = Ok (preorder t).
Proof. exact (traverse_order true t). Qed.
Lemma traverse_postorder t : traverse false t = Ok (postorder t).
Proof. exact (traverse_order false t). Qed.

(* ---- membership: exactly the nodes of the tree -------------------------- *)
Lemma in_kids f : forall l i x,
  In x (kids_from f i l) <->
  exists k c y, nth_error l k = Some c /\ In y (f c) /\ x = under1 (i + k) y.
Proof.
  induction l as [|a l IH]; intros i x.
  - simpl. split; [tauto|]. intros (k & c & y & H & _). destruct k; discriminate.
  - rewrite kids_from_cons, in_app_iff, IH, under_map, in_map_iff. split.
    + intros [(y & E & Hy) | (k & c & y & Hk & Hy & E)].
      * exists 0, a, y. rewrite Nat.add_0_r. auto.
      * exists (S k), c, y. rewrite Nat.add_succ_r. auto.
    + intros (k & c & y & Hk & Hy & E). destruct k as [|k].
      * left. simpl in Hk. inversion Hk; subst. exists y. rewrite Nat.add_0_r. auto.
      * right. exists k, c, y. rewrite Nat.add_succ_r in E. auto.
Qed.

Lemma in_order pre : forall t p n, In (p, n) (order pre t) <-> subtree_at t p = Some n.
Proof.
  induction t as [nm d cs HF] using tree_ind'. intros p n.
  rewrite Forall_forall in HF.
  assert (Hroot : forall l : list occ, l = [([], Node nm d cs)] \/ l = [] -> In (p, n) l ->
                  subtree_at (Node nm d cs) p = Some n).
  { intros l [-> | ->] Hin; [|destruct Hin]. destruct Hin as [E|[]]. inversion E; reflexivity. }
  rewrite order_node, !in_app_iff, in_kids. split.
  - intros [H | [(k & c & [q m] & Hk & Hy & E) | H]].
    + apply (Hroot (if pre then [([], Node nm d cs)] else [])); [destruct pre; auto | exact H].
    + inversion E; subst. cbn [subtree_at t_children]. rewrite Hk.
      apply (HF c (nth_error_In _ _ Hk)). exact Hy.
    + apply (Hroot (if pre then [] else [([], Node nm d cs)])); [destruct pre; auto | exact H].
  - destruct p as [|k q]; cbn [subtree_at t_children].
    + intros E. inversion E; subst. destruct pre; [left | right; right]; left; reflexivity.
    + destruct (nth_error cs k) as [c|] eqn:Hk; [|discriminate]. intros H.
      right; left. exists k, c, (q, n). split; [exact Hk|]. split.
      * apply (HF c (nth_error_In _ _ Hk)). exact H.
      * reflexivity.
Qed.

(* ---- each node exactly once --------------------------------------------- *)
Lemma NoDup_app' {A} (a b : list A) :
  NoDup a -> NoDup b -> (forall x, In x a -> ~ In x b) -> NoDup (a ++ b).
Proof.
  induction a as [|x a IH]; intros Ha Hb Hd; [exact Hb|].
  inversion Ha; subst. simpl. constructor.
  - rewrite in_app_iff. intros [H|H]; [contradiction|]. exact (Hd x (or_introl eq_refl) H).
  - apply IH; auto. intros y Hy. apply Hd. right; exact Hy.
Qed.

Lemma NoDup_map_cons (i : nat) (l : list path) : NoDup l -> NoDup (map (cons i) l).
Proof.
  induction 1 as [|x l Hx _ IH]; simpl; constructor; [|exact IH].
  rewrite in_map_iff. intros (y & E & Hy). inversion E; subst. contradiction.
Qed.

Lemma map_fst_under i l : map fst (under i l) = map (cons i) (map fst l).
Proof. unfold under. rewrite !map_map. reflexivity. Qed.

Lemma nodup_kids f : forall l i,
  Forall (fun c => NoDup (map fst (f c))) l -> NoDup (map fst (kids_from f i l)).
Proof.
  induction l as [|a l IH]; intros i HF; [constructor|].
  inversion HF; subst. rewrite kids_from_cons, map_app, map_fst_under.
  apply NoDup_app'.
  - apply NoDup_map_cons. assumption.
  - apply IH. assumption.
  - intros x Hx Hy. rewrite in_map_iff in Hx, Hy.
    destruct Hx as (q & <- & _). destruct Hy as (y & E & Hy).
    apply in_kids in Hy. destruct Hy as (k & c & z & _ & _ & ->).
    simpl in E. inversion E. lia.
Qed.

Lemma nodup_order pre : forall t, NoDup (map fst (order pre t)).
Proof.
  induction t as [nm d cs HF] using tree_ind'.
  assert (Hk : NoDup (map fst (kids_from (order pre) 0 cs))) by (apply nodup_kids; exact HF).
  assert (Hnil : ~ In [] (map fst (kids_from (order pre) 0 cs))).
  { rewrite in_map_iff. intros (y & E & Hy). apply in_kids in Hy.
    destruct Hy as (k & c & z & _ & _ & ->). discriminate. }
  rewrite order_node. destruct pre; cbn [app].
  - rewrite app_nil_r. cbn [map fst]. constructor; assumption.
  - rewrite map_app. apply NoDup_app'; [assumption | repeat constructor; intros [] |].
    intros x Hx [<-|[]]. contradiction.
Qed.

Lemma length_kids f : forall l i,
  length (kids_from f i l) = list_sum (map (fun c => length (f c)) l).
Proof.
  induction l as [|a l IH]; intros i; [reflexivity|].
  rewrite kids_from_cons, app_length, IH. unfold under. rewrite map_length. reflexivity.
Qed.

Lemma length_order pre : forall t, length (order pre t) = size t.
Proof.
  induction t as [nm d cs HF] using tree_ind'.
  rewrite order_node, !app_length, length_kids. cbn [size].
  assert (E : list_sum (map (fun c => length (order pre c)) cs) = list_sum (map size cs)).
  { induction HF as [|c l Hc _ IHl]; simpl; [reflexivity|]. rewrite Hc, IHl. reflexivity. }
  rewrite E. destruct pre; simpl; lia.
Qed.

(* ---- ancestors before descendants ---------------------------------------- *)
Lemma before_app_l {A} (l m : list A) x y : before l x y -> before (l ++ m) x y.
Proof.
  intros (l1 & l2 & l3 & ->). exists l1, l2, (l3 ++ m).
  repeat (rewrite <- app_assoc; simpl). reflexivity.
Qed.

Lemma before_app_r {A} (l m : list A) x y : before m x y -> before (l ++ m) x y.
Proof.
  intros (l1 & l2 & l3 & ->). exists (l ++ l1), l2, l3. rewrite <- app_assoc. reflexivity.
Qed.

Lemma before_app_lr {A} (l m : list A) x y : In x l -> In y m -> before (l ++ m) x y.
Proof.
  intros Hx Hy. apply in_split in Hx. apply in_split in Hy.
  destruct Hx as (a & b & ->). destruct Hy as (c & e & ->).
  exists a, (b ++ c), e. repeat (rewrite <- app_assoc; simpl). reflexivity.
Qed.

Lemma before_map {A B} (g : A -> B) l x y : before l x y -> before (map g l) (g x) (g y).
Proof.
  intros (l1 & l2 & l3 & ->). exists (map g l1), (map g l2), (map g l3).
  rewrite !map_app. simpl. rewrite map_app. reflexivity.
Qed.

Lemma before_kids f : forall l i k c x y,
  nth_error l k = Some c -> before (f c) x y ->
  before (kids_from f i l) (under1 (i + k) x) (under1 (i + k) y).
Proof.
  induction l as [|a l IH]; intros i k c x y Hk Hb; [destruct k; discriminate|].
  rewrite kids_from_cons. destruct k as [|k]; simpl in Hk.
  - inversion Hk; subst. rewrite Nat.add_0_r. apply before_app_l.
    rewrite under_map. apply before_map. exact Hb.
  - apply before_app_r. rewrite Nat.add_succ_r. apply (IH (S i) k c); assumption.
Qed.

Lemma strict_prefix_nil_r p : ~ strict_prefix p [].
Proof.
  intros (r & Hr & E). destruct p; simpl in E; [|discriminate]. subst. contradiction.
Qed.

Lemma strict_prefix_cons i p j q : strict_prefix (i :: p) (j :: q) -> i = j /\ strict_prefix p q.
Proof.
  intros (r & Hr & E). simpl in E. inversion E; subst. split; [reflexivity|]. exists r. auto.
Qed.

(* an ancestor/descendant pair among the children's occurrences lies in one child *)
Lemma kids_related f l i a d :
  In a (kids_from f i l) -> In d (kids_from f i l) -> strict_prefix (fst a) (fst d) ->
  exists k c a' d', nth_error l k = Some c /\ In a' (f c) /\ In d' (f c)
    /\ a = under1 (i + k) a' /\ d = under1 (i + k) d' /\ strict_prefix (fst a') (fst d').
Proof.
  intros Ha Hd Hp. apply in_kids in Ha. apply in_kids in Hd.
  destruct Ha as (k & c & a' & Hk & Ha & ->). destruct Hd as (k' & c' & d' & Hk' & Hd & ->).
  simpl in Hp. apply strict_prefix_cons in Hp. destruct Hp as [E Hp].
  assert (k' = k) by lia. subst k'. rewrite Hk in Hk'. inversion Hk'; subst c'.
  exists k, c, a', d'. auto 10.
Qed.

Lemma pre_ancestor_first : forall t a d,
  In a (preorder t) -> In d (preorder t) -> strict_prefix (fst a) (fst d) ->
  before (preorder t) a d.
Proof.
  induction t as [nm d0 cs HF] using tree_ind'. intros a d Ha Hd Hp.
  rewrite Forall_forall in HF.
  change (preorder (Node nm d0 cs)) with (([], Node nm d0 cs) :: kids_from preorder 0 cs) in *.
  destruct Ha as [<- | Ha].
  - destruct Hd as [<- | Hd]; [exfalso; exact (strict_prefix_nil_r _ Hp)|].
    apply (before_app_lr [([], Node nm d0 cs)]); [left; reflexivity | exact Hd].
  - destruct Hd as [<- | Hd]; [exfalso; exact (strict_prefix_nil_r _ Hp)|].
    destruct (kids_related _ _ _ _ _ Ha Hd Hp) as (k & c & a' & d' & Hk & Ha' & Hd' & -> & -> & Hp').
    apply (before_app_r [([], Node nm d0 cs)]).
    apply (before_kids preorder cs 0 k c); [exact Hk|].
    apply (HF c (nth_error_In _ _ Hk)); assumption.
Qed.

Lemma post_descendant_first : forall t a d,
  In a (postorder t) -> In d (postorder t) -> strict_prefix (fst a) (fst d) ->
  before (postorder t) d a.
Proof.
  induction t as [nm d0 cs HF] using tree_ind'. intros a d Ha Hd Hp.
  rewrite Forall_forall in HF.
  change (postorder (Node nm d0 cs)) with (kids_from postorder 0 cs ++ [([], Node nm d0 cs)]) in *.
  rewrite in_app_iff in Ha, Hd.
  destruct Hd as [Hd | [<- | []]]; [|exfalso; exact (strict_prefix_nil_r _ Hp)].
  destruct Ha as [Ha | [<- | []]].
  - destruct (kids_related _ _ _ _ _ Ha Hd Hp) as (k & c & a' & d' & Hk & Ha' & Hd' & -> & -> & Hp').
    apply before_app_l.
    apply (before_kids postorder cs 0 k c); [exact Hk|].
    apply (HF c (nth_error_In _ _ Hk)); assumption.
  - apply before_app_lr; [exact Hd | left; reflexivity].
Qed.

(* children in slice order: the occurrences of child i precede those of child j > i *)
Lemma kids_sibling_order f : forall l i k1 k2 c1 c2 x y,
  k1 < k2 -> nth_error l k1 = Some c1 -> nth_error l k2 = Some c2 ->
  In x (f c1) -> In y (f c2) ->
  before (kids_from f i l) (under1 (i + k1) x) (under1 (i + k2) y).
Proof.
  induction l as [|a l IH]; intros i k1 k2 c1 c2 x y Hlt H1 H2 Hx Hy; [destruct k1; discriminate|].
  rewrite kids_from_cons. destruct k2 as [|k2]; [lia|]. simpl in H2.
  destruct k1 as [|k1]; simpl in H1.
  - inversion H1; subst. apply before_app_lr.
    + rewrite under_map, Nat.add_0_r. apply in_map. exact Hx.
    + apply in_kids. exists k2, c2, y. rewrite Nat.add_succ_r. auto.
  - apply before_app_r. rewrite !Nat.add_succ_r.
    apply (IH (S i) k1 k2 c1 c2); auto; lia.
Qed.

(* ---- statements about what traverse returns ------------------------------- *)
Lemma traverse_every_node pre t l : traverse pre t = Ok l ->
  forall p n, In (p, n) l <-> subtree_at t p = Some n.
Proof.
  rewrite traverse_order. intros E. inversion E; subst. apply in_order.
Qed.

Lemma traverse_each_once pre t l : traverse pre t = Ok l ->
  NoDup (map fst l) /\ length l = size t.
Proof.
  rewrite traverse_order. intros E. inversion E; subst.
  split; [apply nodup_order | apply length_order].
Qed.
