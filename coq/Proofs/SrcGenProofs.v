(* Proofs/SrcGenProofs.v — the hand-written model agrees, for ALL arguments, with
   the definitions that `harness gen-src` translates from the Go source on every
   run (gen/SrcGen.v): decideOnStep, eventLess, Iton and the named constants.
   A change of the Go source that alters one of these functions changes
   gen/SrcGen.v and breaks the corresponding lemma here. *)
From Coq Require Import String.
From Bio Require Import Base.
From Bio.gen Require Import SrcGen Tables.
From Bio.Model Require Import Align Regions Seq Fasta.

(* ---- align: decideOnStep and the step / gap constants ---------------------- *)
Lemma step_constants :
  step_code SMatch = k_align_Match /\ step_code SDel = k_align_Deletion
  /\ step_code SIns = k_align_Insertion /\ Z.of_N Align.Gap = k_align_Gap.
Proof. repeat split; reflexivity. Qed.

Lemma decide_is_source mch del ins :
  let c := decide mch del ins in
  let b := src_align_decideOnStep mch del ins in
  fst c = src_align_block_score b /\ step_code (snd c) = src_align_block_step b.
Proof.
  unfold decide, src_align_decideOnStep.
  rewrite !Z.geb_leb.
  destruct ((del <=? mch)%Z && (ins <=? mch)%Z); [split; reflexivity|].
  destruct (ins <=? del)%Z; split; reflexivity.
Qed.

(* ---- regions: eventLess ------------------------------------------------------ *)
Definition src_event_of (e : event) : src_regions_event :=
  Src_regions_event (Z.of_nat (e_idx e)) (e_pos e) (e_start e).

Lemma event_less_is_source a b :
  event_less a b = src_regions_eventLess (src_event_of a) (src_event_of b).
Proof.
  unfold event_less, src_regions_eventLess, src_event_of; cbn [src_regions_event_pos src_regions_event_start src_regions_event_idx].
  destruct (negb (e_pos a =? e_pos b)%Z); [reflexivity|].
  destruct (negb (Bool.eqb (e_start a) (e_start b))); [reflexivity|].
  destruct (Nat.ltb_spec (e_idx a) (e_idx b)) as [H|H]; symmetry.
  - apply Z.ltb_lt. lia.
  - apply Z.ltb_ge. lia.
Qed.

(* ---- sequtil: Iton, for every int --------------------------------------------- *)
Lemma iton_tab_is : iton_tab = [((-1)%Z, 78%N); (0%Z, 65%N); (1%Z, 67%N); (2%Z, 71%N); (3%Z, 84%N); (4%Z, 78%N)]
  /\ iton_default = 78%N.
Proof. split; reflexivity. Qed.

Lemma iton_is_source i : Z.of_N (iton i) = src_sequtil_Iton i.
Proof.
  unfold iton, src_sequtil_Iton. destruct iton_tab_is as [-> ->].
  cbn [find fst snd].
  destruct (Z.eqb_spec (-1) i) as [<-|n1]; [reflexivity|].
  destruct (Z.eqb_spec 0 i) as [<-|n2]; [reflexivity|].
  destruct (Z.eqb_spec 1 i) as [<-|n3]; [reflexivity|].
  destruct (Z.eqb_spec 2 i) as [<-|n4]; [reflexivity|].
  destruct (Z.eqb_spec 3 i) as [<-|n5]; [reflexivity|].
  replace (i =? 0)%Z with false by (symmetry; apply Z.eqb_neq; lia).
  replace (i =? 1)%Z with false by (symmetry; apply Z.eqb_neq; lia).
  replace (i =? 2)%Z with false by (symmetry; apply Z.eqb_neq; lia).
  replace (i =? 3)%Z with false by (symmetry; apply Z.eqb_neq; lia).
  destruct (Z.eqb_spec 4 i); reflexivity.
Qed.

(* ---- fasta: the line length constant ------------------------------------------- *)
Lemma text_line_len_is_source : Z.of_nat text_line_len = k_fasta_textLineLen.
Proof. reflexivity. Qed.

(* ---- the format strings of the writers ------------------------------------------
   gen/SrcGen.v also holds, for every fmt.Fprintf call with a literal format in the
   Write methods of fasta, fastq, sam and bed, the function from the call's arguments to
   the bytes it writes (translated from the format string and the argument types).
   The chunks of the hand-written writers are exactly these functions applied to the
   record's fields. *)
From Bio.Model Require Fastq Sam Bed.

Lemma fasta_write_is_source r :
  Fasta.write_calls r
  = src_fasta_Write_0 (Fasta.name r) :: map src_fasta_Write_1 (Fasta.chunks (Fasta.seq r)).
Proof. reflexivity. Qed.

Lemma fastq_write_is_source r :
  Fastq.write_calls r = [src_fastq_Write_0 (Fastq.name r) (Fastq.seq r) (Fastq.quals r)].
Proof. reflexivity. Qed.

Lemma sam_write_is_source o r :
  Sam.write_calls o r
  = src_sam_Write_0 (Sam.s_qname r) (Sam.s_flag r) (Sam.s_rname r) (Sam.s_pos r) (Sam.s_mapq r)
      (Sam.s_cigar r) (Sam.s_rnext r) (Sam.s_pnext r) (Sam.s_tlen r) (Sam.s_seq r) (Sam.s_qual r)
    :: map src_sam_Write_1 (Sam.tags_text o (Sam.s_tags r)) ++ [src_sam_Write_2].
Proof. reflexivity. Qed.

(* BED: the ladder of calls; the two block lists are written by calls with a computed
   format ("%v" / ",%v"), which the translator skips: they stay hand-modelled. *)
Lemma bed_write_is_source b cs :
  Bed.write_calls b = Ok cs ->
  let n := Bed.b_n b in
  let '(r, g, bl) := Bed.b_rgb b in
  cs = [src_bed_Write_0 (Bed.b_chrom b) (Bed.b_start b) (Bed.b_end b)]
    ++ Bed.when (n >? 3)%Z [src_bed_Write_1 (Bed.b_name b)]
    ++ Bed.when (n >? 4)%Z [src_bed_Write_2 (Bed.b_score b)]
    ++ Bed.when (n >? 5)%Z [src_bed_Write_3 (Bed.b_strand b)]
    ++ Bed.when (n >? 6)%Z [src_bed_Write_4 (Bed.b_thick_start b)]
    ++ Bed.when (n >? 7)%Z [src_bed_Write_5 (Bed.b_thick_end b)]
    ++ Bed.when (n >? 8)%Z [src_bed_Write_6 (Z.of_N r) (Z.of_N g) (Z.of_N bl)]
    ++ Bed.when (n >? 9)%Z [src_bed_Write_7 (Bed.b_block_count b)]
    ++ Bed.when (n >? 10)%Z (src_bed_Write_8 :: Bed.list_calls (Bed.b_block_sizes b))
    ++ Bed.when (n >? 11)%Z (src_bed_Write_9 :: Bed.list_calls (Bed.b_block_starts b))
    ++ [src_bed_Write_10].
Proof.
  unfold Bed.write_calls. destruct ((Bed.b_n b <? 3)%Z || (Bed.b_n b >? 12)%Z); [discriminate|].
  intros H. injection H as <-. destruct (Bed.b_rgb b) as [[r g] bl] eqn:E.
  cbn zeta. unfold Bed.rgb_text, Bed.fmt_byte. reflexivity.
Qed.

(* ---- where the iterators call their callback (C18) --------------------------------
   gen/SrcGen.v lists, for every iterator function literal of the library, the syntactic
   context of each callback call: guarded (0), terminal (1) or bare (2). No call is bare,
   and the list of iterators is the expected one. *)
Lemma iter_yields_guarded :
  forallb (fun p => forallb (fun k => (k <? 2)%N) (snd p)) iter_yields = true.
Proof. vm_compute. reflexivity. Qed.

Lemma iter_yields_names :
  map fst iter_yields =
  [ "fasta.reader.iter#0"; "fasta.File#0"; "fasta.Reader#0";
    "fastq.reader.iter#0"; "fastq.File#0"; "fastq.Reader#0";
    "sam.ReaderHeader#0"; "sam.Reader#0"; "sam.File#0"; "sam.FileHeader#0";
    "bed.Reader#0"; "bed.File#0"; "newick.Reader#0"; "newick.File#0";
    "newick.Node.traverse#0"; "trie.Trie.ForEach#0"; "sequtil.CanonicalSubsequences#0" ]%string.
Proof. reflexivity. Qed.
