(* Proofs/ImpProofsP.v — package trie, translated by gen-imp with a heap (h__): a *Trie is an address,
   a node is its map as an association list.  The translated New, Add, Has and Delete, run on a heap
   that holds a tree without sharing, do what Model/Trie.v says on the tree the heap holds.

   The tie between heap and model is an address-annotated trie [atrie]: the model trie with the heap
   address of every node.  [models h x] says that every node of x is in h at its address with exactly
   x's edges; [NoDup (addrs x)] says that no node is shared. *)
From Coq Require Import ZArith NArith Bool List Lia Sorting.Sorted.
Import ListNotations.
From Bio Require Import Base.
From Bio.Model Require Import GoSem Trie.
From Bio.Spec Require Import TrieSpec.
From Bio.gen Require Import ImpGen.
From Bio.Proofs Require Import TrieProofs TrieProofsB ImpProofs ImpProofsB ImpProofsE.

Local Open Scope Z_scope.

Inductive atrie : Type := AT (a : Z) (ch : list (byte * atrie)).

Definition addr (x : atrie) : Z := match x with AT a _ => a end.
Definition ach (x : atrie) : list (byte * atrie) := match x with AT _ l => l end.

Fixpoint erase (x : atrie) : trie :=
  match x with AT _ l => T (map (fun kc => (fst kc, erase (snd kc))) l) end.

Fixpoint addrs (x : atrie) : list Z :=
  match x with AT a l => a :: flat_map (fun kc => addrs (snd kc)) l end.

(* the heap node of an annotated node: key -> address of the child *)
Definition edges (l : list (byte * atrie)) : go_tnode := map (fun kc => (fst kc, addr (snd kc))) l.

Definition node_ok (h : go_theap) (a : Z) (l : list (byte * atrie)) : Prop :=
  0 <= a /\ nth_error h (Z.to_nat a) = Some (edges l).

Fixpoint models (h : go_theap) (x : atrie) : Prop :=
  match x with
  | AT a l => node_ok h a l /\
              (fix go (l : list (byte * atrie)) : Prop :=
                 match l with [] => True | kc :: r => models h (snd kc) /\ go r end) l
  end.

Lemma models_unfold h a l :
  models h (AT a l) <-> node_ok h a l /\ Forall (fun kc => models h (snd kc)) l.
Proof.
  cbn [models]. split; intros [N F]; split; auto.
  - clear N. induction l as [|kc r IH]; [constructor|]. destruct F as [M F]. constructor; auto.
  - clear N. induction F as [|kc r M F IH]; [exact I|]. split; auto.
Qed.

(* ---- induction on annotated tries ---------------------------------------------------------------- *)
Section ATInd.
  Variable P : atrie -> Prop.
  Hypothesis H : forall a l, Forall (fun kc => P (snd kc)) l -> P (AT a l).
  Fixpoint atrie_ind2 (x : atrie) : P x :=
    match x with
    | AT a l => H a l ((fix go (l : list (byte * atrie)) : Forall (fun kc => P (snd kc)) l :=
                     match l with
                     | [] => Forall_nil _
                     | (k, c) :: r => Forall_cons (k, c) (atrie_ind2 c) (go r)
                     end) l)
    end.
End ATInd.

(* ---- maps commute with the two projections ---------------------------------------------------------- *)
Section MapCommute.
  Context {A B : Type} (f : A -> B).
  Let lift (l : list (byte * A)) : list (byte * B) := map (fun kc => (fst kc, f (snd kc))) l.

  Lemma mget_lift k l : mget k (lift l) = option_map f (mget k l).
  Proof.
    induction l as [|[k0 v0] r IH]; [reflexivity|]. cbn. destruct (N.eqb k0 k); auto.
  Qed.

  Lemma mset_lift k v l : mset k (f v) (lift l) = lift (mset k v l).
  Proof.
    induction l as [|[k0 v0] r IH]; [reflexivity|]. cbn.
    destruct (N.ltb k k0); [reflexivity|]. destruct (N.eqb k k0); [reflexivity|].
    cbn. f_equal. exact IH.
  Qed.

  Lemma mdel_lift k l : mdel k (lift l) = lift (mdel k l).
  Proof.
    induction l as [|[k0 v0] r IH]; [reflexivity|]. cbn.
    destruct (N.eqb k0 k); [reflexivity|]. cbn. f_equal. exact IH.
  Qed.

  Lemma sorted_lift l : sorted (lift l) <-> sorted l.
  Proof. unfold sorted, lift. rewrite map_map. cbn. reflexivity. Qed.
End MapCommute.

(* the heap's map operations are the model's on a sorted list *)
Lemma tn_get_mget k (nd : go_tnode) :
  tn_get k nd = match mget k nd with Some a => a | None => -1 end.
Proof. induction nd as [|[k0 a0] r IH]; [reflexivity|]. cbn. destruct (N.eqb k0 k); auto. Qed.

Lemma tn_put_mset k a (nd : go_tnode) : tn_put k a nd = mset k a nd.
Proof.
  induction nd as [|[k0 a0] r IH]; [reflexivity|]. cbn.
  destruct (N.ltb k k0); [reflexivity|]. destruct (N.eqb k k0); [reflexivity|]. f_equal; try exact IH.
Qed.

Lemma tn_del_mdel k (nd : go_tnode) : sorted nd -> tn_del k nd = mdel k nd.
Proof.
  unfold tn_del. induction nd as [|[k0 a0] r IH]; intros S; [reflexivity|].
  apply sorted_inv in S as [S F]. cbn. destruct (N.eqb k0 k) eqn:E; cbn.
  - apply N.eqb_eq in E. subst k0. clear IH.
    induction r as [|[k1 a1] r IH]; [reflexivity|]. cbn.
    assert (L : (k < k1)%N) by (eapply F; left; reflexivity).
    destruct (N.eqb_spec k1 k) as [->|Ne]; [lia|]. cbn. f_equal.
    apply IH.
    + apply sorted_inv in S as [S _]. exact S.
    + intros k' v' I. eapply F. right. exact I.
  - f_equal. apply IH. exact S.
Qed.

Lemma erase_children x : children (erase x) = map (fun kc => (fst kc, erase (snd kc))) (ach x).
Proof. destruct x; reflexivity. Qed.

Lemma mget_erase k l :
  mget k (map (fun kc => (fst kc, erase (snd kc))) l) = option_map erase (mget k l).
Proof. apply (mget_lift erase). Qed.

Lemma mget_edges k l : mget k (edges l) = option_map addr (mget k l).
Proof. apply (mget_lift addr). Qed.

Lemma models_child h a l k c : models h (AT a l) -> mget k l = Some c -> models h c.
Proof.
  intros M G. apply models_unfold in M as [_ F]. rewrite Forall_forall in F.
  apply mget_Some_In in G. apply (F _ G).
Qed.

Lemma models_addr_nonneg h x : models h x -> 0 <= addr x.
Proof. destruct x. intros M. apply models_unfold in M as [[N _] _]. exact N. Qed.

(* reading an edge *)
Lemma heap_get_models {S R} h a l k (c : Z -> res S R) :
  models h (AT a l) ->
  go_heap_get h a k c = c (match mget k l with Some x => addr x | None => -1 end).
Proof.
  intros M. apply models_unfold in M as [[N E] _].
  unfold go_heap_get, go_index. destruct (Z.ltb_spec a 0); [lia|]. rewrite E.
  rewrite tn_get_mget, mget_edges. destruct (mget k l); reflexivity.
Qed.

(* ---- Has ---------------------------------------------------------------------------------------------- *)
Lemma go_slice_tl {A St R} (x : A) (b : list A) (c : list A -> res St R) :
  go_slice (x :: b) 1 (go_len (x :: b)) c = c b.
Proof.
  unfold go_slice, go_len. cbn [length].
  destruct (Z.ltb_spec 1 0); [lia|]. destruct (Z.ltb_spec (Z.of_nat (S (length b))) 1); [lia|].
  destruct (Z.ltb_spec (Z.of_nat (S (length b))) (Z.of_nat (S (length b)))); [lia|]. cbn [orb].
  replace (Z.to_nat (Z.of_nat (S (length b)) - 1)) with (length b) by lia.
  change (Z.to_nat 1) with 1%nat. cbn [skipn]. rewrite firstn_all. reflexivity.
Qed.

Lemma imp_Has_loop : forall (b : list N) fuel h x,
  models h x -> (length b < fuel)%nat ->
  imp_trie_Trie_Has fuel h (addr x) b = Ret (h, has b (erase x)).
Proof.
  unfold imp_trie_Trie_Has. cbv zeta.
  induction b as [|k b IH]; intros fuel h x M Fu; (destruct fuel as [|fuel]; [cbn in Fu; lia|]).
  - reflexivity.
  - cbn [go_while]. unfold go_len at 1. cbn [length].
    destruct (Z.ltb_spec 0 (Z.of_nat (S (length b)))); [|lia].
    unfold go_index at 1. cbn [Z.ltb Z.compare Z.to_nat nth_error].
    destruct x as [a l]. cbn [addr]. rewrite (heap_get_models h a l k) by exact M.
    cbn [has erase children]. rewrite mget_erase.
    destruct (mget k l) as [c|] eqn:G; cbn [option_map].
    + pose proof (models_addr_nonneg h c (models_child _ _ _ _ _ M G)) as Nn.
      destruct (Z.eqb_spec (addr c) (-1)); [lia|].
      rewrite go_slice_tl. apply IH; [eapply models_child; eauto | cbn in Fu; lia].
    + reflexivity.
Qed.

(* ---- New ------------------------------------------------------------------------------------------------- *)
Lemma imp_New_eq h : imp_trie_New h = Ret (h ++ [[]], go_len h).
Proof. reflexivity. Qed.

(* ---- facts on addresses ------------------------------------------------------------------------------- *)
Definition caddrs (l : list (byte * atrie)) : list Z := flat_map (fun kc => addrs (snd kc)) l.

Lemma addrs_unfold a l : addrs (AT a l) = a :: caddrs l.
Proof. reflexivity. Qed.

Lemma caddrs_app l1 l2 : caddrs (l1 ++ l2) = caddrs l1 ++ caddrs l2.
Proof. unfold caddrs. apply flat_map_app. Qed.

Lemma caddrs_cons k c l : caddrs ((k, c) :: l) = addrs c ++ caddrs l.
Proof. reflexivity. Qed.

Lemma in_caddrs z l : In z (caddrs l) <-> exists k c, In (k, c) l /\ In z (addrs c).
Proof.
  unfold caddrs. rewrite in_flat_map. split.
  - intros [[k c] [I Z]]. exists k, c. auto.
  - intros (k & c & I & Z). exists (k, c). auto.
Qed.

Lemma NoDup_app_iff {A} (l l' : list A) :
  NoDup (l ++ l') <-> NoDup l /\ NoDup l' /\ (forall a, In a l -> ~ In a l').
Proof.
  induction l as [|x l IH]; cbn.
  - split; [intros N; repeat split; auto; constructor | tauto].
  - split.
    + intros N. inversion N as [|? ? NI N']; subst. apply IH in N' as (N1 & N2 & D).
      repeat split; auto.
      * constructor; auto. intro I. apply NI. apply in_or_app. auto.
      * intros a [<-|I]; [intro I; apply NI; apply in_or_app; auto | auto].
    + intros (N1 & N2 & D). inversion N1 as [|? ? NI N1']; subst. constructor.
      * intro I. apply in_app_or in I as [I|I]; [auto | eapply D; eauto].
      * apply IH. repeat split; auto.
Qed.

Lemma models_in_range h : forall x, models h x ->
  forall z, In z (addrs x) -> 0 <= z < go_len h.
Proof.
  induction x as [a l IH] using atrie_ind2. intros M z I.
  apply models_unfold in M as [[N E] F]. rewrite addrs_unfold in I. destruct I as [<-|I].
  - split; auto. assert (Z.to_nat a < length h)%nat by (apply nth_error_Some; congruence).
    unfold go_len. lia.
  - apply in_caddrs in I as (k & c & I & Zc). rewrite Forall_forall in IH, F.
    apply (IH _ I (F _ I) z Zc).
Qed.

(* models looks at the heap only at the addresses of the tree *)
Lemma models_frame h h' : forall x, models h x ->
  (forall z, In z (addrs x) -> nth_error h' (Z.to_nat z) = nth_error h (Z.to_nat z)) ->
  models h' x.
Proof.
  induction x as [a l IH] using atrie_ind2. intros M Fr.
  apply models_unfold in M as [[N E] F]. apply models_unfold. split.
  - split; auto. rewrite Fr; [exact E | left; reflexivity].
  - rewrite Forall_forall in *. intros [k c] I. apply (IH _ I (F _ I)).
    intros z Zc. apply Fr. rewrite addrs_unfold. right. apply in_caddrs. exists k, c. auto.
Qed.

(* a sorted map splits at a key *)
Lemma sorted_split {V} k (l : list (byte * V)) : sorted l ->
  exists l1 l2, (forall v, mset k v l = l1 ++ (k, v) :: l2) /\
                match mget k l with Some c => l = l1 ++ (k, c) :: l2 | None => l = l1 ++ l2 end.
Proof.
  induction l as [|[k0 v0] r IH]; intros S.
  - exists [], []. split; reflexivity.
  - apply sorted_inv in S as [S F]. cbn [mset mget].
    destruct (N.ltb_spec k k0) as [L|L].
    + exists [], ((k0, v0) :: r). split; [reflexivity|].
      destruct (N.eqb_spec k0 k) as [->|Ne]; [lia|].
      destruct (mget k r) as [c|] eqn:G; [|reflexivity].
      apply mget_Some_In in G. apply F in G. lia.
    + destruct (N.eqb_spec k k0) as [->|Ne].
      * exists [], r. split; [reflexivity|]. rewrite N.eqb_refl. reflexivity.
      * destruct (IH S) as (l1 & l2 & Hs & Hg). exists ((k0, v0) :: l1), l2. split.
        -- intros v. rewrite Hs. reflexivity.
        -- destruct (N.eqb_spec k0 k) as [E|_]; [congruence|].
           destruct (mget k r); rewrite Hg; reflexivity.
Qed.

Lemma sorted_edges l : sorted (edges l) <-> sorted l.
Proof. apply (sorted_lift addr). Qed.

Lemma sorted_erase l : sorted (map (fun kc => (fst kc, erase (snd kc))) l) <-> sorted l.
Proof. apply (sorted_lift erase). Qed.

Lemma wf_erase_sorted a l : wf (erase (AT a l)) -> sorted l.
Proof. cbn [erase]. intro W. apply wf_inv in W as [S _]. apply sorted_erase. exact S. Qed.

Lemma wf_erase_child a l k c : wf (erase (AT a l)) -> mget k l = Some c -> wf (erase c).
Proof.
  cbn [erase]. intros W G. eapply wf_child; [exact W|]. rewrite mget_erase, G. reflexivity.
Qed.

(* ---- Add --------------------------------------------------------------------------------------------------- *)
(* the annotated Add: fresh nodes get the addresses n, n+1, ... in the order New() is called *)
Fixpoint aadd (b : list N) (x : atrie) (n : Z) : atrie :=
  match b with
  | [] => x
  | k :: b' =>
    match x with
    | AT a l =>
      match mget k l with
      | Some c => AT a (mset k (aadd b' c n) l)
      | None => AT a (mset k (aadd b' (AT n []) (n + 1)) l)
      end
    end
  end.

Lemma addr_aadd b x n : addr (aadd b x n) = addr x.
Proof. destruct b as [|k b]; [reflexivity|]. destruct x as [a l]. cbn. destruct (mget k l); reflexivity. Qed.

Lemma erase_aadd : forall b x n, erase (aadd b x n) = add b (erase x).
Proof.
  induction b as [|k b IH]; intros [a l] n; [reflexivity|].
  cbn [aadd erase add]. rewrite mget_erase.
  destruct (mget k l) as [c|]; cbn [option_map].
  - rewrite <- (IH c n). symmetry. cbn [erase]. f_equal. apply (mset_lift erase).
  - change empty with (erase (AT n [])). rewrite <- (IH (AT n []) (n + 1)). symmetry.
    cbn [erase]. f_equal. apply (mset_lift erase).
Qed.

Definition add_cond : Z * list N * go_theap -> res unit bool :=
  (fun '((cur, b, h__) : (Z * (list N) * go_theap)) => Ret (Z.ltb (0)%Z (go_len b))).
Definition add_body : Z * list N * go_theap -> res (Z * list N * go_theap) (go_theap * unit) :=
  (fun '((cur, b, h__) : (Z * (list N) * go_theap)) => go_index b (0)%Z (fun t__1 => go_heap_get h__ cur t__1 (fun t__2 => let next := t__2 in (if (Z.eqb next (-1)%Z) then go_call (imp_trie_New h__) (fun '(h__, t__3) => let next := t__3 in go_index b (0)%Z (fun t__4 => go_heap_put h__ cur t__4 next (fun h__ => let cur := next in go_slice b (1)%Z (go_len b) (fun t__5 => let b := t__5 in Next (cur, b, h__))))) else let cur := next in go_slice b (1)%Z (go_len b) (fun t__6 => let b := t__6 in Next (cur, b, h__)))))).

Lemma imp_Add_unfold fuel h t b :
  imp_trie_Trie_Add fuel h t b =
  after (go_while fuel add_cond add_body (t, b, h)) (fun '(cur, b, h__) => Ret (h__, tt)).
Proof. reflexivity. Qed.

(* what one call changes: only nodes of the tree and fresh nodes *)
Definition frame (h h' : go_theap) (own : list Z) : Prop :=
  go_len h <= go_len h' /\
  forall z, 0 <= z < go_len h -> ~ In z own -> nth_error h' (Z.to_nat z) = nth_error h (Z.to_nat z).

Record add_post (h h' : go_theap) (x x' : atrie) : Prop := {
  ap_models : models h' x';
  ap_frame : frame h h' (addrs x);
  ap_addrs : forall z, In z (addrs x') -> In z (addrs x) \/ go_len h <= z;
  ap_nodup : NoDup (addrs x')
}.

Lemma add_step_cons fuel cur k b h :
  go_while (S fuel) add_cond add_body (cur, k :: b, h) =
  go_heap_get h cur k (fun next =>
    if Z.eqb next (-1) then
      go_heap_put (h ++ [[]]) cur k (go_len h) (fun h2 => go_while fuel add_cond add_body (go_len h, b, h2))
    else go_while fuel add_cond add_body (next, b, h)).
Proof.
  cbn [go_while add_cond]. unfold go_len at 1. cbn [length].
  destruct (Z.ltb_spec 0 (Z.of_nat (S (length b)))); [|lia].
  unfold add_body at 1. unfold go_index at 1. cbn [Z.ltb Z.compare Z.to_nat nth_error].
  unfold go_heap_get, go_index. destruct (cur <? 0); [reflexivity|].
  destruct (nth_error h (Z.to_nat cur)) as [nd|]; [|reflexivity]. cbv zeta.
  destruct (Z.eqb (tn_get k nd) (-1)).
  - rewrite imp_New_eq. cbn [go_call Z.ltb Z.compare Z.to_nat nth_error].
    unfold go_heap_put, go_index. destruct (cur <? 0); [reflexivity|].
    destruct (nth_error (h ++ [[]]) (Z.to_nat cur)); [|reflexivity].
    unfold go_set. destruct ((cur <? 0) || (go_len (h ++ [[]]) <=? cur))%bool; [reflexivity|].
    rewrite go_slice_tl. reflexivity.
  - rewrite go_slice_tl. reflexivity.
Qed.

Lemma add_step_nil fuel cur h :
  go_while (S fuel) add_cond add_body (cur, [], h) = Next (cur, [], h).
Proof. reflexivity. Qed.

Lemma NoDup_replace_mid (a : Z) (A C C' B : list Z) (lim : Z) :
  NoDup (a :: A ++ C ++ B) -> NoDup C' ->
  (forall z, In z C' -> In z C \/ lim <= z) ->
  (forall z, In z (a :: A ++ B) -> z < lim) ->
  NoDup (a :: A ++ C' ++ B).
Proof.
  intros N NC Sub Lim. inversion N as [|? ? NI N']; subst.
  apply NoDup_app_iff in N' as (NA & NCB & DA). apply NoDup_app_iff in NCB as (NC0 & NB & DC).
  constructor.
  - intro I. apply in_app_or in I as [I|I]; [apply NI; apply in_or_app; auto|].
    apply in_app_or in I as [I|I].
    + apply Sub in I as [I|I].
      * apply NI. apply in_or_app. right. apply in_or_app. auto.
      * specialize (Lim a (or_introl eq_refl)). lia.
    + apply NI. apply in_or_app. right. apply in_or_app. auto.
  - apply NoDup_app_iff. repeat split; auto.
    + apply NoDup_app_iff. repeat split; auto. intros z I IB. apply Sub in I as [I|I].
      * eapply DC; eauto.
      * assert (z < lim) by (apply Lim; right; apply in_or_app; auto). lia.
    + intros z I I2. apply in_app_or in I2 as [I2|I2].
      * apply Sub in I2 as [I2|I2].
        -- eapply DA; eauto. apply in_or_app. auto.
        -- assert (z < lim) by (apply Lim; right; apply in_or_app; auto). lia.
      * eapply DA; eauto. apply in_or_app. auto.
Qed.

Lemma addrs_mid a l1 k c l2 :
  addrs (AT a (l1 ++ (k, c) :: l2)) = a :: caddrs l1 ++ addrs c ++ caddrs l2.
Proof. rewrite addrs_unfold, caddrs_app, caddrs_cons. reflexivity. Qed.

Lemma addrs_split2 a l1 l2 : addrs (AT a (l1 ++ l2)) = a :: caddrs l1 ++ [] ++ caddrs l2.
Proof. rewrite addrs_unfold, caddrs_app. reflexivity. Qed.

Lemma edges_mid l1 k c l2 : edges (l1 ++ (k, c) :: l2) = edges l1 ++ (k, addr c) :: edges l2.
Proof. unfold edges. rewrite map_app. reflexivity. Qed.

Lemma sibling_in_addrs a l1 l2 k c s z :
  In (k, c) (l1 ++ l2) -> In z (addrs c) -> In z (a :: caddrs l1 ++ s ++ caddrs l2).
Proof.
  intros I Zc. right. apply in_app_or in I as [I|I].
  - apply in_or_app. left. apply in_caddrs. eauto.
  - apply in_or_app. right. apply in_or_app. right. apply in_caddrs. eauto.
Qed.

(* the edge was there: the child changed in place *)
Lemma post_found h h' a l1 l2 k c c' :
  models h (AT a (l1 ++ (k, c) :: l2)) -> NoDup (addrs (AT a (l1 ++ (k, c) :: l2))) ->
  addr c' = addr c -> add_post h h' c c' ->
  add_post h h' (AT a (l1 ++ (k, c) :: l2)) (AT a (l1 ++ (k, c') :: l2)).
Proof.
  intros M ND Ea [PM [PL PF] PA PN].
  pose proof (models_in_range h _ M) as Rg.
  apply models_unfold in M as [[N E] F].
  rewrite addrs_mid in ND, Rg.
  assert (ND' := ND). inversion ND' as [|? ? NI ND2]; subst. clear ND'.
  apply NoDup_app_iff in ND2 as (NA & NCB & DA). apply NoDup_app_iff in NCB as (NC & NB & DC).
  assert (Hsib : forall k0 s, In (k0, s) (l1 ++ l2) -> models h' s).
  { intros k0 s I. apply (models_frame h).
    - rewrite Forall_forall in F. apply (F (k0, s)). apply in_app_or in I as [I|I];
        apply in_or_app; [left | right; right]; exact I.
    - intros z Zs. apply PF.
      + apply Rg. eapply sibling_in_addrs; eauto.
      + intro Zc. apply in_app_or in I as [I|I].
        * apply (DA z); [apply in_caddrs; eauto | apply in_or_app; auto].
        * apply (DC z); [exact Zc | apply in_caddrs; eauto]. }
  constructor.
  - apply models_unfold. split.
    + split; auto. rewrite PF.
      * rewrite E. rewrite !edges_mid, Ea. reflexivity.
      * apply Rg. left. reflexivity.
      * intro Zc. apply NI. apply in_or_app. right. apply in_or_app. auto.
    + apply Forall_forall. intros [k0 s] I. cbn [snd]. apply in_app_or in I as [I|[I|I]].
      * apply (Hsib k0). apply in_or_app. auto.
      * inversion I; subst. exact PM.
      * apply (Hsib k0). apply in_or_app. auto.
  - split; auto. intros z Rz Nz. apply PF; auto. intro Zc. apply Nz. rewrite addrs_mid.
    right. apply in_or_app. right. apply in_or_app. auto.
  - intros z Iz. rewrite addrs_mid in *. destruct Iz as [<-|Iz]; [left; left; reflexivity|].
    apply in_app_or in Iz as [Iz|Iz]; [left; right; apply in_or_app; auto|].
    apply in_app_or in Iz as [Iz|Iz].
    + apply PA in Iz as [Iz|Iz]; [left | right; exact Iz]. right. apply in_or_app. right.
      apply in_or_app. auto.
    + left. right. apply in_or_app. right. apply in_or_app. auto.
  - rewrite addrs_mid. apply (NoDup_replace_mid a _ (addrs c) _ _ (go_len h)).
    + constructor; auto. apply NoDup_app_iff. repeat split; auto. apply NoDup_app_iff. auto.
    + exact PN.
    + exact PA.
    + intros z Iz. apply Rg. destruct Iz as [<-|Iz]; [left; reflexivity|]. right.
      apply in_app_or in Iz as [Iz|Iz]; apply in_or_app; [left | right; apply in_or_app; right]; exact Iz.
Qed.

Lemma go_len_app1 {A} (h : list A) x : go_len (h ++ [x]) = go_len h + 1.
Proof. unfold go_len. rewrite app_length. cbn. lia. Qed.

Lemma go_len_set_nth {A} (h : list A) n v : go_len (set_nth h n v) = go_len h.
Proof. unfold go_len. rewrite set_nth_length. reflexivity. Qed.

Ltac hlia := unfold go_theap, go_tnode in *; first [lia | apply Z.le_refl].

(* the edge was not there: a fresh node at the end of the heap, the parent gets the edge *)
Lemma post_fresh h h' a l1 l2 k c' :
  let h2 := set_nth (h ++ [[]]) (Z.to_nat a) (edges (l1 ++ (k, c') :: l2)) in
  models h (AT a (l1 ++ l2)) -> NoDup (addrs (AT a (l1 ++ l2))) ->
  addr c' = go_len h -> add_post h2 h' (AT (go_len h) []) c' ->
  add_post h h' (AT a (l1 ++ l2)) (AT a (l1 ++ (k, c') :: l2)).
Proof.
  intros h2 M ND Ea [PM [PL PF] PA PN].
  unfold go_theap, go_tnode in *.
  pose proof (models_in_range h _ M) as Rg.
  apply models_unfold in M as [[N E] F].
  assert (L2 : go_len h2 = go_len h + 1) by (unfold h2; rewrite go_len_set_nth; apply go_len_app1).
  assert (Ra : 0 <= a < go_len h) by (apply Rg; left; reflexivity).
  assert (Old : forall z, 0 <= z < go_len h -> z <> a ->
                          nth_error h' (Z.to_nat z) = nth_error h (Z.to_nat z)).
  { intros z Rz Nz. rewrite PF; [| hlia | cbn [addrs flat_map In]; intros [Q|[]]; hlia].
    unfold h2. rewrite nth_error_set_nth_neq by hlia.
    apply nth_error_app1. unfold go_len in Rz. hlia. }
  rewrite addrs_split2 in ND, Rg.
  assert (ND' := ND). inversion ND' as [|? ? NI ND2]; subst. clear ND'.
  assert (Hsib : forall k0 s, In (k0, s) (l1 ++ l2) -> models h' s).
  { intros k0 s I. apply (models_frame h).
    - rewrite Forall_forall in F. apply (F (k0, s)). exact I.
    - intros z Zs. assert (In z (a :: caddrs l1 ++ [] ++ caddrs l2)) as Iz
        by (eapply sibling_in_addrs; eauto).
      apply Old; [apply Rg; exact Iz|]. intros ->. apply NI.
      rewrite <- caddrs_app. apply in_caddrs. eauto. }
  constructor.
  - apply models_unfold. split.
    + split; auto. rewrite PF; [| hlia | cbn [addrs flat_map In]; intros [Q|[]]; hlia].
      unfold h2. apply nth_error_set_nth_eq. rewrite app_length. unfold go_len in Ra. cbn. hlia.
    + apply Forall_forall. intros [k0 s] I. cbn [snd]. apply in_app_or in I as [I|[I|I]].
      * apply (Hsib k0). apply in_or_app. auto.
      * inversion I; subst. exact PM.
      * apply (Hsib k0). apply in_or_app. auto.
  - unfold frame. unfold go_theap, go_tnode in *. split; [hlia|]. intros z Rz Nz. apply Old; auto. intros ->. apply Nz. rewrite addrs_split2. left. reflexivity.
  - intros z Iz. rewrite addrs_mid in Iz. rewrite addrs_split2. destruct Iz as [<-|Iz]; [left; left; reflexivity|].
    apply in_app_or in Iz as [Iz|Iz]; [left; right; apply in_or_app; auto|].
    apply in_app_or in Iz as [Iz|Iz].
    + apply PA in Iz as [Iz|Iz]; right; [cbn [addrs flat_map In] in Iz; destruct Iz as [<-|[]]; hlia | hlia].
    + left. right. apply in_or_app. right. apply in_or_app. auto.
  - rewrite addrs_mid. apply (NoDup_replace_mid a _ [] _ _ (go_len h)).
    + exact ND.
    + exact PN.
    + intros z Iz. right. apply PA in Iz as [Iz|Iz]; [cbn [addrs flat_map In] in Iz; destruct Iz as [<-|[]]; hlia | hlia].
    + intros z Iz. apply Rg. destruct Iz as [<-|Iz]; [left; reflexivity|]. right.
      apply in_app_or in Iz as [Iz|Iz]; apply in_or_app; [left | right; apply in_or_app; right]; exact Iz.
Qed.

Lemma heap_put_models {St R} h a nd k n (c : go_theap -> res St R) :
  0 <= a -> nth_error h (Z.to_nat a) = Some nd ->
  go_heap_put h a k n c = c (set_nth h (Z.to_nat a) (mset k n nd)).
Proof.
  intros Na E. unfold go_heap_put, go_index, go_set. destruct (Z.ltb_spec a 0); [lia|]. rewrite E.
  assert (Z.to_nat a < length h)%nat by (apply nth_error_Some; congruence).
  destruct (Z.leb_spec (go_len h) a); [unfold go_len in *; lia|]. cbn [orb].
  rewrite tn_put_mset. reflexivity.
Qed.

Lemma add_loop : forall (b : list N) fuel h x,
  models h x -> NoDup (addrs x) -> wf (erase x) -> (length b < fuel)%nat ->
  exists cur' h', go_while fuel add_cond add_body (addr x, b, h) = Next (cur', [], h') /\
                  add_post h h' x (aadd b x (go_len h)).
Proof.
  induction b as [|k b IH]; intros fuel h x M ND W Fu; (destruct fuel as [|fuel]; [cbn in Fu; lia|]).
  - rewrite add_step_nil. exists (addr x), h. split; [reflexivity|]. cbn [aadd]. constructor; auto.
    split; [lia | reflexivity].
  - destruct x as [a l]. cbn [addr]. rewrite add_step_cons.
    rewrite (heap_get_models h a l k) by exact M.
    pose proof (wf_erase_sorted a l W) as Sl.
    destruct (sorted_split k l Sl) as (l1 & l2 & Hs & Hg).
    cbn [aadd]. destruct (mget k l) as [c|] eqn:G.
    + pose proof (models_child _ _ _ _ _ M G) as Mc.
      pose proof (models_addr_nonneg h c Mc) as Nn.
      destruct (Z.eqb_spec (addr c) (-1)); [lia|].
      assert (NDc : NoDup (addrs c)).
      { rewrite Hg, addrs_mid in ND. inversion ND as [|? ? _ N2]; subst.
        apply NoDup_app_iff in N2 as (_ & N2 & _). apply NoDup_app_iff in N2 as (N2 & _). exact N2. }
      destruct (IH fuel h c Mc NDc (wf_erase_child a l k c W G)) as (cur' & h' & E & P);
        [cbn in Fu; lia|].
      rewrite E. exists cur', h'. split; [reflexivity|].
      rewrite Hs. subst l. apply post_found; auto. apply addr_aadd.
    + change (-1 =? -1) with true. cbv iota.
      pose proof (models_in_range h _ M a (or_introl eq_refl)) as Ra.
      assert (M' := M). apply models_unfold in M' as [[Na Ea] _].
      rewrite (heap_put_models (h ++ [[]]) a (edges l)); auto.
      2:{ rewrite nth_error_app1; [exact Ea | unfold go_len in Ra; lia]. }
      set (c' := aadd b (AT (go_len h) []) (go_len h + 1)).
      assert (Ec : addr c' = go_len h) by (unfold c'; apply addr_aadd).
      replace (mset k (go_len h) (edges l)) with (edges (l1 ++ (k, c') :: l2))
        by (rewrite <- Hs, <- Ec; symmetry; apply (mset_lift addr)).
      rewrite Hs.
      set (h2 := set_nth (h ++ [[]]) (Z.to_nat a) (edges (l1 ++ (k, c') :: l2))).
      assert (L2 : go_len h2 = go_len h + 1) by (unfold h2; rewrite go_len_set_nth; apply go_len_app1).
      assert (M2 : models h2 (AT (go_len h) [])).
      { apply models_unfold. split; [|constructor]. split; [lia|].
        unfold h2. rewrite nth_error_set_nth_neq by (unfold go_len in *; lia).
        rewrite nth_error_app2 by (unfold go_len; lia).
        replace (Z.to_nat (go_len h) - length h)%nat with 0%nat by (unfold go_len; lia). reflexivity. }
      destruct (IH fuel h2 (AT (go_len h) []) M2) as (cur' & h' & E & P).
      { constructor; [intros []|constructor]. }
      { apply wf_empty. }
      { cbn in Fu; lia. }
      cbn [addr] in E. rewrite E. exists cur', h'. split; [reflexivity|].
      rewrite L2 in P. fold c' in P. subst l. apply post_fresh; auto.
Qed.

Theorem imp_Add_ok b fuel h x :
  models h x -> NoDup (addrs x) -> wf (erase x) -> (length b < fuel)%nat ->
  exists h' x', imp_trie_Trie_Add fuel h (addr x) b = Ret (h', tt) /\
                models h' x' /\ NoDup (addrs x') /\ addr x' = addr x /\
                erase x' = add b (erase x).
Proof.
  intros M ND W Fu. destruct (add_loop b fuel h x M ND W Fu) as (cur' & h' & E & P).
  exists h', (aadd b x (go_len h)). rewrite imp_Add_unfold, E. cbn [after].
  destruct P. repeat split; auto; [apply addr_aadd | apply erase_aadd].
Qed.

(* ---- Delete ---------------------------------------------------------------------------------------------- *)
Definition path_body (h__ : go_theap) (b : list N)
  : Z -> list Z * Z -> res (list Z * Z) (go_theap * bool) :=
  (fun i '(stack, cur) => go_set stack i cur (fun t__2 => let stack := t__2 in go_index b i (fun t__3 => go_heap_get h__ cur t__3 (fun t__4 => let cur := t__4 in (if (Z.eqb cur (-1)%Z) then Ret (h__, (false)) else Next (stack, cur)))))).

Definition del_body (b : list N)
  : Z -> list Z * go_theap -> res (list Z * go_theap) (go_theap * bool) :=
  (fun i_2 '(stack, h__) => go_index stack i_2 (fun t__5 => go_index b i_2 (fun t__6 => go_heap_del h__ t__5 t__6 (fun h__ => go_index stack i_2 (fun t__7 => go_heap_len h__ t__7 (fun t__8 => (if (Z.ltb (0)%Z t__8) then Brk (stack, h__) else Next (stack, h__)))))))).

Lemma imp_Delete_unfold h t b :
  imp_trie_Trie_Delete h t b =
  go_make (-1) (go_len b) (fun stack =>
    after (go_range_int (go_len b) (path_body h b) (stack, t)) (fun '(stack, cur) =>
      after (go_for_down (go_len stack - 1) 0 (del_body b) (stack, h))
            (fun '(stack, h__) => Ret (h__, true)))).
Proof. reflexivity. Qed.

(* a loop that still says whether it was left by break *)
Fixpoint go_iterB {A St R} (body : A -> St -> res St R) (l : list A) (s : St) : res St R :=
  match l with
  | [] => Next s
  | x :: l' => match body x s with Next s' => go_iterB body l' s' | r => r end
  end.

Lemma go_iter_B {A St R} (f : A -> St -> res St R) l s :
  go_iter f l s = match go_iterB f l s with Brk s' => Next s' | r => r end.
Proof.
  revert s. induction l as [|x l IH]; intros s; [reflexivity|]. cbn [go_iter go_iterB].
  destruct (f x s); auto.
Qed.

Lemma go_iterB_app {A St R} (f : A -> St -> res St R) l1 l2 s :
  go_iterB f (l1 ++ l2) s = match go_iterB f l1 s with Next s' => go_iterB f l2 s' | r => r end.
Proof.
  revert s. induction l1 as [|x l1 IH]; intros s; [reflexivity|]. cbn [go_iterB app].
  destruct (f x s); auto.
Qed.

(* the addresses Delete's first loop stacks: the nodes on the path, the last one excluded *)
Fixpoint apath (b : list N) (x : atrie) : option (list Z) :=
  match b with
  | [] => Some []
  | k :: b' =>
    match x with
    | AT a l =>
      match mget k l with
      | None => None
      | Some c => option_map (cons a) (apath b' c)
      end
    end
  end.

Lemma apath_length : forall b x ss, apath b x = Some ss -> length ss = length b.
Proof.
  induction b as [|k b IH]; intros [a l] ss E; cbn in E.
  - inversion E. reflexivity.
  - destruct (mget k l) as [c|]; [|discriminate]. destruct (apath b c) as [s|] eqn:P; [|discriminate].
    inversion E; subst. cbn. f_equal. eapply IH; eauto.
Qed.

Lemma apath_has : forall b x, has b (erase x) = match apath b x with Some _ => true | None => false end.
Proof.
  induction b as [|k b IH]; intros [a l]; [reflexivity|].
  cbn [has erase children apath]. rewrite mget_erase. destruct (mget k l) as [c|]; cbn [option_map]; [|reflexivity].
  rewrite IH. destruct (apath b c); reflexivity.
Qed.

Lemma path_loop h : forall bs bp pre x, models h x -> length pre = length bp ->
  exists cur',
    go_iter (path_body h (bp ++ bs)) (zseq (Z.of_nat (length bp)) (length bs))
            (pre ++ repeat (-1) (length bs), addr x)
    = match apath bs x with Some ss => Next (pre ++ ss, cur') | None => Ret (h, false) end.
Proof.
  induction bs as [|k bs IH]; intros bp pre x M L.
  - exists (addr x). reflexivity.
  - destruct x as [a l]. cbn [length]. rewrite zseq_cons. cbn [go_iter repeat apath addr].
    unfold path_body at 1. rewrite go_set_mid by (unfold go_len; lia). cbv zeta.
    rewrite go_index_mid by (unfold go_len; lia).
    rewrite (heap_get_models h a l k) by exact M.
    destruct (mget k l) as [c|] eqn:G.
    + pose proof (models_child _ _ _ _ _ M G) as Mc.
      pose proof (models_addr_nonneg h c Mc) as Nn.
      destruct (Z.eqb_spec (addr c) (-1)); [lia|].
      destruct (IH (bp ++ [k]) (pre ++ [a]) c Mc) as (cur' & E).
      { rewrite !app_length. cbn. lia. }
      exists cur'. rewrite <- !app_assoc in E. cbn [app] in E.
      replace (Z.of_nat (length (bp ++ [k]))) with (Z.of_nat (length bp) + 1) in E
        by (rewrite app_length; cbn; lia).
      rewrite E. destruct (apath bs c) as [ss|]; cbn [option_map]; [|reflexivity].
      rewrite <- app_assoc. reflexivity.
    + exists 0. reflexivity.
Qed.

(* the annotated reading of Delete's second loop: Proofs/TrieProofsB.rdel with addresses *)
Fixpoint adel (b : list N) (x : atrie) : option atrie :=
  match b with
  | [] => Some (AT (addr x) [])
  | k :: b' =>
    match x with
    | AT a l =>
      match mget k l with
      | None => None
      | Some c =>
        match adel b' c with
        | None => None
        | Some c' => if is_nil (ach c') then Some (AT a (mdel k l)) else Some (AT a (mset k c' l))
        end
      end
    end
  end.

Lemma is_nil_map {A B} (f : A -> B) l : is_nil (map f l) = is_nil l.
Proof. destruct l; reflexivity. Qed.

Lemma erase_adel : forall b x, option_map erase (adel b x) = rdel b (erase x).
Proof.
  induction b as [|k b IH]; intros [a l]; [reflexivity|].
  cbn [adel rdel erase]. rewrite mget_erase. destruct (mget k l) as [c|]; cbn [option_map]; [|reflexivity].
  rewrite <- IH. destruct (adel b c) as [c'|]; cbn [option_map]; [|reflexivity].
  rewrite erase_children, is_nil_map. destruct (is_nil (ach c')); cbn [option_map erase]; do 2 f_equal.
  - symmetry. apply (mdel_lift erase).
  - symmetry. apply (mset_lift erase).
Qed.

Lemma mdel_absent {V} k (l : list (byte * V)) : mget k l = None -> mdel k l = l.
Proof.
  induction l as [|[k0 v0] r IH]; [reflexivity|]. cbn. destruct (N.eqb k0 k); [discriminate|].
  intros G. f_equal. apply IH. exact G.
Qed.

Lemma sorted_split_del {V} k c (l : list (byte * V)) : sorted l -> mget k l = Some c ->
  exists l1 l2, l = l1 ++ (k, c) :: l2 /\ (forall v, mset k v l = l1 ++ (k, v) :: l2) /\
                mdel k l = l1 ++ l2.
Proof.
  induction l as [|[k0 v0] r IH]; intros S G; [discriminate|].
  apply sorted_inv in S as [S F]. cbn [mget] in G. cbn [mset mdel].
  destruct (N.eqb_spec k0 k) as [->|Ne].
  - inversion G; subst. exists [], r. rewrite N.ltb_irrefl, N.eqb_refl. repeat split; reflexivity.
  - destruct (IH S G) as (l1 & l2 & E & Hs & Hd). exists ((k0, v0) :: l1), l2.
    assert (L : (k0 < k)%N). { rewrite E in F. eapply F. apply in_or_app. right. left. reflexivity. }
    destruct (N.ltb_spec k k0); [lia|]. destruct (N.eqb_spec k k0); [congruence|].
    repeat split.
    + rewrite E. reflexivity.
    + intros v. rewrite Hs. reflexivity.
    + rewrite Hd. reflexivity.
Qed.

(* the edge is dropped; below it the heap may have changed (the nodes become garbage) *)
Lemma post_drop h hh a l1 l2 k c :
  let h2 := set_nth hh (Z.to_nat a) (edges (l1 ++ l2)) in
  models h (AT a (l1 ++ (k, c) :: l2)) -> NoDup (addrs (AT a (l1 ++ (k, c) :: l2))) ->
  frame h hh (addrs c) ->
  add_post h h2 (AT a (l1 ++ (k, c) :: l2)) (AT a (l1 ++ l2)).
Proof.
  intros h2 M ND [PL PF].
  unfold go_theap, go_tnode in *.
  pose proof (models_in_range h _ M) as Rg.
  apply models_unfold in M as [[N E] F].
  rewrite addrs_mid in ND, Rg.
  assert (ND' := ND). inversion ND' as [|? ? NI ND2]; subst. clear ND'.
  apply NoDup_app_iff in ND2 as (NA & NCB & DA). apply NoDup_app_iff in NCB as (NC & NB & DC).
  assert (Ra : 0 <= a < go_len h) by (apply Rg; left; reflexivity).
  assert (L2 : go_len h2 = go_len hh) by (unfold h2; apply go_len_set_nth).
  assert (Old : forall z, 0 <= z < go_len h -> z <> a -> ~ In z (addrs c) ->
                          nth_error h2 (Z.to_nat z) = nth_error h (Z.to_nat z)).
  { intros z Rz Nz Nc. unfold h2. rewrite nth_error_set_nth_neq by hlia. apply PF; auto. }
  assert (Hsib : forall k0 s, In (k0, s) (l1 ++ l2) -> models h2 s).
  { intros k0 s I. apply (models_frame h).
    - rewrite Forall_forall in F. apply (F (k0, s)). apply in_app_or in I as [I|I];
        apply in_or_app; [left | right; right]; exact I.
    - intros z Zs. apply Old.
      + apply Rg. eapply sibling_in_addrs; eauto.
      + intros ->. apply NI. apply in_app_or in I as [I|I]; apply in_or_app;
          [left | right; apply in_or_app; right]; apply in_caddrs; eauto.
      + intro Zc. apply in_app_or in I as [I|I].
        * apply (DA z); [apply in_caddrs; eauto | apply in_or_app; auto].
        * apply (DC z); [exact Zc | apply in_caddrs; eauto]. }
  constructor.
  - apply models_unfold. split.
    + split; auto. unfold h2. apply nth_error_set_nth_eq. unfold go_len in *. hlia.
    + apply Forall_forall. intros [k0 s] I. cbn [snd]. apply (Hsib k0). exact I.
  - unfold frame. split; [hlia|]. intros z Rz Nz. apply Old; auto.
    + intros ->. apply Nz. rewrite addrs_mid. left. reflexivity.
    + intro Zc. apply Nz. rewrite addrs_mid. right. apply in_or_app. right. apply in_or_app. auto.
  - intros z Iz. left. rewrite addrs_mid. rewrite addrs_split2 in Iz. destruct Iz as [<-|Iz]; [left; reflexivity|].
    right. apply in_app_or in Iz as [Iz|Iz]; apply in_or_app; [left; exact Iz|].
    right. apply in_or_app. right. exact Iz.
  - rewrite addrs_split2. apply (NoDup_replace_mid a _ (addrs c) _ _ (go_len h)).
    + constructor; auto. apply NoDup_app_iff. repeat split; auto. apply NoDup_app_iff. auto.
    + constructor.
    + intros z [].
    + intros z Iz. apply Rg. destruct Iz as [<-|Iz]; [left; reflexivity|]. right.
      apply in_app_or in Iz as [Iz|Iz]; apply in_or_app; [left | right; apply in_or_app; right]; exact Iz.
Qed.

(* one iteration of the second loop at the node a = stack[j] *)
Lemma del_iter (bp : list N) (k : N) (bs : list N) (sp : list Z) (a : Z) (ss : list Z) (hh : go_theap) (l : list (byte * atrie)) :
  length sp = length bp -> 0 <= a -> nth_error hh (Z.to_nat a) = Some (edges l) -> sorted l ->
  del_body (bp ++ k :: bs) (Z.of_nat (length bp)) (sp ++ a :: ss, hh) =
  if is_nil (mdel k l) then Next (sp ++ a :: ss, set_nth hh (Z.to_nat a) (edges (mdel k l)))
  else Brk (sp ++ a :: ss, set_nth hh (Z.to_nat a) (edges (mdel k l))).
Proof.
  intros L Na E S. unfold del_body.
  rewrite go_index_mid by (unfold go_len; lia). rewrite go_index_mid by (unfold go_len; lia).
  assert (Lt : (Z.to_nat a < length hh)%nat) by (apply nth_error_Some; congruence).
  unfold go_heap_del. unfold go_index at 1. destruct (Z.ltb_spec a 0); [lia|]. rewrite E.
  unfold go_set. destruct (Z.leb_spec (go_len hh) a); [unfold go_len in *; lia|]. cbn [orb].
  rewrite tn_del_mdel by (apply sorted_edges; exact S).
  replace (mdel k (edges l)) with (edges (mdel k l)) by (symmetry; apply (mdel_lift addr)).
  rewrite go_index_mid by (unfold go_len; lia).
  unfold go_heap_len, go_index. destruct (Z.ltb_spec a 0); [lia|].
  rewrite nth_error_set_nth_eq by exact Lt.
  destruct (mdel k l); reflexivity.
Qed.

Lemma rev_zseq_S lo n : rev (zseq lo (S n)) = rev (zseq (lo + 1) n) ++ [lo].
Proof. rewrite zseq_cons. reflexivity. Qed.

Lemma del_loop : forall bs bp sp x ss h,
  models h x -> NoDup (addrs x) -> wf (erase x) -> length sp = length bp ->
  apath bs x = Some ss -> bs <> [] ->
  exists h' x', adel bs x = Some x' /\ addr x' = addr x /\
    go_iterB (del_body (bp ++ bs)) (rev (zseq (Z.of_nat (length bp)) (length bs))) (sp ++ ss, h)
    = (if is_nil (ach x') then Next (sp ++ ss, h') else Brk (sp ++ ss, h')) /\
    add_post h h' x x'.
Proof.
  induction bs as [|k bs IH]; intros bp sp x ss h M ND W L P Ne; [congruence|]. clear Ne.
  destruct x as [a l]. cbn [apath] in P. cbn [adel].
  destruct (mget k l) as [c|] eqn:G; [|discriminate].
  destruct (apath bs c) as [ss'|] eqn:Pc; [|discriminate]. cbn [option_map] in P.
  inversion P; subst ss; clear P.
  pose proof (wf_erase_sorted a l W) as Sl.
  destruct (sorted_split_del k c l Sl G) as (l1 & l2 & El & Hs & Hd).
  pose proof (models_child _ _ _ _ _ M G) as Mc.
  assert (M' := M). apply models_unfold in M' as [[Na Ea] _].
  pose proof (models_in_range h _ M a (or_introl eq_refl)) as Ra.
  assert (NDc : NoDup (addrs c) /\ ~ In a (addrs c)).
  { rewrite El, addrs_mid in ND. inversion ND as [|? ? NI N2]; subst. split.
    - apply NoDup_app_iff in N2 as (_ & N2 & _). apply NoDup_app_iff in N2 as (N2 & _). exact N2.
    - intro I. apply NI. apply in_or_app. right. apply in_or_app. auto. }
  destruct NDc as [NDc Nac].
  cbn [length]. rewrite rev_zseq_S, go_iterB_app.
  destruct bs as [|k2 bs2].
  - (* the end of the path: nothing below *)
    cbn [adel ach is_nil]. cbn [length zseq rev go_iterB]. unfold zseq. cbn [seq map rev go_iterB].
    cbn in Pc. inversion Pc; subst ss'. cbn [go_iterB].
    rewrite (del_iter bp k [] sp a [] h l L Na Ea Sl).
    exists (set_nth h (Z.to_nat a) (edges (mdel k l))), (AT a (mdel k l)).
    split; [reflexivity|]. split; [reflexivity|]. cbn [ach]. split.
    + destruct (is_nil (mdel k l)); reflexivity.
    + rewrite Hd. subst l. apply post_drop; auto. split; [lia | reflexivity].
  - destruct (IH (bp ++ [k]) (sp ++ [a]) c ss' h Mc NDc (wf_erase_child a l k c W G))
      as (h1 & c' & Ec & Eaddr & Eloop & Pp).
    { rewrite !app_length. cbn. lia. } { exact Pc. } { discriminate. }
    rewrite Ec.
    replace (Z.of_nat (length (bp ++ [k]))) with (Z.of_nat (length bp) + 1) in Eloop
      by (rewrite app_length; cbn; lia).
    rewrite <- !app_assoc in Eloop. cbn [app] in Eloop. rewrite Eloop.
    destruct (is_nil (ach c')) eqn:Nil.
    + (* the child has become childless: drop the edge here too *)
      cbn [go_iterB].
      assert (E1 : nth_error h1 (Z.to_nat a) = Some (edges l)).
      { destruct Pp as [_ [_ PF] _ _]. rewrite PF; auto. }
      rewrite (del_iter bp k (k2 :: bs2) sp a ss' h1 l L Na E1 Sl).
      exists (set_nth h1 (Z.to_nat a) (edges (mdel k l))), (AT a (mdel k l)).
      split; [reflexivity|]. split; [reflexivity|]. cbn [ach]. split.
      * destruct (is_nil (mdel k l)); reflexivity.
      * rewrite Hd. subst l. apply post_drop; auto. destruct Pp; auto.
    + exists h1, (AT a (mset k c' l)). split; [reflexivity|]. split; [reflexivity|]. split.
      * rewrite Hs. cbn [ach]. destruct l1; reflexivity.
      * rewrite Hs. subst l. apply post_found; auto.
Qed.

Theorem imp_Delete_ok b h x :
  models h x -> NoDup (addrs x) -> wf (erase x) ->
  exists h' x', imp_trie_Trie_Delete h (addr x) b = Ret (h', snd (delete b (erase x))) /\
                models h' x' /\ NoDup (addrs x') /\ addr x' = addr x /\
                erase x' = fst (delete b (erase x)).
Proof.
  intros M ND W. rewrite imp_Delete_unfold, delete_eq, apath_has.
  unfold go_make. destruct (Z.ltb_spec (go_len b) 0); [unfold go_len in *; lia|].
  unfold go_range_int, go_len at 1 2. rewrite Nat2Z.id.
  destruct (path_loop h b [] [] x M eq_refl) as (cur' & E). cbn [app length] in E.
  change (Z.of_nat 0) with 0 in E. rewrite E.
  destruct (apath b x) as [ss|] eqn:P.
  - cbn [after snd fst]. unfold go_for_down. rewrite go_iter_B.
    replace (Z.to_nat (go_len ss - 1 - 0 + 1)) with (length b)
      by (unfold go_len; rewrite (apath_length _ _ _ P); lia).
    destruct b as [|k b].
    + cbn. exists h, x. repeat split; auto.
    + destruct (del_loop (k :: b) [] [] x ss h M ND W eq_refl P) as (h' & x' & Ea & Eaddr & El & Pp);
        [discriminate|].
      cbn [app] in El. change (Z.of_nat (length (@nil N))) with 0 in El. rewrite El.
      pose proof (erase_adel (k :: b) x) as Er. rewrite Ea in Er. cbn [option_map] in Er.
      rewrite <- Er. exists h', x'. destruct Pp.
      split; [destruct (is_nil (ach x')); reflexivity|]. repeat split; auto.
  - cbn [after snd fst]. exists h, x. repeat split; auto.
Qed.

(* ---- histories ------------------------------------------------------------------------------------------- *)
(* the translated functions called one after the other on one heap, as a Go program would *)
Fixpoint heap_run (fuel : nat) (ops : list op) (h : go_theap) (root : Z)
  : res unit (go_theap * list (option bool)) :=
  match ops with
  | [] => Ret (h, [])
  | OAdd b :: r =>
    go_call (imp_trie_Trie_Add fuel h root b) (fun '(h', _) =>
    go_call (heap_run fuel r h' root) (fun '(h'', rs) => Ret (h'', None :: rs)))
  | ODel b :: r =>
    go_call (imp_trie_Trie_Delete h root b) (fun '(h', ok) =>
    go_call (heap_run fuel r h' root) (fun '(h'', rs) => Ret (h'', Some ok :: rs)))
  end.

Definition op_len (o : op) : nat := match o with OAdd b | ODel b => length b end.

Lemma heap_run_ok fuel : forall ops h x,
  models h x -> NoDup (addrs x) -> wf (erase x) ->
  Forall (fun o => (op_len o < fuel)%nat) ops ->
  exists h' x', heap_run fuel ops h (addr x) = Ret (h', snd (run ops (erase x))) /\
                models h' x' /\ NoDup (addrs x') /\ addr x' = addr x /\
                erase x' = fst (run ops (erase x)).
Proof.
  induction ops as [|o r IH]; intros h x M ND W Fu.
  - exists h, x. cbn. auto.
  - inversion Fu as [|? ? Fo Fr]; subst. rewrite run_cons. cbn [fst snd].
    destruct o as [b|b]; cbn [heap_run apply_op fst snd op_len] in *.
    + destruct (imp_Add_ok b fuel h x M ND W Fo) as (h1 & x1 & E1 & M1 & N1 & A1 & R1).
      rewrite E1. cbn [go_call]. rewrite <- R1.
      destruct (IH h1 x1 M1 N1) as (h2 & x2 & E2 & M2 & N2 & A2 & R2); auto.
      { rewrite R1. apply wf_add. exact W. }
      rewrite <- A1, E2. cbn [go_call]. exists h2, x2. repeat split; auto; congruence.
    + destruct (imp_Delete_ok b h x M ND W) as (h1 & x1 & E1 & M1 & N1 & A1 & R1).
      rewrite E1. cbn [go_call].
      destruct (delete_refines b (erase x) W) as [W1 _].
      destruct (delete b (erase x)) as [t1 ok] eqn:D. cbn [fst snd] in *. rewrite <- R1.
      destruct (IH h1 x1 M1 N1) as (h2 & x2 & E2 & M2 & N2 & A2 & R2); auto.
      { rewrite R1. exact W1. }
      rewrite <- A1, E2. cbn [go_call]. exists h2, x2. repeat split; auto; congruence.
Qed.

(* New(), then any history, then any query: what the Go functions return is what the model returns *)
Theorem imp_trie_history fuel ops q :
  Forall (fun o => (op_len o < fuel)%nat) ops -> (length q < fuel)%nat ->
  exists h0 root h',
    imp_trie_New [] = Ret (h0, root) /\
    heap_run fuel ops h0 root = Ret (h', snd (run ops empty)) /\
    imp_trie_Trie_Has fuel h' root q = Ret (h', has q (fst (run ops empty))).
Proof.
  intros Fu Fq. exists [[]], 0. 
  assert (M0 : models [[]] (AT 0 [])).
  { apply models_unfold. split; [|constructor]. split; [lia | reflexivity]. }
  destruct (heap_run_ok fuel ops [[]] (AT 0 []) M0) as (h' & x' & E & M & N & A & R); auto.
  { constructor; [intros [] | constructor]. }
  { apply wf_empty. }
  exists h'. split; [reflexivity|]. split; [exact E|].
  change empty with (erase (AT 0 [])). rewrite <- R.
  change 0 with (addr (AT 0 [])). rewrite <- A. apply imp_Has_loop; auto.
Qed.
