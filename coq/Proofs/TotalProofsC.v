(* Proofs/TotalProofsC.v — C11, BED: every record the reader accepts from an
   arbitrary input is in the domain of C04 (given that Chrom and Name are free
   of TAB/CR/LF) and has zero values beyond its N fields, hence is a fixed point
   of Write -> Reader.  SAM: the accepted integer fields are Go ints, the text
   fields are TAB-free, the tag map has unique names (partial result). *)
From Bio Require Import Base.
From Bio.Model Require Bed Sam.
From Bio.Model Require Import Bed.
From Bio.Spec Require Import BedSpec.
From Bio.Proofs Require BedProofsC SamProofsB.

(* ---- leaves ---------------------------------------------------------------------------------- *)
Lemma int64b_int64 z : int64b z = true -> int64 z.
Proof. unfold int64b, int64. intros H. apply andb_prop in H. destruct H as [A B]. lia. Qed.

Lemma atoi_int64 s z : atoi s = Some z -> int64 z.
Proof.
  unfold atoi. match goal with |- match ?x with _ => _ end = _ -> _ => destruct x as [y|] end; [|discriminate].
  destruct (int64b y) eqn:E; [|discriminate]. intros H. injection H as <-. apply int64b_int64, E.
Qed.

Lemma int64_0 : int64 0.
Proof. unfold int64. lia. Qed.

Lemma opt_atoi_int64 s z : opt_atoi s = Some z -> int64 z.
Proof.
  unfold opt_atoi. destruct s; [intros H; injection H as <-; apply int64_0 | apply atoi_int64].
Qed.

Lemma atoi_all_int64 : forall l zs, atoi_all l = Some zs -> Forall int64 zs.
Proof.
  induction l as [|x r IH]; intros zs H; cbn [atoi_all] in H.
  - injection H as <-. constructor.
  - destruct (atoi x) as [z|] eqn:E; [|discriminate].
    destruct (atoi_all r) as [zs'|]; [|discriminate]. injection H as <-.
    constructor; [eapply atoi_int64, E | apply IH; reflexivity].
Qed.

Lemma parse_ints_int64 s zs : parse_ints s = Some zs -> Forall int64 zs.
Proof.
  unfold parse_ints. destruct s; [intros H; injection H as <-; constructor | apply atoi_all_int64].
Qed.

Lemma pu_loop_bound base maxv : forall s n us r us',
  n <= maxv -> pu_loop base maxv s n us = Some (r, us') -> r <= maxv.
Proof.
  induction s as [|c s IH]; intros n us r us' Hn H; cbn [pu_loop] in H.
  - injection H as <- _. exact Hn.
  - destruct (c =? 95); [eapply IH; eassumption|].
    destruct (digit_val c) as [d|]; [|discriminate].
    destruct (base <=? d); [discriminate|].
    destruct (maxv <? n * base + d) eqn:E; [discriminate|].
    apply N.ltb_ge in E. eapply IH; eassumption.
Qed.

Lemma parse_uint8_lt s n : parse_uint8 s = Some n -> n < 256.
Proof.
  unfold parse_uint8. destruct s as [|c0 r0]; [discriminate|].
  match goal with |- (let '(base, body) := ?x in _) = _ -> _ => destruct x as [base body] end.
  destruct (pu_loop base 255 body 0 false) as [[m us]|] eqn:E; [|discriminate].
  assert (m <= 255) by (eapply pu_loop_bound; [|exact E]; lia).
  destruct (us && negb (underscore_ok (c0 :: r0))); [discriminate|].
  intros H0. injection H0 as <-. lia.
Qed.

Lemma parse_rgb_ok s c : parse_rgb s = Some c -> rgb_ok c.
Proof.
  unfold parse_rgb. destruct s as [|b s].
  - intros H. injection H as <-. cbn. lia.
  - destruct (split_on COMMA (b :: s)) as [|p [|q [|r [|? ?]]]]; try discriminate.
    destruct (parse_uint8 p) as [x|] eqn:Ex; [|discriminate].
    destruct (parse_uint8 q) as [y|] eqn:Ey; [|discriminate].
    destruct (parse_uint8 r) as [z|] eqn:Ez; [|discriminate].
    intros H. injection H as <-. cbn. repeat split; eapply parse_uint8_lt; eassumption.
Qed.

Lemma beqb_true a : forall b, beqb a b = true -> a = b.
Proof.
  induction a as [|x a IH]; intros [|y b] H; cbn [beqb] in H; try discriminate; [reflexivity|].
  apply andb_prop in H. destruct H as [E H]. apply N.eqb_eq in E. subst. f_equal. apply IH, H.
Qed.

Lemma strand_ok_valid s : strand_ok s = true -> strand_valid s.
Proof.
  unfold strand_ok, strand_valid. intros H.
  repeat (apply orb_prop in H; destruct H as [H|H]); apply beqb_true in H; auto.
Qed.

(* the first field of a split is a prefix of the text *)
Lemma split_on_prefix sep : forall s f fs, split_on sep s = f :: fs -> exists rest, s = f ++ rest.
Proof.
  induction s as [|c r IH]; intros f fs H; cbn [split_on] in H.
  - injection H as <- _. exists []. reflexivity.
  - destruct (c =? sep).
    + injection H as <- _. exists (c :: r). reflexivity.
    + destruct (split_on sep r) as [|g gs] eqn:E.
      * injection H as <- _. exists r. reflexivity.
      * injection H as <- _. destruct (IH g gs eq_refl) as [rest ->]. exists rest. reflexivity.
Qed.

Lemma nth_pad (fields : list bytes) m i : (length fields <= i)%nat -> nth i (fields ++ repeat [] m) [] = [].
Proof.
  intros H. rewrite app_nth2 by lia.
  generalize (i - length fields)%nat. induction m as [|m IH]; intros [|j]; cbn [repeat nth]; auto.
Qed.

(* ---- what parseLine's success says about the record ------------------------------------------ *)
Lemma parse_fields_facts n f b : parse_fields n f = Ok b ->
  b_n b = n /\ b_chrom b = nth 0 f [] /\ b_name b = nth 3 f [] /\ b_strand b = nth 5 f []
  /\ atoi (nth 1 f []) = Some (b_start b) /\ atoi (nth 2 f []) = Some (b_end b)
  /\ opt_atoi (nth 4 f []) = Some (b_score b) /\ strand_ok (nth 5 f []) = true
  /\ opt_atoi (nth 6 f []) = Some (b_thick_start b) /\ opt_atoi (nth 7 f []) = Some (b_thick_end b)
  /\ parse_rgb (nth 8 f []) = Some (b_rgb b) /\ opt_atoi (nth 9 f []) = Some (b_block_count b)
  /\ parse_ints (nth 10 f []) = Some (b_block_sizes b)
  /\ parse_ints (nth 11 f []) = Some (b_block_starts b)
  /\ Z.of_nat (length (b_block_sizes b)) = b_block_count b
  /\ Z.of_nat (length (b_block_starts b)) = b_block_count b.
Proof.
  unfold parse_fields.
  destruct (atoi (nth 1 f [])) as [cs|]; [|discriminate].
  destruct (atoi (nth 2 f [])) as [ce|]; [|discriminate].
  destruct (opt_atoi (nth 4 f [])) as [sc|]; [|discriminate].
  destruct (strand_ok (nth 5 f [])) eqn:Es; cbn [negb]; [|discriminate].
  destruct (opt_atoi (nth 6 f [])) as [ts|]; [|discriminate].
  destruct (opt_atoi (nth 7 f [])) as [te|]; [|discriminate].
  destruct (parse_rgb (nth 8 f [])) as [rgb|]; [|discriminate].
  destruct (opt_atoi (nth 9 f [])) as [bc|]; [|discriminate].
  destruct (parse_ints (nth 10 f [])) as [sizes|]; [|discriminate].
  destruct (parse_ints (nth 11 f [])) as [starts|]; [|discriminate].
  destruct (Z.of_nat (length sizes) =? bc)%Z eqn:E1; cbn [negb]; [|discriminate].
  destruct (Z.of_nat (length starts) =? bc)%Z eqn:E2; cbn [negb]; [|discriminate].
  intros H. injection H as <-. cbn.
  apply Z.eqb_eq in E1. apply Z.eqb_eq in E2. repeat split; auto.
Qed.

Definition bed_clean (b : bed) : Prop := text_ok (b_chrom b) /\ text_ok (b_name b).

Lemma opt_atoi_nil z : opt_atoi [] = Some z -> z = 0%Z.
Proof. cbn. intros H. injection H as <-. reflexivity. Qed.
Lemma parse_rgb_nil c : parse_rgb [] = Some c -> c = (0, 0, 0).
Proof. cbn. intros H. injection H as <-. reflexivity. Qed.
Lemma parse_ints_nil l : parse_ints [] = Some l -> l = [].
Proof. cbn. intros H. injection H as <-. reflexivity. Qed.

(* an accepted record: parseLine succeeded on the TAB-split of a line that is not
   empty and not a comment *)
Lemma parse_line_accepts c text b :
  (c =? 35) = false -> parse_line (split_on TAB (c :: text)) = Ok b -> bed_clean b ->
  bed_ok b /\ first_n b = b.
Proof.
  intros Hc H [Cchrom Cname]. unfold parse_line in H.
  set (fields := split_on TAB (c :: text)) in *.
  destruct ((length fields <? 3)%nat || (12 <? length fields)%nat) eqn:El; [discriminate|].
  apply orb_false_elim in El. destruct El as [L1 L2].
  apply Nat.ltb_ge in L1. apply Nat.ltb_ge in L2.
  apply parse_fields_facts in H.
  destruct H as (Hn & Hchrom & Hname & Hstrand & Hs & He & Hsc & Hso & Hts & Hte & Hrgb & Hbc
                 & Hsz & Hst & Hlsz & Hlst).
  set (k := length fields) in *.
  assert (PAD : forall i, (k <= i)%nat -> nth i (fields ++ repeat [] (12 - k)) [] = []).
  { intros i Hi. apply nth_pad. exact Hi. }
  (* zero values beyond N *)
  assert (FN : first_n b = b).
  { destruct b as [n chrom cs ce name sc strand ts te rgb bc sizes starts].
    cbn [b_n b_chrom b_start b_end b_name b_score b_strand b_thick_start b_thick_end b_rgb
         b_block_count b_block_sizes b_block_starts] in *.
    unfold first_n. cbn [b_n b_chrom b_start b_end b_name b_score b_strand b_thick_start b_thick_end b_rgb
         b_block_count b_block_sizes b_block_starts].
    subst n.
    assert (G : forall i : nat, (Z.of_nat k >? Z.of_nat i)%Z = false -> (k <= i)%nat).
    { intros i Hi. rewrite Z.gtb_ltb in Hi. apply Z.ltb_ge in Hi. lia. }
    f_equal.
    - destruct (Z.of_nat k >? 3)%Z eqn:E; [reflexivity|]. apply (G 3%nat) in E. rewrite Hname, PAD by exact E. reflexivity.
    - destruct (Z.of_nat k >? 4)%Z eqn:E; [reflexivity|]. apply (G 4%nat) in E. rewrite PAD in Hsc by exact E.
      symmetry. apply opt_atoi_nil, Hsc.
    - destruct (Z.of_nat k >? 5)%Z eqn:E; [reflexivity|]. apply (G 5%nat) in E. rewrite Hstrand, PAD by exact E. reflexivity.
    - destruct (Z.of_nat k >? 6)%Z eqn:E; [reflexivity|]. apply (G 6%nat) in E. rewrite PAD in Hts by exact E.
      symmetry. apply opt_atoi_nil, Hts.
    - destruct (Z.of_nat k >? 7)%Z eqn:E; [reflexivity|]. apply (G 7%nat) in E. rewrite PAD in Hte by exact E.
      symmetry. apply opt_atoi_nil, Hte.
    - destruct (Z.of_nat k >? 8)%Z eqn:E; [reflexivity|]. apply (G 8%nat) in E. rewrite PAD in Hrgb by exact E.
      symmetry. apply parse_rgb_nil, Hrgb.
    - destruct (Z.of_nat k >? 9)%Z eqn:E; [reflexivity|]. apply (G 9%nat) in E. rewrite PAD in Hbc by exact E.
      symmetry. apply opt_atoi_nil, Hbc.
    - destruct (Z.of_nat k >? 10)%Z eqn:E; [reflexivity|]. apply (G 10%nat) in E. rewrite PAD in Hsz by exact E.
      symmetry. apply parse_ints_nil, Hsz.
    - destruct (Z.of_nat k >? 11)%Z eqn:E; [reflexivity|]. apply (G 11%nat) in E. rewrite PAD in Hst by exact E.
      symmetry. apply parse_ints_nil, Hst. }
  split; [|exact FN].
  split; [rewrite Hn; lia|]. rewrite FN.
  unfold fields_ok. repeat match goal with |- _ /\ _ => split end.
  - exact Cchrom.
  - (* not a comment line: the first field is a prefix of the text *)
    intros r Hr. rewrite Hchrom in Hr.
    destruct fields as [|f0 fs] eqn:Ef; [cbn [length] in k; subst k; lia|].
    cbn [app nth] in Hr. subst f0.
    destruct (split_on_prefix TAB (c :: text) (35 :: r) fs Ef) as [rest E].
    cbn [app] in E. injection E as E _. subst c. discriminate.
  - exact Cname.
  - rewrite Hstrand. apply strand_ok_valid, Hso.
  - eapply atoi_int64, Hs.
  - eapply atoi_int64, He.
  - eapply opt_atoi_int64, Hsc.
  - eapply opt_atoi_int64, Hts.
  - eapply opt_atoi_int64, Hte.
  - eapply parse_rgb_ok, Hrgb.
  - eapply opt_atoi_int64, Hbc.
  - eapply parse_ints_int64, Hsz.
  - eapply parse_ints_int64, Hst.
  - exact Hlsz.
  - exact Hlst.
Qed.

Lemma do_line_yield n raw b n' : do_line n raw = Yield b n' ->
  exists c text, (c =? 35) = false /\ parse_line (split_on TAB (c :: text)) = Ok b.
Proof.
  unfold do_line. destruct (drop_cr raw) as [|c text]; [discriminate|].
  destruct (c =? 35) eqn:Ec; [discriminate|].
  match goal with |- (if negb ?x then _ else _) = _ -> _ => destruct x end; cbn [negb]; [|discriminate].
  destruct (parse_line (split_on TAB (c :: text))) as [b0| |] eqn:E; try discriminate.
  intros H. injection H as <- _. exists c, text. split; [exact Ec | exact E].
Qed.

Lemma dec_lines_in : forall ls n tail t b, In (Rec b) (dec_lines n ls tail t) ->
  exists n0 raw n', do_line n0 raw = Yield b n'.
Proof.
  induction ls as [|l r IH]; intros n tail t b H; cbn [dec_lines] in H.
  - destruct t; [|destruct H as [H|[]]; discriminate].
    destruct (do_line n tail) as [| |b0 n0] eqn:E.
    + destruct H.
    + destruct H as [H|[]]; discriminate.
    + destruct H as [H|[]]. injection H as ->. exists n, tail, n0. exact E.
  - destruct (do_line n l) as [| |b0 n0] eqn:E.
    + eapply IH, H.
    + destruct H as [H|[]]; discriminate.
    + destruct H as [H|H]; [injection H as ->; exists n, l, n0; exact E | eapply IH, H].
Qed.

Lemma bed_accepted_ok x t b : In (Rec b) (decode x t) -> bed_clean b -> bed_ok b /\ first_n b = b.
Proof.
  unfold decode. destruct (rs_lines x) as [ls tail]. intros H Hc.
  destruct (dec_lines_in _ _ _ _ _ H) as [n0 [raw [n' E]]].
  destruct (do_line_yield _ _ _ _ E) as [c [text [Ec Ep]]].
  eapply parse_line_accepts; eassumption.
Qed.

Lemma bed_fixed_point x t b : In (Rec b) (decode x t) -> bed_clean b ->
  exists w, write b = Ok w /\ decode w TEOF = [Rec b].
Proof.
  intros H Hc. destruct (bed_accepted_ok x t b H Hc) as [Hok FN].
  destruct (BedProofsC.roundtrip b Hok) as [w [Hw Hd]]. exists w. split; [exact Hw|].
  rewrite FN in Hd. exact Hd.
Qed.

(* ================================================================================================
   SAM: an accepted alignment record is in the domain of C03 — its five integers are Go
   ints, QNAME does not start with '@', tag names are unique, 'i' values are ints and 'H'
   values are bytes by construction — given the cleanliness of its text (the six text
   fields, tag names, 'A' and 'Z' values free of the delimiters) and strconv's contract for
   the 'f' values it carries.  So it is a fixed point of Write -> ReaderHeader up to the
   order of the tag list ([sam_eq]: same eleven fields, same map).  Normalisations happen at
   the FIRST read and are part of the accepted record: a 'B' tag is kept as a string (TZ),
   "+5" is 5, upper-case hex digits denote the same bytes.                                       *)
From Bio.Spec Require SamSpec.
From Bio.Proofs Require SamProofsC.

Definition tagval_clean (o : foracle) (v : Sam.tagval) : Prop :=
  match v with
  | Sam.TA b => memb b [TAB; CR; LF] = false
  | Sam.TF x => SamSpec.float_ok o x
  | Sam.TZ s => SamSpec.tsv_clean s
  | Sam.TI _ | Sam.TH _ => True
  end.

Definition sam_clean (o : foracle) (r : Sam.sam) : Prop :=
  SamSpec.tsv_clean (Sam.s_qname r) /\ SamSpec.tsv_clean (Sam.s_rname r)
  /\ SamSpec.tsv_clean (Sam.s_cigar r) /\ SamSpec.tsv_clean (Sam.s_rnext r)
  /\ SamSpec.tsv_clean (Sam.s_seq r) /\ SamSpec.tsv_clean (Sam.s_qual r)
  /\ Forall (fun t => clean [Sam.COLON; TAB; CR; LF] (fst t) /\ tagval_clean o (snd t)) (Sam.s_tags r).

Definition tagval_constr (v : Sam.tagval) : Prop :=
  match v with
  | Sam.TI z => int64 z
  | Sam.TH h => Forall (fun b => b < 256) h
  | _ => True
  end.

Lemma hex_val_lt c x : Sam.hex_val c = Some x -> x < 16.
Proof.
  unfold Sam.hex_val.
  destruct ((48 <=? c) && (c <=? 57)) eqn:E1.
  { intros H. injection H as <-. apply andb_prop in E1. destruct E1 as [A B].
    apply N.leb_le in A. apply N.leb_le in B. lia. }
  destruct ((97 <=? c) && (c <=? 102)) eqn:E2.
  { intros H. injection H as <-. apply andb_prop in E2. destruct E2 as [A B].
    apply N.leb_le in A. apply N.leb_le in B. lia. }
  destruct ((65 <=? c) && (c <=? 70)) eqn:E3; [|discriminate].
  intros H. injection H as <-. apply andb_prop in E3. destruct E3 as [A B].
  apply N.leb_le in A. apply N.leb_le in B. lia.
Qed.

Lemma hex_decode_lt : forall n s h, (length s <= n)%nat ->
  Sam.hex_decode s = Some h -> Forall (fun b => b < 256) h.
Proof.
  induction n as [|n IH]; intros s h Hn H.
  - destruct s; [|cbn [length] in Hn; lia]. injection H as <-. constructor.
  - destruct s as [|a [|b r]]; cbn [Sam.hex_decode] in H.
    + injection H as <-. constructor.
    + discriminate.
    + destruct (Sam.hex_val a) as [x|] eqn:Ea; [|discriminate].
      destruct (Sam.hex_val b) as [y|] eqn:Eb; [|discriminate].
      destruct (Sam.hex_decode r) as [t|] eqn:Er; [|discriminate].
      injection H as <-. apply hex_val_lt in Ea. apply hex_val_lt in Eb.
      constructor; [cbn beta; destruct x as [|q]; [lia|]; change (N.pos q~0~0~0~0) with (16 * N.pos q); lia|]. apply (IH r t); [cbn [length] in Hn; lia | exact Er].
Qed.

Lemma parse_tag_value_constr o ty v tv : Sam.parse_tag_value o ty v = Some tv -> tagval_constr tv.
Proof.
  unfold Sam.parse_tag_value.
  destruct (beqb ty [65]).
  { destruct v as [|b [|? ?]]; try discriminate. intros H. injection H as <-. exact I. }
  destruct (beqb ty [105]).
  { destruct (atoi v) as [z|] eqn:E; [|discriminate]. intros H. injection H as <-.
    cbn. eapply atoi_int64, E. }
  destruct (beqb ty [102]).
  { destruct (parseF o v); [|discriminate]. intros H. injection H as <-. exact I. }
  destruct (beqb ty [90]).
  { intros H. injection H as <-. exact I. }
  destruct (beqb ty [72]).
  { destruct (Sam.hex_decode v) as [h|] eqn:E; [|discriminate]. intros H. injection H as <-.
    cbn. eapply hex_decode_lt; [|exact E]. apply Nat.le_refl. }
  destruct (beqb ty [66]); [|discriminate].
  intros H. injection H as <-. exact I.
Qed.

Lemma beqb_refl a : beqb a a = true.
Proof. induction a as [|x a IH]; [reflexivity|]. cbn [beqb]. rewrite N.eqb_refl, IH. reflexivity. Qed.

Lemma tag_set_in k v : forall m x, In x (map fst (Sam.tag_set k v m)) -> x = k \/ In x (map fst m).
Proof.
  induction m as [|[k' v'] r IH]; intros x H; cbn [Sam.tag_set] in H.
  - cbn in H. destruct H as [H|[]]. left. auto.
  - destruct (beqb k' k); cbn [map fst In] in H |- *.
    + right. exact H.
    + destruct H as [H|H]; [right; left; exact H|].
      destruct (IH x H) as [E|E]; [left; exact E | right; right; exact E].
Qed.

Lemma tag_set_inv (Q : Sam.tagval -> Prop) k v : forall m,
  Q v -> NoDup (map fst m) -> Forall (fun t => Q (snd t)) m ->
  NoDup (map fst (Sam.tag_set k v m)) /\ Forall (fun t => Q (snd t)) (Sam.tag_set k v m).
Proof.
  induction m as [|[k' v'] r IH]; intros Hv Hnd HF; cbn [Sam.tag_set].
  - split; [cbn; constructor; [intros []|constructor] | constructor; [exact Hv|constructor]].
  - cbn [map fst] in Hnd. inversion Hnd as [|? ? Hnin Hnd']. subst. inversion HF as [|? ? Hq HF']. subst.
    destruct (beqb k' k) eqn:E.
    + split; [cbn [map fst]; constructor; assumption | constructor; [exact Hv | exact HF']].
    + destruct (IH Hv Hnd' HF') as [A B]. split.
      * cbn [map fst]. constructor; [|exact A]. intros Hin.
        destruct (tag_set_in k v r k' Hin) as [->|Hin']; [rewrite beqb_refl in E; discriminate | contradiction].
      * constructor; [exact Hq | exact B].
Qed.

Lemma parse_tags_from_inv o : forall values m m',
  Sam.parse_tags_from o m values = Ok m' ->
  NoDup (map fst m) -> Forall (fun t => tagval_constr (snd t)) m ->
  NoDup (map fst m') /\ Forall (fun t => tagval_constr (snd t)) m'.
Proof.
  induction values as [|f rest IH]; intros m m' H Hnd HF; cbn [Sam.parse_tags_from] in H.
  - injection H as <-. split; assumption.
  - destruct (Sam.split_tag f) as [[[name ty] v]|]; [|discriminate].
    destruct (Sam.parse_tag_value o ty v) as [tv|] eqn:E; [|discriminate].
    destruct (tag_set_inv tagval_constr name tv m (parse_tag_value_constr o ty v tv E) Hnd HF) as [A B].
    exact (IH _ _ H A B).
Qed.

Lemma parse_line_facts o f0 fs r : Sam.parse_line o (f0 :: fs) = Ok r ->
  Sam.s_qname r = f0 /\ int64 (Sam.s_flag r) /\ int64 (Sam.s_pos r) /\ int64 (Sam.s_mapq r)
  /\ int64 (Sam.s_pnext r) /\ int64 (Sam.s_tlen r)
  /\ NoDup (map fst (Sam.s_tags r)) /\ Forall (fun t => tagval_constr (snd t)) (Sam.s_tags r).
Proof.
  unfold Sam.parse_line.
  do 10 (destruct fs as [|? fs]; [discriminate|]).
  unfold Sam.parse_ints. cbn [length Nat.eqb Sam.parse_ints_loop].
  destruct (atoi b) as [fl|] eqn:E1; [|discriminate].
  destruct (atoi b1) as [po|] eqn:E2; [|discriminate].
  destruct (atoi b2) as [mq|] eqn:E3; [|discriminate].
  destruct (atoi b5) as [pn|] eqn:E4; [|discriminate].
  destruct (atoi b6) as [tl|] eqn:E5; [|discriminate].
  cbn [obind]. unfold Sam.parse_tags.
  destruct (Sam.parse_tags_from o [] fs) as [m| |] eqn:Et; try discriminate.
  cbn [obind]. intros H. injection H as <-. cbn.
  destruct (parse_tags_from_inv o fs [] m Et (NoDup_nil _) (Forall_nil _)) as [A B].
  repeat match goal with |- _ /\ _ => split end; auto; eapply atoi_int64; eassumption.
Qed.

Lemma sam_accepted_ok o x t r :
  In (Rec (Sam.Aln r)) (Sam.reader_header o x t) -> sam_clean o r -> SamSpec.sam_ok o r.
Proof.
  intros Hin (C1 & C2 & C3 & C4 & C5 & C6 & CT).
  (* the item comes from one line *)
  assert (L : exists raw, In (Rec (Sam.Aln r)) (Sam.process_line o raw)).
  { unfold Sam.reader_header in Hin. destruct (rs_lines x) as [ls tail].
    apply in_app_or in Hin. destruct Hin as [Hin|Hin].
    - apply in_flat_map in Hin. destruct Hin as [raw [_ H]]. exists raw. exact H.
    - destruct t; [exists tail; exact Hin | destruct Hin as [H|[]]; discriminate]. }
  destruct L as [raw L]. unfold Sam.process_line in L.
  destruct (drop_cr raw) as [|c text] eqn:Ed; [destruct L|].
  destruct (c =? 64) eqn:Ec; [destruct L as [H|[]]; discriminate|].
  destruct (split_on TAB (c :: text)) as [|f0 fs] eqn:Es.
  { exfalso. cbn [split_on] in Es. destruct (c =? TAB); [discriminate|].
    destruct (split_on TAB text); discriminate. }
  destruct (Sam.parse_line o (f0 :: fs)) as [r0| |] eqn:Ep; try (destruct L as [H|[]]; discriminate).
  destruct L as [H|[]]. injection H as ->.
  destruct (parse_line_facts o f0 fs r Ep) as (Hq & I1 & I2 & I3 & I4 & I5 & ND & HC).
  constructor; try assumption.
  - (* QNAME does not start with '@': it is a prefix of the line *)
    rewrite Hq. destruct (split_on_prefix TAB (c :: text) f0 fs Es) as [rest E].
    destruct f0 as [|c' f0']; [exact I|]. cbn [app] in E. injection E as -> _.
    cbn. intros ->. discriminate.
  - (* tags: cleanliness + what holds by construction *)
    rewrite Forall_forall in CT, HC |- *. intros [k v] Hkv.
    destruct (CT _ Hkv) as [Ck Cv]. specialize (HC _ Hkv). cbn [fst snd] in *.
    split; [exact Ck|]. destruct v; cbn in *; assumption.
Qed.

Lemma sam_fixed_point o x t r :
  In (Rec (Sam.Aln r)) (Sam.reader_header o x t) -> sam_clean o r ->
  exists r', Sam.reader_header o (Sam.write o r) TEOF = [Rec (Sam.Aln r')] /\ SamSpec.sam_eq r r'.
Proof. intros H Hc. apply SamProofsC.roundtrip. eapply sam_accepted_ok; eassumption. Qed.
