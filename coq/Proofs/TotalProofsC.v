(* Proofs/TotalProofsC.v *)
From Bio Require Import Base.
