(* Proofs/SamProofsB.v *)
From Bio Require Import Base.
