(* Proofs/SamProofsB.v — tags (text, split, parse), sorting, and the line-level
   round trip: the line written for a record in the domain is parsed back to
   the same record. *)
From Coq Require Import String Permutation Sorting.Sorted.
From Bio Require Import Base.
From Bio.Model Require Import Sam.
From Bio.Spec Require Import SamSpec.
From Bio.Proofs Require Import SamProofs.
Open Scope N_scope.

(* ================================================================== *)
(* byte-string equality                                                *)

Lemma beqb_refl : forall a, beqb a a = true.
Proof. induction a as [|x a IH]; [reflexivity|]. cbn [beqb]. now rewrite N.eqb_refl, IH. Qed.

Lemma beqb_eq : forall a b, beqb a b = true -> a = b.
Proof.
  induction a as [|x a IH]; intros [|y b] H; try discriminate; [reflexivity|].
  cbn [beqb] in H. apply andb_prop in H. destruct H as [H1 H2].
  apply N.eqb_eq in H1. apply IH in H2. now subst.
Qed.

Lemma beqb_neq : forall a b, a <> b -> beqb a b = false.
Proof.
  intros a b H. destruct (beqb a b) eqn:E; [|reflexivity].
  apply beqb_eq in E. contradiction.
Qed.

(* ================================================================== *)
(* sort.Strings                                                        *)

Lemma bcompare_antisym : forall a b, bcompare b a = CompOpp (bcompare a b).
Proof.
  induction a as [|x a IH]; intros [|y b]; try reflexivity.
  cbn [bcompare]. rewrite (N.compare_antisym x y).
  destruct (x ?= y); cbn [CompOpp]; [apply IH|reflexivity|reflexivity].
Qed.

Lemma ble_total : forall a b, ble a b = false -> ble b a = true.
Proof.
  intros a b H. unfold ble in *. rewrite (bcompare_antisym a b).
  destruct (bcompare a b); cbn [CompOpp]; try discriminate; reflexivity.
Qed.

Lemma ble_le : forall a b, ble a b = true -> bytes_le a b.
Proof. intros a b H. unfold ble, bytes_le in *. destruct (bcompare a b); congruence. Qed.

Lemma insert_sorted_perm : forall x l, Permutation (insert_sorted x l) (x :: l).
Proof.
  intros x l. induction l as [|y l IH]; [reflexivity|].
  cbn [insert_sorted]. destruct (ble x y); [reflexivity|].
  rewrite IH. apply perm_swap.
Qed.

Lemma sort_strings_perm : forall l, Permutation (sort_strings l) l.
Proof.
  induction l as [|x l IH]; [reflexivity|].
  cbn [sort_strings fold_right]. fold (sort_strings l).
  rewrite insert_sorted_perm. now constructor.
Qed.

Lemma insert_sorted_sorted : forall x l, Sorted bytes_le l -> Sorted bytes_le (insert_sorted x l).
Proof.
  intros x l H. induction H as [|y l Hs IH Hd]; [repeat constructor|].
  cbn [insert_sorted]. destruct (ble x y) eqn:E.
  - constructor; [now constructor|]. constructor. now apply ble_le.
  - constructor; [exact IH|].
    destruct l as [|z l]; cbn [insert_sorted].
    + constructor. apply ble_le. now apply ble_total.
    + destruct (ble x z).
      * constructor. apply ble_le. now apply ble_total.
      * constructor. now inversion Hd.
Qed.

Lemma sort_strings_sorted : forall l, Sorted bytes_le (sort_strings l).
Proof.
  induction l as [|x l IH]; [constructor|].
  cbn [sort_strings fold_right]. fold (sort_strings l). now apply insert_sorted_sorted.
Qed.

(* ================================================================== *)
(* one tag: text -> split -> typed value                               *)

Lemma cut_at_app : forall c a b, nosep c a -> cut_at c (a ++ c :: b) = Some (a, b).
Proof.
  intros c a b H. induction H as [|x a Hx Ha IH].
  - cbn [app cut_at]. now rewrite N.eqb_refl.
  - cbn [app cut_at]. now rewrite Hx, IH.
Qed.

Lemma tag_type_not_colon : forall v, (tag_type v =? COLON) = false.
Proof. destruct v; reflexivity. Qed.

Lemma split_tag_text : forall o name v, nosep COLON name ->
  split_tag (tag_text o (name, v)) = Some (name, [tag_type v], tag_value o v).
Proof.
  intros o name v H. unfold split_tag, tag_text. cbn [fst snd].
  rewrite cut_at_app by assumption.
  cbn [cut_at]. rewrite tag_type_not_colon. now rewrite N.eqb_refl.
Qed.

Lemma parse_value_text : forall o v, tagval_ok o v ->
  parse_tag_value o [tag_type v] (tag_value o v) = Some v.
Proof.
  intros o v H. unfold parse_tag_value.
  destruct v; cbn [tag_type tag_value tagval_ok] in *; cbn [beqb N.eqb Pos.eqb andb].
  - reflexivity.
  - now rewrite atoi_itoa.
  - destruct H as [H _]. now rewrite H.
  - reflexivity.
  - now rewrite hex_decode_encode.
Qed.

Lemma tag_value_clean : forall o v, tagval_ok o v -> tsv_clean (tag_value o v).
Proof.
  intros o v H. destruct v; cbn [tag_value tagval_ok] in *.
  - constructor; [exact H|constructor].
  - apply itoa_clean.
  - apply H.
  - exact H.
  - apply hex_encode_clean.
Qed.

Lemma tag_text_clean : forall o t, tag_ok o t -> tsv_clean (tag_text o t).
Proof.
  intros o [name v] [Hn Hv]. cbn [fst snd] in *. unfold tag_text, tsv_clean. cbn [fst snd].
  apply clean_app.
  - eapply clean_sub; [exact Hn|]. intros x Hx. now right.
  - constructor; [reflexivity|]. constructor; [destruct v; reflexivity|].
    constructor; [reflexivity|]. now apply tag_value_clean.
Qed.

(* ================================================================== *)
(* the Go map being filled                                             *)

Lemma tag_set_fresh : forall k v m, ~ In k (map fst m) -> tag_set k v m = m ++ [(k, v)].
Proof.
  intros k v m. induction m as [|[k' v'] m IH]; intro H; [reflexivity|].
  cbn [tag_set app]. cbn [map fst In] in H.
  rewrite beqb_neq by tauto. rewrite IH by tauto. reflexivity.
Qed.

Lemma parse_tags_texts : forall o l m, Forall (tag_ok o) l -> NoDup (map fst (m ++ l)) ->
  parse_tags_from o m (map (tag_text o) l) = Ok (m ++ l).
Proof.
  intros o l. induction l as [|[k v] l IH]; intros m Hok Hnd.
  - cbn. now rewrite app_nil_r.
  - inversion Hok as [|? ? Hkv Hl]; subst.
    cbn [map parse_tags_from].
    destruct Hkv as [Hk Hv]. cbn [fst snd] in Hk, Hv.
    rewrite split_tag_text by (eapply clean_nosep; [exact Hk|now left]).
    rewrite parse_value_text by assumption.
    rewrite map_app in Hnd. cbn [map fst] in Hnd.
    pose proof (NoDup_remove_2 _ _ _ Hnd) as Hfresh.
    rewrite tag_set_fresh by (intro Hin; apply Hfresh; apply in_or_app; now left).
    rewrite IH; [now rewrite <- app_assoc|assumption|].
    rewrite <- app_assoc. cbn [app]. rewrite map_app. exact Hnd.
Qed.

(* the sorted texts are the texts of a rearrangement of the map *)
Lemma tags_text_perm : forall o m,
  exists m', tags_text o m = map (tag_text o) m' /\ Permutation m m'.
Proof.
  intros o m. unfold tags_text.
  apply Permutation_map_inv. apply sort_strings_perm.
Qed.

Lemma parse_tags_written : forall o m, Forall (tag_ok o) m -> NoDup (map fst m) ->
  exists m', parse_tags o (tags_text o m) = Ok m' /\ Permutation m m' /\ NoDup (map fst m').
Proof.
  intros o m Hok Hnd. destruct (tags_text_perm o m) as [m' [Ht Hp]].
  assert (Hnd' : NoDup (map fst m')).
  { eapply Permutation_NoDup; [|exact Hnd]. now apply Permutation_map. }
  exists m'. split; [|split; assumption].
  rewrite Ht. unfold parse_tags. rewrite parse_tags_texts; [reflexivity| |exact Hnd'].
  eapply Permutation_Forall; eassumption.
Qed.

(* ================================================================== *)
(* the written line                                                    *)

Definition line (o : foracle) (r : sam) : bytes :=
  join_with [TAB] (fields11 r ++ tags_text o (s_tags r)).

Lemma write_line : forall o r, write o r = line o r ++ [LF].
Proof.
  intros o r. unfold write, write_calls, line. cbn [concat].
  rewrite concat_app. cbn [concat]. rewrite app_nil_r. rewrite app_assoc. f_equal.
  rewrite <- join_with_snoc by discriminate. reflexivity.
Qed.

Lemma tags_text_clean : forall o m, Forall (tag_ok o) m -> Forall tsv_clean (tags_text o m).
Proof.
  intros o m H. unfold tags_text.
  eapply Permutation_Forall; [symmetry; apply sort_strings_perm|].
  apply Forall_map. eapply Forall_impl; [|exact H]. intros t Ht. now apply tag_text_clean.
Qed.

Lemma fields_clean : forall o r, sam_ok o r ->
  Forall tsv_clean (fields11 r ++ tags_text o (s_tags r)).
Proof.
  intros o r H. apply Forall_app. split.
  - unfold fields11. destruct H.
    repeat (constructor; [first [assumption | apply itoa_clean]|]). constructor.
  - apply tags_text_clean. apply H.
Qed.

Lemma fields_nosep : forall o r c, sam_ok o r -> In c [TAB; CR; LF] ->
  Forall (nosep c) (fields11 r ++ tags_text o (s_tags r)).
Proof.
  intros o r c H Hc. eapply Forall_impl; [|apply fields_clean; exact H].
  intros s Hs. eapply clean_nosep; eassumption.
Qed.

Lemma line_nosep_lf : forall o r, sam_ok o r -> nosep LF (line o r).
Proof.
  intros o r H. unfold line. apply nosep_join.
  - repeat constructor.
  - apply fields_nosep; [assumption|]. right; right; now left.
Qed.

Lemma line_nosep_cr : forall o r, sam_ok o r -> nosep CR (line o r).
Proof.
  intros o r H. unfold line. apply nosep_join.
  - repeat constructor.
  - apply fields_nosep; [assumption|]. right; now left.
Qed.

Lemma line_head : forall o r, exists rest, line o r = s_qname r ++ TAB :: rest.
Proof.
  intros o r. unfold line, fields11. cbn [app]. rewrite join_with_cons. cbn [app].
  eexists. reflexivity.
Qed.

Lemma parse_line_written : forall o r, sam_ok o r ->
  exists r', parse_line o (fields11 r ++ tags_text o (s_tags r)) = Ok r' /\ sam_eq r r'.
Proof.
  intros o r H.
  destruct (parse_tags_written o (s_tags r) (ok_tags _ _ H) (ok_keys _ _ H)) as [m' [Hp [Hperm Hnd]]].
  exists {| s_qname := s_qname r; s_flag := s_flag r; s_rname := s_rname r; s_pos := s_pos r;
            s_mapq := s_mapq r; s_cigar := s_cigar r; s_rnext := s_rnext r; s_pnext := s_pnext r;
            s_tlen := s_tlen r; s_seq := s_seq r; s_qual := s_qual r; s_tags := m' |}.
  split.
  - unfold fields11. cbn [app]. unfold parse_line, parse_ints.
    cbn [length Nat.eqb parse_ints_loop].
    rewrite !atoi_itoa by apply H. cbn [obind]. rewrite Hp. reflexivity.
  - unfold sam_eq. cbn. repeat split; try reflexivity; assumption.
Qed.

Lemma process_line_written : forall o r, sam_ok o r ->
  exists r', process_line o (line o r) = [Rec (Aln r')] /\ sam_eq r r'.
Proof.
  intros o r H. destruct (parse_line_written o r H) as [r' [Hp He]].
  exists r'. split; [|exact He].
  unfold process_line. rewrite drop_cr_nosep by now apply line_nosep_cr.
  destruct (line_head o r) as [rest Hl].
  assert (Hsplit : split_on TAB (line o r) = fields11 r ++ tags_text o (s_tags r)).
  { unfold line. apply split_join; [discriminate|]. apply fields_nosep; [assumption|now left]. }
  destruct (line o r) as [|c t] eqn:El.
  - destruct (s_qname r); discriminate.
  - assert (Hc : (c =? 64) = false).
    { pose proof (ok_qname_at _ _ H) as Hat. destruct (s_qname r) as [|q qs].
      - cbn [app] in Hl. injection Hl as -> _. reflexivity.
      - cbn [app] in Hl. injection Hl as -> _. cbn [not_at] in Hat. now apply N.eqb_neq. }
    rewrite Hc, Hsplit, Hp. reflexivity.
Qed.

(* parse_line never panics: parse_ints is always called with five strings and
   five destinations. *)
Lemma parse_ints_loop_length : forall strs zs, parse_ints_loop strs = Ok zs -> length zs = length strs.
Proof.
  induction strs as [|s strs IH]; intros zs H; cbn [parse_ints_loop] in H.
  - injection H as <-. reflexivity.
  - destruct (atoi s); [|discriminate].
    destruct (parse_ints_loop strs) as [zs'| |]; cbn [obind] in H; try discriminate.
    injection H as <-. cbn [length]. now rewrite (IH zs').
Qed.

Lemma parse_ints_loop_no_panic : forall strs, parse_ints_loop strs <> Panic.
Proof.
  induction strs as [|s strs IH]; cbn [parse_ints_loop]; [discriminate|].
  destruct (atoi s); [|discriminate].
  destruct (parse_ints_loop strs); cbn [obind]; congruence.
Qed.

Lemma parse_tags_from_no_panic : forall o vs m, parse_tags_from o m vs <> Panic.
Proof.
  intros o vs. induction vs as [|f vs IH]; intro m; cbn [parse_tags_from]; [discriminate|].
  destruct (split_tag f) as [[[name ty] v]|]; [|discriminate].
  destruct (parse_tag_value o ty v); [apply IH|discriminate].
Qed.

Lemma parse_line_no_panic : forall o l, parse_line o l <> Panic.
Proof.
  intros o l. unfold parse_line.
  do 11 (destruct l as [|? l]; [discriminate|]).
  unfold parse_ints. cbn [length Nat.eqb].
  match goal with |- context [parse_ints_loop ?x] =>
    pose proof (parse_ints_loop_length x) as Hlen;
    pose proof (parse_ints_loop_no_panic x) as Hnp;
    destruct (parse_ints_loop x) as [zs| |] end; cbn [obind]; try congruence.
  specialize (Hlen zs eq_refl). cbn [length] in Hlen.
  do 5 (destruct zs as [|? zs]; [discriminate|]). destruct zs; [|discriminate].
  unfold parse_tags.
  pose proof (parse_tags_from_no_panic o l []) as Ht.
  destruct (parse_tags_from o [] l); cbn [obind]; congruence.
Qed.
