(* Proofs/SeqProofsB.v *)
From Bio Require Import Base.
