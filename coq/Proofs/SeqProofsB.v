(* Proofs/SeqProofsB.v — C13: DNATo2Bit, DNAFrom2Bit, Ntoi, Iton. *)
From Coq Require Import String.
From Bio Require Import Base.
From Bio.gen Require Import Tables.
From Bio.Model Require Import Seq.
From Bio.Spec Require Import SeqSpec.
From Bio.Proofs Require Import TranslateProofs SeqProofs.

(* ---- the 2-bit codes of the spec ------------------------------------------------- *)
Definition code2z (b : byte) : N := match code2 b with Some c => c | None => 0 end.

Ltac code2_cases b :=
  unfold code2;
  repeat match goal with
  | |- context [N.eqb b ?y] =>
    destruct (N.eqb_spec b y) as [->|?]; cbn [orb];
    [intros H; inversion H; subst; try reflexivity; try (vm_compute; reflexivity)|]
  end;
  try discriminate.

Lemma code2_lt4 b c : code2 b = Some c -> c < 4.
Proof. code2_cases b. Qed.

Lemma code2_range b c : code2 b = Some c -> b < 256.
Proof. code2_cases b. Qed.

Lemma base_of_upper b c : code2 b = Some c -> base_of c = upper_byte b.
Proof. code2_cases b. Qed.

Lemma code2_base_of c : c < 4 -> code2 (base_of c) = Some c.
Proof.
  intros H. assert (K : c = 0 \/ c = 1 \/ c = 2 \/ c = 3) by lia.
  destruct K as [-> | [-> | [-> | ->]]]; reflexivity.
Qed.

Lemma code2_some_iff b : is_dna8 b = true <-> exists c, code2 b = Some c.
Proof.
  unfold is_dna8, base_index, code2.
  destruct (b =? 84), (b =? 116), (b =? 67), (b =? 99), (b =? 65), (b =? 97), (b =? 71), (b =? 103);
    cbn [orb]; split; intros H; try reflexivity; try discriminate; eauto; destruct H; discriminate.
Qed.

Lemma code2_none_iff b : is_dna8 b = false <-> code2 b = None.
Proof.
  pose proof (code2_some_iff b) as K. destruct (is_dna8 b); destruct (code2 b) as [c|].
  - split; discriminate.
  - destruct (proj1 K eq_refl). discriminate.
  - assert (false = true) by (apply K; eauto). discriminate.
  - split; reflexivity.
Qed.

Lemma dna8_code2 b : is_dna8 b = true -> code2 b = Some (code2z b).
Proof. intros H. apply code2_some_iff in H. destruct H as [c E]. unfold code2z. rewrite E. reflexivity. Qed.

Lemma code2z_lt4 b : code2z b < 4.
Proof. unfold code2z. destruct (code2 b) eqn:E; [eapply code2_lt4; eassumption|reflexivity]. Qed.

(* ---- Ntoi / code against the regenerated table --------------------------------------- *)
Lemma ntoi_tab_length : length ntoi_tab = 256%nat.
Proof. vm_compute. reflexivity. Qed.

Lemma ntoi_not_byte b : 256 <= b -> ntoi b = (-1)%Z.
Proof.
  intros H. unfold ntoi, tab_get.
  replace (nth_error ntoi_tab (N.to_nat b)) with (@None Z); [reflexivity|].
  symmetry. apply nth_error_None. rewrite ntoi_tab_length. lia.
Qed.

Definition ntoi_spec (b : byte) : Z := match code2 b with Some c => Z.of_N c | None => (-1)%Z end.

Lemma ntoi_sweep : forallb (fun b => Z.eqb (ntoi b) (ntoi_spec b)) bytes256 = true.
Proof. vm_compute. reflexivity. Qed.

Lemma ntoi_exact b : ntoi b = ntoi_spec b.
Proof.
  destruct (N.lt_ge_cases b 256) as [Hlt|Hge].
  - pose proof ntoi_sweep as S. rewrite forallb_forall in S.
    apply Z.eqb_eq. apply S. apply in_bytes256. exact Hlt.
  - rewrite ntoi_not_byte by exact Hge. unfold ntoi_spec.
    destruct (code2 b) as [c|] eqn:E; [|reflexivity]. apply code2_range in E. lia.
Qed.

Lemma code_exact b : code b = code2 b.
Proof.
  unfold code. rewrite ntoi_exact. unfold ntoi_spec. destruct (code2 b) as [c|].
  - replace (Z.of_N c <? 0)%Z with false by (symmetry; apply Z.ltb_ge; lia).
    rewrite N2Z.id. reflexivity.
  - reflexivity.
Qed.

(* ---- Iton ------------------------------------------------------------------------------ *)
Lemma iton_base c : c < 4 -> iton (Z.of_N c) = base_of c.
Proof.
  intros H. assert (K : c = 0 \/ c = 1 \/ c = 2 \/ c = 3) by lia.
  destruct K as [-> | [-> | [-> | ->]]]; vm_compute; reflexivity.
Qed.

Definition iton_outside_check : bool :=
  forallb (fun p => ((0 <=? fst p)%Z && (fst p <=? 3)%Z) || (snd p =? 78)) iton_tab
  && (iton_default =? 78).

Lemma iton_outside_ok : iton_outside_check = true.
Proof. vm_compute. reflexivity. Qed.

Lemma iton_outside i : (i < 0 \/ 3 < i)%Z -> iton i = 78.
Proof.
  intros H. pose proof iton_outside_ok as C. unfold iton_outside_check in C.
  apply andb_true_iff in C. destruct C as [C D]. apply N.eqb_eq in D.
  unfold iton. destruct (find _ iton_tab) as [p|] eqn:F; [|exact D].
  apply find_some in F. destruct F as [Hin Hp]. apply Z.eqb_eq in Hp.
  rewrite forallb_forall in C. specialize (C p Hin).
  apply orb_true_iff in C. destruct C as [C|C].
  - apply andb_true_iff in C. destruct C as [C1 C2].
    apply Z.leb_le in C1, C2. lia.
  - apply N.eqb_eq. exact C.
Qed.

Lemma ntoi_iton i : (0 <= i <= 3)%Z -> ntoi (iton i) = i /\ iton i = base_of (Z.to_N i).
Proof.
  intros H. assert (K : (i = 0 \/ i = 1 \/ i = 2 \/ i = 3)%Z) by lia.
  destruct K as [-> | [-> | [-> | ->]]]; vm_compute; split; reflexivity.
Qed.

Lemma ntoi_iton_inverse :
  (forall b c, code2 b = Some c -> ntoi b = Z.of_N c /\ iton (ntoi b) = upper_byte b)
  /\ (forall b, is_dna8 b = false -> ntoi b = (-1)%Z)
  /\ (forall i, (0 <= i <= 3)%Z -> ntoi (iton i) = i /\ is_dna8 (iton i) = true)
  /\ (forall i, (i < 0 \/ 3 < i)%Z -> iton i = 78).
Proof.
  split; [|split; [|split]].
  - intros b c E. rewrite ntoi_exact. unfold ntoi_spec. rewrite E. split; [reflexivity|].
    rewrite iton_base by (eapply code2_lt4; eassumption). apply base_of_upper. exact E.
  - intros b H. rewrite ntoi_exact. unfold ntoi_spec. apply code2_none_iff in H. rewrite H. reflexivity.
  - intros i H. destruct (ntoi_iton i H) as [E1 E2]. split; [exact E1|].
    rewrite E2. apply code2_some_iff. exists (Z.to_N i). apply code2_base_of. lia.
  - exact iton_outside.
Qed.

(* ---- bit-level facts: a sweep over the 4^4 code tuples ---------------------------------- *)
Definition codes4 : list N := [0; 1; 2; 3].

Lemma in_codes4 c : c < 4 -> In c codes4.
Proof.
  intros H. assert (K : c = 0 \/ c = 1 \/ c = 2 \/ c = 3) by lia.
  unfold codes4. simpl. destruct K as [-> | [-> | [-> | ->]]]; auto.
Qed.

Definition sweep4 (f : N -> N -> N -> N -> bool) : bool :=
  forallb (fun a => forallb (fun b => forallb (fun c => forallb (fun d => f a b c d) codes4) codes4) codes4) codes4.

Lemma sweep4_lift f : sweep4 f = true ->
  forall a b c d, a < 4 -> b < 4 -> c < 4 -> d < 4 -> f a b c d = true.
Proof.
  intros S a b c d Ha Hb Hc Hd. unfold sweep4 in S.
  rewrite forallb_forall in S. specialize (S a (in_codes4 a Ha)).
  rewrite forallb_forall in S. specialize (S b (in_codes4 b Hb)).
  rewrite forallb_forall in S. specialize (S c (in_codes4 c Hc)).
  rewrite forallb_forall in S. exact (S d (in_codes4 d Hd)).
Qed.

(* lor of disjoint shifted 2-bit codes, built up one base at a time *)
Definition bits_check (a b c d : N) : bool :=
  (N.lor 0 (N.shiftl a 6) =? pack4 a 0 0 0)
  && (N.lor (pack4 a 0 0 0) (N.shiftl b 4) =? pack4 a b 0 0)
  && (N.lor (pack4 a b 0 0) (N.shiftl c 2) =? pack4 a b c 0)
  && (N.lor (pack4 a b c 0) (N.shiftl d 0) =? pack4 a b c d).

Lemma bits_sweep : sweep4 bits_check = true.
Proof. vm_compute. reflexivity. Qed.

Lemma bits_ok a b c d : a < 4 -> b < 4 -> c < 4 -> d < 4 ->
  N.lor 0 (N.shiftl a 6) = pack4 a 0 0 0
  /\ N.lor (pack4 a 0 0 0) (N.shiftl b 4) = pack4 a b 0 0
  /\ N.lor (pack4 a b 0 0) (N.shiftl c 2) = pack4 a b c 0
  /\ N.lor (pack4 a b c 0) (N.shiftl d 0) = pack4 a b c d.
Proof.
  intros Ha Hb Hc Hd. pose proof (sweep4_lift _ bits_sweep a b c d Ha Hb Hc Hd) as K.
  unfold bits_check in K.
  apply andb_true_iff in K. destruct K as [K K4].
  apply andb_true_iff in K. destruct K as [K K3].
  apply andb_true_iff in K. destruct K as [K1 K2].
  apply N.eqb_eq in K1, K2, K3, K4. auto.
Qed.

Lemma lt04 : 0 < 4. Proof. reflexivity. Qed.

(* the decoding table: from2bit_tab[64a+16b+4c+d] = [ACGT[a]; ACGT[b]; ACGT[c]; ACGT[d]] *)
Definition decode_check (a b c d : N) : bool :=
  match from2bit_byte (pack4 a b c d) with
  | Some l => beqb l [base_of a; base_of b; base_of c; base_of d]
  | None => false
  end.

Lemma decode_sweep : sweep4 decode_check = true.
Proof. vm_compute. reflexivity. Qed.

Lemma beqb_eq a b : beqb a b = true -> a = b.
Proof.
  revert b. induction a as [|x a IH]; intros [|y b]; cbn [beqb]; try discriminate; [reflexivity|].
  intros H. apply andb_true_iff in H. destruct H as [H1 H2]. apply N.eqb_eq in H1. apply IH in H2. congruence.
Qed.

Lemma from2bit_pack4 a b c d : a < 4 -> b < 4 -> c < 4 -> d < 4 ->
  from2bit_byte (pack4 a b c d) = Some [base_of a; base_of b; base_of c; base_of d].
Proof.
  intros Ha Hb Hc Hd. pose proof (sweep4_lift _ decode_sweep a b c d Ha Hb Hc Hd) as K.
  unfold decode_check in K. destruct (from2bit_byte (pack4 a b c d)) as [l|]; [|discriminate].
  f_equal. apply beqb_eq. exact K.
Qed.

(* every byte decodes to four bases whose codes pack back to the byte *)
Definition recode_check (p : byte) : bool :=
  match from2bit_byte p with
  | Some [w; x; y; z] =>
    match code2 w, code2 x, code2 y, code2 z with
    | Some a, Some b, Some c, Some d => pack4 a b c d =? p
    | _, _, _, _ => false
    end
  | _ => false
  end.

Lemma recode_sweep : forallb recode_check bytes256 = true.
Proof. vm_compute. reflexivity. Qed.

Lemma from2bit_recode p : p < 256 ->
  exists w x y z a b c d, from2bit_byte p = Some [w; x; y; z]
    /\ code2 w = Some a /\ code2 x = Some b /\ code2 y = Some c /\ code2 z = Some d
    /\ pack4 a b c d = p.
Proof.
  intros H. pose proof recode_sweep as S. rewrite forallb_forall in S.
  specialize (S p (in_bytes256 p H)). unfold recode_check in S.
  destruct (from2bit_byte p) as [[|w [|x [|y [|z [|? ?]]]]]|]; try discriminate.
  destruct (code2 w) as [a|] eqn:Ew; [|discriminate]. destruct (code2 x) as [b|] eqn:Ex; [|discriminate].
  destruct (code2 y) as [c|] eqn:Ey; [|discriminate]. destruct (code2 z) as [d|] eqn:Ez; [|discriminate].
  apply N.eqb_eq in S. exists w, x, y, z, a, b, c, d. repeat split; try reflexivity; assumption.
Qed.

Lemma from2bit_tab_length : @length bytes from2bit_tab = 256%nat.
Proof. vm_compute. reflexivity. Qed.

Lemma from2bit_not_byte p : 256 <= p -> from2bit_byte p = None.
Proof. intros H. unfold from2bit_byte, tab_get. apply nth_error_None. pose proof from2bit_tab_length. lia. Qed.

(* ---- one step of DNATo2Bit ------------------------------------------------------------------ *)
Lemma mod4_1 i : i mod 4 = 0 -> (i + 1) mod 4 = 1.
Proof. intros H. rewrite N.add_mod by discriminate. rewrite H. reflexivity. Qed.
Lemma mod4_2 i : i mod 4 = 1 -> (i + 1) mod 4 = 2.
Proof. intros H. rewrite N.add_mod by discriminate. rewrite H. reflexivity. Qed.
Lemma mod4_3 i : i mod 4 = 2 -> (i + 1) mod 4 = 3.
Proof. intros H. rewrite N.add_mod by discriminate. rewrite H. reflexivity. Qed.
Lemma mod4_0 i : i mod 4 = 3 -> (i + 1) mod 4 = 0.
Proof. intros H. rewrite N.add_mod by discriminate. rewrite H. reflexivity. Qed.

Lemma step_none st b : code2 b = None -> to2bit_step (Ok st) b = Panic.
Proof.
  intros E. destruct st as [acc i]. unfold to2bit_step. cbn [obind].
  rewrite code_exact, E. reflexivity.
Qed.

Lemma step0 acc i b c : i mod 4 = 0 -> code2 b = Some c ->
  to2bit_step (Ok (acc, i)) b = Ok (pack4 c 0 0 0 :: acc, i + 1).
Proof.
  intros H E. pose proof (code2_lt4 b c E) as Hc.
  unfold to2bit_step. cbn [obind]. rewrite code_exact, E, H.
  change (6 - 2 * 0) with 6. cbv zeta. change (6 =? 6) with true. cbv iota.
  destruct (bits_ok c 0 0 0 Hc lt04 lt04 lt04) as (K & _). rewrite K. reflexivity.
Qed.

Lemma step1 acc i b a c : i mod 4 = 1 -> a < 4 -> code2 b = Some c ->
  to2bit_step (Ok (pack4 a 0 0 0 :: acc, i)) b = Ok (pack4 a c 0 0 :: acc, i + 1).
Proof.
  intros H Ha E. pose proof (code2_lt4 b c E) as Hc.
  unfold to2bit_step. cbn [obind]. rewrite code_exact, E, H.
  change (6 - 2 * 1) with 4. cbv zeta. change (4 =? 6) with false. cbv iota.
  destruct (bits_ok a c 0 0 Ha Hc lt04 lt04) as (_ & K & _). rewrite K. reflexivity.
Qed.

Lemma step2 acc i b a a' c : i mod 4 = 2 -> a < 4 -> a' < 4 -> code2 b = Some c ->
  to2bit_step (Ok (pack4 a a' 0 0 :: acc, i)) b = Ok (pack4 a a' c 0 :: acc, i + 1).
Proof.
  intros H Ha Ha' E. pose proof (code2_lt4 b c E) as Hc.
  unfold to2bit_step. cbn [obind]. rewrite code_exact, E, H.
  change (6 - 2 * 2) with 2. cbv zeta. change (2 =? 6) with false. cbv iota.
  destruct (bits_ok a a' c 0 Ha Ha' Hc lt04) as (_ & _ & K & _). rewrite K. reflexivity.
Qed.

Lemma step3 acc i b a a' a'' c : i mod 4 = 3 -> a < 4 -> a' < 4 -> a'' < 4 -> code2 b = Some c ->
  to2bit_step (Ok (pack4 a a' a'' 0 :: acc, i)) b = Ok (pack4 a a' a'' c :: acc, i + 1).
Proof.
  intros H Ha Ha' Ha'' E. pose proof (code2_lt4 b c E) as Hc.
  unfold to2bit_step. cbn [obind]. rewrite code_exact, E, H.
  change (6 - 2 * 3) with 0. cbv zeta. change (0 =? 6) with false. cbv iota.
  destruct (bits_ok a a' a'' c Ha Ha' Ha'' Hc) as (_ & _ & _ & K). rewrite K. reflexivity.
Qed.

Lemma fold_cons (st : outcome (bytes * N)) b s :
  fold_left to2bit_step (b :: s) st = fold_left to2bit_step s (to2bit_step st b).
Proof. reflexivity. Qed.

Lemma fold_panic s : fold_left to2bit_step s Panic = Panic.
Proof. induction s as [|b s IH]; [reflexivity|]. rewrite fold_cons. exact IH. Qed.

(* ---- four bases at a time --------------------------------------------------------------------- *)
(* the packed bytes of a list of codes: groups of four, first code most
   significant, a final partial group padded with code 0 *)
Fixpoint pack_codes (cs : list N) : bytes :=
  match cs with
  | [] => []
  | [a] => [pack4 a 0 0 0]
  | [a; b] => [pack4 a b 0 0]
  | [a; b; c] => [pack4 a b c 0]
  | a :: b :: c :: d :: r => pack4 a b c d :: pack_codes r
  end.

Lemma to2bit_fold s : forall acc i, i mod 4 = 0 ->
  fold_left to2bit_step s (Ok (acc, i)) =
  match all_some (map code2 s) with
  | Some cs => Ok (rev (pack_codes cs) ++ acc, i + N.of_nat (length s))
  | None => Panic
  end.
Proof.
  induction s as [s IH] using (well_founded_induction (Wf_nat.well_founded_ltof _ (@length N))).
  intros acc i H0.
  destruct s as [|a s]; [cbn; rewrite N.add_0_r; reflexivity|].
  rewrite fold_cons. cbn [map all_some].
  destruct (code2 a) as [ca|] eqn:Ea; [|rewrite (step_none _ _ Ea), fold_panic; reflexivity].
  rewrite (step0 _ _ _ _ H0 Ea). pose proof (code2_lt4 _ _ Ea) as Ha. pose proof (mod4_1 _ H0) as H1.
  destruct s as [|b s]; [cbn; f_equal; f_equal; lia|].
  rewrite fold_cons. cbn [map all_some].
  destruct (code2 b) as [cb|] eqn:Eb; [|rewrite (step_none _ _ Eb), fold_panic; reflexivity].
  rewrite (step1 _ _ _ _ _ H1 Ha Eb). pose proof (code2_lt4 _ _ Eb) as Hb. pose proof (mod4_2 _ H1) as H2.
  destruct s as [|c s]; [cbn; f_equal; f_equal; lia|].
  rewrite fold_cons. cbn [map all_some].
  destruct (code2 c) as [cc|] eqn:Ec; [|rewrite (step_none _ _ Ec), fold_panic; reflexivity].
  rewrite (step2 _ _ _ _ _ _ H2 Ha Hb Ec). pose proof (code2_lt4 _ _ Ec) as Hc. pose proof (mod4_3 _ H2) as H3.
  destruct s as [|d s]; [cbn; f_equal; f_equal; lia|].
  rewrite fold_cons. cbn [map all_some].
  destruct (code2 d) as [cd|] eqn:Ed; [|rewrite (step_none _ _ Ed), fold_panic; reflexivity].
  rewrite (step3 _ _ _ _ _ _ _ H3 Ha Hb Hc Ed). pose proof (mod4_0 _ H3) as H4.
  rewrite IH; [|unfold Wf_nat.ltof; simpl; lia|exact H4].
  destruct (all_some (map code2 s)) as [cs|]; [|reflexivity].
  cbn [pack_codes rev]. rewrite <- app_assoc. cbn [app].
  f_equal. f_equal. cbn [length]. lia.
Qed.

(* DNATo2Bit, exactly, for every input *)
Lemma to2bit_exact dst s :
  to2bit dst s =
  match all_some (map code2 s) with
  | Some cs => Ok (dst ++ pack_codes cs)
  | None => Panic
  end.
Proof.
  unfold to2bit. rewrite to2bit_fold by reflexivity.
  destruct (all_some (map code2 s)) as [cs|]; [|reflexivity].
  rewrite app_nil_r, rev_involutive. reflexivity.
Qed.

Lemma dna8_codes s : dna8 s -> all_some (map code2 s) = Some (map code2z s).
Proof.
  intros H. apply all_some_map_some. eapply Forall_impl; [|exact H].
  intros b Hb. apply dna8_code2. exact Hb.
Qed.

Lemma to2bit_ok dst s : dna8 s -> to2bit dst s = Ok (dst ++ pack_codes (map code2z s)).
Proof. intros H. rewrite to2bit_exact, dna8_codes by exact H. reflexivity. Qed.

Lemma to2bit_panics_iff dst s :
  to2bit dst s = Panic <-> Exists (fun b => is_dna8 b = false) s.
Proof.
  rewrite to2bit_exact. destruct (all_some (map code2 s)) as [cs|] eqn:E.
  - split; [discriminate|]. intros H. exfalso.
    assert (N : all_some (map code2 s) = None).
    { apply all_some_map_none. eapply Exists_impl; [|exact H].
      intros b Hb. apply code2_none_iff. exact Hb. }
    congruence.
  - split; [|reflexivity]. intros _. apply all_some_map_none in E.
    eapply Exists_impl; [|exact E]. intros b Hb. apply code2_none_iff. exact Hb.
Qed.

Lemma to2bit_append dst s p : to2bit [] s = Ok p -> to2bit dst s = Ok (dst ++ p).
Proof.
  rewrite !to2bit_exact. destruct (all_some (map code2 s)); [|discriminate].
  cbn [app]. intros H. inversion H. reflexivity.
Qed.

(* ---- length and layout of the packed bytes ------------------------------------------------------ *)
Lemma pack_codes_length cs : length (pack_codes cs) = ((length cs + 3) / 4)%nat.
Proof.
  induction cs as [cs IH] using (well_founded_induction (Wf_nat.well_founded_ltof _ (@length N))).
  destruct cs as [|a [|b [|c [|d r]]]]; try reflexivity.
  cbn [pack_codes length]. rewrite IH by (unfold Wf_nat.ltof; simpl; lia).
  replace (S (S (S (S (length r)))) + 3)%nat with (length r + 3 + 1 * 4)%nat by lia.
  rewrite Nat.div_add by discriminate. lia.
Qed.

Definition cnth (cs : list N) (i : nat) : N := nth i cs 0.

Lemma pack_codes_nth cs : forall j, (4 * j < length cs)%nat ->
  nth_error (pack_codes cs) j =
  Some (pack4 (cnth cs (4 * j)) (cnth cs (4 * j + 1)) (cnth cs (4 * j + 2)) (cnth cs (4 * j + 3))).
Proof.
  induction cs as [cs IH] using (well_founded_induction (Wf_nat.well_founded_ltof _ (@length N))).
  intros j Hj. destruct j as [|j].
  - destruct cs as [|a [|b [|c [|d r]]]]; try reflexivity. simpl in Hj. lia.
  - destruct cs as [|a [|b [|c [|d r]]]]; try (simpl in Hj; lia).
    cbn [pack_codes nth_error].
    rewrite IH; [|unfold Wf_nat.ltof; simpl; lia|simpl in Hj; lia].
    replace (4 * S j)%nat with (S (S (S (S (4 * j))))) by lia.
    replace (S (S (S (S (4 * j)))) + 1)%nat with (S (S (S (S (4 * j + 1))))) by lia.
    replace (S (S (S (S (4 * j)))) + 2)%nat with (S (S (S (S (4 * j + 2))))) by lia.
    replace (S (S (S (S (4 * j)))) + 3)%nat with (S (S (S (S (4 * j + 3))))) by lia.
    reflexivity.
Qed.

Lemma cnth_code_at s i : cnth (map code2z s) i = code_at s i.
Proof.
  unfold cnth, code_at. revert i. induction s as [|b s IH]; intros [|i]; try reflexivity.
  cbn [map nth nth_error]. apply IH.
Qed.

Lemma to2bit_length dst s : dna8 s ->
  exists p, to2bit dst s = Ok (dst ++ p) /\ length p = ((length s + 3) / 4)%nat.
Proof.
  intros H. eexists. split; [apply to2bit_ok; exact H|].
  rewrite pack_codes_length, map_length. reflexivity.
Qed.

Lemma to2bit_msb_first dst s : dna8 s ->
  exists p, to2bit dst s = Ok (dst ++ p) /\
    forall j, (4 * j < length s)%nat ->
      nth_error p j =
      Some (64 * code_at s (4 * j) + 16 * code_at s (4 * j + 1)
            + 4 * code_at s (4 * j + 2) + code_at s (4 * j + 3)).
Proof.
  intros H. eexists. split; [apply to2bit_ok; exact H|].
  intros j Hj. rewrite pack_codes_nth by (rewrite map_length; exact Hj).
  rewrite !cnth_code_at. reflexivity.
Qed.

(* ---- DNAFrom2Bit ------------------------------------------------------------------------------------ *)
Lemma mod4_shift n : Nat.modulo (S (S (S (S n)))) 4 = Nat.modulo n 4.
Proof.
  replace (S (S (S (S n)))) with (n + 1 * 4)%nat by lia.
  apply Nat.mod_add. discriminate.
Qed.

Lemma from_pack cs : Forall (fun c => c < 4) cs ->
  exists ls, all_some (map from2bit_byte (pack_codes cs)) = Some ls /\
    concat ls = map base_of cs ++ repeat 65 (Nat.modulo (4 - Nat.modulo (length cs) 4) 4).
Proof.
  induction cs as [cs IH] using (well_founded_induction (Wf_nat.well_founded_ltof _ (@length N))).
  intros F. destruct cs as [|a [|b [|c [|d r]]]].
  - exists []. split; reflexivity.
  - inversion F as [|? ? Ha _]; subst.
    exists [[base_of a; base_of 0; base_of 0; base_of 0]]. split; [|reflexivity].
    cbn [pack_codes map all_some]. rewrite from2bit_pack4 by (assumption || reflexivity). reflexivity.
  - inversion F as [|? ? Ha F1]; subst. inversion F1 as [|? ? Hb _]; subst.
    exists [[base_of a; base_of b; base_of 0; base_of 0]]. split; [|reflexivity].
    cbn [pack_codes map all_some]. rewrite from2bit_pack4 by (assumption || reflexivity). reflexivity.
  - inversion F as [|? ? Ha F1]; subst. inversion F1 as [|? ? Hb F2]; subst. inversion F2 as [|? ? Hc _]; subst.
    exists [[base_of a; base_of b; base_of c; base_of 0]]. split; [|reflexivity].
    cbn [pack_codes map all_some]. rewrite from2bit_pack4 by (assumption || reflexivity). reflexivity.
  - inversion F as [|? ? Ha F1]; subst. inversion F1 as [|? ? Hb F2]; subst.
    inversion F2 as [|? ? Hc F3]; subst. inversion F3 as [|? ? Hd F4]; subst.
    destruct (IH r) as [ls [E1 E2]]; [unfold Wf_nat.ltof; simpl; lia|exact F4|].
    exists ([base_of a; base_of b; base_of c; base_of d] :: ls). split.
    + cbn [pack_codes map all_some]. rewrite from2bit_pack4 by assumption. rewrite E1. reflexivity.
    + cbn [concat]. rewrite E2. cbn [length]. rewrite mod4_shift. reflexivity.
Qed.

Lemma from_to s : dna8 s ->
  exists p, to2bit [] s = Ok p /\
    from2bit [] p = Ok (map upper_byte s ++ repeat 65 (Nat.modulo (4 - Nat.modulo (length s) 4) 4)).
Proof.
  intros H. exists (pack_codes (map code2z s)). split; [apply (to2bit_ok [] s H)|].
  destruct (from_pack (map code2z s)) as [ls [E1 E2]].
  { apply Forall_forall. intros c Hc. apply in_map_iff in Hc. destruct Hc as [b [<- _]]. apply code2z_lt4. }
  unfold from2bit. rewrite E1. cbn [app]. rewrite E2. rewrite map_length, map_map.
  f_equal. f_equal. apply map_ext_in. intros b Hb.
  unfold dna8 in H. rewrite Forall_forall in H. specialize (H b Hb).
  apply base_of_upper. apply dna8_code2. exact H.
Qed.

Lemma to_from_codes p : Forall (fun b => b < 256) p ->
  exists ls cs, all_some (map from2bit_byte p) = Some ls
    /\ all_some (map code2 (concat ls)) = Some cs /\ pack_codes cs = p.
Proof.
  induction 1 as [|b p Hb _ IH].
  - exists [], []. repeat split.
  - destruct IH as (ls & cs & E1 & E2 & E3).
    destruct (from2bit_recode b Hb) as (w & x & y & z & ca & cb & cc & cd & Eb & Ew & Ex & Ey & Ez & Ep).
    exists ([w; x; y; z] :: ls), (ca :: cb :: cc :: cd :: cs). split; [|split].
    + cbn [map all_some]. rewrite Eb, E1. reflexivity.
    + cbn [concat app map all_some]. rewrite Ew, Ex, Ey, Ez, E2. reflexivity.
    + cbn [pack_codes]. rewrite Ep, E3. reflexivity.
Qed.

Lemma to_from p : Forall (fun b => b < 256) p ->
  exists s, from2bit [] p = Ok s /\ to2bit [] s = Ok p.
Proof.
  intros H. destruct (to_from_codes p H) as (ls & cs & E1 & E2 & E3).
  exists (concat ls). split.
  - unfold from2bit. rewrite E1. reflexivity.
  - rewrite to2bit_exact, E2, E3. reflexivity.
Qed.

(* DNAFrom2Bit is defined exactly on byte strings, keeps the prefix, gives four bases per byte *)
Lemma from2bit_panics_iff dst p :
  from2bit dst p = Panic <-> Exists (fun b => 256 <= b) p.
Proof.
  unfold from2bit. destruct (all_some (map from2bit_byte p)) as [ls|] eqn:E.
  - split; [discriminate|]. intros H. exfalso.
    assert (N : all_some (map from2bit_byte p) = None).
    { apply all_some_map_none. eapply Exists_impl; [|exact H].
      intros b Hb. apply from2bit_not_byte. exact Hb. }
    congruence.
  - split; [|reflexivity]. intros _. apply all_some_map_none in E.
    eapply Exists_impl; [|exact E]. intros b Hb. cbv beta in Hb.
    destruct (N.lt_ge_cases b 256) as [Hlt|Hge]; [|exact Hge].
    destruct (from2bit_recode b Hlt) as (w & x & y & z & _ & _ & _ & _ & Eb & _). congruence.
Qed.
