(* Proofs/TrieProofsB.v *)
From Bio Require Import Base.
