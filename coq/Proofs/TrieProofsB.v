(* Proofs/TrieProofsB.v — Delete: the stack-and-prune loops equal a recursive
   deletion, which refines spec_delete; histories (C15 refinement). *)
From Coq Require Import String Sorting.Sorted Permutation.
From Bio Require Import Base.
From Bio.Model Require Import Trie.
From Bio.Spec Require Import TrieSpec.
From Bio.Proofs Require Import TrieProofs.

Local Open Scope N_scope.

(* ---- the recursive reading of Delete ------------------------------------------------------ *)
(* What the node becomes; a childless result tells the parent to drop the edge
   (the end of the path counts as childless: its edge is the one removed first). *)
Fixpoint rdel (b : bytes) (t : trie) : option trie :=
  match b with
  | [] => Some (T [])
  | k :: b' =>
    match t with
    | T l =>
      match mget k l with
      | None => None
      | Some c =>
        match rdel b' c with
        | None => None
        | Some c' => if is_nil (children c') then Some (T (mdel k l))
                     else Some (T (mset k c' l))
        end
      end
    end
  end.

(* the state of the second loop when the node below has become [n] *)
Definition finish (n : trie) (st : list (trie * byte)) (root : trie) : trie :=
  if is_nil (children n) && negb (is_nil st) then prune st root else rebuild n st.

Lemma prune_cons l k rest root :
  prune ((T l, k) :: rest) root = finish (T (mdel k l)) rest root.
Proof. reflexivity. Qed.

Lemma build_stack_has : forall b c acc, build_stack c b acc = None <-> has b c = false.
Proof.
  induction b as [|k b IH]; intros c acc; cbn.
  - split; discriminate.
  - destruct (mget k (children c)); [apply IH | tauto].
Qed.

Lemma rdel_has : forall b t, rdel b t = None <-> has b t = false.
Proof.
  induction b as [|k b IH]; intros [l]; cbn.
  - split; discriminate.
  - destruct (mget k l) as [c|]; [|tauto].
    specialize (IH c). destruct (rdel b c) as [c'|].
    + destruct (is_nil (children c')); split; try discriminate; intro E; apply IH in E; discriminate.
    + split; auto. intros _. apply IH. reflexivity.
Qed.

Lemma stack_rdel : forall b c acc st root, b <> [] ->
  build_stack c b acc = Some st ->
  exists c', rdel b c = Some c' /\ prune st root = finish c' acc root.
Proof.
  induction b as [|k b IH]; intros [l] acc st root N B; [congruence|].
  cbn [build_stack children] in B. cbn [rdel].
  destruct (mget k l) as [d|] eqn:G; [|discriminate].
  destruct b as [|k2 b2].
  - cbn in B. inversion B; subst st. cbn. eexists. split; [reflexivity|].
    apply prune_cons.
  - destruct (IH d ((T l, k) :: acc) st root) as [d' [R P]]; [discriminate | exact B |].
    rewrite R. rewrite P. unfold finish at 1. cbn [is_nil negb andb].
    destruct (is_nil (children d')) eqn:L.
    + eexists. split; [reflexivity|]. cbn [andb]. apply prune_cons.
    + eexists. split; [reflexivity|]. cbn [andb rebuild]. unfold finish. cbn [children].
      destruct (mset k d' l) eqn:M; [exfalso; eapply mset_not_nil; eauto|]. reflexivity.
Qed.

Lemma finish_top n root : finish n [] root = n.
Proof. unfold finish. cbn. rewrite andb_false_r. reflexivity. Qed.

Theorem delete_eq b t :
  delete b t =
  if has b t then (match b with
                   | [] => t
                   | _ => match rdel b t with Some t' => t' | None => t end
                   end, true)
  else (t, false).
Proof.
  unfold delete. destruct (build_stack t b []) as [st|] eqn:B.
  - destruct (has b t) eqn:Hb.
    + destruct b as [|k b].
      * cbn in B. inversion B. reflexivity.
      * destruct (stack_rdel (k :: b) t [] st t) as [c' [R P]]; [discriminate | auto |].
        rewrite R, P, finish_top. reflexivity.
    + apply build_stack_has with (acc := []) in Hb. congruence.
  - apply build_stack_has in B. rewrite B. reflexivity.
Qed.

(* ---- properties of the recursive deletion ---------------------------------------------------- *)
Lemma wf_rdel : forall b t t', wf t -> rdel b t = Some t' -> wf t'.
Proof.
  induction b as [|k b IH]; intros [l] t' W R; cbn [rdel] in R.
  - inversion R. apply wf_empty.
  - destruct (mget k l) as [c|] eqn:G; [|discriminate].
    destruct (rdel b c) as [c'|] eqn:Rc; [|discriminate].
    destruct (is_nil (children c')); inversion R; subst t'.
    + apply wf_mdel; auto.
    + apply wf_mset; auto. eapply IH; [|exact Rc]. eapply wf_child; eauto.
Qed.

Lemma is_nil_true {A} (l : list A) : is_nil l = true -> l = [].
Proof. destruct l; cbn; congruence. Qed.

(* when the node comes back childless, every leaf below it had the prefix *)
Lemma rdel_leaf_all : forall b t t' x, rdel b t = Some t' -> children t' = [] ->
  walk x t = Some (T []) -> is_prefix b x = true.
Proof.
  induction b as [|k b IH]; intros [l] t' x R C Wk; [reflexivity|].
  cbn [rdel] in R. destruct (mget k l) as [c|] eqn:G; [|discriminate].
  destruct (rdel b c) as [c'|] eqn:Rc; [|discriminate].
  destruct (is_nil (children c')) eqn:L; inversion R; subst t'; cbn [children] in C.
  - pose proof (mdel_nil_single _ _ _ G C) as E. subst l.
    destruct x as [|k' x].
    + cbn in Wk. inversion Wk.
    + cbn [walk children mget] in Wk. cbn [is_prefix].
      destruct (k =? k') eqn:E; [|discriminate]. cbn [andb].
      eapply IH; eauto. apply is_nil_true; auto.
  - exfalso. eapply mset_not_nil; eauto.
Qed.

Lemma rdel_leaves : forall b t t' x, wf t -> b <> [] -> rdel b t = Some t' -> x <> [] ->
  (walk x t' = Some (T []) <-> walk x t = Some (T []) /\ is_prefix b x = false).
Proof.
  induction b as [|k b IH]; intros [l] t' x W Nb R Nx; [congruence|].
  cbn [rdel] in R. destruct (mget k l) as [c|] eqn:G; [|discriminate].
  destruct (rdel b c) as [c'|] eqn:Rc; [|discriminate].
  destruct x as [|k' x]; [congruence|].
  assert (S : sorted l) by (apply wf_inv in W; tauto).
  assert (Wc : wf c) by (eapply wf_child; eauto).
  cbn [is_prefix].
  destruct (N.eq_dec k' k) as [->|NE].
  - rewrite N.eqb_refl. cbn [andb].
    destruct (is_nil (children c')) eqn:L; inversion R; subst t'; cbn [walk children].
    + rewrite mget_mdel_same, G; auto. split; [discriminate|].
      intros [Wk P]. apply is_nil_true in L.
      rewrite (rdel_leaf_all _ _ _ _ Rc L Wk) in P. discriminate.
    + rewrite mget_mset_same, G.
      destruct b as [|k2 b2].
      * cbn in Rc. inversion Rc; subst c'. cbn in L. discriminate.
      * destruct x as [|k3 x3].
        -- cbn [walk]. split.
           ++ intro E. inversion E; subst c'. cbn in L. discriminate.
           ++ intros [E _]. inversion E; subst c. cbn in Rc. discriminate.
        -- apply IH; auto; discriminate.
  - assert (E : (k =? k') = false) by (apply N.eqb_neq; auto). rewrite E. cbn [andb].
    destruct (is_nil (children c')); inversion R; subst t'; cbn [walk children].
    + rewrite mget_mdel_other; auto. tauto.
    + rewrite mget_mset_other; auto. tauto.
Qed.

(* ---- Delete refines spec_delete ----------------------------------------------------------------- *)
Theorem delete_refines b t : wf t ->
  wf (fst (delete b t)) /\
  seteq (members (fst (delete b t))) (fst (spec_delete b (members t))) /\
  snd (delete b t) = snd (spec_delete b (members t)).
Proof.
  intro W. rewrite delete_eq. destruct b as [|k b].
  - cbn. split; auto. split; auto. intro; tauto.
  - unfold spec_delete. cbn [fst snd]. rewrite <- has_existsb; auto; [|discriminate].
    destruct (has (k :: b) t) eqn:Hb; cbn [fst snd].
    + destruct (rdel (k :: b) t) as [t'|] eqn:R; [|apply rdel_has in R; congruence].
      assert (W' : wf t') by (eapply wf_rdel; eauto).
      split; auto. split; auto.
      intro x. rewrite filter_In, !members_iff; auto. split.
      * intros [N Wk].
        pose proof (rdel_leaves (k :: b) t t' x W ltac:(discriminate) R N) as Hx.
        apply Hx in Wk as [Wk P]. rewrite P. auto.
      * intros [[N Wk] P]. split; auto.
        apply (rdel_leaves (k :: b) t t' x W ltac:(discriminate) R N).
        split; auto. apply negb_true_iff. auto.
    + split; auto. split; auto.
      intro x. rewrite filter_In. split; [|tauto]. intro I. split; auto.
      apply negb_true_iff. destruct (is_prefix (k :: b) x) eqn:P; auto.
      rewrite has_existsb in Hb; auto; [|discriminate].
      assert (existsb (is_prefix (k :: b)) (members t) = true) by (apply existsb_exists; eauto).
      congruence.
Qed.

(* ---- histories ------------------------------------------------------------------------------------ *)
Lemma run_cons o r t :
  run (o :: r) t = (fst (run r (fst (apply_op o t))), snd (apply_op o t) :: snd (run r (fst (apply_op o t)))).
Proof.
  cbn [run]. destruct (apply_op o t) as [t1 res]. cbn [fst snd].
  destruct (run r t1). reflexivity.
Qed.

Lemma spec_run_cons o r M :
  spec_run (o :: r) M = (fst (spec_run r (fst (spec_apply o M))),
                         snd (spec_apply o M) :: snd (spec_run r (fst (spec_apply o M)))).
Proof.
  cbn [spec_run]. destruct (spec_apply o M) as [M1 res]. cbn [fst snd].
  destruct (spec_run r M1). reflexivity.
Qed.

(* the state after a history is the fold of the single steps *)
Lemma run_fold ops t : fst (run ops t) = fold_left (fun t o => fst (apply_op o t)) ops t.
Proof.
  revert t; induction ops as [|o r IH]; intro t; [reflexivity|].
  rewrite run_cons. cbn [fst fold_left]. apply IH.
Qed.

Theorem step_refines o t M : wf t -> seteq (members t) M ->
  wf (fst (apply_op o t)) /\
  seteq (members (fst (apply_op o t))) (fst (spec_apply o M)) /\
  snd (apply_op o t) = snd (spec_apply o M).
Proof.
  intros W S. destruct o as [b|b]; cbn [apply_op spec_apply].
  - cbn [fst snd]. split; [apply wf_add; auto|]. split; auto.
    intro x. rewrite (add_refines b t W x). apply spec_add_seteq. auto.
  - destruct (delete_refines b t W) as [W' [S' R']].
    destruct (spec_delete_seteq b _ _ S) as [S2 R2].
    destruct (delete b t) as [t' r]. destruct (spec_delete b M) as [M' r'].
    cbn [fst snd] in *. split; auto. split.
    + intro x. rewrite (S' x). apply S2.
    + congruence.
Qed.

Theorem run_refines : forall ops t M, wf t -> seteq (members t) M ->
  wf (fst (run ops t)) /\
  seteq (members (fst (run ops t))) (fst (spec_run ops M)) /\
  snd (run ops t) = snd (spec_run ops M).
Proof.
  induction ops as [|o r IH]; intros t M W S.
  - cbn. auto.
  - rewrite run_cons, spec_run_cons. cbn [fst snd].
    destruct (step_refines o t M W S) as [W1 [S1 R1]].
    destruct (IH _ _ W1 S1) as [W2 [S2 R2]].
    split; auto. split; auto. congruence.
Qed.

(* ---- no duplicates: set equality is equality up to permutation --------------------------------------- *)
Lemma NoDup_app_intro {A} (a b : list A) :
  NoDup a -> NoDup b -> (forall x, In x a -> ~ In x b) -> NoDup (a ++ b).
Proof.
  induction a as [|y a IH]; cbn; intros Na Nb D; auto.
  inversion Na; subst. constructor.
  - rewrite in_app_iff. intros [I|I]; [contradiction|]. eapply D; eauto.
  - apply IH; auto.
Qed.

Lemma NoDup_map_cons {A} (k : A) (l : list (list A)) : NoDup l -> NoDup (map (cons k) l).
Proof.
  intro N. apply FinFun.Injective_map_NoDup; auto. intros a b E. congruence.
Qed.

Lemma child_members_head x k c : In x (child_members k c) -> exists x', x = k :: x'.
Proof. intro I. apply in_child_members in I as [x' [E _]]. eauto. Qed.

Theorem members_NoDup : forall t, wf t -> NoDup (members t).
Proof.
  induction t as [l IH] using trie_ind2. intro W. rewrite members_unfold.
  apply wf_inv in W as [S W].
  induction l as [|[k c] r IHr]; cbn [flat_map]; [constructor|].
  apply sorted_inv in S as [S F]. cbn [fst snd].
  apply NoDup_app_intro.
  - pose proof (Forall_inv IH) as IHc. cbn in IHc.
    unfold child_members. destruct c as [[|kc rc]]; [repeat constructor; intros []|].
    apply NoDup_map_cons. apply IHc. eapply W. left. reflexivity.
  - apply IHr; auto.
    + eapply Forall_inv_tail; eauto.
    + intros k' c' I. eapply W. right. eauto.
  - intros x I J. apply child_members_head in I as [x' ->].
    apply in_flat_map in J as [[k' c'] [I' J]]. cbn [fst snd] in J.
    apply child_members_head in J as [x'' E]. inversion E; subst k'.
    apply F in I'. lia.
Qed.

Lemma spec_apply_NoDup o M : NoDup M -> NoDup (fst (spec_apply o M)).
Proof.
  intro N. destruct o as [b|b]; cbn [spec_apply].
  - cbn [fst]. unfold spec_add. destruct b as [|k b]; auto.
    destruct (existsb (is_prefix (k :: b)) M) eqn:E; auto.
    constructor; [|apply NoDup_filter; auto].
    rewrite filter_In. intros [I _].
    assert (existsb (is_prefix (k :: b)) M = true); [|congruence].
    apply existsb_exists. exists (k :: b). split; auto. apply is_prefix_refl.
  - unfold spec_delete. destruct b as [|k b]; cbn [fst]; auto. apply NoDup_filter; auto.
Qed.

Lemma spec_run_NoDup : forall ops M, NoDup M -> NoDup (fst (spec_run ops M)).
Proof.
  induction ops as [|o r IH]; intros M N; [auto|].
  rewrite spec_run_cons. cbn [fst]. apply IH. apply spec_apply_NoDup; auto.
Qed.

(* C15, the refinement: after any history from New(), the trie's members are the
   reference set (as duplicate-free lists, up to order) and every Delete returned
   what the reference says. *)
Theorem trie_refines : forall ops,
  wf (fst (run ops empty)) /\
  Permutation (members (fst (run ops empty))) (fst (spec_run ops [])) /\
  NoDup (members (fst (run ops empty))) /\
  snd (run ops empty) = snd (spec_run ops []).
Proof.
  intro ops. destruct (run_refines ops empty [] wf_empty) as [W [S R]]; [intro; cbn; tauto|].
  split; auto. split; [|split; auto].
  - apply NoDup_Permutation; auto.
    + apply members_NoDup; auto.
    + apply spec_run_NoDup. constructor.
  - apply members_NoDup; auto.
Qed.
