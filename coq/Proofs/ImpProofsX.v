(* Proofs/ImpProofsX.v — translated source, part 24: the init function of align/levenshtein.go (two
   nested loops over all bytes storing into the map): every pair of bytes is present in what it
   builds, with 0 on the diagonal and -1 elsewhere — by reasoning about the loops, not by
   running them. *)
From Coq Require Import ZifyBool ZifyNat ZifyN.
From Bio Require Import Base.
From Bio.gen Require Import ImpGen.
From Bio.Model Require Import GoSem.
From Bio.Proofs Require Import ImpProofs ImpProofsB.
Open Scope Z_scope.

Lemma assoc2_set2 {V} (k : N * N) (v : V) m a b :
  assoc2 (go_map_set2 k v m) a b
  = if (N.eqb (fst k) a && N.eqb (snd k) b)%bool then Some v else assoc2 m a b.
Proof.
  induction m as [|[[x y] v'] r IH]; cbn [go_map_set2 assoc2 fst snd].
  - destruct k as [p q]. cbn [fst snd]. reflexivity.
  - destruct k as [p q]. cbn [fst snd] in *.
    destruct (N.eqb_spec p x) as [->|Hp]; destruct (N.eqb_spec q y) as [->|Hq]; cbn [andb assoc2 fst snd].
    + destruct (N.eqb x a && N.eqb y b)%bool; reflexivity.
    + rewrite IH. cbn [fst snd]. destruct (N.eqb_spec x a); destruct (N.eqb_spec q b); destruct (N.eqb_spec y b); cbn [andb]; try reflexivity; congruence.
    + rewrite IH. cbn [fst snd]. destruct (N.eqb_spec x a); destruct (N.eqb_spec p a); destruct (N.eqb_spec y b); cbn [andb]; try reflexivity; congruence.
    + rewrite IH. cbn [fst snd]. destruct (N.eqb_spec x a); destruct (N.eqb_spec p a); destruct (N.eqb_spec y b); destruct (N.eqb_spec q b); cbn [andb]; try reflexivity; congruence.
Qed.

(* storing g(k) under every key k of a list *)
Lemma fold_set2_lookup {V} (g : N * N -> V) keys : forall m0 a b,
  assoc2 (fold_left (fun m k => go_map_set2 k (g k) m) keys m0) a b
  = if existsb (fun k => N.eqb (fst k) a && N.eqb (snd k) b)%bool keys then Some (g (a, b)) else assoc2 m0 a b.
Proof.
  induction keys as [|k keys IH]; intros m0 a b; cbn [fold_left existsb]; [reflexivity|].
  rewrite IH, assoc2_set2. destruct (existsb _ keys); [rewrite orb_true_r; reflexivity|].
  rewrite orb_false_r. destruct (N.eqb_spec (fst k) a) as [Ea|]; destruct (N.eqb_spec (snd k) b) as [Eb|]; cbn [andb]; try reflexivity.
  destruct k as [p q]. cbn [fst snd] in *. subst. reflexivity.
Qed.

Definition lev_rule (k : N * N) : Z := if N.eqb (fst k) (snd k) then 0 else -1.
Definition lev_keys : list (N * N) :=
  flat_map (fun i => map (fun j => (Z.to_N i, Z.to_N j)) (zseq 0 256)) (zseq 0 256).

Lemma go_byte_small i : 0 <= i < 256 -> go_byte i = Z.to_N i.
Proof. intros H. unfold go_byte. rewrite Z.mod_small by lia. reflexivity. Qed.

Lemma fold_flat_map {A B S0} (f : S0 -> B -> S0) (h : A -> list B) l : forall s,
  fold_left f (flat_map h l) s = fold_left (fun s x => fold_left f (h x) s) l s.
Proof.
  induction l as [|x l IH]; intros s; cbn [flat_map fold_left]; [reflexivity|].
  rewrite fold_left_app. apply IH.
Qed.

Theorem imp_init_levenshtein :
  exists m, imp_align_init_levenshtein_0 = Ret m /\
    forall a b, (a < 256)%N -> (b < 256)%N -> assoc2 m a b = Some (if N.eqb a b then 0 else -1).
Proof.
  exists (fold_left (fun m k => go_map_set2 k (lev_rule k) m) lev_keys []). split.
  - unfold imp_align_init_levenshtein_0. cbv zeta. unfold go_for_up.
    change (Z.to_nat (256 - 0)) with 256%nat.
    rewrite (go_iter_fold _ (fun m i => fold_left (fun m j => go_map_set2 (Z.to_N i, Z.to_N j) (lev_rule (Z.to_N i, Z.to_N j)) m) (zseq 0 256) m)).
    + cbn [after]. unfold lev_keys. rewrite fold_flat_map. f_equal.
    + intros i m Hi. apply in_zseq in Hi.
      rewrite (go_iter_fold _ (fun m j => go_map_set2 (Z.to_N i, Z.to_N j) (lev_rule (Z.to_N i, Z.to_N j)) m)).
      * reflexivity.
      * intros j m' Hj. apply in_zseq in Hj. rewrite !go_byte_small by lia.
        unfold lev_rule. cbn [fst snd].
        destruct (Z.eqb_spec i j) as [->|Ne]; cbn [negb].
        -- rewrite N.eqb_refl. reflexivity.
        -- destruct (N.eqb_spec (Z.to_N i) (Z.to_N j)); [lia | reflexivity].
  - intros a b Ha Hb. rewrite fold_set2_lookup. cbn [assoc2].
    replace (existsb _ lev_keys) with true; [reflexivity|]. symmetry. apply existsb_exists.
    exists (a, b). cbn [fst snd]. rewrite !N.eqb_refl. split; [|reflexivity].
    unfold lev_keys. apply in_flat_map. exists (Z.of_N a). split; [apply in_zseq; lia|].
    apply in_map_iff. exists (Z.of_N b). rewrite !N2Z.id. split; [reflexivity | apply in_zseq; lia].
Qed.
