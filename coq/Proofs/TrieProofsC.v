(* Proofs/TrieProofsC.v — ForEach's explicit-stack traversal reports exactly the
   members; the JSON object tree round-trips. *)
From Coq Require Import String Sorting.Sorted Permutation.
From Bio Require Import Base.
From Bio.Model Require Import Trie.
From Bio.Spec Require Import TrieSpec.
From Bio.Proofs Require Import TrieProofs TrieProofsB.

Local Open Scope nat_scope.

(* ---- ForEach ------------------------------------------------------------------------------------ *)
(* iterations of the loop spent on a node and everything below it *)
Fixpoint cost (t : trie) : nat :=
  match t with T l => S (fold_right (fun kc n => S (cost (snd kc) + n)) O l) end.
Definition cost_list (l : list (byte * trie)) : nat :=
  fold_right (fun kc n => S (cost (snd kc) + n)) O l.

Lemma cost_T l : cost (T l) = S (cost_list l).
Proof. reflexivity. Qed.

Lemma cost_size : forall t, cost t + 1 = 2 * size t.
Proof.
  induction t as [l IH] using trie_ind2. cbn [cost size].
  induction l as [|[k c] r IHr]; [reflexivity|].
  pose proof (Forall_inv IH) as Hc. cbn [snd] in Hc.
  specialize (IHr (Forall_inv_tail IH)). cbn [fold_right snd]. lia.
Qed.

(* what the traversal reports below a node reached with current sequence rev rcur *)
Definition sub_reports (rcur : bytes) (t : trie) : list bytes :=
  match t with
  | T [] => if is_nil rcur then [] else [rev rcur]
  | _ => map (app (rev rcur)) (members t)
  end.

Lemma sub_reports_child k rcur c :
  sub_reports (k :: rcur) c = map (app (rev rcur)) (child_members k c).
Proof.
  unfold sub_reports, child_members. destruct c as [[|kc rc]].
  - cbn. reflexivity.
  - rewrite map_map. apply map_ext. intro a. cbn [rev]. rewrite <- app_assoc. reflexivity.
Qed.

Lemma map_flat_map {A B C} (f : B -> C) (g : A -> list B) l :
  map f (flat_map g l) = flat_map (fun x => map f (g x)) l.
Proof. induction l; cbn; auto. rewrite map_app, IHl. reflexivity. Qed.

Lemma sub_reports_node rcur kc r :
  sub_reports rcur (T (kc :: r)) =
  flat_map (fun kc => sub_reports (fst kc :: rcur) (snd kc)) (kc :: r).
Proof.
  unfold sub_reports at 1. rewrite members_unfold, map_flat_map.
  apply flat_map_ext. intros [k c]. rewrite sub_reports_child. reflexivity.
Qed.

(* where the loop is after a node has been popped *)
Definition after (fuel : nat) (rest : list (trie * nat)) (rcur : bytes) (out : list bytes)
  : outcome (list bytes) :=
  match rest with
  | [] => Ok (rev out)
  | _ => fe_loop fuel 0 rest (tl rcur) out
  end.

Definition node_ok (t : trie) : Prop :=
  forall rest rcur out fuel,
    fe_loop (cost t + fuel) 0 ((t, 0) :: rest) rcur out =
    after fuel rest rcur (rev (sub_reports rcur t) ++ out).

Lemma nth_error_mid {A} (pre : list A) x suf : nth_error (pre ++ x :: suf) (length pre) = Some x.
Proof. induction pre; cbn; auto. Qed.

(* a node with children, from its i-th child on *)
Lemma children_ok : forall suf pre rest rcur out fuel,
  Forall (fun kc => node_ok (snd kc)) suf ->
  pre ++ suf <> [] ->
  fe_loop (S (cost_list suf + fuel)) 0 ((T (pre ++ suf), length pre) :: rest) rcur out =
  after fuel rest rcur
        (rev (flat_map (fun kc => sub_reports (fst kc :: rcur) (snd kc)) suf) ++ out).
Proof.
  induction suf as [|[k c] suf IH]; intros pre rest rcur out fuel F N.
  - rewrite app_nil_r in *. cbn [fe_loop].
    destruct pre as [|p0 pre0]; [congruence|]. cbn [is_nil andb].
    rewrite Nat.eqb_refl. cbn. destruct rest; reflexivity.
  - cbn [fe_loop].
    assert (E1 : is_nil (pre ++ (k, c) :: suf) = false) by (destruct pre; reflexivity).
    rewrite E1. cbn [andb].
    assert (E2 : Nat.eqb (length pre) (length (pre ++ (k, c) :: suf)) = false).
    { apply Nat.eqb_neq. rewrite app_length. cbn. lia. }
    rewrite E2, nth_error_mid.
    pose proof (Forall_inv F) as Hc. cbn [snd] in Hc.
    replace (cost_list ((k, c) :: suf) + fuel) with (cost c + S (cost_list suf + fuel))
      by (unfold cost_list; cbn [fold_right snd]; lia).
    rewrite Hc. cbn [after tl].
    replace (pre ++ (k, c) :: suf) with ((pre ++ [(k, c)]) ++ suf) by (rewrite <- app_assoc; reflexivity).
    replace (S (length pre)) with (length (pre ++ [(k, c)])) by (rewrite app_length; cbn; lia).
    rewrite IH.
    + cbn [flat_map fst snd]. rewrite rev_app_distr, <- app_assoc. reflexivity.
    + eapply Forall_inv_tail; eauto.
    + destruct pre; discriminate.
Qed.

Lemma all_nodes_ok : forall t, node_ok t.
Proof.
  induction t as [l IH] using trie_ind2. intros rest rcur out fuel.
  destruct l as [|kc r].
  - cbn [cost fold_right Nat.add fe_loop is_nil length Nat.eqb andb sub_reports].
    destruct rcur as [|x rcur]; cbn [is_nil negb andb].
    + cbn. destruct rest; reflexivity.
    + cbn [length Nat.eqb rev app after tl]. destruct rest; reflexivity.
  - rewrite cost_T. cbn [Nat.add].
    pose proof (children_ok (kc :: r) [] rest rcur out fuel IH ltac:(discriminate)) as C.
    cbn [app length] in C. rewrite sub_reports_node. exact C.
Qed.

(* ForEach without early stop: terminates within the fuel and reports the
   members (for the model's key order, in this order) *)
Theorem for_each_members : forall t, for_each t = Ok (members t).
Proof.
  intro t. unfold for_each, for_each_until.
  replace (2 * size t) with (cost t + 1) by apply cost_size.
  rewrite all_nodes_ok. cbn [after]. rewrite app_nil_r, rev_involutive.
  unfold sub_reports. destruct t as [[|kc r]]; [reflexivity|].
  cbn [rev]. f_equal. rewrite <- (map_id (members _)) at 2. apply map_ext. reflexivity.
Qed.

Theorem for_each_exact : forall t, wf t ->
  exists l, for_each t = Ok l /\ Permutation l (members t) /\ NoDup l.
Proof.
  intros t W. exists (members t). split; [apply for_each_members|].
  split; [apply Permutation_refl | apply members_NoDup; auto].
Qed.

(* ---- JSON ------------------------------------------------------------------------------------------ *)
Local Open Scope N_scope.

Definition key_text (k : byte) : bytes := itoa (Z.of_N k).

Lemma parse_key_text_all :
  forallb (fun n => match parse_key (key_text (N.of_nat n)) with
                    | Some k => k =? N.of_nat n
                    | None => false
                    end) (seq 0 256) = true.
Proof. vm_compute. reflexivity. Qed.

Lemma parse_key_text k : k < 256 -> parse_key (key_text k) = Some k.
Proof.
  intro L. pose proof parse_key_text_all as A. rewrite forallb_forall in A.
  specialize (A (N.to_nat k)). rewrite N2Nat.id in A.
  destruct (parse_key (key_text k)) as [k'|].
  - f_equal. apply N.eqb_eq. apply A. apply in_seq. lia.
  - discriminate A. apply in_seq. lia.
Qed.

Definition field_of (kc : byte * trie) : bytes * jvalue := (key_text (fst kc), to_json (snd kc)).

Lemma to_json_T l : to_json (T l) = JObj [(m_name, JObj (map field_of l))].
Proof. reflexivity. Qed.

Lemma of_json_shape kvs :
  of_json (JObj [(m_name, JObj kvs)]) =
  match of_fields of_json kvs [] with Some l => Some (T l) | None => None end.
Proof. reflexivity. Qed.

(* storing ascending keys one after the other appends *)
Lemma mset_append {V} (k : byte) (v : V) acc :
  (forall k' v', In (k', v') acc -> k' < k) -> mset k v acc = acc ++ [(k, v)].
Proof.
  induction acc as [|[k0 v0] r IH]; intro F; [reflexivity|].
  cbn [mset app]. pose proof (F k0 v0 (or_introl eq_refl)) as L.
  destruct (k <? k0) eqn:A; [apply N.ltb_lt in A; lia|].
  destruct (k =? k0) eqn:B; [apply N.eqb_eq in B; lia|].
  rewrite IH; auto. intros k' v' I. eapply F. right. eauto.
Qed.

Lemma of_fields_fields : forall suf acc,
  sorted (acc ++ suf) ->
  (forall k c, In (k, c) suf -> k < 256 /\ of_json (to_json c) = Some c) ->
  of_fields of_json (map field_of suf) acc = Some (acc ++ suf).
Proof.
  induction suf as [|[k c] suf IH]; intros acc S H.
  - cbn. rewrite app_nil_r. reflexivity.
  - cbn [map of_fields field_of fst snd].
    destruct (H k c (or_introl eq_refl)) as [L R].
    rewrite parse_key_text, R; auto.
    rewrite mset_append.
    + replace (acc ++ (k, c) :: suf) with ((acc ++ [(k, c)]) ++ suf) in * by (rewrite <- app_assoc; reflexivity).
      apply IH; auto. intros k' c' I. apply H. right. auto.
    + (* every key already stored is smaller *)
      intros k' v' I. clear IH H R. unfold sorted in S.
      induction acc as [|[k0 v0] r IHr]; [destruct I|].
      cbn [app map fst] in S. apply StronglySorted_inv in S as [S F].
      destruct I as [E|I].
      * inversion E; subst. rewrite Forall_forall in F. apply F.
        rewrite map_app, in_app_iff. right. cbn. auto.
      * apply IHr; auto.
Qed.

Theorem json_roundtrip : forall t, wf t -> byte_keys t -> of_json (to_json t) = Some t.
Proof.
  induction t as [l IH] using trie_ind2. intros W B.
  rewrite to_json_T, of_json_shape.
  rewrite (of_fields_fields l []); [reflexivity | apply wf_inv in W; tauto |].
  intros k c I. inversion B as [l' B']; subst l'.
  destruct (B' k c I) as [L Bc]. split; auto.
  rewrite Forall_forall in IH. apply (IH (k, c) I); auto.
  apply wf_inv in W as [_ W]. eauto.
Qed.

(* histories over bytes keep the keys bytes *)
Lemma byte_keys_empty : byte_keys empty.
Proof. constructor. intros ? ? []. Qed.

Lemma byte_keys_inv l : byte_keys (T l) -> forall k c, In (k, c) l -> k < 256 /\ byte_keys c.
Proof. intro B. inversion B; auto. Qed.

Lemma byte_keys_add : forall b t, Forall (fun x => x < 256) b -> byte_keys t -> byte_keys (add b t).
Proof.
  induction b as [|k b IH]; intros [l] F B; cbn [add]; auto.
  inversion F; subst. constructor. intros k' c' I.
  apply In_mset in I as [[-> ->]|I].
  - split; auto. apply IH; auto.
    destruct (mget k l) as [c|] eqn:G; [|apply byte_keys_empty].
    apply mget_Some_In in G. eapply byte_keys_inv in G; eauto. tauto.
  - eapply byte_keys_inv; eauto.
Qed.

Lemma byte_keys_rdel : forall b t t', byte_keys t -> rdel b t = Some t' -> byte_keys t'.
Proof.
  induction b as [|k b IH]; intros [l] t' B R; cbn [rdel] in R.
  - inversion R. apply byte_keys_empty.
  - destruct (mget k l) as [c|] eqn:G; [|discriminate].
    destruct (rdel b c) as [c'|] eqn:Rc; [|discriminate].
    apply mget_Some_In in G.
    destruct (is_nil (children c')); inversion R; subst t'; constructor; intros k' d I.
    + apply In_mdel in I. eapply byte_keys_inv; eauto.
    + apply In_mset in I as [[-> ->]|I]; [|eapply byte_keys_inv; eauto].
      destruct (byte_keys_inv _ B _ _ G) as [L Bc]. split; auto. eapply IH; eauto.
Qed.

Lemma byte_keys_delete b t : byte_keys t -> byte_keys (fst (delete b t)).
Proof.
  intro B. rewrite delete_eq. destruct (has b t); cbn [fst]; auto.
  destruct b as [|k b]; auto.
  destruct (rdel (k :: b) t) eqn:R; auto. eapply byte_keys_rdel; eauto.
Qed.

Lemma byte_keys_run : forall ops t, ops_are_bytes ops -> byte_keys t -> byte_keys (fst (run ops t)).
Proof.
  induction ops as [|o r IH]; intros t F B; [exact B|].
  rewrite run_cons. cbn [fst]. inversion F; subst. apply IH; auto.
  destruct o as [b|b]; cbn [apply_op op_bytes] in *.
  - cbn [fst]. apply byte_keys_add; auto.
  - pose proof (byte_keys_delete b t B). destruct (delete b t). auto.
Qed.

(* a trie built by any history of byte sequences survives the JSON round trip *)
Theorem json_roundtrip_run : forall ops, ops_are_bytes ops ->
  of_json (to_json (fst (run ops empty))) = Some (fst (run ops empty)).
Proof.
  intros ops F. apply json_roundtrip.
  - apply trie_refines.
  - apply byte_keys_run; auto. apply byte_keys_empty.
Qed.

(* ---- what a history leaves behind, observed ------------------------------------------------------------ *)
Lemma run_state_refines ops :
  wf (fst (run ops empty)) /\ seteq (members (fst (run ops empty))) (fst (spec_run ops [])).
Proof.
  destruct (run_refines ops empty [] wf_empty) as [W [S _]]; [intro; cbn; tauto|]. auto.
Qed.

Theorem has_after_history ops x :
  has x (fst (run ops empty)) = spec_has (fst (spec_run ops [])) x.
Proof.
  destruct (run_state_refines ops) as [W S].
  rewrite has_spec_has; auto. unfold spec_has. destruct x; auto. apply existsb_seteq; auto.
Qed.

Theorem for_each_after_history ops :
  exists l, for_each (fst (run ops empty)) = Ok l /\
            Permutation l (fst (spec_run ops [])) /\ NoDup l.
Proof.
  destruct (trie_refines ops) as [W [P [N _]]].
  exists (members (fst (run ops empty))). split; [apply for_each_members | auto].
Qed.

Lemma delete_nil t : delete [] t = (t, true).
Proof. reflexivity. Qed.

(* ---- ForEach with a callback that returns false at its p-th call ----------------------------------------- *)
Local Open Scope nat_scope.

Lemma sub_reports_root t : sub_reports [] t = members t.
Proof.
  unfold sub_reports. destruct t as [[|kc r]]; [reflexivity|].
  cbn [rev]. rewrite <- (map_id (members _)) at 2. apply map_ext. reflexivity.
Qed.

Section Until.
  Variable p : nat.
  Hypothesis p_pos : p <> 0.

  Definition after_p (fuel : nat) (rest : list (trie * nat)) (rcur : bytes) (out : list bytes)
    : outcome (list bytes) :=
    match rest with
    | [] => Ok (rev out)
    | _ => fe_loop fuel p rest (tl rcur) out
    end.

  (* with [out] reported so far (fewer than p) and R still to come below a node:
     either all of R is reported and the loop goes on with K, or it stops inside R *)
  Definition cont (out R : list bytes) (K : list bytes -> outcome (list bytes))
    : outcome (list bytes) :=
    if length out + length R <? p then K (rev R ++ out)
    else Ok (rev out ++ firstn (p - length out) R).

  Definition node_ok_p (t : trie) : Prop :=
    forall rest rcur out fuel, length out < p ->
      fe_loop (cost t + fuel) p ((t, 0) :: rest) rcur out =
      cont out (sub_reports rcur t) (after_p fuel rest rcur).

  Lemma cont_ext out R K1 K2 :
    (length out + length R < p -> K1 (rev R ++ out) = K2 (rev R ++ out)) ->
    cont out R K1 = cont out R K2.
  Proof.
    intro H. unfold cont. destruct (length out + length R <? p) eqn:A; auto.
    apply H. apply Nat.ltb_lt. auto.
  Qed.

  Lemma cont_app out R1 R2 K : length out < p ->
    cont out R1 (fun o => cont o R2 K) = cont out (R1 ++ R2) K.
  Proof.
    intro L. unfold cont. rewrite !app_length, !rev_length.
    destruct (length out + length R1 <? p) eqn:A.
    - apply Nat.ltb_lt in A.
      replace (length R1 + length out + length R2) with (length out + (length R1 + length R2)) by lia.
      destruct (length out + (length R1 + length R2) <? p) eqn:B.
      + rewrite rev_app_distr, <- app_assoc. reflexivity.
      + f_equal. rewrite rev_app_distr, rev_involutive, <- app_assoc. f_equal.
        rewrite firstn_app.
        replace (firstn (p - length out) R1) with R1 by (symmetry; apply firstn_all2; lia).
        f_equal. f_equal. lia.
    - apply Nat.ltb_ge in A.
      assert (B : (length out + (length R1 + length R2) <? p) = false) by (apply Nat.ltb_ge; lia).
      rewrite B. f_equal. f_equal. rewrite firstn_app.
      replace (p - length out - length R1) with 0 by lia. cbn [firstn]. rewrite app_nil_r. reflexivity.
  Qed.

  Lemma children_ok_p : forall suf pre rest rcur out fuel,
    Forall (fun kc => node_ok_p (snd kc)) suf ->
    pre ++ suf <> [] -> length out < p ->
    fe_loop (S (cost_list suf + fuel)) p ((T (pre ++ suf), length pre) :: rest) rcur out =
    cont out (flat_map (fun kc => sub_reports (fst kc :: rcur) (snd kc)) suf)
         (after_p fuel rest rcur).
  Proof.
    induction suf as [|[k c] suf IH]; intros pre rest rcur out fuel F N L.
    - rewrite app_nil_r in *. cbn [fe_loop].
      destruct pre as [|p0 pre0]; [congruence|]. cbn [is_nil andb].
      rewrite Nat.eqb_refl. unfold cont. cbn [flat_map length rev app].
      rewrite Nat.add_0_r. apply Nat.ltb_lt in L. rewrite L.
      destruct rest; reflexivity.
    - cbn [fe_loop].
      assert (E1 : is_nil (pre ++ (k, c) :: suf) = false) by (destruct pre; reflexivity).
      rewrite E1. cbn [andb].
      assert (E2 : Nat.eqb (length pre) (length (pre ++ (k, c) :: suf)) = false).
      { apply Nat.eqb_neq. rewrite app_length. cbn. lia. }
      rewrite E2, nth_error_mid.
      pose proof (Forall_inv F) as Hc. cbn [snd] in Hc.
      replace (cost_list ((k, c) :: suf) + fuel) with (cost c + S (cost_list suf + fuel))
        by (unfold cost_list; cbn [fold_right snd]; lia).
      rewrite Hc; auto. cbn [flat_map fst snd]. rewrite <- cont_app; auto.
      apply cont_ext. intro A. cbn [after_p tl].
      replace (pre ++ (k, c) :: suf) with ((pre ++ [(k, c)]) ++ suf) by (rewrite <- app_assoc; reflexivity).
      replace (S (length pre)) with (length (pre ++ [(k, c)])) by (rewrite app_length; cbn; lia).
      apply IH.
      + eapply Forall_inv_tail; eauto.
      + destruct pre; discriminate.
      + rewrite app_length, rev_length. lia.
  Qed.

  Lemma all_nodes_ok_p : forall t, node_ok_p t.
  Proof.
    induction t as [l IH] using trie_ind2. intros rest rcur out fuel L.
    destruct l as [|kc r].
    - cbn [cost fold_right Nat.add fe_loop is_nil andb sub_reports].
      destruct rcur as [|x rcur]; cbn [is_nil negb andb].
      + unfold cont. cbn [length rev app]. rewrite Nat.add_0_r.
        pose proof L as L'. apply Nat.ltb_lt in L'. rewrite L'.
        cbn. destruct rest; reflexivity.
      + unfold cont. cbn [length]. rewrite Nat.add_1_r. unfold bytes in *.
        match goal with |- context [Nat.eqb ?a p] => destruct (Nat.eqb a p) eqn:E end.
        * apply Nat.eqb_eq in E.
          assert (B : (S (length out) <? p) = false) by (apply Nat.ltb_ge; lia). rewrite B.
          replace (p - length out) with 1 by lia. reflexivity.
        * apply Nat.eqb_neq in E.
          assert (B : (S (length out) <? p) = true) by (apply Nat.ltb_lt; lia). rewrite B.
          cbn [length Nat.eqb]. destruct rest; reflexivity.
    - rewrite cost_T. cbn [Nat.add].
      pose proof (children_ok_p (kc :: r) [] rest rcur out fuel IH ltac:(discriminate) L) as C.
      cbn [app length] in C. rewrite sub_reports_node. exact C.
  Qed.

  (* the callback is called on the first p members of the traversal order *)
  Theorem for_each_until_firstn : forall t, for_each_until p t = Ok (firstn p (members t)).
  Proof.
    intro t. unfold for_each_until.
    replace (2 * size t) with (cost t + 1) by apply cost_size.
    rewrite all_nodes_ok_p; [|cbn; lia]. unfold cont. cbn [length Nat.add after_p rev app].
    rewrite sub_reports_root, Nat.sub_0_r.
    destruct (length (members t) <? p) eqn:A; [|reflexivity].
    apply Nat.ltb_lt in A. rewrite app_nil_r, rev_involutive, firstn_all2 by lia. reflexivity.
  Qed.
End Until.
