(* Proofs/TrieProofsC.v *)
From Bio Require Import Base.
