(* Proofs/FastaProofsB.v — the reader: one lemma per machine state x input
   class, the body of a record, a record, a layout; sufficiency of decode's fuel. *)
From Bio Require Import Base.
From Bio.Model Require Import Fasta.
From Bio.Spec Require Import FastaSpec.

(* ---- bytes ---------------------------------------------------------- *)

Lemma memb_nl b : memb b [LF; CR] = false -> is_nl b = false.
Proof.
  unfold memb, is_nl. cbn [existsb].
  destruct (b =? LF), (b =? CR); cbn; congruence.
Qed.

Lemma memb_nlgt b : memb b [LF; CR; GT] = false -> is_nl b = false /\ (b =? GT) = false.
Proof.
  unfold memb, is_nl. cbn [existsb].
  destruct (b =? LF), (b =? CR), (b =? GT); cbn; intuition congruence.
Qed.

Lemma clean_nl c : clean [LF; CR] c -> Forall (fun b => is_nl b = false) c.
Proof. apply Forall_impl. exact memb_nl. Qed.

Lemma clean_nlgt_nl c : clean [LF; CR; GT] c -> Forall (fun b => is_nl b = false) c.
Proof. apply Forall_impl. intros b H. apply (memb_nlgt b H). Qed.

Lemma rev_append_app {A} (a b acc : list A) :
  rev_append (a ++ b) acc = rev_append b (rev_append a acc).
Proof. revert acc. induction a as [|x a IH]; intros acc; [reflexivity|]. cbn. apply IH. Qed.

Lemma rev_append_twice {A} (l : list A) : rev_append (rev_append l []) [] = l.
Proof. rewrite !rev_append_rev, !app_nil_r. apply rev_involutive. Qed.

(* ---- runs of one input class in one state ---------------------------- *)

(* name bytes in stateName *)
Lemma rd_name_run c : Forall (fun b => is_nl b = false) c -> forall nm sq rest,
  rd_loop SName nm sq true (c ++ rest) = rd_loop SName (rev_append c nm) sq true rest.
Proof.
  induction 1 as [|b c Hb _ IH]; intros nm sq rest; [reflexivity|].
  cbn [app rd_loop rev_append]. rewrite Hb. apply IH.
Qed.

(* sequence bytes in stateSequence *)
Lemma rd_seq_run c : Forall (fun b => is_nl b = false) c -> forall nm sq rest,
  rd_loop SSeq nm sq true (c ++ rest) = rd_loop SSeq nm (rev_append c sq) true rest.
Proof.
  induction 1 as [|b c Hb _ IH]; intros nm sq rest; [reflexivity|].
  cbn [app rd_loop rev_append]. rewrite Hb. apply IH.
Qed.

(* line breaks in stateNewLine *)
Lemma rd_newline_nls s : Forall (fun b => is_nl b = true) s -> forall nm sq rest,
  rd_loop SNewLine nm sq true (s ++ rest) = rd_loop SNewLine nm sq true rest.
Proof.
  induction 1 as [|b s Hb _ IH]; intros nm sq rest; [reflexivity|].
  cbn [app rd_loop]. rewrite Hb. apply IH.
Qed.

(* a separator met in stateName / stateSequence leads to stateNewLine *)
Lemma rd_sep_from_name s : sep s -> forall nm sq rest,
  rd_loop SName nm sq true (s ++ rest) = rd_loop SNewLine nm sq true rest.
Proof.
  intros [Hne H] nm sq rest. destruct s as [|b s]; [congruence|].
  inversion H as [|? ? Hb H']; subst.
  cbn [app rd_loop]. rewrite Hb. apply rd_newline_nls. exact H'.
Qed.

Lemma rd_sep_from_seq s : sep s -> forall nm sq rest,
  rd_loop SSeq nm sq true (s ++ rest) = rd_loop SNewLine nm sq true rest.
Proof.
  intros [Hne H] nm sq rest. destruct s as [|b s]; [congruence|].
  inversion H as [|? ? Hb H']; subst.
  cbn [app rd_loop]. rewrite Hb. apply rd_newline_nls. exact H'.
Qed.

(* a chunk met in stateNewLine: its first byte is neither a line break nor '>' *)
Lemma rd_newline_chunk c : chunk c -> forall nm sq rest,
  rd_loop SNewLine nm sq true (c ++ rest) = rd_loop SSeq nm (rev_append c sq) true rest.
Proof.
  intros [Hne H] nm sq rest. destruct c as [|b c]; [congruence|].
  inversion H as [|? ? Hb Hc]; subst.
  destruct (memb_nlgt b Hb) as [Hnl Hgt].
  cbn [app rd_loop rev_append]. rewrite Hnl, Hgt.
  apply rd_seq_run. apply clean_nlgt_nl. exact Hc.
Qed.

(* ---- the body of a record -------------------------------------------- *)

(* what may follow a record's text: nothing if it is the last one, else a '>' *)
Definition stop (l : bool) (rest : bytes) : Prop :=
  if l then rest = [] else exists r', rest = GT :: r'.
Definition res (l : bool) (rest : bytes) : option bytes :=
  if l then None else Some rest.

Lemma rd_body l s txt : Body l s txt -> forall rest, stop l rest -> forall nm sq,
  rd_loop SNewLine nm sq true (txt ++ rest) = ((nm, rev_append s sq, true), res l rest).
Proof.
  induction 1 as [l | l c s sq' txt Hc Hs _ IH | c Hc]; intros rest Hstop nm sq.
  - destruct l; cbn [stop res] in *.
    + subst. reflexivity.
    + destruct Hstop as [r' ->]. reflexivity.
  - rewrite <- !app_assoc.
    rewrite rd_newline_chunk by exact Hc.
    rewrite rd_sep_from_seq by exact Hs.
    rewrite IH by exact Hstop.
    rewrite rev_append_app. reflexivity.
  - cbn [stop res] in *. subst.
    rewrite rd_newline_chunk by exact Hc. reflexivity.
Qed.

(* ---- one record -------------------------------------------------------- *)

Lemma mk_result_eta r : mk_result (rev_append (name r) []) (rev_append (seq r) []) = r.
Proof. unfold mk_result. rewrite !rev_append_twice. destruct r; reflexivity. Qed.

Lemma rd_rec l r t : RecL l r t -> forall rest, stop l rest ->
  read_one (t ++ rest) TEOF = RdRec r (if l then [] else rest).
Proof.
  intros H rest Hstop. destruct H as [l r s body Hn Hs Hb | r Hn Hq].
  - unfold read_one. cbn [app rd_loop]. rewrite N.eqb_refl.
    rewrite <- !app_assoc.
    rewrite rd_name_run by (apply clean_nl; exact Hn).
    rewrite rd_sep_from_name by exact Hs.
    rewrite (rd_body l (seq r) body Hb rest Hstop).
    destruct l; cbn [res negb]; rewrite mk_result_eta; reflexivity.
  - cbn [stop] in Hstop. subst rest. rewrite app_nil_r.
    unfold read_one. cbn [rd_loop]. rewrite N.eqb_refl.
    rewrite <- (app_nil_r (name r)) at 1.
    rewrite rd_name_run by (apply clean_nl; exact Hn).
    cbn [rd_loop negb].
    replace (@nil N) with (rev_append (seq r) []) at 2 by (rewrite Hq; reflexivity).
    rewrite mk_result_eta. reflexivity.
Qed.

(* ---- a file ---------------------------------------------------------------- *)

Lemma recl_head l r t : RecL l r t -> exists x, t = GT :: x.
Proof. destruct 1; eexists; reflexivity. Qed.

Lemma layout_head rs ts : Layout rs ts -> rs <> [] -> exists x, ts = GT :: x.
Proof.
  destruct 1 as [| r t H | r t rs ts H _ _]; intros N.
  - congruence.
  - exact (recl_head _ _ _ H).
  - destruct (recl_head _ _ _ H) as [x ->]. eexists. reflexivity.
Qed.

Lemma layout_decode_fuel rs L : Layout rs L -> forall f, (length rs < f)%nat ->
  decode_fuel f L TEOF = map Rec rs.
Proof.
  induction 1 as [| r t H | r t rs ts H N HL IH]; intros f Hf.
  - destruct f; [lia|]. reflexivity.
  - destruct f as [|[|f]]; cbn [length] in Hf; try lia.
    cbn [decode_fuel].
    rewrite <- (app_nil_r t).
    rewrite (rd_rec true r t H [] eq_refl). reflexivity.
  - destruct f; cbn [length] in Hf; [lia|].
    cbn [decode_fuel].
    rewrite (rd_rec false r t H ts (layout_head _ _ HL N)).
    cbn [map]. f_equal. apply IH. lia.
Qed.

Lemma layout_length rs L : Layout rs L -> (length rs <= length L)%nat.
Proof.
  induction 1 as [| r t H | r t rs ts H N _ IH].
  - apply Nat.le_refl.
  - destruct (recl_head _ _ _ H) as [x ->]. cbn [length]. lia.
  - destruct (recl_head _ _ _ H) as [x ->]. cbn [length app]. rewrite app_length. lia.
Qed.

(* C01, main statement (the hypothesis [Forall fa_ok rs] of the property is
   implied by [Layout rs L], see layout_ok below; it is not needed here) *)
Lemma layout_roundtrip rs L : Layout rs L -> decode L TEOF = map Rec rs.
Proof.
  intros H. unfold decode. apply (layout_decode_fuel rs L H).
  pose proof (layout_length rs L H). lia.
Qed.

(* as the property states it *)
Lemma layout_roundtrip_ok rs L :
  Forall (fun r => clean [CR; LF] (name r) /\ clean [CR; LF; GT] (seq r)) rs ->
  Layout rs L -> decode L TEOF = map Rec rs.
Proof. intros _. apply layout_roundtrip. Qed.

(* ---- every record of a layout is in the domain ---------------------------- *)

Lemma memb2_swap b : memb b [CR; LF] = memb b [LF; CR].
Proof. unfold memb. cbn [existsb]. destruct (b =? LF), (b =? CR); reflexivity. Qed.
Lemma memb3_swap b : memb b [CR; LF; GT] = memb b [LF; CR; GT].
Proof. unfold memb. cbn [existsb]. destruct (b =? LF), (b =? CR), (b =? GT); reflexivity. Qed.

Lemma clean2_swap s : clean [CR; LF] s <-> clean [LF; CR] s.
Proof. split; apply Forall_impl; intros b; rewrite memb2_swap; trivial. Qed.
Lemma clean3_swap s : clean [CR; LF; GT] s <-> clean [LF; CR; GT] s.
Proof. split; apply Forall_impl; intros b; rewrite memb3_swap; trivial. Qed.

Lemma body_clean l s txt : Body l s txt -> clean [LF; CR; GT] s.
Proof.
  induction 1 as [l | l c s sq' txt Hc Hs _ IH | c Hc].
  - constructor.
  - apply Forall_app. split; [apply Hc | exact IH].
  - apply Hc.
Qed.

Lemma recl_ok l r t : RecL l r t -> fa_ok r.
Proof.
  destruct 1 as [l r s body Hn Hs Hb | r Hn Hq]; split.
  - apply clean2_swap. exact Hn.
  - apply clean3_swap. exact (body_clean _ _ _ Hb).
  - apply clean2_swap. exact Hn.
  - rewrite Hq. constructor.
Qed.

Lemma layout_ok rs L : Layout rs L -> Forall fa_ok rs.
Proof.
  induction 1 as [| r t H | r t rs ts H N _ IH].
  - constructor.
  - constructor; [exact (recl_ok _ _ _ H) | constructor].
  - constructor; [exact (recl_ok _ _ _ H) | exact IH].
Qed.

(* ---- decode's fuel suffices for every input ------------------------------- *)

Lemma rd_loop_rest inp : forall st nm sq any r rest,
  rd_loop st nm sq any inp = (r, Some rest) -> (length rest <= length inp)%nat.
Proof.
  induction inp as [|b inp IH]; intros st nm sq any r rest H.
  - cbn in H. congruence.
  - cbn [rd_loop] in H. cbn [length].
    destruct st.
    + destruct (b =? GT); [|destruct (is_nl b)]; apply IH in H; lia.
    + destruct (is_nl b); [apply IH in H; lia|].
      destruct (b =? GT).
      * injection H as _ <-. cbn [length]. lia.
      * apply IH in H; lia.
    + destruct (is_nl b); apply IH in H; lia.
    + destruct (is_nl b); apply IH in H; lia.
Qed.

Lemma read_one_rest inp t r rest :
  read_one inp t = RdRec r rest -> (length rest < length inp)%nat.
Proof.
  unfold read_one. destruct inp as [|b inp].
  - cbn. destruct t; discriminate.
  - cbn [rd_loop].
    assert (E : exists st nm sq,
      rd_loop SStart [] [] false (b :: inp) = rd_loop st nm sq true inp).
    { cbn [rd_loop]. destruct (b =? GT); [|destruct (is_nl b)]; do 3 eexists; reflexivity. }
    destruct E as (st & nm & sq & E). cbn [rd_loop] in E. rewrite E.
    destruct (rd_loop st nm sq true inp) as [[[nm' sq'] any'] [rest'|]] eqn:R.
    + intros H. injection H as _ <-. apply rd_loop_rest in R. cbn [length]. lia.
    + destruct (negb any'); destruct t; try discriminate.
      intros H. injection H as _ <-. cbn [length]. lia.
Qed.

Lemma decode_fuel_enough f1 : forall f2 inp t,
  (length inp < f1)%nat -> (length inp < f2)%nat ->
  decode_fuel f1 inp t = decode_fuel f2 inp t.
Proof.
  induction f1 as [|f1 IH]; intros f2 inp t H1 H2; [lia|].
  destruct f2; [lia|]. cbn [decode_fuel].
  destruct (read_one inp t) as [r rest| |] eqn:R; try reflexivity.
  apply read_one_rest in R. f_equal. apply IH; lia.
Qed.

Lemma decode_fuel_sufficient inp t f :
  (length inp < f)%nat -> decode_fuel f inp t = decode inp t.
Proof. intros H. unfold decode. apply decode_fuel_enough; lia. Qed.
