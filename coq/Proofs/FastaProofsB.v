(* Proofs/FastaProofsB.v *)
From Bio Require Import Base.
