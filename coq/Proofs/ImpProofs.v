(* Proofs/ImpProofs.v — the hand-written model agrees, for ALL arguments, with the
   functions that `harness gen-imp` translates from the Go source on every run
   (gen/ImpGen.v, in the embedding of Model/GoSem.v).  Part 1: the loop combinators and
   package sequtil.  A change of the Go source alters gen/ImpGen.v and breaks the
   corresponding lemma here. *)
From Coq Require Import String.
From Bio Require Import Base.
From Bio.gen Require Import Tables ImpGen.
From Bio.Model Require Import GoSem GoGlobals Seq.
From Bio.Proofs Require Import SeqProofs.

Definition of_outcome {A} (o : outcome A) : res unit A :=
  match o with Ok a => Ret a | _ => Panics end.

Definition is_byte (b : N) : Prop := b < 256.
Definition all_bytes (l : list N) : Prop := Forall is_byte l.

(* ---- go_iter ------------------------------------------------------------------- *)
Lemma go_iter_ext {A S R} (f g : A -> S -> res S R) l s :
  (forall x s, In x l -> f x s = g x s) -> go_iter f l s = go_iter g l s.
Proof.
  revert s. induction l as [|x l IH]; intros s H; [reflexivity|].
  cbn [go_iter]. rewrite (H x s (or_introl eq_refl)).
  destruct (g x s); try reflexivity. apply IH. intros y s' Hy. apply H. right. exact Hy.
Qed.

Lemma go_iter_map {A B S R} (h : A -> B) (f : B -> S -> res S R) l s :
  go_iter (fun x => f (h x)) l s = go_iter f (map h l) s.
Proof.
  revert s. induction l as [|x l IH]; intros s; [reflexivity|].
  cbn [go_iter map]. destruct (f (h x) s); try reflexivity. apply IH.
Qed.

Lemma go_iter_app {A S R} (f : A -> S -> res S R) l1 l2 s :
  go_iter f (l1 ++ l2) s =
  match go_iter f l1 s with
  | Next s' => go_iter f l2 s'
  | r => r
  end \/ exists x s0 s', In x l1 /\ f x s0 = Brk s'.
Proof.
  revert s. induction l1 as [|x l1 IH]; intros s; [left; reflexivity|].
  cbn [go_iter app]. destruct (f x s) eqn:E; try (left; reflexivity).
  - destruct (IH s0) as [H|(y & a & b & Hy & Hb)]; [left; exact H|].
    right. exists y, a, b. split; [right; exact Hy|exact Hb].
  - right. exists x, s, s0. split; [left; reflexivity|exact E].
Qed.

(* a loop whose body never leaves: a fold *)
Lemma go_iter_fold {A S R} (f : A -> S -> res S R) (g : S -> A -> S) l s :
  (forall x s, In x l -> f x s = Next (g s x)) -> go_iter f l s = Next (fold_left g l s).
Proof.
  revert s. induction l as [|x l IH]; intros s H; [reflexivity|].
  cbn [go_iter fold_left]. rewrite (H x s (or_introl eq_refl)). apply IH.
  intros y s' Hy. apply H. right. exact Hy.
Qed.

Lemma zseq_length lo n : length (zseq lo n) = n.
Proof. unfold zseq. rewrite map_length, seq_length. reflexivity. Qed.

Lemma zseq_S lo n : zseq lo (S n) = zseq lo n ++ [(lo + Z.of_nat n)%Z].
Proof. unfold zseq. rewrite seq_S, map_app. reflexivity. Qed.

Lemma in_zseq lo n i : In i (zseq lo n) <-> (lo <= i < lo + Z.of_nat n)%Z.
Proof.
  unfold zseq. rewrite in_map_iff. split.
  - intros (k & <- & Hk). apply in_seq in Hk. lia.
  - intros H. exists (Z.to_nat (i - lo)). split; [lia|]. apply in_seq. lia.
Qed.

Lemma go_index_nth {A S R} (l : list A) (i : Z) d (k : A -> res S R) :
  (0 <= i < go_len l)%Z -> go_index l i k = k (nth (Z.to_nat i) l d).
Proof.
  unfold go_index, go_len. intros H. destruct (Z.ltb_spec i 0); [lia|].
  rewrite (nth_error_nth' l d) by lia. reflexivity.
Qed.

Lemma map_nth_zseq {A} (l : list A) d : map (fun i => nth (Z.to_nat i) l d) (zseq 0 (length l)) = l.
Proof.
  unfold zseq. rewrite map_map. apply nth_ext with (d := d) (d' := d).
  - rewrite map_length, seq_length. reflexivity.
  - intros n Hn. rewrite map_length, seq_length in Hn.
    rewrite (nth_indep _ d (nth (Z.to_nat (0 + Z.of_nat 0)) l d)) by (rewrite map_length, seq_length; exact Hn).
    rewrite (map_nth (fun k => nth (Z.to_nat (0 + Z.of_nat k)) l d) (seq 0 (length l)) 0%nat n).
    rewrite seq_nth by exact Hn. f_equal. lia.
Qed.

(* index loops are element loops *)
Lemma go_for_up_elems {A S R} (l : list A) (F : A -> S -> res S R) s :
  go_for_up 0 (go_len l) (fun i s => go_index l i (fun x => F x s)) s = go_iter F l s.
Proof.
  unfold go_for_up, go_len. rewrite Z.sub_0_r, Nat2Z.id.
  destruct l as [|d l']; [reflexivity|]. set (l := d :: l').
  rewrite (go_iter_ext _ (fun i s => F (nth (Z.to_nat i) l d) s)).
  - rewrite (go_iter_map (fun i => nth (Z.to_nat i) l d) F). rewrite map_nth_zseq. reflexivity.
  - intros i s' Hi. apply in_zseq in Hi. apply (go_index_nth l i d (fun x => F x s')). unfold go_len. lia.
Qed.

Lemma go_for_down_elems {A S R} (l : list A) (F : A -> S -> res S R) s :
  go_for_down (go_len l - 1) 0 (fun i s => go_index l i (fun x => F x s)) s = go_iter F (rev l) s.
Proof.
  unfold go_for_down, go_len. replace (Z.to_nat (Z.of_nat (length l) - 1 - 0 + 1)) with (length l) by lia.
  destruct l as [|d l']; [reflexivity|]. set (l := d :: l').
  rewrite (go_iter_ext _ (fun i s => F (nth (Z.to_nat i) l d) s)).
  - rewrite (go_iter_map (fun i => nth (Z.to_nat i) l d) F). rewrite map_rev, map_nth_zseq. reflexivity.
  - intros i s' Hi. apply in_rev in Hi. apply in_zseq in Hi. apply (go_index_nth l i d (fun x => F x s')). unfold go_len. lia.
Qed.

Lemma go_range_elems {A S R} (l : list A) (F : A -> S -> res S R) s :
  go_range l (fun _ x s => F x s) s = go_iter F l s.
Proof.
  unfold go_range, indexed. rewrite (go_iter_map snd F).
  f_equal. clear. generalize (zseq 0 (length l)) as zs, (zseq_length 0 (length l)).
  induction l as [|x l IH]; intros [|z zs] H; try discriminate; [reflexivity|].
  cbn [combine map snd]. f_equal. apply IH. injection H as H. exact H.
Qed.

(* ---- sequtil: Ntoi, Iton, complementByte ---------------------------------------- *)
Lemma ntoi_tab_length : length ntoi_tab = 256%nat.
Proof. reflexivity. Qed.

Lemma imp_Ntoi b : is_byte b -> imp_sequtil_Ntoi b = Ret (ntoi b).
Proof.
  intros Hb. unfold imp_sequtil_Ntoi, ntoi, tab_get, g_sequtil_ntoi, go_index, is_byte in *.
  destruct (Z.ltb_spec (Z.of_N b) 0); [lia|]. replace (Z.to_nat (Z.of_N b)) with (N.to_nat b) by lia.
  destruct (nth_error ntoi_tab (N.to_nat b)) eqn:E; [reflexivity|].
  apply nth_error_None in E. rewrite ntoi_tab_length in E. lia.
Qed.

Lemma imp_Iton i : imp_sequtil_Iton i = Ret (iton i).
Proof.
  unfold imp_sequtil_Iton, iton. cbn [iton_tab find fst snd].
  destruct (Z.eqb_spec i 0) as [->|n0]; [reflexivity|].
  destruct (Z.eqb_spec i 1) as [->|n1]; [reflexivity|].
  destruct (Z.eqb_spec i 2) as [->|n2]; [reflexivity|].
  destruct (Z.eqb_spec i 3) as [->|n3]; [reflexivity|].
  destruct (Z.eqb_spec (-1) i) as [<-|m]; [reflexivity|].
  replace (0 =? i)%Z with false by (symmetry; apply Z.eqb_neq; lia).
  replace (1 =? i)%Z with false by (symmetry; apply Z.eqb_neq; lia).
  replace (2 =? i)%Z with false by (symmetry; apply Z.eqb_neq; lia).
  replace (3 =? i)%Z with false by (symmetry; apply Z.eqb_neq; lia).
  destruct (Z.eqb_spec 4 i); reflexivity.
Qed.

Definition res_eqb (a : res unit N) (b : res unit N) : bool :=
  match a, b with
  | Ret x, Ret y => x =? y
  | Panics, Panics => true
  | _, _ => false
  end.
Lemma res_eqb_eq a b : res_eqb a b = true -> a = b.
Proof. destruct a, b; cbn; try discriminate; try reflexivity. intros H. apply N.eqb_eq in H. subst. reflexivity. Qed.

Lemma complementByte_sweep :
  forallb (fun b => res_eqb (imp_sequtil_complementByte b)
                            (match comp b with Some c => Ret c | None => Panics end)) bytes256 = true.
Proof. vm_compute. reflexivity. Qed.

Lemma imp_complementByte b : is_byte b ->
  imp_sequtil_complementByte b = match comp b with Some c => Ret c | None => Panics end.
Proof.
  intros Hb. apply res_eqb_eq.
  exact (proj1 (forallb_forall _ _) complementByte_sweep b (in_bytes256 b Hb)).
Qed.

(* ---- ReverseComplement ------------------------------------------------------------ *)
Lemma rc_loop l : all_bytes l -> forall dst,
  go_iter (fun x dst => go_call (imp_sequtil_complementByte x) (fun c => Next (R := list N) (dst ++ [c]))) l dst
  = match all_some (map comp l) with Some r => Next (dst ++ r) | None => Panics end.
Proof.
  induction 1 as [|x l Hx Hl IH]; intros dst; cbn [go_iter map all_some].
  - rewrite app_nil_r. reflexivity.
  - rewrite (imp_complementByte x Hx). destruct (comp x) as [c|]; cbn [go_call]; [|reflexivity].
    rewrite IH. destruct (all_some (map comp l)); [|reflexivity].
    rewrite <- app_assoc. reflexivity.
Qed.

Theorem imp_ReverseComplement dst src : all_bytes src ->
  imp_sequtil_ReverseComplement dst src = of_outcome (rc dst src).
Proof.
  intros Hs. unfold imp_sequtil_ReverseComplement, rc.
  rewrite (go_for_down_elems src (fun x dst => go_call (imp_sequtil_complementByte x) (fun c => Next (dst ++ [c])))).
  rewrite rc_loop by (apply Forall_rev'; exact Hs).
  destruct (all_some (map comp (rev src))); reflexivity.
Qed.

(* ---- DNAFrom2Bit -------------------------------------------------------------------- *)
Lemma from2bit_tab_length : length from2bit_tab = 256%nat.
Proof. reflexivity. Qed.

Lemma from2bit_loop l : all_bytes l -> forall dst,
  go_iter (fun x dst => go_index g_sequtil_dnaFrom2bit (Z.of_N x) (fun t => Next (R := list N) (dst ++ t))) l dst
  = match all_some (map from2bit_byte l) with Some r => Next (dst ++ concat r) | None => Panics end.
Proof.
  induction 1 as [|x l Hx Hl IH]; intros dst; cbn [go_iter map all_some].
  - cbn. rewrite app_nil_r. reflexivity.
  - unfold go_index at 1, from2bit_byte at 1, tab_get, g_sequtil_dnaFrom2bit.
    destruct (Z.ltb_spec (Z.of_N x) 0); [lia|]. replace (Z.to_nat (Z.of_N x)) with (N.to_nat x) by lia.
    destruct (nth_error from2bit_tab (N.to_nat x)) eqn:E.
    + rewrite IH. fold from2bit_byte. destruct (all_some (map from2bit_byte l)); [|reflexivity].
      cbn [concat]. rewrite app_assoc. reflexivity.
    + apply nth_error_None in E. rewrite from2bit_tab_length in E. unfold is_byte in Hx. lia.
Qed.

Theorem imp_DNAFrom2Bit dst src : all_bytes src ->
  imp_sequtil_DNAFrom2Bit dst src = of_outcome (from2bit dst src).
Proof.
  intros Hs. unfold imp_sequtil_DNAFrom2Bit, from2bit.
  rewrite (go_for_up_elems src (fun x dst => go_index g_sequtil_dnaFrom2bit (Z.of_N x) (fun t => Next (dst ++ t)))).
  rewrite from2bit_loop by exact Hs.
  destruct (all_some (map from2bit_byte src)); reflexivity.
Qed.

(* ---- ReverseComplementString (strings.Builder as the bytes written so far) ------------------- *)
Theorem imp_ReverseComplementString s : all_bytes s ->
  imp_sequtil_ReverseComplementString s = of_outcome (rc_string s).
Proof.
  intros Hs. unfold imp_sequtil_ReverseComplementString, rc_string, rc. cbv zeta.
  rewrite (go_for_down_elems s (fun x b => go_call (imp_sequtil_complementByte x) (fun c => Next (b ++ [c])))).
  rewrite rc_loop by (apply Forall_rev'; exact Hs).
  destruct (all_some (map comp (rev s))); reflexivity.
Qed.

(* ---- AminoName: all 256 bytes ------------------------------------------------------------------- *)
Definition names_eqb (a b : res unit (list N * list N)) : bool :=
  match a, b with
  | Ret (x1, y1), Ret (x2, y2) => beqb x1 x2 && beqb y1 y2
  | Panics, Panics => true
  | _, _ => false
  end.

Lemma beqb_true_eq a b : beqb a b = true -> a = b.
Proof.
  revert b. induction a as [|x a IH]; intros [|y b] H; cbn [beqb] in H; try discriminate; [reflexivity|].
  apply andb_true_iff in H. destruct H as [H1 H2]. apply N.eqb_eq in H1. subst. f_equal. apply IH. exact H2.
Qed.

Lemma names_eqb_eq a b : names_eqb a b = true -> a = b.
Proof.
  destruct a as [| |[x1 y1]| |], b as [| |[x2 y2]| |]; cbn [names_eqb]; try discriminate; try reflexivity.
  intros H. apply andb_true_iff in H. destruct H as [H1 H2].
  apply beqb_true_eq in H1. apply beqb_true_eq in H2. subst. reflexivity.
Qed.

Lemma aminoName_sweep :
  forallb (fun b => names_eqb (imp_sequtil_AminoName b) (of_outcome (amino_name b))) bytes256 = true.
Proof. vm_compute. reflexivity. Qed.

Theorem imp_AminoName b : is_byte b -> imp_sequtil_AminoName b = of_outcome (amino_name b).
Proof.
  intros Hb. apply names_eqb_eq.
  exact (proj1 (forallb_forall _ _) aminoName_sweep b (in_bytes256 b Hb)).
Qed.

(* ---- the init functions of sequtil: the tables are what the source computes ---------------------
   Model/GoGlobals.v takes the tables from the run-time read-out (gen/Tables.v); the two init
   functions of sequtil.go, translated, compute exactly those values. *)
Theorem imp_init_tables :
  imp_sequtil_init_sequtil_0 = Ret (g_sequtil_ntoi, g_sequtil_complementBytes)
  /\ imp_sequtil_init_sequtil_1 = Ret g_sequtil_dnaFrom2bit.
Proof. split; vm_compute; reflexivity. Qed.

(* ---- the two lookup tables of amino.go: the model's tables are the source's map literals -------- *)
Definition lit_codon (k : list N) : N :=
  match find (fun p => beqb (fst p) k) imp_sequtil_var_codonToAmino with Some p => snd p | None => 0 end.

Lemma codon_lit_is_tab :
  imp_sequtil_var_codonToAmino = map (fun e => match e with (a, b, c, aa) => ([a; b; c], aa) end) codon_tab.
Proof. reflexivity. Qed.

Lemma find_codon_map (tab : list (N * N * N * N)) k :
  match find (fun p => beqb (fst p) k) (map (fun e => match e with (a, b, c, aa) => ([a; b; c], aa) end) tab) with
  | Some p => snd p | None => 0 end
  = match k with
    | [a; b; c] =>
      match find (fun e => match e with (x, y, z, _) => (x =? a) && (y =? b) && (z =? c) end) tab with
      | Some (_, _, _, aa) => aa | None => 0 end
    | _ => 0
    end.
Proof.
  induction tab as [|[[[x y] z] aa] tab IH]; cbn [map find fst snd].
  - destruct k as [|a [|b [|c [|d r]]]]; reflexivity.
  - destruct k as [|a [|b [|c [|d r]]]]; cbn [beqb]; rewrite ?andb_false_r, ?andb_true_r; try exact IH.
    rewrite <- andb_assoc. destruct ((x =? a) && ((y =? b) && (z =? c))) eqn:E; [reflexivity|exact IH].
Qed.

Theorem codon_table_is_source k : g_sequtil_codonToAmino k = lit_codon k.
Proof.
  unfold lit_codon. rewrite codon_lit_is_tab, find_codon_map. unfold g_sequtil_codonToAmino.
  destruct k as [|a [|b [|c [|d r]]]]; reflexivity.
Qed.

Definition lit_amino (b : N) : option (list N * list N) :=
  match find (fun p => (fst p =? b)) imp_sequtil_var_aminoToName with Some p => Some (snd p) | None => None end.

Definition opt_names_eqb (a b : option (list N * list N)) : bool :=
  match a, b with
  | Some (x1, y1), Some (x2, y2) => beqb x1 x2 && beqb y1 y2
  | None, None => true
  | _, _ => false
  end.

Lemma amino_names_sweep : forallb (fun b => opt_names_eqb (g_sequtil_aminoToName b) (lit_amino b)) bytes256 = true.
Proof. vm_compute. reflexivity. Qed.

Theorem amino_table_is_source b : is_byte b -> g_sequtil_aminoToName b = lit_amino b.
Proof.
  intros Hb. pose proof (proj1 (forallb_forall _ _) amino_names_sweep b (in_bytes256 b Hb)) as H.
  cbv beta in H. revert H. destruct (g_sequtil_aminoToName b) as [[x1 y1]|], (lit_amino b) as [[x2 y2]|]; cbn [opt_names_eqb]; intros H; try discriminate; try reflexivity.
  apply andb_true_iff in H. destruct H as [H1 H2]. apply beqb_true_eq in H1. apply beqb_true_eq in H2. subst. reflexivity.
Qed.
