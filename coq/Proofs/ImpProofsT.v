(* Proofs/ImpProofsT.v — translated source, part 20: the stream properties (C06, C07) restated
   for the readers as translated from the Go source.  Each is the composition of a theorem
   about the model's decoder (StreamProofs*.v) with the equivalence of the translated reader
   and that decoder (ImpProofsJ/L/Q/R). *)
From Coq Require Import ZifyBool ZifyNat ZifyN.
From Bio Require Import Base.
From Bio.gen Require Import ImpGen.
From Bio.Model Require Import GoSem GoLib Stream.
From Bio.Model Require Fasta Sam Bed Newick.
From Bio.Spec Require FastaSpec SamSpec BedSpec NewickSpec.
From Bio.Proofs Require Import StreamProofs StreamProofsB StreamProofsC.
From Bio.Proofs Require ImpProofsJ ImpProofsL ImpProofsQ ImpProofsR.
Open Scope Z_scope.

(* ---- C07: a read error after k bytes of a well-formed file ------------------------------------------- *)
Theorem fasta_fault_prefix_src rs k fuel : Forall FastaSpec.fa_ok rs ->
  (length (firstn k (fasta_file rs)) + 2 < fuel)%nat ->
  exists j, (j <= length rs)%nat /\
    imp_fastard_Reader fuel (Stream (firstn k (fasta_file rs)) 2 None)
    = Ret (Stream [] 2 None, map (ImpProofsJ.fa_item TErr) (map Rec (firstn j rs) ++ [ErrItem])).
Proof.
  intros Hok Hf. destruct (fault_prefix_fasta rs k Hok) as (j & Hj & E). exists j. split; [exact Hj|].
  rewrite <- E. exact (ImpProofsJ.imp_fasta_Reader fuel _ TErr Hf).
Qed.

Theorem bed_fault_prefix_src n bs w k fuel :
  Forall (fun b => BedSpec.bed_ok b /\ Bed.b_n b = n) bs -> bed_file bs = Ok w ->
  (length (firstn k w) + 2 < fuel)%nat ->
  exists j st, (j <= length bs)%nat /\
    imp_bed_Reader fuel (Stream (firstn k w) 2 None)
    = Ret (st, map ImpProofsL.bed_item (map (fun b => Rec (BedSpec.first_n b)) (firstn j bs) ++ [ErrItem])).
Proof.
  intros Hok Hw Hf. destruct (fault_prefix_bed n bs w k Hok Hw) as (j & Hj & E).
  destruct (ImpProofsL.imp_bed_Reader_ok TErr fuel _ Hf) as (st & Hst).
  exists j, st. split; [exact Hj|]. rewrite <- E. exact Hst.
Qed.

Theorem sam_fault_prefix_src o hs rs k fuel :
  Forall SamSpec.header_ok hs -> Forall (SamSpec.sam_ok o) rs ->
  (length (firstn k (sam_file o hs rs)) + 1 < fuel)%nat ->
  exists rs' j st, Sam.reader o (sam_file o hs rs) TEOF = map Rec rs' /\ (j <= length rs')%nat /\
    imp_samrd_Reader fuel o (Stream (firstn k (sam_file o hs rs)) 2 None)
    = Ret (st, map ImpProofsQ.sr_item (map Rec (firstn j rs') ++ [ErrItem])).
Proof.
  intros Hh Hr Hf. destruct (fault_prefix_sam_reader o hs rs k Hh Hr) as (rs' & j & E0 & Hj & E).
  destruct (ImpProofsQ.imp_sam_Reader_ok o TErr fuel _ Hf) as (st & Hst).
  exists rs', j, st. split; [exact E0|]. split; [exact Hj|]. rewrite <- E. exact Hst.
Qed.

Theorem newick_fault_prefix_src o ts k fuel h : Forall (NewickSpec.floats_ok o) ts ->
  (length (firstn k (newick_file o ts)) + 2 < fuel)%nat ->
  exists j st h' out, (j <= length ts)%nat /\
    imp_newickrd_Reader fuel o h (Stream (firstn k (newick_file o ts)) 2 None) = Ret (st, (h', out)) /\
    Forall2 (ImpProofsR.item_holds h') (map (fun t => Rec (NewickSpec.norm t)) (firstn j ts) ++ [ErrItem]) out.
Proof.
  intros Hok Hf. destruct (fault_prefix_newick o ts k Hok) as (j & Hj & E).
  pose proof (ImpProofsR.imp_newick_Reader_ok o TErr fuel h _ Hf) as H. rewrite E in H.
  destruct H as (st & h' & out & Hr & HF & _). exists j, st, h', out. auto.
Qed.

(* ---- C06: CR LF line ends ------------------------------------------------------------------------------------- *)
Theorem fasta_crlf_src rs fuel : Forall FastaSpec.fa_ok rs ->
  (length (crlf (fasta_file rs)) + 2 < fuel)%nat ->
  imp_fastard_Reader fuel (Stream (crlf (fasta_file rs)) 1 None)
  = Ret (Stream [] 1 None, map (ImpProofsJ.fa_item TEOF) (map Rec rs)).
Proof.
  intros Hok Hf. rewrite <- (crlf_fasta_records rs Hok). exact (ImpProofsJ.imp_fasta_Reader fuel _ TEOF Hf).
Qed.

Theorem bed_crlf_src bs w t fuel fuel' : Forall BedSpec.bed_ok bs -> bed_file bs = Ok w ->
  (length (crlf w) + 2 < fuel)%nat -> (length w + 2 < fuel')%nat ->
  exists st st' items,
    imp_bed_Reader fuel (Stream (crlf w) (ImpProofsJ.term_code t) None) = Ret (st, items) /\
    imp_bed_Reader fuel' (Stream w (ImpProofsJ.term_code t) None) = Ret (st', items).
Proof.
  intros Hok Hw Hf Hf'.
  destruct (ImpProofsL.imp_bed_Reader_ok t fuel _ Hf) as (st & Hst).
  destruct (ImpProofsL.imp_bed_Reader_ok t fuel' _ Hf') as (st' & Hst').
  rewrite (crlf_bed bs w t Hok Hw) in Hst. eauto.
Qed.

Theorem sam_crlf_src o hs rs t fuel fuel' :
  Forall SamSpec.header_ok hs -> Forall (SamSpec.sam_ok o) rs ->
  (length (crlf (sam_file o hs rs)) + 1 < fuel)%nat -> (length (sam_file o hs rs) + 1 < fuel')%nat ->
  exists st st' items,
    imp_samrd_ReaderHeader fuel o (Stream (crlf (sam_file o hs rs)) (ImpProofsJ.term_code t) None) = Ret (st, items) /\
    imp_samrd_ReaderHeader fuel' o (Stream (sam_file o hs rs) (ImpProofsJ.term_code t) None) = Ret (st', items).
Proof.
  intros Hh Hr Hf Hf'.
  destruct (ImpProofsQ.imp_sam_ReaderHeader_ok o t fuel _ Hf) as (st & Hst).
  destruct (ImpProofsQ.imp_sam_ReaderHeader_ok o t fuel' _ Hf') as (st' & Hst').
  rewrite (crlf_sam o hs rs t Hh Hr) in Hst. eauto.
Qed.
