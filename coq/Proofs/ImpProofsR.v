(* Proofs/ImpProofsR.v — translated source vs hand-written model, part 18: newick's tree reader
   (newick.go, reader.read), translated with *Node as an address into a heap of Node records
   (Name, Distance, Children : addresses).  The Go code links a child into its parent's Children
   the moment it is created and keeps building it through the pointer on the stack; the model
   (Model/Newick.v) keeps a stack of frames and attaches a child when it is complete.  The
   invariant [inv] says how the heap and the stack of addresses hold the model's frames: every
   frame's node is at its stack address with the frame's name and distance, its Children are the
   addresses of the completed kids (each holding the model's subtree, [holds]) followed by the
   address of the next stack entry.  Nodes are allocated at the end of the heap, so a subtree
   lives in an interval of addresses above its root — that is the whole separation argument. *)
From Coq Require Import ZifyBool ZifyNat ZifyN.
From Bio Require Import Base.
From Bio.gen Require Import ImpGen.
From Bio.Model Require Import GoSem GoLib Newick.
From Bio.Proofs Require Import ImpProofs ImpProofsB ImpProofsE ImpProofsG ImpProofsM NewickProofs NewickProofsB NewickProofsC.
From Bio.Proofs Require ImpProofsJ.
Open Scope Z_scope.

Notation hnode := imp_newickrd_Node.
Notation HN := Imp_newickrd_Node.
Definition heap : Type := list hnode.

(* the subtree t is held at address a, all its nodes at addresses in [a, bound) *)
Fixpoint holds (h : heap) (bound : Z) (a : Z) (t : tree) {struct t} : Prop :=
  match t with
  | Node nm d kids =>
    0 <= a < bound /\
    exists ks, nth_error h (Z.to_nat a) = Some (HN nm d ks) /\
      (fix go (ks : list Z) (kids : list tree) {struct kids} : Prop :=
         match ks, kids with
         | [], [] => True
         | k :: ks', t' :: kids' => (a < k /\ holds h bound k t') /\ go ks' kids'
         | _, _ => False
         end) ks kids
  end.

Lemma Forall2_impl' {A B} (R1 R2 : A -> B -> Prop) l1 l2 :
  (forall a b, R1 a b -> R2 a b) -> Forall2 R1 l1 l2 -> Forall2 R2 l1 l2.
Proof. intros I F. induction F; constructor; auto. Qed.

Lemma holds_unfold h bound a nm d kids :
  holds h bound a (Node nm d kids) <->
  0 <= a < bound /\ exists ks, nth_error h (Z.to_nat a) = Some (HN nm d ks) /\
                             Forall2 (fun k t' => a < k /\ holds h bound k t') ks kids.
Proof.
  cbn [holds]. split; intros (R & ks & E & G); (split; [exact R|]); exists ks; (split; [exact E|]); clear E.
  - revert kids G. induction ks as [|k ks IH]; intros [|t' kids] G; try contradiction; constructor.
    + apply G.
    + apply IH. apply G.
  - induction G as [|k t' ks kids Hk G IH]; [exact I|]. split; auto.
Qed.

Lemma holds_mono h : forall t bound bound' a, bound <= bound' -> holds h bound a t -> holds h bound' a t.
Proof.
  induction t as [nm d kids HF] using tree_ind'. intros bound bound' a Le H.
  apply holds_unfold in H as (R & ks & E & G). apply holds_unfold. split; [lia|]. exists ks. split; auto.
  clear E. induction G as [|k t' ks kids [Hk Ht] G IH]; constructor.
  - split; auto. inversion HF; subst. eauto.
  - apply IH. inversion HF; subst. auto.
Qed.

Lemma holds_frame h h' : forall t bound a,
  (forall z, a <= z < bound -> nth_error h' (Z.to_nat z) = nth_error h (Z.to_nat z)) ->
  holds h bound a t -> holds h' bound a t.
Proof.
  induction t as [nm d kids HF] using tree_ind'. intros bound a Fr H.
  apply holds_unfold in H as (R & ks & E & G). apply holds_unfold. split; auto. exists ks. split.
  - rewrite Fr; [exact E | lia].
  - clear E. induction G as [|k t' ks kids [Hk Ht] G IH]; constructor.
    + split; auto. inversion HF; subst. match goal with H : forall _ _, _ |- _ => apply H; auto end.
      intros z Rz. apply Fr. lia.
    + apply IH. inversion HF; subst. auto.
Qed.

(* the stack (top first) and the frames (top first); [open] is the address of the entry above *)
Fixpoint inv (h : heap) (bound : Z) (open : list Z) (st : list Z) (fs : list frame) : Prop :=
  match st, fs with
  | [], [] => True
  | a :: st', f :: fs' =>
    0 <= a < bound /\
    (exists ks, nth_error h (Z.to_nat a) = Some (HN (fr_name f) (fr_dist f) (ks ++ open)) /\
                Forall2 (fun k t' => a < k /\ holds h bound k t') ks (rev (fr_kids f))) /\
    inv h a [a] st' fs'
  | _, _ => False
  end.

Lemma inv_frame h h' : forall st fs bound open,
  (forall z, 0 <= z < bound -> nth_error h' (Z.to_nat z) = nth_error h (Z.to_nat z)) ->
  inv h bound open st fs -> inv h' bound open st fs.
Proof.
  induction st as [|a st IH]; intros [|f fs] bound open Fr H; cbn [inv] in *; auto.
  destruct H as (R & (ks & E & G) & H). split; auto. split.
  - exists ks. split; [rewrite Fr; [exact E | lia]|].
    clear E. induction G as [|k t' ks kids [Hk Ht] G IHG]; constructor; auto.
    split; auto. apply (holds_frame h); auto. intros z Rz. apply Fr. lia.
  - apply IH; auto. intros z Rz. apply Fr. lia.
Qed.

Lemma inv_length h : forall st fs bound open, inv h bound open st fs -> length st = length fs.
Proof.
  induction st as [|a st IH]; intros [|f fs] bound open H; cbn [inv] in H; try contradiction; auto.
  cbn. f_equal. destruct H as (_ & _ & H). eapply IH; eauto.
Qed.

Lemma inv_lower h : forall st fs bound open, inv h bound open st fs -> Forall (fun a => 0 <= a < bound) st.
Proof.
  induction st as [|a st IH]; intros [|f fs] bound open H; cbn [inv] in H; try contradiction; constructor.
  - apply H.
  - destruct H as (R & _ & H). apply IH in H. eapply Forall_impl; [|exact H]. cbn. intros; lia.
Qed.

Definition zero_node : hnode := HN (@nil N) [48%N] [].

(* ---- the four ways the loop changes heap and stack ------------------------------------------------------ *)
Lemma inv_top_holds h bound a st f fs :
  inv h bound [] (a :: st) (f :: fs) -> holds h bound a (close f).
Proof.
  cbn [inv]. intros (R & (ks & E & G) & _). unfold close. apply holds_unfold. split; auto.
  exists ks. rewrite app_nil_r in E. auto.
Qed.

Lemma go_len_app1' {A} (l : list A) x : go_len (l ++ [x]) = go_len l + 1.
Proof. unfold go_len. rewrite app_length. cbn. lia. Qed.

Lemma go_len_set_nth' {A} (l : list A) n v : go_len (set_nth l n v) = go_len l.
Proof. unfold go_len. rewrite set_nth_length. reflexivity. Qed.

(* "(" : a fresh node is linked as the last child of the top node and becomes the top *)
Lemma inv_push h a st f fs nd :
  inv h (go_len h) [] (a :: st) (f :: fs) ->
  nth_error h (Z.to_nat a) = Some nd ->
  let n := go_len h in
  let h2 := set_nth (h ++ [zero_node]) (Z.to_nat a)
                    (imp_newickrd_Node_with_Children nd (imp_newickrd_Node_Children nd ++ [n])) in
  inv h2 (go_len h2) [] (n :: a :: st) (fresh :: f :: fs).
Proof.
  intros H E n h2. cbn [inv] in H. destruct H as (R & (ks & E' & G) & H).
  rewrite app_nil_r in E'. rewrite E in E'. injection E' as ->.
  assert (L2 : go_len h2 = n + 1) by (unfold h2; rewrite go_len_set_nth'; apply go_len_app1').
  assert (Fr : forall z, 0 <= z < n -> z <> a -> nth_error h2 (Z.to_nat z) = nth_error h (Z.to_nat z)).
  { intros z Rz Nz. unfold h2. rewrite nth_error_set_nth_neq by lia. apply nth_error_app1.
    unfold n, go_len in Rz. lia. }
  cbn [inv]. split; [unfold n in *; lia|]. split; [|split; [lia|split]].
  - exists []. split; [|constructor]. unfold h2. rewrite nth_error_set_nth_neq by (unfold n, go_len in *; lia).
    rewrite nth_error_app2 by (unfold n, go_len; lia).
    replace (Z.to_nat n - length h)%nat with 0%nat by (unfold n, go_len; lia). reflexivity.
  - exists ks. split.
    + unfold h2. rewrite nth_error_set_nth_eq by (rewrite app_length; unfold n, go_len in *; cbn; lia).
      reflexivity.
    + eapply Forall2_impl'; [|exact G]. cbn beta. intros k t' [Hk Ht]. split; auto.
      apply (holds_frame h); auto. intros z Rz. apply Fr; lia.
  - apply (inv_frame h); auto. intros z Rz. apply Fr; lia.
Qed.

(* ")" : the top node is complete; its parent becomes the top *)
Lemma inv_pop h a p st f fp fs :
  inv h (go_len h) [] (a :: p :: st) (f :: fp :: fs) ->
  inv h (go_len h) [] (p :: st) (add_kid (close f) fp :: fs).
Proof.
  intros H. pose proof (inv_top_holds _ _ _ _ _ _ H) as Ha.
  cbn [inv] in H. destruct H as (R & _ & (Rp & (ks & E & G) & H)).
  cbn [inv add_kid fr_name fr_dist fr_kids]. split; [lia|]. split; [|exact H].
  exists (ks ++ [a]). rewrite app_nil_r. split; [exact E|]. cbn [rev]. apply Forall2_app.
  - eapply Forall2_impl'; [|exact G]. cbn beta. intros k t' [Hk Ht]. split; auto.
    apply holds_mono with (bound := a); [lia | exact Ht].
  - constructor; [|constructor]. split; [lia | exact Ha].
Qed.

(* a name or a distance is stored into the top node *)
Lemma inv_set_top h a st f f' fs nd :
  inv h (go_len h) [] (a :: st) (f :: fs) ->
  nth_error h (Z.to_nat a) = Some nd ->
  fr_kids f' = fr_kids f ->
  let h2 := set_nth h (Z.to_nat a) (HN (fr_name f') (fr_dist f') (imp_newickrd_Node_Children nd)) in
  inv h2 (go_len h2) [] (a :: st) (f' :: fs).
Proof.
  intros H E Ek h2. cbn [inv] in H. destruct H as (R & (ks & E' & G) & H).
  rewrite app_nil_r in E'. rewrite E in E'. injection E' as ->.
  assert (L2 : go_len h2 = go_len h) by (unfold h2; apply go_len_set_nth').
  assert (Fr : forall z, 0 <= z -> z <> a -> nth_error h2 (Z.to_nat z) = nth_error h (Z.to_nat z)).
  { intros z Rz Nz. unfold h2. apply nth_error_set_nth_neq. lia. }
  cbn [inv]. rewrite L2. split; [lia|]. split.
  - exists ks. rewrite app_nil_r, Ek. split.
    + unfold h2. rewrite nth_error_set_nth_eq by (unfold go_len in *; lia). reflexivity.
    + eapply Forall2_impl'; [|exact G]. cbn beta. intros k t' [Hk Ht]. split; auto.
      apply (holds_frame h); auto. intros z Rz. apply Fr; lia.
  - apply (inv_frame h); auto. intros z Rz. apply Fr; lia.
Qed.

Definition st_code (s : rstate) : Z :=
  match s with BeforeNode => 0 | AfterName => 1 | AfterColon => 2 | AfterDist => 3 | AfterChildren => 4 end.

Lemma st_code_eqb s s' : Z.eqb (st_code s) (st_code s') = st_eqb s s'.
Proof. destruct s, s'; reflexivity. Qed.


Definition rd_state : Type := (imp_newickrd_reader * bool * list Z * Z * go_stream * heap)%type.
Definition rd_result : Type := (go_stream * imp_newickrd_reader * (heap * (Z * Z)))%type.

Section Read.
Variable o : foracle.

Definition rd_after (readAny : bool) (stack : list Z) (state : Z) (h__ : heap)
  : go_stream * imp_newickrd_reader * (list N * Z) -> res rd_state rd_result :=
  (fun '(rd__, t__4, (t__2, t__3)) => let r := t__4 in let token := t__2 in let err := t__3 in (if (negb (Z.eqb err 0%Z)) then (if (andb (Z.eqb err 1%Z) readAny) then Ret (rd__, r, (h__, ((-1)%Z, 3%Z))) else Ret (rd__, r, (h__, ((-1)%Z, err)))) else let readAny := true in (if (beqb token [40%N]) then (if (negb (Z.eqb state (0)%Z)) then Ret (rd__, r, (h__, ((-1)%Z, 2%Z))) else go_index stack (Z.sub (go_len stack) (1)%Z) (fun t__5 => let cur := t__5 in let t__6 := go_len h__ in let h__ := h__ ++ [(Imp_newickrd_Node (@nil N) [48%N] [])] in let node := t__6 in go_index h__ cur (fun t__7 => go_index h__ cur (fun t__8 => go_set h__ cur (imp_newickrd_Node_with_Children t__8 ((imp_newickrd_Node_Children t__7) ++ [node])) (fun h__ => let stack := (stack ++ [node]) in Next (r, readAny, stack, state, rd__, h__)))))) else (if (beqb token [41%N]) then (if (Z.eqb state (2)%Z) then Ret (rd__, r, (h__, ((-1)%Z, 2%Z))) else (if (Z.eqb (go_len stack) (1)%Z) then Ret (rd__, r, (h__, ((-1)%Z, 2%Z))) else go_slice stack 0%Z (Z.sub (go_len stack) (1)%Z) (fun t__9 => let stack := t__9 in let state := (4)%Z in Next (r, readAny, stack, state, rd__, h__)))) else (if (beqb token [44%N]) then (if (Z.eqb state (2)%Z) then Ret (rd__, r, (h__, ((-1)%Z, 2%Z))) else (if (Z.eqb (go_len stack) (1)%Z) then Ret (rd__, r, (h__, ((-1)%Z, 2%Z))) else let t__10 := go_len h__ in let h__ := h__ ++ [(Imp_newickrd_Node (@nil N) [48%N] [])] in let node_2 := t__10 in go_index stack (Z.sub (go_len stack) (2)%Z) (fun t__11 => let parent := t__11 in go_index h__ parent (fun t__12 => go_index h__ parent (fun t__13 => go_set h__ parent (imp_newickrd_Node_with_Children t__13 ((imp_newickrd_Node_Children t__12) ++ [node_2])) (fun h__ => go_set stack (Z.sub (go_len stack) (1)%Z) node_2 (fun t__14 => let stack := t__14 in let state := (0)%Z in Next (r, readAny, stack, state, rd__, h__)))))))) else (if (beqb token [58%N]) then (if (orb (Z.eqb state (2)%Z) (Z.eqb state (3)%Z)) then Ret (rd__, r, (h__, ((-1)%Z, 2%Z))) else let state := (2)%Z in Next (r, readAny, stack, state, rd__, h__)) else (if (beqb token [59%N]) then (if (negb (Z.eqb (go_len stack) (1)%Z)) then Ret (rd__, r, (h__, ((-1)%Z, 2%Z))) else (if (Z.eqb state (2)%Z) then Ret (rd__, r, (h__, ((-1)%Z, 2%Z))) else Brk (r, readAny, stack, state, rd__, h__))) else (if (orb (Z.eqb state (1)%Z) (Z.eqb state (3)%Z)) then Ret (rd__, r, (h__, ((-1)%Z, 2%Z))) else go_index stack (Z.sub (go_len stack) (1)%Z) (fun t__15 => let cur_2 := t__15 in (if (orb (Z.eqb state (0)%Z) (Z.eqb state (4)%Z)) then go_call (imp_newickrd_nameFromText token) (fun t__16 => go_index h__ cur_2 (fun t__17 => go_set h__ cur_2 (imp_newickrd_Node_with_Name t__17 t__16) (fun h__ => let state := (1)%Z in Next (r, readAny, stack, state, rd__, h__)))) else (if (negb (Z.eqb state (2)%Z)) then Panics else let '(t__18, t__19) := go_parse_float_z o token in let dist := t__18 in let err_2 := t__19 in (if (negb (Z.eqb err_2 0%Z)) then Ret (rd__, r, (h__, ((-1)%Z, err_2))) else go_index h__ cur_2 (fun t__20 => go_set h__ cur_2 (imp_newickrd_Node_with_Distance t__20 dist) (fun h__ => let state := (3)%Z in Next (r, readAny, stack, state, rd__, h__))))))))))))))).

Definition rd_body (fuel : nat) : rd_state -> res rd_state rd_result :=
  fun '(r, readAny, stack, state, rd__, h__) =>
    go_call (imp_newickrd_reader_nextToken fuel rd__ r) (rd_after readAny stack state h__).

Lemma imp_read_unfold fuel h rd r :
  imp_newickrd_reader_read fuel o h rd r =
  after (go_while fuel (fun _ => Ret true) (rd_body fuel)
           (r, false, [go_len h], 0, rd, h ++ [zero_node]))
        (fun '(r, readAny, stack, state, rd__, h__) =>
           go_index stack 0 (fun a => Ret (rd__, r, (h__, (a, 0))))).
Proof. reflexivity. Qed.

(* ---- the Go stack is the reversed list of addresses ----------------------------------------------------- *)
Lemma stack_top {St R} a st (k : Z -> res St R) :
  go_index (rev (a :: st)) (go_len (rev (a :: st)) - 1) k = k a.
Proof.
  cbn [rev]. apply go_index_mid. unfold go_len. rewrite app_length. cbn. lia.
Qed.

Lemma stack_second {St R} a p st (k : Z -> res St R) :
  go_index (rev (a :: p :: st)) (go_len (rev (a :: p :: st)) - 2) k = k p.
Proof.
  cbn [rev]. rewrite <- app_assoc. cbn [app]. apply go_index_mid.
  unfold go_len. rewrite !app_length. cbn. lia.
Qed.

Lemma stack_pop {St R} a st (k : list Z -> res St R) :
  go_slice (rev (a :: st)) 0 (go_len (rev (a :: st)) - 1) k = k (rev st).
Proof.
  cbn [rev]. unfold go_slice, go_len. rewrite app_length. cbn [length].
  destruct (Z.ltb_spec 0 0); [lia|]. destruct (Z.ltb_spec (Z.of_nat (length (rev st) + 1) - 1) 0); [lia|].
  destruct (Z.ltb_spec (Z.of_nat (length (rev st) + 1)) (Z.of_nat (length (rev st) + 1) - 1)); [lia|].
  cbn [orb]. change (Z.to_nat 0) with 0%nat. cbn [skipn].
  replace (Z.to_nat (Z.of_nat (length (rev st) + 1) - 1 - 0)) with (length (rev st)) by lia.
  rewrite firstn_app, firstn_all, Nat.sub_diag. cbn [firstn]. rewrite app_nil_r. reflexivity.
Qed.

Lemma stack_set_top {St R} a st v (k : list Z -> res St R) :
  go_set (rev (a :: st)) (go_len (rev (a :: st)) - 1) v k = k (rev (v :: st)).
Proof.
  cbn [rev]. apply go_set_mid. unfold go_len. rewrite app_length. cbn. lia.
Qed.

Lemma stack_len1 (a : Z) (st : list Z) : Z.eqb (go_len (rev (a :: st))) 1 = match st with [] => true | _ => false end.
Proof.
  unfold go_len. rewrite rev_length. destruct st; cbn [length]; lia.
Qed.

Lemma heap_index {A St R} (h : list A) a x (k : A -> res St R) :
  0 <= a -> nth_error h (Z.to_nat a) = Some x -> go_index h a k = k x.
Proof. intros Na E. unfold go_index. destruct (Z.ltb_spec a 0); [lia|]. rewrite E. reflexivity. Qed.

Lemma heap_set {A St R} (h : list A) a x v (k : list A -> res St R) :
  0 <= a -> nth_error h (Z.to_nat a) = Some x -> go_set h a v k = k (set_nth h (Z.to_nat a) v).
Proof.
  intros Na E. unfold go_set. assert (Z.to_nat a < length h)%nat by (apply nth_error_Some; congruence).
  destruct (Z.ltb_spec a 0); [lia|]. destruct (Z.leb_spec (go_len h) a); [unfold go_len in *; lia|]. reflexivity.
Qed.

(* ---- one iteration ------------------------------------------------------------------------------------------- *)
Variable tm : term.
Notation tc := (ImpProofsJ.term_code tm).

(* rs: the stack, top first; nothing below base is touched *)
Definition Inv (base : Z) (h : heap) (rs : list Z) (c : config) : Prop :=
  inv h (go_len h) [] rs (c_top c :: c_below c) /\ Forall (fun a => base <= a) rs /\ base <= go_len h.

Definition keeps (base : Z) (h h' : heap) : Prop :=
  go_len h <= go_len h' /\
  forall z, 0 <= z < base -> nth_error h' (Z.to_nat z) = nth_error h (Z.to_nat z).

Lemma keeps_refl base h : keeps base h h.
Proof. split; [lia | auto]. Qed.

Lemma keeps_trans base h1 h2 h3 : keeps base h1 h2 -> keeps base h2 h3 -> keeps base h1 h3.
Proof. intros [L1 F1] [L2 F2]. split; [lia|]. intros z Rz. rewrite F2, F1; auto. Qed.

Lemma keeps_alloc_set base h a v : base <= a -> base <= go_len h ->
  keeps base h (set_nth (h ++ [zero_node]) (Z.to_nat a) v).
Proof.
  intros Ba Bh. split.
  - rewrite go_len_set_nth', go_len_app1'. lia.
  - intros z Rz. rewrite nth_error_set_nth_neq by lia. apply nth_error_app1. unfold go_len in *. lia.
Qed.

Lemma keeps_set base h a v : base <= a -> keeps base h (set_nth h (Z.to_nat a) v).
Proof.
  intros Ba. split; [rewrite go_len_set_nth'; lia|]. intros z Rz. apply nth_error_set_nth_neq. lia.
Qed.

Definition step_agrees (base : Z) (c : config) (rs : list Z) (h : heap) (rest : bytes) (last : option N)
           (rbuf : imp_newickrd_reader) (m : step_res) (r : res rd_state rd_result) : Prop :=
  match m with
  | Continue c' =>
    exists rs' h', r = Next (rbuf, true, rev rs', st_code (c_state c'), Stream rest tc last, h') /\
                   Inv base h' rs' c' /\ keeps base h h' /\ c_input c' = rest /\ c_any c' = true
  | Done (ROk t rest') =>
    exists a, r = Brk (rbuf, true, [a], st_code (c_state c), Stream rest tc last, h) /\
              holds h (go_len h) a t /\ rest' = rest /\ base <= a
  | Done RErr => r = Ret (Stream rest tc last, rbuf, (h, (-1, 2)))
  | Done REOF => False
  | Done RPanic => r = Panics
  end.

Lemma nameFromText_rd s : imp_newickrd_nameFromText s = Ret (name_from_text s).
Proof. rewrite <- imp_nameFromText. reflexivity. Qed.

Lemma inv_nonempty h bound open rs f fs : inv h bound open rs (f :: fs) -> exists a rs', rs = a :: rs'.
Proof. destruct rs as [|a rs']; cbn [inv]; [contradiction | eauto]. Qed.

Lemma inv_top_node h bound a rs f fs :
  inv h bound [] (a :: rs) (f :: fs) ->
  0 <= a /\ exists ks, nth_error h (Z.to_nat a) = Some (HN (fr_name f) (fr_dist f) ks).
Proof.
  cbn [inv]. intros (R & (ks & E & _) & _). rewrite app_nil_r in E. split; [lia | eauto].
Qed.

Lemma st_is0 s : Z.eqb (st_code s) 0 = st_eqb s BeforeNode. Proof. destruct s; reflexivity. Qed.
Lemma st_is1 s : Z.eqb (st_code s) 1 = st_eqb s AfterName. Proof. destruct s; reflexivity. Qed.
Lemma st_is2 s : Z.eqb (st_code s) 2 = st_eqb s AfterColon. Proof. destruct s; reflexivity. Qed.
Lemma st_is3 s : Z.eqb (st_code s) 3 = st_eqb s AfterDist. Proof. destruct s; reflexivity. Qed.
Lemma st_is4 s : Z.eqb (st_code s) 4 = st_eqb s AfterChildren. Proof. destruct s; reflexivity. Qed.

Lemma rd_after_ok base c rs h rest last rbuf tok :
  Inv base h rs c -> next_token (c_input c) tm = TokOk tok rest ->
  step_agrees base c rs h rest last rbuf (read_step o tm c)
    (rd_after (c_any c) (rev rs) (st_code (c_state c)) h (Stream rest tc last, rbuf, (tok, 0))).
Proof.
  intros (Hi & Hb & Hl) Htok. unfold read_step. rewrite Htok.
  destruct c as [st top below any input]. cbn [c_state c_top c_below c_any c_input] in *.
  destruct (inv_nonempty _ _ _ _ _ _ Hi) as (a & rs' & ->).
  destruct (inv_top_node _ _ _ _ _ _ Hi) as (Na & ks & Ea).
  assert (Ba : base <= a) by (inversion Hb; auto).
  assert (La : (Z.to_nat a < length h)%nat) by (apply nth_error_Some; congruence).
  unfold rd_after. cbv beta iota zeta. cbn [Z.eqb negb].
  change (HN [] [48%N] []) with zero_node.
  rewrite ?st_is0, ?st_is1, ?st_is2, ?st_is3, ?st_is4.
  destruct (beqb tok [40%N]) eqn:E40.
  { (* "(" *)
    destruct (st_eqb st BeforeNode) eqn:Es; cbn [negb step_agrees]; [|reflexivity].
    rewrite stack_top.
    assert (Ea1 : nth_error (h ++ [zero_node]) (Z.to_nat a) = Some (HN (fr_name top) (fr_dist top) ks))
      by (rewrite nth_error_app1; auto).
    rewrite (heap_index _ a _ _ Na Ea1), (heap_index _ a _ _ Na Ea1), (heap_set _ a _ _ _ Na Ea1).
    exists (go_len h :: a :: rs'). eexists. split; [reflexivity|]. cbn [c_state c_top c_below c_any c_input].
    split; [|split; [|split; reflexivity]].
    - split; [|split].
      + apply (inv_push h a rs' top below _ Hi Ea).
      + constructor; [lia | exact Hb].
      + rewrite go_len_set_nth', go_len_app1'. lia.
    - apply keeps_alloc_set; auto. }
  destruct (beqb tok [41%N]) eqn:E41.
  { (* ")" *)
    destruct (st_eqb st AfterColon); cbn [step_agrees]; [reflexivity|].
    rewrite stack_len1. pose proof (inv_length _ _ _ _ _ Hi) as Hlen.
    destruct below as [|fp below]; destruct rs' as [|p rs'']; try (cbn [length] in Hlen; lia); cbn [step_agrees]; [reflexivity|].
    rewrite stack_pop. exists (p :: rs''), h. split; [reflexivity|]. cbn [c_state c_top c_below c_any c_input].
    split; [|split; [apply keeps_refl | split; reflexivity]].
    split; [apply (inv_pop h a p rs'' top fp below Hi) | split; [inversion Hb; auto | exact Hl]]. }
  destruct (beqb tok [44%N]) eqn:E44.
  { (* "," *)
    destruct (st_eqb st AfterColon); cbn [step_agrees]; [reflexivity|].
    rewrite stack_len1. pose proof (inv_length _ _ _ _ _ Hi) as Hlen.
    destruct below as [|fp below]; destruct rs' as [|p rs'']; try (cbn [length] in Hlen; lia); cbn [step_agrees]; [reflexivity|].
    rewrite stack_second.
    pose proof (inv_pop _ _ _ _ _ _ _ Hi) as Hp.
    destruct (inv_top_node _ _ _ _ _ _ Hp) as (Np & ksp & Ep).
    assert (Bp : base <= p) by (inversion Hb as [|? ? _ Hb']; inversion Hb'; auto).
    assert (Ep1 : nth_error (h ++ [zero_node]) (Z.to_nat p) = Some (HN (fr_name (add_kid (close top) fp)) (fr_dist (add_kid (close top) fp)) ksp)).
    { rewrite nth_error_app1; auto. apply nth_error_Some. congruence. }
    rewrite (heap_index _ p _ _ Np Ep1), (heap_index _ p _ _ Np Ep1), (heap_set _ p _ _ _ Np Ep1).
    rewrite stack_set_top.
    exists (go_len h :: p :: rs''). eexists. split; [reflexivity|]. cbn [c_state c_top c_below c_any c_input].
    split; [|split; [|split; reflexivity]].
    - split; [|split].
      + apply (inv_push h p rs'' _ below _ Hp Ep).
      + constructor; [lia | inversion Hb; auto].
      + rewrite go_len_set_nth', go_len_app1'. lia.
    - apply keeps_alloc_set; auto. }
  destruct (beqb tok [58%N]) eqn:E58.
  { (* ":" *)
    destruct (st_eqb st AfterColon || st_eqb st AfterDist); cbn [step_agrees]; [reflexivity|].
    exists (a :: rs'), h. split; [reflexivity|]. cbn [c_state c_top c_below c_any c_input].
    split; [|split; [apply keeps_refl | split; reflexivity]]. split; [exact Hi | split; auto]. }
  destruct (beqb tok [59%N]) eqn:E59.
  { (* ";" *)
    rewrite stack_len1. pose proof (inv_length _ _ _ _ _ Hi) as Hlen.
    destruct below as [|fp below]; destruct rs' as [|p rs'']; try (cbn [length] in Hlen; lia); cbn [negb step_agrees]; [|reflexivity].
    destruct (st_eqb st AfterColon); cbn [step_agrees]; [reflexivity|].
    exists a. split; [reflexivity|]. split; [|auto]. eapply inv_top_holds. exact Hi. }
  (* a name or a distance *)
  destruct (st_eqb st AfterName || st_eqb st AfterDist); cbn [step_agrees]; [reflexivity|].
  rewrite stack_top.
  destruct (st_eqb st BeforeNode || st_eqb st AfterChildren).
  - rewrite nameFromText_rd. cbn [go_call].
    rewrite (heap_index _ a _ _ Na Ea), (heap_set _ a _ _ _ Na Ea).
    exists (a :: rs'). eexists. split; [reflexivity|]. cbn [c_state c_top c_below c_any c_input].
    split; [|split; [|split; reflexivity]].
    + split; [|split; [exact Hb | rewrite go_len_set_nth'; exact Hl]].
      apply (inv_set_top h a rs' top (set_name (name_from_text tok) top) below _ Hi Ea). reflexivity.
    + apply keeps_set. exact Ba.
  - destruct (st_eqb st AfterColon); cbn [negb step_agrees]; [|reflexivity].
    unfold go_parse_float_z. destruct (parseF o tok) as [d|]; cbn [Z.eqb negb step_agrees]; [|reflexivity].
    rewrite (heap_index _ a _ _ Na Ea), (heap_set _ a _ _ _ Na Ea).
    exists (a :: rs'). eexists. split; [reflexivity|]. cbn [c_state c_top c_below c_any c_input].
    split; [|split; [|split; reflexivity]].
    + split; [|split; [exact Hb | rewrite go_len_set_nth'; exact Hl]].
      apply (inv_set_top h a rs' top (set_dist d top) below _ Hi Ea). reflexivity.
    + apply keeps_set. exact Ba.
Qed.

(* ---- the loop ---------------------------------------------------------------------------------------------------- *)
Lemma imp_nextToken_last fuel s last r0 : (length s + 1 < fuel)%nat ->
  nt_agrees tc (next_token s tm) (imp_newickrd_reader_nextToken fuel (Stream s tc last) r0).
Proof.
  intros Hf. unfold imp_newickrd_reader_nextToken, next_token. cbv zeta.
  change (imp_newickrd_reader_with_b r0 []) with (rb []).
  exact (nt_loop tm s fuel false false [] last Hf).
Qed.

Definition rd_final : rd_state -> res unit rd_result :=
  fun '(r, readAny, stack, state, rd__, h__) => go_index stack 0 (fun a => Ret (rd__, r, (h__, (a, 0)))).

(* what read() may return for each answer of the model; h0 is the heap before the call, nothing
   below base is touched, and the tree sits in the new heap *)
Definition rd_agrees (base : Z) (h0 : heap) (m : read_res) (r : res unit rd_result) : Prop :=
  match m with
  | ROk t rest => exists last rbuf h' a, r = Ret (Stream rest tc last, rbuf, (h', (a, 0))) /\
                                         holds h' (go_len h') a t /\ keeps base h0 h' /\ base <= a
  | REOF => exists st rbuf h', r = Ret (st, rbuf, (h', (-1, 1))) /\ keeps base h0 h'
  | RErr => exists st rbuf h' e, r = Ret (st, rbuf, (h', (-1, e))) /\ (e = 2 \/ e = 3) /\ keeps base h0 h'
  | RPanic => True
  end.

Lemma rd_loop base h0 fuel : forall n c rs h rbuf last gf,
  Inv base h rs c -> keeps base h0 h -> (length (c_input c) + 1 < fuel)%nat -> (n < gf)%nat ->
  rd_agrees base h0 (read_loop o n tm c)
    (after (go_while gf (fun _ => Ret true) (rd_body fuel)
              (rbuf, c_any c, rev rs, st_code (c_state c), Stream (c_input c) tc last, h)) rd_final).
Proof.
  induction n as [|n IH]; intros c rs h rbuf last gf HI HK Hf Hg; [exact I|].
  destruct gf as [|gf]; [lia|]. cbn [go_while read_loop]. unfold rd_body at 1. cbv beta iota.
  pose proof (imp_nextToken_last fuel (c_input c) last rbuf Hf) as HT.
  pose proof (rd_after_ok base c rs h) as HS.
  unfold read_step in *. destruct (next_token (c_input c) tm) as [tok rest| |] eqn:Htok; cbn [nt_agrees] in HT.
  - destruct HT as (last' & rbuf' & ->). cbn [go_call].
    specialize (HS rest last' rbuf' tok HI eq_refl).
    match type of HS with step_agrees _ _ _ _ _ _ _ ?m _ => destruct m as [c'|[t rest'| | |]] end; cbn [step_agrees] in HS.
    + destruct HS as (rs' & h' & -> & HI' & HK' & Hin & Hany).
      rewrite <- Hany at 1. rewrite <- Hin at 1. apply IH; auto.
      * eapply keeps_trans; eauto.
      * rewrite Hin. pose proof (next_token_consumes _ _ _ _ Htok). lia.
      * lia.
    + destruct HS as (a & -> & Hh & -> & Ba). cbn [after rd_final]. unfold go_index. cbn [Z.ltb Z.compare Z.to_nat nth_error].
      do 4 eexists. split; [reflexivity|]. auto.
    + contradiction.
    + rewrite HS. cbn [after]. do 4 eexists. split; [reflexivity|]. auto.
    + exact I.
  - destruct HT as (st' & rbuf' & ->). cbn [go_call]. unfold rd_after. cbv beta iota zeta. cbn [Z.eqb Pos.eqb negb andb].
    destruct (c_any c); cbn [after rd_agrees].
    + do 4 eexists. split; [reflexivity|]. auto.
    + do 3 eexists. split; [reflexivity|]. auto.
  - destruct HT as (st' & rbuf' & ->). cbn [go_call]. unfold rd_after. cbv beta iota zeta. cbn [Z.eqb Pos.eqb negb andb after rd_agrees].
    do 4 eexists. split; [reflexivity|]. auto.
Qed.

Theorem imp_read_ok fuel h s last r0 : (length s + 2 < fuel)%nat ->
  rd_agrees (go_len h) h (read_tree o s tm) (imp_newickrd_reader_read fuel o h (Stream s tc last) r0).
Proof.
  intros Hf. rewrite imp_read_unfold. unfold read_tree.
  change [go_len h] with (rev [go_len h]).
  change (after ?m _) with (after m rd_final).
  apply (rd_loop (go_len h) h fuel (S (length s)) (init_config s) [go_len h] (h ++ [zero_node]) r0 last fuel).
  - split; [|split].
    + cbn [inv init_config c_top c_below]. rewrite go_len_app1'. split; [unfold go_len; lia|]. split; [|exact I].
      exists []. split; [|constructor]. rewrite nth_error_app2 by (unfold go_len; lia).
      replace (Z.to_nat (go_len h) - length h)%nat with 0%nat by (unfold go_len; lia). reflexivity.
    + constructor; [lia | constructor].
    + rewrite go_len_app1'. lia.
  - split; [rewrite go_len_app1'; lia|]. intros z Rz. apply nth_error_app1. unfold go_len in Rz. lia.
  - cbn [init_config c_input]. lia.
  - lia.
Qed.

End Read.

(* ---- Reader: read() until io.EOF, on one growing heap ---------------------------------------------------- *)
Section NewickReader.
Variable o : foracle.
Variable tm : term.
Notation tc := (ImpProofsJ.term_code tm).

(* an item of the model against an item of the translated iterator, read in the heap h *)
Definition item_holds (h : heap) (i : item tree) (x : Z * Z) : Prop :=
  match i with
  | Rec t => snd x = 0 /\ holds h (go_len h) (fst x) t
  | ErrItem => fst x = -1 /\ (snd x = 2 \/ snd x = 3)
  end.

Lemma item_holds_keeps h h' i x : keeps (go_len h) h h' -> item_holds h i x -> item_holds h' i x.
Proof.
  intros [L F] H. destruct i as [t|]; [|exact H]. destruct H as [E H]. split; [exact E|].
  apply holds_mono with (bound := go_len h); [exact L|]. apply (holds_frame h); auto.
  intros z Rz. apply F. destruct t. apply holds_unfold in H. lia.
Qed.

Definition nr_state : Type := (imp_newickrd_reader * list (Z * Z) * go_stream * heap)%type.
Definition nr_result : Type := (go_stream * (heap * list (Z * Z)))%type.
Definition nr_body (fuel : nat) : nr_state -> res nr_state nr_result :=
  (fun '((rd, out__, rd__, h__) : (imp_newickrd_reader * _ * go_stream * (list imp_newickrd_Node))) => go_call (imp_newickrd_reader_read fuel o h__ rd__ rd) (fun '(rd__, t__3, (h__, (t__1, t__2))) => let rd := t__3 in let n := t__1 in let err := t__2 in (if (Z.eqb err 1%Z) then Ret (rd__, (h__, out__)) else (if (negb (Z.eqb err 0%Z)) then (let out__ := out__ ++ [((-1)%Z, err)] in let t__4 := true in Ret (rd__, (h__, out__))) else (let out__ := out__ ++ [(n, 0%Z)] in let t__5 := true in (if (negb t__5) then Ret (rd__, (h__, out__)) else Next (rd, out__, rd__, h__))))))).

Lemma keeps_weaken base base' h h' : base' <= base -> keeps base h h' -> keeps base' h h'.
Proof. intros Le [L F]. split; auto. intros z Rz. apply F. lia. Qed.

Lemma nr_loop base0 h0 fuel : forall n s h last rbuf out acc gf,
  (n < gf)%nat -> (length s + 2 < fuel)%nat -> keeps base0 h0 h -> base0 <= go_len h ->
  Forall2 (item_holds h) (rev acc) out ->
  match decode_loop o n s tm acc with
  | Ok items => exists st h' out',
      go_while gf (fun _ => Ret true) (nr_body fuel) (rbuf, out, Stream s tc last, h) = Ret (st, (h', out')) /\
      Forall2 (item_holds h') items out' /\ keeps base0 h0 h'
  | _ => True
  end.
Proof.
  induction n as [|n IH]; intros s h last rbuf out acc gf Hg Hf HK Hb HA; [exact I|].
  destruct gf as [|gf]; [lia|]. cbn [decode_loop go_while]. unfold nr_body at 1. cbv beta iota.
  pose proof (imp_read_ok o tm fuel h s last rbuf Hf) as HR.
  destruct (read_tree o s tm) as [t rest| | |] eqn:Ert; cbn [rd_agrees] in HR.
  - destruct HR as (last' & rbuf' & h' & a & -> & Hh & Hk & Ba). cbn [go_call]. cbv beta iota zeta.
    cbn [Z.eqb negb].
    assert (Hlen : (length rest < length s)%nat).
    { unfold read_tree in Ert. apply read_loop_rest in Ert. exact Ert. }
    assert (K1 : keeps base0 h0 h').
    { eapply keeps_trans; [exact HK|]. eapply keeps_weaken; [|exact Hk]. exact Hb. }
    assert (K2 : base0 <= go_len h') by (destruct Hk; lia).
    assert (K3 : Forall2 (item_holds h') (rev (Rec t :: acc)) (out ++ [(a, 0)])).
    { cbn [rev]. apply Forall2_app.
      - eapply Forall2_impl'; [|exact HA]. intros i x. apply item_holds_keeps. exact Hk.
      - constructor; [|constructor]. split; [reflexivity | exact Hh]. }
    specialize (IH rest h' last' rbuf' (out ++ [(a, 0)]) (Rec t :: acc) gf ltac:(lia) ltac:(lia) K1 K2 K3).
    destruct (decode_loop o n rest tm (Rec t :: acc)) as [items| |]; auto.
  - destruct HR as (st & rbuf' & h' & -> & Hk). cbn [go_call]. cbv beta iota zeta. cbn [Z.eqb Pos.eqb].
    exists st, h', out. split; [reflexivity|]. split.
    + eapply Forall2_impl'; [|exact HA]. intros i x. apply item_holds_keeps. exact Hk.
    + eapply keeps_trans; [exact HK|]. eapply keeps_weaken; [|exact Hk]. exact Hb.
  - destruct HR as (st & rbuf' & h' & e & -> & He & Hk). cbn [go_call]. cbv beta iota zeta.
    exists st, h', (out ++ [(-1, e)]). split.
    + destruct He as [-> | ->]; reflexivity.
    + split.
      * cbn [rev]. apply Forall2_app.
        -- eapply Forall2_impl'; [|exact HA]. intros i x. apply item_holds_keeps. exact Hk.
        -- constructor; [|constructor]. split; [reflexivity | exact He].
      * eapply keeps_trans; [exact HK|]. eapply keeps_weaken; [|exact Hk]. exact Hb.
  - exact I.
Qed.

Theorem imp_newick_Reader_ok fuel h s : (length s + 2 < fuel)%nat ->
  match decode o s tm with
  | Ok items => exists st h' out,
      imp_newickrd_Reader fuel o h (Stream s tc None) = Ret (st, (h', out)) /\
      Forall2 (item_holds h') items out /\ keeps (go_len h) h h'
  | _ => True
  end.
Proof.
  intros Hf. unfold decode.
  pose proof (nr_loop (go_len h) h fuel (S (length s)) s h None (Imp_newickrd_reader []) [] [] fuel) as H.
  destruct (decode_loop o (S (length s)) s tm []) as [items| |]; auto.
  destruct H as (st & h' & out & E & HF & HK); try lia; [apply keeps_refl | constructor |].
  exists st, h', out. split; [|auto]. unfold imp_newickrd_Reader. cbv zeta.
  timeout 120 (change (go_while fuel _ _ ?x) with (go_while fuel (fun _ => Ret true) (nr_body fuel) x)).
  match goal with |- after ?m ?f = _ =>
    assert (E' : forall m' : res nr_state nr_result, m' = Ret (st, (h', out)) -> after m' f = Ret (st, (h', out)))
      by (intros m' ->; reflexivity) end.
  apply E'. exact E.
Qed.

End NewickReader.

(* ---- write, then read: both directions as translated from the source ----------------------------------- *)
From Bio.Spec Require Import NewickSpec.
From Bio.Proofs Require Import NewickProofsC ImpProofsI.

Theorem imp_newick_roundtrip o tm t ws rest fuel fuel2 h last r0 :
  ws_string ws -> floats_ok o t -> (size t < fuel)%nat ->
  (length (ws ++ marshal o t ++ rest) + 2 < fuel2)%nat ->
  exists text, imp_newick_Node_MarshalText fuel o (node_of t) = Ret (text, false) /\
  exists last' rbuf h' a,
    imp_newickrd_reader_read fuel2 o h (Stream (ws ++ text ++ rest) (ImpProofsJ.term_code tm) last) r0
    = Ret (Stream rest (ImpProofsJ.term_code tm) last', rbuf, (h', (a, 0))) /\
    holds h' (go_len h') a (norm t) /\ keeps (go_len h) h h'.
Proof.
  intros Hws Hok Hf Hf2. exists (marshal o t). split; [apply imp_newick_MarshalText; exact Hf|].
  pose proof (imp_read_ok o tm fuel2 h (ws ++ marshal o t ++ rest) last r0 Hf2) as H.
  rewrite (read_tree_marshal o tm t ws rest Hws Hok) in H. cbn [rd_agrees] in H.
  destruct H as (last' & rbuf & h' & a & E & Hh & Hk & _). exists last', rbuf, h', a. auto.
Qed.
