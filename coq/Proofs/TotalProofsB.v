(* Proofs/TotalProofsB.v *)
From Bio Require Import Base.
