(* Proofs/TotalProofsB.v — C11: totality of the decoders (collected from the
   family proofs), independence of SAM lines, and the fixed-point theorems for
   FASTQ, FASTA and Newick: every record a reader ACCEPTS from an arbitrary
   input lies in the domain of the family's round-trip theorem (given the
   property's cleanliness hypothesis), hence is a fixed point of the codec. *)
From Bio Require Import Base.
From Bio.Model Require Fasta Fastq Sam Bed Newick Smtext.
From Bio.Spec Require FastaSpec FastqSpec NewickSpec SamSpec.
From Bio.Proofs Require FastaProofsB FastaProofsC FastqProofsB SamProofs SamProofsB SamProofsC
  NewickProofsC SmtextProofsC.

(* ---- what an item list says about its records -------------------------------------------- *)
Lemma in_rec_map {A} (r : A) rs : In (Rec r) (map Rec rs) -> In r rs.
Proof.
  induction rs as [|a rs IH]; cbn [map In]; [auto|].
  intros [E|H]; [left; congruence | right; auto].
Qed.

Lemma in_rec_map_err {A} (r : A) rs : In (Rec r) (map Rec rs ++ [ErrItem]) -> In r rs.
Proof.
  intros H. apply in_app_or in H. destruct H as [H|[H|[]]]; [apply in_rec_map, H | discriminate].
Qed.

(* ================================================================================================
   BED: parseLine has no panic outcome in the model                                              *)
Lemma bed_parse_fields_no_panic n f : Bed.parse_fields n f <> Panic.
Proof.
  unfold Bed.parse_fields.
  repeat match goal with |- context [match ?x with _ => _ end] => destruct x end; discriminate.
Qed.

Lemma bed_parse_line_no_panic fields : Bed.parse_line fields <> Panic.
Proof.
  unfold Bed.parse_line.
  destruct ((length fields <? 3)%nat || (12 <? length fields)%nat); [discriminate|].
  apply bed_parse_fields_no_panic.
Qed.

(* ================================================================================================
   SAM: lines are independent                                                                    *)
Definition unlines (ls : list bytes) : bytes := concat (map (fun l => l ++ [LF]) ls).

(* what one line (free of CR and LF) contributes: nothing, the header, the
   record, or one error *)
Definition item_of_line (o : foracle) (l : bytes) : list (item Sam.entry) :=
  match l with
  | [] => []
  | c :: _ =>
    if c =? 64 then [Rec (Sam.Hdr l)]
    else match Sam.parse_line o (split_on TAB l) with
         | Ok r => [Rec (Sam.Aln r)]
         | _ => [ErrItem]
         end
  end.

Lemma process_line_item o l : clean [CR; LF] l -> Sam.process_line o l = item_of_line o l.
Proof.
  intros H. unfold Sam.process_line.
  rewrite SamProofs.drop_cr_nosep by (eapply SamProofs.clean_nosep; [exact H | left; reflexivity]).
  destruct l as [|c l]; [reflexivity|]. cbn [item_of_line].
  destruct (c =? 64); [reflexivity|].
  destruct (Sam.parse_line o (split_on TAB (c :: l))); reflexivity.
Qed.

Lemma sam_lines_independent o ls : Forall (clean [CR; LF]) ls ->
  Sam.reader_header o (unlines ls) TEOF = flat_map (item_of_line o) ls.
Proof.
  intros H. unfold unlines. rewrite SamProofsC.reader_header_lines.
  - induction H as [|l ls Hl _ IH]; [reflexivity|].
    cbn [flat_map]. rewrite IH, process_line_item by exact Hl. reflexivity.
  - eapply Forall_impl; [|exact H]. intros l Hl.
    eapply SamProofs.clean_nosep; [exact Hl | right; left; reflexivity].
Qed.

Lemma unlines_app a b : unlines (a ++ b) = unlines a ++ unlines b.
Proof. unfold unlines. rewrite map_app, concat_app. reflexivity. Qed.

(* one malformed line in a file: exactly one error in its position, what is
   before and after it is read as if the line were not there *)
Lemma sam_bad_line_isolated o pre bad post :
  Forall (clean [CR; LF]) pre -> clean [CR; LF] bad -> Forall (clean [CR; LF]) post ->
  item_of_line o bad = [ErrItem] ->
  Sam.reader_header o (unlines (pre ++ bad :: post)) TEOF
  = Sam.reader_header o (unlines pre) TEOF ++ [ErrItem] ++ Sam.reader_header o (unlines post) TEOF.
Proof.
  intros Hpre Hbad Hpost E.
  rewrite !sam_lines_independent; try assumption.
  - rewrite flat_map_app. cbn [flat_map]. rewrite E. reflexivity.
  - apply Forall_app. split; [assumption | constructor; assumption].
Qed.

(* the malformed lines of the property are errors *)
Lemma item_of_line_err o c l : (c =? 64) = false ->
  Sam.parse_line o (split_on TAB (c :: l)) = Err -> item_of_line o (c :: l) = [ErrItem].
Proof. intros Hc E. cbn [item_of_line]. rewrite Hc, E. reflexivity. Qed.

Lemma parse_line_too_few o fs : (length fs < 11)%nat -> Sam.parse_line o fs = Err.
Proof.
  intros H. unfold Sam.parse_line.
  do 11 (destruct fs as [|? fs]; [reflexivity|]). cbn [length] in H. lia.
Qed.

Lemma parse_line_bad_int o f0 f1 f2 f3 f4 f5 f6 f7 f8 f9 f10 rest :
  atoi f1 = None \/ atoi f3 = None \/ atoi f4 = None \/ atoi f7 = None \/ atoi f8 = None ->
  Sam.parse_line o (f0 :: f1 :: f2 :: f3 :: f4 :: f5 :: f6 :: f7 :: f8 :: f9 :: f10 :: rest) = Err.
Proof.
  intros H. unfold Sam.parse_line, Sam.parse_ints. cbn [length Nat.eqb Sam.parse_ints_loop].
  destruct (atoi f1); [|reflexivity].
  destruct (atoi f3); [|reflexivity].
  destruct (atoi f4); [|reflexivity].
  destruct (atoi f7); [|reflexivity].
  destruct (atoi f8); [|reflexivity].
  exfalso. destruct H as [H|[H|[H|[H|H]]]]; discriminate.
Qed.

Lemma parse_tags_from_bad o : forall tags m bad,
  In bad tags ->
  (Sam.split_tag bad = None \/
   exists name ty v, Sam.split_tag bad = Some (name, ty, v) /\ Sam.parse_tag_value o ty v = None) ->
  Sam.parse_tags_from o m tags = Err.
Proof.
  induction tags as [|t tags IH]; intros m bad Hin Hbad; [destruct Hin|].
  cbn [Sam.parse_tags_from].
  destruct Hin as [->|Hin].
  - destruct Hbad as [E|[name [ty [v [E1 E2]]]]]; [rewrite E; reflexivity|].
    rewrite E1, E2. reflexivity.
  - destruct (Sam.split_tag t) as [[[name ty] v]|]; [|reflexivity].
    destruct (Sam.parse_tag_value o ty v); [|reflexivity].
    eapply IH; eassumption.
Qed.

(* an ill-formed (fewer than two colons) or ill-typed (unknown type letter, or a
   value the type does not admit) tag anywhere among the tags *)
Lemma parse_line_bad_tag o f0 f1 f2 f3 f4 f5 f6 f7 f8 f9 f10 rest bad :
  In bad rest ->
  (Sam.split_tag bad = None \/
   exists name ty v, Sam.split_tag bad = Some (name, ty, v) /\ Sam.parse_tag_value o ty v = None) ->
  Sam.parse_line o (f0 :: f1 :: f2 :: f3 :: f4 :: f5 :: f6 :: f7 :: f8 :: f9 :: f10 :: rest) = Err.
Proof.
  intros Hin Hbad. unfold Sam.parse_line, Sam.parse_ints. cbn [length Nat.eqb Sam.parse_ints_loop].
  destruct (atoi f1); [|reflexivity].
  destruct (atoi f3); [|reflexivity].
  destruct (atoi f4); [|reflexivity].
  destruct (atoi f7); [|reflexivity].
  destruct (atoi f8); [|reflexivity].
  cbn [obind]. unfold Sam.parse_tags. rewrite (parse_tags_from_bad o rest [] bad Hin Hbad). reflexivity.
Qed.

(* ================================================================================================
   FASTQ: accepted records are fixed points                                                       *)
Definition fastq_clean (r : Fastq.fastq) : Prop :=
  clean [LF; CR] (Fastq.name r) /\ clean [LF; CR] (Fastq.seq r) /\ clean [LF; CR] (Fastq.quals r).

Lemma fastq_accepted_lengths x t r :
  In (Rec r) (Fastq.decode x t) -> length (Fastq.quals r) = length (Fastq.seq r).
Proof.
  intros H. destruct (FastqProofsB.decode_shape x t) as [rs [HF [E|[_ E]]]]; rewrite E in H.
  - apply in_rec_map_err in H. rewrite Forall_forall in HF. exact (HF r H).
  - apply in_rec_map in H. rewrite Forall_forall in HF. exact (HF r H).
Qed.

Lemma fastq_fixed_point x t r :
  In (Rec r) (Fastq.decode x t) -> fastq_clean r ->
  Fastq.decode (Fastq.write r) TEOF = [Rec r].
Proof.
  intros Hin [Hn [Hs Hq]].
  assert (Hok : FastqSpec.fq_ok r).
  { repeat split; try assumption. symmetry. eapply fastq_accepted_lengths, Hin. }
  pose proof (FastqProofsB.roundtrip [r] (Forall_cons _ Hok (Forall_nil _))) as R.
  cbn [map concat] in R. rewrite app_nil_r in R. exact R.
Qed.

(* ================================================================================================
   FASTA: accepted names and sequences are free of CR/LF by construction of the
   byte machine; the only hypothesis left is "no '>' in the sequence"                            *)
Definition nonl (l : bytes) : Prop := Forall (fun b => Fasta.is_nl b = false) l.

Lemma rd_loop_nonl : forall inp st nm sq any res o,
  Fasta.rd_loop st nm sq any inp = (res, o) -> nonl nm -> nonl sq ->
  nonl (fst (fst res)) /\ nonl (snd (fst res)).
Proof.
  induction inp as [|b rest IH]; intros st nm sq any res o H Hn Hs; cbn [Fasta.rd_loop] in H.
  - injection H as <- _. split; assumption.
  - destruct st;
      repeat match type of H with context [if ?c then _ else _] => destruct c eqn:? end;
      try (injection H as <- _; split; assumption);
      (eapply IH; [exact H | |]; try assumption; constructor; assumption).
Qed.

Lemma nonl_rev_append l : nonl l -> nonl (rev_append l []).
Proof. intros H. rewrite rev_append_rev, app_nil_r. apply Forall_rev, H. Qed.

Lemma read_one_nonl inp t r rest :
  Fasta.read_one inp t = Fasta.RdRec r rest -> nonl (Fasta.name r) /\ nonl (Fasta.seq r).
Proof.
  unfold Fasta.read_one. intros H.
  destruct (Fasta.rd_loop Fasta.SStart [] [] false inp) as [[[nm sq] any] o] eqn:E.
  pose proof (rd_loop_nonl _ _ _ _ _ _ _ E (Forall_nil _) (Forall_nil _)) as [Hn Hs].
  cbn [fst snd] in Hn, Hs.
  assert (G : nonl (Fasta.name (Fasta.mk_result nm sq)) /\ nonl (Fasta.seq (Fasta.mk_result nm sq))).
  { unfold Fasta.mk_result. cbn [Fasta.name Fasta.seq]. split; apply nonl_rev_append; assumption. }
  destruct o as [rest'|].
  - injection H as <- _. exact G.
  - destruct (negb any); [destruct t; discriminate|].
    destruct t; [|discriminate]. injection H as <- _. exact G.
Qed.

Lemma decode_fuel_nonl : forall f inp t r,
  In (Rec r) (Fasta.decode_fuel f inp t) -> nonl (Fasta.name r) /\ nonl (Fasta.seq r).
Proof.
  induction f as [|f IH]; intros inp t r H; cbn [Fasta.decode_fuel] in H; [destruct H|].
  destruct (Fasta.read_one inp t) as [r0 rest| |] eqn:E.
  - destruct H as [H|H]; [injection H as ->; eapply read_one_nonl, E | eapply IH, H].
  - destruct H.
  - destruct H as [H|[]]. discriminate.
Qed.

Lemma is_nl_false b : Fasta.is_nl b = false -> (b =? CR) = false /\ (b =? LF) = false.
Proof. unfold Fasta.is_nl. intros H. apply orb_false_elim in H. tauto. Qed.

Lemma nonl_clean l : nonl l -> clean [CR; LF] l.
Proof.
  intros H. eapply Forall_impl; [|exact H]. intros b Hb. cbn beta in Hb.
  apply is_nl_false in Hb. destruct Hb as [H1 H2]. unfold memb. cbn [existsb]. rewrite H1, H2. reflexivity.
Qed.

Lemma nonl_clean_gt l : nonl l -> ~ In Fasta.GT l -> clean [CR; LF; Fasta.GT] l.
Proof.
  intros H Hgt. induction H as [|b l Hb Hl IH]; [constructor|].
  constructor.
  - apply is_nl_false in Hb. destruct Hb as [H1 H2]. unfold memb. cbn [existsb]. rewrite H1, H2.
    cbn [orb]. rewrite orb_false_r. apply N.eqb_neq. intros ->. apply Hgt. left. reflexivity.
  - apply IH. intros Hin. apply Hgt. right. exact Hin.
Qed.

Lemma fasta_accepted_ok x t r :
  In (Rec r) (Fasta.decode x t) -> ~ In Fasta.GT (Fasta.seq r) -> FastaSpec.fa_ok r.
Proof.
  intros Hin Hgt. destruct (decode_fuel_nonl _ _ _ _ Hin) as [Hn Hs].
  split; [apply nonl_clean, Hn | apply nonl_clean_gt; assumption].
Qed.

Lemma fasta_fixed_point x t r :
  In (Rec r) (Fasta.decode x t) -> ~ In Fasta.GT (Fasta.seq r) ->
  Fasta.decode (Fasta.write r) TEOF = [Rec r].
Proof.
  intros Hin Hgt.
  pose proof (FastaProofsC.write_read_roundtrip [r]
                (Forall_cons _ (fasta_accepted_ok x t r Hin Hgt) (Forall_nil _))) as R.
  cbn [map concat] in R. rewrite app_nil_r in R. exact R.
Qed.

(* ================================================================================================
   Newick: any accepted tree whose non-zero distances meet strconv's contract; names need no
   hypothesis at all (quoting).  The tree read back is [norm t]: a distance -0 is not written
   and reads back as 0.                                                                           *)
Lemma newick_fixed_point o x t items tr :
  Newick.decode o x t = Ok items -> In (Rec tr) items -> NewickSpec.floats_ok o tr ->
  Newick.decode o (Newick.marshal o tr) TEOF = Ok [Rec (NewickSpec.norm tr)].
Proof. intros _ _ H. apply NewickProofsC.decode_marshal, H. Qed.
