(* Proofs/StreamProofs.v — generic lemmas about failing writers ([limit_write])
   and CR LF line terminators ([crlf]), and the failing-writer facts of the
   five Write methods (C07, second half). *)
From Coq Require Import String.
From Bio Require Import Base.
From Bio.Model Require Fasta Fastq Sam Bed Newick.
From Bio.Model Require Import Stream.
From Bio.Spec Require FastaSpec FastqSpec SamSpec BedSpec NewickSpec.
From Bio.Proofs Require FastaProofs FastqProofs BedProofsC.
Open Scope N_scope.

(* ================================================================== *)
(* limit_write                                                          *)

(* The writer that accepts k bytes: what reaches it is always the first k
   bytes of the whole output; the Write method succeeds iff everything fits. *)
Lemma limit_write_spec cs : forall k,
  snd (limit_write k cs) = firstn k (concat cs)
  /\ ((length (concat cs) <= k)%nat -> fst (limit_write k cs) = Ok tt)
  /\ ((k < length (concat cs))%nat -> fst (limit_write k cs) = Err).
Proof.
  induction cs as [|c r IH]; intro k.
  - cbn [limit_write concat fst snd length]. rewrite firstn_nil.
    split; [reflexivity|]. split; [reflexivity|]. intro H. inversion H.
  - cbn [limit_write concat]. rewrite app_length.
    destruct (Nat.leb_spec (length c) k) as [Hle|Hlt].
    + specialize (IH (k - length c)%nat).
      destruct (limit_write (k - length c) r) as [o out]. cbn [fst snd] in *.
      destruct IH as (E & Hok & Herr). split; [|split].
      * rewrite E, firstn_app, (firstn_all2 c) by lia. reflexivity.
      * intro H. apply Hok. lia.
      * intro H. apply Herr. lia.
    + cbn [fst snd]. split; [|split].
      * rewrite firstn_app. replace (k - length c)%nat with 0%nat by lia.
        rewrite firstn_O, app_nil_r. reflexivity.
      * intro H. lia.
      * reflexivity.
Qed.

Lemma limit_write_emitted k cs : snd (limit_write k cs) = firstn k (concat cs).
Proof. apply limit_write_spec. Qed.

Lemma limit_write_ok k cs : (length (concat cs) <= k)%nat -> fst (limit_write k cs) = Ok tt.
Proof. apply limit_write_spec. Qed.

Lemma limit_write_err k cs : (k < length (concat cs))%nat -> fst (limit_write k cs) = Err.
Proof. apply limit_write_spec. Qed.

(* ================================================================== *)
(* the five Write methods                                               *)

(* FASTA: MarshalText = Write into a buffer (FastaProofs.marshal_total) *)
Lemma fasta_marshal_concat r m : Fasta.marshal_text r = Ok m -> m = concat (Fasta.write_calls r).
Proof. rewrite FastaProofs.marshal_total. intro H. injection H as <-. reflexivity. Qed.

Lemma write_fault_fasta k r m : Fasta.marshal_text r = Ok m ->
  (k < length m)%nat -> fst (write_to_fasta k r) = Err.
Proof. intros H Hk. apply fasta_marshal_concat in H. subst m. now apply limit_write_err. Qed.

Lemma write_ok_fasta k r m : Fasta.marshal_text r = Ok m ->
  (length m <= k)%nat -> fst (write_to_fasta k r) = Ok tt.
Proof. intros H Hk. apply fasta_marshal_concat in H. subst m. now apply limit_write_ok. Qed.

Lemma write_emitted_fasta k r m : Fasta.marshal_text r = Ok m ->
  snd (write_to_fasta k r) = firstn k m.
Proof. intros H. apply fasta_marshal_concat in H. subst m. apply limit_write_emitted. Qed.

(* FASTQ *)
Lemma fastq_marshal_concat r m : Fastq.marshal_text r = Ok m -> m = concat (Fastq.write_calls r).
Proof.
  rewrite FastqProofs.marshal_total. intro H. injection H as <-.
  symmetry. apply FastqProofs.write_calls_single.
Qed.

Lemma write_fault_fastq k r m : Fastq.marshal_text r = Ok m ->
  (k < length m)%nat -> fst (write_to_fastq k r) = Err.
Proof. intros H Hk. apply fastq_marshal_concat in H. subst m. now apply limit_write_err. Qed.

Lemma write_ok_fastq k r m : Fastq.marshal_text r = Ok m ->
  (length m <= k)%nat -> fst (write_to_fastq k r) = Ok tt.
Proof. intros H Hk. apply fastq_marshal_concat in H. subst m. now apply limit_write_ok. Qed.

Lemma write_emitted_fastq k r m : Fastq.marshal_text r = Ok m ->
  snd (write_to_fastq k r) = firstn k m.
Proof. intros H. apply fastq_marshal_concat in H. subst m. apply limit_write_emitted. Qed.

(* SAM: marshal_text o r = Ok (concat (write_calls o r)) by definition *)
Lemma sam_marshal_concat o r m : Sam.marshal_text o r = Ok m -> m = concat (Sam.write_calls o r).
Proof. unfold Sam.marshal_text, Sam.write. intro H. injection H as <-. reflexivity. Qed.

Lemma write_fault_sam o k r m : Sam.marshal_text o r = Ok m ->
  (k < length m)%nat -> fst (write_to_sam o k r) = Err.
Proof. intros H Hk. apply sam_marshal_concat in H. subst m. now apply limit_write_err. Qed.

Lemma write_ok_sam o k r m : Sam.marshal_text o r = Ok m ->
  (length m <= k)%nat -> fst (write_to_sam o k r) = Ok tt.
Proof. intros H Hk. apply sam_marshal_concat in H. subst m. now apply limit_write_ok. Qed.

Lemma write_emitted_sam o k r m : Sam.marshal_text o r = Ok m ->
  snd (write_to_sam o k r) = firstn k m.
Proof. intros H. apply sam_marshal_concat in H. subst m. apply limit_write_emitted. Qed.

(* BED: [Bed.write] is MarshalText; it fails exactly for N outside 3..12 *)
Lemma bed_marshal_concat b m : Bed.write b = Ok m ->
  exists cs, Bed.write_calls b = Ok cs /\ m = concat cs.
Proof.
  unfold Bed.write. destruct (Bed.write_calls b) as [cs| |]; intro H; try discriminate.
  injection H as <-. now exists cs.
Qed.

Lemma write_fault_bed k b m : Bed.write b = Ok m ->
  (k < length m)%nat -> fst (write_to_bed k b) = Err.
Proof.
  intros H Hk. apply bed_marshal_concat in H as [cs [E ->]].
  unfold write_to_bed. rewrite E. now apply limit_write_err.
Qed.

Lemma write_ok_bed k b m : Bed.write b = Ok m ->
  (length m <= k)%nat -> fst (write_to_bed k b) = Ok tt.
Proof.
  intros H Hk. apply bed_marshal_concat in H as [cs [E ->]].
  unfold write_to_bed. rewrite E. now apply limit_write_ok.
Qed.

Lemma write_emitted_bed k b m : Bed.write b = Ok m ->
  snd (write_to_bed k b) = firstn k m.
Proof.
  intros H. apply bed_marshal_concat in H as [cs [E ->]].
  unfold write_to_bed. rewrite E. apply limit_write_emitted.
Qed.

Lemma write_in_range_bed b : (3 <= Bed.b_n b <= 12)%Z -> exists m, Bed.write b = Ok m.
Proof.
  intro H. destruct (BedProofsC.write_accepts b H) as [cs [_ E]]. now exists (concat cs).
Qed.

Lemma write_refused_bed k b : (Bed.b_n b < 3 \/ Bed.b_n b > 12)%Z ->
  write_to_bed k b = (Err, []).
Proof.
  intro H. destruct (BedProofsC.write_refuses b H) as [E _].
  unfold write_to_bed. now rewrite E.
Qed.

(* Newick: Write hands MarshalText's bytes to the writer in one call *)
Lemma newick_chunks_concat o t : concat (Newick.write_chunks o t) = Newick.marshal o t.
Proof. unfold Newick.write_chunks. cbn [concat]. apply app_nil_r. Qed.

Lemma write_fault_newick o k t :
  (k < length (Newick.marshal o t))%nat -> fst (write_to_newick o k t) = Err.
Proof. intro Hk. apply limit_write_err. now rewrite newick_chunks_concat. Qed.

Lemma write_ok_newick o k t :
  (length (Newick.marshal o t) <= k)%nat -> fst (write_to_newick o k t) = Ok tt.
Proof. intro Hk. apply limit_write_ok. now rewrite newick_chunks_concat. Qed.

Lemma write_emitted_newick o k t :
  snd (write_to_newick o k t) = firstn k (Newick.marshal o t).
Proof. unfold write_to_newick. now rewrite limit_write_emitted, newick_chunks_concat. Qed.

(* ================================================================== *)
(* crlf                                                                 *)

Lemma crlf_app a b : crlf (a ++ b) = crlf a ++ crlf b.
Proof.
  induction a as [|c a IH]; [reflexivity|].
  cbn [app crlf]. rewrite IH. destruct (c =? LF); reflexivity.
Qed.

Lemma crlf_concat l : crlf (concat l) = concat (map crlf l).
Proof.
  induction l as [|x l IH]; [reflexivity|]. cbn [concat map]. now rewrite crlf_app, IH.
Qed.

Lemma crlf_nolf s : ~ In LF s -> crlf s = s.
Proof.
  induction s as [|c s IH]; intro H; [reflexivity|].
  cbn [crlf]. destruct (N.eqb_spec c LF) as [->|_].
  - exfalso. apply H. now left.
  - rewrite IH; [reflexivity|]. intro Hin. apply H. now right.
Qed.

Lemma crlf_lf : crlf [LF] = [CR; LF].
Proof. reflexivity. Qed.

(* the pieces between LFs: every piece but the last gets a CR appended *)
Fixpoint add_cr (ps : list bytes) : list bytes :=
  match ps with
  | [] => []
  | [p] => [p]
  | p :: r => (p ++ [CR]) :: add_cr r
  end.

Lemma add_cr_cons p q r : add_cr (p :: q :: r) = (p ++ [CR]) :: add_cr (q :: r).
Proof. reflexivity. Qed.

Lemma add_cr_nonnil ps : ps <> [] -> add_cr ps <> [].
Proof. destruct ps as [|p [|q r]]; intro H; [congruence | discriminate | discriminate]. Qed.

Lemma split_on_nonnil' sep s : split_on sep s <> [].
Proof.
  induction s as [|c r IH]; cbn [split_on]; [discriminate|].
  destruct (c =? sep); [discriminate|]. destruct (split_on sep r); [contradiction | discriminate].
Qed.

Lemma split_crlf s : split_on LF (crlf s) = add_cr (split_on LF s).
Proof.
  induction s as [|c r IH]; [reflexivity|].
  cbn [crlf]. destruct (N.eqb_spec c LF) as [->|Hne].
  - (* LF: CR LF crlf r *)
    change (split_on LF (CR :: LF :: crlf r)) with
      (match split_on LF (LF :: crlf r) with [] => [[CR]] | f :: fs => (CR :: f) :: fs end).
    change (split_on LF (LF :: crlf r)) with ([] :: split_on LF (crlf r)).
    change (split_on LF (LF :: r)) with ([] :: split_on LF r).
    rewrite IH.
    destruct (split_on LF r) as [|q rest] eqn:E; [exfalso; exact (split_on_nonnil' LF r E)|].
    rewrite add_cr_cons. reflexivity.
  - cbn [split_on]. apply N.eqb_neq in Hne. rewrite Hne, IH.
    destruct (split_on LF r) as [|q rest] eqn:E; [exfalso; exact (split_on_nonnil' LF r E)|].
    destruct rest as [|q' rest'].
    + reflexivity.
    + rewrite !add_cr_cons. reflexivity.
Qed.

Lemma removelast_add_cr ps : removelast (add_cr ps) = map (fun l => l ++ [CR]) (removelast ps).
Proof.
  induction ps as [|p r IH]; [reflexivity|].
  destruct r as [|q r']; [reflexivity|].
  rewrite add_cr_cons.
  change (removelast (p :: q :: r')) with (p :: removelast (q :: r')).
  cbn [map]. rewrite <- IH.
  destruct (add_cr (q :: r')) as [|x y] eqn:E.
  - exfalso. revert E. apply add_cr_nonnil. discriminate.
  - reflexivity.
Qed.

Lemma last_add_cr ps : last (add_cr ps) [] = last ps [].
Proof.
  induction ps as [|p r IH]; [reflexivity|].
  destruct r as [|q r']; [reflexivity|].
  rewrite add_cr_cons.
  change (last (p :: q :: r') []) with (last (q :: r') []). rewrite <- IH.
  destruct (add_cr (q :: r')) as [|x y] eqn:E.
  - exfalso. revert E. apply add_cr_nonnil. discriminate.
  - reflexivity.
Qed.

(* ReadString('\n') on the CRLF text: the same lines, each with a trailing CR;
   the unterminated tail is unchanged *)
Lemma rs_lines_crlf s :
  rs_lines (crlf s) = (map (fun l => l ++ [CR]) (fst (rs_lines s)), snd (rs_lines s)).
Proof.
  unfold rs_lines. cbn [fst snd]. now rewrite split_crlf, removelast_add_cr, last_add_cr.
Qed.

Lemma drop_cr_snoc s : drop_cr (s ++ [CR]) = s.
Proof.
  induction s as [|c r IH]; [reflexivity|].
  destruct r as [|c' r'].
  - reflexivity.
  - change (drop_cr ((c :: c' :: r') ++ [CR])) with (c :: drop_cr ((c' :: r') ++ [CR])).
    now rewrite IH.
Qed.

Lemma drop_cr_nocr s : ~ In CR s -> drop_cr s = s.
Proof.
  induction s as [|c r IH]; intro H; [reflexivity|].
  destruct r as [|c' r'].
  - cbn [drop_cr]. destruct (N.eqb_spec c 13) as [->|_]; [|reflexivity].
    exfalso. apply H. now left.
  - change (drop_cr (c :: c' :: r')) with (c :: drop_cr (c' :: r')).
    rewrite IH; [reflexivity|]. intro Hin. apply H. now right.
Qed.

(* bytes of a piece are bytes of the text *)
Lemma split_on_in sep x : forall s p, In p (split_on sep s) -> In x p -> In x s.
Proof.
  induction s as [|c r IH]; intros p Hp Hx.
  - cbn in Hp. destruct Hp as [<-|[]]. exact Hx.
  - cbn [split_on] in Hp. destruct (c =? sep).
    + destruct Hp as [<-|Hp]; [destruct Hx|]. right. exact (IH p Hp Hx).
    + destruct (split_on sep r) as [|f fs] eqn:E.
      * destruct Hp as [<-|[]]. destruct Hx as [<-|[]]. now left.
      * destruct Hp as [<-|Hp].
        -- destruct Hx as [<-|Hx]; [now left|]. right. apply (IH f); [now left | exact Hx].
        -- right. apply (IH p); [now right | exact Hx].
Qed.

Lemma pieces_nocr s : ~ In CR s -> Forall (fun p => ~ In CR p) (split_on LF s).
Proof.
  intro H. apply Forall_forall. intros p Hp Hx. apply H. exact (split_on_in LF CR s p Hp Hx).
Qed.

Lemma lines_tail_add_cr ps : Forall (fun p => ~ In CR p) ps ->
  map drop_cr (lines_tail (add_cr ps)) = map drop_cr (lines_tail ps).
Proof.
  induction 1 as [|p r Hp Hr IH]; [reflexivity|].
  destruct r as [|q r']; [reflexivity|].
  rewrite add_cr_cons.
  assert (E1 : lines_tail (p :: q :: r') = p :: lines_tail (q :: r')) by reflexivity.
  assert (E2 : forall a l, l <> [] -> lines_tail (a :: l) = a :: lines_tail l).
  { intros a [|b l] Hl; [congruence | reflexivity]. }
  rewrite E1, E2 by (apply add_cr_nonnil; discriminate).
  cbn [map]. rewrite drop_cr_snoc, (drop_cr_nocr p Hp). f_equal. exact IH.
Qed.

(* bufio.Scanner + ScanLines: a text without CR gives the same tokens with
   LF or CR LF line terminators *)
Lemma scan_tokens_crlf s : ~ In CR s -> scan_tokens (crlf s) = scan_tokens s.
Proof.
  intro H. unfold scan_tokens. rewrite split_crlf. apply lines_tail_add_cr. now apply pieces_nocr.
Qed.

Lemma rs_lines_nocr s : ~ In CR s ->
  Forall (fun p => ~ In CR p) (fst (rs_lines s)) /\ ~ In CR (snd (rs_lines s)).
Proof.
  intro H. unfold rs_lines. cbn [fst snd]. pose proof (pieces_nocr s H) as HF.
  pose proof (split_on_nonnil' LF s) as Hnn.
  destruct (@exists_last _ (split_on LF s) Hnn) as [ini [lst E]]. rewrite E in *.
  rewrite removelast_last, last_last. apply Forall_app in HF as [A B]. split; [exact A|].
  now inversion B.
Qed.

(* not_in / app / concat helpers used by the format files *)
Lemma not_in_app {A} (x : A) a b : ~ In x a -> ~ In x b -> ~ In x (a ++ b).
Proof. intros Ha Hb Hin. apply in_app_or in Hin as [H|H]; auto. Qed.

Lemma not_in_concat {A} (x : A) l : Forall (fun s => ~ In x s) l -> ~ In x (concat l).
Proof.
  induction 1 as [|s l Hs _ IH]; [intros []|]. cbn [concat]. now apply not_in_app.
Qed.

Lemma clean_not_in bad s x : clean bad s -> In x bad -> ~ In x s.
Proof.
  intros H Hx Hin. unfold clean in H. rewrite Forall_forall in H. specialize (H x Hin).
  unfold memb in H.
  assert (T : existsb (N.eqb x) bad = true) by (apply existsb_exists; exists x; split; [exact Hx | apply N.eqb_refl]).
  congruence.
Qed.
