(* Proofs/StreamProofs.v *)
From Bio Require Import Base.
