(* Proofs/ImpProofsQ.v — translated source vs hand-written model, part 17: the SAM readers
   (iter.go): ReaderHeader (ReadString('\n'), the two TrimSuffix calls, empty lines, header lines,
   strings.Split + parseLine, the last unterminated line, a read error) and Reader (the filter over
   ReaderHeader's items: errors passed on, header entries dropped by the nil test on sh.S).
   A *SAM / *string that may be nil is an option here. *)
From Coq Require Import ZifyBool ZifyNat ZifyN.
From Bio Require Import Base.
From Bio.gen Require Import ImpGen.
From Bio.Model Require Import GoSem GoLib.
From Bio.Model Require Sam.
From Bio.Proofs Require Import ImpProofs ImpProofsB ImpProofsE ImpProofsG ImpProofsL ImpProofsN.
From Bio.Proofs Require ImpProofsJ BaseProofs.
Open Scope Z_scope.

Definition sh_item (i : item Sam.entry) : imp_samrd_SAMOrHeader * Z :=
  match i with
  | Rec (Sam.Hdr h) => (Imp_samrd_SAMOrHeader (Some h) None, 0)
  | Rec (Sam.Aln r) => (Imp_samrd_SAMOrHeader None (Some (sam_of r)), 0)
  | ErrItem => (Imp_samrd_SAMOrHeader None None, 2)
  end.

Definition sr_item (i : item Sam.sam) : option imp_sam_SAM * Z :=
  match i with
  | Rec r => (Some (sam_of r), 0)
  | ErrItem => (None, 2)
  end.

Definition rh_state : Type := (list (imp_samrd_SAMOrHeader * Z) * go_stream)%type.
Definition rh_result : Type := (go_stream * list (imp_samrd_SAMOrHeader * Z))%type.

Definition rh_body (o : foracle) : rh_state -> res rh_state rh_result :=
  (fun '((out__, rd__) : (_ * go_stream)) => let '(t__1, t__2, rd__) := go_readstring rd__ 10%N in let text := t__1 in let err := t__2 in (if (andb (negb (Z.eqb err 0%Z)) (negb (Z.eqb err 1%Z))) then (let out__ := out__ ++ [((Imp_samrd_SAMOrHeader None None), err)] in let t__3 := true in Ret (rd__, out__)) else let last := (Z.eqb err 1%Z) in let text := (go_trim_suffix text [10%N]) in let text := (go_trim_suffix text [13%N]) in (if (beqb text (@nil N)) then (if last then Ret (rd__, out__) else Next (out__, rd__)) else (if (go_has_prefix text [64%N]) then let h := text in (let out__ := out__ ++ [((Imp_samrd_SAMOrHeader (Some h) None), 0%Z)] in let t__4 := true in (if (negb t__4) then Ret (rd__, out__) else (if last then Ret (rd__, out__) else Next (out__, rd__)))) else go_call (imp_sam_parseLine o (split_on 9%N text)) (fun '(t__5, t__6) => let s := t__5 in let err_2 := (if t__6 then 2%Z else 0%Z) in (let out__ := out__ ++ [((Imp_samrd_SAMOrHeader None s), err_2)] in let t__7 := true in (if (negb t__7) then Ret (rd__, out__) else (if last then Ret (rd__, out__) else Next (out__, rd__))))))))).

Lemma rh_unfold fuel o rd :
  imp_samrd_ReaderHeader fuel o rd =
  after (go_while fuel (fun _ => Ret true) (rh_body o) ([], rd)) (fun '(out__, rd__) => Ret (rd__, out__)).
Proof. reflexivity. Qed.

(* what follows the two TrimSuffix calls *)
Definition rh_rest (o : foracle) (out__ : list (imp_samrd_SAMOrHeader * Z)) (rd__ : go_stream)
           (last : bool) (text : list N) : res rh_state rh_result :=
  (if (beqb text (@nil N)) then (if last then Ret (rd__, out__) else Next (out__, rd__)) else (if (go_has_prefix text [64%N]) then let h := text in (let out__ := out__ ++ [((Imp_samrd_SAMOrHeader (Some h) None), 0%Z)] in let t__4 := true in (if (negb t__4) then Ret (rd__, out__) else (if last then Ret (rd__, out__) else Next (out__, rd__)))) else go_call (imp_sam_parseLine o (split_on 9%N text)) (fun '(t__5, t__6) => let s := t__5 in let err_2 := (if t__6 then 2%Z else 0%Z) in (let out__ := out__ ++ [((Imp_samrd_SAMOrHeader None s), err_2)] in let t__7 := true in (if (negb t__7) then Ret (rd__, out__) else (if last then Ret (rd__, out__) else Next (out__, rd__))))))).

Lemma has_prefix_single d c text : go_has_prefix (c :: text) [d] = N.eqb d c.
Proof. cbn. destruct text; apply andb_true_r. Qed.

Lemma rh_rest_spec o out rd last raw :
  rh_rest o out rd last (drop_cr raw)
  = if last then Ret (rd, out ++ map sh_item (Sam.process_line o raw))
    else Next (out ++ map sh_item (Sam.process_line o raw), rd).
Proof.
  unfold rh_rest, Sam.process_line. cbv zeta. unfold bytes, byte in *.
  destruct (drop_cr raw) as [|c text] eqn:E.
  - cbn [beqb map]. rewrite app_nil_r. reflexivity.
  - cbn [beqb]. rewrite has_prefix_single, N.eqb_sym.
    destruct (N.eqb c 64).
    + cbn [negb map sh_item]. reflexivity.
    + rewrite imp_parseLine. unfold TAB.
      destruct (Sam.parse_line o (split_on 9%N (c :: text))); cbn [go_call negb map sh_item]; reflexivity.
Qed.

Lemma rh_body_line o out l rest tc : ~ In 10%N l ->
  rh_body o (out, Stream (l ++ 10%N :: rest) tc None)
  = Next (out ++ map sh_item (Sam.process_line o l), Stream rest tc None).
Proof.
  intros Hn. unfold rh_body, go_readstring. cbn [st_rest st_term].
  rewrite (take_line_complete l rest Hn). cbv zeta. cbn [Z.eqb negb andb].
  rewrite trim_lf, trim_cr.
  change (if beqb (drop_cr l) [] then _ else _) with (rh_rest o out (Stream rest tc None) false (drop_cr l)).
  apply rh_rest_spec.
Qed.

Lemma rh_body_tail o out tail (t : term) : ~ In 10%N tail ->
  rh_body o (out, Stream tail (ImpProofsJ.term_code t) None)
  = match t with
    | TErr => Ret (Stream [] 2 None, out ++ [sh_item ErrItem])
    | TEOF => Ret (Stream [] 1 None, out ++ map sh_item (Sam.process_line o tail))
    end.
Proof.
  intros Hn. unfold rh_body, go_readstring. cbn [st_rest st_term].
  rewrite (take_line_tail tail Hn). cbv zeta. destruct t; cbn [ImpProofsJ.term_code Z.eqb Pos.eqb negb andb].
  - rewrite (trim_lf_none tail Hn), trim_cr.
    change (if beqb (drop_cr tail) [] then _ else _) with (rh_rest o out (Stream [] 1 None) true (drop_cr tail)).
    apply rh_rest_spec.
  - reflexivity.
Qed.

Lemma reader_header_cons o l rest t : ~ In 10%N l ->
  Sam.reader_header o (l ++ 10%N :: rest) t = Sam.process_line o l ++ Sam.reader_header o rest t.
Proof.
  intros Hn. unfold Sam.reader_header. rewrite (rs_lines_cons l rest Hn).
  destruct (rs_lines rest) as [ls tail]. cbn [fst snd flat_map]. rewrite app_assoc. reflexivity.
Qed.

Lemma reader_header_tail o tail t : ~ In 10%N tail ->
  Sam.reader_header o tail t = match t with TEOF => Sam.process_line o tail | TErr => [ErrItem] end.
Proof. intros Hn. unfold Sam.reader_header. rewrite (rs_lines_clean tail Hn). reflexivity. Qed.

Section SamReader.
Variable o : foracle.
Variable t : term.
Notation tc := (ImpProofsJ.term_code t).

Lemma rh_loop : forall m s out fw, (length s <= m)%nat -> (m + 1 < fw)%nat ->
  exists st, go_while fw (fun _ => Ret true) (rh_body o) (out, Stream s tc None)
             = Ret (st, out ++ map sh_item (Sam.reader_header o s t)).
Proof.
  induction m as [|m IH]; intros s out fw Hm Hw; (destruct fw as [|fw]; [lia|]); cbn [go_while];
    destruct (take_line 10 s) as [l' [rest|]] eqn:E.
  - destruct (take_line_some _ _ _ E) as (l & -> & -> & Hn). rewrite app_length in Hm. cbn [length] in Hm. lia.
  - destruct (take_line_none _ _ E) as (-> & Hn). rewrite (rh_body_tail o out l' t Hn), (reader_header_tail o l' t Hn).
    destruct t; eexists; reflexivity.
  - destruct (take_line_some _ _ _ E) as (l & -> & -> & Hn).
    rewrite (rh_body_line o out l rest tc Hn), (reader_header_cons o l rest t Hn).
    destruct (IH rest (out ++ map sh_item (Sam.process_line o l)) fw) as (st & Hst).
    { rewrite app_length in Hm. cbn [length] in Hm. lia. } { lia. }
    rewrite Hst. exists st. rewrite map_app, app_assoc. reflexivity.
  - destruct (take_line_none _ _ E) as (-> & Hn). rewrite (rh_body_tail o out l' t Hn), (reader_header_tail o l' t Hn).
    destruct t; eexists; reflexivity.
Qed.

Theorem imp_sam_ReaderHeader_ok fuel s : (length s + 1 < fuel)%nat ->
  exists st, imp_samrd_ReaderHeader fuel o (Stream s tc None)
             = Ret (st, map sh_item (Sam.reader_header o s t)).
Proof.
  intros Hf. rewrite rh_unfold.
  destruct (rh_loop (length s) s [] fuel (le_n _) Hf) as (st & Hst). rewrite Hst. exists st. reflexivity.
Qed.

(* ---- Reader: the filter ---------------------------------------------------------------------------- *)
Definition rf_body : imp_samrd_SAMOrHeader * Z -> list (option imp_sam_SAM * Z) * go_stream
                     -> res (list (option imp_sam_SAM * Z) * go_stream) (go_stream * list (option imp_sam_SAM * Z)) :=
  fun x => (((fun _ '(sh, err) '(out__, rd__) => (if (negb (Z.eqb err 0%Z)) then (let out__ := out__ ++ [(None, err)] in let t__2 := true in (if (negb t__2) then Brk (out__, rd__) else Next (out__, rd__))) else (if (match (imp_samrd_SAMOrHeader_S sh) with None => true | Some _ => false end) then Next (out__, rd__) else (let out__ := out__ ++ [((imp_samrd_SAMOrHeader_S sh), 0%Z)] in let t__3 := true in (if (negb t__3) then Brk (out__, rd__) else Next (out__, rd__))))))) 0 x).

Lemma rf_loop : forall (l : list (item Sam.entry)) out rd,
  go_iter rf_body (map sh_item l) (out, rd) = Next (out ++ map sr_item (flat_map Sam.reader_filter l), rd).
Proof.
  induction l as [|i l IH]; intros out rd; cbn [map flat_map go_iter].
  - rewrite app_nil_r. reflexivity.
  - destruct i as [[h|r]|]; cbn [sh_item rf_body Sam.reader_filter app map sr_item]; unfold rf_body at 1;
      cbn [Z.eqb negb imp_samrd_SAMOrHeader_S]; rewrite IH.
    + reflexivity.
    + rewrite <- app_assoc. reflexivity.
    + rewrite <- app_assoc. reflexivity.
Qed.

Theorem imp_sam_Reader_ok fuel s : (length s + 1 < fuel)%nat ->
  exists st, imp_samrd_Reader fuel o (Stream s tc None) = Ret (st, map sr_item (Sam.reader o s t)).
Proof.
  intros Hf. unfold imp_samrd_Reader. cbv zeta.
  destruct (imp_sam_ReaderHeader_ok fuel s Hf) as (st & Hst). rewrite Hst. cbn [go_call].
  change (go_range (map sh_item (Sam.reader_header o s t)) _ ([], st))
    with (go_range (map sh_item (Sam.reader_header o s t)) (fun _ x s => rf_body x s) ([], st)).
  rewrite go_range_elems, rf_loop. cbn [after app]. exists st. reflexivity.
Qed.

End SamReader.
