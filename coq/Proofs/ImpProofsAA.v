(* Proofs/ImpProofsAA.v — translated source, part 27: Step.String (align/align.go), the display
   text of the steps Global and Local return.  Total on the three step values, a run-time panic
   on anything else (the zero value included), one distinct word per step. *)
From Coq Require Import String.
From Bio Require Import Base.
From Bio.gen Require Import ImpGen.
From Bio.Model Require Import GoSem.
From Bio.Model Require Import Align.
From Bio.Proofs Require Import ImpProofsD.
Import GoSem.
Local Open Scope string_scope.

Definition step_word (s : step) : option bytes :=
  match s with
  | SNone => None
  | SMatch => Some (bs "match")
  | SDel => Some (bs "deletion")
  | SIns => Some (bs "insertion")
  end.

Lemma imp_Step_String_ok : forall s,
  imp_align_Step_String (step_n s) = match step_word s with Some w => Ret w | None => Panics end.
Proof. intros [| | |]; vm_compute; reflexivity. Qed.

(* any byte that is not one of the three constants panics *)
Lemma imp_Step_String_other : forall n : N,
  n <> 1%N -> n <> 2%N -> n <> 3%N -> imp_align_Step_String n = (Panics : res unit bytes).
Proof.
  intros n H1 H2 H3. unfold imp_align_Step_String.
  destruct (N.eqb_spec n 1); [contradiction|].
  destruct (N.eqb_spec n 2); [contradiction|].
  destruct (N.eqb_spec n 3); [contradiction|]. reflexivity.
Qed.

Lemma step_word_inj : forall s t w, step_word s = Some w -> step_word t = Some w -> s = t.
Proof. intros [| | |] [| | |] w Hs Ht; cbn in *; try discriminate; try reflexivity;
  rewrite <- Hs in Ht; vm_compute in Ht; discriminate. Qed.

(* the steps of any alignment Global / Local return print without a panic, and the printed words
   determine the alignment *)
Lemma steps_print : forall al, ~ In SNone al ->
  exists ws, map (fun s => imp_align_Step_String (step_n s)) al = map (fun w => Ret w) ws
    /\ map step_word al = map Some ws.
Proof.
  induction al as [|s al IH]; intros Hn; [exists []; split; reflexivity|].
  destruct IH as [ws [H1 H2]]; [intros H; apply Hn; right; exact H|].
  destruct s; [exfalso; apply Hn; left; reflexivity| | |];
    eexists (_ :: ws); cbn [map]; rewrite imp_Step_String_ok, H1, H2; cbn [step_word]; split; reflexivity.
Qed.

Lemma words_determine_steps : forall al al', map step_word al = map step_word al' ->
  ~ In SNone al -> al = al'.
Proof.
  induction al as [|s al IH]; intros [|t al'] H Hn; try discriminate; [reflexivity|].
  cbn [map] in H. injection H as Hw Hr.
  f_equal; [|apply IH; [exact Hr | intros Hi; apply Hn; right; exact Hi]].
  destruct (step_word s) as [w|] eqn:Es.
  - eapply step_word_inj; [exact Es | symmetry; exact Hw].
  - destruct s; try discriminate. exfalso; apply Hn; left; reflexivity.
Qed.
