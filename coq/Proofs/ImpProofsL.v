(* Proofs/ImpProofsL.v — translated source vs hand-written model, part 12: the BED reader
   (bed.go, reader.read): ReadString('\n'), the two TrimSuffix calls, blank and comment lines,
   the field-count rule kept in reader.n, parseLine.  One call of read() on a stream whose
   next line is complete, and on the unterminated last piece, against the model's per-line
   function do_line (from which Model/Bed.v builds the iterator dec_lines). *)
From Coq Require Import ZifyBool ZifyNat ZifyN.
From Bio Require Import Base.
From Bio.gen Require Import ImpGen.
From Bio.Model Require Import GoSem GoLib.
From Bio.Model Require Bed.
From Bio.Proofs Require Import ImpProofs ImpProofsB ImpProofsE ImpProofsG ImpProofsH.
From Bio.Proofs Require ImpProofsJ.
Open Scope Z_scope.

Definition rdr (n : nat) : imp_bed_reader := Imp_bed_reader (Z.of_nat n).

(* ---- ReadString and TrimSuffix on a line --------------------------------------------------- *)
Lemma take_line_complete l rest : ~ In 10%N l ->
  take_line 10 (l ++ 10%N :: rest) = (l ++ [10%N], Some rest).
Proof.
  induction l as [|c l IH]; intros H; cbn [app take_line].
  - reflexivity.
  - destruct (N.eqb_spec c 10) as [->|_]; [exfalso; apply H; left; reflexivity|].
    rewrite IH by (intros Hi; apply H; right; exact Hi). reflexivity.
Qed.

Lemma take_line_tail l : ~ In 10%N l -> take_line 10 l = (l, None).
Proof.
  induction l as [|c l IH]; intros H; cbn [take_line]; [reflexivity|].
  destruct (N.eqb_spec c 10) as [->|_]; [exfalso; apply H; left; reflexivity|].
  rewrite IH by (intros Hi; apply H; right; exact Hi). reflexivity.
Qed.

Lemma is_prefix_single c s : is_prefix [c] s = match s with x :: _ => N.eqb c x | [] => false end.
Proof. destruct s; cbn [is_prefix]; [reflexivity|]. apply andb_true_r. Qed.

Lemma trim_lf l : go_trim_suffix (l ++ [10%N]) [10%N] = l.
Proof.
  unfold go_trim_suffix. rewrite rev_app_distr. cbn [rev app is_prefix N.eqb Pos.eqb andb length skipn].
  apply rev_involutive.
Qed.

Lemma trim_lf_none l : ~ In 10%N l -> go_trim_suffix l [10%N] = l.
Proof.
  intros H. unfold go_trim_suffix. cbn [rev app]. rewrite is_prefix_single.
  destruct (rev l) as [|x r] eqn:E; [reflexivity|].
  destruct (N.eqb_spec 10 x) as [<-|_]; [|reflexivity].
  exfalso. apply H. apply in_rev. rewrite E. left. reflexivity.
Qed.

Lemma trim_cr l : go_trim_suffix l [13%N] = drop_cr l.
Proof.
  unfold go_trim_suffix. cbn [rev app length]. rewrite is_prefix_single.
  induction l as [|c l IH]; [reflexivity|].
  destruct l as [|d l'].
  - cbn [rev app drop_cr skipn]. rewrite N.eqb_sym. destruct (c =? 13)%N; reflexivity.
  - change (drop_cr (c :: d :: l')) with (c :: drop_cr (d :: l')). rewrite <- IH. clear IH.
    cbn [rev]. destruct (rev l' ++ [d]) as [|x r] eqn:E; [destruct (rev l'); discriminate|].
    cbn [app]. destruct (13 =? x)%N; [|reflexivity].
    cbn [skipn]. rewrite rev_app_distr. reflexivity.
Qed.

(* ---- the loop body, as generated, in two parts ------------------------------------------------ *)
Definition br_result : Type := (go_stream * imp_bed_reader * (imp_bed_BED * Z))%type.

Definition br_rest (r : imp_bed_reader) (rd__ : go_stream) (err_2 : Z) (text : list N)
  : res (imp_bed_reader * go_stream) br_result :=
  go_orelse (beqb text []) (fun t__5 => go_index text (0)%Z (fun t__3 => t__5 (N.eqb t__3 35%N))) (fun t__4 => (if t__4 then after (if (Z.eqb err_2 1%Z) then Ret (rd__, r, ((Imp_bed_BED 0%Z [] 0%Z 0%Z [] 0%Z [] 0%Z 0%Z (repeat 0%N 3) 0%Z [] []), 1%Z)) else Next tt) (fun 'tt => Next (r, rd__)) else let line := (split_on 9%N text) in after (if (Z.eqb (imp_bed_reader_n r) (0)%Z) then let r := (imp_bed_reader_with_n r (go_len line)) in Next r else Next r) (fun r => after (if (negb (Z.eqb (go_len line) (imp_bed_reader_n r))) then Ret (rd__, r, ((Imp_bed_BED 0%Z [] 0%Z 0%Z [] 0%Z [] 0%Z 0%Z (repeat 0%N 3) 0%Z [] []), 2%Z)) else Next tt) (fun 'tt => go_call (imp_bed_parseLine line) (fun t__6 => Ret (rd__, r, (t__6))))))).

Definition br_body : imp_bed_reader * go_stream -> res (imp_bed_reader * go_stream) br_result :=
  (fun '(r, rd__) => let '(t__1, t__2, rd__) := go_readstring rd__ 10%N in let text := t__1 in let err_2 := t__2 in after (if (andb (negb (Z.eqb err_2 0%Z)) (negb (Z.eqb err_2 1%Z))) then Ret (rd__, r, ((Imp_bed_BED 0%Z [] 0%Z 0%Z [] 0%Z [] 0%Z 0%Z (repeat 0%N 3) 0%Z [] []), err_2)) else Next tt) (fun 'tt => let text := (go_trim_suffix text [10%N]) in let text := (go_trim_suffix text [13%N]) in br_rest r rd__ err_2 text)).

(* the field count after this line: reader.n is set by the first data line *)
Definition next_n (n : nat) (text : bytes) : nat :=
  if (n =? 0)%nat then length (split_on TAB text) else n.

Lemma br_rest_spec n rd e raw :
  br_rest (rdr n) rd e (drop_cr raw)
  = match Bed.do_line n raw with
    | Bed.Skip => if e =? 1 then Ret (rd, rdr n, (zero_bed, 1)) else Next (rdr n, rd)
    | Bed.StopErr => Ret (rd, rdr (next_n n (drop_cr raw)), (zero_bed, 2))
    | Bed.Yield b n' => Ret (rd, rdr n', (bed_of b, 0))
    end.
Proof.
  unfold br_rest, Bed.do_line, go_orelse. cbv zeta.
  change (Imp_bed_BED 0 [] 0 0 [] 0 [] 0 0 (repeat 0%N 3) 0 [] []) with zero_bed.
  destruct (drop_cr raw) as [|c text'] eqn:Et.
  - cbn [beqb]. destruct (e =? 1); reflexivity.
  - cbn [beqb]. rewrite (go_index_some (c :: text') 0 c) by (first [lia | reflexivity]).
    destruct (c =? 35)%N.
    + destruct (e =? 1); reflexivity.
    + change 9%N with TAB. set (line := split_on TAB (c :: text')).
      change (imp_bed_reader_n (rdr n)) with (Z.of_nat n).
      change (imp_bed_reader_with_n (rdr n) (go_len line)) with (rdr (length line)).
      replace (Z.of_nat n =? 0) with (Nat.eqb n 0) by (destruct (Nat.eqb_spec n 0); lia).
      unfold next_n. fold line.
      destruct (Nat.eqb n 0) eqn:En; cbn [after]; unfold go_len.
      * change (imp_bed_reader_n (rdr (length line))) with (Z.of_nat (length line)).
        rewrite Z.eqb_refl, Nat.eqb_refl. cbn [negb after].
        rewrite imp_parseLine. destruct (Bed.parse_line line); reflexivity.
      * change (imp_bed_reader_n (rdr n)) with (Z.of_nat n).
        replace (Z.of_nat (length line) =? Z.of_nat n) with (Nat.eqb (length line) n)
          by (destruct (Nat.eqb_spec (length line) n); lia).
        destruct (Nat.eqb (length line) n); cbn [negb after]; [|reflexivity].
        rewrite imp_parseLine. destruct (Bed.parse_line line); reflexivity.
Qed.

(* a complete line *)
Theorem br_body_line n l rest tc : ~ In 10%N l ->
  br_body (rdr n, Stream (l ++ 10%N :: rest) tc None)
  = match Bed.do_line n l with
    | Bed.Skip => Next (rdr n, Stream rest tc None)
    | Bed.StopErr => Ret (Stream rest tc None, rdr (next_n n (drop_cr l)), (zero_bed, 2))
    | Bed.Yield b n' => Ret (Stream rest tc None, rdr n', (bed_of b, 0))
    end.
Proof.
  intros Hl. unfold br_body. cbv beta iota. unfold go_readstring. cbn [st_rest st_term].
  rewrite (take_line_complete l rest Hl). cbv beta iota zeta. cbn [Z.eqb negb andb after].
  rewrite trim_lf, trim_cr, br_rest_spec. cbn [Z.eqb Pos.eqb]. reflexivity.
Qed.

(* the unterminated last piece: ReadString returns it together with the stream's error *)
Theorem br_body_tail n tail (t : term) : ~ In 10%N tail ->
  br_body (rdr n, Stream tail (ImpProofsJ.term_code t) None)
  = match t with
    | TErr => Ret (Stream [] 2 None, rdr n, (zero_bed, 2))
    | TEOF =>
      match Bed.do_line n tail with
      | Bed.Skip => Ret (Stream [] 1 None, rdr n, (zero_bed, 1))
      | Bed.StopErr => Ret (Stream [] 1 None, rdr (next_n n (drop_cr tail)), (zero_bed, 2))
      | Bed.Yield b n' => Ret (Stream [] 1 None, rdr n', (bed_of b, 0))
      end
    end.
Proof.
  intros Hl. unfold br_body. cbv beta iota. unfold go_readstring. cbn [st_rest st_term].
  rewrite (take_line_tail tail Hl). cbv beta iota zeta.
  destruct t; cbn [ImpProofsJ.term_code Z.eqb Pos.eqb negb andb after].
  - rewrite (trim_lf_none tail Hl), trim_cr, br_rest_spec. cbn [Z.eqb Pos.eqb]. reflexivity.
  - reflexivity.
Qed.

(* read() is the loop over this body *)
Theorem imp_bed_read_unfold fuel rd r :
  imp_bed_reader_read fuel rd r
  = after (go_while fuel (fun _ => Ret true) br_body (r, rd)) (fun '(r, rd__) => Panics).
Proof. reflexivity. Qed.
