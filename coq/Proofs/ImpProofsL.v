(* Proofs/ImpProofsL.v — translated source vs hand-written model, part 12: the BED reader
   (bed.go, reader.read): ReadString('\n'), the two TrimSuffix calls, blank and comment lines,
   the field-count rule kept in reader.n, parseLine.  One call of read() on a stream whose
   next line is complete, and on the unterminated last piece, against the model's per-line
   function do_line (from which Model/Bed.v builds the iterator dec_lines). *)
From Coq Require Import ZifyBool ZifyNat ZifyN.
From Bio Require Import Base.
From Bio.gen Require Import ImpGen.
From Bio.Model Require Import GoSem GoLib.
From Bio.Model Require Bed.
From Bio.Proofs Require Import ImpProofs ImpProofsB ImpProofsE ImpProofsG ImpProofsH.
From Bio.Proofs Require ImpProofsJ BaseProofs.
Open Scope Z_scope.

Definition rdr (n : nat) : imp_bed_reader := Imp_bed_reader (Z.of_nat n).

(* ---- ReadString and TrimSuffix on a line --------------------------------------------------- *)
Lemma take_line_complete l rest : ~ In 10%N l ->
  take_line 10 (l ++ 10%N :: rest) = (l ++ [10%N], Some rest).
Proof.
  induction l as [|c l IH]; intros H; cbn [app take_line].
  - reflexivity.
  - destruct (N.eqb_spec c 10) as [->|_]; [exfalso; apply H; left; reflexivity|].
    rewrite IH by (intros Hi; apply H; right; exact Hi). reflexivity.
Qed.

Lemma take_line_tail l : ~ In 10%N l -> take_line 10 l = (l, None).
Proof.
  induction l as [|c l IH]; intros H; cbn [take_line]; [reflexivity|].
  destruct (N.eqb_spec c 10) as [->|_]; [exfalso; apply H; left; reflexivity|].
  rewrite IH by (intros Hi; apply H; right; exact Hi). reflexivity.
Qed.

Lemma is_prefix_single c s : is_prefix [c] s = match s with x :: _ => N.eqb c x | [] => false end.
Proof. destruct s; cbn [is_prefix]; [reflexivity|]. apply andb_true_r. Qed.

Lemma trim_lf l : go_trim_suffix (l ++ [10%N]) [10%N] = l.
Proof.
  unfold go_trim_suffix. rewrite rev_app_distr. cbn [rev app is_prefix N.eqb Pos.eqb andb length skipn].
  apply rev_involutive.
Qed.

Lemma trim_lf_none l : ~ In 10%N l -> go_trim_suffix l [10%N] = l.
Proof.
  intros H. unfold go_trim_suffix. cbn [rev app]. rewrite is_prefix_single.
  destruct (rev l) as [|x r] eqn:E; [reflexivity|].
  destruct (N.eqb_spec 10 x) as [<-|_]; [|reflexivity].
  exfalso. apply H. apply in_rev. rewrite E. left. reflexivity.
Qed.

Lemma trim_cr l : go_trim_suffix l [13%N] = drop_cr l.
Proof.
  unfold go_trim_suffix. cbn [rev app length]. rewrite is_prefix_single.
  induction l as [|c l IH]; [reflexivity|].
  destruct l as [|d l'].
  - cbn [rev app drop_cr skipn]. rewrite N.eqb_sym. destruct (c =? 13)%N; reflexivity.
  - change (drop_cr (c :: d :: l')) with (c :: drop_cr (d :: l')). rewrite <- IH. clear IH.
    cbn [rev]. destruct (rev l' ++ [d]) as [|x r] eqn:E; [destruct (rev l'); discriminate|].
    cbn [app]. destruct (13 =? x)%N; [|reflexivity].
    cbn [skipn]. rewrite rev_app_distr. reflexivity.
Qed.

(* ---- the loop body, as generated, in two parts ------------------------------------------------ *)
Definition br_result : Type := (go_stream * imp_bed_reader * (imp_bed_BED * Z))%type.

Definition br_rest (r : imp_bed_reader) (rd__ : go_stream) (err_2 : Z) (text : list N)
  : res (imp_bed_reader * go_stream) br_result :=
  go_orelse (beqb text []) (fun t__5 => go_index text (0)%Z (fun t__3 => t__5 (N.eqb t__3 35%N))) (fun t__4 => (if t__4 then after (if (Z.eqb err_2 1%Z) then Ret (rd__, r, ((Imp_bed_BED 0%Z [] 0%Z 0%Z [] 0%Z [] 0%Z 0%Z (repeat 0%N 3) 0%Z [] []), 1%Z)) else Next tt) (fun 'tt => Next (r, rd__)) else let line := (split_on 9%N text) in after (if (Z.eqb (imp_bed_reader_n r) (0)%Z) then let r := (imp_bed_reader_with_n r (go_len line)) in Next r else Next r) (fun r => after (if (negb (Z.eqb (go_len line) (imp_bed_reader_n r))) then Ret (rd__, r, ((Imp_bed_BED 0%Z [] 0%Z 0%Z [] 0%Z [] 0%Z 0%Z (repeat 0%N 3) 0%Z [] []), 2%Z)) else Next tt) (fun 'tt => go_call (imp_bed_parseLine line) (fun t__6 => Ret (rd__, r, (t__6))))))).

Definition br_body : imp_bed_reader * go_stream -> res (imp_bed_reader * go_stream) br_result :=
  (fun '(r, rd__) => let '(t__1, t__2, rd__) := go_readstring rd__ 10%N in let text := t__1 in let err_2 := t__2 in after (if (andb (negb (Z.eqb err_2 0%Z)) (negb (Z.eqb err_2 1%Z))) then Ret (rd__, r, ((Imp_bed_BED 0%Z [] 0%Z 0%Z [] 0%Z [] 0%Z 0%Z (repeat 0%N 3) 0%Z [] []), err_2)) else Next tt) (fun 'tt => let text := (go_trim_suffix text [10%N]) in let text := (go_trim_suffix text [13%N]) in br_rest r rd__ err_2 text)).

(* the field count after this line: reader.n is set by the first data line *)
Definition next_n (n : nat) (text : bytes) : nat :=
  if (n =? 0)%nat then length (split_on TAB text) else n.

Lemma br_rest_spec n rd e raw :
  br_rest (rdr n) rd e (drop_cr raw)
  = match Bed.do_line n raw with
    | Bed.Skip => if e =? 1 then Ret (rd, rdr n, (zero_bed, 1)) else Next (rdr n, rd)
    | Bed.StopErr => Ret (rd, rdr (next_n n (drop_cr raw)), (zero_bed, 2))
    | Bed.Yield b n' => Ret (rd, rdr n', (bed_of b, 0))
    end.
Proof.
  unfold br_rest, Bed.do_line, go_orelse. cbv zeta.
  change (Imp_bed_BED 0 [] 0 0 [] 0 [] 0 0 (repeat 0%N 3) 0 [] []) with zero_bed.
  destruct (drop_cr raw) as [|c text'] eqn:Et.
  - cbn [beqb]. destruct (e =? 1); reflexivity.
  - cbn [beqb]. rewrite (go_index_some (c :: text') 0 c) by (first [lia | reflexivity]).
    destruct (c =? 35)%N.
    + destruct (e =? 1); reflexivity.
    + change 9%N with TAB. set (line := split_on TAB (c :: text')).
      change (imp_bed_reader_n (rdr n)) with (Z.of_nat n).
      change (imp_bed_reader_with_n (rdr n) (go_len line)) with (rdr (length line)).
      replace (Z.of_nat n =? 0) with (Nat.eqb n 0) by (destruct (Nat.eqb_spec n 0); lia).
      unfold next_n. fold line.
      destruct (Nat.eqb n 0) eqn:En; cbn [after]; unfold go_len.
      * change (imp_bed_reader_n (rdr (length line))) with (Z.of_nat (length line)).
        rewrite Z.eqb_refl, Nat.eqb_refl. cbn [negb after].
        rewrite imp_parseLine. destruct (Bed.parse_line line); reflexivity.
      * change (imp_bed_reader_n (rdr n)) with (Z.of_nat n).
        replace (Z.of_nat (length line) =? Z.of_nat n) with (Nat.eqb (length line) n)
          by (destruct (Nat.eqb_spec (length line) n); lia).
        destruct (Nat.eqb (length line) n); cbn [negb after]; [|reflexivity].
        rewrite imp_parseLine. destruct (Bed.parse_line line); reflexivity.
Qed.

(* a complete line *)
Theorem br_body_line n l rest tc : ~ In 10%N l ->
  br_body (rdr n, Stream (l ++ 10%N :: rest) tc None)
  = match Bed.do_line n l with
    | Bed.Skip => Next (rdr n, Stream rest tc None)
    | Bed.StopErr => Ret (Stream rest tc None, rdr (next_n n (drop_cr l)), (zero_bed, 2))
    | Bed.Yield b n' => Ret (Stream rest tc None, rdr n', (bed_of b, 0))
    end.
Proof.
  intros Hl. unfold br_body. cbv beta iota. unfold go_readstring. cbn [st_rest st_term].
  rewrite (take_line_complete l rest Hl). cbv beta iota zeta. cbn [Z.eqb negb andb after].
  rewrite trim_lf, trim_cr, br_rest_spec. cbn [Z.eqb Pos.eqb]. reflexivity.
Qed.

(* the unterminated last piece: ReadString returns it together with the stream's error *)
Theorem br_body_tail n tail (t : term) : ~ In 10%N tail ->
  br_body (rdr n, Stream tail (ImpProofsJ.term_code t) None)
  = match t with
    | TErr => Ret (Stream [] 2 None, rdr n, (zero_bed, 2))
    | TEOF =>
      match Bed.do_line n tail with
      | Bed.Skip => Ret (Stream [] 1 None, rdr n, (zero_bed, 1))
      | Bed.StopErr => Ret (Stream [] 1 None, rdr (next_n n (drop_cr tail)), (zero_bed, 2))
      | Bed.Yield b n' => Ret (Stream [] 1 None, rdr n', (bed_of b, 0))
      end
    end.
Proof.
  intros Hl. unfold br_body. cbv beta iota. unfold go_readstring. cbn [st_rest st_term].
  rewrite (take_line_tail tail Hl). cbv beta iota zeta.
  destruct t; cbn [ImpProofsJ.term_code Z.eqb Pos.eqb negb andb after].
  - rewrite (trim_lf_none tail Hl), trim_cr, br_rest_spec. cbn [Z.eqb Pos.eqb]. reflexivity.
  - reflexivity.
Qed.

(* read() is the loop over this body *)
Theorem imp_bed_read_unfold fuel rd r :
  imp_bed_reader_read fuel rd r
  = after (go_while fuel (fun _ => Ret true) br_body (r, rd)) (fun '(r, rd__) => Panics).
Proof. reflexivity. Qed.

(* ---- Reader: read() until io.EOF or an error ------------------------------------------------------ *)
Section BedReader.
Variable t : term.
Notation tc := (ImpProofsJ.term_code t).

(* read() on a stream, one unit of fuel per line looked at *)
Fixpoint rd_res (k : nat) (n : nat) (s : bytes) : res unit br_result :=
  match k with
  | O => NoFuel
  | Datatypes.S k' =>
    match take_line 10 s with
    | (l', Some rest) =>
      match Bed.do_line n (removelast l') with
      | Bed.Skip => rd_res k' n rest
      | Bed.StopErr => Ret (Stream rest tc None, rdr (next_n n (drop_cr (removelast l'))), (zero_bed, 2))
      | Bed.Yield b n' => Ret (Stream rest tc None, rdr n', (bed_of b, 0))
      end
    | (tail, None) =>
      match t with
      | TErr => Ret (Stream [] 2 None, rdr n, (zero_bed, 2))
      | TEOF =>
        match Bed.do_line n tail with
        | Bed.Skip => Ret (Stream [] 1 None, rdr n, (zero_bed, 1))
        | Bed.StopErr => Ret (Stream [] 1 None, rdr (next_n n (drop_cr tail)), (zero_bed, 2))
        | Bed.Yield b n' => Ret (Stream [] 1 None, rdr n', (bed_of b, 0))
        end
      end
    end
  end.

Lemma take_line_some s l' rest : take_line 10 s = (l', Some rest) ->
  exists l, l' = l ++ [10%N] /\ s = l ++ 10%N :: rest /\ ~ In 10%N l.
Proof.
  revert l' rest. induction s as [|c s IH]; intros l' rest H; cbn [take_line] in H; [discriminate|].
  destruct (N.eqb_spec c 10) as [->|Hc].
  - injection H as <- <-. exists []. repeat split. intros [].
  - destruct (take_line 10 s) as [l o] eqn:E. injection H as <- ->.
    destruct (IH _ _ eq_refl) as (l0 & -> & -> & Hn). exists (c :: l0). repeat split.
    intros [Hi|Hi]; [congruence|contradiction].
Qed.

Lemma take_line_none s l : take_line 10 s = (l, None) -> s = l /\ ~ In 10%N l.
Proof.
  revert l. induction s as [|c s IH]; intros l H; cbn [take_line] in H.
  - injection H as <-. split; [reflexivity|intros []].
  - destruct (N.eqb_spec c 10) as [->|Hc]; [discriminate|].
    destruct (take_line 10 s) as [l0 o] eqn:E. injection H as <- ->.
    destruct (IH _ eq_refl) as (-> & Hn). split; [reflexivity|].
    intros [Hi|Hi]; [congruence|contradiction].
Qed.

Lemma imp_read_is_rd_res : forall k n s,
  imp_bed_reader_read k (Stream s tc None) (rdr n) = rd_res k n s.
Proof.
  induction k as [|k IH]; intros n s; rewrite imp_bed_read_unfold; [reflexivity|].
  cbn [go_while rd_res].
  destruct (take_line 10 s) as [l' [rest|]] eqn:E.
  - destruct (take_line_some _ _ _ E) as (l & -> & -> & Hn).
    rewrite (br_body_line n l rest tc Hn). rewrite removelast_last.
    destruct (Bed.do_line n l); cbn [after]; try reflexivity.
    rewrite <- IH, imp_bed_read_unfold. reflexivity.
  - destruct (take_line_none _ _ E) as (-> & Hn).
    rewrite (br_body_tail n l' t Hn). destruct t; [|reflexivity].
    destruct (Bed.do_line n l'); reflexivity.
Qed.


Lemma rd_res_enough : forall k1 k2 n s, (length s < k1)%nat -> (length s < k2)%nat -> rd_res k1 n s = rd_res k2 n s.
Proof.
  induction k1 as [|k1 IH]; intros k2 n s H1 H2; [lia|]. destruct k2 as [|k2]; [lia|].
  cbn [rd_res]. destruct (take_line 10 s) as [l' [rest|]] eqn:E; [|reflexivity].
  destruct (take_line_some _ _ _ E) as (l & -> & -> & Hn).
  destruct (Bed.do_line n (removelast (l ++ [10%N]))); try reflexivity.
  apply IH; rewrite app_length in *; cbn [length] in *; lia.
Qed.

(* the model's decode from reader state n *)
Definition dec (n : nat) (s : bytes) : list (item Bed.bed) :=
  let '(ls, tail) := rs_lines s in Bed.dec_lines n ls tail t.

Lemma not_in_memb (l : bytes) : ~ In 10%N l -> memb 10%N l = false.
Proof.
  intros H. unfold memb. destruct (existsb (N.eqb 10%N) l) eqn:E; [|reflexivity].
  apply existsb_exists in E. destruct E as (x & Hx & Ex). apply N.eqb_eq in Ex. subst x. contradiction.
Qed.

Lemma rs_lines_cons l rest : ~ In 10%N l ->
  rs_lines (l ++ 10%N :: rest) = (l :: fst (rs_lines rest), snd (rs_lines rest)).
Proof.
  intros H. unfold rs_lines, LF. cbv zeta.
  pose proof (BaseProofs.split_on_app 10%N l rest (not_in_memb l H)) as E. unfold bytes, byte in *. rewrite E.
  pose proof (BaseProofs.split_on_nonnil 10%N rest) as Hne.
  destruct (split_on 10%N rest) as [|p ps]; [congruence|]. reflexivity.
Qed.

Lemma rs_lines_clean tail : ~ In 10%N tail -> rs_lines tail = ([], tail).
Proof.
  intros H. unfold rs_lines, LF. cbv zeta.
  pose proof (BaseProofs.split_on_clean 10%N tail (not_in_memb tail H)) as E. unfold bytes, byte in *. rewrite E. reflexivity.
Qed.

Lemma dec_line n l rest : ~ In 10%N l ->
  dec n (l ++ 10%N :: rest)
  = match Bed.do_line n l with
    | Bed.Skip => dec n rest
    | Bed.StopErr => [ErrItem]
    | Bed.Yield b n' => Rec b :: dec n' rest
    end.
Proof.
  intros H. unfold dec. rewrite (rs_lines_cons l rest H). destruct (rs_lines rest) as [ls tail]. reflexivity.
Qed.

Lemma dec_tail n tail : ~ In 10%N tail -> dec n tail = Bed.dec_lines n [] tail t.
Proof. intros H. unfold dec. rewrite (rs_lines_clean tail H). reflexivity. Qed.

Definition bed_item (i : item Bed.bed) : imp_bed_BED * Z :=
  match i with Rec b => (bed_of b, 0) | ErrItem => (zero_bed, 2) end.

(* what one read() gives, in terms of the model's decode *)
Lemma rd_dec : forall k n s, (length s < k)%nat ->
  exists rest r' b e, rd_res k n s = Ret (Stream rest tc None, r', (b, e))
    /\ ((e = 1 /\ dec n s = [])
        \/ (e = 2 /\ dec n s = [ErrItem] /\ b = zero_bed)
        \/ (e = 0 /\ exists bb n', b = bed_of bb /\ r' = rdr n' /\ dec n s = Rec bb :: dec n' rest /\ (length rest < length s)%nat)).
Proof.
  induction k as [|k IH]; intros n s Hk; [lia|]. cbn [rd_res].
  destruct (take_line 10 s) as [l' [rest|]] eqn:E.
  - destruct (take_line_some _ _ _ E) as (l & -> & -> & Hn). rewrite removelast_last, (dec_line n l rest Hn).
    destruct (Bed.do_line n l) as [| |b n'] eqn:D.
    + destruct (IH n rest) as (rest' & r' & b & e & Hr & Hc); [rewrite app_length in Hk; cbn [length] in Hk; lia|].
      exists rest', r', b, e. split; [exact Hr|].
      destruct Hc as [Hc|[Hc|(He & bb & n' & Hb & Hr' & Hd & Hl)]]; [left; exact Hc|right; left; exact Hc|].
      right. right. split; [exact He|]. exists bb, n'. repeat split; try assumption.
      rewrite app_length. cbn [length]. lia.
    + do 4 eexists. split; [reflexivity|]. right. left. repeat split.
    + do 4 eexists. split; [reflexivity|]. right. right. split; [reflexivity|]. exists b, n'. repeat split.
      rewrite app_length. cbn [length]. lia.
  - destruct (take_line_none _ _ E) as (-> & Hn). rewrite (dec_tail n l' Hn). cbn [Bed.dec_lines].
    destruct t eqn:Et.
    + destruct (Bed.do_line n l') as [| |b n'] eqn:D.
      * do 4 eexists. split; [reflexivity|]. left. split; reflexivity.
      * do 4 eexists. split; [reflexivity|]. right. left. repeat split.
      * do 4 eexists. split; [reflexivity|]. right. right. split; [reflexivity|]. exists b, n'. repeat split.
        -- unfold dec. cbn. rewrite Et. reflexivity.
        -- destruct l' as [|c l']; [|cbn [length]; lia]. cbn in D. discriminate.
    + do 4 eexists. split; [reflexivity|]. right. left. repeat split.
Qed.

Definition ro_state : Type := (imp_bed_reader * list (imp_bed_BED * Z) * go_stream)%type.
Definition ro_body (fuel : nat) : ro_state -> res ro_state (go_stream * list (imp_bed_BED * Z)) :=
  (fun '((rd, out__, rd__) : (imp_bed_reader * _ * go_stream)) => go_call (imp_bed_reader_read fuel rd__ rd) (fun '(rd__, t__3, (t__1, t__2)) => let rd := t__3 in let bed := t__1 in let err := t__2 in after (if (Z.eqb err 1%Z) then Ret (rd__, out__) else Next tt) (fun 'tt => after (if (negb (Z.eqb err 0%Z)) then (let out__ := out__ ++ [((Imp_bed_BED 0%Z (@nil N) 0%Z 0%Z (@nil N) 0%Z (@nil N) 0%Z 0%Z (repeat 0%N 3) 0%Z [] []), err)] in let t__4 := true in Ret (rd__, out__)) else Next out__) (fun out__ => (let out__ := out__ ++ [(bed, 0%Z)] in let t__5 := true in (if (negb t__5) then Ret (rd__, out__) else Next (rd, out__, rd__))))))).

Lemma ro_loop fuel : forall m s n out fw, (length s <= m)%nat -> (length s < fuel)%nat -> (m + 1 < fw)%nat ->
  exists st, go_while fw (fun _ => Ret true) (ro_body fuel) (rdr n, out, Stream s tc None)
             = Ret (st, out ++ map bed_item (dec n s)).
Proof.
  induction m as [|m IH]; intros s n out fw Hm Hf Hw; (destruct fw as [|fw]; [lia|]); cbn [go_while];
    unfold ro_body at 1; cbv beta iota; rewrite imp_read_is_rd_res;
    destruct (rd_dec fuel n s Hf) as (rest & r' & b & e & Hr & Hc); rewrite Hr; cbn [go_call]; cbv beta iota zeta;
    destruct Hc as [(-> & Hd)|[(-> & Hd & ->)|(-> & bb & n' & -> & -> & Hd & Hl)]]; rewrite Hd; cbn [Z.eqb Pos.eqb negb after map bed_item].
  - eexists. rewrite app_nil_r. reflexivity.
  - eexists. reflexivity.
  - lia.
  - eexists. rewrite app_nil_r. reflexivity.
  - eexists. reflexivity.
  - destruct (IH rest n' (out ++ [(bed_of bb, 0)]) fw) as (st & Hst); [lia|lia|lia|].
    rewrite Hst. eexists. rewrite <- app_assoc. reflexivity.
Qed.

Theorem imp_bed_Reader_ok fuel s : (length s + 2 < fuel)%nat ->
  exists st, imp_bed_Reader fuel (Stream s tc None) = Ret (st, map bed_item (Bed.decode s t)).
Proof.
  intros Hf. unfold imp_bed_Reader. cbv zeta.
  timeout 120 (change (go_while fuel _ _ (Imp_bed_reader 0, [], ?st))
    with (go_while fuel (fun _ => Ret true) (ro_body fuel) (rdr 0, [], st))).
  destruct (ro_loop fuel (length s) s 0%nat [] fuel (le_n _)) as (st & Hst); [lia|lia|].
  rewrite Hst. exists st. reflexivity.
Qed.

End BedReader.
