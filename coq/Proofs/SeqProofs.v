(* Proofs/SeqProofs.v — C12: complement table, ReverseComplement,
   CanonicalSubsequences.  (C13 is in SeqProofsB.v.) *)
From Coq Require Import String.
From Bio Require Import Base.
From Bio.gen Require Import Tables.
From Bio.Model Require Import Seq.
From Bio.Spec Require Import SeqSpec.

(* ---- generic list facts ---------------------------------------------------- *)
Definition bytes256 : list N := map N.of_nat (seq 0 256).

Lemma in_bytes256 b : b < 256 -> In b bytes256.
Proof.
  intros H. unfold bytes256. apply in_map_iff. exists (N.to_nat b). split; [apply N2Nat.id|].
  apply in_seq. lia.
Qed.

Definition optN_eqb (a b : option N) : bool :=
  match a, b with Some x, Some y => x =? y | None, None => true | _, _ => false end.

Lemma optN_eqb_eq a b : optN_eqb a b = true -> a = b.
Proof. destruct a, b; simpl; try congruence. intros H; apply N.eqb_eq in H; congruence. Qed.

Lemma all_some_map_some {A B} (f : A -> option B) (g : A -> B) l :
  Forall (fun a => f a = Some (g a)) l -> all_some (map f l) = Some (map g l).
Proof.
  induction 1 as [|a l Ha _ IH]; [reflexivity|].
  cbn [map all_some]. rewrite Ha, IH. reflexivity.
Qed.

Lemma all_some_map_none {A B} (f : A -> option B) l :
  all_some (map f l) = None <-> Exists (fun a => f a = None) l.
Proof.
  induction l as [|a l IH]; cbn [map all_some].
  - split; [discriminate|intros H; inversion H].
  - destruct (f a) as [x|] eqn:E.
    + destruct (all_some (map f l)) as [r|].
      * split; [discriminate|]. intros H. inversion H; subst; [congruence|].
        apply IH in H1. discriminate.
      * split; [intros _; apply Exists_cons_tl; apply IH; reflexivity|reflexivity].
    + split; [intros _; apply Exists_cons_hd; exact E|reflexivity].
Qed.

Lemma Forall_rev' {A} (P : A -> Prop) l : Forall P l -> Forall P (rev l).
Proof. rewrite !Forall_forall. intros H x Hx. apply H. apply in_rev. exact Hx. Qed.

Lemma Exists_rev' {A} (P : A -> Prop) l : Exists P (rev l) <-> Exists P l.
Proof.
  rewrite !Exists_exists. split; intros [x [Hx Px]]; exists x; (split; [|exact Px]).
  - apply in_rev. exact Hx.
  - apply in_rev in Hx. exact Hx.
Qed.

Lemma Forall_firstn' {A} (P : A -> Prop) n l : Forall P l -> Forall P (firstn n l).
Proof. revert l; induction n; intros l H; simpl; [constructor|]. destruct l; [constructor|]. inversion H; subst; constructor; auto. Qed.

Lemma Forall_skipn' {A} (P : A -> Prop) n l : Forall P l -> Forall P (skipn n l).
Proof. revert l; induction n; intros l H; simpl; [assumption|]. destruct l; [constructor|]. inversion H; auto. Qed.

(* ---- bcompare ---------------------------------------------------------------- *)
Lemma bcompare_antisym a b : bcompare b a = CompOpp (bcompare a b).
Proof.
  revert b. induction a as [|x a IH]; intros [|y b]; try reflexivity.
  cbn [bcompare]. rewrite (N.compare_antisym x y).
  destruct (x ?= y); cbn [CompOpp]; [apply IH|reflexivity|reflexivity].
Qed.

Lemma bcompare_eq a b : bcompare a b = Eq -> a = b.
Proof.
  revert b. induction a as [|x a IH]; intros [|y b]; cbn [bcompare]; try discriminate; [reflexivity|].
  destruct (x ?= y) eqn:E; try discriminate.
  intros H. apply N.compare_eq in E. apply IH in H. congruence.
Qed.

Lemma bcompare_refl a : bcompare a a = Eq.
Proof. induction a as [|x a IH]; [reflexivity|]. cbn [bcompare]. rewrite N.compare_refl. exact IH. Qed.

(* min is symmetric: equal strings give equal results *)
Lemma lexmin_comm a b : lexmin a b = lexmin b a.
Proof.
  unfold lexmin. rewrite (bcompare_antisym a b).
  destruct (bcompare a b) eqn:E; cbn [CompOpp]; try reflexivity.
  apply bcompare_eq. exact E.
Qed.

Lemma lexmin_cases a b : lexmin a b = a \/ lexmin a b = b.
Proof. unfold lexmin. destruct (bcompare a b); auto. Qed.

Lemma lexmin_le_l a b : bcompare (lexmin a b) a <> Gt.
Proof.
  unfold lexmin. destruct (bcompare a b) eqn:E.
  - rewrite bcompare_refl. discriminate.
  - rewrite bcompare_refl. discriminate.
  - rewrite (bcompare_antisym a b), E. discriminate.
Qed.

Lemma lexmin_le_r a b : bcompare (lexmin a b) b <> Gt.
Proof.
  unfold lexmin. destruct (bcompare a b) eqn:E.
  - rewrite E. discriminate.
  - rewrite E. discriminate.
  - rewrite bcompare_refl. discriminate.
Qed.

(* ---- the complement table: a sweep over the 256 regenerated entries ------------ *)
Lemma comp_table_sweep : forallb (fun b => optN_eqb (comp b) (compl b)) bytes256 = true.
Proof. vm_compute. reflexivity. Qed.

Lemma complement_tab_length : length complement_tab = 256%nat.
Proof. vm_compute. reflexivity. Qed.

Lemma compl_range b c : compl b = Some c -> b < 256.
Proof.
  unfold compl.
  repeat match goal with
  | |- context [?x =? ?y] => destruct (N.eqb_spec x y) as [->|?]; [intros _; reflexivity|]
  end.
  discriminate.
Qed.

Lemma comp_table_exact b : comp b = compl b.
Proof.
  destruct (N.lt_ge_cases b 256) as [Hlt|Hge].
  - pose proof comp_table_sweep as S. rewrite forallb_forall in S.
    apply optN_eqb_eq. apply S. apply in_bytes256. exact Hlt.
  - assert (Hc : comp b = None).
    { unfold comp, tab_get.
      replace (nth_error complement_tab (N.to_nat b)) with (@None (option N)); [reflexivity|].
      symmetry. apply nth_error_None. rewrite complement_tab_length. lia. }
    rewrite Hc. destruct (compl b) as [c|] eqn:E; [|reflexivity].
    apply compl_range in E. lia.
Qed.

(* the spec complement is an involution and preserves case (all of N) *)
Lemma compl_involutive b c : compl b = Some c -> compl c = Some b.
Proof.
  unfold compl at 1.
  repeat match goal with
  | |- context [?x =? ?y] =>
    destruct (N.eqb_spec x y) as [->|?]; [intros H; inversion H; subst; reflexivity|]
  end.
  discriminate.
Qed.

Lemma compl_case b c : compl b = Some c -> is_lower c = is_lower b.
Proof.
  unfold compl.
  repeat match goal with
  | |- context [?x =? ?y] =>
    destruct (N.eqb_spec x y) as [->|?]; [intros H; inversion H; subst; reflexivity|]
  end.
  discriminate.
Qed.

Lemma comp_involutive b c : comp b = Some c -> comp c = Some b.
Proof. rewrite !comp_table_exact. apply compl_involutive. Qed.

Lemma comp_case_preserving b c : comp b = Some c -> is_lower c = is_lower b.
Proof. rewrite comp_table_exact. apply compl_case. Qed.

(* accepted exactly on the ten letters *)
Lemma comp_accepts_iff b : (exists c, comp b = Some c) <-> In b (bs "aAcCgGtTnN").
Proof.
  rewrite comp_table_exact. split.
  - intros [c H]. revert H. unfold compl.
    repeat match goal with
    | |- context [?x =? ?y] => destruct (N.eqb_spec x y) as [->|?]; [intros _; vm_compute; tauto|]
    end.
    discriminate.
  - intros H. vm_compute in H.
    repeat (destruct H as [<-|H]; [vm_compute; eauto|]). contradiction.
Qed.

(* ---- complb / rcseq ------------------------------------------------------------ *)
Lemma is_dna10_compl b : is_dna10 b = true -> compl b = Some (complb b).
Proof. unfold is_dna10, complb. destruct (compl b); [reflexivity|discriminate]. Qed.

Lemma is_dna10_false b : is_dna10 b = false <-> compl b = None.
Proof. unfold is_dna10. destruct (compl b); split; congruence. Qed.

Lemma complb_dna10 b : is_dna10 b = true -> is_dna10 (complb b) = true.
Proof.
  intros H. pose proof (is_dna10_compl b H) as E. apply compl_involutive in E.
  unfold is_dna10. rewrite E. reflexivity.
Qed.

Lemma complb_involutive b : is_dna10 b = true -> complb (complb b) = b.
Proof.
  intros H. pose proof (is_dna10_compl b H) as E. apply compl_involutive in E.
  unfold complb at 1. rewrite E. reflexivity.
Qed.

Lemma rcseq_length s : length (rcseq s) = length s.
Proof. unfold rcseq. rewrite rev_length, map_length. reflexivity. Qed.

Lemma rcseq_dna10 s : dna10 s -> dna10 (rcseq s).
Proof.
  intros H. unfold rcseq, dna10. apply Forall_rev'. apply Forall_forall.
  intros x Hx. apply in_map_iff in Hx. destruct Hx as [y [<- Hy]].
  apply complb_dna10. unfold dna10 in H. rewrite Forall_forall in H. apply H. exact Hy.
Qed.

Lemma rcseq_involutive s : dna10 s -> rcseq (rcseq s) = s.
Proof.
  intros H. unfold rcseq. rewrite map_rev, rev_involutive, map_map.
  induction H as [|b s Hb _ IH]; [reflexivity|].
  cbn [map]. rewrite complb_involutive by exact Hb. rewrite IH. reflexivity.
Qed.

Lemma rcseq_app s t : rcseq (s ++ t) = rcseq t ++ rcseq s.
Proof. unfold rcseq. rewrite map_app, rev_app_distr. reflexivity. Qed.

(* ---- ReverseComplement ----------------------------------------------------------- *)
Lemma rc_spec dst src : dna10 src -> rc dst src = Ok (dst ++ rcseq src).
Proof.
  intros H. unfold rc.
  rewrite (all_some_map_some comp complb).
  - rewrite map_rev. reflexivity.
  - apply Forall_rev'. eapply Forall_impl; [|exact H].
    intros b Hb. cbv beta in *. rewrite comp_table_exact. apply is_dna10_compl. exact Hb.
Qed.

Lemma rc_panics_iff dst src :
  rc dst src = Panic <-> Exists (fun b => is_dna10 b = false) src.
Proof.
  unfold rc. destruct (all_some (map comp (rev src))) as [l|] eqn:E.
  - split; [discriminate|]. intros H. exfalso.
    assert (N : all_some (map comp (rev src)) = None).
    { apply all_some_map_none. apply (proj2 (Exists_rev' _ _)). eapply Exists_impl; [|exact H].
      intros b Hb. cbv beta in *. rewrite comp_table_exact. apply is_dna10_false. exact Hb. }
    congruence.
  - split; [|reflexivity]. intros _.
    apply all_some_map_none in E. apply (proj1 (Exists_rev' _ _)) in E. eapply Exists_impl; [|exact E].
    intros b Hb. cbv beta in Hb. rewrite comp_table_exact in Hb. apply is_dna10_false. exact Hb.
Qed.

Lemma dna10_dec s : dna10 s \/ Exists (fun b => is_dna10 b = false) s.
Proof.
  induction s as [|b s IH]; [left; constructor|].
  destruct (is_dna10 b) eqn:E.
  - destruct IH as [IH|IH]; [left; constructor; assumption|right; apply Exists_cons_tl; exact IH].
  - right. apply Exists_cons_hd. exact E.
Qed.

Lemma dna10_not_exists s : dna10 s -> ~ Exists (fun b => is_dna10 b = false) s.
Proof.
  intros H E. apply Exists_exists in E. destruct E as [b [Hin Hb]].
  unfold dna10 in H. rewrite Forall_forall in H. specialize (H b Hin). congruence.
Qed.

(* total description: Ok with the spec value, or Panic; never Err *)
Lemma rc_exact dst src :
  (dna10 src /\ rc dst src = Ok (dst ++ rcseq src)) \/
  (Exists (fun b => is_dna10 b = false) src /\ rc dst src = Panic).
Proof.
  destruct (dna10_dec src) as [H|H].
  - left. split; [exact H|apply rc_spec; exact H].
  - right. split; [exact H|apply rc_panics_iff; exact H].
Qed.

Lemma rc_ok_inv dst src r : rc dst src = Ok r -> dna10 src /\ r = dst ++ rcseq src.
Proof.
  intros E. destruct (rc_exact dst src) as [[H E']|[H E']]; rewrite E' in E.
  - inversion E. auto.
  - discriminate.
Qed.

Lemma rc_involutive s : dna10 s -> exists r, rc [] s = Ok r /\ rc [] r = Ok s.
Proof.
  intros H. exists (rcseq s). split.
  - apply (rc_spec [] s H).
  - rewrite (rc_spec [] (rcseq s)) by (apply rcseq_dna10; exact H).
    rewrite rcseq_involutive by exact H. reflexivity.
Qed.

Lemma rc_string_agrees s : rc_string s = rc [] s.
Proof. reflexivity. Qed.

(* the prefix is kept: the result of any dst is dst followed by the result of [] *)
Lemma rc_append dst src r : rc [] src = Ok r -> rc dst src = Ok (dst ++ r).
Proof. intros E. apply rc_ok_inv in E. destruct E as [H ->]. apply rc_spec. exact H. Qed.

(* ---- windows of a sequence and of its reverse complement ------------------------------ *)
Lemma window_split s i k : (i + k <= length s)%nat ->
  s = firstn i s ++ window s i k ++ skipn k (skipn i s).
Proof.
  intros _. unfold window. rewrite (firstn_skipn k (skipn i s)). rewrite firstn_skipn. reflexivity.
Qed.

Lemma window_length s i k : (i + k <= length s)%nat -> length (window s i k) = k.
Proof. intros H. unfold window. rewrite firstn_length, skipn_length. lia. Qed.

Lemma window_app_mid a w c : window (a ++ w ++ c) (length a) (length w) = w.
Proof.
  unfold window. rewrite skipn_app, Nat.sub_diag, skipn_all. cbn [skipn app].
  rewrite firstn_app, Nat.sub_diag, firstn_all. cbn [firstn]. apply app_nil_r.
Qed.

(* the reverse complement of window i of s is window (n-k-i) of rc s *)
Lemma window_rcseq s i k : (i + k <= length s)%nat ->
  window (rcseq s) (length s - i - k) k = rcseq (window s i k).
Proof.
  intros H. pose proof (window_split s i k H) as E.
  set (a := firstn i s) in *. set (w := window s i k) in *. set (c := skipn k (skipn i s)) in *.
  assert (La : length a = i) by (unfold a; rewrite firstn_length; lia).
  assert (Lw : length w = k) by (unfold w; apply window_length; exact H).
  assert (Lc : length c = (length s - i - k)%nat) by (unfold c; rewrite !skipn_length; lia).
  rewrite E at 1. rewrite !rcseq_app. rewrite <- app_assoc.
  rewrite <- Lc. rewrite <- (rcseq_length c). rewrite <- Lw at 1. rewrite <- (rcseq_length w).
  apply window_app_mid.
Qed.

Lemma window_dna10 s i k : dna10 s -> dna10 (window s i k).
Proof. intros H. unfold window, dna10. apply Forall_firstn'. apply Forall_skipn'. exact H. Qed.

(* ---- CanonicalSubsequences ------------------------------------------------------------ *)
(* the i-th item, when the window fits *)
Lemma canon_at_spec s k i : (i + k <= length s)%nat ->
  canon_at s (rcseq s) k i = lexmin (window s i k) (rcseq (window s i k)).
Proof.
  intros H. unfold canon_at, slice. rewrite rcseq_length.
  change (firstn k (skipn i s)) with (window s i k).
  change (firstn k (skipn (length s - i - k) (rcseq s))) with (window (rcseq s) (length s - i - k) k).
  rewrite window_rcseq by exact H. reflexivity.
Qed.

Definition canon_items (s : bytes) (kn : nat) : list bytes :=
  map (canon_at s (rcseq s) kn) (seq 0 (S (length s) - kn)).

Lemma canon_items_length s kn : length (canon_items s kn) = (S (length s) - kn)%nat.
Proof. unfold canon_items. rewrite map_length, seq_length. reflexivity. Qed.

Lemma canon_unfold s k : dna10 s -> (0 <= k)%Z -> canon s k = Ok (canon_items s (Z.to_nat k)).
Proof.
  intros H Hk. unfold canon. rewrite (rc_spec [] s H). cbn [app].
  replace (k <? 0)%Z with false by (symmetry; apply Z.ltb_ge; exact Hk). reflexivity.
Qed.

Lemma canon_panics_iff s k :
  canon s k = Panic <-> ((k < 0)%Z \/ Exists (fun b => is_dna10 b = false) s).
Proof.
  unfold canon. destruct (rc_exact [] s) as [[H E]|[H E]]; rewrite E.
  - destruct (Z.ltb_spec k 0) as [Hlt|Hge].
    + split; [auto|reflexivity].
    + split; [discriminate|]. intros [Hk|Hx]; [lia|]. exfalso. eapply dna10_not_exists; eassumption.
  - split; [auto|reflexivity].
Qed.

Lemma canon_ok s k : dna10 s -> (0 <= k)%Z -> exists items, canon s k = Ok items.
Proof. intros H Hk. rewrite canon_unfold by assumption. eauto. Qed.

Lemma canon_count s k : dna10 s -> (1 <= k)%Z ->
  exists items, canon s k = Ok items /\
    Z.of_nat (length items) =
      (if (Z.of_nat (length s) <? k)%Z then 0 else Z.of_nat (length s) - k + 1)%Z.
Proof.
  intros H Hk. rewrite canon_unfold by (assumption || lia).
  eexists. split; [reflexivity|]. rewrite canon_items_length.
  destruct (Z.ltb_spec (Z.of_nat (length s)) k); lia.
Qed.

Lemma canon_nth s k items i : (0 <= k)%Z -> canon s k = Ok items ->
  (i + Z.to_nat k <= length s)%nat ->
  nth_error items i =
    Some (lexmin (window s i (Z.to_nat k)) (rcseq (window s i (Z.to_nat k)))).
Proof.
  intros Hk E Hi.
  assert (H : dna10 s).
  { destruct (dna10_dec s) as [H|H]; [exact H|].
    assert (P : canon s k = Panic) by (apply canon_panics_iff; auto). congruence. }
  rewrite canon_unfold in E by assumption. injection E as E; subst items. unfold canon_items.
  set (f := canon_at s (rcseq s) (Z.to_nat k)).
  rewrite (nth_error_map f i (seq 0 (S (length s) - Z.to_nat k))).
  assert (Hn : nth_error (seq 0 (S (length s) - Z.to_nat k)) i = Some i).
  { rewrite (nth_error_nth' _ 0%nat) by (rewrite seq_length; lia).
    rewrite seq_nth by lia. reflexivity. }
  rewrite Hn. cbn [option_map]. unfold f. rewrite canon_at_spec by exact Hi. reflexivity.
Qed.

(* every item is one of the two strands' k-mers, and not greater than either *)
Lemma canon_item_min s k items i x : (0 <= k)%Z -> canon s k = Ok items ->
  nth_error items i = Some x ->
  let w := window s i (Z.to_nat k) in
  (x = w \/ x = rcseq w) /\ bcompare x w <> Gt /\ bcompare x (rcseq w) <> Gt.
Proof.
  intros Hk E Hx w.
  assert (Hi : (i + Z.to_nat k <= length s)%nat).
  { assert (L : (i < length items)%nat) by (apply nth_error_Some; congruence).
    assert (H : dna10 s).
    { destruct (dna10_dec s) as [H|H]; [exact H|].
      assert (P : canon s k = Panic) by (apply canon_panics_iff; auto). congruence. }
    rewrite canon_unfold in E by assumption. injection E as E; subst items.
    rewrite canon_items_length in L. lia. }
  rewrite (canon_nth s k items i Hk E Hi) in Hx. inversion Hx; subst x. fold w.
  split; [apply lexmin_cases|]. split; [apply lexmin_le_l|apply lexmin_le_r].
Qed.

Lemma rev_seq0 n : rev (seq 0 n) = map (fun j => (n - 1 - j)%nat) (seq 0 n).
Proof.
  induction n as [|n IH]; [reflexivity|].
  rewrite seq_S at 1. rewrite rev_app_distr. cbn [rev app plus].
  cbn [seq map]. f_equal; [lia|].
  rewrite IH. rewrite <- seq_shift, map_map. apply map_ext. intros j. lia.
Qed.

(* A sequence and its reverse complement yield the same items in opposite
   order.  Holds for every k >= 0. *)
Lemma canon_strand_symmetric s k items :
  dna10 s -> (0 <= k)%Z -> canon s k = Ok items -> canon (rcseq s) k = Ok (rev items).
Proof.
  intros H Hk E.
  rewrite canon_unfold in E by assumption. injection E as E; subst items.
  rewrite canon_unfold by (try apply rcseq_dna10; assumption).
  unfold canon_items. rewrite rcseq_involutive by exact H. rewrite rcseq_length.
  set (kn := Z.to_nat k). set (n := length s). f_equal.
  rewrite <- map_rev, rev_seq0, map_map. apply map_ext_in.
  intros j Hj. apply in_seq in Hj.
  assert (Hjk : (j + kn <= n)%nat) by lia.
  set (i := (S n - kn - 1 - j)%nat).
  assert (Hik : (i + kn <= n)%nat) by (unfold i; lia).
  rewrite (canon_at_spec s kn i Hik).
  (* the left item, computed on the other strand *)
  unfold canon_at, slice. fold n.
  change (firstn kn (skipn j (rcseq s))) with (window (rcseq s) j kn).
  change (firstn kn (skipn (n - j - kn) s)) with (window s (n - j - kn) kn).
  replace (n - j - kn)%nat with i by (unfold i; lia).
  assert (Ej : window (rcseq s) j kn = rcseq (window s i kn)).
  { replace j with (n - i - kn)%nat by (unfold i; lia). apply window_rcseq. exact Hik. }
  rewrite Ej. apply (lexmin_comm (rcseq (window s i kn)) (window s i kn)).
Qed.

(* the same, phrased with the model's rc (for C17) *)
Lemma canon_strand_symmetric_rc s r k items :
  (0 <= k)%Z -> rc [] s = Ok r -> canon s k = Ok items -> canon r k = Ok (rev items).
Proof.
  intros Hk Er E. apply rc_ok_inv in Er. destruct Er as [H ->]. cbn [app].
  apply canon_strand_symmetric; assumption.
Qed.

(* total form: both sides are defined on dna10 input *)
Lemma canon_strand_symmetric_total s k : dna10 s -> (0 <= k)%Z ->
  exists items, canon s k = Ok items /\ canon (rcseq s) k = Ok (rev items).
Proof.
  intros H Hk. destruct (canon_ok s k H Hk) as [items E]. exists items. split; [exact E|].
  apply canon_strand_symmetric; assumption.
Qed.

(* the k-mers are k long *)
Lemma canon_item_length s k items x : dna10 s -> (0 <= k)%Z -> canon s k = Ok items ->
  In x items -> length x = Z.to_nat k.
Proof.
  intros H Hk E Hx. apply In_nth_error in Hx. destruct Hx as [i Hi].
  destruct (canon_item_min s k items i x Hk E Hi) as [[-> | ->] _].
  - apply window_length.
    assert (L : (i < length items)%nat) by (apply nth_error_Some; congruence).
    rewrite canon_unfold in E by assumption. injection E as E; subst items.
    rewrite canon_items_length in L. lia.
  - rewrite rcseq_length. apply window_length.
    assert (L : (i < length items)%nat) by (apply nth_error_Some; congruence).
    rewrite canon_unfold in E by assumption. injection E as E; subst items.
    rewrite canon_items_length in L. lia.
Qed.

(* ---- the forms stated in Properties/C12.v (k >= 1) ------------------------------------ *)
Lemma canon_nth_pos s k items i : (1 <= k)%Z -> canon s k = Ok items ->
  (i + Z.to_nat k <= length s)%nat ->
  nth_error items i =
    Some (lexmin (window s i (Z.to_nat k)) (rcseq (window s i (Z.to_nat k)))).
Proof. intros Hk. apply canon_nth. lia. Qed.

Lemma canon_item_min_pos s k items i x : (1 <= k)%Z -> canon s k = Ok items ->
  nth_error items i = Some x ->
  let w := window s i (Z.to_nat k) in
  (x = w \/ x = rcseq w) /\ bcompare x w <> Gt /\ bcompare x (rcseq w) <> Gt.
Proof. intros Hk. apply canon_item_min. lia. Qed.

Lemma canon_strand_symmetric_pos s k items : dna10 s -> (1 <= k)%Z ->
  canon s k = Ok items -> canon (rcseq s) k = Ok (rev items).
Proof. intros H Hk. apply canon_strand_symmetric; [exact H|lia]. Qed.
