(* Proofs/SeqProofs.v *)
From Bio Require Import Base.
