(* Proofs/MashProofsC.v — C17, the real-valued laws of the Mash distance
   (Coq's classical real numbers). *)
From Coq Require Import Reals Lra.
From Bio Require Import Base.
From Bio.Model Require Import Seq Mash.
From Bio.Spec Require Import MashSpec.
From Bio.Proofs Require Import MashProofs MashProofsB.
Local Open Scope R_scope.

Definition gfun (j : R) : R := 2 * j / (1 + j).

Lemma gfun_pos j : 0 < j -> 0 < gfun j.
Proof.
  intros H. unfold gfun. apply Rdiv_lt_0_compat; lra.
Qed.

Lemma gfun_le j1 j2 : 0 < j1 -> j1 <= j2 -> gfun j1 <= gfun j2.
Proof.
  intros H1 H2. unfold gfun, Rdiv.
  assert (A : 0 < 1 + j1) by lra. assert (B : 0 < 1 + j2) by lra.
  apply Rmult_le_reg_r with (r := (1 + j1) * (1 + j2)).
  - apply Rmult_lt_0_compat; assumption.
  - replace (2 * j1 * / (1 + j1) * ((1 + j1) * (1 + j2))) with (2 * j1 * (1 + j2)) by (field; lra).
    replace (2 * j2 * / (1 + j2) * ((1 + j1) * (1 + j2))) with (2 * j2 * (1 + j1)) by (field; lra).
    nra.
Qed.

Lemma gfun_1 : gfun 1 = 1.
Proof. unfold gfun. field. Qed.

Lemma ln_le' x y : 0 < x -> x <= y -> ln x <= ln y.
Proof.
  intros Hx [Hlt | Heq].
  - left. apply ln_increasing; assumption.
  - subst. right. reflexivity.
Qed.

(* the unclamped distance *)
Definition raw_dist (j : R) (k : nat) : R := - ln (gfun j) / INR k.

Lemma mash_dist_pos j k : j <> 0 -> mash_dist j k = Rmin 1 (raw_dist j k).
Proof. intros H. unfold mash_dist. destruct (Req_EM_T j 0); [contradiction|reflexivity]. Qed.

Lemma mash_dist_0 k : mash_dist 0 k = 1.
Proof. unfold mash_dist. destruct (Req_EM_T 0 0) as [|n]; [reflexivity|contradiction n; reflexivity]. Qed.

Lemma raw_dist_nonneg j k : 0 < j <= 1 -> (0 < k)%nat -> 0 <= raw_dist j k.
Proof.
  intros [H0 H1] Hk. unfold raw_dist, Rdiv.
  assert (K : 0 < INR k) by (apply lt_0_INR; assumption).
  apply Rmult_le_pos.
  - assert (L : ln (gfun j) <= ln 1).
    { apply ln_le'. apply gfun_pos; assumption. rewrite <- gfun_1. apply gfun_le; lra. }
    rewrite ln_1 in L. lra.
  - left. apply Rinv_0_lt_compat. assumption.
Qed.

Lemma raw_dist_antitone j1 j2 k : 0 < j1 -> j1 <= j2 -> (0 < k)%nat -> raw_dist j2 k <= raw_dist j1 k.
Proof.
  intros H1 H2 Hk. unfold raw_dist, Rdiv.
  assert (K : 0 < INR k) by (apply lt_0_INR; assumption).
  apply Rmult_le_compat_r.
  - left. apply Rinv_0_lt_compat. assumption.
  - apply Ropp_le_contravar. apply ln_le'. apply gfun_pos; assumption. apply gfun_le; assumption.
Qed.

Lemma dist_range j k : 0 <= j <= 1 -> (0 < k)%nat -> 0 <= mash_dist j k <= 1.
Proof.
  intros [H0 H1] Hk. destruct (Req_EM_T j 0) as [E|E].
  - subst. rewrite mash_dist_0. lra.
  - rewrite mash_dist_pos by assumption. split.
    + apply Rmin_glb. lra. apply raw_dist_nonneg; [lra|assumption].
    + apply Rmin_l.
Qed.

Lemma dist_identical k : mash_dist 1 k = 0.
Proof.
  rewrite mash_dist_pos by lra. unfold raw_dist. rewrite gfun_1, ln_1.
  replace (- 0 / INR k) with 0 by (unfold Rdiv; ring).
  apply Rmin_right. lra.
Qed.

Lemma dist_zero k : mash_dist 0 k = 1.
Proof. apply mash_dist_0. Qed.

Lemma dist_antitone j1 j2 k : 0 <= j1 -> j1 <= j2 -> j2 <= 1 -> (0 < k)%nat ->
  mash_dist j2 k <= mash_dist j1 k.
Proof.
  intros H0 H12 H1 Hk. destruct (Req_EM_T j1 0) as [E|E].
  - subst. rewrite mash_dist_0. apply (dist_range j2 k); [lra|assumption].
  - assert (0 < j1) by lra.
    rewrite (mash_dist_pos j1) by assumption. rewrite (mash_dist_pos j2) by lra.
    apply Rle_min_compat_l. apply raw_dist_antitone; assumption.
Qed.

(* the formula, unfolded: for 0 < j the distance is min(1, -ln(2j/(1+j))/k) *)
Lemma dist_formula j k : 0 < j -> mash_dist j k = Rmin 1 (- ln (2 * j / (1 + j)) / INR k).
Proof. intros H. rewrite mash_dist_pos by lra. reflexivity. Qed.

(* a pair (i, u) with 0 <= i <= u, 0 < u is a Jaccard index in [0,1] *)
Lemma pair_in_unit (i u : Z) : (0 <= i <= u)%Z -> (0 < u)%Z -> 0 <= IZR i / IZR u <= 1.
Proof.
  intros [Hi Hiu] Hu.
  assert (U : 0 < IZR u) by (apply IZR_lt; assumption).
  assert (I0 : 0 <= IZR i) by (apply IZR_le; assumption).
  assert (IU : IZR i <= IZR u) by (apply IZR_le; assumption).
  unfold Rdiv. split.
  - apply Rmult_le_pos. assumption. left. apply Rinv_0_lt_compat. assumption.
  - apply Rmult_le_reg_r with (r := IZR u). assumption.
    rewrite Rmult_assoc, Rinv_l by lra. lra.
Qed.

Lemma dist_pair_range i u k : (0 <= i <= u)%Z -> (0 < u)%Z -> (0 < k)%nat ->
  0 <= mash_dist_pair (i, u) k <= 1.
Proof.
  intros H1 H2 Hk. unfold mash_dist_pair. cbn [fst snd].
  apply dist_range. apply pair_in_unit; assumption. assumption.
Qed.

Lemma dist_pair_identical n k : (0 < n)%Z -> mash_dist_pair (n, n) k = 0.
Proof.
  intros Hn. unfold mash_dist_pair. cbn [fst snd].
  replace (IZR n / IZR n) with 1. apply dist_identical.
  field. apply not_0_IZR. lia.
Qed.

(* ---- Distance of two sketches ----------------------------------------------------- *)
(* symmetric: the loop returns the same pair for both orders *)
Lemma dist_symmetric a b n k p q :
  intersect a b n = Ok p -> intersect b a n = Ok q -> mash_dist_pair p k = mash_dist_pair q k.
Proof. intros Hp Hq. rewrite intersect_sym in Hq. rewrite Hp in Hq. inversion Hq. reflexivity. Qed.

(* two full sketches of size n: the distance is the formula applied to the
   shared fraction of the n smallest values of the union, and lies in [0,1] *)
Lemma dist_full a b n k : desc a -> desc b -> length a = n -> length b = n -> (1 <= n)%nat ->
  exists p, intersect a b (Z.of_nat n) = Ok p /\
    mash_dist_pair p k = mash_dist (INR (shared_bottom n a b) / INR n) k /\
    ((0 < k)%nat -> 0 <= mash_dist_pair p k <= 1).
Proof.
  intros Da Db La Lb Hn. eexists. split; [apply jaccard_full; assumption|]. split.
  - unfold mash_dist_pair. cbn [fst snd]. rewrite <- !INR_IZR_INZ. reflexivity.
  - intros Hk. apply dist_pair_range; [|lia|exact Hk].
    pose proof (shared_bottom_le n a b). lia.
Qed.
