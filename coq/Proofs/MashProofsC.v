(* Proofs/MashProofsC.v *)
From Bio Require Import Base.
