(* Proofs/ImpProofsW.v — translated source, part 23: round trips and the other headline statements of
   C01, C03, C04, C12, C16 about the functions as translated from the Go source — compositions of
   the model theorems with the equivalences. *)
From Coq Require Import ZifyBool ZifyNat ZifyN.
From Bio Require Import Base.
From Bio.gen Require Import ImpGen.
From Bio.Model Require Import GoSem GoLib.
From Bio.Model Require Fasta Sam Bed Seq Regions.
From Bio.Spec Require FastaSpec SamSpec BedSpec SeqSpec RegionsSpec.
From Bio.Proofs Require FastaProofs FastaProofsB FastaProofsC SamProofs SamProofsB SamProofsC BedProofs BedProofsB BedProofsC
                        SeqProofs RegionsProofs RegionsProofsB RegionsProofsC.
From Bio.Proofs Require Import ImpProofs ImpProofsC ImpProofsG ImpProofsJ ImpProofsL ImpProofsN ImpProofsQ.
Open Scope Z_scope.

(* ---- fasta: write, then read ------------------------------------------------------------------------------ *)
Theorem fasta_roundtrip_src rs fuel : Forall FastaSpec.fa_ok rs ->
  (length (concat (map Fasta.write rs)) + 2 < fuel)%nat ->
  Forall (fun r => forall f, (length (Fasta.seq r) < f)%nat ->
                             imp_fasta_Fasta_MarshalText f (fa_of r) = Ret (Fasta.write r, false)) rs
  /\ imp_fastard_Reader fuel (Stream (concat (map Fasta.write rs)) 1 None)
     = Ret (Stream [] 1 None, map (fa_item TEOF) (map Rec rs)).
Proof.
  intros Hok Hf. split.
  - apply Forall_forall. intros r _ f Hlen. rewrite (imp_Fasta_MarshalText f r Hlen).
    rewrite FastaProofs.marshal_total. reflexivity.
  - rewrite <- (FastaProofsC.write_read_roundtrip rs Hok). exact (imp_fasta_Reader fuel _ TEOF Hf).
Qed.

(* ---- bed ---------------------------------------------------------------------------------------------------------- *)
Theorem bed_roundtrip_src b fuel : BedSpec.bed_ok b ->
  exists w, imp_bed_BED_MarshalText (bed_of b) = Ret (w, 0) /\
    ((length w + 2 < fuel)%nat ->
     exists st, imp_bed_Reader fuel (Stream w 1 None) = Ret (st, [bed_item (Rec (BedSpec.first_n b))])).
Proof.
  intros Hok. destruct (BedProofsC.roundtrip b Hok) as (w & Hw & Hd). exists w. split.
  - rewrite imp_BED_MarshalText, Hw. reflexivity.
  - intros Hf. destruct (imp_bed_Reader_ok TEOF fuel w Hf) as (st & Hst). exists st.
    etransitivity; [exact Hst|]. rewrite Hd. reflexivity.
Qed.

(* ---- sam ---------------------------------------------------------------------------------------------------------- *)
Theorem sam_roundtrip_src o r fuel : SamSpec.sam_ok o r ->
  (length (Sam.write o r) + 1 < fuel)%nat ->
  imp_sam_SAM_MarshalText o (sam_of r) = Ret (Sam.write o r, false) /\
  exists r' st, imp_samrd_Reader fuel o (Stream (Sam.write o r) 1 None) = Ret (st, [(Some (sam_of r'), 0)])
                /\ SamSpec.sam_eq r r'.
Proof.
  intros Hok Hf. split; [apply imp_SAM_MarshalText|].
  destruct (SamProofsC.roundtrip_reader o r Hok) as (r' & Hd & He).
  destruct (imp_sam_Reader_ok o TEOF fuel _ Hf) as (st & Hst). exists r', st. split; [|exact He].
  etransitivity; [exact Hst|]. rewrite Hd. reflexivity.
Qed.

(* ---- sequtil: reverse complement twice ----------------------------------------------------------------------- *)
Lemma dna10_all_bytes s : SeqSpec.dna10 s -> all_bytes s.
Proof.
  intros H. unfold all_bytes. eapply Forall_impl; [|exact H]. intros b Hb. unfold is_byte.
  unfold SeqSpec.is_dna10, SeqSpec.compl in Hb.
  repeat match type of Hb with context [N.eqb b ?c] => destruct (N.eqb_spec b c); [subst; lia|] end.
  discriminate.
Qed.

Theorem rc_involutive_src s : SeqSpec.dna10 s ->
  exists r, imp_sequtil_ReverseComplement [] s = Ret r /\ imp_sequtil_ReverseComplement [] r = Ret s.
Proof.
  intros Hs. destruct (SeqProofs.rc_involutive s Hs) as (r & H1 & H2).
  assert (Hr : SeqSpec.dna10 r).
  { pose proof (SeqProofs.rc_spec [] s Hs) as E. rewrite H1 in E. injection E as ->. cbn [app].
    unfold SeqSpec.dna10 in *. apply Forall_rev. apply Forall_forall. intros x Hx.
    apply in_map_iff in Hx as (y & <- & Hy). rewrite Forall_forall in Hs.
    apply SeqProofs.complb_dna10. apply Hs. exact Hy. }
  exists r. rewrite (imp_ReverseComplement [] s (dna10_all_bytes s Hs)), H1.
  rewrite (imp_ReverseComplement [] r (dna10_all_bytes r Hr)), H2. split; reflexivity.
Qed.

(* ---- regions: NewIndex then At ------------------------------------------------------------------------------- *)
Theorem regions_at_exact_src starts ends : length starts = length ends ->
  exists ix, imp_regions_NewIndex starts ends = Ret ix /\
    forall i, imp_regions_Index_At ix i
              = Ret (map Z.of_nat (filter (fun x => (nth x starts 0 <=? i) && (i <? nth x ends 0))
                                          (seq 0 (length starts)))).
Proof.
  intros Hl. destruct (RegionsProofsC.at_exact starts ends Hl) as (ix & Hn & Ha).
  exists (index_of ix). split.
  - rewrite imp_NewIndex, Hn. reflexivity.
  - intros i. rewrite imp_Index_At, Ha. reflexivity.
Qed.

(* ---- newick: PreOrder / PostOrder ------------------------------------------------------------------------------ *)
From Bio.Model Require Newick.
From Bio.Spec Require NewickSpec.
From Bio.Proofs Require NewickProofs ImpProofsI.

Theorem traverse_orders_src fuel t : (2 * Newick.size t + 2 < fuel)%nat ->
  imp_newick_Node_traverse fuel (ImpProofsI.node_of t) true = Ret (map ImpProofsI.nd (NewickSpec.preorder t))
  /\ imp_newick_Node_traverse fuel (ImpProofsI.node_of t) false = Ret (map ImpProofsI.nd (NewickSpec.postorder t)).
Proof.
  intros Hf. split.
  - apply ImpProofsI.imp_traverse; [exact Hf | apply NewickProofs.traverse_preorder].
  - apply ImpProofsI.imp_traverse; [exact Hf | apply NewickProofs.traverse_postorder].
Qed.

(* ---- sequtil: the 2-bit packing, both ways ------------------------------------------------------------------- *)
From Bio.Proofs Require SeqProofsB ImpProofsB TranslateProofs.

Lemma dna8_all_bytes s : TranslateProofs.dna8 s -> all_bytes s.
Proof.
  intros H. unfold all_bytes. eapply Forall_impl; [|exact H]. intros b Hb. unfold is_byte.
  unfold SeqSpec.is_dna8, SeqSpec.base_index in Hb.
  repeat match type of Hb with context [N.eqb b ?c] => destruct (N.eqb_spec b c); [subst; lia|] end.
  discriminate.
Qed.

Theorem to_from_src p : Forall (fun b => (b < 256)%N) p ->
  exists s, imp_sequtil_DNAFrom2Bit [] p = Ret s /\ imp_sequtil_DNATo2Bit [] s = Ret p.
Proof.
  intros Hp. destruct (SeqProofsB.to_from p Hp) as (s & H1 & H2).
  assert (Hs : TranslateProofs.dna8 s).
  { unfold TranslateProofs.dna8. apply Forall_forall. intros b Hb.
    destruct (SeqSpec.is_dna8 b) eqn:E; [reflexivity|]. exfalso.
    assert (X : Seq.to2bit [] s = Panic).
    { apply SeqProofsB.to2bit_panics_iff. apply Exists_exists. exists b. auto. }
    congruence. }
  exists s. rewrite (imp_DNAFrom2Bit [] p Hp), H1. rewrite (ImpProofsB.imp_DNATo2Bit [] s (dna8_all_bytes s Hs)), H2.
  split; reflexivity.
Qed.

Theorem from_to_src s : TranslateProofs.dna8 s ->
  exists p, imp_sequtil_DNATo2Bit [] s = Ret p /\
    imp_sequtil_DNAFrom2Bit [] p
    = Ret (map upper_byte s ++ repeat 65%N (Nat.modulo (4 - Nat.modulo (length s) 4) 4)).
Proof.
  intros Hs. destruct (SeqProofsB.from_to s Hs) as (p & H1 & H2).
  assert (Hp : all_bytes p).
  { unfold all_bytes. apply Forall_forall. intros b Hb. unfold is_byte.
    destruct (N.ltb_spec b 256) as [L|L]; [exact L|]. exfalso.
    assert (X : Seq.from2bit [] p = Panic).
    { apply SeqProofsB.from2bit_panics_iff. apply Exists_exists. exists b. auto. }
    congruence. }
  exists p. rewrite (ImpProofsB.imp_DNATo2Bit [] s (dna8_all_bytes s Hs)), H1.
  rewrite (imp_DNAFrom2Bit [] p Hp), H2. split; reflexivity.
Qed.

(* ---- fastq: write, then read (the Scanner's lines are Base.scan_tokens) ---------------------------------- *)
From Bio.Model Require Fastq Smtext.
From Bio.Spec Require FastqSpec.
From Bio.Proofs Require FastqProofs FastqProofsB ImpProofsK.

Theorem fastq_roundtrip_src rs fuel cur : Forall FastqSpec.fq_ok rs ->
  (length (scan_tokens (concat (map Fastq.write rs))) + 1 < fuel)%nat ->
  exists s' out,
    imp_fastqrd_Reader fuel (Scanner cur (scan_tokens (concat (map Fastq.write rs))) 0 false) = Ret (s', out)
    /\ Forall2 ImpProofsK.fq_item_ok (map Rec rs) out.
Proof.
  intros Hok Hf. destruct (ImpProofsK.imp_fastq_Reader fuel cur _ TEOF Hf) as (s' & out & E & HF).
  exists s', out. split; [exact E|]. rewrite <- (FastqProofsB.roundtrip rs Hok). exact HF.
Qed.

Theorem pre_post_order_src fuel t : (2 * Newick.size t + 2 < fuel)%nat ->
  imp_newick_Node_PreOrder fuel (ImpProofsI.node_of t) = Ret (map ImpProofsI.nd (NewickSpec.preorder t))
  /\ imp_newick_Node_PostOrder fuel (ImpProofsI.node_of t) = Ret (map ImpProofsI.nd (NewickSpec.postorder t)).
Proof. exact (traverse_orders_src fuel t). Qed.

From Bio.Proofs Require ImpProofsU.
Theorem pre_post_order_stop_src p fuel t : (2 * Newick.size t + 2 < fuel)%nat ->
  imp_newick_Node_PreOrder_stop p fuel (ImpProofsI.node_of t)
  = Ret (ImpProofsU.take_stop p (map ImpProofsI.nd (NewickSpec.preorder t)))
  /\ imp_newick_Node_PostOrder_stop p fuel (ImpProofsI.node_of t)
     = Ret (ImpProofsU.take_stop p (map ImpProofsI.nd (NewickSpec.postorder t))).
Proof.
  intros Hf. split.
  - apply (ImpProofsU.imp_traverse_stop_ok p fuel true t _ Hf). apply NewickProofs.traverse_preorder.
  - apply (ImpProofsU.imp_traverse_stop_ok p fuel false t _ Hf). apply NewickProofs.traverse_postorder.
Qed.

(* ---- sequtil: Translate is the standard genetic code ----------------------------------------------------- *)
From Bio.Proofs Require TranslateProofs.
Theorem translate_exact_src fuel dst s : all_bytes s -> (length s / 3 < fuel)%nat ->
  imp_sequtil_Translate fuel dst s
  = match SeqSpec.std_translate s with Some l => Ret (dst ++ l) | None => Panics end.
Proof.
  intros Hs Hf. rewrite (ImpProofsB.imp_Translate fuel dst s Hs Hf), TranslateProofs.translate_exact.
  destruct (SeqSpec.std_translate s); reflexivity.
Qed.

(* ---- smtext: ReadNCBI on any layout of a table ---------------------------------------------------------------- *)
From Bio.Spec Require SmtextSpec.
From Bio.Proofs Require SmtextProofs SmtextProofsB SmtextProofsC ImpProofsO.

Lemma line_items_tokens s :
  Forall (fun p => Smtext.too_long p = false) (lines_tail (split_on LF s)) ->
  Smtext.line_items s = map (@Rec bytes) (scan_tokens s).
Proof.
  unfold Smtext.line_items, scan_tokens. intros H. rewrite map_map. apply map_ext_in.
  intros p Hp. rewrite Forall_forall in H. rewrite (H p Hp). reflexivity.
Qed.

Theorem read_ncbi_exact_src o T L fuel cur :
  SmtextSpec.rect T -> SmtextSpec.TableLayout o T L ->
  Forall (fun p => Smtext.too_long p = false) (lines_tail (split_on LF L)) ->
  (length (scan_tokens L) < fuel)%nat ->
  exists rd, imp_smtext_ReadNCBI fuel o (Scanner cur (scan_tokens L) 0 false)
             = Ret (rd, (SmtextSpec.matrix_of T, 0)).
Proof.
  intros Hr Hl Hlong Hf.
  pose proof (SmtextProofsB.read_ncbi_exact o T L Hr Hl) as E. unfold Smtext.read_ncbi in E.
  rewrite (line_items_tokens L Hlong) in E.
  pose proof (ImpProofsO.imp_ReadNCBI o fuel cur (scan_tokens L) 0 Hf) as H.
  destruct (fold_left (Smtext.read_step o) (map (@Rec bytes) (scan_tokens L)) (Ok ([], []))) as [[m cs]| |];
    try discriminate.
  injection E as ->. cbn [ImpProofsO.nc_agrees Z.eqb] in H. exact H.
Qed.
