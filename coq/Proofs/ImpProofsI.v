(* Proofs/ImpProofsI.v — translated source vs hand-written model, part 9: the traversal of
   newick trees (traverse.go): the explicit stack of (node, next child) steps, pre- and
   post-order.  The model's loop keeps the stack top first and tags nodes with their paths;
   the translated code keeps the Go slice (top last) and yields the nodes. *)
From Coq Require Import ZifyBool ZifyNat ZifyN.
From Bio Require Import Base.
From Bio.gen Require Import ImpGen.
From Bio.Model Require Import GoSem Newick.
From Bio.Proofs Require Import ImpProofs ImpProofsB ImpProofsE.
Open Scope Z_scope.

Fixpoint node_of (t : tree) : imp_newick_Node :=
  match t with Node n d cs => Imp_newick_Node n d (map node_of cs) end.

Definition step_of (s : tstep) : imp_newick_traversalStep :=
  let '(p, n, i) := s in Imp_newick_traversalStep (node_of n) (Z.of_nat i).

Definition nd (o : occ) : imp_newick_Node := node_of (snd o).

Definition tr_state : Type := (list imp_newick_traversalStep * list imp_newick_Node)%type.
Definition tr_cond : tr_state -> res unit bool := (fun '(stack, out__) => Ret (Z.ltb (0)%Z (go_len stack))).
Definition tr_body (pre : bool) : tr_state -> res tr_state (list imp_newick_Node) := (fun '(stack, out__) => let stepi := (Z.sub (go_len stack) (1)%Z) in go_index stack stepi (fun t__1 => let step := t__1 in (if (andb pre (Z.eqb (imp_newick_traversalStep_i step) (0)%Z)) then (let out__ := out__ ++ [(imp_newick_traversalStep_n step)] in let t__2 := true in (if (negb t__2) then Ret out__ else (if (Z.eqb (imp_newick_traversalStep_i step) (go_len (imp_newick_Node_Children (imp_newick_traversalStep_n step)))) then (if (negb pre) then (let out__ := out__ ++ [(imp_newick_traversalStep_n step)] in let t__3 := true in (if (negb t__3) then Ret out__ else go_slice stack 0%Z (Z.sub (go_len stack) (1)%Z) (fun t__4 => let stack := t__4 in Next (stack, out__)))) else go_slice stack 0%Z (Z.sub (go_len stack) (1)%Z) (fun t__5 => let stack := t__5 in Next (stack, out__))) else go_index (imp_newick_Node_Children (imp_newick_traversalStep_n step)) (imp_newick_traversalStep_i step) (fun t__6 => let stack := (stack ++ [(Imp_newick_traversalStep t__6 (0)%Z)]) in go_index stack stepi (fun t__7 => go_index stack stepi (fun t__8 => go_set stack stepi (imp_newick_traversalStep_with_i t__8 (Z.add (imp_newick_traversalStep_i t__7) (1)%Z)) (fun t__9 => let stack := t__9 in Next (stack, out__)))))))) else (if (Z.eqb (imp_newick_traversalStep_i step) (go_len (imp_newick_Node_Children (imp_newick_traversalStep_n step)))) then (if (negb pre) then (let out__ := out__ ++ [(imp_newick_traversalStep_n step)] in let t__10 := true in (if (negb t__10) then Ret out__ else go_slice stack 0%Z (Z.sub (go_len stack) (1)%Z) (fun t__11 => let stack := t__11 in Next (stack, out__)))) else go_slice stack 0%Z (Z.sub (go_len stack) (1)%Z) (fun t__12 => let stack := t__12 in Next (stack, out__))) else go_index (imp_newick_Node_Children (imp_newick_traversalStep_n step)) (imp_newick_traversalStep_i step) (fun t__13 => let stack := (stack ++ [(Imp_newick_traversalStep t__13 (0)%Z)]) in go_index stack stepi (fun t__14 => go_index stack stepi (fun t__15 => go_set stack stepi (imp_newick_traversalStep_with_i t__15 (Z.add (imp_newick_traversalStep_i t__14) (1)%Z)) (fun t__16 => let stack := t__16 in Next (stack, out__))))))))).

Lemma children_of t : imp_newick_Node_Children (node_of t) = map node_of (t_children t).
Proof. destruct t; reflexivity. Qed.

Lemma go_slice_init {A S R} (p : list A) x (k : list A -> res S R) :
  go_slice (p ++ [x]) 0 (go_len p) k = k p.
Proof.
  unfold go_slice, go_len. rewrite app_length. cbn [length].
  replace ((0 <? 0) || (Z.of_nat (length p) <? 0) || (Z.of_nat (length p + 1) <? Z.of_nat (length p))) with false by lia.
  replace (Z.to_nat (Z.of_nat (length p) - 0)) with (length p) by lia.
  cbn [Z.to_nat skipn]. rewrite firstn_app, Nat.sub_diag, firstn_all. cbn [firstn]. rewrite app_nil_r. reflexivity.
Qed.

Lemma tr_loop pre : forall fm fuel stack acc r,
  traverse_loop pre fm stack acc = Ok r -> (fm < fuel)%nat ->
  go_while fuel tr_cond (tr_body pre) (rev (map step_of stack), map nd (rev acc)) = Next ([], map nd r).
Proof.
  induction fm as [|fm IH]; intros fuel stack acc r Hr Hf; (destruct fuel as [|fuel]; [lia|]);
    cbn [go_while]; unfold tr_cond at 1; cbv beta iota.
  - destruct stack as [|[[p n] i] rest]; [|discriminate]. cbn [traverse_loop] in Hr. injection Hr as <-. reflexivity.
  - destruct stack as [|[[p n] i] rest].
    + cbn [traverse_loop] in Hr. injection Hr as <-. reflexivity.
    + cbn [traverse_loop] in Hr. cbn [map rev].
      set (P := rev (map step_of rest)) in *.
      unfold go_len at 1. rewrite app_length. cbn [length].
      replace (0 <? Z.of_nat (length P + 1)) with true by lia.
      unfold tr_body at 1. cbv beta iota. cbv zeta.
      assert (Hst : go_len (P ++ [step_of (p, n, i)]) - 1 = go_len P) by (unfold go_len; rewrite app_length; cbn [length]; lia).
      rewrite Hst. rewrite (go_index_last P _ _ _ eq_refl).
      cbn [step_of imp_newick_traversalStep_i imp_newick_traversalStep_n].
      rewrite !children_of.
      replace (go_len (map node_of (t_children n))) with (Z.of_nat (length (t_children n))) by (unfold go_len; rewrite map_length; reflexivity).
      replace (Z.of_nat i =? 0) with (Nat.eqb i 0) by (destruct (Nat.eqb_spec i 0); lia).
      replace (Z.of_nat i =? Z.of_nat (length (t_children n))) with (Nat.eqb i (length (t_children n)))
        by (destruct (Nat.eqb_spec i (length (t_children n))); lia).
      assert (Hpush : forall (a : list occ), map nd (rev a) ++ [node_of n] = map nd (rev ((rev p, n) :: a))).
      { intros a. cbn [rev]. rewrite map_app. reflexivity. }
      assert (Hpop : forall S' (k : list imp_newick_traversalStep -> res S' (list imp_newick_Node)),
                 go_slice (P ++ [step_of (p, n, i)]) 0 (go_len P) k = k P)
        by (intros; apply go_slice_init).
      cbn [step_of] in Hpop.
      assert (Hdesc : forall c (out : list imp_newick_Node), nth_error (t_children n) i = Some c ->
        go_index (map node_of (t_children n)) (Z.of_nat i) (fun t__6 =>
          let stack := ((P ++ [Imp_newick_traversalStep (node_of n) (Z.of_nat i)]) ++ [(Imp_newick_traversalStep t__6 (0)%Z)]) in
          go_index stack (go_len P) (fun t__7 => go_index stack (go_len P) (fun t__8 =>
            go_set stack (go_len P) (imp_newick_traversalStep_with_i t__8 (Z.add (imp_newick_traversalStep_i t__7) (1)%Z))
              (fun t__9 => Next (t__9, out)))))
        = Next (S := tr_state) (R := list imp_newick_Node) (rev (map step_of ((i :: p, c, O) :: (p, n, S i) :: rest)), out)).
      { intros c out Hc. rewrite (go_index_some _ (Z.of_nat i) (node_of c)) by (first [lia | rewrite Nat2Z.id, nth_error_map, Hc; reflexivity]).
        cbv zeta. rewrite <- app_assoc. cbn [app].
        rewrite !(go_index_mid P _ _ _ _ eq_refl). rewrite (go_set_mid P _ _ _ _ _ eq_refl).
        cbn [map rev step_of imp_newick_traversalStep_with_i imp_newick_traversalStep_i imp_newick_traversalStep_n]. fold P.
        rewrite <- app_assoc. cbn [app]. replace (Z.of_nat i + 1) with (Z.of_nat (S i)) by lia. reflexivity. }
      destruct pre; cbn [andb negb] in *.
      * destruct (Nat.eqb i 0) eqn:E0; cbv iota.
        -- cbn [negb]. cbv iota. rewrite Hpush.
           destruct (Nat.eqb i (length (t_children n))) eqn:El; cbv iota.
           ++ rewrite Hpop. apply (IH fuel _ _ _ Hr). lia.
           ++ destruct (nth_error (t_children n) i) as [c|] eqn:Hc; [|discriminate].
              rewrite (Hdesc c _ eq_refl). apply (IH fuel _ _ _ Hr). lia.
        -- destruct (Nat.eqb i (length (t_children n))) eqn:El; cbv iota.
           ++ rewrite Hpop. apply (IH fuel _ _ _ Hr). lia.
           ++ destruct (nth_error (t_children n) i) as [c|] eqn:Hc; [|discriminate].
              rewrite (Hdesc c _ eq_refl). apply (IH fuel _ _ _ Hr). lia.
      * destruct (Nat.eqb i (length (t_children n))) eqn:El; cbv iota.
        -- cbn [negb]. cbv iota. rewrite Hpush, Hpop. apply (IH fuel _ _ _ Hr). lia.
        -- destruct (nth_error (t_children n) i) as [c|] eqn:Hc; [|discriminate].
           rewrite (Hdesc c _ eq_refl). apply (IH fuel _ _ _ Hr). lia.
Qed.

Theorem imp_traverse fuel pre t l : (2 * size t + 2 < fuel)%nat ->
  traverse pre t = Ok l ->
  imp_newick_Node_traverse fuel (node_of t) pre = Ret (map nd l).
Proof.
  intros Hf Ht. unfold traverse in Ht. unfold imp_newick_Node_traverse. cbv zeta.
  timeout 120 (change (go_while fuel _ _ ([Imp_newick_traversalStep (node_of t) 0], []))
    with (go_while fuel tr_cond (tr_body pre) (rev (map step_of [(([] : path), t, O)]), map nd (rev [])))).
  rewrite (tr_loop pre _ fuel _ _ _ Ht Hf). reflexivity.
Qed.

(* ---- the tree writer (newick.go, (n *Node) newick(buf)): recursion on explicit fuel ---------- *)
From Bio.Proofs Require ImpProofsG.

Section Writer.
Variable o : foracle.

Fixpoint rest_text (l : list tree) : bytes :=
  match l with [] => [] | c :: r => 44%N :: newick_text o c ++ rest_text r end.

Lemma newick_text_unfold name d cs :
  newick_text o (Node name d cs)
  = (match cs with [] => [] | c0 :: cr => 40%N :: newick_text o c0 ++ rest_text cr ++ [41%N] end)
    ++ name_to_text name ++ (if is_zeroF d then [] else 58%N :: fmtF o d).
Proof.
  cbn [newick_text]. destruct cs as [|c0 cr]; [reflexivity|].
  assert (E : forall l, (fix rest (l : list tree) : bytes :=
                match l with [] => [] | c :: r => 44%N :: newick_text o c ++ rest r end) l = rest_text l).
  { induction l as [|c r IH]; [reflexivity|]. cbn [rest_text]. rewrite <- IH. reflexivity. }
  rewrite E. reflexivity.
Qed.

Lemma size_child c cs name d : In c cs -> (size c < size (Node name d cs))%nat.
Proof.
  intros H. cbn [size]. induction cs as [|x r IH]; [contradiction|].
  cbn [map list_sum fold_right]. destruct H as [->|H]; [lia|]. specialize (IH H). unfold list_sum in IH. lia.
Qed.

Definition kids_body (fuel : nat) : Z * imp_newick_Node -> list N -> res (list N) (list N) :=
  fun p buf => let i := fst p in let c := snd p in
  (if (Z.ltb (0)%Z i) then let buf := (buf ++ [44%N]) in go_call (imp_newick_Node_newick fuel o c buf) (fun t__1 => let buf := t__1 in Next buf) else go_call (imp_newick_Node_newick fuel o c buf) (fun t__2 => let buf := t__2 in Next buf)).

Lemma kids_rest fuel : forall cs j buf, 1 <= j ->
  (forall c buf, In c cs -> imp_newick_Node_newick fuel o (node_of c) buf = Ret (buf ++ newick_text o c)) ->
  go_iter (kids_body fuel) (combine (zseq j (length cs)) (map node_of cs)) buf = Next (buf ++ rest_text cs).
Proof.
  induction cs as [|c r IH]; intros j buf Hj Hc.
  - cbn. rewrite app_nil_r. reflexivity.
  - cbn [length map]. rewrite zseq_cons. cbn [combine go_iter rest_text].
    unfold kids_body at 1. cbn [fst snd]. replace (0 <? j) with true by lia. cbv zeta.
    rewrite (Hc c _ (or_introl eq_refl)). cbn [go_call].
    rewrite IH by (first [lia | intros c' b' H'; apply Hc; right; exact H']).
    rewrite <- !app_assoc. reflexivity.
Qed.

Theorem imp_newick_write : forall fuel t buf, (size t < fuel)%nat ->
  imp_newick_Node_newick fuel o (node_of t) buf = Ret (buf ++ newick_text o t).
Proof.
  induction fuel as [|fuel IH]; intros t buf Hf; [lia|].
  destruct t as [name d cs]. rewrite newick_text_unfold.
  cbn [imp_newick_Node_newick node_of imp_newick_Node_Children imp_newick_Node_Name imp_newick_Node_Distance].
  rewrite ImpProofsG.imp_nameToText. cbn [go_call]. cbv zeta.
  assert (Hkids : forall c b, In c cs -> imp_newick_Node_newick fuel o (node_of c) b = Ret (b ++ newick_text o c)).
  { intros c b Hin. apply IH. pose proof (size_child c cs name d Hin). lia. }
  destruct cs as [|c0 cr].
  - cbn [map go_len length Z.of_nat Z.ltb Z.compare app].
    destruct (is_zeroF d); cbn [negb]; rewrite ?app_nil_r, <- ?app_assoc; reflexivity.
  - replace (0 <? go_len (map node_of (c0 :: cr))) with true by (unfold go_len; cbn [map length]; lia).
    unfold go_range, indexed. rewrite map_length. cbn [length map]. rewrite zseq_cons. cbn [combine go_iter fst snd].
    cbn [Z.ltb Z.compare]. rewrite (Hkids c0 _ (or_introl eq_refl)). cbn [go_call].
    timeout 120 (change (go_iter _ (combine (zseq (0 + 1) (length cr)) (map node_of cr)) ?b)
      with (go_iter (kids_body fuel) (combine (zseq (0 + 1) (length cr)) (map node_of cr)) b)).
    rewrite (kids_rest fuel cr (0 + 1)) by (first [lia | intros c' b' H'; apply Hkids; right; exact H']).
    cbn [after].
    destruct (is_zeroF d); cbn [negb]; rewrite ?app_nil_r; repeat (rewrite <- ?app_assoc; cbn [app]); reflexivity.
Qed.

End Writer.

(* ---- MarshalText and Write of a tree ----------------------------------------------------------------- *)
Theorem imp_newick_MarshalText o fuel t : (size t < fuel)%nat ->
  imp_newick_Node_MarshalText fuel o (node_of t) = Ret (marshal o t, false).
Proof.
  intros Hf. unfold imp_newick_Node_MarshalText, marshal. cbv zeta.
  rewrite (imp_newick_write o fuel t [] Hf). reflexivity.
Qed.

Theorem imp_newick_Write o fuel t : (size t < fuel)%nat ->
  imp_newick_Node_Write fuel o (node_of t) = Ret (write_chunks o t, false).
Proof.
  intros Hf. unfold imp_newick_Node_Write, write_chunks. cbv zeta.
  rewrite (imp_newick_MarshalText o fuel t Hf). reflexivity.
Qed.
