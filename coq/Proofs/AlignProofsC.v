(* Proofs/AlignProofsC.v — finite checks: the shipped tables (gen/Tables.v,
   gen/Lev.v, regenerated from the implementation on every run) and the two
   witnesses of known finding D7; boolean deciders for the domain predicates. *)
From Bio Require Import Base.
From Bio.gen Require Import Tables Lev.
From Bio.Model Require Import Align.
From Bio.Spec Require Import AlignSpec.
From Bio.Proofs Require Import AlignProofs AlignProofsB.
Open Scope N_scope.

(* ---- deciders for covers / nonpos_gaps ---------------------------------- *)
Definition is_ok (o : outcome Z) : bool := match o with Ok _ => true | _ => false end.

Definition coversb (g : scorer) (a b : bytes) : bool :=
  forallb (fun x => forallb (fun y => is_ok (g x y)) (Gap :: b)) (Gap :: a).

Lemma coversb_sound : forall g a b, coversb g a b = true -> covers_g g a b.
Proof.
  unfold coversb, covers_g. intros g a b H x y Hx Hy.
  rewrite forallb_forall in H. specialize (H x Hx).
  rewrite forallb_forall in H. specialize (H y Hy).
  destruct (g x y); try discriminate. eauto.
Qed.

Definition nonpos_o (o : outcome Z) : bool := match o with Ok z => (z <=? 0)%Z | _ => true end.

Definition nonposb (g : scorer) (a b : bytes) : bool :=
  forallb (fun x => nonpos_o (g x Gap)) (Gap :: a) && forallb (fun y => nonpos_o (g Gap y)) (Gap :: b).

Lemma nonposb_sound : forall g a b, nonposb g a b = true -> nonpos_gaps_g g a b.
Proof.
  unfold nonposb, nonpos_gaps_g. intros g a b H.
  apply andb_true_iff in H. destruct H as [H1 H2].
  rewrite forallb_forall in H1, H2. split.
  - intros x z Hx Hg. specialize (H1 x Hx). rewrite Hg in H1. cbn in H1. lia.
  - intros y z Hy Hg. specialize (H2 y Hy). rewrite Hg in H2. cbn in H2. lia.
Qed.

Lemma inclb_sound : forall l1 l2 : bytes, forallb (fun x => memb x l2) l1 = true -> incl l1 l2.
Proof.
  intros l1 l2 H x Hx. rewrite forallb_forall in H. specialize (H x Hx).
  unfold memb in H. apply existsb_exists in H. destruct H as (y & Hy & E).
  apply N.eqb_eq in E. subst. exact Hy.
Qed.

(* ---- association lists ---------------------------------------------------- *)
Lemma get_in : forall m x y s, get m x y = Ok s -> In ((x, y), s) m.
Proof.
  induction m as [|[[x0 y0] s0] r IH]; intros x y s H; cbn in H; [discriminate|].
  destruct ((x0 =? x) && (y0 =? y)) eqn:E.
  - apply andb_true_iff in E. destruct E as [E1 E2].
    apply N.eqb_eq in E1, E2. subst. inversion H. subst. left. reflexivity.
  - right. apply IH. exact H.
Qed.

Lemma get_ok_or_panic : forall m x y, (exists s, get m x y = Ok s) \/ get m x y = Panic.
Proof.
  induction m as [|[[x0 y0] s0] r IH]; intros x y; cbn; [right; reflexivity|].
  destruct ((x0 =? x) && (y0 =? y)); [left; eauto|apply IH].
Qed.

(* every entry has its mirror image with the same score *)
Definition mirrored (m : matrix) : bool :=
  forallb (fun e => match e with
                    | ((x, y), s) => match get m y x with Ok s' => (s =? s')%Z | _ => false end
                    end) m.

Lemma mirrored_symmetric : forall m, mirrored m = true -> symmetric_g (get m).
Proof.
  unfold mirrored, symmetric_g. intros m H x y. rewrite forallb_forall in H.
  assert (K : forall x y s, get m x y = Ok s -> get m y x = Ok s).
  { intros x1 y1 s Hg. apply get_in in Hg. specialize (H _ Hg). cbn in H.
    destruct (get m y1 x1); try discriminate. apply Z.eqb_eq in H. subst. reflexivity. }
  destruct (get_ok_or_panic m x y) as [[s Hs]|Hp].
  - rewrite Hs. symmetry. apply K. exact Hs.
  - destruct (get_ok_or_panic m y x) as [[s Hs]|Hq].
    + apply K in Hs. rewrite Hs in Hp. discriminate.
    + rewrite Hp, Hq. reflexivity.
Qed.

(* ---- the six shipped PAM/BLOSUM tables ------------------------------------- *)
(* "ABCDEFGHIKLMNPQRSTVWXYZ" and the gap byte *)
Definition protein_letters : bytes :=
  [65;66;67;68;69;70;71;72;73;75;76;77;78;80;81;82;83;84;86;87;88;89;90].
Definition protein_alphabet : bytes := protein_letters ++ [Gap].

Definition shipped_tabs : list matrix :=
  [pam120_tab; pam160_tab; pam250_tab; blosum45_tab; blosum62_tab; blosum80_tab].

Definition totalb (m : matrix) : bool :=
  forallb (fun x => forallb (fun y => is_ok (get m x y)) protein_alphabet) protein_alphabet.

Lemma shipped_total_b : forallb totalb shipped_tabs = true.
Proof. vm_compute. reflexivity. Qed.

Lemma shipped_total : forall m x y, In m shipped_tabs ->
  In x protein_alphabet -> In y protein_alphabet -> exists z, get m x y = Ok z.
Proof.
  intros m x y Hm Hx Hy. pose proof shipped_total_b as H.
  rewrite forallb_forall in H. specialize (H m Hm). unfold totalb in H.
  rewrite forallb_forall in H. specialize (H x Hx).
  rewrite forallb_forall in H. specialize (H y Hy).
  destruct (get m x y); try discriminate. eauto.
Qed.

Lemma shipped_mirrored_b : forallb mirrored shipped_tabs = true.
Proof. vm_compute. reflexivity. Qed.

Lemma shipped_symmetric : forall m, In m shipped_tabs -> symmetric_g (get m).
Proof.
  intros m Hm. apply mirrored_symmetric. pose proof shipped_mirrored_b as H.
  rewrite forallb_forall in H. apply H. exact Hm.
Qed.

Lemma shipped_gap_open_zero : forall m, In m shipped_tabs -> gap_open m = Ok 0%Z.
Proof.
  intros m Hm. unfold gap_open.
  assert (H : forallb (fun m => match get m Gap Gap with Ok 0%Z => true | _ => false end) shipped_tabs = true)
    by (vm_compute; reflexivity).
  rewrite forallb_forall in H. specialize (H m Hm).
  destruct (get m Gap Gap) as [z| |]; try discriminate. destruct z; try discriminate. reflexivity.
Qed.

(* 576 entries each, none flagged as non-integral by the generator *)
Lemma shipped_sizes : map (@length _) shipped_tabs = repeat (N.to_nat 576) 6
  /\ [pam120_nonintegral; pam160_nonintegral; pam250_nonintegral;
      blosum45_nonintegral; blosum62_nonintegral; blosum80_nonintegral] = repeat false 6.
Proof. vm_compute. split; reflexivity. Qed.

(* gap scores of the shipped matrices are negative: Local's domain *)
Lemma shipped_nonpos : forall m a b, In m shipped_tabs ->
  incl a protein_letters -> incl b protein_letters -> nonpos_gaps m a b.
Proof.
  intros m a b Hm Ha Hb.
  assert (H : forallb (fun m => nonposb (get m) protein_letters protein_letters) shipped_tabs = true)
    by (vm_compute; reflexivity).
  rewrite forallb_forall in H. specialize (H m Hm). apply nonposb_sound in H.
  destruct H as [H1 H2]. split.
  - intros x z [Hx|Hx]; [apply H1; left; exact Hx|apply H1; right; apply Ha; exact Hx].
  - intros y z [Hy|Hy]; [apply H2; left; exact Hy|apply H2; right; apply Hb; exact Hy].
Qed.

Lemma shipped_covers : forall m a b, In m shipped_tabs ->
  incl a protein_letters -> incl b protein_letters -> covers m a b.
Proof.
  intros m a b Hm Ha Hb x y Hx Hy. apply shipped_total; [exact Hm| |].
  - unfold protein_alphabet. apply in_or_app. destruct Hx as [<-|Hx]; [right; left; reflexivity|left; auto].
  - unfold protein_alphabet. apply in_or_app. destruct Hy as [<-|Hy]; [right; left; reflexivity|left; auto].
Qed.

(* ---- Levenshtein: all 65,536 entries ---------------------------------------- *)
Definition bytes256 : list N := map N.of_nat (seq 0 (N.to_nat 256)).

Lemma in_bytes256 : forall a, a < 256 -> In a bytes256.
Proof.
  intros a H. unfold bytes256. rewrite <- (N2Nat.id a). apply in_map.
  apply in_seq. lia.
Qed.

Definition same_o (x y : outcome Z) : bool :=
  match x, y with Ok u, Ok v => (u =? v)%Z | _, _ => false end.

Lemma lev_rule_b :
  forallb (fun a => forallb (fun b => same_o (lev_get a b) (lev_rule a b)) bytes256) bytes256 = true.
Proof. vm_compute. reflexivity. Qed.

Lemma lev_rule_all : forall a b, a < 256 -> b < 256 -> lev_get a b = lev_rule a b.
Proof.
  intros a b Ha Hb. pose proof lev_rule_b as H.
  rewrite forallb_forall in H. specialize (H a (in_bytes256 a Ha)).
  rewrite forallb_forall in H. specialize (H b (in_bytes256 b Hb)).
  unfold same_o in H. destruct (lev_get a b); try discriminate.
  unfold lev_rule in *. apply Z.eqb_eq in H. subst. reflexivity.
Qed.

Lemma lev_size_ok : lev_size = 65536%Z /\ length lev_tab = N.to_nat 256
  /\ forallb (fun r => Nat.eqb (length r) (N.to_nat 256)) lev_tab = true.
Proof. vm_compute. repeat split; reflexivity. Qed.

(* ---- known finding D7: the two witnesses ------------------------------------ *)
Definition simple_matrix (mt ms gp op : Z) : matrix :=
  [ ((97, 97), mt); ((97, 98), ms); ((97, 255), gp);
    ((98, 97), ms); ((98, 98), mt); ((98, 255), gp);
    ((255, 97), gp); ((255, 98), gp); ((255, 255), op) ].

(* Global a="a" b="aaab", match 1 mismatch -1 gap -1 open -2 *)
Definition d7_global_m : matrix := simple_matrix 1 (-1) (-1) (-2).
Definition d7_global_a : bytes := [97].
Definition d7_global_b : bytes := [97; 97; 97; 98].
Definition d7_global_al : list step := [SMatch; SIns; SIns; SIns].

(* Local a="ababba" b="aaaa", match 2 mismatch 0 gap 0 open -1 *)
Definition d7_local_m : matrix := simple_matrix 2 0 0 (-1).
Definition d7_local_a : bytes := [97; 98; 97; 98; 98; 97].
Definition d7_local_b : bytes := [97; 97; 97; 97].
(* a[0..6) against b[0..4): a-a b-a a-a (bb deleted) a-a = 2+0+2-1+2 = 5 *)
Definition d7_local_al : list step := [SMatch; SMatch; SMatch; SDel; SDel; SMatch].

Lemma d7_global_facts :
  coversb (get d7_global_m) d7_global_a d7_global_b = true /\
  nonposb (get d7_global_m) d7_global_a d7_global_b = true /\
  gap_open d7_global_m = Ok (-2)%Z /\
  consumes d7_global_al = (length d7_global_a, length d7_global_b) /\
  score d7_global_m d7_global_a d7_global_b d7_global_al = Ok (-4)%Z /\
  global d7_global_m d7_global_a d7_global_b = Ok ([SIns; SIns; SIns; SMatch], (-6)%Z).
Proof. vm_compute. repeat split; reflexivity. Qed.

Lemma d7_local_facts :
  coversb (get d7_local_m) d7_local_a d7_local_b = true /\
  nonposb (get d7_local_m) d7_local_a d7_local_b = true /\
  gap_open d7_local_m = Ok (-1)%Z /\
  consumes d7_local_al = (length d7_local_a, length d7_local_b) /\
  score d7_local_m d7_local_a d7_local_b d7_local_al = Ok 5%Z /\
  local d7_local_m d7_local_a d7_local_b = Ok ([SMatch; SMatch; SMatch], 0%Z, 0%Z, 4%Z).
Proof. vm_compute. repeat split; reflexivity. Qed.

(* ======================================================================== *)
(* The theorems at matrix level (the statements of Properties/C08-C10).         *)
Open Scope Z_scope.

Lemma global_valid : forall m a b, covers m a b ->
  exists al s, global m a b = Ok (al, s)
    /\ consumes al = (length a, length b)
    /\ score m a b al = Ok s.
Proof. intros m a b. apply (global_valid_g (get m)). Qed.

Lemma local_valid : forall m a b, covers m a b -> nonpos_gaps m a b ->
  exists r, local m a b = Ok r /\ local_answer_valid (get m) a b r.
Proof. intros m a b. apply (local_valid_g (get m)). Qed.

Lemma no_panic : forall m a b, covers m a b ->
  (exists r, global m a b = Ok r) /\ (exists r, local m a b = Ok r).
Proof. intros m a b. apply (no_panic_g (get m)). Qed.

Lemma global_optimal0 : forall m a b, covers m a b -> gap_open m = Ok 0 ->
  exists gs, global_score m a b = Ok gs /\
    forall al s, consumes al = (length a, length b) -> score m a b al = Ok s -> s <= gs.
Proof. intros m a b. apply (global_optimal0_g (get m)). Qed.

Lemma local_optimal0 : forall m a b, covers m a b -> gap_open m = Ok 0 ->
  exists ls, local_score m a b = Ok ls /\
    forall i j al s, score m (skipn i a) (skipn j b) al = Ok s -> s <= ls.
Proof. intros m a b. apply (local_optimal0_g (get m)). Qed.

Lemma local_none_iff : forall m a b, covers m a b -> nonpos_gaps m a b ->
  exists al ai bi s, local m a b = Ok (al, ai, bi, s) /\
    (al = [] <-> forall x y z, In x a -> In y b -> get m x y = Ok z -> z <= 0).
Proof. intros m a b. apply (local_none_iff_g (get m)). Qed.

Lemma global_swap : forall m a b, symmetric_g (get m) -> covers m a b -> gap_open m = Ok 0 ->
  global_score m a b = global_score m b a.
Proof. intros m a b. apply (global_swap_g (get m)). Qed.

Lemma local_swap : forall m a b, symmetric_g (get m) -> covers m a b -> nonpos_gaps m a b ->
  gap_open m = Ok 0 -> local_score m a b = local_score m b a.
Proof. intros m a b. apply (local_swap_g (get m)). Qed.

Lemma global_affine_lower : forall m a b o, covers m a b -> gap_open m = Ok o -> o <= 0 ->
  exists gs, global_score m a b = Ok gs /\
    forall al s, consumes al = (length a, length b) -> score_linear m a b al = Ok s -> s <= gs.
Proof. intros m a b o. apply (global_affine_lower_g (get m)). Qed.

Lemma local_affine_lower : forall m a b o, covers m a b -> gap_open m = Ok o -> o <= 0 ->
  exists ls, local_score m a b = Ok ls /\
    forall i j al s, score_linear m (skipn i a) (skipn j b) al = Ok s -> s <= ls.
Proof. intros m a b o. apply (local_affine_lower_g (get m)). Qed.

(* ---- shipped matrices: never panic, arguments can be swapped ------------------ *)
Lemma shipped_never_panics : forall m a b, In m shipped_tabs ->
  incl a protein_letters -> incl b protein_letters ->
  (exists r, global m a b = Ok r) /\ (exists r, local m a b = Ok r).
Proof. intros m a b Hm Ha Hb. apply no_panic. apply shipped_covers; assumption. Qed.

Lemma shipped_swap : forall m a b, In m shipped_tabs ->
  incl a protein_letters -> incl b protein_letters ->
  global_score m a b = global_score m b a /\ local_score m a b = local_score m b a.
Proof.
  intros m a b Hm Ha Hb. split.
  - apply global_swap; [apply shipped_symmetric|apply shipped_covers|apply shipped_gap_open_zero]; assumption.
  - apply local_swap; [apply shipped_symmetric|apply shipped_covers|apply shipped_nonpos
                       |apply shipped_gap_open_zero]; assumption.
Qed.

Lemma shipped_optimal : forall m a b, In m shipped_tabs ->
  incl a protein_letters -> incl b protein_letters ->
  (exists gs, global_score m a b = Ok gs /\
     forall al s, consumes al = (length a, length b) -> score m a b al = Ok s -> s <= gs)
  /\ (exists ls, local_score m a b = Ok ls /\
     forall i j al s, score m (skipn i a) (skipn j b) al = Ok s -> s <= ls).
Proof.
  intros m a b Hm Ha Hb. split.
  - apply global_optimal0; [apply shipped_covers|apply shipped_gap_open_zero]; assumption.
  - apply local_optimal0; [apply shipped_covers|apply shipped_gap_open_zero]; assumption.
Qed.

(* ---- Levenshtein ----------------------------------------------------------------- *)
Lemma lev_get_agrees : forall a b,
  Forall (fun x => (x < 255)%N) a -> Forall (fun x => (x < 255)%N) b -> agrees wlev lev_get a b.
Proof.
  intros a b Ha Hb x y Hx Hy.
  rewrite Forall_forall in Ha, Hb.
  assert (Hx' : (x < 256)%N) by (destruct Hx as [<-|Hx]; [reflexivity|specialize (Ha x Hx); lia]).
  assert (Hy' : (y < 256)%N) by (destruct Hy as [<-|Hy]; [reflexivity|specialize (Hb y Hy); lia]).
  rewrite (lev_rule_all x y Hx' Hy'). reflexivity.
Qed.

Lemma lt255_no_gap : forall a, Forall (fun x => (x < 255)%N) a -> ~ In Gap a.
Proof.
  intros a H Hin. rewrite Forall_forall in H. specialize (H Gap Hin). unfold Gap in H. lia.
Qed.

(* the shipped table: byte strings over 0..254 (255 is the gap byte) *)
Lemma lev_is_edit_distance : forall a b,
  Forall (fun x => (x < 255)%N) a -> Forall (fun x => (x < 255)%N) b ->
  global_score_g lev_get a b = Ok (- Z.of_nat (edit_distance a b)).
Proof.
  intros a b Ha Hb. apply lev_edit_distance_g.
  - apply lev_get_agrees; assumption.
  - apply lt255_no_gap; exact Ha.
  - apply lt255_no_gap; exact Hb.
Qed.

(* the rule itself, over any alphabet that avoids the gap byte *)
Lemma lev_rule_is_edit_distance : forall a b, ~ In Gap a -> ~ In Gap b ->
  global_score_g lev_rule a b = Ok (- Z.of_nat (edit_distance a b)).
Proof.
  intros a b Ha Hb. apply lev_edit_distance_g; [|exact Ha|exact Hb].
  intros x y _ _. reflexivity.
Qed.

Lemma lev_never_panics : forall a b,
  Forall (fun x => (x < 255)%N) a -> Forall (fun x => (x < 255)%N) b ->
  (exists r, global_g lev_get a b = Ok r) /\ (exists r, local_g lev_get a b = Ok r).
Proof.
  intros a b Ha Hb. apply no_panic_g. intros x y Hx Hy.
  rewrite (lev_get_agrees a b Ha Hb x y Hx Hy). eauto.
Qed.

(* ---- C10: the full statement and its refutation ------------------------------------ *)
Definition global_optimal_at (m : matrix) (a b : bytes) : Prop :=
  exists gs, global_score m a b = Ok gs /\
    forall al s, consumes al = (length a, length b) -> score m a b al = Ok s -> s <= gs.

Definition local_optimal_at (m : matrix) (a b : bytes) : Prop :=
  exists ls, local_score m a b = Ok ls /\
    forall i j al s, score m (skipn i a) (skipn j b) al = Ok s -> s <= ls.

Definition affine_optimal_statement : Prop :=
  forall m a b o, covers m a b -> nonpos_gaps m a b -> gap_open m = Ok o -> o <> 0 ->
    global_optimal_at m a b /\ local_optimal_at m a b.

Lemma global_affine_refuted :
  exists m a b o, covers m a b /\ nonpos_gaps m a b /\ gap_open m = Ok o /\ o <> 0
    /\ exists al s gs, consumes al = (length a, length b) /\ score m a b al = Ok s
         /\ global_score m a b = Ok gs /\ gs < s.
Proof.
  destruct d7_global_facts as (Hc & Hn & Ho & Hal & Hs & Hg).
  exists d7_global_m, d7_global_a, d7_global_b, (-2).
  split; [apply coversb_sound; exact Hc|]. split; [apply nonposb_sound; exact Hn|].
  split; [exact Ho|]. split; [lia|].
  exists d7_global_al, (-4), (-6). split; [exact Hal|]. split; [exact Hs|].
  split; [unfold global_score, global_score_g; fold (global d7_global_m d7_global_a d7_global_b);
          rewrite Hg; reflexivity|lia].
Qed.

Lemma local_affine_refuted :
  exists m a b o, covers m a b /\ nonpos_gaps m a b /\ gap_open m = Ok o /\ o <> 0
    /\ exists i j al s ls, score m (skipn i a) (skipn j b) al = Ok s
         /\ local_score m a b = Ok ls /\ ls < s.
Proof.
  destruct d7_local_facts as (Hc & Hn & Ho & Hal & Hs & Hg).
  exists d7_local_m, d7_local_a, d7_local_b, (-1).
  split; [apply coversb_sound; exact Hc|]. split; [apply nonposb_sound; exact Hn|].
  split; [exact Ho|]. split; [lia|].
  exists O, O, d7_local_al, 5, 4. split; [exact Hs|].
  split; [unfold local_score, local_score_g; fold (local d7_local_m d7_local_a d7_local_b);
          rewrite Hg; reflexivity|lia].
Qed.

Lemma affine_optimal_statement_false : ~ affine_optimal_statement.
Proof.
  intros H.
  destruct global_affine_refuted as (m & a & b & o & Hc & Hn & Ho & Hne & al & s & gs & Hal & Hs & Hg & Hlt).
  destruct (H m a b o Hc Hn Ho Hne) as [(gs' & Hg' & Hb) _].
  rewrite Hg in Hg'. injection Hg' as <-. specialize (Hb al s Hal Hs). lia.
Qed.
