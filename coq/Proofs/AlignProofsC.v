(* Proofs/AlignProofsC.v — finite checks: the shipped tables (gen/Tables.v,
   gen/Lev.v, regenerated from the implementation on every run) and the two
   witnesses of known finding D7; boolean deciders for the domain predicates. *)
From Bio Require Import Base.
From Bio.gen Require Import Tables Lev.
From Bio.Model Require Import Align.
From Bio.Spec Require Import AlignSpec.
From Bio.Proofs Require Import AlignProofs AlignProofsB.
Open Scope N_scope.

(* ---- deciders for covers / nonpos_gaps ---------------------------------- *)
Definition is_ok (o : outcome Z) : bool := match o with Ok _ => true | _ => false end.

Definition coversb (g : scorer) (a b : bytes) : bool :=
  forallb (fun x => forallb (fun y => is_ok (g x y)) (Gap :: b)) (Gap :: a).

Lemma coversb_sound : forall g a b, coversb g a b = true -> covers_g g a b.
Proof.
  unfold coversb, covers_g. intros g a b H x y Hx Hy.
  rewrite forallb_forall in H. specialize (H x Hx).
  rewrite forallb_forall in H. specialize (H y Hy).
  destruct (g x y); try discriminate. eauto.
Qed.

Definition nonpos_o (o : outcome Z) : bool := match o with Ok z => (z <=? 0)%Z | _ => true end.

Definition nonposb (g : scorer) (a b : bytes) : bool :=
  forallb (fun x => nonpos_o (g x Gap)) (Gap :: a) && forallb (fun y => nonpos_o (g Gap y)) (Gap :: b).

Lemma nonposb_sound : forall g a b, nonposb g a b = true -> nonpos_gaps_g g a b.
Proof.
  unfold nonposb, nonpos_gaps_g. intros g a b H.
  apply andb_true_iff in H. destruct H as [H1 H2].
  rewrite forallb_forall in H1, H2. split.
  - intros x z Hx Hg. specialize (H1 x Hx). rewrite Hg in H1. cbn in H1. lia.
  - intros y z Hy Hg. specialize (H2 y Hy). rewrite Hg in H2. cbn in H2. lia.
Qed.

(* ---- association lists ---------------------------------------------------- *)
Lemma get_in : forall m x y s, get m x y = Ok s -> In ((x, y), s) m.
Proof.
  induction m as [|[[x0 y0] s0] r IH]; intros x y s H; cbn in H; [discriminate|].
  destruct ((x0 =? x) && (y0 =? y)) eqn:E.
  - apply andb_true_iff in E. destruct E as [E1 E2].
    apply N.eqb_eq in E1, E2. subst. inversion H. subst. left. reflexivity.
  - right. apply IH. exact H.
Qed.

Lemma get_ok_or_panic : forall m x y, (exists s, get m x y = Ok s) \/ get m x y = Panic.
Proof.
  induction m as [|[[x0 y0] s0] r IH]; intros x y; cbn; [right; reflexivity|].
  destruct ((x0 =? x) && (y0 =? y)); [left; eauto|apply IH].
Qed.

(* every entry has its mirror image with the same score *)
Definition mirrored (m : matrix) : bool :=
  forallb (fun e => match e with
                    | ((x, y), s) => match get m y x with Ok s' => (s =? s')%Z | _ => false end
                    end) m.

Lemma mirrored_symmetric : forall m, mirrored m = true -> symmetric_g (get m).
Proof.
  unfold mirrored, symmetric_g. intros m H x y. rewrite forallb_forall in H.
  assert (K : forall x y s, get m x y = Ok s -> get m y x = Ok s).
  { intros x1 y1 s Hg. apply get_in in Hg. specialize (H _ Hg). cbn in H.
    destruct (get m y1 x1); try discriminate. apply Z.eqb_eq in H. subst. reflexivity. }
  destruct (get_ok_or_panic m x y) as [[s Hs]|Hp].
  - rewrite Hs. symmetry. apply K. exact Hs.
  - destruct (get_ok_or_panic m y x) as [[s Hs]|Hq].
    + apply K in Hs. rewrite Hs in Hp. discriminate.
    + rewrite Hp, Hq. reflexivity.
Qed.

(* ---- the six shipped PAM/BLOSUM tables ------------------------------------- *)
(* "ABCDEFGHIKLMNPQRSTVWXYZ" and the gap byte *)
Definition protein_letters : bytes :=
  [65;66;67;68;69;70;71;72;73;75;76;77;78;80;81;82;83;84;86;87;88;89;90].
Definition protein_alphabet : bytes := protein_letters ++ [Gap].

Definition shipped_tabs : list matrix :=
  [pam120_tab; pam160_tab; pam250_tab; blosum45_tab; blosum62_tab; blosum80_tab].

Definition totalb (m : matrix) : bool :=
  forallb (fun x => forallb (fun y => is_ok (get m x y)) protein_alphabet) protein_alphabet.

Lemma shipped_total_b : forallb totalb shipped_tabs = true.
Proof. vm_compute. reflexivity. Qed.

Lemma shipped_total : forall m x y, In m shipped_tabs ->
  In x protein_alphabet -> In y protein_alphabet -> exists z, get m x y = Ok z.
Proof.
  intros m x y Hm Hx Hy. pose proof shipped_total_b as H.
  rewrite forallb_forall in H. specialize (H m Hm). unfold totalb in H.
  rewrite forallb_forall in H. specialize (H x Hx).
  rewrite forallb_forall in H. specialize (H y Hy).
  destruct (get m x y); try discriminate. eauto.
Qed.

Lemma shipped_mirrored_b : forallb mirrored shipped_tabs = true.
Proof. vm_compute. reflexivity. Qed.

Lemma shipped_symmetric : forall m, In m shipped_tabs -> symmetric_g (get m).
Proof.
  intros m Hm. apply mirrored_symmetric. pose proof shipped_mirrored_b as H.
  rewrite forallb_forall in H. apply H. exact Hm.
Qed.

Lemma shipped_gap_open_zero : forall m, In m shipped_tabs -> gap_open m = Ok 0%Z.
Proof.
  intros m Hm. unfold gap_open.
  assert (H : forallb (fun m => match get m Gap Gap with Ok 0%Z => true | _ => false end) shipped_tabs = true)
    by (vm_compute; reflexivity).
  rewrite forallb_forall in H. specialize (H m Hm).
  destruct (get m Gap Gap) as [z| |]; try discriminate. destruct z; try discriminate. reflexivity.
Qed.

(* 576 entries each, none flagged as non-integral by the generator *)
Lemma shipped_sizes : map (@length _) shipped_tabs = repeat (N.to_nat 576) 6
  /\ [pam120_nonintegral; pam160_nonintegral; pam250_nonintegral;
      blosum45_nonintegral; blosum62_nonintegral; blosum80_nonintegral] = repeat false 6.
Proof. vm_compute. split; reflexivity. Qed.

(* gap scores of the shipped matrices are negative: Local's domain *)
Lemma shipped_nonpos : forall m a b, In m shipped_tabs ->
  incl a protein_letters -> incl b protein_letters -> nonpos_gaps m a b.
Proof.
  intros m a b Hm Ha Hb.
  assert (H : forallb (fun m => nonposb (get m) protein_letters protein_letters) shipped_tabs = true)
    by (vm_compute; reflexivity).
  rewrite forallb_forall in H. specialize (H m Hm). apply nonposb_sound in H.
  destruct H as [H1 H2]. split.
  - intros x z [Hx|Hx]; [apply H1; left; exact Hx|apply H1; right; apply Ha; exact Hx].
  - intros y z [Hy|Hy]; [apply H2; left; exact Hy|apply H2; right; apply Hb; exact Hy].
Qed.

Lemma shipped_covers : forall m a b, In m shipped_tabs ->
  incl a protein_letters -> incl b protein_letters -> covers m a b.
Proof.
  intros m a b Hm Ha Hb x y Hx Hy. apply shipped_total; [exact Hm| |].
  - unfold protein_alphabet. apply in_or_app. destruct Hx as [<-|Hx]; [right; left; reflexivity|left; auto].
  - unfold protein_alphabet. apply in_or_app. destruct Hy as [<-|Hy]; [right; left; reflexivity|left; auto].
Qed.

(* ---- Levenshtein: all 65,536 entries ---------------------------------------- *)
Definition bytes256 : list N := map N.of_nat (seq 0 (N.to_nat 256)).

Lemma in_bytes256 : forall a, a < 256 -> In a bytes256.
Proof.
  intros a H. unfold bytes256. rewrite <- (N2Nat.id a). apply in_map.
  apply in_seq. lia.
Qed.

Definition same_o (x y : outcome Z) : bool :=
  match x, y with Ok u, Ok v => (u =? v)%Z | _, _ => false end.

Lemma lev_rule_b :
  forallb (fun a => forallb (fun b => same_o (lev_get a b) (lev_rule a b)) bytes256) bytes256 = true.
Proof. vm_compute. reflexivity. Qed.

Lemma lev_rule_all : forall a b, a < 256 -> b < 256 -> lev_get a b = lev_rule a b.
Proof.
  intros a b Ha Hb. pose proof lev_rule_b as H.
  rewrite forallb_forall in H. specialize (H a (in_bytes256 a Ha)).
  rewrite forallb_forall in H. specialize (H b (in_bytes256 b Hb)).
  unfold same_o in H. destruct (lev_get a b); try discriminate.
  unfold lev_rule in *. apply Z.eqb_eq in H. subst. reflexivity.
Qed.

Lemma lev_size_ok : lev_size = 65536%Z /\ length lev_tab = N.to_nat 256
  /\ forallb (fun r => Nat.eqb (length r) (N.to_nat 256)) lev_tab = true.
Proof. vm_compute. repeat split; reflexivity. Qed.

(* ---- known finding D7: the two witnesses ------------------------------------ *)
Definition simple_matrix (mt ms gp op : Z) : matrix :=
  [ ((97, 97), mt); ((97, 98), ms); ((97, 255), gp);
    ((98, 97), ms); ((98, 98), mt); ((98, 255), gp);
    ((255, 97), gp); ((255, 98), gp); ((255, 255), op) ].

(* Global a="a" b="aaab", match 1 mismatch -1 gap -1 open -2 *)
Definition d7_global_m : matrix := simple_matrix 1 (-1) (-1) (-2).
Definition d7_global_a : bytes := [97].
Definition d7_global_b : bytes := [97; 97; 97; 98].
Definition d7_global_al : list step := [SMatch; SIns; SIns; SIns].

(* Local a="ababba" b="aaaa", match 2 mismatch 0 gap 0 open -1 *)
Definition d7_local_m : matrix := simple_matrix 2 0 0 (-1).
Definition d7_local_a : bytes := [97; 98; 97; 98; 98; 97].
Definition d7_local_b : bytes := [97; 97; 97; 97].
(* a[0..6) against b[0..4): a-a b-a a-a (bb deleted) a-a = 2+0+2-1+2 = 5 *)
Definition d7_local_al : list step := [SMatch; SMatch; SMatch; SDel; SDel; SMatch].

Lemma d7_global_facts :
  coversb (get d7_global_m) d7_global_a d7_global_b = true /\
  nonposb (get d7_global_m) d7_global_a d7_global_b = true /\
  gap_open d7_global_m = Ok (-2)%Z /\
  consumes d7_global_al = (length d7_global_a, length d7_global_b) /\
  score d7_global_m d7_global_a d7_global_b d7_global_al = Ok (-4)%Z /\
  global d7_global_m d7_global_a d7_global_b = Ok ([SIns; SIns; SIns; SMatch], (-6)%Z).
Proof. vm_compute. repeat split; reflexivity. Qed.

Lemma d7_local_facts :
  coversb (get d7_local_m) d7_local_a d7_local_b = true /\
  nonposb (get d7_local_m) d7_local_a d7_local_b = true /\
  gap_open d7_local_m = Ok (-1)%Z /\
  consumes d7_local_al = (length d7_local_a, length d7_local_b) /\
  score d7_local_m d7_local_a d7_local_b d7_local_al = Ok 5%Z /\
  local d7_local_m d7_local_a d7_local_b = Ok ([SMatch; SMatch; SMatch], 0%Z, 0%Z, 4%Z).
Proof. vm_compute. repeat split; reflexivity. Qed.

(* ======================================================================== *)
(* The theorems at matrix level (the statements of Properties/C08-C10).         *)
Open Scope Z_scope.

Lemma global_valid : forall m a b, covers m a b ->
  exists al s, global m a b = Ok (al, s)
    /\ consumes al = (length a, length b)
    /\ score m a b al = Ok s.
Proof. intros m a b. apply (global_valid_g (get m)). Qed.

Lemma local_valid : forall m a b, covers m a b -> nonpos_gaps m a b ->
  exists r, local m a b = Ok r /\ local_answer_valid (get m) a b r.
Proof. intros m a b. apply (local_valid_g (get m)). Qed.

Lemma no_panic : forall m a b, covers m a b ->
  (exists r, global m a b = Ok r) /\ (exists r, local m a b = Ok r).
Proof. intros m a b. apply (no_panic_g (get m)). Qed.

Lemma global_optimal0 : forall m a b, covers m a b -> gap_open m = Ok 0 ->
  exists gs, global_score m a b = Ok gs /\
    forall al s, consumes al = (length a, length b) -> score m a b al = Ok s -> s <= gs.
Proof. intros m a b. apply (global_optimal0_g (get m)). Qed.

Lemma local_optimal0 : forall m a b, covers m a b -> gap_open m = Ok 0 ->
  exists ls, local_score m a b = Ok ls /\
    forall i j al s, score m (skipn i a) (skipn j b) al = Ok s -> s <= ls.
Proof. intros m a b. apply (local_optimal0_g (get m)). Qed.
