(* Proofs/AlignProofsC.v *)
From Bio Require Import Base.
