(* Proofs/ImpProofsS.v — translated source, part 19: the decoders return on every input.
   Corollaries of the equivalence theorems: none of the translated readers can panic (index out
   of range, nil dereference, explicit panic) or run out of its fuel, whatever the bytes and
   whichever way the stream ends. *)
From Coq Require Import ZifyBool ZifyNat ZifyN.
From Bio Require Import Base.
From Bio.gen Require Import ImpGen.
From Bio.Model Require Import GoSem GoLib.
From Bio.Model Require Newick Smtext.
From Bio.Proofs Require ImpProofsJ ImpProofsK ImpProofsL ImpProofsO ImpProofsQ ImpProofsR NewickProofsC SmtextProofsC.
Open Scope Z_scope.

Definition returns {A} (r : res unit A) : Prop := exists x, r = Ret x.

Theorem fasta_Reader_returns fuel inp t : (length inp + 2 < fuel)%nat ->
  returns (imp_fastard_Reader fuel (Stream inp (ImpProofsJ.term_code t) None)).
Proof. intros Hf. rewrite (ImpProofsJ.imp_fasta_Reader fuel inp t Hf). eexists. reflexivity. Qed.

Theorem fastq_Reader_returns fuel cur (toks : list bytes) t : (length toks + 1 < fuel)%nat ->
  returns (imp_fastqrd_Reader fuel (Scanner cur toks (ImpProofsK.scan_code t) false)).
Proof.
  intros Hf. destruct (ImpProofsK.imp_fastq_Reader fuel cur toks t Hf) as (s' & out & -> & _).
  eexists. reflexivity.
Qed.

Theorem bed_Reader_returns t fuel s : (length s + 2 < fuel)%nat ->
  returns (imp_bed_Reader fuel (Stream s (ImpProofsJ.term_code t) None)).
Proof. intros Hf. destruct (ImpProofsL.imp_bed_Reader_ok t fuel s Hf) as (st & ->). eexists. reflexivity. Qed.

Theorem sam_ReaderHeader_returns o t fuel s : (length s + 1 < fuel)%nat ->
  returns (imp_samrd_ReaderHeader fuel o (Stream s (ImpProofsJ.term_code t) None)).
Proof. intros Hf. destruct (ImpProofsQ.imp_sam_ReaderHeader_ok o t fuel s Hf) as (st & ->). eexists. reflexivity. Qed.

Theorem sam_Reader_returns o t fuel s : (length s + 1 < fuel)%nat ->
  returns (imp_samrd_Reader fuel o (Stream s (ImpProofsJ.term_code t) None)).
Proof. intros Hf. destruct (ImpProofsQ.imp_sam_Reader_ok o t fuel s Hf) as (st & ->). eexists. reflexivity. Qed.

Theorem newick_read_returns o tm fuel h s last r0 : (length s + 2 < fuel)%nat ->
  returns (imp_newickrd_reader_read fuel o h (Stream s (ImpProofsJ.term_code tm) last) r0).
Proof.
  intros Hf. pose proof (ImpProofsR.imp_read_ok o tm fuel h s last r0 Hf) as H.
  pose proof (NewickProofsC.read_tree_no_panic o s tm) as Hn.
  destruct (Newick.read_tree o s tm); cbn [ImpProofsR.rd_agrees] in H.
  - destruct H as (? & ? & ? & ? & -> & _). eexists. reflexivity.
  - destruct H as (? & ? & ? & -> & _). eexists. reflexivity.
  - destruct H as (? & ? & ? & ? & -> & _). eexists. reflexivity.
  - congruence.
Qed.

Theorem smtext_ReadNCBI_returns o fuel cur (toks : list bytes) code : (length toks < fuel)%nat ->
  returns (imp_smtext_ReadNCBI fuel o (Scanner cur toks code false)).
Proof.
  intros Hf. pose proof (ImpProofsO.imp_ReadNCBI o fuel cur toks code Hf) as H.
  pose proof (SmtextProofsC.fold_no_panic o (map (@Rec bytes) toks) (Ok ([], []))) as Hn.
  destruct (fold_left (Smtext.read_step o) (map (@Rec bytes) toks) (Ok ([], []))) as [[m cs]| |];
    cbn [ImpProofsO.nc_agrees] in H.
  - destruct H as (rd & ->). destruct (code =? 0); eexists; reflexivity.
  - destruct H as (rd & ->). eexists. reflexivity.
  - exfalso. apply Hn; [discriminate | reflexivity].
Qed.
