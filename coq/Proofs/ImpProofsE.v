(* Proofs/ImpProofsE.v — translated source vs hand-written model, part 5: the dynamic-
   programming loop of align.Global.  Under the hypothesis that the matrix answers every
   pair the two sequences need ([agrees]), the flat loop translated from global.go fills
   exactly the table of the model (the memoised [pcell] of Proofs/AlignProofs.v), cell by
   cell, and Global returns the model's steps and score. *)
From Coq Require Import ZifyBool ZifyNat ZifyN.
From Bio Require Import Base.
From Bio.gen Require Import ImpGen.
From Bio.Model Require Import GoSem Align.
From Bio.Spec Require Import AlignSpec.
From Bio.Proofs Require Import AlignProofs ImpProofs ImpProofsB ImpProofsD.
Open Scope Z_scope.

Ltac Zify.zify_post_hook ::= Z.div_mod_to_equations.

(* ---- list updates ---------------------------------------------------------------------- *)
Lemma set_nth_length {A} (l : list A) n v : length (set_nth l n v) = length l.
Proof. revert n. induction l as [|x l IH]; intros [|n]; cbn [set_nth length]; try reflexivity. f_equal. apply IH. Qed.

Lemma nth_error_set_nth_eq {A} (l : list A) n v : (n < length l)%nat -> nth_error (set_nth l n v) n = Some v.
Proof. revert n. induction l as [|x l IH]; intros [|n] H; cbn [set_nth length nth_error] in *; try lia; [reflexivity|]. apply IH. lia. Qed.

Lemma nth_error_set_nth_neq {A} (l : list A) n k v : n <> k -> nth_error (set_nth l n v) k = nth_error l k.
Proof. revert n k. induction l as [|x l IH]; intros [|n] [|k] H; cbn [set_nth nth_error]; try reflexivity; try congruence. apply IH. congruence. Qed.

Lemma set_nth_set_nth {A} (l : list A) n v v' : set_nth (set_nth l n v) n v' = set_nth l n v'.
Proof. revert n. induction l as [|x l IH]; intros [|n]; cbn [set_nth]; try reflexivity. f_equal. apply IH. Qed.

Lemma set_nth_same {A} (l : list A) n v : nth_error l n = Some v -> set_nth l n v = l.
Proof. revert n. induction l as [|x l IH]; intros [|n] H; cbn [set_nth nth_error] in *; try discriminate; [congruence|]. f_equal. apply IH. exact H. Qed.

Lemma go_index_some {A S R} (l : list A) i x (k : A -> res S R) :
  0 <= i -> nth_error l (Z.to_nat i) = Some x -> go_index l i k = k x.
Proof. intros Hi H. unfold go_index. destruct (Z.ltb_spec i 0); [lia|]. rewrite H. reflexivity. Qed.

Lemma go_set_ok {A S R} (l : list A) i v (k : list A -> res S R) :
  0 <= i < go_len l -> go_set l i v k = k (set_nth l (Z.to_nat i) v).
Proof.
  intros Hi. unfold go_set. destruct (Z.ltb_spec i 0); [lia|]. destruct (Z.leb_spec (go_len l) i); [lia|]. reflexivity.
Qed.

(* ---- index arithmetic --------------------------------------------------------------------- *)
Lemma idx_quot bn (ra rb : bytes) : Z.of_nat (length rb) < bn -> Z.quot (idx bn ra rb) bn = Z.of_nat (length ra).
Proof.
  intros H. unfold idx. rewrite Z.quot_div_nonneg by nia.
  symmetry. apply (Z.div_unique _ _ _ (Z.of_nat (length rb))); lia.
Qed.

Lemma idx_rem bn (ra rb : bytes) : Z.of_nat (length rb) < bn -> Z.rem (idx bn ra rb) bn = Z.of_nat (length rb).
Proof.
  intros H. unfold idx. rewrite Z.rem_mod_nonneg by nia.
  symmetry. apply (Z.mod_unique _ _ (Z.of_nat (length ra))); lia.
Qed.

Lemma rev_split_nth (a : bytes) pa x ra : rev a = pa ++ x :: ra -> a = rev ra ++ x :: rev pa.
Proof.
  intros H. rewrite <- (rev_involutive a), H, rev_app_distr. cbn [rev]. rewrite <- app_assoc. reflexivity.
Qed.

Lemma rev_suffix_length (a : bytes) pa ra : rev a = pa ++ ra -> (length ra <= length a)%nat.
Proof. intros H. rewrite <- (rev_length a), H, app_length. lia. Qed.

(* ---- the loop body, as generated ------------------------------------------------------------- *)
Definition zero_block : imp_align_block := Imp_align_block 0 0%N.

Definition global_body {R} (a b : list N) (m : list ((N * N) * Z)) (bn : Z)
  : Z -> list imp_align_block -> res (list imp_align_block) R :=
  (fun i blocks => go_quot i bn (fun t__4 => let t__5 := t__4 in go_rem i bn (fun t__6 => let t__7 := t__6 in let ai := t__5 in let bi := t__7 in (if (andb (Z.eqb ai (0)%Z) (Z.eqb bi (0)%Z)) then Next blocks else (if (Z.eqb ai (0)%Z) then go_index blocks i (fun t__8 => go_set blocks i (imp_align_block_with_step t__8 3%N) (fun t__9 => let blocks := t__9 in go_index blocks (Z.sub i (1)%Z) (fun t__10 => go_index b (Z.sub bi (1)%Z) (fun t__11 => go_call (imp_align_SubstitutionMatrix_Get m 255%N t__11) (fun t__12 => go_index blocks i (fun t__13 => go_set blocks i (imp_align_block_with_score t__13 (Z.add (imp_align_block_score t__10) t__12)) (fun t__14 => let blocks := t__14 in (if (Z.eqb bi (1)%Z) then go_index blocks i (fun t__15 => go_call (imp_align_SubstitutionMatrix_Get m 255%N 255%N) (fun t__16 => go_index blocks i (fun t__17 => go_set blocks i (imp_align_block_with_score t__17 (Z.add (imp_align_block_score t__15) t__16)) (fun t__18 => let blocks := t__18 in Next blocks)))) else Next blocks)))))))) else (if (Z.eqb bi (0)%Z) then go_index blocks i (fun t__19 => go_set blocks i (imp_align_block_with_step t__19 2%N) (fun t__20 => let blocks := t__20 in go_index blocks (Z.sub i bn) (fun t__21 => go_index a (Z.sub ai (1)%Z) (fun t__22 => go_call (imp_align_SubstitutionMatrix_Get m t__22 255%N) (fun t__23 => go_index blocks i (fun t__24 => go_set blocks i (imp_align_block_with_score t__24 (Z.add (imp_align_block_score t__21) t__23)) (fun t__25 => let blocks := t__25 in (if (Z.eqb ai (1)%Z) then go_index blocks i (fun t__26 => go_call (imp_align_SubstitutionMatrix_Get m 255%N 255%N) (fun t__27 => go_index blocks i (fun t__28 => go_set blocks i (imp_align_block_with_score t__28 (Z.add (imp_align_block_score t__26) t__27)) (fun t__29 => let blocks := t__29 in Next blocks)))) else Next blocks)))))))) else go_index blocks (Z.sub (Z.sub i bn) (1)%Z) (fun t__30 => go_index a (Z.sub ai (1)%Z) (fun t__31 => go_index b (Z.sub bi (1)%Z) (fun t__32 => go_call (imp_align_SubstitutionMatrix_Get m t__31 t__32) (fun t__33 => let mch := (Z.add (imp_align_block_score t__30) t__33) in go_index blocks (Z.sub i bn) (fun t__34 => go_index a (Z.sub ai (1)%Z) (fun t__35 => go_call (imp_align_SubstitutionMatrix_Get m t__35 255%N) (fun t__36 => let del := (Z.add (imp_align_block_score t__34) t__36) in go_index blocks (Z.sub i bn) (fun t__37 => (if (negb (N.eqb (imp_align_block_step t__37) 2%N)) then go_call (imp_align_SubstitutionMatrix_Get m 255%N 255%N) (fun t__38 => let del := (Z.add del t__38) in go_index blocks (Z.sub i (1)%Z) (fun t__39 => go_index b (Z.sub bi (1)%Z) (fun t__40 => go_call (imp_align_SubstitutionMatrix_Get m 255%N t__40) (fun t__41 => let ins := (Z.add (imp_align_block_score t__39) t__41) in go_index blocks (Z.sub i (1)%Z) (fun t__42 => (if (negb (N.eqb (imp_align_block_step t__42) 3%N)) then go_call (imp_align_SubstitutionMatrix_Get m 255%N 255%N) (fun t__43 => let ins := (Z.add ins t__43) in go_call (imp_align_decideOnStep mch del ins) (fun t__44 => go_set blocks i t__44 (fun t__45 => let blocks := t__45 in Next blocks))) else go_call (imp_align_decideOnStep mch del ins) (fun t__46 => go_set blocks i t__46 (fun t__47 => let blocks := t__47 in Next blocks)))))))) else go_index blocks (Z.sub i (1)%Z) (fun t__48 => go_index b (Z.sub bi (1)%Z) (fun t__49 => go_call (imp_align_SubstitutionMatrix_Get m 255%N t__49) (fun t__50 => let ins := (Z.add (imp_align_block_score t__48) t__50) in go_index blocks (Z.sub i (1)%Z) (fun t__51 => (if (negb (N.eqb (imp_align_block_step t__51) 3%N)) then go_call (imp_align_SubstitutionMatrix_Get m 255%N 255%N) (fun t__52 => let ins := (Z.add ins t__52) in go_call (imp_align_decideOnStep mch del ins) (fun t__53 => go_set blocks i t__53 (fun t__54 => let blocks := t__54 in Next blocks))) else go_call (imp_align_decideOnStep mch del ins) (fun t__55 => go_set blocks i t__55 (fun t__56 => let blocks := t__56 in Next blocks)))))))))))))))))))))).

Lemma step_n_is_del s : N.eqb (step_n s) 2 = is_del s.
Proof. destruct s; reflexivity. Qed.
Lemma step_n_is_ins s : N.eqb (step_n s) 3 = is_ins s.
Proof. destruct s; reflexivity. Qed.

Section DP.
Variable w : byte -> byte -> Z.
Variable m : matrix.
Variables a b : bytes.
Hypothesis Hag : agrees w (get m) a b.
Variable R : Type.
Variable clamp : cell -> cell.

Let bn : Z := bn_of b.
Let spec : list cell := concat (table_spec w clamp a b).
Let n : nat := (S (length a) * S (length b))%nat.

Definition inv (i : Z) (blocks : list imp_align_block) : Prop :=
  length blocks = n
  /\ (forall k, (k < Z.to_nat i)%nat -> nth_error blocks k = option_map blk_of (nth_error spec k))
  /\ (forall k, (Z.to_nat i <= k < n)%nat -> nth_error blocks k = Some zero_block).

Lemma get_ok x y : In x (Gap :: a) -> In y (Gap :: b) -> imp_align_SubstitutionMatrix_Get m x y = Ret (w x y).
Proof. intros Hx Hy. rewrite imp_Get, (Hag x y Hx Hy). reflexivity. Qed.

Lemma in_of_rev (s : bytes) p x r : rev s = p ++ x :: r -> In x (Gap :: s).
Proof. intros H. right. apply in_rev. rewrite H. apply in_or_app. right. left. reflexivity. Qed.

Lemma idx_bound pa ra pb rb : rev a = pa ++ ra -> rev b = pb ++ rb ->
  0 <= idx bn ra rb < Z.of_nat n.
Proof.
  intros Ha Hb. apply rev_suffix_length in Ha. apply rev_suffix_length in Hb.
  unfold idx, bn, bn_of, n. nia.
Qed.

Lemma lookup_prev blocks i pa ra pb rb : inv i blocks -> rev a = pa ++ ra -> rev b = pb ++ rb ->
  idx bn ra rb < i ->
  nth_error blocks (Z.to_nat (idx bn ra rb)) = Some (blk_of (pcell w clamp ra rb)).
Proof.
  intros (_ & Hp & _) Ha Hb Hlt. pose proof (idx_bound pa ra pb rb Ha Hb).
  rewrite Hp by lia. unfold spec, bn. rewrite (blocks_lookup w clamp a b pa ra pb rb Ha Hb). reflexivity.
Qed.

Lemma set_preserves_inv_prefix blocks i v : inv i blocks -> 0 <= i < Z.of_nat n ->
  nth_error spec (Z.to_nat i) = Some v ->
  inv (i + 1) (set_nth blocks (Z.to_nat i) (blk_of v)).
Proof.
  intros (Hl & Hp & Hz) Hi Hv. split; [|split].
  - rewrite set_nth_length. exact Hl.
  - intros k Hk. destruct (Nat.eq_dec k (Z.to_nat i)) as [->|Hne].
    + rewrite nth_error_set_nth_eq by lia. rewrite Hv. reflexivity.
    + rewrite nth_error_set_nth_neq by congruence. apply Hp. lia.
  - intros k Hk. rewrite nth_error_set_nth_neq by lia. apply Hz. lia.
Qed.



Variable body : Z -> list imp_align_block -> res (list imp_align_block) R.
Hypothesis Hcell : forall blocks pa ra pb rb, rev a = pa ++ ra -> rev b = pb ++ rb ->
  inv (idx bn ra rb) blocks ->
  body (idx bn ra rb) blocks = Next (set_nth blocks (Z.to_nat (idx bn ra rb)) (blk_of (pcell w clamp ra rb))).

Lemma split_index (j : nat) : (j < n)%nat ->
  exists pa ra pb rb, rev a = pa ++ ra /\ rev b = pb ++ rb /\ idx bn ra rb = Z.of_nat j.
Proof.
  intros Hj. set (bnn := S (length b)).
  exists (rev (skipn (j / bnn) a)), (rev (firstn (j / bnn) a)), (rev (skipn (j mod bnn) b)), (rev (firstn (j mod bnn) b)).
  split; [|split].
  - rewrite <- rev_app_distr, firstn_skipn. reflexivity.
  - rewrite <- rev_app_distr, firstn_skipn. reflexivity.
  - unfold idx. rewrite !rev_length, !firstn_length.
    assert (j / bnn <= length a)%nat.
    { unfold n in Hj. fold bnn in Hj. apply Nat.lt_succ_r. apply Nat.div_lt_upper_bound; unfold bnn; lia. }
    assert (j mod bnn < bnn)%nat by (apply Nat.mod_upper_bound; unfold bnn; lia).
    rewrite !Nat.min_l by (unfold bnn in *; lia).
    unfold bn, bn_of. pose proof (Nat.div_mod j bnn ltac:(unfold bnn; lia)) as E. unfold bnn in *. nia.
Qed.

Lemma spec_length : length spec = n.
Proof. unfold spec, n. apply blocks_length. Qed.

Lemma fill_loop : forall cnt (j : nat) blocks, (j + cnt = n)%nat -> inv (Z.of_nat j) blocks ->
  exists B, go_iter (body) (zseq (Z.of_nat j) cnt) blocks = Next B /\ inv (Z.of_nat n) B.
Proof.
  induction cnt as [|cnt IH]; intros j blocks Hj Hinv.
  - exists blocks. split; [reflexivity|]. replace n with j by lia. exact Hinv.
  - rewrite zseq_cons. cbn [go_iter].
    destruct (split_index j ltac:(lia)) as (pa & ra & pb & rb & Ha & Hb & Hi).
    replace (body (Z.of_nat j) blocks) with (body (idx bn ra rb) blocks) by (rewrite Hi; reflexivity).
    rewrite <- Hi in Hinv.
    rewrite (Hcell blocks pa ra pb rb Ha Hb Hinv).
    replace (Z.of_nat j + 1) with (Z.of_nat (S j)) by lia.
    apply IH; [lia|]. replace (Z.of_nat (S j)) with (idx bn ra rb + 1) by lia.
    apply set_preserves_inv_prefix; [exact Hinv|lia|].
    unfold spec, bn. apply (blocks_lookup w clamp a b pa ra pb rb Ha Hb).
Qed.

Lemma nth_error_ext' {A} (l1 l2 : list A) : (forall k, nth_error l1 k = nth_error l2 k) -> l1 = l2.
Proof.
  revert l2. induction l1 as [|x l1 IH]; intros [|y l2] H; try reflexivity; try (specialize (H 0%nat); discriminate).
  pose proof (H 0%nat) as H0. cbn in H0. injection H0 as <-. f_equal. apply IH. intros k. exact (H (S k)).
Qed.

Lemma inv_full B : inv (Z.of_nat n) B -> B = map blk_of spec.
Proof.
  intros (Hl & Hp & _). apply nth_error_ext'. intros k. rewrite nth_error_map.
  destruct (Nat.lt_ge_cases k n) as [Hk|Hk].
  - apply Hp. lia.
  - rewrite (proj2 (nth_error_None B k)) by lia.
    rewrite (proj2 (nth_error_None spec k)) by (rewrite spec_length; lia). reflexivity.
Qed.

Lemma inv_init : inv (Z.of_nat 0) (repeat zero_block n).
Proof.
  split; [apply repeat_length|split].
  - intros k Hk. cbn in Hk. lia.
  - intros k Hk. apply nth_error_repeat. lia.
Qed.

(* the whole loop: the table of the model *)
Lemma dp_fill :
  go_iter (body) (zseq 0 n) (repeat zero_block n) = Next (map blk_of spec).
Proof.
  destruct (fill_loop n 0 (repeat zero_block n) eq_refl inv_init) as (B & HB & Hinv).
  change (Z.of_nat 0) with 0 in HB. rewrite HB. f_equal. apply inv_full. exact Hinv.
Qed.

End DP.


Section GlobalCell.
Variable w : byte -> byte -> Z.
Variable m : matrix.
Variables a b : bytes.
Hypothesis Hag : agrees w (get m) a b.
Variable R : Type.
Notation bn := (bn_of b).
Notation n := (S (length a) * S (length b))%nat.
Notation inv := (inv w a b clamp_none).
Notation get_ok := (get_ok w m a b Hag).
Notation idx_bound := (idx_bound a b).
Notation lookup_prev := (lookup_prev w a b clamp_none).

Lemma global_cell blocks pa ra pb rb : rev a = pa ++ ra -> rev b = pb ++ rb ->
  inv (idx bn ra rb) blocks ->
  global_body (R := R) a b m bn (idx bn ra rb) blocks
  = Next (set_nth blocks (Z.to_nat (idx bn ra rb)) (blk_of (pcell w clamp_none ra rb))).
Proof.
  intros Ha Hb Hinv.
  pose proof (idx_bound pa ra pb rb Ha Hb) as Hi.
  pose proof (rev_suffix_length _ _ _ Ha) as Hla. pose proof (rev_suffix_length _ _ _ Hb) as Hlb.
  assert (Hbn : Z.of_nat (length rb) < bn) by (unfold bn_of; lia).
  assert (Hbn0 : bn <> 0) by (unfold bn_of; lia).
  assert (Hlen : go_len blocks = Z.of_nat n) by (unfold go_len; destruct Hinv as (-> & _); reflexivity).
  assert (Hcur : nth_error blocks (Z.to_nat (idx bn ra rb)) = Some zero_block).
  { destruct Hinv as (_ & _ & Hz). apply Hz. lia. }
  assert (HGG : imp_align_SubstitutionMatrix_Get m 255%N 255%N = Ret (w Gap Gap)) by (apply get_ok; left; reflexivity).
  unfold global_body. unfold go_quot, go_rem. destruct (Z.eqb_spec bn 0) as [Ez|_]; [contradiction|].
  rewrite (idx_quot bn ra rb Hbn), (idx_rem bn ra rb Hbn). cbv zeta.
  set (i := idx bn ra rb) in *.
  destruct ra as [|x ra'], rb as [|y rb']; cbn [length]; change (Z.of_nat 0) with 0.
  - (* the corner *)
    cbn [Z.eqb andb]. f_equal. symmetry. apply set_nth_same. exact Hcur.
  - (* row 0 *)
    replace (Z.of_nat (S (length rb')) =? 0) with false by lia. cbn [Z.eqb andb].
    assert (Hy : In y (Gap :: b)) by (eapply in_of_rev; exact Hb).
    assert (Hb' : rev b = (pb ++ [y]) ++ rb') by (rewrite <- app_assoc; exact Hb).
    assert (Hival : i = Z.of_nat (S (length rb'))) by (unfold i, idx; cbn [length]; lia).
    assert (Hleft : nth_error blocks (Z.to_nat (i - 1)) = Some (blk_of (pcell w clamp_none [] rb'))).
    { replace (i - 1) with (idx bn [] rb') by (unfold i, idx; cbn [length]; lia).
      apply (lookup_prev blocks i pa [] (pb ++ [y]) rb' Hinv Ha Hb'). unfold i, idx. cbn [length]. lia. }
    rewrite (go_index_some blocks i zero_block) by (first [lia | exact Hcur]).
    rewrite (go_set_ok blocks i) by lia.
    set (B1 := set_nth blocks (Z.to_nat i) _).
    assert (HB1len : go_len B1 = Z.of_nat n) by (unfold go_len, B1; rewrite set_nth_length; exact Hlen).
    rewrite (go_index_some B1 (i - 1) (blk_of (pcell w clamp_none [] rb')))
      by (first [lia | unfold B1; rewrite nth_error_set_nth_neq by lia; exact Hleft]).
    rewrite (rev_split_nth b pb y rb' Hb) at 1.
    rewrite (go_index_mid (rev rb') y (rev pb)) by (unfold go_len; rewrite rev_length; lia).
    rewrite (get_ok 255%N y (or_introl eq_refl) Hy). cbn [go_call].
    rewrite (go_index_some B1 i (imp_align_block_with_step zero_block 3%N))
      by (first [lia | unfold B1; apply nth_error_set_nth_eq; unfold go_len in Hlen; lia]).
    rewrite (go_set_ok B1 i) by lia.
    set (v1 := imp_align_block_with_score _ _).
    assert (EB2 : set_nth B1 (Z.to_nat i) v1 = set_nth blocks (Z.to_nat i) v1) by (unfold B1; apply set_nth_set_nth).
    rewrite !EB2.
    set (B2 := set_nth blocks (Z.to_nat i) v1).
    assert (HB2len : go_len B2 = Z.of_nat n) by (unfold go_len, B2; rewrite set_nth_length; exact Hlen).
    rewrite pcell_nil_cons. unfold clamp_none.
    destruct rb' as [|y' rb'']; cbn [length is_nil].
    + change (Z.of_nat 1 =? 1) with true. cbv iota.
      rewrite (go_index_some B2 i v1) by (first [lia | unfold B2; apply nth_error_set_nth_eq; unfold go_len in Hlen; lia]).
      rewrite HGG. cbn [go_call].
      rewrite (go_index_some B2 i v1) by (first [lia | unfold B2; apply nth_error_set_nth_eq; unfold go_len in Hlen; lia]).
      rewrite (go_set_ok B2 i) by lia. unfold B2. rewrite set_nth_set_nth. reflexivity.
    + replace (Z.of_nat (S (S (length rb''))) =? 1) with false by lia.
      unfold B2, opn. rewrite Z.add_0_r. reflexivity.
  - (* column 0 *)
    replace (Z.of_nat (S (length ra')) =? 0) with false by lia. cbn [Z.eqb andb].
    assert (Hx : In x (Gap :: a)) by (eapply in_of_rev; exact Ha).
    assert (Ha' : rev a = (pa ++ [x]) ++ ra') by (rewrite <- app_assoc; exact Ha).
    assert (Hup : nth_error blocks (Z.to_nat (i - bn)) = Some (blk_of (pcell w clamp_none ra' []))).
    { replace (i - bn) with (idx bn ra' []) by (unfold i, idx; cbn [length]; lia).
      apply (lookup_prev blocks i (pa ++ [x]) ra' pb [] Hinv Ha' Hb). unfold i, idx. cbn [length]. lia. }
    assert (Hibn : 0 <= i - bn) by (unfold i, idx; cbn [length]; nia).
    assert (Hbnpos : 0 < bn) by (unfold bn_of; lia).
    rewrite (go_index_some blocks i zero_block) by (first [lia | exact Hcur]).
    rewrite (go_set_ok blocks i) by lia.
    set (B1 := set_nth blocks (Z.to_nat i) _).
    assert (HB1len : go_len B1 = Z.of_nat n) by (unfold go_len, B1; rewrite set_nth_length; exact Hlen).
    rewrite (go_index_some B1 (i - bn) (blk_of (pcell w clamp_none ra' [])))
      by (first [lia | unfold B1; rewrite nth_error_set_nth_neq by lia; exact Hup]).
    rewrite (rev_split_nth a pa x ra' Ha) at 1.
    rewrite (go_index_mid (rev ra') x (rev pa)) by (unfold go_len; rewrite rev_length; lia).
    rewrite (get_ok x 255%N Hx (or_introl eq_refl)). cbn [go_call].
    rewrite (go_index_some B1 i (imp_align_block_with_step zero_block 2%N))
      by (first [lia | unfold B1; apply nth_error_set_nth_eq; unfold go_len in Hlen; lia]).
    rewrite (go_set_ok B1 i) by lia.
    set (v1 := imp_align_block_with_score _ _).
    assert (EB2 : set_nth B1 (Z.to_nat i) v1 = set_nth blocks (Z.to_nat i) v1) by (unfold B1; apply set_nth_set_nth).
    rewrite !EB2.
    set (B2 := set_nth blocks (Z.to_nat i) v1).
    assert (HB2len : go_len B2 = Z.of_nat n) by (unfold go_len, B2; rewrite set_nth_length; exact Hlen).
    rewrite pcell_cons_nil. unfold clamp_none.
    destruct ra' as [|x' ra'']; cbn [length is_nil].
    + change (Z.of_nat 1 =? 1) with true. cbv iota.
      rewrite (go_index_some B2 i v1) by (first [lia | unfold B2; apply nth_error_set_nth_eq; unfold go_len in Hlen; lia]).
      rewrite HGG. cbn [go_call].
      rewrite (go_index_some B2 i v1) by (first [lia | unfold B2; apply nth_error_set_nth_eq; unfold go_len in Hlen; lia]).
      rewrite (go_set_ok B2 i) by lia. unfold B2. rewrite set_nth_set_nth. reflexivity.
    + replace (Z.of_nat (S (S (length ra''))) =? 1) with false by lia.
      unfold B2, opn. rewrite Z.add_0_r. reflexivity.
  - (* the middle *)
    replace (Z.of_nat (S (length ra')) =? 0) with false by lia.
    replace (Z.of_nat (S (length rb')) =? 0) with false by lia. cbn [andb].
    assert (Hx : In x (Gap :: a)) by (eapply in_of_rev; exact Ha).
    assert (Hy : In y (Gap :: b)) by (eapply in_of_rev; exact Hb).
    assert (Ha' : rev a = (pa ++ [x]) ++ ra') by (rewrite <- app_assoc; exact Ha).
    assert (Hb' : rev b = (pb ++ [y]) ++ rb') by (rewrite <- app_assoc; exact Hb).
    assert (Hibn : 0 <= i - bn - 1) by (unfold i, idx; cbn [length]; nia).
    assert (Hbnpos : 0 < bn) by (unfold bn_of; lia).
    assert (Hdiag : nth_error blocks (Z.to_nat (i - bn - 1)) = Some (blk_of (pcell w clamp_none ra' rb'))).
    { replace (i - bn - 1) with (idx bn ra' rb') by (unfold i, idx; cbn [length]; lia).
      apply (lookup_prev blocks i (pa ++ [x]) ra' (pb ++ [y]) rb' Hinv Ha' Hb'). unfold i, idx. cbn [length]. lia. }
    assert (Hup : nth_error blocks (Z.to_nat (i - bn)) = Some (blk_of (pcell w clamp_none ra' (y :: rb')))).
    { replace (i - bn) with (idx bn ra' (y :: rb')) by (unfold i, idx; cbn [length]; lia).
      apply (lookup_prev blocks i (pa ++ [x]) ra' pb (y :: rb') Hinv Ha' Hb). unfold i, idx. cbn [length]. lia. }
    assert (Hleft : nth_error blocks (Z.to_nat (i - 1)) = Some (blk_of (pcell w clamp_none (x :: ra') rb'))).
    { replace (i - 1) with (idx bn (x :: ra') rb') by (unfold i, idx; cbn [length]; lia).
      apply (lookup_prev blocks i pa (x :: ra') (pb ++ [y]) rb' Hinv Ha Hb'). unfold i, idx. cbn [length]. lia. }
    set (cD := pcell w clamp_none ra' rb') in *.
    set (cU := pcell w clamp_none ra' (y :: rb')) in *.
    set (cL := pcell w clamp_none (x :: ra') rb') in *.
    rewrite pcell_cons_cons. fold cD cU cL. unfold clamp_none.
    assert (Ea : forall S' (k : N -> res S' R), go_index a (Z.of_nat (S (length ra')) - 1) k = k x).
    { intros S' k. rewrite (rev_split_nth a pa x ra' Ha).
      apply (go_index_mid (rev ra') x (rev pa)). unfold go_len. rewrite rev_length. lia. }
    assert (Eb : forall S' (k : N -> res S' R), go_index b (Z.of_nat (S (length rb')) - 1) k = k y).
    { intros S' k. rewrite (rev_split_nth b pb y rb' Hb).
      apply (go_index_mid (rev rb') y (rev pb)). unfold go_len. rewrite rev_length. lia. }
    assert (Hdel : forall c : cell, N.eqb (imp_align_block_step (blk_of c)) 2 = is_del (snd c)) by (intros c; apply step_n_is_del).
    assert (Hins : forall c : cell, N.eqb (imp_align_block_step (blk_of c)) 3 = is_ins (snd c)) by (intros c; apply step_n_is_ins).
    assert (Hsc : forall c : cell, imp_align_block_score (blk_of c) = fst c) by reflexivity.
    unfold opn.
    timeout 300 repeat (first
      [ rewrite (go_index_some blocks (i - bn - 1) (blk_of cD)) by (first [lia | exact Hdiag])
      | rewrite (go_index_some blocks (i - bn) (blk_of cU)) by (first [lia | exact Hup])
      | rewrite (go_index_some blocks (i - 1) (blk_of cL)) by (first [lia | exact Hleft])
      | rewrite Ea | rewrite Eb
      | rewrite (get_ok x y Hx Hy)
      | rewrite (get_ok x 255%N Hx (or_introl eq_refl))
      | rewrite (get_ok 255%N y (or_introl eq_refl) Hy)
      | rewrite HGG
      | rewrite imp_decideOnStep
      | rewrite (go_set_ok blocks i) by lia
      | rewrite Hdel | rewrite Hins | rewrite Hsc ]; cbn [go_call]; cbv zeta).
    destruct (is_del (snd cU)), (is_ins (snd cL)); cbn [negb]; rewrite ?Z.add_0_r; reflexivity.
Qed.

Lemma global_fill :
  go_iter (global_body (R := R) a b m bn) (zseq 0 n) (repeat zero_block n)
  = Next (map blk_of (concat (table_spec w clamp_none a b))).
Proof. apply dp_fill. exact global_cell. Qed.

End GlobalCell.

(* ---- Global -------------------------------------------------------------------------------------- *)
Theorem imp_Global_ok fuel m a b steps s : covers m a b ->
  (S (length a) * S (length b) < fuel)%nat ->
  global m a b = Ok (steps, s) ->
  imp_align_Global fuel a b m = Ret (map step_n steps, s).
Proof.
  intros Hc Hf Hg. pose proof (covers_agrees (get m) a b Hc) as Hag.
  set (w := weights (get m)) in *.
  unfold global, global_g in Hg. rewrite (blocks_ok w clamp_none (get m) a b Hag) in Hg. cbn [obind] in Hg.
  set (spec := concat (table_spec w clamp_none a b)) in *.
  assert (Hlen : length spec = (S (length a) * S (length b))%nat) by apply blocks_length.
  unfold imp_align_Global. cbv zeta.
  unfold go_make.
  replace ((go_len a + 1) * (go_len b + 1) <? 0) with false by (unfold go_len; nia).
  replace (Z.to_nat ((go_len a + 1) * (go_len b + 1))) with (S (length a) * S (length b))%nat by (unfold go_len; nia).
  unfold go_range_int.
  match goal with |- context [go_len (repeat ?z ?k)] => replace (go_len (repeat z k)) with (Z.of_nat k) by (unfold go_len; rewrite repeat_length; reflexivity) end.
  rewrite Nat2Z.id.
  change (Imp_align_block 0 0%N) with zero_block.
  timeout 120 (change (go_iter _ (zseq 0 _) (repeat zero_block _))
    with (go_iter (global_body (R := list N * Z) a b m (bn_of b)) (zseq 0 (S (length a) * S (length b))) (repeat zero_block (S (length a) * S (length b))))).
  rewrite (global_fill w m a b Hag). cbn [after]. fold spec.
  change (go_len b + 1) with (bn_of b).
  rewrite (imp_traceAlignmentSteps_ok fuel spec (bn_of b) steps s).
  - reflexivity.
  - unfold bn_of. lia.
  - rewrite Hlen. exact Hf.
  - unfold trace_model. unfold bn_of. exact Hg.
Qed.
