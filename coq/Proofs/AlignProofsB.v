(* Proofs/AlignProofsB.v *)
From Bio Require Import Base.
