(* Proofs/AlignProofsB.v — optimality with zero gap-open (C09), and Local. *)
From Bio Require Import Base.
From Bio.Model Require Import Align.
From Bio.Spec Require Import AlignSpec.
From Bio.Proofs Require Import AlignProofs.
Open Scope Z_scope.

Lemma decide_max : forall m d i,
  m <= fst (decide m d i) /\ d <= fst (decide m d i) /\ i <= fst (decide m d i).
Proof.
  intros m d i. destruct (decide_cases m d i) as [[E H]|[[E H]|[E H]]]; rewrite E; cbn [fst]; lia.
Qed.

Lemma clamp_none_id : forall c, clamp_none c = c.
Proof. reflexivity. Qed.

Lemma fscore_snoc_none : forall w al p a b, fscore w p a b (al ++ [SNone]) = None.
Proof.
  intros w. induction al as [|s r IH]; intros p a b; [reflexivity|].
  destruct s; cbn [app fscore]; try reflexivity.
  - destruct a; [reflexivity|]. destruct b; [reflexivity|]. rewrite IH. reflexivity.
  - destruct a; [reflexivity|]. rewrite IH. reflexivity.
  - destruct b; [reflexivity|]. rewrite IH. reflexivity.
Qed.

Lemma omap_some : forall (f : Z -> Z) o s, option_map f o = Some s -> exists s0, o = Some s0 /\ s = f s0.
Proof. intros f o s H. destruct o; cbn in H; [|discriminate]. injection H as <-. eauto. Qed.

(* ---- Global, gap-open 0: no alignment scores above the cell ----------------- *)
Section Optimal0.
Variable w : byte -> byte -> Z.
Hypothesis open0 : w Gap Gap = 0.

Lemma opn0 : forall c, opn w c = 0.
Proof. intros c. unfold opn. destruct c; [exact open0|reflexivity]. Qed.

Lemma global_upper : forall al ra rb p s,
  consumes al = (length ra, length rb) ->
  fscore w p (rev ra) (rev rb) al = Some s ->
  s <= fst (pcell w clamp_none ra rb).
Proof.
  induction al as [|st al IH] using rev_ind; intros ra rb p s Hc Hs.
  - cbn in Hc. destruct ra; destruct rb; try discriminate. cbn in Hs. injection Hs as <-. cbn. lia.
  - destruct (consumes al) as [i j] eqn:E.
    rewrite (consumes_snoc al st i j E) in Hc. destruct st.
    + rewrite fscore_snoc_none in Hs. discriminate.
    + destruct ra as [|x ra]; [discriminate|]. destruct rb as [|y rb]; [discriminate|].
      cbn [length] in Hc. injection Hc as Hi Hj. subst i j.
      cbn [rev] in Hs. rewrite fscore_snoc_match in Hs by (rewrite E, !rev_length; reflexivity).
      apply omap_some in Hs. destruct Hs as (s0 & Hs0 & ->). cbv beta.
      pose proof (IH ra rb p s0 eq_refl Hs0) as Hle.
      rewrite pcell_cons_cons. rewrite clamp_none_id.
      match goal with |- _ <= fst (decide ?m ?d ?i) => pose proof (decide_max m d i) end. lia.
    + destruct ra as [|x ra]; [discriminate|].
      cbn [length] in Hc. injection Hc as Hi Hj. subst i j.
      cbn [rev] in Hs. rewrite fscore_snoc_del in Hs by (rewrite E, !rev_length; reflexivity).
      apply omap_some in Hs. destruct Hs as (s0 & Hs0 & ->). cbv beta.
      pose proof (IH ra rb p s0 eq_refl Hs0) as Hle.
      unfold cdel. rewrite opn0. destruct rb as [|y rb].
      * rewrite pcell_cons_nil. rewrite clamp_none_id. cbn [fst]. rewrite opn0. lia.
      * rewrite pcell_cons_cons. rewrite clamp_none_id. rewrite !opn0.
        match goal with |- _ <= fst (decide ?m ?d ?i) => pose proof (decide_max m d i) end. lia.
    + destruct rb as [|y rb]; [destruct ra; discriminate|].
      cbn [length] in Hc. injection Hc as Hi Hj. subst i j.
      cbn [rev] in Hs. rewrite fscore_snoc_ins in Hs by (rewrite E, !rev_length; reflexivity).
      apply omap_some in Hs. destruct Hs as (s0 & Hs0 & ->). cbv beta.
      pose proof (IH ra rb p s0 eq_refl Hs0) as Hle.
      unfold cins. rewrite opn0. destruct ra as [|x ra].
      * rewrite pcell_nil_cons. rewrite clamp_none_id. cbn [fst]. rewrite opn0. lia.
      * rewrite pcell_cons_cons. rewrite clamp_none_id. rewrite !opn0.
        match goal with |- _ <= fst (decide ?m ?d ?i) => pose proof (decide_max m d i) end. lia.
Qed.

End Optimal0.

Lemma o2o_ok : forall o s, o2o o = Ok s -> o = Some s.
Proof. intros o s H. destruct o; cbn in H; [injection H as <-; reflexivity|discriminate]. Qed.

Theorem global_optimal0_g : forall g a b, covers_g g a b -> gap_open_g g = Ok 0 ->
  exists gs, global_score_g g a b = Ok gs /\
    forall al s, consumes al = (length a, length b) -> score_g g a b al = Ok s -> s <= gs.
Proof.
  intros g a b Hcov Hopen. destruct (global_g_run g a b Hcov) as (al0 & Hr & _ & _).
  exists (fst (pcell (weights g) clamp_none (rev a) (rev b))). split.
  - unfold global_score_g. rewrite Hr. reflexivity.
  - intros al s Hc Hs. unfold score_g in Hs.
    rewrite (score_from_fscore (weights g) g al SNone a b (covers_agrees g a b Hcov)) in Hs.
    apply o2o_ok in Hs.
    apply (global_upper (weights g)) with (al := al) (p := SNone).
    + unfold weights. unfold gap_open_g in Hopen. rewrite Hopen. reflexivity.
    + rewrite !rev_length. exact Hc.
    + rewrite !rev_involutive. exact Hs.
Qed.

(* ======================================================================== *)
(* Local                                                                        *)
Lemma clamp_local_cases : forall c,
  (clamp_local c = c /\ 0 <= fst c) \/ (clamp_local c = (0, SNone) /\ fst c < 0).
Proof.
  intros c. unfold clamp_local. destruct (Z.ltb_spec (fst c) 0); [right|left]; split; (reflexivity || lia).
Qed.

Lemma clamp_local_pos : forall c, 0 < fst (clamp_local c) -> clamp_local c = c.
Proof.
  intros c H. destruct (clamp_local_cases c) as [[E _]|[E _]]; [exact E|].
  rewrite E in H. cbn in H. lia.
Qed.

Lemma clamp_local_ge : forall c, fst c <= fst (clamp_local c) /\ 0 <= fst (clamp_local c).
Proof.
  intros c. destruct (clamp_local_cases c) as [[E H]|[E H]]; rewrite E; cbn [fst]; lia.
Qed.

Lemma decide_snd : forall m d i,
  match snd (decide m d i) with
  | SMatch => fst (decide m d i) = m
  | SDel => fst (decide m d i) = d
  | SIns => fst (decide m d i) = i
  | SNone => False
  end.
Proof.
  intros m d i. destruct (decide_cases m d i) as [[E _]|[[E _]|[E _]]]; rewrite E; reflexivity.
Qed.

Section LocalPath.
Variable w : byte -> byte -> Z.
Notation lc := (pcell w clamp_local).

Lemma lc_nonneg : forall ra rb, 0 <= fst (lc ra rb).
Proof.
  intros ra rb. destruct ra as [|x ra]; destruct rb as [|y rb].
  - cbn. lia.
  - rewrite pcell_nil_cons. apply clamp_local_ge.
  - rewrite pcell_cons_nil. apply clamp_local_ge.
  - rewrite pcell_cons_cons. apply clamp_local_ge.
Qed.

(* the traceback of Local from cell (ra, rb): the steps, and the cell it stops at *)
Inductive ptrl : bytes -> bytes -> list step -> bytes -> bytes -> Prop :=
| ptrl_stop : forall ra rb, fst (lc ra rb) = 0 -> ptrl ra rb [] ra rb
| ptrl_match : forall x ra y rb al ra0 rb0,
    0 < fst (lc (x :: ra) (y :: rb)) -> snd (lc (x :: ra) (y :: rb)) = SMatch ->
    ptrl ra rb al ra0 rb0 -> ptrl (x :: ra) (y :: rb) (al ++ [SMatch]) ra0 rb0
| ptrl_del : forall x ra rb al ra0 rb0,
    0 < fst (lc (x :: ra) rb) -> snd (lc (x :: ra) rb) = SDel ->
    ptrl ra rb al ra0 rb0 -> ptrl (x :: ra) rb (al ++ [SDel]) ra0 rb0
| ptrl_ins : forall ra y rb al ra0 rb0,
    0 < fst (lc ra (y :: rb)) -> snd (lc ra (y :: rb)) = SIns ->
    ptrl ra rb al ra0 rb0 -> ptrl ra (y :: rb) (al ++ [SIns]) ra0 rb0.

Lemma ptrl_exists : forall n ra rb, (length ra + length rb <= n)%nat ->
  exists al ra0 rb0, ptrl ra rb al ra0 rb0.
Proof.
  induction n as [|n IH]; intros ra rb Hn.
  - destruct ra; destruct rb; cbn in Hn; try lia.
    exists [], [], []. apply ptrl_stop. reflexivity.
  - pose proof (lc_nonneg ra rb) as Hnn.
    destruct (Z.eq_dec (fst (lc ra rb)) 0) as [Hz|Hz].
    { exists [], ra, rb. apply ptrl_stop. exact Hz. }
    assert (Hpos : 0 < fst (lc ra rb)) by lia. clear Hz Hnn.
    destruct ra as [|x ra]; destruct rb as [|y rb].
    + cbn in Hpos. lia.
    + destruct (IH [] rb) as (al & ra0 & rb0 & Hp); [cbn in *; lia|].
      exists (al ++ [SIns]), ra0, rb0. apply ptrl_ins; [exact Hpos| |exact Hp].
      rewrite pcell_nil_cons in *. rewrite (clamp_local_pos _ Hpos). reflexivity.
    + destruct (IH ra []) as (al & ra0 & rb0 & Hp); [cbn in *; lia|].
      exists (al ++ [SDel]), ra0, rb0. apply ptrl_del; [exact Hpos| |exact Hp].
      rewrite pcell_cons_nil in *. rewrite (clamp_local_pos _ Hpos). reflexivity.
    + pose proof Hpos as Hpos'. rewrite pcell_cons_cons in Hpos'.
      pose proof (clamp_local_pos _ Hpos') as Hcl.
      assert (Hcell : lc (x :: ra) (y :: rb) = 
        decide (fst (lc ra rb) + w x y)
               (fst (lc ra (y :: rb)) + w x Gap + opn w (negb (is_del (snd (lc ra (y :: rb))))))
               (fst (lc (x :: ra) rb) + w Gap y + opn w (negb (is_ins (snd (lc (x :: ra) rb))))))
        by (rewrite pcell_cons_cons; exact Hcl).
      match type of Hcell with _ = decide ?m ?d ?i => pose proof (decide_snd m d i) as Hsnd end.
      rewrite <- Hcell in Hsnd.
      destruct (snd (lc (x :: ra) (y :: rb))) eqn:Es; [contradiction| | |].
      * destruct (IH ra rb) as (al & ra0 & rb0 & Hp); [cbn in *; lia|].
        exists (al ++ [SMatch]), ra0, rb0. apply ptrl_match; assumption.
      * destruct (IH ra (y :: rb)) as (al & ra0 & rb0 & Hp); [cbn in *; lia|].
        exists (al ++ [SDel]), ra0, rb0. apply ptrl_del; assumption.
      * destruct (IH (x :: ra) rb) as (al & ra0 & rb0 & Hp); [cbn in *; lia|].
        exists (al ++ [SIns]), ra0, rb0. apply ptrl_ins; assumption.
Qed.

(* ---- the executable traceback follows it ---------------------------------- *)
Definition unmove (bn i : Z) (s : step) : Z :=
  match s with SMatch => i + (bn + 1) | SDel => i + bn | SIns => i + 1 | SNone => i end.

Lemma trace_l_zero : forall f bl bn last acc, trace_l f bl bn 0 last acc = Ok (acc, last).
Proof. destruct f; reflexivity. Qed.

Lemma trace_l_stop : forall f bl bn i last acc st,
  0 < i -> nth_error bl (Z.to_nat i) = Some (0, st) ->
  trace_l (S f) bl bn i last acc = Ok (acc, last).
Proof.
  intros f bl bn i last acc st Hi Hn. cbn [trace_l]. unfold cell in *.
  destruct (Z.leb_spec i 0); [lia|]. rewrite Hn. reflexivity.
Qed.

Lemma trace_l_step : forall f bl bn i last acc s st,
  0 < i -> 0 < s -> nth_error bl (Z.to_nat i) = Some (s, st) ->
  trace_l (S f) bl bn i last acc = trace_l f bl bn (move bn i st) i (st :: acc).
Proof.
  intros f bl bn i last acc s st Hi Hs Hn. cbn [trace_l]. unfold cell in *.
  destruct (Z.leb_spec i 0); [lia|]. rewrite Hn.
  destruct (Z.ltb_spec s 0); [lia|]. destruct (Z.eqb_spec s 0); [lia|]. reflexivity.
Qed.

Definition last_of (bn : Z) (al : list step) (ra0 rb0 : bytes) (last0 : Z) : Z :=
  match al with [] => last0 | s :: _ => unmove bn (idx bn ra0 rb0) s end.

Lemma trace_l_ptrl : forall a b ra rb al ra0 rb0, ptrl ra rb al ra0 rb0 ->
  forall pa pb, rev a = pa ++ ra -> rev b = pb ++ rb ->
  forall fuel last0 acc, (length ra + length rb <= fuel)%nat ->
  trace_l fuel (concat (table_spec w clamp_local a b)) (bn_of b) (idx (bn_of b) ra rb) last0 acc
  = Ok (al ++ acc, last_of (bn_of b) al ra0 rb0 last0).
Proof.
  intros a b ra rb al ra0 rb0 Hp.
  assert (Hbn : 0 < bn_of b) by (unfold bn_of; lia).
  induction Hp as [ra rb Hz|x ra y rb al ra0 rb0 Hpos Hs Hp IH|x ra rb al ra0 rb0 Hpos Hs Hp IH
                  |ra y rb al ra0 rb0 Hpos Hs Hp IH];
    intros pa pb Ha Hb fuel last0 acc Hf.
  - cbn [app last_of].
    destruct (Nat.eq_dec (length ra + length rb) 0) as [E|E].
    + destruct ra; destruct rb; cbn in E; try lia. apply trace_l_zero.
    + destruct fuel as [|f]; [lia|].
      pose proof (blocks_lookup w clamp_local a b pa ra pb rb Ha Hb) as Hl.
      rewrite (surjective_pairing (lc ra rb)), Hz in Hl.
      assert (Hip : 0 < idx (bn_of b) ra rb) by (apply idx_pos; [exact Hbn|lia]).
      apply (trace_l_stop _ _ _ _ _ _ _ Hip Hl).
  - destruct fuel as [|f]; [cbn in Hf; lia|].
    pose proof (blocks_lookup w clamp_local a b pa (x :: ra) pb (y :: rb) Ha Hb) as Hl.
    rewrite (surjective_pairing (lc (x :: ra) (y :: rb))), Hs in Hl.
    assert (Hip : 0 < idx (bn_of b) (x :: ra) (y :: rb)) by (apply idx_pos; [exact Hbn|cbn; lia]).
    rewrite (trace_l_step _ _ _ _ _ _ _ _ Hip Hpos Hl).
    assert (Hmv : move (bn_of b) (idx (bn_of b) (x :: ra) (y :: rb)) SMatch = idx (bn_of b) ra rb)
      by (unfold move, idx; cbn [length]; rewrite !Nat2Z.inj_succ; lia).
    rewrite Hmv.
    rewrite (IH (pa ++ [x]) (pb ++ [y])); [| | |cbn in Hf; lia]; try (rewrite <- app_assoc; assumption).
    rewrite <- app_assoc. f_equal. f_equal.
    inversion Hp; subst; cbn [app last_of]; try reflexivity; try (destruct al0; reflexivity).
    unfold unmove. rewrite <- Hmv. unfold move. lia.
  - destruct fuel as [|f]; [cbn in Hf; lia|].
    pose proof (blocks_lookup w clamp_local a b pa (x :: ra) pb rb Ha Hb) as Hl.
    rewrite (surjective_pairing (lc (x :: ra) rb)), Hs in Hl.
    assert (Hip : 0 < idx (bn_of b) (x :: ra) rb) by (apply idx_pos; [exact Hbn|cbn; lia]).
    rewrite (trace_l_step _ _ _ _ _ _ _ _ Hip Hpos Hl).
    assert (Hmv : move (bn_of b) (idx (bn_of b) (x :: ra) rb) SDel = idx (bn_of b) ra rb)
      by (unfold move, idx; cbn [length]; rewrite !Nat2Z.inj_succ; lia).
    rewrite Hmv.
    rewrite (IH (pa ++ [x]) pb); [| |assumption|cbn in Hf; lia]; try (rewrite <- app_assoc; assumption).
    rewrite <- app_assoc. f_equal. f_equal.
    inversion Hp; subst; cbn [app last_of]; try reflexivity; try (destruct al0; reflexivity).
    unfold unmove. rewrite <- Hmv. unfold move. lia.
  - destruct fuel as [|f]; [cbn in Hf; lia|].
    pose proof (blocks_lookup w clamp_local a b pa ra pb (y :: rb) Ha Hb) as Hl.
    rewrite (surjective_pairing (lc ra (y :: rb))), Hs in Hl.
    assert (Hip : 0 < idx (bn_of b) ra (y :: rb)) by (apply idx_pos; [exact Hbn|cbn; lia]).
    rewrite (trace_l_step _ _ _ _ _ _ _ _ Hip Hpos Hl).
    assert (Hmv : move (bn_of b) (idx (bn_of b) ra (y :: rb)) SIns = idx (bn_of b) ra rb)
      by (unfold move, idx; cbn [length]; rewrite !Nat2Z.inj_succ; lia).
    rewrite Hmv.
    rewrite (IH pa (pb ++ [y])); [|assumption| |cbn in Hf; lia]; try (rewrite <- app_assoc; assumption).
    rewrite <- app_assoc. f_equal. f_equal.
    inversion Hp; subst; cbn [app last_of]; try reflexivity; try (destruct al0; reflexivity).
    unfold unmove. rewrite <- Hmv. unfold move. lia.
Qed.

End LocalPath.

(* ---- argmax --------------------------------------------------------------- *)
Lemma argmax_from_spec : forall l seen imax best cb,
  0 <= imax -> nth_error seen (Z.to_nat imax) = Some cb -> fst cb = best ->
  (forall c, In c seen -> fst c <= best) ->
  0 <= fst (argmax_from l (Z.of_nat (length seen)) imax best)
  /\ (exists c, nth_error (seen ++ l) (Z.to_nat (fst (argmax_from l (Z.of_nat (length seen)) imax best))) = Some c
                /\ fst c = snd (argmax_from l (Z.of_nat (length seen)) imax best))
  /\ (forall c, In c (seen ++ l) -> fst c <= snd (argmax_from l (Z.of_nat (length seen)) imax best)).
Proof.
  induction l as [|c l IH]; intros seen imax best cb H0 Hn Hb Hall.
  - cbn [argmax_from fst snd]. rewrite app_nil_r. split; [exact H0|]. split; [eauto|exact Hall].
  - cbn [argmax_from].
    assert (Hlen : Z.of_nat (length seen) + 1 = Z.of_nat (length (seen ++ [c])))
      by (rewrite app_length; cbn; lia).
    replace (seen ++ c :: l) with ((seen ++ [c]) ++ l) by (rewrite <- app_assoc; reflexivity).
    rewrite Hlen. destruct (Z.gtb_spec (fst c) best) as [Hgt|Hle].
    + apply (IH (seen ++ [c]) (Z.of_nat (length seen)) (fst c) c).
      * lia.
      * rewrite Nat2Z.id, nth_error_app2 by lia. rewrite Nat.sub_diag. reflexivity.
      * reflexivity.
      * intros c' Hin. apply in_app_or in Hin. destruct Hin as [Hin|[<-|[]]]; [|lia].
        specialize (Hall c' Hin). lia.
    + apply (IH (seen ++ [c]) imax best cb).
      * exact H0.
      * rewrite nth_error_app1; [exact Hn|]. apply nth_error_Some. rewrite Hn. discriminate.
      * exact Hb.
      * intros c' Hin. apply in_app_or in Hin. destruct Hin as [Hin|[<-|[]]]; [|lia].
        apply Hall. exact Hin.
Qed.

Lemma argmax_spec : forall bl, bl <> [] ->
  0 <= fst (argmax bl)
  /\ (exists c, nth_error bl (Z.to_nat (fst (argmax bl))) = Some c /\ fst c = snd (argmax bl))
  /\ (forall c, In c bl -> fst c <= snd (argmax bl)).
Proof.
  intros bl Hne. destruct bl as [|c0 r]; [contradiction|].
  unfold argmax. cbn [argmax_from]. destruct (Z.gtb_spec (fst c0) (fst c0)); [lia|].
  change (0 + 1) with (Z.of_nat (length [c0])).
  change (c0 :: r) with ([c0] ++ r).
  apply (argmax_from_spec r [c0] 0 (fst c0) c0).
  - lia.
  - reflexivity.
  - reflexivity.
  - intros c [<-|[]]. lia.
Qed.

(* every block index is the index of a pair of prefixes *)
Lemma idx_decomp : forall a b k, (k < S (length a) * S (length b))%nat ->
  exists pa ra pb rb, rev a = pa ++ ra /\ rev b = pb ++ rb /\ Z.of_nat k = idx (bn_of b) ra rb.
Proof.
  intros a b k Hk. set (n := S (length b)) in *.
  assert (Hn : n <> 0%nat) by (unfold n; lia).
  pose proof (Nat.div_mod k n Hn) as Hdm.
  pose proof (Nat.mod_upper_bound k n Hn) as Hj.
  assert (Hi : (k / n < S (length a))%nat) by (apply Nat.div_lt_upper_bound; [exact Hn|lia]).
  set (i := (k / n)%nat) in *. set (j := (k mod n)%nat) in *.
  exists (rev (skipn i a)), (rev (firstn i a)), (rev (skipn j b)), (rev (firstn j b)).
  split; [rewrite <- rev_app_distr, firstn_skipn; reflexivity|].
  split; [rewrite <- rev_app_distr, firstn_skipn; reflexivity|].
  unfold idx, bn_of. rewrite !rev_length, !firstn_length.
  rewrite (Nat.min_l i) by lia. rewrite (Nat.min_l j) by (unfold n in Hj; lia).
  rewrite Hdm at 1. unfold n. lia.
Qed.

Lemma tail_length : forall {A} (l p t : list A), rev l = p ++ t -> (length t <= length l)%nat.
Proof. intros A l p t H. rewrite <- (rev_length l), H, app_length. lia. Qed.

(* ---- what Local computes, for any covering scorer ---------------------------- *)
Definition local_result (w : byte -> byte -> Z) (bn : Z) (ra rb : bytes) (al : list step)
  (ra0 rb0 : bytes) : list step * Z * Z * Z :=
  let s := fst (pcell w clamp_local ra rb) in
  if s =? 0 then ([], -1, -1, 0)
  else let last := last_of bn al ra0 rb0 (idx bn ra rb) in
       (al, Z.quot last bn - 1, Z.rem last bn - 1, s).

Lemma local_g_run : forall g a b, covers_g g a b ->
  exists pa ra pb rb al ra0 rb0,
    rev a = pa ++ ra /\ rev b = pb ++ rb
    /\ ptrl (weights g) ra rb al ra0 rb0
    /\ (forall pa' ra' pb' rb', rev a = pa' ++ ra' -> rev b = pb' ++ rb' ->
          fst (pcell (weights g) clamp_local ra' rb') <= fst (pcell (weights g) clamp_local ra rb))
    /\ local_g g a b = Ok (local_result (weights g) (bn_of b) ra rb al ra0 rb0).
Proof.
  intros g a b Hcov. pose proof (covers_agrees g a b Hcov) as Hag.
  set (w := weights g) in *.
  unfold local_g. rewrite (blocks_ok w clamp_local g a b Hag). cbn [obind].
  set (bl := concat (table_spec w clamp_local a b)).
  assert (Hlen : length bl = (S (length a) * S (length b))%nat) by apply blocks_length.
  assert (Hne : bl <> []) by (intros E; rewrite E in Hlen; cbn in Hlen; lia).
  destruct (argmax_spec bl Hne) as (H0 & (c & Hc & Hcs) & Hmax).
  destruct (argmax bl) as [imax smax] eqn:Earg. cbn [fst snd] in *.
  assert (Hk : (Z.to_nat imax < length bl)%nat) by (apply nth_error_Some; rewrite Hc; discriminate).
  rewrite Hlen in Hk.
  destruct (idx_decomp a b (Z.to_nat imax) Hk) as (pa & ra & pb & rb & Ha & Hb & Hidx).
  rewrite Z2Nat.id in Hidx by exact H0.
  pose proof (blocks_lookup w clamp_local a b pa ra pb rb Ha Hb) as Hl.
  fold bl in Hl. rewrite <- Hidx, Hc in Hl. injection Hl as Hcell. subst c.
  destruct (ptrl_exists w _ ra rb (le_n _)) as (al & ra0 & rb0 & Hp).
  exists pa, ra, pb, rb, al, ra0, rb0.
  split; [exact Ha|]. split; [exact Hb|]. split; [exact Hp|]. split.
  - intros pa' ra' pb' rb' Ha' Hb'. rewrite Hcs. apply Hmax.
    pose proof (blocks_lookup w clamp_local a b pa' ra' pb' rb' Ha' Hb') as Hl'.
    apply nth_error_In in Hl'. exact Hl'.
  - fold (bn_of b). rewrite Hidx.
    pose proof (tail_length _ _ _ Ha). pose proof (tail_length _ _ _ Hb).
    rewrite (trace_l_ptrl w a b ra rb al ra0 rb0 Hp pa pb Ha Hb) by (rewrite Hlen; nia).
    cbn [obind]. rewrite app_nil_r. unfold local_result. rewrite Hcs.
    destruct (smax =? 0).
    + assert (bn_of b <> 0) by (unfold bn_of; lia).
      rewrite Z.quot_0_l, Z.rem_0_l by assumption. reflexivity.
    + reflexivity.
Qed.

(* ---- Local validity under non-positive gap scores ---------------------------- *)
Section LocalValid.
Variable w : byte -> byte -> Z.
Notation lc := (pcell w clamp_local).
Hypothesis open_nonpos : w Gap Gap <= 0.

Lemma opn_nonpos : forall c, opn w c <= 0.
Proof. intros c. unfold opn. destruct c; [exact open_nonpos|lia]. Qed.

Lemma col0_zero : forall ra, (forall x, In x ra -> w x Gap <= 0) -> fst (lc ra []) = 0.
Proof.
  induction ra as [|x ra IH]; intros H; [reflexivity|].
  rewrite pcell_cons_nil. rewrite IH by (intros u Hu; apply H; right; exact Hu).
  pose proof (H x (or_introl eq_refl)). pose proof (opn_nonpos (@is_nil N ra)).
  match goal with |- fst (clamp_local ?c) = 0 => destruct (clamp_local_cases c) as [[E Hc]|[E Hc]]; rewrite E end;
    cbn [fst] in *; lia.
Qed.

Lemma row0_zero : forall rb, (forall y, In y rb -> w Gap y <= 0) -> fst (lc [] rb) = 0.
Proof.
  induction rb as [|y rb IH]; intros H; [reflexivity|].
  rewrite pcell_nil_cons. rewrite IH by (intros u Hu; apply H; right; exact Hu).
  pose proof (H y (or_introl eq_refl)). pose proof (opn_nonpos (@is_nil N rb)).
  match goal with |- fst (clamp_local ?c) = 0 => destruct (clamp_local_cases c) as [[E Hc]|[E Hc]]; rewrite E end;
    cbn [fst] in *; lia.
Qed.

Lemma lc_pos_cases : forall x ra y rb, 0 < fst (lc (x :: ra) (y :: rb)) ->
  match snd (lc (x :: ra) (y :: rb)) with
  | SMatch => fst (lc (x :: ra) (y :: rb)) = fst (lc ra rb) + w x y
  | SDel => fst (lc (x :: ra) (y :: rb)) =
            fst (lc ra (y :: rb)) + w x Gap + opn w (negb (is_del (snd (lc ra (y :: rb)))))
  | SIns => fst (lc (x :: ra) (y :: rb)) =
            fst (lc (x :: ra) rb) + w Gap y + opn w (negb (is_ins (snd (lc (x :: ra) rb))))
  | SNone => False
  end.
Proof.
  intros x ra y rb H. pose proof H as H'. rewrite pcell_cons_cons in H'.
  apply clamp_local_pos in H'. rewrite pcell_cons_cons. rewrite H'. apply decide_snd.
Qed.

Lemma hd_snoc : forall (al : list step) s, hd SNone al = SMatch -> hd SNone (al ++ [s]) = SMatch.
Proof. intros al s H. destruct al; [discriminate|exact H]. Qed.

Lemma ptrl_valid : forall ra rb al ra0 rb0, ptrl w ra rb al ra0 rb0 ->
  (forall x, In x ra -> w x Gap <= 0) -> (forall y, In y rb -> w Gap y <= 0) ->
  exists pa pb, ra = pa ++ ra0 /\ rb = pb ++ rb0
    /\ consumes al = (length pa, length pb)
    /\ fscore w SNone (rev pa) (rev pb) al = Some (fst (lc ra rb))
    /\ (0 < fst (lc ra rb) -> lastd SNone al = snd (lc ra rb) /\ hd SNone al = SMatch)
    /\ (fst (lc ra rb) = 0 -> al = [])
    /\ fst (lc ra0 rb0) = 0.
Proof.
  intros ra rb al ra0 rb0 Hp.
  induction Hp as [ra rb Hz|x ra y rb al ra0 rb0 Hpos Hs Hp IH|x ra rb al ra0 rb0 Hpos Hs Hp IH
                  |ra y rb al ra0 rb0 Hpos Hs Hp IH]; intros Hd Hi.
  - exists [], []. split; [reflexivity|]. split; [reflexivity|]. split; [reflexivity|].
    split; [cbn; rewrite Hz; reflexivity|]. split; [intros H; rewrite Hz in H; lia|].
    split; [reflexivity|exact Hz].
  - destruct IH as (pa & pb & Ea & Eb & Hc & Hf & Hl & Hn & Hz0).
    { intros u Hu. apply Hd. right. exact Hu. }
    { intros u Hu. apply Hi. right. exact Hu. }
    pose proof (lc_pos_cases x ra y rb Hpos) as Hval. rewrite Hs in Hval.
    exists (x :: pa), (y :: pb). subst ra rb. repeat split; try reflexivity.
    + rewrite (consumes_snoc al SMatch _ _ Hc). reflexivity.
    + cbn [rev]. rewrite fscore_snoc_match by (rewrite Hc, !rev_length; reflexivity).
      rewrite Hf, Hval. reflexivity.
    + rewrite lastd_snoc, Hs. reflexivity.
    + pose proof (lc_nonneg w (pa ++ ra0) (pb ++ rb0)).
      destruct (Z.eq_dec (fst (lc (pa ++ ra0) (pb ++ rb0))) 0) as [E|E].
      * rewrite (Hn E). reflexivity.
      * apply hd_snoc. apply Hl. lia.
    + intros E. rewrite E in Hpos. lia.
    + exact Hz0.
  - pose proof (opn_nonpos (negb (is_del (snd (lc ra rb))))) as Hon.
    pose proof (Hd x (or_introl eq_refl)) as Hx.
    destruct rb as [|y rb].
    { rewrite (col0_zero (x :: ra) Hd) in Hpos. lia. }
    pose proof (lc_pos_cases x ra y rb Hpos) as Hval. rewrite Hs in Hval.
    assert (Hpp : 0 < fst (lc ra (y :: rb))) by lia.
    destruct IH as (pa & pb & Ea & Eb & Hc & Hf & Hl & Hn & Hz0).
    { intros u Hu. apply Hd. right. exact Hu. }
    { exact Hi. }
    destruct (Hl Hpp) as [Hl1 Hl2].
    exists (x :: pa), pb. rewrite Ea at 1. rewrite Eb at 1. repeat split; try reflexivity.
    + rewrite (consumes_snoc al SDel _ _ Hc). reflexivity.
    + cbn [rev]. rewrite fscore_snoc_del by (rewrite Hc, !rev_length; reflexivity).
      rewrite Hf, Hval. cbn [option_map]. f_equal. unfold cdel. rewrite Hl1. lia.
    + rewrite lastd_snoc, Hs. reflexivity.
    + apply hd_snoc. exact Hl2.
    + intros E. rewrite E in Hpos. lia.
    + exact Hz0.
  - pose proof (opn_nonpos (negb (is_ins (snd (lc ra rb))))) as Hon.
    pose proof (Hi y (or_introl eq_refl)) as Hy.
    destruct ra as [|x ra].
    { rewrite (row0_zero (y :: rb) Hi) in Hpos. lia. }
    pose proof (lc_pos_cases x ra y rb Hpos) as Hval. rewrite Hs in Hval.
    assert (Hpp : 0 < fst (lc (x :: ra) rb)) by lia.
    destruct IH as (pa & pb & Ea & Eb & Hc & Hf & Hl & Hn & Hz0).
    { exact Hd. }
    { intros u Hu. apply Hi. right. exact Hu. }
    destruct (Hl Hpp) as [Hl1 Hl2].
    exists pa, (y :: pb). rewrite Ea at 1. rewrite Eb at 1. repeat split; try reflexivity.
    + rewrite (consumes_snoc al SIns _ _ Hc). reflexivity.
    + cbn [rev]. rewrite fscore_snoc_ins by (rewrite Hc, !rev_length; reflexivity).
      rewrite Hf, Hval. cbn [option_map]. f_equal. unfold cins. rewrite Hl1. lia.
    + rewrite lastd_snoc, Hs. reflexivity.
    + apply hd_snoc. exact Hl2.
    + intros E. rewrite E in Hpos. lia.
    + exact Hz0.
Qed.

End LocalValid.

(* ---- assembling Local's validity ------------------------------------------- *)
Lemma fscore_app_ignore : forall w al p a1 b1 a2 b2, consumes al = (length a1, length b1) ->
  fscore w p (a1 ++ a2) (b1 ++ b2) al = fscore w p a1 b1 al.
Proof.
  intros w. induction al as [|s r IH]; intros p a1 b1 a2 b2 Hc; [reflexivity|].
  cbn [consumes] in Hc. destruct (consumes r) as [i j] eqn:E. destruct s.
  - reflexivity.
  - destruct a1 as [|x a1]; [discriminate|]. destruct b1 as [|y b1]; [discriminate|].
    cbn in Hc. injection Hc as Hi Hj. subst i j.
    cbn [app fscore]. rewrite (IH SMatch a1 b1 a2 b2 eq_refl). reflexivity.
  - destruct a1 as [|x a1]; [discriminate|].
    cbn in Hc. injection Hc as Hi Hj. subst i j.
    cbn [app fscore]. rewrite (IH SDel a1 b1 a2 b2 eq_refl). reflexivity.
  - destruct b1 as [|y b1]; [destruct a1; discriminate|].
    cbn in Hc. injection Hc as Hi Hj. subst i j.
    cbn [app fscore]. rewrite (IH SIns a1 b1 a2 b2 eq_refl). reflexivity.
Qed.

Lemma skipn_app_len : forall {A} (l1 l2 : list A), skipn (length l1) (l1 ++ l2) = l2.
Proof. induction l1; intros; cbn; [reflexivity|apply IHl1]. Qed.

Lemma in_skipn : forall {A} n (l : list A) x, In x (skipn n l) -> In x l.
Proof. induction n; intros l x H; [exact H|]. destruct l; [exact H|]. right. apply IHn. exact H. Qed.

Lemma agrees_incl : forall w g a b a' b', incl a' a -> incl b' b ->
  agrees w g a b -> agrees w g a' b'.
Proof.
  intros w g a b a' b' Ha Hb H x y Hx Hy. apply H.
  - destruct Hx as [Hx|Hx]; [left; exact Hx|right; apply Ha; exact Hx].
  - destruct Hy as [Hy|Hy]; [left; exact Hy|right; apply Hb; exact Hy].
Qed.

(* a = (first ++ middle) ++ rest when rev a = rest' ++ middle' ++ first' *)
Lemma rev_split3 : forall {A} (l p m t : list A), rev l = p ++ m ++ t ->
  l = (rev t ++ rev m) ++ rev p.
Proof.
  intros A l p m t H. rewrite <- (rev_involutive l), H, !rev_app_distr. reflexivity.
Qed.

Lemma quot_rem_cell : forall bn i j, 0 <= i -> 0 <= j -> j + 1 < bn ->
  Z.quot ((i + 1) * bn + (j + 1)) bn - 1 = i /\ Z.rem ((i + 1) * bn + (j + 1)) bn - 1 = j.
Proof.
  intros bn i j Hi Hj Hb.
  assert (0 <= (i + 1) * bn) by (apply Z.mul_nonneg_nonneg; lia).
  rewrite Z.quot_div_nonneg, Z.rem_mod_nonneg by lia.
  rewrite <- (Z.div_unique ((i + 1) * bn + (j + 1)) bn (i + 1) (j + 1)) by lia.
  rewrite <- (Z.mod_unique ((i + 1) * bn + (j + 1)) bn (i + 1) (j + 1)) by lia.
  lia.
Qed.

Theorem local_valid_g : forall g a b, covers_g g a b -> nonpos_gaps_g g a b ->
  exists r, local_g g a b = Ok r /\ local_answer_valid g a b r.
Proof.
  intros g a b Hcov [Hnd Hni]. pose proof (covers_agrees g a b Hcov) as Hag.
  destruct (local_g_run g a b Hcov) as (pa & ra & pb & rb & al & ra0 & rb0 & Ha & Hb & Hp & _ & Hrun).
  set (w := weights g) in *.
  exists (local_result w (bn_of b) ra rb al ra0 rb0). split; [exact Hrun|].
  unfold local_result. pose proof (lc_nonneg w ra rb) as Hnn.
  destruct (Z.eqb_spec (fst (pcell w clamp_local ra rb)) 0) as [Hz|Hz].
  { left. repeat split; reflexivity. }
  assert (Hpos : 0 < fst (pcell w clamp_local ra rb)) by lia.
  assert (Hopen : w Gap Gap <= 0).
  { apply (Hnd Gap); [left; reflexivity|]. apply Hag; left; reflexivity. }
  assert (Hd : forall x, In x ra -> w x Gap <= 0).
  { intros x Hx. apply (Hnd x).
    - right. apply (proj2 (in_rev a _)). rewrite Ha. apply in_or_app. right. exact Hx.
    - apply Hag; [|left; reflexivity].
      right. apply (proj2 (in_rev a _)). rewrite Ha. apply in_or_app. right. exact Hx. }
  assert (Hi : forall y, In y rb -> w Gap y <= 0).
  { intros y Hy. apply (Hni y).
    - right. apply (proj2 (in_rev b _)). rewrite Hb. apply in_or_app. right. exact Hy.
    - apply Hag; [left; reflexivity|].
      right. apply (proj2 (in_rev b _)). rewrite Hb. apply in_or_app. right. exact Hy. }
  destruct (ptrl_valid w Hopen ra rb al ra0 rb0 Hp Hd Hi)
    as (pa1 & pb1 & Ea & Eb & Hc & Hf & Hl & _ & _).
  destruct (Hl Hpos) as [_ Hhd].
  destruct al as [|s0 al']; [discriminate|]. cbn [hd] in Hhd. subst s0.
  cbn [last_of unmove].
  pose proof (tail_length _ _ _ Ha) as Hla. pose proof (tail_length _ _ _ Hb) as Hlb.
  rewrite Ea, app_length in Hla. rewrite Eb, app_length in Hlb.
  assert (Hc' := Hc). cbn [consumes] in Hc'. destruct (consumes al') as [i' j'].
  injection Hc' as Hi' Hj'.
  assert (Hidx : idx (bn_of b) ra0 rb0 + (bn_of b + 1)
                 = (Z.of_nat (length ra0) + 1) * bn_of b + (Z.of_nat (length rb0) + 1))
    by (unfold idx; lia).
  rewrite Hidx.
  destruct (quot_rem_cell (bn_of b) (Z.of_nat (length ra0)) (Z.of_nat (length rb0)))
    as [Hq Hr]; [lia|lia|unfold bn_of; lia|].
  rewrite Hq, Hr.
  right. rewrite Hc. cbn [fst snd]. rewrite !Nat2Z.id.
  split; [exact Hpos|]. split; [lia|]. split; [lia|]. split; [lia|]. split; [lia|].
  rewrite Ea in Ha. rewrite Eb in Hb.
  apply rev_split3 in Ha. apply rev_split3 in Hb.
  assert (Hsa : skipn (length ra0) a = rev pa1 ++ rev pa).
  { rewrite Ha at 1. rewrite <- app_assoc, <- (rev_length ra0). apply skipn_app_len. }
  assert (Hsb : skipn (length rb0) b = rev pb1 ++ rev pb).
  { rewrite Hb at 1. rewrite <- app_assoc, <- (rev_length rb0). apply skipn_app_len. }
  rewrite Hsa, Hsb. unfold score_g.
  assert (Hag' : agrees w g (rev pa1 ++ rev pa) (rev pb1 ++ rev pb)).
  { apply (agrees_incl w g a b); [| |exact Hag]; [rewrite <- Hsa|rewrite <- Hsb];
      intros u Hu; eapply in_skipn; eauto. }
  rewrite (score_from_fscore w g _ SNone _ _ Hag').
  rewrite fscore_app_ignore by (rewrite Hc, !rev_length; reflexivity).
  rewrite Hf. reflexivity.
Qed.

(* ---- Local, gap-open 0: no pair of substrings aligns above the maximum cell ---- *)
Section LocalOptimal0.
Variable w : byte -> byte -> Z.
Notation lc := (pcell w clamp_local).
Hypothesis open0 : w Gap Gap = 0.

Lemma local_upper : forall al pa pb ra0 rb0 p s,
  consumes al = (length pa, length pb) ->
  fscore w p (rev pa) (rev pb) al = Some s ->
  s <= fst (lc (pa ++ ra0) (pb ++ rb0)).
Proof.
  induction al as [|st al IH] using rev_ind; intros pa pb ra0 rb0 p s Hc Hs.
  - cbn in Hc. destruct pa; destruct pb; try discriminate. cbn in Hs. injection Hs as <-.
    cbn [app]. apply lc_nonneg.
  - destruct (consumes al) as [i j] eqn:E.
    rewrite (consumes_snoc al st i j E) in Hc. destruct st.
    + rewrite fscore_snoc_none in Hs. discriminate.
    + destruct pa as [|x pa]; [discriminate|]. destruct pb as [|y pb]; [discriminate|].
      cbn [length] in Hc. injection Hc as Hi Hj. subst i j.
      cbn [rev] in Hs. rewrite fscore_snoc_match in Hs by (rewrite E, !rev_length; reflexivity).
      apply omap_some in Hs. destruct Hs as (s0 & Hs0 & ->). cbv beta.
      pose proof (IH pa pb ra0 rb0 p s0 eq_refl Hs0) as Hle.
      cbn [app]. rewrite pcell_cons_cons.
      match goal with |- _ <= fst (clamp_local ?c) => pose proof (clamp_local_ge c) end.
      match goal with H : fst (decide ?m ?d ?i) <= _ /\ _ |- _ => pose proof (decide_max m d i) end. lia.
    + destruct pa as [|x pa]; [discriminate|].
      cbn [length] in Hc. injection Hc as Hi Hj. subst i j.
      cbn [rev] in Hs. rewrite fscore_snoc_del in Hs by (rewrite E, !rev_length; reflexivity).
      apply omap_some in Hs. destruct Hs as (s0 & Hs0 & ->). cbv beta.
      pose proof (IH pa pb ra0 rb0 p s0 eq_refl Hs0) as Hle.
      unfold cdel. rewrite (opn0 w open0). cbn [app]. destruct (pb ++ rb0) as [|y rbb].
      * rewrite pcell_cons_nil.
        match goal with |- _ <= fst (clamp_local ?c) => pose proof (clamp_local_ge c) end.
        cbn [fst] in *. rewrite (opn0 w open0) in *. lia.
      * rewrite pcell_cons_cons.
        match goal with |- _ <= fst (clamp_local ?c) => pose proof (clamp_local_ge c) end.
        match goal with H : fst (decide ?m ?d ?i) <= _ /\ _ |- _ => pose proof (decide_max m d i) end.
        rewrite !(opn0 w open0) in *. lia.
    + destruct pb as [|y pb]; [destruct pa; discriminate|].
      cbn [length] in Hc. injection Hc as Hi Hj. subst i j.
      cbn [rev] in Hs. rewrite fscore_snoc_ins in Hs by (rewrite E, !rev_length; reflexivity).
      apply omap_some in Hs. destruct Hs as (s0 & Hs0 & ->). cbv beta.
      pose proof (IH pa pb ra0 rb0 p s0 eq_refl Hs0) as Hle.
      unfold cins. rewrite (opn0 w open0). cbn [app]. destruct (pa ++ ra0) as [|x raa].
      * rewrite pcell_nil_cons.
        match goal with |- _ <= fst (clamp_local ?c) => pose proof (clamp_local_ge c) end.
        cbn [fst] in *. rewrite (opn0 w open0) in *. lia.
      * rewrite pcell_cons_cons.
        match goal with |- _ <= fst (clamp_local ?c) => pose proof (clamp_local_ge c) end.
        match goal with H : fst (decide ?m ?d ?i) <= _ /\ _ |- _ => pose proof (decide_max m d i) end.
        rewrite !(opn0 w open0) in *. lia.
Qed.

End LocalOptimal0.

Lemma fscore_fits : forall w al p a b s, fscore w p a b al = Some s ->
  (fst (consumes al) <= length a)%nat /\ (snd (consumes al) <= length b)%nat.
Proof.
  intros w. induction al as [|st r IH]; intros p a b s H; [cbn; lia|].
  cbn [consumes]. destruct (consumes r) as [i j] eqn:E. destruct st; cbn [fscore] in H.
  - discriminate.
  - destruct a as [|x a]; [discriminate|]. destruct b as [|y b]; [discriminate|].
    apply omap_some in H. destruct H as (s0 & H & _). apply IH in H. cbn in *. lia.
  - destruct a as [|x a]; [discriminate|].
    apply omap_some in H. destruct H as (s0 & H & _). apply IH in H. cbn in *. lia.
  - destruct b as [|y b]; [discriminate|].
    apply omap_some in H. destruct H as (s0 & H & _). apply IH in H. cbn in *. lia.
Qed.

Lemma local_result_score : forall w bn ra rb al ra0 rb0,
  snd (local_result w bn ra rb al ra0 rb0) = fst (pcell w clamp_local ra rb).
Proof.
  intros. unfold local_result. destruct (Z.eqb_spec (fst (pcell w clamp_local ra rb)) 0) as [E|E];
    [rewrite E|]; reflexivity.
Qed.

Theorem local_optimal0_g : forall g a b, covers_g g a b -> gap_open_g g = Ok 0 ->
  exists ls, local_score_g g a b = Ok ls /\
    forall i j al s, score_g g (skipn i a) (skipn j b) al = Ok s -> s <= ls.
Proof.
  intros g a b Hcov Hopen. pose proof (covers_agrees g a b Hcov) as Hag.
  destruct (local_g_run g a b Hcov) as (pa & ra & pb & rb & al0 & ra0 & rb0 & Ha & Hb & _ & Hmax & Hrun).
  set (w := weights g) in *.
  assert (open0 : w Gap Gap = 0) by (unfold w, weights; unfold gap_open_g in Hopen; rewrite Hopen; reflexivity).
  exists (fst (pcell w clamp_local ra rb)). split.
  - unfold local_score_g. rewrite Hrun. cbn [obind]. rewrite local_result_score. reflexivity.
  - intros i j al s Hs. unfold score_g in Hs.
    assert (Hag' : agrees w g (skipn i a) (skipn j b)).
    { apply (agrees_incl w g a b); [| |exact Hag]; intros u Hu; eapply in_skipn; eauto. }
    rewrite (score_from_fscore w g al SNone _ _ Hag') in Hs. apply o2o_ok in Hs.
    destruct (fscore_fits w al SNone _ _ s Hs) as [Hfa Hfb].
    destruct (consumes al) as [na nb] eqn:Ec. cbn [fst snd] in *.
    rewrite <- (firstn_skipn na (skipn i a)), <- (firstn_skipn nb (skipn j b)) in Hs.
    rewrite fscore_app_ignore in Hs by (rewrite Ec, !firstn_length, !Nat.min_l by lia; reflexivity).
    set (A1 := firstn na (skipn i a)) in *. set (B1 := firstn nb (skipn j b)) in *.
    assert (Hra : rev a = rev (skipn na (skipn i a)) ++ (rev A1 ++ rev (firstn i a))).
    { rewrite <- !rev_app_distr. unfold A1. rewrite app_assoc_reverse.
      rewrite (firstn_skipn na), (firstn_skipn i). reflexivity. }
    assert (Hrb : rev b = rev (skipn nb (skipn j b)) ++ (rev B1 ++ rev (firstn j b))).
    { rewrite <- !rev_app_distr. unfold B1. rewrite app_assoc_reverse.
      rewrite (firstn_skipn nb), (firstn_skipn j). reflexivity. }
    eapply Z.le_trans; [|apply (Hmax _ _ _ _ Hra Hrb)].
    apply (local_upper w open0 al (rev A1) (rev B1) _ _ SNone s).
    + rewrite Ec, !rev_length. unfold A1, B1. rewrite !firstn_length, !Nat.min_l by lia. reflexivity.
    + rewrite !rev_involutive. exact Hs.
Qed.

(* ---- neither function panics on covered sequences ---------------------------- *)
Theorem no_panic_g : forall g a b, covers_g g a b ->
  (exists r, global_g g a b = Ok r) /\ (exists r, local_g g a b = Ok r).
Proof.
  intros g a b Hcov. split.
  - destruct (global_g_run g a b Hcov) as (al & Hr & _). eauto.
  - destruct (local_g_run g a b Hcov) as (pa & ra & pb & rb & al & ra0 & rb0 & _ & _ & _ & _ & Hrun). eauto.
Qed.

(* ======================================================================== *)
(* Levenshtein: Global's score is minus the edit distance.                     *)
Lemma decide_fst_max : forall m d i, fst (decide m d i) = Z.max m (Z.max d i).
Proof.
  intros m d i. destruct (decide_cases m d i) as [[E H]|[[E H]|[E H]]]; rewrite E; cbn [fst]; lia.
Qed.

Definition wlev : byte -> byte -> Z := fun x y => if (x =? y)%N then 0 else -1.

Lemma ed_nil_l : forall b, edit_distance [] b = length b.
Proof. destruct b; reflexivity. Qed.
Lemma ed_nil_r : forall a, edit_distance a [] = length a.
Proof. destruct a; reflexivity. Qed.
Lemma ed_cons : forall x a y b,
  edit_distance (x :: a) (y :: b) =
  min3 (S (edit_distance a (y :: b))) (S (edit_distance (x :: a) b))
       (edit_distance a b + (if (x =? y)%N then 0 else 1))%nat.
Proof. reflexivity. Qed.

Lemma wlev_open0 : wlev Gap Gap = 0.
Proof. reflexivity. Qed.

Lemma wlev_gap_r : forall x, x <> Gap -> wlev x Gap = -1.
Proof. intros x H. unfold wlev. apply N.eqb_neq in H. rewrite H. reflexivity. Qed.
Lemma wlev_gap_l : forall y, y <> Gap -> wlev Gap y = -1.
Proof. intros y H. unfold wlev. destruct (N.eqb_spec Gap y); [subst; contradiction|reflexivity]. Qed.

Lemma lev_cell_ed : forall ra rb : list N, ~ In Gap ra -> ~ In Gap rb ->
  fst (pcell wlev clamp_none ra rb) = - Z.of_nat (edit_distance ra rb).
Proof.
  induction ra as [|x ra IHa]; induction rb as [|y rb IHb]; intros Ha Hb.
  - reflexivity.
  - rewrite pcell_nil_cons, clamp_none_id. cbn [fst].
    rewrite IHb by (try exact Ha; intros H; apply Hb; right; exact H).
    rewrite (opn0 wlev wlev_open0), wlev_gap_l by (intros ->; apply Hb; left; reflexivity).
    rewrite !ed_nil_l. cbn [length]. lia.
  - rewrite pcell_cons_nil, clamp_none_id. cbn [fst].
    rewrite IHa by (try exact Hb; intros H; apply Ha; right; exact H).
    rewrite (opn0 wlev wlev_open0), wlev_gap_r by (intros ->; apply Ha; left; reflexivity).
    rewrite !ed_nil_r. cbn [length]. lia.
  - assert (Ha' : ~ In Gap ra) by (intros H; apply Ha; right; exact H).
    assert (Hb' : ~ In Gap rb) by (intros H; apply Hb; right; exact H).
    rewrite pcell_cons_cons, clamp_none_id, decide_fst_max.
    rewrite (IHa rb Ha' Hb'), (IHa (y :: rb) Ha' Hb), (IHb Ha Hb').
    rewrite !(opn0 wlev wlev_open0).
    rewrite wlev_gap_r by (intros ->; apply Ha; left; reflexivity).
    rewrite wlev_gap_l by (intros ->; apply Hb; left; reflexivity).
    rewrite ed_cons. unfold min3, wlev. destruct (x =? y)%N; lia.
Qed.

Lemma consumes_rev : forall al, consumes (rev al) = consumes al.
Proof.
  induction al as [|s r IH]; [reflexivity|].
  cbn [rev consumes]. rewrite consumes_app, IH. destruct (consumes r), s; cbn; f_equal; lia.
Qed.

Section Rev0.
Variable w : byte -> byte -> Z.
Hypothesis open0 : w Gap Gap = 0.
Notation pc := (pcell w clamp_none).

(* with zero gap-open the score does not depend on the reading direction *)
Lemma fscore_rev0 : forall al p p' a b s, consumes al = (length a, length b) ->
  fscore w p a b al = Some s -> fscore w p' (rev a) (rev b) (rev al) = Some s.
Proof.
  induction al as [|st r IH]; intros p p' a b s Hc Hs.
  - cbn in Hc. destruct a; destruct b; try discriminate. exact Hs.
  - cbn [consumes] in Hc. destruct (consumes r) as [i j] eqn:E. destruct st; cbn [fscore] in Hs.
    + discriminate.
    + destruct a as [|x a]; [discriminate|]. destruct b as [|y b]; [discriminate|].
      cbn in Hc. injection Hc as Hi Hj. subst i j.
      apply omap_some in Hs. destruct Hs as (s0 & Hs0 & ->).
      cbn [rev]. rewrite fscore_snoc_match by (rewrite consumes_rev, E, !rev_length; reflexivity).
      rewrite (IH SMatch p' a b s0 eq_refl Hs0). cbn. f_equal. lia.
    + destruct a as [|x a]; [discriminate|].
      cbn in Hc. injection Hc as Hi Hj. subst i j.
      apply omap_some in Hs. destruct Hs as (s0 & Hs0 & ->).
      cbn [rev]. rewrite fscore_snoc_del by (rewrite consumes_rev, E, !rev_length; reflexivity).
      rewrite (IH SDel p' a b s0 eq_refl Hs0). cbn. f_equal. unfold cdel.
      rewrite !(opn0 w open0). lia.
    + destruct b as [|y b]; [destruct a; discriminate|].
      cbn in Hc. injection Hc as Hi Hj. subst i j.
      apply omap_some in Hs. destruct Hs as (s0 & Hs0 & ->).
      cbn [rev]. rewrite fscore_snoc_ins by (rewrite consumes_rev, E, !rev_length; reflexivity).
      rewrite (IH SIns p' a b s0 eq_refl Hs0). cbn. f_equal. unfold cins.
      rewrite !(opn0 w open0). lia.
Qed.

Lemma pc_rev0_le : forall ra rb, fst (pc ra rb) <= fst (pc (rev ra) (rev rb)).
Proof.
  intros ra rb.
  destruct (global_path w _ ra rb (le_n _)) as (al & Hc & Hs & _ & _).
  apply (global_upper w open0 (rev al) (rev ra) (rev rb) SNone).
  - rewrite consumes_rev, Hc, !rev_length. reflexivity.
  - apply (fscore_rev0 al SNone SNone); [rewrite Hc, !rev_length; reflexivity|exact Hs].
Qed.

Lemma pc_rev0 : forall ra rb, fst (pc (rev ra) (rev rb)) = fst (pc ra rb).
Proof.
  intros ra rb. pose proof (pc_rev0_le ra rb). pose proof (pc_rev0_le (rev ra) (rev rb)) as H1.
  rewrite !rev_involutive in H1. lia.
Qed.

End Rev0.

Theorem lev_edit_distance_g : forall g a b, agrees wlev g a b -> ~ In Gap a -> ~ In Gap b ->
  global_score_g g a b = Ok (- Z.of_nat (edit_distance a b)).
Proof.
  intros g a b Hag Ha Hb. destruct (global_g_run_w wlev g a b Hag) as (al & Hr & _ & _).
  unfold global_score_g. rewrite Hr. cbn [obind snd].
  rewrite (pc_rev0 wlev wlev_open0), (lev_cell_ed a b Ha Hb). reflexivity.
Qed.

(* ======================================================================== *)
(* Symmetric matrices: swapping the arguments.                                 *)
Definition mstep (s : step) : step := match s with SDel => SIns | SIns => SDel | s => s end.
Definition mirror (al : list step) : list step := map mstep al.

Lemma consumes_mirror : forall al, consumes (mirror al) = (snd (consumes al), fst (consumes al)).
Proof.
  induction al as [|s r IH]; [reflexivity|].
  cbn [mirror map consumes]. fold (mirror r). rewrite IH. destruct (consumes r), s; reflexivity.
Qed.

Lemma score_mirror : forall g, symmetric_g g -> forall al p a b,
  score_from g (mstep p) b a (mirror al) = score_from g p a b al.
Proof.
  intros g Hsym. induction al as [|s r IH]; intros p a b; [reflexivity|].
  destruct s; cbn [mirror map mstep score_from]; fold (mirror r).
  - reflexivity.
  - destruct a as [|x a]; destruct b as [|y b]; try reflexivity.
    rewrite (Hsym y x). rewrite <- (IH SMatch a b). reflexivity.
  - destruct a as [|x a]; [reflexivity|].
    rewrite (Hsym Gap x). rewrite <- (IH SDel a b).
    replace (is_ins (mstep p)) with (is_del p) by (destruct p; reflexivity). reflexivity.
  - destruct b as [|y b]; [reflexivity|].
    rewrite (Hsym y Gap). rewrite <- (IH SIns a b).
    replace (is_del (mstep p)) with (is_ins p) by (destruct p; reflexivity). reflexivity.
Qed.

Lemma covers_swap : forall g a b, symmetric_g g -> covers_g g a b -> covers_g g b a.
Proof. intros g a b Hsym H x y Hx Hy. rewrite Hsym. apply H; assumption. Qed.

Lemma global_swap_le : forall g a b, symmetric_g g -> covers_g g a b -> gap_open_g g = Ok 0 ->
  forall s1 s2, global_score_g g a b = Ok s1 -> global_score_g g b a = Ok s2 -> s1 <= s2.
Proof.
  intros g a b Hsym Hcov Hopen s1 s2 H1 H2.
  destruct (global_valid_g g a b Hcov) as (al & s & Hr & Hc & Hs).
  unfold global_score_g in H1. rewrite Hr in H1. cbn in H1. injection H1 as <-.
  destruct (global_optimal0_g g b a (covers_swap g a b Hsym Hcov) Hopen) as (gs & Hgs & Hbound).
  rewrite Hgs in H2. injection H2 as <-.
  apply (Hbound (mirror al)).
  - rewrite consumes_mirror, Hc. reflexivity.
  - unfold score_g in *. rewrite <- Hs. apply (score_mirror g Hsym al SNone a b).
Qed.

Theorem global_swap_g : forall g a b, symmetric_g g -> covers_g g a b -> gap_open_g g = Ok 0 ->
  global_score_g g a b = global_score_g g b a.
Proof.
  intros g a b Hsym Hcov Hopen.
  pose proof (covers_swap g a b Hsym Hcov) as Hcov'.
  destruct (global_optimal0_g g a b Hcov Hopen) as (s1 & H1 & _).
  destruct (global_optimal0_g g b a Hcov' Hopen) as (s2 & H2 & _).
  pose proof (global_swap_le g a b Hsym Hcov Hopen s1 s2 H1 H2).
  pose proof (global_swap_le g b a Hsym Hcov' Hopen s2 s1 H2 H1).
  rewrite H1, H2. f_equal. lia.
Qed.

Lemma nonpos_swap : forall g a b, symmetric_g g -> nonpos_gaps_g g a b -> nonpos_gaps_g g b a.
Proof.
  intros g a b Hsym [H1 H2]. split.
  - intros x z Hx Hg. rewrite Hsym in Hg. apply (H2 x z Hx Hg).
  - intros y z Hy Hg. rewrite Hsym in Hg. apply (H1 y z Hy Hg).
Qed.

Lemma local_swap_le : forall g a b, symmetric_g g -> covers_g g a b -> nonpos_gaps_g g a b ->
  gap_open_g g = Ok 0 ->
  forall s1 s2, local_score_g g a b = Ok s1 -> local_score_g g b a = Ok s2 -> s1 <= s2.
Proof.
  intros g a b Hsym Hcov Hnp Hopen s1 s2 H1 H2.
  destruct (local_valid_g g a b Hcov Hnp) as (r & Hr & Hv).
  unfold local_score_g in H1. rewrite Hr in H1. cbn [obind] in H1. injection H1 as <-.
  destruct (local_optimal0_g g b a (covers_swap g a b Hsym Hcov) Hopen) as (ls & Hls & Hbound).
  rewrite Hls in H2. injection H2 as <-.
  destruct r as [[[al ai] bi] s]. cbn [snd]. unfold local_answer_valid in Hv.
  destruct Hv as [(_ & _ & _ & ->)|(_ & _ & _ & _ & _ & Hs)].
  - apply (Hbound O O []). reflexivity.
  - apply (Hbound (Z.to_nat bi) (Z.to_nat ai) (mirror al)).
    unfold score_g in *. rewrite <- Hs. apply (score_mirror g Hsym al SNone).
Qed.

Theorem local_swap_g : forall g a b, symmetric_g g -> covers_g g a b -> nonpos_gaps_g g a b ->
  gap_open_g g = Ok 0 -> local_score_g g a b = local_score_g g b a.
Proof.
  intros g a b Hsym Hcov Hnp Hopen.
  pose proof (covers_swap g a b Hsym Hcov) as Hcov'.
  pose proof (nonpos_swap g a b Hsym Hnp) as Hnp'.
  destruct (local_optimal0_g g a b Hcov Hopen) as (s1 & H1 & _).
  destruct (local_optimal0_g g b a Hcov' Hopen) as (s2 & H2 & _).
  pose proof (local_swap_le g a b Hsym Hcov Hnp Hopen s1 s2 H1 H2).
  pose proof (local_swap_le g b a Hsym Hcov' Hnp' Hopen s2 s1 H2 H1).
  rewrite H1, H2. f_equal. lia.
Qed.

(* ======================================================================== *)
(* Local returns no steps exactly when no pair of characters scores above 0.    *)
Section LocalNone.
Variable w : byte -> byte -> Z.
Notation lc := (pcell w clamp_local).

Lemma ptrl_nonempty : forall ra rb al ra0 rb0,
  ptrl w ra rb al ra0 rb0 -> 0 < fst (lc ra rb) -> al <> [].
Proof.
  intros ra rb al ra0 rb0 H Hpos.
  inversion H; subst; try (intros E; apply app_eq_nil in E; destruct E; discriminate).
  lia.
Qed.

Lemma lc_all_zero : w Gap Gap <= 0 -> forall ra rb : list N,
  (forall x, In x ra -> w x Gap <= 0) -> (forall y, In y rb -> w Gap y <= 0) ->
  (forall x y, In x ra -> In y rb -> w x y <= 0) ->
  fst (lc ra rb) = 0.
Proof.
  intros Ho. induction ra as [|x ra IHa]; induction rb as [|y rb IHb]; intros Hd Hi Hm.
  - reflexivity.
  - apply (row0_zero w Ho). exact Hi.
  - apply (col0_zero w Ho). exact Hd.
  - assert (Hd' : forall u, In u ra -> w u Gap <= 0) by (intros u Hu; apply Hd; right; exact Hu).
    assert (Hi' : forall u, In u rb -> w Gap u <= 0) by (intros u Hu; apply Hi; right; exact Hu).
    rewrite pcell_cons_cons.
    rewrite (IHa rb Hd' Hi') by (intros u v Hu Hv; apply Hm; right; assumption).
    rewrite (IHa (y :: rb) Hd' Hi) by (intros u v Hu Hv; apply Hm; [right|]; assumption).
    rewrite (IHb Hd Hi') by (intros u v Hu Hv; apply Hm; [|right]; assumption).
    pose proof (Hm x y (or_introl eq_refl) (or_introl eq_refl)).
    pose proof (Hd x (or_introl eq_refl)). pose proof (Hi y (or_introl eq_refl)).
    match goal with |- fst (clamp_local ?c) = 0 =>
      destruct (clamp_local_cases c) as [[E Hc]|[E Hc]]; rewrite E; [|reflexivity] end.
    rewrite decide_fst_max in *.
    match goal with |- context [opn w ?c1] => pose proof (opn_nonpos w Ho c1) end.
    match goal with |- context [Z.max _ (Z.max _ (_ + opn w ?c2))] => pose proof (opn_nonpos w Ho c2) end.
    lia.
Qed.

Lemma lc_ge_pair : forall x ra y rb, w x y <= fst (lc (x :: ra) (y :: rb)).
Proof.
  intros x ra y rb. rewrite pcell_cons_cons.
  match goal with |- _ <= fst (clamp_local ?c) => pose proof (clamp_local_ge c) end.
  match goal with H : fst (decide ?m ?d ?i) <= _ /\ _ |- _ => pose proof (decide_max m d i) end.
  pose proof (lc_nonneg w ra rb). lia.
Qed.

End LocalNone.

Theorem local_none_iff_g : forall g a b, covers_g g a b -> nonpos_gaps_g g a b ->
  exists al ai bi s, local_g g a b = Ok (al, ai, bi, s) /\
    (al = [] <-> forall x y z, In x a -> In y b -> g x y = Ok z -> z <= 0).
Proof.
  intros g a b Hcov [Hnd Hni]. pose proof (covers_agrees g a b Hcov) as Hag.
  destruct (local_g_run g a b Hcov) as (pa & ra & pb & rb & al & ra0 & rb0 & Ha & Hb & Hp & Hmax & Hrun).
  set (w := weights g) in *.
  assert (Hopen : w Gap Gap <= 0).
  { apply (Hnd Gap); [left; reflexivity|]. apply Hag; left; reflexivity. }
  assert (Hin_a : forall x, In x ra -> In x a).
  { intros x Hx. apply (proj2 (in_rev a _)). rewrite Ha. apply in_or_app. right. exact Hx. }
  assert (Hin_b : forall y, In y rb -> In y b).
  { intros y Hy. apply (proj2 (in_rev b _)). rewrite Hb. apply in_or_app. right. exact Hy. }
  unfold local_result in Hrun. pose proof (lc_nonneg w ra rb) as Hnn.
  destruct (Z.eqb_spec (fst (pcell w clamp_local ra rb)) 0) as [Hz|Hz].
  - exists [], (-1), (-1), 0. split; [exact Hrun|]. split; [|reflexivity].
    intros _ x y z Hx Hy Hg.
    assert (Hzw : z = w x y).
    { pose proof (Hag x y (or_intror Hx) (or_intror Hy)) as E. rewrite E in Hg. injection Hg as <-. reflexivity. }
    subst z.
    destruct (in_split _ _ Hx) as (a1 & a2 & ->). destruct (in_split _ _ Hy) as (b1 & b2 & ->).
    assert (Hra : rev (a1 ++ x :: a2) = rev a2 ++ (x :: rev a1))
      by (rewrite rev_app_distr; cbn [rev]; rewrite <- app_assoc; reflexivity).
    assert (Hrb : rev (b1 ++ y :: b2) = rev b2 ++ (y :: rev b1))
      by (rewrite rev_app_distr; cbn [rev]; rewrite <- app_assoc; reflexivity).
    pose proof (Hmax _ _ _ _ Hra Hrb) as Hle.
    pose proof (lc_ge_pair w x (rev a1) y (rev b1)). unfold byte, bytes in *. lia.
  - eexists al, _, _, _. split; [exact Hrun|]. split.
    + intros E. exfalso. apply (ptrl_nonempty w ra rb al ra0 rb0 Hp); [lia|exact E].
    + intros Hall. exfalso. apply Hz. apply (lc_all_zero w Hopen).
      * intros x Hx. apply (Hnd x); [right; apply Hin_a; exact Hx|].
        apply Hag; [right; apply Hin_a; exact Hx|left; reflexivity].
      * intros y Hy. apply (Hni y); [right; apply Hin_b; exact Hy|].
        apply Hag; [left; reflexivity|right; apply Hin_b; exact Hy].
      * intros x y Hx Hy. apply (Hall x y); [apply Hin_a; exact Hx|apply Hin_b; exact Hy|].
        apply Hag; right; [apply Hin_a; exact Hx|apply Hin_b; exact Hy].
Qed.

(* ======================================================================== *)
(* Non-zero gap-open (C10): what does hold of the single-state recurrence.
   With gap-open <= 0 the returned score is at least the optimum under linear
   gap costs (gap-open charged on every gap step).                              *)
Section Lower.
Variable w : byte -> byte -> Z.

Fixpoint lscore (a b : bytes) (al : list step) : option Z :=
  match al with
  | [] => Some 0
  | SMatch :: r =>
    match a, b with
    | x :: a', y :: b' => option_map (Z.add (w x y)) (lscore a' b' r)
    | _, _ => None
    end
  | SDel :: r =>
    match a with
    | x :: a' => option_map (Z.add (w x Gap + w Gap Gap)) (lscore a' b r)
    | [] => None
    end
  | SIns :: r =>
    match b with
    | y :: b' => option_map (Z.add (w Gap y + w Gap Gap)) (lscore a b' r)
    | [] => None
    end
  | SNone :: _ => None
  end.

Lemma score_linear_lscore : forall g al a b, agrees w g a b ->
  score_linear_g g a b al = o2o (lscore a b al).
Proof.
  intros g. induction al as [|s r IH]; intros a b H; [reflexivity|].
  assert (Hgg : g Gap Gap = Ok (w Gap Gap)) by (eapply agrees_gg; eauto).
  destruct s; cbn [score_linear_g lscore].
  - reflexivity.
  - destruct a as [|x a']; [reflexivity|]. destruct b as [|y b']; [reflexivity|].
    rewrite (H x y) by (right; left; reflexivity). cbn [obind].
    rewrite IH by (eapply agrees_tl_a; eapply agrees_tl_b; eauto).
    destruct (lscore a' b' r); reflexivity.
  - destruct a as [|x a']; [reflexivity|].
    rewrite (H x Gap) by (try (right; left; reflexivity); left; reflexivity). cbn [obind].
    rewrite Hgg. cbn [obind].
    rewrite IH by (eapply agrees_tl_a; eauto).
    destruct (lscore a' b r); reflexivity.
  - destruct b as [|y b']; [reflexivity|].
    rewrite (H Gap y) by (try (right; left; reflexivity); left; reflexivity). cbn [obind].
    rewrite Hgg. cbn [obind].
    rewrite IH by (eapply agrees_tl_b; eauto).
    destruct (lscore a b' r); reflexivity.
Qed.

Lemma lscore_snoc_none : forall al a b, lscore a b (al ++ [SNone]) = None.
Proof.
  induction al as [|s r IH]; intros a b; [reflexivity|].
  destruct s; cbn [app lscore]; try reflexivity.
  - destruct a; [reflexivity|]. destruct b; [reflexivity|]. rewrite IH. reflexivity.
  - destruct a; [reflexivity|]. rewrite IH. reflexivity.
  - destruct b; [reflexivity|]. rewrite IH. reflexivity.
Qed.

Lemma lscore_snoc_match : forall al a b x y, consumes al = (length a, length b) ->
  lscore (a ++ [x]) (b ++ [y]) (al ++ [SMatch]) = option_map (fun z => z + w x y) (lscore a b al).
Proof.
  induction al as [|s r IH]; intros a b x y Hc.
  - cbn in Hc. destruct a; destruct b; try discriminate. cbn. f_equal. lia.
  - cbn [consumes] in Hc. destruct (consumes r) as [i j] eqn:E. destruct s.
    + reflexivity.
    + destruct a as [|x0 a']; [discriminate|]. destruct b as [|y0 b']; [discriminate|].
      cbn in Hc. injection Hc as Hi Hj. subst i j.
      cbn [app lscore]. rewrite (IH a' b' x y eq_refl). apply omap_comm.
    + destruct a as [|x0 a']; [discriminate|].
      cbn in Hc. injection Hc as Hi Hj. subst i j.
      cbn [app lscore]. rewrite (IH a' b x y eq_refl). apply omap_comm.
    + destruct b as [|y0 b']; [destruct a; discriminate|].
      cbn in Hc. injection Hc as Hi Hj. subst i j.
      cbn [app lscore]. rewrite (IH a b' x y eq_refl). apply omap_comm.
Qed.

Lemma lscore_snoc_del : forall al a b x, consumes al = (length a, length b) ->
  lscore (a ++ [x]) b (al ++ [SDel]) = option_map (fun z => z + (w x Gap + w Gap Gap)) (lscore a b al).
Proof.
  induction al as [|s r IH]; intros a b x Hc.
  - cbn in Hc. destruct a; destruct b; try discriminate. cbn. f_equal. lia.
  - cbn [consumes] in Hc. destruct (consumes r) as [i j] eqn:E. destruct s.
    + reflexivity.
    + destruct a as [|x0 a']; [discriminate|]. destruct b as [|y0 b']; [discriminate|].
      cbn in Hc. injection Hc as Hi Hj. subst i j.
      cbn [app lscore]. rewrite (IH a' b' x eq_refl). apply omap_comm.
    + destruct a as [|x0 a']; [discriminate|].
      cbn in Hc. injection Hc as Hi Hj. subst i j.
      cbn [app lscore]. rewrite (IH a' b x eq_refl). apply omap_comm.
    + destruct b as [|y0 b']; [destruct a; discriminate|].
      cbn in Hc. injection Hc as Hi Hj. subst i j.
      cbn [app lscore]. rewrite (IH a b' x eq_refl). apply omap_comm.
Qed.

Lemma lscore_snoc_ins : forall al a b y, consumes al = (length a, length b) ->
  lscore a (b ++ [y]) (al ++ [SIns]) = option_map (fun z => z + (w Gap y + w Gap Gap)) (lscore a b al).
Proof.
  induction al as [|s r IH]; intros a b y Hc.
  - cbn in Hc. destruct a; destruct b; try discriminate. cbn. f_equal. lia.
  - cbn [consumes] in Hc. destruct (consumes r) as [i j] eqn:E. destruct s.
    + reflexivity.
    + destruct a as [|x0 a']; [discriminate|]. destruct b as [|y0 b']; [discriminate|].
      cbn in Hc. injection Hc as Hi Hj. subst i j.
      cbn [app lscore]. rewrite (IH a' b' y eq_refl). apply omap_comm.
    + destruct a as [|x0 a']; [discriminate|].
      cbn in Hc. injection Hc as Hi Hj. subst i j.
      cbn [app lscore]. rewrite (IH a' b y eq_refl). apply omap_comm.
    + destruct b as [|y0 b']; [destruct a; discriminate|].
      cbn in Hc. injection Hc as Hi Hj. subst i j.
      cbn [app lscore]. rewrite (IH a b' y eq_refl). apply omap_comm.
Qed.

Hypothesis open_nonpos : w Gap Gap <= 0.

Lemma opn_ge : forall c, w Gap Gap <= opn w c.
Proof. intros c. unfold opn. destruct c; lia. Qed.

Lemma global_lower : forall al ra rb s,
  consumes al = (length ra, length rb) ->
  lscore (rev ra) (rev rb) al = Some s ->
  s <= fst (pcell w clamp_none ra rb).
Proof.
  induction al as [|st al IH] using rev_ind; intros ra rb s Hc Hs.
  - cbn in Hc. destruct ra; destruct rb; try discriminate. cbn in Hs. injection Hs as <-. cbn. lia.
  - destruct (consumes al) as [i j] eqn:E.
    rewrite (consumes_snoc al st i j E) in Hc. destruct st.
    + rewrite lscore_snoc_none in Hs. discriminate.
    + destruct ra as [|x ra]; [discriminate|]. destruct rb as [|y rb]; [discriminate|].
      cbn [length] in Hc. injection Hc as Hi Hj. subst i j.
      cbn [rev] in Hs. rewrite lscore_snoc_match in Hs by (rewrite E, !rev_length; reflexivity).
      apply omap_some in Hs. destruct Hs as (s0 & Hs0 & ->). cbv beta.
      pose proof (IH ra rb s0 eq_refl Hs0) as Hle.
      rewrite pcell_cons_cons. rewrite clamp_none_id.
      match goal with |- _ <= fst (decide ?m ?d ?i) => pose proof (decide_max m d i) end. lia.
    + destruct ra as [|x ra]; [discriminate|].
      cbn [length] in Hc. injection Hc as Hi Hj. subst i j.
      cbn [rev] in Hs. rewrite lscore_snoc_del in Hs by (rewrite E, !rev_length; reflexivity).
      apply omap_some in Hs. destruct Hs as (s0 & Hs0 & ->). cbv beta.
      pose proof (IH ra rb s0 eq_refl Hs0) as Hle.
      destruct rb as [|y rb].
      * rewrite pcell_cons_nil. rewrite clamp_none_id. cbn [fst].
        pose proof (opn_ge (@is_nil N ra)). lia.
      * rewrite pcell_cons_cons. rewrite clamp_none_id.
        match goal with |- _ <= fst (decide ?m (_ + opn w ?c) ?i) =>
          pose proof (decide_max m (fst (pcell w clamp_none ra (y :: rb)) + w x Gap + opn w c) i);
          pose proof (opn_ge c) end. lia.
    + destruct rb as [|y rb]; [destruct ra; discriminate|].
      cbn [length] in Hc. injection Hc as Hi Hj. subst i j.
      cbn [rev] in Hs. rewrite lscore_snoc_ins in Hs by (rewrite E, !rev_length; reflexivity).
      apply omap_some in Hs. destruct Hs as (s0 & Hs0 & ->). cbv beta.
      pose proof (IH ra rb s0 eq_refl Hs0) as Hle.
      destruct ra as [|x ra].
      * rewrite pcell_nil_cons. rewrite clamp_none_id. cbn [fst].
        pose proof (opn_ge (@is_nil N rb)). lia.
      * rewrite pcell_cons_cons. rewrite clamp_none_id.
        match goal with |- _ <= fst (decide ?m ?d (_ + opn w ?c)) =>
          pose proof (decide_max m d (fst (pcell w clamp_none (x :: ra) rb) + w Gap y + opn w c));
          pose proof (opn_ge c) end. lia.
Qed.

End Lower.

Theorem global_affine_lower_g : forall g a b o, covers_g g a b -> gap_open_g g = Ok o -> o <= 0 ->
  exists gs, global_score_g g a b = Ok gs /\
    forall al s, consumes al = (length a, length b) -> score_linear_g g a b al = Ok s -> s <= gs.
Proof.
  intros g a b o Hcov Hopen Ho. destruct (global_g_run g a b Hcov) as (al0 & Hr & _ & _).
  exists (fst (pcell (weights g) clamp_none (rev a) (rev b))). split.
  - unfold global_score_g. rewrite Hr. reflexivity.
  - intros al s Hc Hs.
    rewrite (score_linear_lscore (weights g) g al a b (covers_agrees g a b Hcov)) in Hs.
    apply o2o_ok in Hs.
    apply (global_lower (weights g)) with (al := al).
    + unfold weights. unfold gap_open_g in Hopen. rewrite Hopen. exact Ho.
    + rewrite !rev_length. exact Hc.
    + rewrite !rev_involutive. exact Hs.
Qed.

(* ---- the same lower bound for Local --------------------------------------------- *)
Section LocalLower.
Variable w : byte -> byte -> Z.
Notation lc := (pcell w clamp_local).
Hypothesis open_nonpos : w Gap Gap <= 0.

Lemma local_lower : forall al pa pb ra0 rb0 s,
  consumes al = (length pa, length pb) ->
  lscore w (rev pa) (rev pb) al = Some s ->
  s <= fst (lc (pa ++ ra0) (pb ++ rb0)).
Proof.
  induction al as [|st al IH] using rev_ind; intros pa pb ra0 rb0 s Hc Hs.
  - cbn in Hc. destruct pa; destruct pb; try discriminate. cbn in Hs. injection Hs as <-.
    cbn [app]. apply lc_nonneg.
  - destruct (consumes al) as [i j] eqn:E.
    rewrite (consumes_snoc al st i j E) in Hc. destruct st.
    + rewrite lscore_snoc_none in Hs. discriminate.
    + destruct pa as [|x pa]; [discriminate|]. destruct pb as [|y pb]; [discriminate|].
      cbn [length] in Hc. injection Hc as Hi Hj. subst i j.
      cbn [rev] in Hs. rewrite lscore_snoc_match in Hs by (rewrite E, !rev_length; reflexivity).
      apply omap_some in Hs. destruct Hs as (s0 & Hs0 & ->). cbv beta.
      pose proof (IH pa pb ra0 rb0 s0 eq_refl Hs0) as Hle.
      cbn [app]. rewrite pcell_cons_cons.
      match goal with |- _ <= fst (clamp_local ?c) => pose proof (clamp_local_ge c) end.
      match goal with H : fst (decide ?m ?d ?i) <= _ /\ _ |- _ => pose proof (decide_max m d i) end. lia.
    + destruct pa as [|x pa]; [discriminate|].
      cbn [length] in Hc. injection Hc as Hi Hj. subst i j.
      cbn [rev] in Hs. rewrite lscore_snoc_del in Hs by (rewrite E, !rev_length; reflexivity).
      apply omap_some in Hs. destruct Hs as (s0 & Hs0 & ->). cbv beta.
      pose proof (IH pa pb ra0 rb0 s0 eq_refl Hs0) as Hle.
      cbn [app]. destruct (pb ++ rb0) as [|y rbb].
      * rewrite pcell_cons_nil.
        match goal with |- _ <= fst (clamp_local (_ + opn w ?c, _)) =>
          pose proof (opn_ge w open_nonpos c) end.
        match goal with |- _ <= fst (clamp_local ?c) => pose proof (clamp_local_ge c) end.
        cbn [fst] in *. lia.
      * rewrite pcell_cons_cons.
        match goal with |- _ <= fst (clamp_local ?c) => pose proof (clamp_local_ge c) end.
        match goal with H : fst (decide ?m (?d0 + opn w ?c) ?i) <= _ /\ _ |- _ =>
          pose proof (decide_max m (d0 + opn w c) i); pose proof (opn_ge w open_nonpos c) end.
        lia.
    + destruct pb as [|y pb]; [destruct pa; discriminate|].
      cbn [length] in Hc. injection Hc as Hi Hj. subst i j.
      cbn [rev] in Hs. rewrite lscore_snoc_ins in Hs by (rewrite E, !rev_length; reflexivity).
      apply omap_some in Hs. destruct Hs as (s0 & Hs0 & ->). cbv beta.
      pose proof (IH pa pb ra0 rb0 s0 eq_refl Hs0) as Hle.
      cbn [app]. destruct (pa ++ ra0) as [|x raa].
      * rewrite pcell_nil_cons.
        match goal with |- _ <= fst (clamp_local (_ + opn w ?c, _)) =>
          pose proof (opn_ge w open_nonpos c) end.
        match goal with |- _ <= fst (clamp_local ?c) => pose proof (clamp_local_ge c) end.
        cbn [fst] in *. lia.
      * rewrite pcell_cons_cons.
        match goal with |- _ <= fst (clamp_local ?c) => pose proof (clamp_local_ge c) end.
        match goal with H : fst (decide ?m ?d (?i0 + opn w ?c)) <= _ /\ _ |- _ =>
          pose proof (decide_max m d (i0 + opn w c)); pose proof (opn_ge w open_nonpos c) end.
        lia.
Qed.

End LocalLower.

Lemma lscore_fits : forall w al a b s, lscore w a b al = Some s ->
  (fst (consumes al) <= length a)%nat /\ (snd (consumes al) <= length b)%nat.
Proof.
  intros w. induction al as [|st r IH]; intros a b s H; [cbn; lia|].
  cbn [consumes]. destruct (consumes r) as [i j] eqn:E. destruct st; cbn [lscore] in H.
  - discriminate.
  - destruct a as [|x a]; [discriminate|]. destruct b as [|y b]; [discriminate|].
    apply omap_some in H. destruct H as (s0 & H & _). apply IH in H. cbn in *. lia.
  - destruct a as [|x a]; [discriminate|].
    apply omap_some in H. destruct H as (s0 & H & _). apply IH in H. cbn in *. lia.
  - destruct b as [|y b]; [discriminate|].
    apply omap_some in H. destruct H as (s0 & H & _). apply IH in H. cbn in *. lia.
Qed.

Lemma lscore_app_ignore : forall w al a1 b1 a2 b2, consumes al = (length a1, length b1) ->
  lscore w (a1 ++ a2) (b1 ++ b2) al = lscore w a1 b1 al.
Proof.
  intros w. induction al as [|s r IH]; intros a1 b1 a2 b2 Hc; [reflexivity|].
  cbn [consumes] in Hc. destruct (consumes r) as [i j] eqn:E. destruct s.
  - reflexivity.
  - destruct a1 as [|x a1]; [discriminate|]. destruct b1 as [|y b1]; [discriminate|].
    cbn in Hc. injection Hc as Hi Hj. subst i j.
    cbn [app lscore]. rewrite (IH a1 b1 a2 b2 eq_refl). reflexivity.
  - destruct a1 as [|x a1]; [discriminate|].
    cbn in Hc. injection Hc as Hi Hj. subst i j.
    cbn [app lscore]. rewrite (IH a1 b1 a2 b2 eq_refl). reflexivity.
  - destruct b1 as [|y b1]; [destruct a1; discriminate|].
    cbn in Hc. injection Hc as Hi Hj. subst i j.
    cbn [app lscore]. rewrite (IH a1 b1 a2 b2 eq_refl). reflexivity.
Qed.

Theorem local_affine_lower_g : forall g a b o, covers_g g a b -> gap_open_g g = Ok o -> o <= 0 ->
  exists ls, local_score_g g a b = Ok ls /\
    forall i j al s, score_linear_g g (skipn i a) (skipn j b) al = Ok s -> s <= ls.
Proof.
  intros g a b o Hcov Hopen Ho. pose proof (covers_agrees g a b Hcov) as Hag.
  destruct (local_g_run g a b Hcov) as (pa & ra & pb & rb & al0 & ra0 & rb0 & Ha & Hb & _ & Hmax & Hrun).
  set (w := weights g) in *.
  assert (Hon : w Gap Gap <= 0) by (unfold w, weights; unfold gap_open_g in Hopen; rewrite Hopen; exact Ho).
  exists (fst (pcell w clamp_local ra rb)). split.
  - unfold local_score_g. rewrite Hrun. cbn [obind]. rewrite local_result_score. reflexivity.
  - intros i j al s Hs.
    assert (Hag' : agrees w g (skipn i a) (skipn j b)).
    { apply (agrees_incl w g a b); [| |exact Hag]; intros u Hu; eapply in_skipn; eauto. }
    rewrite (score_linear_lscore w g al _ _ Hag') in Hs. apply o2o_ok in Hs.
    destruct (lscore_fits w al _ _ s Hs) as [Hfa Hfb].
    destruct (consumes al) as [na nb] eqn:Ec. cbn [fst snd] in *.
    rewrite <- (firstn_skipn na (skipn i a)), <- (firstn_skipn nb (skipn j b)) in Hs.
    rewrite lscore_app_ignore in Hs by (rewrite Ec, !firstn_length, !Nat.min_l by lia; reflexivity).
    set (A1 := firstn na (skipn i a)) in *. set (B1 := firstn nb (skipn j b)) in *.
    assert (Hra : rev a = rev (skipn na (skipn i a)) ++ (rev A1 ++ rev (firstn i a))).
    { rewrite <- !rev_app_distr. unfold A1. rewrite app_assoc_reverse.
      rewrite (firstn_skipn na), (firstn_skipn i). reflexivity. }
    assert (Hrb : rev b = rev (skipn nb (skipn j b)) ++ (rev B1 ++ rev (firstn j b))).
    { rewrite <- !rev_app_distr. unfold B1. rewrite app_assoc_reverse.
      rewrite (firstn_skipn nb), (firstn_skipn j). reflexivity. }
    eapply Z.le_trans; [|apply (Hmax _ _ _ _ Hra Hrb)].
    apply (local_lower w Hon al (rev A1) (rev B1) _ _ s).
    + rewrite Ec, !rev_length. unfold A1, B1. rewrite !firstn_length, !Nat.min_l by lia. reflexivity.
    + rewrite !rev_involutive. exact Hs.
Qed.
