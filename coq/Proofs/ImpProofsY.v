(* Proofs/ImpProofsY.v — translated source vs hand-written model, part 25: trie ForEach and keys
   (trie.go): the explicit stack of forEachStep records (pointers kept only in that stack: values,
   `step := stack[len(stack)-1]` an alias of the top), the callback as the yielded items, the
   sequence under construction.  keys() ranges over a Go map, whose order is unspecified: the
   translation takes the node's keys in ascending order (as Model/Trie.v does); the property reads
   ForEach's reports as a set.  The stop variant (callback answering false at its p-th call) is the
   model's for_each_until p. *)
From Coq Require Import ZifyBool ZifyNat ZifyN Sorting.Sorted.
From Bio Require Import Base.
From Bio.gen Require Import ImpGen.
From Bio.Model Require Import GoSem Trie.
From Bio.Spec Require Import TrieSpec.
From Bio.Proofs Require Import TrieProofs TrieProofsB TrieProofsC ImpProofs ImpProofsB ImpProofsE ImpProofsI ImpProofsP.
Import GoSem.
Open Scope Z_scope.

Lemma map_fst_edges l : map fst (edges l) = map fst l.
Proof. unfold edges. rewrite map_map. reflexivity. Qed.

Lemma hp_index {A St R} (h : list A) a x (k : A -> res St R) :
  0 <= a -> nth_error h (Z.to_nat a) = Some x -> go_index h a k = k x.
Proof. intros Na E. unfold go_index. destruct (Z.ltb_spec a 0); [lia|]. rewrite E. reflexivity. Qed.

Lemma heap_len_models {St R} h x (c : Z -> res St R) :
  models h x -> go_heap_len h (addr x) c = c (Z.of_nat (length (ach x))).
Proof.
  destruct x as [a l]. intros M. apply models_unfold in M as [[Na E] _]. cbn [addr ach].
  unfold go_heap_len. rewrite (hp_index h a (edges l)) by auto.
  unfold go_len, edges. rewrite map_length. reflexivity.
Qed.

Lemma imp_keys h x : models h x -> imp_trie_Trie_keys h (addr x) = Ret (h, map fst (ach x)).
Proof.
  intros M. unfold imp_trie_Trie_keys. rewrite (heap_len_models h x _ M).
  destruct x as [a l]. apply models_unfold in M as [[Na E] _]. cbn [addr ach].
  unfold go_make. cbn [Z.ltb Z.compare Z.to_nat repeat]. cbv zeta.
  rewrite (hp_index h a (edges l)) by auto.
  rewrite go_range_elems.
  rewrite (go_iter_fold _ (fun res k => res ++ [k])) by (intros; reflexivity).
  cbn [after]. rewrite (fold_snoc_map (fun k => k)), map_id, map_fst_edges. reflexivity.
Qed.

(* a record of the Go stack against an entry of the model's stack *)
Definition step_ok (h : go_theap) (r : imp_trie_forEachStep) (e : trie * nat) : Prop :=
  exists x, models h x /\ wf (erase x) /\ erase x = fst e /\
            imp_trie_forEachStep_t r = addr x /\ imp_trie_forEachStep_k r = map fst (ach x) /\
            imp_trie_forEachStep_i r = Z.of_nat (snd e).

Definition fe_state : Type := (list imp_trie_forEachStep * list N * list (list N) * go_theap)%type.
Definition fe_result : Type := (go_theap * list (list N))%type.

Section ForEachStop.
Variable p : nat.

Definition fes_body : fe_state -> res fe_state fe_result :=
  (fun '((stack, cur, out__, h__) : ((list imp_trie_forEachStep) * (list N) * _ * go_theap)) => let t__2 := (Z.sub (go_len stack) (1)%Z) in go_index stack t__2 (fun t__3 => go_heap_len h__ (imp_trie_forEachStep_t t__3) (fun t__4 => (if (Z.eqb t__4 (0)%Z) then (if (Z.ltb (0)%Z (go_len cur)) then (let out__ := out__ ++ [cur] in let t__5 := negb (Nat.eqb (length out__) p) in (if (negb t__5) then Brk (stack, cur, out__, h__) else go_index stack t__2 (fun t__6 => go_index stack t__2 (fun t__7 => go_heap_len h__ (imp_trie_forEachStep_t t__7) (fun t__8 => (if (Z.eqb (imp_trie_forEachStep_i t__6) t__8) then go_slice stack 0%Z (Z.sub (go_len stack) (1)%Z) (fun t__9 => let stack := t__9 in (if (Z.eqb (go_len stack) (0)%Z) then Brk (stack, cur, out__, h__) else go_slice cur 0%Z (Z.sub (go_len cur) (1)%Z) (fun t__10 => let cur := t__10 in Next (stack, cur, out__, h__)))) else go_index stack t__2 (fun t__11 => go_index stack t__2 (fun t__12 => go_index (imp_trie_forEachStep_k t__11) (imp_trie_forEachStep_i t__12) (fun t__13 => let key := t__13 in go_index stack t__2 (fun t__14 => go_heap_get h__ (imp_trie_forEachStep_t t__14) key (fun t__15 => let child := t__15 in go_call (imp_trie_Trie_keys h__ child) (fun '(h__, t__16) => let stack := (stack ++ [(Imp_trie_forEachStep child t__16 (0)%Z)]) in go_index stack t__2 (fun t__17 => go_index stack t__2 (fun t__18 => go_set stack t__2 (imp_trie_forEachStep_with_i t__18 (Z.add (imp_trie_forEachStep_i t__17) (1)%Z)) (fun t__19 => let stack := t__19 in let cur := (cur ++ [key]) in Next (stack, cur, out__, h__)))))))))))))))) else go_index stack t__2 (fun t__20 => go_index stack t__2 (fun t__21 => go_heap_len h__ (imp_trie_forEachStep_t t__21) (fun t__22 => (if (Z.eqb (imp_trie_forEachStep_i t__20) t__22) then go_slice stack 0%Z (Z.sub (go_len stack) (1)%Z) (fun t__23 => let stack := t__23 in (if (Z.eqb (go_len stack) (0)%Z) then Brk (stack, cur, out__, h__) else go_slice cur 0%Z (Z.sub (go_len cur) (1)%Z) (fun t__24 => let cur := t__24 in Next (stack, cur, out__, h__)))) else go_index stack t__2 (fun t__25 => go_index stack t__2 (fun t__26 => go_index (imp_trie_forEachStep_k t__25) (imp_trie_forEachStep_i t__26) (fun t__27 => let key := t__27 in go_index stack t__2 (fun t__28 => go_heap_get h__ (imp_trie_forEachStep_t t__28) key (fun t__29 => let child := t__29 in go_call (imp_trie_Trie_keys h__ child) (fun '(h__, t__30) => let stack := (stack ++ [(Imp_trie_forEachStep child t__30 (0)%Z)]) in go_index stack t__2 (fun t__31 => go_index stack t__2 (fun t__32 => go_set stack t__2 (imp_trie_forEachStep_with_i t__32 (Z.add (imp_trie_forEachStep_i t__31) (1)%Z)) (fun t__33 => let stack := t__33 in let cur := (cur ++ [key]) in Next (stack, cur, out__, h__))))))))))))))) else go_index stack t__2 (fun t__34 => go_index stack t__2 (fun t__35 => go_heap_len h__ (imp_trie_forEachStep_t t__35) (fun t__36 => (if (Z.eqb (imp_trie_forEachStep_i t__34) t__36) then go_slice stack 0%Z (Z.sub (go_len stack) (1)%Z) (fun t__37 => let stack := t__37 in (if (Z.eqb (go_len stack) (0)%Z) then Brk (stack, cur, out__, h__) else go_slice cur 0%Z (Z.sub (go_len cur) (1)%Z) (fun t__38 => let cur := t__38 in Next (stack, cur, out__, h__)))) else go_index stack t__2 (fun t__39 => go_index stack t__2 (fun t__40 => go_index (imp_trie_forEachStep_k t__39) (imp_trie_forEachStep_i t__40) (fun t__41 => let key := t__41 in go_index stack t__2 (fun t__42 => go_heap_get h__ (imp_trie_forEachStep_t t__42) key (fun t__43 => let child := t__43 in go_call (imp_trie_Trie_keys h__ child) (fun '(h__, t__44) => let stack := (stack ++ [(Imp_trie_forEachStep child t__44 (0)%Z)]) in go_index stack t__2 (fun t__45 => go_index stack t__2 (fun t__46 => go_set stack t__2 (imp_trie_forEachStep_with_i t__46 (Z.add (imp_trie_forEachStep_i t__45) (1)%Z)) (fun t__47 => let stack := t__47 in let cur := (cur ++ [key]) in Next (stack, cur, out__, h__)))))))))))))))))).

Definition fes_final : fe_state -> res unit fe_result := fun '(stack, cur, out__, h__) => Ret (h__, out__).

Lemma imp_ForEach_stop_unfold fuel h t :
  imp_trie_Trie_ForEach_stop p fuel h t =
  go_call (imp_trie_Trie_keys h t) (fun '(h__, ks) =>
    after (go_while fuel (fun _ => Ret true) fes_body ([Imp_trie_forEachStep t ks 0], [], [], h__)) fes_final).
Proof. reflexivity. Qed.

Lemma Forall2_snoc_inv {A B} (R : A -> B -> Prop) l l' y :
  Forall2 R l (l' ++ [y]) -> exists l0 x, l = l0 ++ [x] /\ Forall2 R l0 l' /\ R x y.
Proof.
  intros H. apply Forall2_app_inv_r in H as (l1 & l2 & H1 & H2 & ->).
  inversion H2 as [|x ? ? ? Hx Hn]; subst. inversion Hn; subst. eauto.
Qed.

Lemma Forall2_len' {A B} (R : A -> B -> Prop) l1 l2 : Forall2 R l1 l2 -> length l1 = length l2.
Proof. intros F. induction F; cbn; auto. Qed.

Lemma Forall2_snoc {A B} (R : A -> B -> Prop) l l' x y :
  Forall2 R l l' -> R x y -> Forall2 R (l ++ [x]) (l' ++ [y]).
Proof. intros H Hx. apply Forall2_app; auto. Qed.

Lemma step_ok_child h x i k c :
  models h x -> wf (erase x) -> nth_error (ach x) i = Some (k, c) ->
  models h c /\ wf (erase c) /\ mget k (ach x) = Some c /\
  nth_error (children (erase x)) i = Some (k, erase c).
Proof.
  destruct x as [a l]. cbn [ach]. intros M W Hn.
  pose proof (wf_erase_sorted a l W) as Sl.
  assert (Hin : In (k, c) l) by (eapply nth_error_In; eauto).
  assert (G : mget k l = Some c) by (apply mget_In; auto).
  split; [eapply models_child; eauto|]. split; [eapply wf_erase_child; eauto|]. split; [exact G|].
  cbn [erase children]. rewrite nth_error_map, Hn. reflexivity.
Qed.

Lemma removelast_rev {A} (x : A) l : removelast (rev (x :: l)) = rev l.
Proof. cbn [rev]. apply removelast_last. Qed.

Lemma go_slice_removelast {A St R} (l : list A) (k : list A -> res St R) : l <> [] ->
  go_slice l 0 (go_len l - 1) k = k (removelast l).
Proof.
  intros Hne. destruct (exists_last Hne) as (l0 & x & ->). rewrite removelast_last.
  replace (go_len (l0 ++ [x]) - 1) with (go_len l0) by (unfold go_len; rewrite app_length; cbn; lia).
  apply go_slice_init.
Qed.

Lemma fes_loop h : forall fm fuel mstack rcur out gstack r,
  fe_loop fm p mstack rcur out = Ok r -> (fm < fuel)%nat ->
  Forall2 (step_ok h) gstack (rev mstack) -> (length rcur + 1 = length mstack)%nat ->
  after (go_while fuel (fun _ => Ret true) fes_body (gstack, rev rcur, rev out, h)) fes_final = Ret (h, r).
Proof.
  induction fm as [|fm IH]; intros fuel mstack rcur out gstack r Hr Hf HS HL; [discriminate|].
  destruct fuel as [|fuel]; [lia|].
  destruct mstack as [|[[l] i] rest]; [discriminate|].
  cbn [fe_loop] in Hr. cbn [rev] in HS.
  apply Forall2_snoc_inv in HS as (P & rec & -> & HP & (x & Mx & Wx & Ex & Et & Ek & Ei)).
  cbn [fst snd] in Ex, Ei. destruct rec as [rt rk ri]. cbn [imp_trie_forEachStep_t imp_trie_forEachStep_k imp_trie_forEachStep_i] in Et, Ek, Ei. subst rt rk ri.
  assert (Hlen : length (ach x) = length l).
  { destruct x as [a lx]. cbn [erase ach] in *. injection Ex as <-. rewrite map_length. reflexivity. }
  cbn [go_while]. unfold fes_body at 1. cbv beta iota zeta.
  assert (Htop : go_len (P ++ [Imp_trie_forEachStep (addr x) (map fst (ach x)) (Z.of_nat i)]) - 1 = go_len P)
    by (unfold go_len; rewrite app_length; cbn [length]; lia).
  rewrite Htop. rewrite !(go_index_last P _ _ _ eq_refl).
  cbn [imp_trie_forEachStep_t imp_trie_forEachStep_k imp_trie_forEachStep_i].
  rewrite !(heap_len_models h x _ Mx). rewrite Hlen.
  replace (Z.of_nat (length l) =? 0) with (is_nil l) by (destruct l; cbn [is_nil length]; lia).
  replace (Z.of_nat i =? Z.of_nat (length l)) with (Nat.eqb i (length l))
    by (destruct (Nat.eqb_spec i (length l)); lia).
  (* what follows the report, in both branches of the leaf test *)
  set (cont := fun (o' : list (list N)) =>
     if Nat.eqb i (length l) then
       go_slice (P ++ [Imp_trie_forEachStep (addr x) (map fst (ach x)) (Z.of_nat i)]) 0 (go_len P)
         (fun st' => if go_len st' =? 0 then Brk (st', rev rcur, o', h)
                     else go_slice (rev rcur) 0 (go_len (rev rcur) - 1) (fun c' => Next (st', c', o', h)))
     else go_index (map fst (ach x)) (Z.of_nat i) (fun key =>
          go_index (P ++ [Imp_trie_forEachStep (addr x) (map fst (ach x)) (Z.of_nat i)]) (go_len P) (fun e0 =>
            go_heap_get h (imp_trie_forEachStep_t e0) key (fun child =>
              go_call (imp_trie_Trie_keys h child) (fun '(h__, ks) =>
                let stack := (P ++ [Imp_trie_forEachStep (addr x) (map fst (ach x)) (Z.of_nat i)]) ++ [Imp_trie_forEachStep child ks 0] in
                go_index stack (go_len P) (fun e1 => go_index stack (go_len P) (fun e2 =>
                  go_set stack (go_len P) (imp_trie_forEachStep_with_i e2 (imp_trie_forEachStep_i e1 + 1))
                    (fun st' => Next (st', rev rcur ++ [key], o', h__))))))))
   : res fe_state fe_result).
  assert (Hcont : forall o' mo', o' = rev mo' ->
     (if Nat.eqb i (length l) then
        match rest with [] => Ok (rev mo') | _ => fe_loop fm p rest (tl rcur) mo' end
      else match nth_error l i with
           | Some (key, child) => fe_loop fm p ((child, O) :: (T l, S i) :: rest) (key :: rcur) mo'
           | None => Panic end) = Ok r ->
     after (match cont o' with
            | Next s' => go_while fuel (fun _ => Ret true) fes_body s'
            | Brk s' => Next s'
            | Ret r0 => Ret r0
            | Panics => Panics
            | NoFuel => NoFuel
            end) fes_final = Ret (h, r)).
  { intros o' mo' -> Hr'. unfold cont. destruct (Nat.eqb i (length l)) eqn:Ei.
    - rewrite go_slice_init.
      destruct rest as [|e rest'].
      + cbn [rev] in HP. inversion HP; subst. cbn [go_len length Z.of_nat Z.eqb after fes_final].
        injection Hr' as <-. reflexivity.
      + assert (P <> []) as HPne.
        { intro E0. subst P. cbn [rev] in HP. apply Forall2_len' in HP. rewrite app_length in HP. cbn in HP. lia. }
        replace (go_len P =? 0) with false by (unfold go_len; destruct P; [congruence | cbn [length]; lia]).
        destruct rcur as [|kc rcur']; [cbn [length] in HL; lia|].
        rewrite go_slice_removelast by (cbn [rev]; destruct (rev rcur'); discriminate).
        rewrite removelast_rev. cbn [tl] in Hr'.
        apply (IH fuel (e :: rest') rcur' mo' P r Hr'); [lia | exact HP | cbn [length] in *; lia].
    - destruct (nth_error l i) as [[key child]|] eqn:Hn; [|discriminate].
      assert (Hnx : exists c, nth_error (ach x) i = Some (key, c) /\ erase c = child).
      { destruct x as [a lx]. cbn [erase ach] in *. injection Ex as <-. rewrite nth_error_map in Hn.
        destruct (nth_error lx i) as [[k0 c0]|]; [|discriminate]. cbn in Hn. injection Hn as <- <-. eauto. }
      destruct Hnx as (c & Hnc & <-).
      destruct (step_ok_child h x i key c Mx Wx Hnc) as (Mc & Wc & Gc & _).
      rewrite (go_index_some (map fst (ach x)) (Z.of_nat i) key) by (first [lia | rewrite Nat2Z.id, nth_error_map, Hnc; reflexivity]).
      rewrite (go_index_last P _ _ _ eq_refl). cbn [imp_trie_forEachStep_t].
      destruct x as [a lx]. cbn [addr ach] in *.
      rewrite (heap_get_models h a lx key _ Mx), Gc.
      rewrite (imp_keys h c Mc). cbn [go_call]. cbv zeta.
      rewrite <- app_assoc. cbn [app].
      rewrite !(go_index_mid P _ _ _ _ eq_refl). rewrite (go_set_mid P _ _ _ _ _ eq_refl).
      cbn [imp_trie_forEachStep_with_i imp_trie_forEachStep_i imp_trie_forEachStep_t imp_trie_forEachStep_k].
      change (rev rcur ++ [key]) with (rev (key :: rcur)).
      apply (IH fuel _ _ _ _ r Hr'); [lia | | cbn [length] in *; lia].
      cbn [rev]. rewrite <- app_assoc. cbn [app].
      apply Forall2_app; [exact HP|]. constructor; [|constructor; [|constructor]].
      + exists (AT a lx). cbn [fst snd addr ach imp_trie_forEachStep_with_i imp_trie_forEachStep_t imp_trie_forEachStep_k imp_trie_forEachStep_i].
        split; [exact Mx|]. split; [exact Wx|]. split; [exact Ex|]. split; [reflexivity|]. split; [reflexivity|]. lia.
      + exists c. cbn [fst snd imp_trie_forEachStep_t imp_trie_forEachStep_k imp_trie_forEachStep_i].
        split; [exact Mc|]. split; [exact Wc|]. split; [reflexivity|]. split; [reflexivity|]. split; reflexivity. }
  destruct (is_nil l) eqn:El; cbn [andb] in Hr.
  - (* a leaf: the report *)
    replace (0 <? go_len (rev rcur)) with (negb (is_nil rcur))
      by (unfold go_len; rewrite rev_length; destruct rcur; cbn [is_nil negb length]; lia).
    destruct (is_nil rcur) eqn:Ec; cbn [negb] in *.
    + fold (cont (rev out)). apply (Hcont (rev out) out eq_refl). exact Hr.
    + match goal with |- context [Nat.eqb ?n p] =>
        assert (Hn : n = length (rev rcur :: out)) by (rewrite app_length, rev_length; cbn [length]; rewrite Nat.add_1_r; reflexivity);
        destruct (Nat.eqb n p) eqn:Ep; rewrite Hn in Ep end; rewrite Ep in Hr; cbn [negb andb] in *.
      * cbn [after fes_final]. injection Hr as <-. cbn [rev]. reflexivity.
      * fold (cont (rev out ++ [rev rcur])). apply (Hcont _ (rev rcur :: out)); [reflexivity | exact Hr].
  - fold (cont (rev out)). apply (Hcont (rev out) out eq_refl). exact Hr.
Qed.

Theorem imp_ForEach_stop_ok fuel h x r :
  models h x -> wf (erase x) -> for_each_until p (erase x) = Ok r -> (2 * size (erase x) < fuel)%nat ->
  imp_trie_Trie_ForEach_stop p fuel h (addr x) = Ret (h, r).
Proof.
  intros M W Hr Hf. rewrite imp_ForEach_stop_unfold, (imp_keys h x M). cbn [go_call].
  unfold for_each_until in Hr.
  apply (fes_loop h _ fuel [(erase x, O)] [] [] [Imp_trie_forEachStep (addr x) (map fst (ach x)) 0] r Hr Hf);
    [|reflexivity].
  cbn [rev app]. constructor; [|constructor]. exists x. cbn [fst snd imp_trie_forEachStep_t imp_trie_forEachStep_k imp_trie_forEachStep_i].
  split; [exact M|]. split; [exact W|]. split; [reflexivity|]. split; [reflexivity|]. split; reflexivity.
Qed.

End ForEachStop.

(* ---- the consumer that never stops: the same loop with `true` for the callback's answer -------------- *)
Lemma go_while_ext {St R} (c : St -> res unit bool) (f g : St -> res St R) :
  (forall s, f s = g s) -> forall fuel s, go_while fuel c f s = go_while fuel c g s.
Proof.
  intros H. induction fuel as [|fuel IH]; intros s; [reflexivity|]. cbn [go_while].
  destruct (c s) as [| |[|]| |]; try reflexivity. rewrite H. destruct (g s); auto.
Qed.

Definition fe_body : fe_state -> res fe_state fe_result :=
  (fun '((stack, cur, out__, h__) : ((list imp_trie_forEachStep) * (list N) * _ * go_theap)) => let t__2 := (Z.sub (go_len stack) (1)%Z) in go_index stack t__2 (fun t__3 => go_heap_len h__ (imp_trie_forEachStep_t t__3) (fun t__4 => (if (Z.eqb t__4 (0)%Z) then (if (Z.ltb (0)%Z (go_len cur)) then (let out__ := out__ ++ [cur] in let t__5 := true in (if (negb t__5) then Brk (stack, cur, out__, h__) else go_index stack t__2 (fun t__6 => go_index stack t__2 (fun t__7 => go_heap_len h__ (imp_trie_forEachStep_t t__7) (fun t__8 => (if (Z.eqb (imp_trie_forEachStep_i t__6) t__8) then go_slice stack 0%Z (Z.sub (go_len stack) (1)%Z) (fun t__9 => let stack := t__9 in (if (Z.eqb (go_len stack) (0)%Z) then Brk (stack, cur, out__, h__) else go_slice cur 0%Z (Z.sub (go_len cur) (1)%Z) (fun t__10 => let cur := t__10 in Next (stack, cur, out__, h__)))) else go_index stack t__2 (fun t__11 => go_index stack t__2 (fun t__12 => go_index (imp_trie_forEachStep_k t__11) (imp_trie_forEachStep_i t__12) (fun t__13 => let key := t__13 in go_index stack t__2 (fun t__14 => go_heap_get h__ (imp_trie_forEachStep_t t__14) key (fun t__15 => let child := t__15 in go_call (imp_trie_Trie_keys h__ child) (fun '(h__, t__16) => let stack := (stack ++ [(Imp_trie_forEachStep child t__16 (0)%Z)]) in go_index stack t__2 (fun t__17 => go_index stack t__2 (fun t__18 => go_set stack t__2 (imp_trie_forEachStep_with_i t__18 (Z.add (imp_trie_forEachStep_i t__17) (1)%Z)) (fun t__19 => let stack := t__19 in let cur := (cur ++ [key]) in Next (stack, cur, out__, h__)))))))))))))))) else go_index stack t__2 (fun t__20 => go_index stack t__2 (fun t__21 => go_heap_len h__ (imp_trie_forEachStep_t t__21) (fun t__22 => (if (Z.eqb (imp_trie_forEachStep_i t__20) t__22) then go_slice stack 0%Z (Z.sub (go_len stack) (1)%Z) (fun t__23 => let stack := t__23 in (if (Z.eqb (go_len stack) (0)%Z) then Brk (stack, cur, out__, h__) else go_slice cur 0%Z (Z.sub (go_len cur) (1)%Z) (fun t__24 => let cur := t__24 in Next (stack, cur, out__, h__)))) else go_index stack t__2 (fun t__25 => go_index stack t__2 (fun t__26 => go_index (imp_trie_forEachStep_k t__25) (imp_trie_forEachStep_i t__26) (fun t__27 => let key := t__27 in go_index stack t__2 (fun t__28 => go_heap_get h__ (imp_trie_forEachStep_t t__28) key (fun t__29 => let child := t__29 in go_call (imp_trie_Trie_keys h__ child) (fun '(h__, t__30) => let stack := (stack ++ [(Imp_trie_forEachStep child t__30 (0)%Z)]) in go_index stack t__2 (fun t__31 => go_index stack t__2 (fun t__32 => go_set stack t__2 (imp_trie_forEachStep_with_i t__32 (Z.add (imp_trie_forEachStep_i t__31) (1)%Z)) (fun t__33 => let stack := t__33 in let cur := (cur ++ [key]) in Next (stack, cur, out__, h__))))))))))))))) else go_index stack t__2 (fun t__34 => go_index stack t__2 (fun t__35 => go_heap_len h__ (imp_trie_forEachStep_t t__35) (fun t__36 => (if (Z.eqb (imp_trie_forEachStep_i t__34) t__36) then go_slice stack 0%Z (Z.sub (go_len stack) (1)%Z) (fun t__37 => let stack := t__37 in (if (Z.eqb (go_len stack) (0)%Z) then Brk (stack, cur, out__, h__) else go_slice cur 0%Z (Z.sub (go_len cur) (1)%Z) (fun t__38 => let cur := t__38 in Next (stack, cur, out__, h__)))) else go_index stack t__2 (fun t__39 => go_index stack t__2 (fun t__40 => go_index (imp_trie_forEachStep_k t__39) (imp_trie_forEachStep_i t__40) (fun t__41 => let key := t__41 in go_index stack t__2 (fun t__42 => go_heap_get h__ (imp_trie_forEachStep_t t__42) key (fun t__43 => let child := t__43 in go_call (imp_trie_Trie_keys h__ child) (fun '(h__, t__44) => let stack := (stack ++ [(Imp_trie_forEachStep child t__44 (0)%Z)]) in go_index stack t__2 (fun t__45 => go_index stack t__2 (fun t__46 => go_set stack t__2 (imp_trie_forEachStep_with_i t__46 (Z.add (imp_trie_forEachStep_i t__45) (1)%Z)) (fun t__47 => let stack := t__47 in let cur := (cur ++ [key]) in Next (stack, cur, out__, h__)))))))))))))))))).

Lemma fe_body_stop0 s : fe_body s = fes_body 0 s.
Proof.
  destruct s as [[[stack cur] out] h]. unfold fe_body, fes_body.
  assert (E : Nat.eqb (length (out ++ [cur])) 0 = false)
    by (rewrite app_length; cbn [length]; apply Nat.eqb_neq; lia).
  rewrite E. reflexivity.
Qed.

Theorem imp_ForEach_ok fuel h x r :
  models h x -> wf (erase x) -> for_each (erase x) = Ok r -> (2 * size (erase x) < fuel)%nat ->
  imp_trie_Trie_ForEach fuel h (addr x) = Ret (h, r).
Proof.
  intros M W Hr Hf. rewrite <- (imp_ForEach_stop_ok 0 fuel h x r M W Hr Hf).
  unfold imp_trie_Trie_ForEach, imp_trie_Trie_ForEach_stop. cbv zeta.
  destruct (imp_trie_Trie_keys h (addr x)) as [| |[h' ks]| |]; cbn [go_call]; try reflexivity.
  timeout 120 (change (go_while fuel _ _ ?s0) with (go_while fuel (fun _ => Ret true) fe_body s0) at 1).
  timeout 120 (change (go_while fuel _ _ ?s0) with (go_while fuel (fun _ => Ret true) (fes_body 0) s0) at 2).
  rewrite (go_while_ext _ fe_body (fes_body 0) fe_body_stop0). reflexivity.
Qed.

(* New(), any history of Add and Delete, then ForEach (stopped after p reports, 0: never): what the
   callback is given is what the model's for_each_until gives on the model's trie *)
Theorem imp_trie_history_foreach p fuel fuel2 ops :
  Forall (fun o => (op_len o < fuel)%nat) ops ->
  exists h0 root h',
    imp_trie_New [] = Ret (h0, root) /\
    heap_run fuel ops h0 root = Ret (h', snd (run ops empty)) /\
    forall r, for_each_until p (fst (run ops empty)) = Ok r ->
              (2 * size (fst (run ops empty)) < fuel2)%nat ->
              imp_trie_Trie_ForEach_stop p fuel2 h' root = Ret (h', r).
Proof.
  intros Fu. exists [[]], 0.
  assert (M0 : models [[]] (AT 0 [])).
  { apply models_unfold. split; [|constructor]. split; [lia | reflexivity]. }
  destruct (heap_run_ok fuel ops [[]] (AT 0 []) M0) as (h' & x' & E & M & N & A & R); auto.
  { constructor; [intros [] | constructor]. }
  { apply wf_empty. }
  exists h'. split; [reflexivity|]. split; [exact E|].
  change empty with (erase (AT 0 [])). rewrite <- R. intros r Hr Hf.
  change 0 with (addr (AT 0 [])). rewrite <- A. apply imp_ForEach_stop_ok; auto.
  rewrite R. change (erase (AT 0 [])) with empty. apply trie_refines.
Qed.
