(* Proofs/ImpProofsG.v — translated source vs hand-written model, part 7: the name
   quoting of package newick and the Write methods of fasta, fastq and bed (the control
   flow around the fmt.Fprintf calls; each call to the writer is one emitted chunk, and the
   writer is one that never fails — failing writers are the subject of C07's model). *)
From Coq Require Import ZifyBool ZifyNat ZifyN.
From Bio Require Import Base.
From Bio.gen Require Import ImpGen.
From Bio.Model Require Import GoSem.
From Bio.Model Require Newick Fasta Fastq Bed.
From Bio.Proofs Require Import ImpProofs ImpProofsB ImpProofsE.
Open Scope Z_scope.

Ltac Zify.zify_post_hook ::= Z.div_mod_to_equations.

(* ---- strings.ReplaceAll ---------------------------------------------------------------- *)
Lemma replace_single c new : forall fuel s, (length s < fuel)%nat ->
  replace_aux fuel s [c] new = flat_map (fun x => if (x =? c)%N then new else [x]) s.
Proof.
  induction fuel as [|f IH]; intros s H; [lia|]. destruct s as [|x r]; [reflexivity|].
  cbn [replace_aux is_prefix flat_map length skipn]. rewrite andb_true_r, N.eqb_sym.
  cbn [length] in H. destruct (x =? c)%N; cbn [app]; rewrite IH by lia; reflexivity.
Qed.

Lemma replace_dbl s : go_replace_all s [39%N] [39%N; 39%N] = Newick.dbl_quotes s.
Proof.
  unfold go_replace_all. rewrite replace_single by lia.
  induction s as [|x r IH]; [reflexivity|]. cbn [flat_map Newick.dbl_quotes].
  destruct (x =? 39)%N; cbn [app]; rewrite IH; reflexivity.
Qed.

Lemma replace_map a b s : go_replace_all s [a] [b] = Newick.map_byte a b s.
Proof.
  unfold go_replace_all. rewrite replace_single by lia. unfold Newick.map_byte.
  induction s as [|x r IH]; [reflexivity|]. cbn [flat_map map].
  destruct (x =? a)%N; cbn [app]; rewrite IH; reflexivity.
Qed.

Lemma replace_undbl_aux : forall fuel s, (length s < fuel)%nat ->
  replace_aux fuel s [39%N; 39%N] [39%N] = Newick.undbl_quotes s.
Proof.
  induction fuel as [|f IH]; intros s H; [lia|]. destruct s as [|c [|d r]]; [reflexivity| |].
  - cbn [replace_aux is_prefix]. rewrite andb_false_r. destruct f; reflexivity.
  - cbn [replace_aux is_prefix Newick.undbl_quotes length skipn]. rewrite andb_true_r.
    rewrite (N.eqb_sym 39 c), (N.eqb_sym 39 d). cbn [length] in H.
    destruct ((c =? 39)%N && (d =? 39)%N); cbn [app]; rewrite IH by (cbn [length]; lia); reflexivity.
Qed.

Lemma replace_undbl s : go_replace_all s [39%N; 39%N] [39%N] = Newick.undbl_quotes s.
Proof. unfold go_replace_all. apply replace_undbl_aux. lia. Qed.

(* ---- newick: quoted, nameFromText, nameToText ------------------------------------------------ *)
Lemma nth_error_last_elem {A} (s : list A) d : s <> [] -> nth_error s (length s - 1) = Some (last s d).
Proof.
  intros H. destruct (exists_last H) as (p & x & ->). rewrite app_length, last_last. cbn [length].
  replace (length p + 1 - 1)%nat with (length p) by lia. apply nth_error_last.
Qed.

Lemma imp_quoted s : imp_newick_quoted s = Ret (Newick.quoted s).
Proof.
  unfold imp_newick_quoted, Newick.quoted, go_len, go_andalso.
  destruct (Nat.leb_spec 2 (length s)) as [H|H].
  - replace (2 <=? Z.of_nat (length s)) with true by lia.
    destruct s as [|x r]; [cbn [length] in H; lia|].
    unfold go_index at 1. cbn [Z.ltb Z.compare Z.to_nat nth_error hd andb].
    destruct (x =? 39)%N; [|reflexivity].
    rewrite (go_index_some (x :: r) (Z.of_nat (length (x :: r)) - 1) (last (x :: r) 0%N)).
    + reflexivity.
    + lia.
    + replace (Z.to_nat (Z.of_nat (length (x :: r)) - 1)) with (length (x :: r) - 1)%nat by lia.
      apply nth_error_last_elem. discriminate.
  - replace (2 <=? Z.of_nat (length s)) with false by lia. reflexivity.
Qed.

Lemma tl_removelast_slice (s : list N) : (2 <= length s)%nat ->
  firstn (length s - 2) (skipn 1 s) = removelast (tl s).
Proof.
  intros H. destruct s as [|x r]; [cbn in H; lia|]. cbn [skipn tl length].
  replace (S (length r) - 2)%nat with (length r - 1)%nat by lia.
  destruct (exists_last (l := r)) as (p & y & ->); [intros ->; cbn in H; lia|].
  rewrite removelast_last, app_length. cbn [length]. replace (length p + 1 - 1)%nat with (length p) by lia.
  rewrite firstn_app, Nat.sub_diag, firstn_all. cbn [firstn]. apply app_nil_r.
Qed.

Theorem imp_nameFromText s : imp_newick_nameFromText s = Ret (Newick.name_from_text s).
Proof.
  unfold imp_newick_nameFromText, Newick.name_from_text. rewrite imp_quoted. cbn [go_call].
  destruct (Newick.quoted s) eqn:Q.
  - assert (H : (2 <= length s)%nat).
    { unfold Newick.quoted in Q. destruct (Nat.leb_spec 2 (length s)); [assumption|discriminate]. }
    unfold go_slice, go_len.
    replace ((1 <? 0) || (Z.of_nat (length s) - 1 <? 1) || (Z.of_nat (length s) <? Z.of_nat (length s) - 1)) with false by lia.
    replace (Z.to_nat (Z.of_nat (length s) - 1 - 1)) with (length s - 2)%nat by lia.
    change (Z.to_nat 1) with 1%nat. rewrite tl_removelast_slice by exact H. rewrite replace_undbl. reflexivity.
  - rewrite replace_map. reflexivity.
Qed.

Lemma name_trigger_set c :
  existsb (N.eqb c) [40; 41; 44; 58; 59; 39; 95; 9; 10; 13]%N = Newick.name_trigger c.
Proof. unfold Newick.name_trigger. cbn [existsb]. rewrite orb_false_r, !orb_assoc. reflexivity. Qed.

Lemma existsb_ext' {A} (f g : A -> bool) l : (forall x, f x = g x) -> existsb f l = existsb g l.
Proof. intros H. induction l as [|x r IH]; cbn [existsb]; [reflexivity|]. rewrite H, IH. reflexivity. Qed.

Theorem imp_nameToText s : imp_newick_nameToText s = Ret (Newick.name_to_text s).
Proof.
  unfold imp_newick_nameToText, Newick.name_to_text, go_contains_any.
  rewrite (existsb_ext' _ Newick.name_trigger) by (intros c; apply name_trigger_set).
  destruct (existsb Newick.name_trigger s).
  - rewrite replace_dbl. reflexivity.
  - rewrite replace_map. reflexivity.
Qed.

(* ---- Fastq.Write ------------------------------------------------------------------------------- *)
Definition fq_of (r : Fastq.fastq) : imp_fastq_Fastq :=
  Imp_fastq_Fastq (Fastq.name r) (Fastq.seq r) (Fastq.quals r).

Theorem imp_Fastq_Write r : imp_fastq_Fastq_Write (fq_of r) = Ret (Fastq.write_calls r, false).
Proof.
  unfold imp_fastq_Fastq_Write, Fastq.write_calls, Fastq.write, fq_of.
  cbn [imp_fastq_Fastq_Name imp_fastq_Fastq_Sequence imp_fastq_Fastq_Quals snd app].
  repeat (rewrite <- ?app_assoc; cbn [app]). reflexivity.
Qed.

(* ---- Fasta.Write ------------------------------------------------------------------------------- *)
Definition fa_of (r : Fasta.fasta) : imp_fasta_Fasta := Imp_fasta_Fasta (Fasta.name r) (Fasta.seq r).

Definition fa_state : Type := (Z * list (list N))%type.
Definition fa_cond (sq : list N) : fa_state -> res unit bool :=
  (fun '(i, out__) => Ret (Z.ltb i (go_len sq))).
Definition fa_body (sq : list N) : fa_state -> res fa_state (list (list N) * bool) :=
  (fun '(i, out__) => let to := (Z.min (Z.add i (80)%Z) (go_len sq)) in go_slice sq i to (fun t__2 => (let out__ := out__ ++ [t__2 ++ [10%N]] in let t__3 := (0%Z, false) in let err_2 := (snd t__3) in (if err_2 then Ret (out__, err_2) else let i := (Z.add i (80)%Z) in Next (i, out__))))).

Lemma skipn_add {A} (l : list A) : forall a b, skipn (a + b) l = skipn b (skipn a l).
Proof.
  induction l as [|x l IH]; intros a b.
  - rewrite !skipn_nil. reflexivity.
  - destruct a as [|a]; [reflexivity|]. cbn [Nat.add skipn]. apply IH.
Qed.

Lemma fa_loop sq : forall fuel i out mf, 0 <= i ->
  (length (skipn (Z.to_nat i) sq) < fuel)%nat -> (length (skipn (Z.to_nat i) sq) <= mf)%nat ->
  exists i', go_while fuel (fa_cond sq) (fa_body sq) (i, out)
             = Next (i', out ++ map (fun c => c ++ [LF]) (Fasta.chunks_aux mf (skipn (Z.to_nat i) sq))).
Proof.
  induction fuel as [|fuel IH]; intros i out mf Hi Hf Hm; [lia|].
  cbn [go_while]. unfold fa_cond at 1. cbv beta iota.
  rewrite skipn_length in Hf, Hm.
  destruct (Z.ltb_spec i (go_len sq)) as [Hlt|Hge]; unfold go_len in *.
  - destruct (skipn (Z.to_nat i) sq) as [|x rest] eqn:Er.
    { apply (f_equal (@length N)) in Er. rewrite skipn_length in Er. cbn [length] in Er. lia. }
    destruct mf as [|mf]; [lia|]. cbn [Fasta.chunks_aux map].
    unfold fa_body at 1. cbv beta iota zeta. unfold go_slice, go_len.
    replace ((i <? 0) || (Z.min (i + 80) (Z.of_nat (length sq)) <? i) || (Z.of_nat (length sq) <? Z.min (i + 80) (Z.of_nat (length sq)))) with false by lia.
    cbn [snd]. rewrite Er.
    assert (Hlen : length (x :: rest) = (length sq - Z.to_nat i)%nat) by (rewrite <- Er; apply skipn_length).
    replace (firstn (Z.to_nat (Z.min (i + 80) (Z.of_nat (length sq)) - i)) (x :: rest)) with (firstn Fasta.text_line_len (x :: rest)).
    2:{ unfold Fasta.text_line_len. destruct (Z.le_gt_cases (i + 80) (Z.of_nat (length sq))).
        - f_equal. lia.
        - rewrite !firstn_all2 by lia. reflexivity. }
    destruct (IH (i + 80) (out ++ [firstn Fasta.text_line_len (x :: rest) ++ [10%N]]) mf) as (i' & Hi').
    + lia.
    + rewrite skipn_length. lia.
    + rewrite skipn_length. lia.
    + exists i'. rewrite Hi'. f_equal. f_equal. rewrite <- app_assoc. cbn [app]. f_equal. f_equal.
      replace (Z.to_nat (i + 80)) with (Z.to_nat i + 80)%nat by lia.
      rewrite skipn_add, Er. reflexivity.
  - exists i. rewrite skipn_all2 by lia. destruct mf; cbn [Fasta.chunks_aux map]; rewrite app_nil_r; reflexivity.
Qed.

Theorem imp_Fasta_Write fuel r : (length (Fasta.seq r) < fuel)%nat ->
  imp_fasta_Fasta_Write fuel (fa_of r) = Ret (Fasta.write_calls r, false).
Proof.
  intros Hf. unfold imp_fasta_Fasta_Write, fa_of. cbn [imp_fasta_Fasta_Name imp_fasta_Fasta_Sequence snd]. cbv zeta.
  cbn [after].
  timeout 120 (change (go_while fuel _ _ (0, ?o)) with (go_while fuel (fa_cond (Fasta.seq r)) (fa_body (Fasta.seq r)) (0, o))).
  destruct (fa_loop (Fasta.seq r) fuel 0 ([] ++ [[62%N] ++ Fasta.name r ++ [10%N]]) (length (Fasta.seq r))) as (i' & Hi');
    [lia|cbn [Z.to_nat skipn]; lia|cbn [Z.to_nat skipn]; lia|].
  rewrite Hi'. cbn [after Z.to_nat skipn app]. reflexivity.
Qed.

(* ---- BED.Write ----------------------------------------------------------------------------------- *)
Definition bed_of (b : Bed.bed) : imp_bed_BED :=
  Imp_bed_BED (Bed.b_n b) (Bed.b_chrom b) (Bed.b_start b) (Bed.b_end b) (Bed.b_name b) (Bed.b_score b)
    (Bed.b_strand b) (Bed.b_thick_start b) (Bed.b_thick_end b)
    (let '(r, g, bl) := Bed.b_rgb b in [r; g; bl])
    (Bed.b_block_count b) (Bed.b_block_sizes b) (Bed.b_block_starts b).

Lemma when_next {R} (c : bool) (out x : list (list N)) :
  (if c then Next (R := R) (out ++ x) else Next out) = Next (out ++ Bed.when c x).
Proof. destruct c; cbn [Bed.when]; [reflexivity|rewrite app_nil_r; reflexivity]. Qed.

Lemma blocks_loop_gen {R} l (out : list (list N)) :
  go_range (R := R) l (fun (i x : Z) (out__6 : list (list N)) =>
     after (if 0 <? i then Next [44%N; 37%N; 118%N] else Next [37%N; 118%N])
       (fun txt : list N => Next (out__6 ++ [go_fmt1 txt (itoa x)]))) out
  = Next (out ++ Bed.list_calls l).
Proof.
  unfold go_range, indexed. destruct l as [|x r]; [cbn; rewrite app_nil_r; reflexivity|].
  cbn [length]. rewrite zseq_cons. cbn [combine go_iter fst snd Bed.list_calls Z.ltb Z.compare after go_fmt1].
  rewrite app_nil_r.
  assert (G : forall l j o, 1 <= j ->
    go_iter (R := R) (fun (p : Z * Z) => (fun (i x : Z) (out__6 : list (list N)) =>
        after (if 0 <? i then Next [44%N; 37%N; 118%N] else Next [37%N; 118%N])
          (fun txt : list N => Next (out__6 ++ [go_fmt1 txt (itoa x)]))) (fst p) (snd p))
      (combine (zseq j (length l)) l) o = Next (o ++ Bed.list_calls_rest l)).
  { clear. induction l as [|x r IH]; intros j o Hj.
    - cbn. rewrite app_nil_r. reflexivity.
    - cbn [length]. rewrite zseq_cons. cbn [combine go_iter Bed.list_calls_rest fst snd].
      replace (0 <? j) with true by lia. cbn [after go_fmt1]. rewrite app_nil_r.
      rewrite IH by lia. rewrite <- app_assoc. reflexivity. }
  rewrite G by lia. rewrite <- app_assoc. reflexivity.
Qed.

Theorem imp_BED_Write b :
  imp_bed_BED_Write (bed_of b)
  = match Bed.write_calls b with Ok cs => Ret (cs, 0) | _ => Ret ([], 2) end.
Proof.
  unfold imp_bed_BED_Write, Bed.write_calls, bed_of.
  cbn [imp_bed_BED_N imp_bed_BED_Chrom imp_bed_BED_ChromStart imp_bed_BED_ChromEnd imp_bed_BED_Name imp_bed_BED_Score
       imp_bed_BED_Strand imp_bed_BED_ThickStart imp_bed_BED_ThickEnd imp_bed_BED_ItemRGB imp_bed_BED_BlockCount
       imp_bed_BED_BlockSizes imp_bed_BED_BlockStarts].
  cbv zeta. replace (Bed.b_n b >? 12) with (12 <? Bed.b_n b) by lia.
  destruct ((Bed.b_n b <? 3) || (12 <? Bed.b_n b)); cbn [after]; [reflexivity|].
  destruct (Bed.b_rgb b) as [[r g] bl].
  cbn [snd after Z.eqb negb].
  rewrite !Z.gtb_ltb.
  assert (I0 : forall S' (k : N -> res S' (list (list N) * Z)), go_index [r; g; bl] 0 k = k r) by reflexivity.
  assert (I1 : forall S' (k : N -> res S' (list (list N) * Z)), go_index [r; g; bl] 1 k = k g) by reflexivity.
  assert (I2 : forall S' (k : N -> res S' (list (list N) * Z)), go_index [r; g; bl] 2 k = k bl) by reflexivity.
  repeat (first
    [ rewrite I0 | rewrite I1 | rewrite I2
    | rewrite (when_next (R := list (list N) * Z))
    | rewrite (blocks_loop_gen (R := list (list N) * Z))
    | rewrite <- app_assoc ]; cbn [after snd Z.eqb negb]).
  unfold Bed.rgb_text, Bed.fmt_byte, Bed.COMMA, TAB, LF.
  repeat (rewrite <- ?app_assoc; cbn [app]).
  reflexivity.
Qed.

(* ---- MarshalText: Write into a bytes.Buffer ------------------------------------------------------ *)
Theorem imp_Fasta_MarshalText fuel r : (length (Fasta.seq r) < fuel)%nat ->
  imp_fasta_Fasta_MarshalText fuel (fa_of r)
  = match Fasta.marshal_text r with Ok b => Ret (b, false) | _ => Panics end.
Proof.
  intros Hf. unfold imp_fasta_Fasta_MarshalText, Fasta.marshal_text. cbv zeta.
  unfold go_make. cbn [Z.ltb Z.compare Z.to_nat repeat].
  rewrite (imp_Fasta_Write fuel r Hf). cbn [go_call app]. fold (Fasta.write r).
  unfold fa_of. cbn [imp_fasta_Fasta_Name imp_fasta_Fasta_Sequence]. unfold go_len, Fasta.marshal_len, Fasta.text_line_len.
  replace (Z.of_nat (length (Fasta.write r)) =? 2 + Z.of_nat (length (Fasta.name r)) + Z.of_nat (length (Fasta.seq r))
             + Z.quot (Z.of_nat (length (Fasta.seq r)) + 80 - 1) 80)
    with (Nat.eqb (length (Fasta.write r)) (2 + length (Fasta.name r) + length (Fasta.seq r) + (length (Fasta.seq r) + 80 - 1) / 80)).
  - destruct (Nat.eqb _ _); reflexivity.
  - rewrite Z.quot_div_nonneg by lia.
    destruct (Nat.eqb_spec (length (Fasta.write r)) (2 + length (Fasta.name r) + length (Fasta.seq r) + (length (Fasta.seq r) + 80 - 1) / 80)) as [E|E];
      symmetry; [apply Z.eqb_eq|apply Z.eqb_neq]; lia.
Qed.

Theorem imp_Fastq_MarshalText r :
  imp_fastq_Fastq_MarshalText (fq_of r)
  = match Fastq.marshal_text r with Ok b => Ret (b, false) | _ => Panics end.
Proof.
  unfold imp_fastq_Fastq_MarshalText, Fastq.marshal_text. cbv zeta.
  unfold go_make. cbn [Z.ltb Z.compare Z.to_nat repeat].
  rewrite imp_Fastq_Write. cbn [go_call app].
  unfold fq_of. cbn [imp_fastq_Fastq_Name imp_fastq_Fastq_Sequence imp_fastq_Fastq_Quals]. unfold go_len.
  set (buf := concat (Fastq.write_calls r)).
  replace (Z.of_nat (length buf) =? 6 + Z.of_nat (length (Fastq.name r)) + Z.of_nat (length (Fastq.seq r)) + Z.of_nat (length (Fastq.quals r)))
    with (Nat.eqb (length buf) (6 + length (Fastq.name r) + length (Fastq.seq r) + length (Fastq.quals r))).
  - destruct (Nat.eqb _ _); reflexivity.
  - destruct (Nat.eqb_spec (length buf) (6 + length (Fastq.name r) + length (Fastq.seq r) + length (Fastq.quals r))) as [E|E];
      symmetry; [apply Z.eqb_eq|apply Z.eqb_neq]; lia.
Qed.

Theorem imp_BED_MarshalText b :
  imp_bed_BED_MarshalText (bed_of b)
  = match Bed.write b with Ok bs => Ret (bs, 0) | _ => Ret ([], 2) end.
Proof.
  unfold imp_bed_BED_MarshalText, Bed.write. cbv zeta. rewrite imp_BED_Write.
  destruct (Bed.write_calls b); cbn [go_call Z.eqb negb after app]; reflexivity.
Qed.

(* ---- smtext.extractSingleChar ---------------------------------------------------------------------- *)
From Bio.Model Require Smtext.
Theorem imp_extractSingleChar s :
  imp_smtext_extractSingleChar s
  = match Smtext.extract_single_char s with Ok b => Ret (b, 0) | _ => Ret (0%N, 2) end.
Proof.
  unfold imp_smtext_extractSingleChar, Smtext.extract_single_char, Smtext.GAP.
  destruct s as [|c [|d r]].
  - reflexivity.
  - change (go_len [c] =? 1) with true. cbn [negb beqb]. rewrite andb_true_r.
    destruct (c =? 42)%N; reflexivity.
  - replace (go_len (c :: d :: r) =? 1) with false by (unfold go_len; cbn [length]; lia). reflexivity.
Qed.
