(* Proofs/NewickProofsB.v *)
From Bio Require Import Base.
