(* Proofs/NewickProofsB.v — C05, names and tokens: nameFromText inverts
   nameToText for every byte string, and a written name is exactly one token. *)
From Bio Require Import Base.
From Bio.Model Require Import Newick.
From Bio.Spec Require Import NewickSpec.

(* ---- name_from_text (name_to_text s) = s -------------------------------- *)
Lemma dbl_nil_inv s : dbl_quotes s = [] -> s = [].
Proof. destruct s as [|c r]; [reflexivity|]. simpl. destruct (c =? 39); discriminate. Qed.

Lemma undbl_cons_other c l : (c =? 39) = false -> undbl_quotes (c :: l) = c :: undbl_quotes l.
Proof.
  intros H. destruct l as [|d l']; [reflexivity|].
  change (undbl_quotes (c :: d :: l'))
    with (if (c =? 39) && (d =? 39) then 39 :: undbl_quotes l' else c :: undbl_quotes (d :: l')).
  rewrite H. reflexivity.
Qed.

Lemma undbl_dbl : forall s, undbl_quotes (dbl_quotes s) = s.
Proof.
  induction s as [|c r IH]; [reflexivity|].
  cbn [dbl_quotes]. destruct (c =? 39) eqn:E.
  - apply N.eqb_eq in E. subst c.
    change (undbl_quotes (39 :: 39 :: dbl_quotes r)) with (39 :: undbl_quotes (dbl_quotes r)).
    rewrite IH. reflexivity.
  - rewrite (undbl_cons_other c _ E), IH. reflexivity.
Qed.

Lemma trigger_false_inv c : name_trigger c = false ->
  (c =? 40) = false /\ (c =? 41) = false /\ (c =? 44) = false /\ (c =? 58) = false
  /\ (c =? 59) = false /\ (c =? 39) = false /\ (c =? 95) = false /\ (c =? 9) = false
  /\ (c =? 10) = false /\ (c =? 13) = false.
Proof.
  unfold name_trigger. rewrite !Bool.orb_false_iff. tauto.
Qed.

Lemma existsb_false_cons {A} (f : A -> bool) a l :
  existsb f (a :: l) = false -> f a = false /\ existsb f l = false.
Proof. simpl. apply Bool.orb_false_iff. Qed.

Lemma map_byte_back : forall s, existsb name_trigger s = false ->
  map_byte 95 32 (map_byte 32 95 s) = s.
Proof.
  induction s as [|c r IH]; intros H; [reflexivity|].
  apply existsb_false_cons in H. destruct H as [Hc Hr].
  apply trigger_false_inv in Hc. destruct Hc as (_ & _ & _ & _ & _ & _ & H95 & _).
  unfold map_byte in *. cbn [map]. rewrite (IH Hr). f_equal.
  destruct (c =? 32) eqn:E32.
  - apply N.eqb_eq in E32. subst c. reflexivity.
  - rewrite H95. reflexivity.
Qed.

Lemma unquoted_text_not_quoted s : existsb name_trigger s = false ->
  quoted (map_byte 32 95 s) = false.
Proof.
  destruct s as [|c r]; intros H; [reflexivity|].
  apply existsb_false_cons in H. destruct H as [Hc _].
  apply trigger_false_inv in Hc. destruct Hc as (_ & _ & _ & _ & _ & H39 & _).
  unfold quoted, map_byte. cbn [map hd].
  destruct (c =? 32).
  - cbn [N.eqb Pos.eqb]. rewrite Bool.andb_false_r. reflexivity.
  - rewrite H39, Bool.andb_false_r. reflexivity.
Qed.

Lemma quoted_text_quoted s : quoted (39 :: dbl_quotes s ++ [39]) = true.
Proof.
  unfold quoted. cbn [hd]. rewrite app_comm_cons, last_last.
  rewrite app_length. cbn [length]. rewrite Nat.add_1_r. reflexivity.
Qed.

Lemma name_roundtrip : forall s, name_from_text (name_to_text s) = s.
Proof.
  intros s. unfold name_to_text, name_from_text.
  destruct (existsb name_trigger s) eqn:E.
  - rewrite quoted_text_quoted. cbn [tl]. rewrite removelast_last. apply undbl_dbl.
  - rewrite (unquoted_text_not_quoted s E). apply map_byte_back. exact E.
Qed.

Lemma name_text_nil s : name_to_text s = [] <-> s = [].
Proof.
  unfold name_to_text. destruct (existsb name_trigger s) eqn:E.
  - split; [discriminate|]. intros ->. discriminate E.
  - unfold map_byte. destruct s; cbn [map]; split; intros H; try reflexivity; discriminate H.
Qed.

(* ---- tokens ------------------------------------------------------------- *)
(* bytes that are appended to the buffer outside quotes *)
Definition plain (b : N) : bool := negb (b =? 39) && negb (is_punct b) && negb (is_ws b).

Lemma tok_plain : forall (w buf s : list N) tm, Forall (fun b => plain b = true) w ->
  tok_loop false false buf (w ++ s) tm = tok_loop false false (rev w ++ buf) s tm.
Proof.
  induction w as [|b w IH]; intros buf s tm H; [reflexivity|].
  inversion H as [|? ? Hb Hw]; subst.
  unfold plain in Hb. rewrite !Bool.andb_true_iff, !Bool.negb_true_iff in Hb.
  destruct Hb as [[H39 Hp] Hws].
  cbn [app tok_loop]. rewrite H39, Hp, Hws. rewrite (IH _ _ _ Hw).
  cbn [rev]. rewrite <- app_assoc. reflexivity.
Qed.

Lemma punct_not_quote x : is_punct x = true -> (x =? 39) = false.
Proof.
  unfold is_punct. rewrite !Bool.orb_true_iff.
  intros [[[[H|H]|H]|H]|H]; apply N.eqb_eq in H; subst; reflexivity.
Qed.

Lemma next_token_punct x r tm : is_punct x = true -> next_token (x :: r) tm = TokOk [x] r.
Proof.
  intros H. unfold next_token. cbn [tok_loop]. rewrite (punct_not_quote x H), H. reflexivity.
Qed.

Lemma nonempty_rev_app (w buf : list N) : w <> [] -> nonempty (rev w ++ buf) = true.
Proof.
  intros Hw. destruct (rev w) eqn:E.
  - exfalso. apply Hw. rewrite <- (rev_involutive w), E. reflexivity.
  - reflexivity.
Qed.

(* an unquoted word followed by punctuation *)
Lemma tok_word_punct (w : list N) (x : N) (r : list N) tm :
  Forall (fun b => plain b = true) w -> w <> [] -> is_punct x = true ->
  next_token (w ++ x :: r) tm = TokOk w (x :: r).
Proof.
  intros Hw Hne Hx. unfold next_token. rewrite (tok_plain w [] (x :: r) tm Hw).
  cbn [tok_loop]. rewrite (punct_not_quote x Hx), Hx, (nonempty_rev_app w [] Hne).
  rewrite app_nil_r, rev_involutive. reflexivity.
Qed.

Lemma tok_word_eof (w : list N) :
  Forall (fun b => plain b = true) w -> w <> [] -> next_token w TEOF = TokOk w [].
Proof.
  intros Hw Hne. unfold next_token. rewrite <- (app_nil_r w) at 1.
  rewrite (tok_plain w [] [] TEOF Hw). cbn [tok_loop].
  rewrite (nonempty_rev_app w [] Hne), app_nil_r, rev_involutive. reflexivity.
Qed.

(* inside quotes: the doubled text is swallowed and leaves afterQuote = false *)
Lemma tok_in_quotes : forall s buf rest tm,
  tok_loop true false buf (dbl_quotes s ++ rest) tm
  = tok_loop true false (rev (dbl_quotes s) ++ buf) rest tm.
Proof.
  induction s as [|c r IH]; intros buf rest tm; [reflexivity|].
  cbn [dbl_quotes]. destruct (c =? 39) eqn:E.
  - cbn [app tok_loop N.eqb Pos.eqb negb]. rewrite IH. cbn [rev].
    rewrite <- !app_assoc. reflexivity.
  - cbn [app tok_loop]. rewrite E, IH. cbn [rev]. rewrite <- app_assoc. reflexivity.
Qed.

Lemma rev_quoted_buf (q : bytes) : rev (39 :: rev q ++ [39]) = 39 :: q ++ [39].
Proof.
  cbn [rev]. rewrite rev_app_distr, rev_involutive. reflexivity.
Qed.

Lemma tok_quoted_next s x r tm : (x =? 39) = false ->
  next_token ((39 :: dbl_quotes s ++ [39]) ++ x :: r) tm
  = TokOk (39 :: dbl_quotes s ++ [39]) (x :: r).
Proof.
  intros Hx. unfold next_token. cbn [app tok_loop N.eqb Pos.eqb nonempty].
  rewrite <- app_assoc. rewrite tok_in_quotes.
  cbn [app tok_loop N.eqb Pos.eqb negb]. rewrite Hx.
  rewrite rev_quoted_buf. reflexivity.
Qed.

Lemma tok_quoted_eof s :
  next_token (39 :: dbl_quotes s ++ [39]) TEOF = TokOk (39 :: dbl_quotes s ++ [39]) [].
Proof.
  unfold next_token. cbn [tok_loop N.eqb Pos.eqb nonempty].
  rewrite tok_in_quotes. cbn [tok_loop N.eqb Pos.eqb negb nonempty].
  rewrite rev_quoted_buf. reflexivity.
Qed.

Lemma unquoted_text_plain : forall s, existsb name_trigger s = false ->
  Forall (fun b => plain b = true) (map_byte 32 95 s).
Proof.
  induction s as [|c r IH]; intros H; [constructor|].
  apply existsb_false_cons in H. destruct H as [Hc Hr].
  apply trigger_false_inv in Hc.
  destruct Hc as (H40 & H41 & H44 & H58 & H59 & H39 & H95 & H9 & H10 & H13).
  unfold map_byte. cbn [map]. constructor; [|exact (IH Hr)].
  destruct (c =? 32) eqn:E32; [reflexivity|].
  unfold plain, is_punct, is_ws. rewrite H39, H40, H41, H44, H58, H59, E32, H9, H10, H13.
  reflexivity.
Qed.

(* the written name is exactly one token, before punctuation and at EOF *)
Lemma name_one_token s x r tm : name_to_text s <> [] -> is_punct x = true ->
  next_token (name_to_text s ++ x :: r) tm = TokOk (name_to_text s) (x :: r).
Proof.
  intros Hne Hx. unfold name_to_text in *. destruct (existsb name_trigger s) eqn:E.
  - apply tok_quoted_next. apply punct_not_quote. exact Hx.
  - apply tok_word_punct; [apply unquoted_text_plain; exact E | exact Hne | exact Hx].
Qed.

Lemma name_one_token_eof s : name_to_text s <> [] ->
  next_token (name_to_text s) TEOF = TokOk (name_to_text s) [].
Proof.
  intros Hne. unfold name_to_text in *. destruct (existsb name_trigger s) eqn:E.
  - apply tok_quoted_eof.
  - apply tok_word_eof; [apply unquoted_text_plain; exact E | exact Hne].
Qed.

(* ---- words are not punctuation tokens ------------------------------------ *)
Definition is_word (tok : bytes) : bool :=
  match tok with [] => false | b :: _ => negb (is_punct b) end.

Lemma word_not_punct tok : is_word tok = true ->
  beqb tok [40] = false /\ beqb tok [41] = false /\ beqb tok [44] = false
  /\ beqb tok [58] = false /\ beqb tok [59] = false.
Proof.
  destruct tok as [|b r]; [discriminate|]. cbn [is_word]. rewrite Bool.negb_true_iff.
  unfold is_punct. rewrite !Bool.orb_false_iff. intros ((((H40 & H41) & H44) & H58) & H59).
  cbn [beqb]. rewrite H40, H41, H44, H58, H59. repeat split; reflexivity.
Qed.

Lemma name_text_word s : name_to_text s <> [] -> is_word (name_to_text s) = true.
Proof.
  unfold name_to_text. destruct (existsb name_trigger s) eqn:E; [reflexivity|].
  intros Hne. pose proof (unquoted_text_plain s E) as Hp.
  destruct (map_byte 32 95 s) as [|b r]; [contradiction|].
  inversion Hp as [|? ? Hb _]; subst. cbn [is_word]. unfold plain in Hb.
  rewrite !Bool.andb_true_iff in Hb. tauto.
Qed.

Lemma clean_delims_plain : forall t, clean delims t -> Forall (fun b => plain b = true) t.
Proof.
  intros t H. unfold clean in H. eapply Forall_impl; [|exact H].
  intros b Hb. unfold memb, delims in Hb. cbn [existsb] in Hb.
  rewrite !Bool.orb_false_iff in Hb.
  destruct Hb as (H40 & H41 & H44 & H58 & H59 & H39 & H32 & H9 & H10 & H13 & _).
  unfold plain, is_punct, is_ws. rewrite H39, H40, H41, H44, H58, H59, H32, H9, H10, H13.
  reflexivity.
Qed.

Lemma plain_word t : Forall (fun b => plain b = true) t -> t <> [] -> is_word t = true.
Proof.
  intros Hp Hne. destruct t as [|b r]; [contradiction|].
  inversion Hp as [|? ? Hb _]; subst. cbn [is_word]. unfold plain in Hb.
  rewrite !Bool.andb_true_iff in Hb. tauto.
Qed.

(* ---- whitespace ----------------------------------------------------------- *)
Lemma ws_not_quote_punct b : is_ws b = true -> (b =? 39) = false /\ is_punct b = false.
Proof.
  unfold is_ws. rewrite !Bool.orb_true_iff.
  intros [[[H|H]|H]|H]; apply N.eqb_eq in H; subst; split; reflexivity.
Qed.

Lemma next_token_skip_ws : forall ws s tm, ws_string ws ->
  next_token (ws ++ s) tm = next_token s tm.
Proof.
  unfold next_token. induction ws as [|b ws IH]; intros s tm H; [reflexivity|].
  inversion H as [|? ? Hb Hws]; subst. destruct (ws_not_quote_punct b Hb) as [H39 Hp].
  cbn [app tok_loop]. rewrite H39, Hp, Hb. cbn [nonempty]. apply IH. exact Hws.
Qed.

Lemma next_token_ws_eof ws : ws_string ws -> next_token ws TEOF = TokEOF.
Proof.
  intros H. rewrite <- (app_nil_r ws). rewrite (next_token_skip_ws ws [] TEOF H). reflexivity.
Qed.

(* ---- every token consumes input -------------------------------------------- *)
Lemma tok_loop_consumes tm tok rest : forall s quote afterq buf,
  (quote = true -> buf <> []) ->
  tok_loop quote afterq buf s tm = TokOk tok rest ->
  (length rest <= length s)%nat /\ (buf = [] -> (length rest < length s)%nat).
Proof.
  induction s as [|b r IH]; intros quote afterq buf Hinv H.
  - cbn [tok_loop] in H. destruct tm; [|discriminate].
    destruct buf; cbn [nonempty] in H; [discriminate|]. inversion H; subst.
    split; [apply Nat.le_refl | discriminate].
  - cbn [tok_loop] in H. cbn [length]. destruct quote.
    + specialize (Hinv eq_refl).
      destruct (b =? 39).
      * apply IH in H; [|discriminate]. destruct H as [H _]. split; [lia|intros; lia].
      * destruct afterq.
        -- inversion H; subst. split; [apply Nat.le_refl | contradiction].
        -- apply IH in H; [|discriminate]. destruct H as [H _]. split; [lia|intros; lia].
    + destruct (b =? 39).
      * destruct buf; cbn [nonempty] in H; [|discriminate].
        apply IH in H; [|discriminate]. destruct H as [H _]. split; [lia|intros; lia].
      * destruct (is_punct b).
        -- destruct buf; cbn [nonempty] in H; inversion H; subst.
           ++ split; [lia|intros; lia].
           ++ split; [apply Nat.le_refl | discriminate].
        -- destruct (is_ws b).
           ++ destruct buf; cbn [nonempty] in H.
              ** apply IH in H; [|discriminate]. destruct H as [H1 H2].
                 specialize (H2 eq_refl). split; [lia|intros; lia].
              ** inversion H; subst. split; [lia | discriminate].
           ++ apply IH in H; [|discriminate]. destruct H as [H _]. split; [lia|intros; lia].
Qed.

Lemma next_token_consumes s tm tok rest :
  next_token s tm = TokOk tok rest -> (length rest < length s)%nat.
Proof.
  intros H. unfold next_token in H.
  apply tok_loop_consumes in H; [|discriminate]. destruct H as [_ H]. exact (H eq_refl).
Qed.
