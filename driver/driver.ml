(* driver.ml — runs the extracted model on the cases written by the harness.
   stdin : lines  "<id> <kind> <val>"      stdout: lines "<id> <val>"
   val   : i<decimal> | x<hex> | [v v v]
   Conversions between text and Coq's inductive N / Z / positive / string are
   the only code here; everything else is Model.run_case. *)
module BZ = Z          (* Zarith, before the extracted module Z comes into scope *)
open Model

let rec pos_of_z (z : BZ.t) : positive =
  if BZ.equal z BZ.one then XH
  else if BZ.is_even z then XO (pos_of_z (BZ.shift_right z 1))
  else XI (pos_of_z (BZ.shift_right z 1))

let coqz_of_z (x : BZ.t) : z =
  let s = BZ.sign x in
  if s = 0 then Z0 else if s > 0 then Zpos (pos_of_z x) else Zneg (pos_of_z (BZ.neg x))

let rec z_of_pos (p : positive) : BZ.t =
  match p with
  | XH -> BZ.one
  | XO q -> BZ.shift_left (z_of_pos q) 1
  | XI q -> BZ.succ (BZ.shift_left (z_of_pos q) 1)

let z_of_coqz (x : z) : BZ.t =
  match x with Z0 -> BZ.zero | Zpos p -> z_of_pos p | Zneg p -> BZ.neg (z_of_pos p)

let byte_tab : n array =
  Array.init 256 (fun i -> if i = 0 then N0 else Npos (pos_of_z (BZ.of_int i)))

let int_of_n (x : n) : int =
  match x with N0 -> 0 | Npos p -> BZ.to_int (z_of_pos p)

let hexval c =
  match c with
  | '0' .. '9' -> Char.code c - 48
  | 'a' .. 'f' -> Char.code c - 87
  | _ -> failwith "bad hex"

(* parser over a string with a position *)
let parse_val (s : String.t) (start : int) : val0 * int =
  let n = String.length s in
  let rec skip i = if i < n && s.[i] = ' ' then skip (i + 1) else i in
  let rec pv i =
    let i = skip i in
    if i >= n then failwith "empty val"
    else
      match s.[i] with
      | 'i' ->
          let j = ref (i + 1) in
          while !j < n && (s.[!j] = '-' || (s.[!j] >= '0' && s.[!j] <= '9')) do incr j done;
          (VI (coqz_of_z (BZ.of_string (String.sub s (i + 1) (!j - i - 1)))), !j)
      | 'x' ->
          let j = ref (i + 1) in
          while !j < n && (match s.[!j] with '0' .. '9' | 'a' .. 'f' -> true | _ -> false) do incr j done;
          let len = (!j - i - 1) / 2 in
          let acc = ref [] in
          for k = len - 1 downto 0 do
            let b = (hexval s.[i + 1 + (2 * k)] * 16) + hexval s.[i + 2 + (2 * k)] in
            acc := byte_tab.(b) :: !acc
          done;
          (VB !acc, !j)
      | '[' ->
          let rec elems i acc =
            let i = skip i in
            if i >= n then failwith "unterminated list"
            else if s.[i] = ']' then (VL (List.rev acc), i + 1)
            else
              let v, j = pv i in
              elems j (v :: acc)
          in
          elems (i + 1) []
      | _ -> failwith "bad val"
  in
  pv start

let hexdig = "0123456789abcdef"

let rec print_val (b : Buffer.t) (v : val0) : unit =
  match v with
  | VI z -> Buffer.add_char b 'i'; Buffer.add_string b (BZ.to_string (z_of_coqz z))
  | VB l ->
      Buffer.add_char b 'x';
      List.iter
        (fun x ->
          let i = int_of_n x in
          if i > 255 then Buffer.add_string b "ZZ"   (* not a byte: can never equal the implementation *)
          else begin Buffer.add_char b hexdig.[i lsr 4]; Buffer.add_char b hexdig.[i land 15] end)
        l
  | VL l ->
      Buffer.add_char b '[';
      List.iteri (fun i e -> if i > 0 then Buffer.add_char b ' '; print_val b e) l;
      Buffer.add_char b ']'

let coq_string_of (s : String.t)  =
  let r = ref EmptyString in
  for i = String.length s - 1 downto 0 do
    let c = Char.code s.[i] in
    let bit k = c land (1 lsl k) <> 0 in
    r := String (Ascii (bit 0, bit 1, bit 2, bit 3, bit 4, bit 5, bit 6, bit 7), !r)
  done;
  !r

let () =
  let buf = Buffer.create 65536 in
  (try
     while true do
       let line = input_line stdin in
       if String.length line > 0 then begin
         let sp1 = String.index line ' ' in
         let sp2 = String.index_from line (sp1 + 1) ' ' in
         let id = String.sub line 0 sp1 in
         let kind = String.sub line (sp1 + 1) (sp2 - sp1 - 1) in
         let v, _ = parse_val line (sp2 + 1) in
         let out =
           try run_case (coq_string_of kind) v
           with Stack_overflow -> VL [ VI (coqz_of_z (BZ.of_int 97)) ]
         in
         Buffer.clear buf;
         Buffer.add_string buf id;
         Buffer.add_char buf ' ';
         print_val buf out;
         Buffer.add_char buf '\n';
         print_string (Buffer.contents buf)
       end
     done
   with End_of_file -> ());
  flush stdout
