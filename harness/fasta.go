package main

// Package formats/fasta: C01 (write -> read round trip, any layout).
// Kinds mirror coq/Corr/FastaCorr.v:
//
//	fasta_write  : [name seq]               -> [[call ...] marshal]   marshal = [i0 bytes] | [i1] | [i2]
//	fasta_decode : [bytes term chunk]       -> [item ...]             item = [i0 [name seq]] | [i1]
//	fasta_layout : [[[name seq] ...] bytes] -> [item ...]             (Reader on the bytes; EOF)
//
// term: i0 = clean EOF, i1 = the stream fails after the bytes (fed with
// faultReader, once and forever: both must give the same items).
// chunk: how the bytes are sliced into Read calls (0 = one piece, k>0 = k bytes
// per Read, k<0 = |k| bytes per Read and the last piece comes with io.EOF);
// not observable, the model ignores it.

import (
	"bytes"
	"fmt"
	"io"
	"iter"
	"slices"

	"github.com/fluhus/biostuff/formats/fasta"
)

// callRecorder records every Write call separately.
type callRecorder struct{ calls [][]byte }

func (w *callRecorder) Write(p []byte) (int, error) {
	w.calls = append(w.calls, slices.Clone(p))
	return len(p), nil
}

func vFasta(name, seq []byte) Val { return L(B(name), B(seq)) }

func fastaItems(it iter.Seq2[*fasta.Fasta, error], limit int) Val {
	// retain every yielded record until the iteration is over, then encode: a
	// record whose slices alias the reader's buffer is corrupted by later reads
	type pair struct {
		fa  *fasta.Fasta
		err error
	}
	var got []pair
	for fa, err := range it {
		got = append(got, pair{fa, err})
		if len(got) >= limit {
			break
		}
	}
	items := Val{K: 'l'}
	for _, g := range got {
		if g.err != nil {
			items.L = append(items.L, L(I(1)))
		} else {
			items.L = append(items.L, L(I(0), vFasta(g.fa.Name, g.fa.Sequence)))
		}
	}
	return items
}

func eofReader(data []byte, chunk int) io.Reader {
	data = slices.Clone(data)
	if chunk == 0 {
		return bytes.NewReader(data)
	}
	k := chunk
	if k < 0 {
		k = -k
	}
	chunks := make([]int, len(data)/k+2)
	for i := range chunks {
		chunks[i] = k
	}
	return &chunkReader{data: data, chunks: chunks, withEOF: chunk < 0}
}

func fastaDecodeImpl(data []byte, termErr bool, chunk int) Val {
	limit := len(data) + 8
	if !termErr {
		return fastaItems(fasta.Reader(eofReader(data, chunk)), limit)
	}
	k := chunk
	if k < 0 {
		k = -k
	}
	once := fastaItems(fasta.Reader(&faultReader{data: slices.Clone(data), forever: false, chunk: k}), limit)
	forever := fastaItems(fasta.Reader(&faultReader{data: slices.Clone(data), forever: true, chunk: k}), limit)
	if once.String() != forever.String() {
		return L(I(3), S("fail-once and fail-forever streams give different items"), once, forever)
	}
	return once
}

// ---- independent reference reader (line based) ---------------------------------

func isNL(b byte) bool { return b == '\n' || b == '\r' }

// refFastaDecode: the non-empty lines (maximal runs of bytes other than CR/LF)
// are the content; a line starting with '>' opens a record, other lines extend
// the open record's sequence; a non-empty input that does not start with '>'
// opens a nameless record first. A failing stream loses the open record and
// ends with an error item.
func refFastaDecode(data []byte, termErr bool) Val {
	items := Val{K: 'l'}
	open := false
	var name, seq []byte
	closeRec := func() {
		if open {
			items.L = append(items.L, L(I(0), vFasta(name, seq)))
		}
		open, name, seq = false, nil, nil
	}
	if len(data) > 0 && data[0] != '>' {
		open = true
	}
	i := 0
	for i < len(data) {
		if isNL(data[i]) {
			i++
			continue
		}
		j := i
		for j < len(data) && !isNL(data[j]) {
			j++
		}
		line := data[i:j]
		if line[0] == '>' {
			closeRec()
			open = true
			name = slices.Clone(line[1:])
		} else {
			seq = append(seq, line...)
		}
		i = j
	}
	if termErr {
		items.L = append(items.L, L(I(1)))
	} else {
		closeRec()
	}
	return items
}

// ---- domain predicates -----------------------------------------------------------

func nameOK(s []byte) bool { return !bytes.ContainsAny(s, "\r\n") }
func seqOK(s []byte) bool  { return !bytes.ContainsAny(s, "\r\n>") }

func recordsVal(recs []*fasta.Fasta) Val {
	v := Val{K: 'l'}
	for _, r := range recs {
		v.L = append(v.L, vFasta(r.Name, r.Sequence))
	}
	return v
}

// ---- kinds -------------------------------------------------------------------------

var kFastaWrite = register(&Kind{Name: "fasta_write",
	// compared with the model: the bytes written and MarshalText's result, not the
	// way Write splits them into calls
	Project: func(out Val) Val { return L(joinChunks(out.At(0)), out.At(1)) },
	Impl: func(in Val) Val {
		name0, seq0 := in.At(0).Bytes(), in.At(1).Bytes()
		// Name and Sequence are carved from one buffer, Name with spare capacity that
		// runs over the sequence and a guard: a writer that appends to a field (instead
		// of copying) clobbers its neighbour
		carved := append(append(append([]byte{}, name0...), seq0...), "GUARDguard"...)
		carved0 := slices.Clone(carved)
		fa := &fasta.Fasta{Name: carved[:len(name0)], Sequence: carved[len(name0) : len(name0)+len(seq0)]}
		poisonWriters(func(w io.Writer) error {
			return (&fasta.Fasta{Name: []byte("poison"), Sequence: bytes.Repeat([]byte("N"), 100)}).Write(w)
		})
		w := &callRecorder{}
		if err := fa.Write(w); err != nil {
			return L(I(3), S("Write to a writer that never fails returned an error"))
		}
		var m Val
		func() {
			defer func() {
				if r := recover(); r != nil {
					m = vPanic
				}
			}()
			b, err := fa.MarshalText()
			if err != nil {
				m = vErr
			} else if !marshalKeeps(b, func() {
				(&fasta.Fasta{Name: []byte("another record"), Sequence: bytes.Repeat([]byte("T"), 200)}).MarshalText()
			}) {
				m = vMarshalAliased
			} else {
				m = vOk(B(b))
			}
		}()
		if !bytes.Equal(fa.Name, name0) || !bytes.Equal(fa.Sequence, seq0) || !bytes.Equal(carved, carved0) {
			return L(I(3), S("record (or memory next to its fields) modified by Write/MarshalText"))
		}
		return L(BL(w.calls), m)
	},
	Oracle: func(in, out Val) string {
		name, seq := in.At(0).Bytes(), in.At(1).Bytes()
		if out.K != 'l' || len(out.L) != 2 || out.L[0].K != 'l' {
			return "Write/MarshalText: " + clip(out.String())
		}
		all := joinChunks(out.At(0)).Bytes()
		if nameOK(name) && seqOK(seq) {
			// the lines of the output (the property speaks of lines, not of Write calls)
			calls := bytes.SplitAfter(all, []byte("\n"))
			if len(calls) > 0 && len(calls[len(calls)-1]) == 0 {
				calls = calls[:len(calls)-1]
			} else {
				return "output does not end with LF"
			}
			if len(calls) == 0 || !bytes.Equal(calls[0], append(append([]byte{'>'}, name...), '\n')) {
				return "first line written is not '>' name LF"
			}
			var body []byte
			for i, c := range calls[1:] {
				l := c[:len(c)-1]
				if len(l) == 0 || len(l) > 80 {
					return fmt.Sprintf("sequence line %d has %d bytes", i, len(l))
				}
				if i < len(calls)-2 && len(l) != 80 {
					return fmt.Sprintf("sequence line %d (not the last) has %d bytes, want 80", i, len(l))
				}
				body = append(body, l...)
			}
			if !bytes.Equal(body, seq) {
				return "sequence lines do not concatenate to the sequence"
			}
			if want := (len(seq) + 79) / 80; len(calls)-1 != want {
				return fmt.Sprintf("%d sequence lines for %d bytes, want %d", len(calls)-1, len(seq), want)
			}
		}
		m := out.At(1)
		if !isOk(m) {
			return "MarshalText did not return bytes: " + clip(m.String())
		}
		if !bytes.Equal(m.At(1).Bytes(), all) {
			return "MarshalText and Write produce different bytes"
		}
		if nameOK(name) && seqOK(seq) {
			got := fastaItems(fasta.Reader(bytes.NewReader(all)), 4)
			want := L(L(I(0), vFasta(name, seq)))
			if got.String() != want.String() {
				return "reading back the written record gives " + clip(got.String())
			}
		}
		return ""
	}})

var kFastaDecode = register(&Kind{Name: "fasta_decode",
	Impl: func(in Val) Val {
		return fastaDecodeImpl(in.At(0).Bytes(), in.At(1).Int() == 1, in.At(2).Int())
	},
	Oracle: func(in, out Val) string {
		data, termErr := in.At(0).Bytes(), in.At(1).Int() == 1
		want := refFastaDecode(data, termErr)
		if out.String() != want.String() {
			return "Reader differs from the line-based reference reader: want " + clip(want.String())
		}
		// delivery must not matter
		for _, k := range []int{1, -7, 4096} {
			if len(data) > 20000 && k != 4096 {
				continue
			}
			if got := fastaDecodeImpl(data, termErr, k); got.String() != out.String() {
				return fmt.Sprintf("items depend on how the stream is sliced into reads (chunk %d)", k)
			}
		}
		return ""
	}})

var kFastaLayout = register(&Kind{Name: "fasta_layout",
	Impl: func(in Val) Val {
		data := in.At(1).Bytes()
		return fastaItems(fasta.Reader(bytes.NewReader(slices.Clone(data))), len(data)+8)
	},
	Oracle: func(in, out Val) string {
		want := Val{K: 'l'}
		for _, r := range in.At(0).List() {
			want.L = append(want.L, L(I(0), vFasta(r.At(0).Bytes(), r.At(1).Bytes())))
		}
		if out.String() != want.String() {
			got := out.List()
			if len(got) != len(want.L) {
				return fmt.Sprintf("layout of %d records decodes to %d items", len(want.L), len(got))
			}
			for i := range got {
				if got[i].String() != want.L[i].String() {
					return fmt.Sprintf("record %d does not survive: got %s", i, clip(got[i].String()))
				}
			}
			return "decoded records differ"
		}
		return ""
	}})

// ---- generators ------------------------------------------------------------------

var fastaBoundaryLens = []int{0, 1, 2, 79, 80, 81, 159, 160, 161, 240}

// seqLen draws a sequence length; budget is what is left of the per-case size.
func (c *Ctx) fastaSeqLen(budget int) (int, string) {
	p := c.Intn(100)
	switch {
	case p < 45:
		return c.Intn(200), "len/uniform<200"
	case p < 85:
		return fastaBoundaryLens[c.Intn(len(fastaBoundaryLens))], "len/boundary80"
	case p < 95 && budget > 4200:
		return 4095 + c.Intn(3), "len/bufio4096"
	case budget > 66000:
		return 65535 + c.Intn(3), "len/64KiB"
	}
	return 80 * (1 + c.Intn(4)), "len/multiple80"
}

func (c *Ctx) fastaBytes(n int, forbid string, dna bool) []byte {
	b := make([]byte, n)
	for i := range b {
		for {
			if dna {
				b[i] = "ACGTNacgtn-* "[c.Intn(13)]
			} else {
				b[i] = byte(c.Intn(256))
			}
			if bytes.IndexByte([]byte(forbid), b[i]) < 0 {
				break
			}
		}
	}
	return b
}

func (c *Ctx) fastaName() []byte {
	var n int
	switch c.Intn(6) {
	case 0:
		n = 0
	case 1:
		n = c.Choose(1, 79, 80, 81, 200)
	default:
		n = 1 + c.Intn(24)
	}
	name := c.fastaBytes(n, "\r\n", c.Intn(2) == 0)
	// '>' inside names, also at the start and at the end
	if n > 0 && c.Intn(3) == 0 {
		name[c.Intn(n)] = '>'
		if c.Intn(2) == 0 {
			name[0] = '>'
		}
		if c.Intn(3) == 0 {
			name[n-1] = '>'
		}
	}
	return name
}

func (c *Ctx) fastaRecords(budget int) (recs []*fasta.Fasta, strata []string, nontrivial bool) {
	n := c.Choose(0, 1, 1, 2, 2, 3, 4, 5, 6)
	seen := map[string]bool{}
	for i := 0; i < n; i++ {
		l, st := c.fastaSeqLen(budget)
		budget -= l + 30
		if !seen[st] {
			seen[st] = true
			strata = append(strata, st)
		}
		if l >= 80 {
			nontrivial = true
		}
		recs = append(recs, &fasta.Fasta{Name: c.fastaName(), Sequence: c.fastaBytes(l, "\r\n>", c.Intn(2) == 0)})
	}
	strata = append(strata, fmt.Sprintf("records/%d", n))
	return
}

// fastaWritten is what Write produces for the records, one after the other
// (whatever the implementation does: a panic or an error ends the text there).
func fastaWritten(recs []*fasta.Fasta) (out []byte) {
	buf := &bytes.Buffer{}
	defer func() {
		recover()
		out = buf.Bytes()
	}()
	for _, r := range recs {
		if err := r.Write(buf); err != nil {
			break
		}
	}
	return nil
}

// layout options
type fastaLayoutOpt struct {
	width    int    // 0: a fresh random width 1..200 per line; else fixed width
	nl       string // "lf" "crlf" "cr" "mixed"
	blank    bool   // extra separators (blank lines) between lines
	noFinal  bool   // omit the final separator
	describe string
}

func (c *Ctx) fastaSep(o fastaLayoutOpt) []byte {
	one := func() []byte {
		switch o.nl {
		case "lf":
			return []byte("\n")
		case "crlf":
			return []byte("\r\n")
		case "cr":
			return []byte("\r")
		}
		return [][]byte{[]byte("\n"), []byte("\r\n"), []byte("\r"), []byte("\n\r")}[c.Intn(4)]
	}
	s := one()
	if o.blank && c.Intn(2) == 0 {
		for k := 1 + c.Intn(3); k > 0; k-- {
			s = append(s, one()...)
		}
	}
	return s
}

func (c *Ctx) fastaLayout(recs []*fasta.Fasta, o fastaLayoutOpt) []byte {
	var out []byte
	lastCut := 0
	for _, r := range recs {
		out = append(out, '>')
		out = append(out, r.Name...)
		lastCut = len(out)
		out = append(out, c.fastaSep(o)...)
		seq := r.Sequence
		for len(seq) > 0 {
			w := o.width
			if w == 0 {
				w = 1 + c.Intn(200)
			}
			w = min(w, len(seq))
			out = append(out, seq[:w]...)
			seq = seq[w:]
			lastCut = len(out)
			out = append(out, c.fastaSep(o)...)
		}
	}
	if o.noFinal {
		out = out[:lastCut]
	}
	return out
}

func (c *Ctx) fastaLayoutOpts() []fastaLayoutOpt {
	opts := []fastaLayoutOpt{
		{width: 80, nl: "lf", describe: "layout/writer-like"},
		{width: 80, nl: "lf", noFinal: true, describe: "layout/no-final-newline"},
		{width: 80, nl: "crlf", describe: "layout/crlf"},
		{width: 80, nl: "cr", describe: "layout/lone-cr"},
		{width: c.Choose(1, 2, 60, 70, 79, 81, 100, 200, 1+c.Intn(200)), nl: "lf", describe: "layout/rewrap-fixed"},
		{width: 0, nl: "lf", describe: "layout/rewrap-random"},
		{width: 80, nl: "lf", blank: true, describe: "layout/blank-lines"},
		{width: 1 << 30, nl: "lf", describe: "layout/single-line"},
	}
	// one fully mixed layout
	opts = append(opts, fastaLayoutOpt{width: c.Choose(0, 0, 80, 1+c.Intn(200)), nl: []string{"lf", "crlf", "cr", "mixed"}[c.Intn(4)],
		blank: c.Intn(2) == 0, noFinal: c.Intn(2) == 0, describe: "layout/mixed"})
	return opts
}

// all compositions of s into non-empty chunks
func compositions(s []byte, f func(chunks [][]byte)) {
	var rec func(rest []byte, cur [][]byte)
	rec = func(rest []byte, cur [][]byte) {
		if len(rest) == 0 {
			f(cur)
			return
		}
		for w := 1; w <= len(rest); w++ {
			rec(rest[w:], append(cur[:len(cur):len(cur)], rest[:w]))
		}
	}
	rec(s, nil)
}

// all layouts of one record: every composition x every choice of separator per
// line end in seps x (final separator present | absent)
func allRecordLayouts(r *fasta.Fasta, seps []string, last bool, f func(text []byte)) {
	compositions(r.Sequence, func(chunks [][]byte) {
		nsep := len(chunks) + 1
		idx := make([]int, nsep)
		for {
			var t []byte
			t = append(t, '>')
			t = append(t, r.Name...)
			cut := len(t)
			t = append(t, seps[idx[0]]...)
			for i, ch := range chunks {
				t = append(t, ch...)
				cut = len(t)
				t = append(t, seps[idx[i+1]]...)
			}
			f(t)
			if last && idx[nsep-1] == 0 {
				f(t[:cut]) // no final separator
			}
			k := 0
			for k < nsep {
				idx[k]++
				if idx[k] < len(seps) {
					break
				}
				idx[k] = 0
				k++
			}
			if k == nsep {
				break
			}
		}
	})
}

func init() {
	registerProp("C01", "record lists of 0..6 records, sequence lengths from {0,1,2,79,80,81,159,160,161,240, 4095..4097, 65535..65537} and uniform <200, names over all bytes but CR/LF (with '>' inside), sequences over all bytes but CR/LF/'>'; each list is written (Write call by call, MarshalText) and laid out in 9 ways (writer, no final newline, CRLF, lone CR, re-wrapped at a fixed and at random widths, blank lines, one line, mixed) and read back with EOF and with a failing stream; exhaustively all layouts (every split of the sequence into lines x separator LF/CRLF/LFLF per line end x final separator or not) of small record lists, and all byte strings over {'>',LF,CR,'A'} up to length L through the reader (malformed input); random malformed streams; non-trivial = a record list with at least one sequence of length >= 80 (layout/write cases), or an input of at least 2 bytes (malformed stream)", func(c *Ctx) {
		// ---- exhaustive small scopes
		maxLen := c.Pick(6, 8)
		allStrings([]byte{'>', '\n', '\r', 'A'}, maxLen, func(s []byte) {
			c.Run(kFastaDecode, L(B(s), I(0), I(0)), len(s) >= 2, "malformed/exhaustive")
			c.Run(kFastaDecode, L(B(s), I(1), I(0)), len(s) >= 2, "malformed/exhaustive-failing-stream")
		})
		c.Exhaustive(fmt.Sprintf("all inputs over {'>',LF,CR,'A'} of length <= %d, EOF and failing stream", maxLen))
		seps := []string{"\n", "\r\n", "\n\n"}
		total := c.Pick(4, 6)
		for n := 0; n <= total; n++ {
			r := &fasta.Fasta{Name: []byte("n>"), Sequence: []byte("ACGTAC")[:n]}
			allRecordLayouts(r, seps, true, func(t []byte) {
				c.Run(kFastaLayout, L(recordsVal([]*fasta.Fasta{r}), B(t)), false, "layout/exhaustive-1-record")
			})
		}
		total2 := c.Pick(3, 4)
		for a := 0; a <= total2; a++ {
			for b := 0; a+b <= total2; b++ {
				r1 := &fasta.Fasta{Name: []byte(""), Sequence: []byte("ACGT")[:a]}
				r2 := &fasta.Fasta{Name: []byte(">x"), Sequence: []byte("TGCA")[:b]}
				allRecordLayouts(r1, seps, false, func(t1 []byte) {
					t1 = slices.Clone(t1)
					allRecordLayouts(r2, seps, true, func(t2 []byte) {
						c.Run(kFastaLayout, L(recordsVal([]*fasta.Fasta{r1, r2}), B(append(slices.Clone(t1), t2...))), false, "layout/exhaustive-2-records")
					})
				})
			}
		}
		c.Exhaustive(fmt.Sprintf("all layouts (line splits x separators LF/CRLF/LFLF x final separator) of one record with sequence length <= %d and of two records with total sequence length <= %d", total, total2))

		// ---- every sequence length around the wrap boundaries through the writer
		for l := 0; l <= c.Pick(330, 1000); l++ {
			c.Run(kFastaWrite, L(B(c.fastaName()), B(c.fastaBytes(l, "\r\n>", true))), l >= 80, "write/every-length")
		}
		for _, l := range []int{4095, 4096, 4097, 65535, 65536, 65537, 80 * 820} {
			c.Run(kFastaWrite, L(B(c.fastaName()), B(c.fastaBytes(l, "\r\n>", false))), true, "write/long")
		}
		// outside the reader's domain the writer still has its shape
		for i := 0; i < 50; i++ {
			c.Run(kFastaWrite, L(B(c.RandBytes(c.Intn(10), []byte(">\r\nab"))), B(c.RandBytes(c.Intn(200), []byte(">\r\nAC")))), false, "write/outside-domain")
		}

		// ---- record lists x layouts
		n := c.Pick(260, 2500)
		for i := 0; i < n; i++ {
			recs, strata, nontriv := c.fastaRecords(140000)
			rv := recordsVal(recs)
			for _, r := range recs {
				if len(r.Sequence) < 4000 || c.Intn(4) == 0 {
					c.Run(kFastaWrite, L(B(r.Name), B(r.Sequence)), len(r.Sequence) >= 80, "write/from-list")
				}
			}
			// writer output itself
			written := fastaWritten(recs)
			c.Run(kFastaLayout, L(rv, B(written)), nontriv, append(strata, "layout/writer-output")...)
			big := len(written) > 20000
			for _, o := range c.fastaLayoutOpts() {
				if big && c.Intn(3) != 0 {
					continue
				}
				text := c.fastaLayout(recs, o)
				c.Run(kFastaLayout, L(rv, B(text)), nontriv, append(strata, o.describe)...)
				if !big && c.Intn(3) == 0 {
					chunk := c.Choose(0, 1, 2, 3, 16, -1, -5, 4096, -4096)
					c.Run(kFastaDecode, L(B(text), I(c.Intn(2)), I(chunk)), nontriv, "decode/layout-eof-or-failing-stream")
				}
				if !big && len(text) > 0 && c.Intn(6) == 0 {
					// truncated somewhere: still the reader's behaviour, checked against the reference
					k := c.Intn(len(text))
					c.Run(kFastaDecode, L(B(text[:k]), I(c.Intn(2)), I(c.Choose(0, 1, 7))), nontriv, "decode/truncated-layout")
				}
			}
		}

		// ---- malformed streams
		m := c.Pick(1500, 20000)
		alpha := []byte{'>', '>', '\n', '\n', '\r', 'A', 'C', ' ', 0, 0xff}
		for i := 0; i < m; i++ {
			var s []byte
			switch c.Intn(4) {
			case 0:
				s = c.RandBytes(c.Intn(40), nil)
			case 1:
				s = c.RandBytes(c.Intn(300), alpha)
			default:
				s = c.RandBytes(c.Intn(40), alpha)
			}
			st := "malformed/random"
			switch {
			case len(s) > 0 && isNL(s[0]):
				st = "malformed/blank-lines-first"
			case !bytes.Contains(s, []byte(">")):
				st = "malformed/no-gt"
			case len(s) > 0 && s[0] != '>':
				st = "malformed/sequence-first"
			}
			c.Run(kFastaDecode, L(B(s), I(c.Intn(2)), I(c.Choose(0, 0, 1, 2, -3))), len(s) >= 2, st)
		}

		// ---- beyond the model's size limit: implementation + oracle only
		layoutOnly, writeOnly := *kFastaLayout, *kFastaWrite
		layoutOnly.NoModel, writeOnly.NoModel = true, true
		for _, l := range []int{200000, c.Pick(1<<20, 1<<22) + 1} {
			r := &fasta.Fasta{Name: c.fastaName(), Sequence: c.fastaBytes(l, "\r\n>", false)}
			r2 := &fasta.Fasta{Name: c.fastaName(), Sequence: c.fastaBytes(81, "\r\n>", true)}
			recs := []*fasta.Fasta{r, r2}
			c.Run(&writeOnly, L(B(r.Name), B(r.Sequence)), true, "write/impl-only-large")
			for _, o := range c.fastaLayoutOpts() {
				c.Run(&layoutOnly, L(recordsVal(recs), B(c.fastaLayout(recs, o))), true, "layout/impl-only-large", o.describe)
			}
		}
		{
			r := &fasta.Fasta{Name: c.fastaBytes(1<<20+1, "\r\n", false), Sequence: []byte("ACGT")}
			r2 := &fasta.Fasta{Name: []byte("b"), Sequence: []byte("GG")}
			c.Run(&writeOnly, L(B(r.Name), B(r.Sequence)), true, "write/impl-only-long-name")
			c.Run(&layoutOnly, L(recordsVal([]*fasta.Fasta{r2, r, r2}), B(fastaWritten([]*fasta.Fasta{r2, r, r2}))), true, "layout/impl-only-long-name")
		}
		c.Note("inputs above ~300 KB (sequence lengths 200,000 and 1 MiB+1) are run on the implementation with the direct oracle only")
	})
}
