package main

// gen-imp: a translator from the imperative subset of Go that the listed functions of
// the library are written in to Gallina (coq/gen/ImpGen.v), in the shallow embedding of
// coq/Model/GoSem.v.  Unlike gen-src (gensrc.go: expression-bodied functions, format
// strings, iterator shapes) it translates whole function bodies: assignments, indexed
// and field updates, if / switch, the four loop forms, break / continue / return /
// panic, calls between translated functions, append / len / make / copy / delete /
// min, comma-ok map reads, bytes.Compare, sort.Slice / sort.Ints / sort.Search, and the
// callback of a range-over-func iterator (the yielded items are collected).  Types come
// from go/types.  Anything outside the subset makes the translator fail, which the check
// reports as a broken correspondence.
//
// Shape of the output: a statement list becomes an expression of type [res S R]; what
// follows an `if` is duplicated into both branches (the functions are small), so that no
// join of variables is needed; a loop is a GoSem combinator applied to a function from
// the tuple of the outer variables the body assigns; every Go variable is a distinct
// Gallina name (a second variable of the same name gets a numeric suffix).

import (
	"fmt"
	"go/ast"
	"go/constant"
	"go/importer"
	"go/parser"
	"go/token"
	"go/types"
	"os"
	"sort"
	"strings"
)

type impExt struct {
	name    string // the Go function, translated in another want of the same package
	coq     string
	oracle  bool // takes the float oracle
	errBool bool // its error result is a bool there: converted to the code 2 ("some other error") here
}

type impWant struct {
	valPtr   []string // struct types whose pointers live only in one local slice: elements are values, `x := sl[i]` is an alias of sl[i]
	stops    bool // also emit <iterator>_stop: the consumer declines after stop__ items
	optRes   bool     // results of pointer-to-struct type are options (nil is None)
	optPtr   []string // *T is (option T) everywhere, for these named types / "string"
	ext      []impExt
	extRecs  map[string]string // struct types whose records another want has already emitted: name -> that want's pkg
	heap     string // name of a struct type whose pointers are addresses into a threaded heap h__ (package trie)
	heapRec  bool   // the heap holds the struct's record (fields read and written through the pointer) instead of trie nodes
	errZ     bool
	floatAs  string // Gallina type standing for float64 in this package ("" = Z, integer-valued scores)
	join     bool // translate `if` by joining the assigned variables instead of duplicating what follows
	dir, pkg string
	funcs    []string          // "Name" or "Recv.Name", in dependency order
	globals  map[string]string // package-level variable -> Gallina term (Model/GoGlobals.v)
}

var impWants = []impWant{
	{dir: "sequtil", pkg: "sequtil", stops: true,
		funcs: []string{"Ntoi", "Iton", "complementByte", "ReverseComplement", "DNATo2Bit", "DNAFrom2Bit",
			"CanonicalSubsequences", "Translate", "TranslateReadingFrames", "ReverseComplementString", "AminoName",
			"init@sequtil.go#0", "init@sequtil.go#1", "var:codonToAmino", "var:aminoToName"},
		globals: map[string]string{"ntoi": "g_sequtil_ntoi", "complementBytes": "g_sequtil_complementBytes",
			"dnaFrom2bit": "g_sequtil_dnaFrom2bit", "codonToAmino": "g_sequtil_codonToAmino",
			"aminoToName": "g_sequtil_aminoToName"}},
	{dir: "regions", pkg: "regions",
		funcs: []string{"eventLess", "keys", "cp", "NewIndex", "Index.At"}},
	{dir: "align", pkg: "align",
		funcs: []string{"SubstitutionMatrix.Get", "decideOnStep", "traceAlignmentSteps", "Global",
			"argmax", "traceAlignmentStepsLocal", "Local", "Step.String",
			"init@pam120.go#0", "init@pam160.go#0", "init@pam250.go#0", "init@blosum45.go#0", "init@blosum62.go#0", "init@blosum80.go#0", "init@levenshtein.go#0"}},
	{dir: "align", pkg: "alignf", funcs: []string{"SubstitutionMatrix.Symmetrical"}, floatAs: "F"},
	{dir: "trie", pkg: "trie", funcs: []string{"New", "Trie.Add", "Trie.Has", "Trie.Delete", "Trie.keys", "Trie.ForEach"}, heap: "Trie", valPtr: []string{"forEachStep"}, stops: true},
	{dir: "formats/fasta", pkg: "fasta", funcs: []string{"Fasta.Write", "Fasta.MarshalText"}, join: true},
	{dir: "formats/fasta", pkg: "fastard", stops: true, funcs: []string{"reader.read", "reader.iter", "Reader", "File"}, errZ: true},
	{dir: "formats/fastq", pkg: "fastq", funcs: []string{"Fastq.Write", "Fastq.MarshalText"}, join: true},
	{dir: "formats/fastq", pkg: "fastqrd", stops: true, funcs: []string{"reader.read", "reader.iter", "Reader", "File"}, errZ: true, join: true},
	{dir: "formats/sam", pkg: "sam", funcs: []string{"tagToText", "tagsToText", "SAM.Write", "SAM.MarshalText", "splitTag", "parseTags", "parseInts", "parseLine"}, optRes: true, join: true, floatAs: "F"},
	{dir: "formats/sam", pkg: "samrd", stops: true, funcs: []string{"ReaderHeader", "Reader", "File", "FileHeader"}, errZ: true, floatAs: "F", optPtr: []string{"SAM", "string"},
		ext: []impExt{{name: "parseLine", coq: "imp_sam_parseLine", oracle: true, errBool: true}}, extRecs: map[string]string{"SAM": "sam"}},
	{dir: "formats/smtext", pkg: "smtext", funcs: []string{"extractSingleChar", "ReadNCBI"}, errZ: true, floatAs: "F"},
	{dir: "formats/bed", pkg: "bed", stops: true, funcs: []string{"BED.Write", "BED.MarshalText", "parseLine", "reader.read", "Reader", "File"}, join: true, errZ: true},
	{dir: "formats/newick", pkg: "newick", stops: true, funcs: []string{"quoted", "nameFromText", "nameToText", "Node.traverse", "Node.PreOrder", "Node.PostOrder", "Node.newick", "Node.MarshalText", "Node.Write"}, floatAs: "F"},
	{dir: "formats/newick", pkg: "newickrd", stops: true, heap: "Node", heapRec: true, funcs: []string{"reader.nextToken", "quoted", "nameFromText", "reader.read", "Reader", "File"}, errZ: true, floatAs: "F"},
}

type impFn struct {
	name   string
	fuel   bool
	stream bool // takes and returns the stream state rd__
	heap   bool // takes and returns the heap h__
	sty    string // go_stream or go_scanner
	recv   bool // ... and the reader object's record, after rd__
	oracle bool // takes the float oracle o (strconv's parse / format tables)
	iter   bool // an iterator constructor: the result is the list of yielded items (after rd__ when stream)
	writer int  // index of the io.Writer parameter of a Write method (-1: none): the call returns (chunks, results)
	out    int  // index of a []*int parameter (out-parameters): their final values are returned first (-1: none)
	buf    int  // index of a *bytes.Buffer / *strings.Builder parameter whose new value is the result (-1: none)
}

type opener struct{ open, close string }

type loopCtx struct {
	swBreak func() string // inside a switch clause: what an unlabelled break continues with
	label string   // the label of this loop, if any
	state string   // the tuple of state variables, as an expression (= as a pattern)
	post  ast.Stmt // post statement of a 3-clause loop run by go_while
}

type impTr struct {
	pkg     string
	info    *types.Info
	fset    *token.FileSet
	fns     map[types.Object]*impFn
	globals map[string]string
	records map[string]bool
	out     *strings.Builder

	// per function
	names    map[types.Object]string
	used     map[string]int
	tmp      int
	fuel     bool
	yield    types.Object // callback parameter of an iterator literal
	writer   types.Object // io.Writer parameter of a Write method: fmt.Fprintf to it emits a chunk
	endK     string       // continuation at the end of the function body
	retWrap  func(string) string
	fnName   string
	join     bool
	floatAs  string
	heapType string
	heapRec  bool
	fnHeap   bool
	openMode bool // the function opens a file with aio.Open: parameter open__
	valPtr   []string
	aliasOf  map[types.Object]ast.Expr // alias variable -> the slice expression it indexes (pre-scan)
	aliasIdx map[types.Object]string   // alias variable -> the index it was taken at (a bound name)
	stopMode bool
	optRes   bool
	inResTy  bool
	optPtr   []string
	ext      []impExt
	extRecs  map[string]string
	errZ     bool // errors are Z codes (0 nil, 1 io.EOF, 2 other, 3 io.ErrUnexpectedEOF) instead of bools
	stream   bool // the receiver is a reader over a *bufio.Reader: the stream state rd__ is threaded
	label    string
	streamTy string
	oracle   bool
	self     types.Object
	selfFn   *impFn
	bufName  string
	outName  string
	tupleTys map[string]string
	ioReader types.Object
	files    []*ast.File
	initVars map[types.Object]bool // package-level variables an init function assigns: its locals and results
	calleeSty string
	nparams  int
	recv     string // the reader object's record (fields other than the bufio one), returned with rd__
	results  *types.Tuple
	loopVars []map[types.Object]bool
}

func (t *impTr) fail(n ast.Node, format string, a ...any) {
	pos := ""
	if n != nil {
		pos = t.fset.Position(n.Pos()).String() + ": "
	}
	panic(pos + t.fnName + ": " + fmt.Sprintf(format, a...))
}

var coqReserved = map[string]bool{"at": true, "in": true, "end": true, "fun": true, "as": true, "return": true,
	"match": true, "with": true, "then": true, "else": true, "if": true, "let": true, "fix": true, "cofix": true,
	"forall": true, "exists": true, "Type": true, "Set": true, "Prop": true, "where": true, "struct": true,
	"for": true, "using": true, "mod": true, "by": true, "do": true, "fuel": true, "tt": true, "out__": true,
	"after": true, "wrap8": true, "sub8": true, "true": true, "false": true, "nil": true}

func (t *impTr) nameOf(o types.Object) string {
	if n, ok := t.names[o]; ok {
		return n
	}
	base := o.Name()
	if coqReserved[base] || strings.HasPrefix(base, "go_") || strings.HasPrefix(base, "imp_") || strings.HasPrefix(base, "t__") {
		base += "_"
	}
	t.used[base]++
	n := base
	if t.used[base] > 1 {
		n = fmt.Sprintf("%s_%d", base, t.used[base])
	}
	t.names[o] = n
	return n
}

func (t *impTr) fresh() string {
	t.tmp++
	return fmt.Sprintf("t__%d", t.tmp)
}

// ---- types ---------------------------------------------------------------------------

func isByte(ty types.Type) bool {
	b, ok := ty.Underlying().(*types.Basic)
	return ok && b.Kind() == types.Uint8
}

func isSetMap(ty types.Type) bool {
	m, ok := ty.Underlying().(*types.Map)
	if !ok {
		return false
	}
	s, ok := m.Elem().Underlying().(*types.Struct)
	return ok && s.NumFields() == 0
}

func isError(ty types.Type) bool { return ty != nil && ty.String() == "error" }

func isBuilder(ty types.Type) bool {
	if p, ok := ty.(*types.Pointer); ok {
		ty = p.Elem()
	}
	return ty.String() == "strings.Builder" || ty.String() == "bytes.Buffer"
}

func (t *impTr) isHeapPtr(ty types.Type) bool {
	if t.heapType == "" || ty == nil {
		return false
	}
	p, ok := ty.(*types.Pointer)
	if !ok {
		return false
	}
	n, ok := p.Elem().(*types.Named)
	return ok && n.Obj().Name() == t.heapType
}

// isOptPtr: a pointer that may be nil and is modelled as an option.
func (t *impTr) isOptPtr(ty types.Type) bool {
	if ty == nil {
		return false
	}
	p, ok := ty.(*types.Pointer)
	if !ok {
		return false
	}
	name := ""
	switch e := p.Elem().(type) {
	case *types.Named:
		name = e.Obj().Name()
	case *types.Basic:
		name = e.Name()
	}
	for _, n := range t.optPtr {
		if n == name {
			return true
		}
	}
	if t.optRes && t.inResTy {
		if n, ok := p.Elem().(*types.Named); ok {
			if _, ok := n.Underlying().(*types.Struct); ok {
				return true
			}
		}
	}
	return false
}

// recPkgOf: the want whose output declares the record of this struct type.
func (t *impTr) recPkgOf(name string) string {
	if p, ok := t.extRecs[name]; ok {
		return p
	}
	return t.pkg
}

// isValPtr: *S for a struct S whose pointers are kept as values inside one slice.
func (t *impTr) isValPtr(ty types.Type) bool {
	p, ok := ty.(*types.Pointer)
	if !ok {
		return false
	}
	n, ok := p.Elem().(*types.Named)
	if !ok {
		return false
	}
	for _, v := range t.valPtr {
		if v == n.Obj().Name() {
			return true
		}
	}
	return false
}

// aliasBase: e is an alias variable (x := sl[i] of a value-pointer slice): the slice and the index.
func (t *impTr) aliasBase(e ast.Expr) (ast.Expr, string, bool) {
	id, ok := e.(*ast.Ident)
	if !ok {
		return nil, "", false
	}
	o := t.info.Uses[id]
	if o == nil {
		return nil, "", false
	}
	sl, ok := t.aliasOf[o]
	if !ok {
		return nil, "", false
	}
	ix, ok := t.aliasIdx[o]
	if !ok {
		t.fail(e, "alias used before it is set")
	}
	return sl, ix, true
}

// hasStateEffect: evaluating e calls the yield callback, a bufio method or a heap function, i.e.
// changes one of the threaded pseudo variables out__ / rd__ / h__.
func (t *impTr) hasStateEffect(e ast.Expr) bool {
	found := false
	ast.Inspect(e, func(n ast.Node) bool {
		if c, ok := n.(*ast.CallExpr); ok {
			if o := t.calleeObj(c.Fun); o != nil {
				if t.yield != nil && o == t.yield {
					found = true
				}
				if t.stream && isBufioMethod(o) {
					found = true
				}
				if fn, ok := t.fns[o]; ok && (fn.heap || fn.stream) {
					found = true
				}
			}
		}
		if _, ok := n.(*ast.FuncLit); ok {
			return false
		}
		return true
	})
	return found
}

func (t *impTr) heapTy() string {
	if t.heapRec {
		return "(list imp_" + t.pkg + "_" + t.heapType + ")"
	}
	return "go_theap"
}

// heapField recognises  p.F  for a heap pointer p to a record: p, the record type, the field.
func (t *impTr) heapField(e ast.Expr) (ast.Expr, *types.Named, string, bool) {
	if !t.heapRec {
		return nil, nil, "", false
	}
	sel, ok := e.(*ast.SelectorExpr)
	if !ok {
		return nil, nil, "", false
	}
	if s, ok := t.info.Selections[sel]; !ok || s.Kind() != types.FieldVal {
		return nil, nil, "", false
	}
	tv, ok := t.info.Types[sel.X]
	if !ok || !t.isHeapPtr(tv.Type) {
		return nil, nil, "", false
	}
	n := tv.Type.(*types.Pointer).Elem().(*types.Named)
	return sel.X, n, sel.Sel.Name, true
}

// heapAlloc: &T{...} / an elided {...} of type *T in record-heap mode: a fresh address.
func (t *impTr) heapAlloc(cl *ast.CompositeLit, pre *[]opener) string {
	n := t.typeOf(cl)
	if p, ok := n.(*types.Pointer); ok {
		n = p.Elem()
	}
	named := n.(*types.Named)
	st := named.Underlying().(*types.Struct)
	t.record(named)
	vals := make([]string, st.NumFields())
	for _, el := range cl.Elts {
		kv, ok := el.(*ast.KeyValueExpr)
		if !ok {
			t.fail(cl, "positional heap literal")
		}
		for j := 0; j < st.NumFields(); j++ {
			if st.Field(j).Name() == kv.Key.(*ast.Ident).Name {
				vals[j] = t.ex(kv.Value, pre)
			}
		}
	}
	for j := range vals {
		if vals[j] == "" {
			vals[j] = t.zero(st.Field(j).Type())
		}
	}
	v := t.fresh()
	*pre = append(*pre, opener{fmt.Sprintf("let %s := go_len h__ in let h__ := h__ ++ [(Imp_%s_%s %s)] in ", v, t.pkg, named.Obj().Name(), strings.Join(vals, " ")), ""})
	return v
}

func (t *impTr) extFn(o types.Object) *impExt {
	if o == nil {
		return nil
	}
	if f, ok := o.(*types.Func); ok && f.Type().(*types.Signature).Recv() == nil {
		for i := range t.ext {
			if t.ext[i].name == f.Name() {
				return &t.ext[i]
			}
		}
	}
	return nil
}

// heapMap recognises  p.m  for a heap pointer p and returns p.
func (t *impTr) heapMap(e ast.Expr) (ast.Expr, bool) {
	sel, ok := e.(*ast.SelectorExpr)
	if !ok {
		return nil, false
	}
	if tv, ok := t.info.Types[sel.X]; ok && t.isHeapPtr(tv.Type) {
		return sel.X, true
	}
	return nil, false
}

func isAny(ty types.Type) bool {
	i, ok := ty.Underlying().(*types.Interface)
	return ok && i.NumMethods() == 0
}

func (t *impTr) ty(ty types.Type) string {
	if t.isHeapPtr(ty) {
		return "Z" // an address in the heap h__; nil is -1
	}
	if isAny(ty) && !isError(ty) {
		return "go_any" // byte | int | float64 | string | []byte (GoSem.v)
	}
	if isBuilder(ty) {
		return "(list N)" // the bytes written so far
	}
	if isError(ty) {
		if t.errZ {
			return "Z"
		}
		return "bool" // true: a non-nil error
	}
	if n, ok := ty.(*types.Named); ok {
		if _, ok := n.Underlying().(*types.Struct); ok {
			t.record(n)
			return "imp_" + t.recPkgOf(n.Obj().Name()) + "_" + n.Obj().Name()
		}
	}
	switch u := ty.Underlying().(type) {
	case *types.Basic:
		switch {
		case u.Kind() == types.Uint8:
			return "N"
		case u.Info()&types.IsFloat != 0 && t.floatAs != "":
			return t.floatAs
		case u.Info()&types.IsInteger != 0, u.Info()&types.IsFloat != 0:
			return "Z"
		case u.Info()&types.IsBoolean != 0:
			return "bool"
		case u.Info()&types.IsString != 0:
			return "(list N)"
		}
	case *types.Slice:
		return "(list " + t.ty(u.Elem()) + ")"
	case *types.Array:
		if u.Len() == 2 {
			return "(" + t.ty(u.Elem()) + " * " + t.ty(u.Elem()) + ")"
		}
		return "(list " + t.ty(u.Elem()) + ")"
	case *types.Pointer:
		if t.isOptPtr(ty) {
			was := t.inResTy
			t.inResTy = false
			defer func() { t.inResTy = was }()
			return "(option " + t.ty(u.Elem()) + ")"
		}
		return t.ty(u.Elem())
	case *types.Map:
		if !isSetMap(ty) && isAny(u.Elem()) {
			return "(list (" + t.ty(u.Key()) + " * go_any))"
		}
		if isSetMap(ty) {
			return "(list " + t.ty(u.Key()) + ")"
		}
		return "(list (" + t.ty(u.Key()) + " * " + t.ty(u.Elem()) + "))"
	case *types.Struct:
		if u.NumFields() == 0 {
			return "unit"
		}
	case *types.Tuple:
		parts := make([]string, u.Len())
		for i := range parts {
			parts[i] = t.ty(u.At(i).Type())
		}
		if len(parts) == 0 {
			return "unit"
		}
		return "(" + strings.Join(parts, " * ") + ")"
	}
	panic(t.fnName + ": unsupported type " + ty.String())
}

func (t *impTr) zero(ty types.Type) string {
	if t.isHeapPtr(ty) {
		return "(-1)%Z"
	}
	if t.isOptPtr(ty) {
		return "None"
	}
	if isBuilder(ty) {
		return "(@nil N)"
	}
	if isError(ty) {
		if t.errZ {
			return "0%Z"
		}
		return "false"
	}
	if n, ok := ty.(*types.Named); ok {
		if s, ok := n.Underlying().(*types.Struct); ok {
			t.record(n)
			s = withoutBufio(s)
			parts := []string{"Imp_" + t.recPkgOf(n.Obj().Name()) + "_" + n.Obj().Name()}
			for i := 0; i < s.NumFields(); i++ {
				parts = append(parts, t.zero(s.Field(i).Type()))
			}
			return "(" + strings.Join(parts, " ") + ")"
		}
	}
	switch u := ty.Underlying().(type) {
	case *types.Basic:
		switch {
		case u.Kind() == types.Uint8:
			return "0%N"
		case u.Info()&types.IsFloat != 0 && t.floatAs != "":
			return "[48%N]" // the float64 zero value in its canonical text, as in Model/Newick.v
		case u.Info()&types.IsInteger != 0, u.Info()&types.IsFloat != 0:
			return "0%Z"
		case u.Info()&types.IsBoolean != 0:
			return "false"
		case u.Info()&types.IsString != 0:
			return "(@nil N)"
		}
	case *types.Slice, *types.Map:
		return "[]"
	case *types.Pointer:
		return t.zero(u.Elem()) // a nil *T result is the zero T (only returned next to an error)
	case *types.Array:
		if u.Len() == 2 {
			return "(" + t.zero(u.Elem()) + ", " + t.zero(u.Elem()) + ")"
		}
		return fmt.Sprintf("(repeat %s %d)", t.zero(u.Elem()), u.Len())
	case *types.Struct:
		if u.NumFields() == 0 {
			return "tt"
		}
	}
	panic(t.fnName + ": no zero value for " + ty.String())
}

// withoutBufio drops the *bufio.Reader / *bufio.Scanner fields of a reader struct: they are
// the threaded stream state, not part of the record.
func withoutBufio(s *types.Struct) *types.Struct {
	var fs []*types.Var
	for i := 0; i < s.NumFields(); i++ {
		if ts := s.Field(i).Type().String(); strings.HasSuffix(ts, "bufio.Reader") || strings.HasSuffix(ts, "bufio.Scanner") {
			continue
		}
		fs = append(fs, s.Field(i))
	}
	if len(fs) == s.NumFields() {
		return s
	}
	return types.NewStruct(fs, nil)
}

// record emits the Record of a named struct type (once), with one setter per field. A type
// that refers to itself (newick.Node) becomes an Inductive with projections by match.
func (t *impTr) record(n *types.Named) {
	name := n.Obj().Name()
	if _, ext := t.extRecs[name]; ext || t.records[name] {
		return
	}
	t.records[name] = true
	s := n.Underlying().(*types.Struct)
	rn := "imp_" + t.pkg + "_" + name
	var fields, ftys []string
	recursive := false
	s = withoutBufio(s)
	for i := 0; i < s.NumFields(); i++ {
		fty := t.ty(s.Field(i).Type())
		if strings.Contains(fty, rn) {
			recursive = true
		}
		ftys = append(ftys, fty)
		fields = append(fields, fmt.Sprintf("%s_%s : %s", rn, s.Field(i).Name(), fty))
	}
	if recursive {
		var args, wild []string
		for i := 0; i < s.NumFields(); i++ {
			args = append(args, fmt.Sprintf("(_ : %s)", ftys[i]))
			wild = append(wild, "_")
		}
		fmt.Fprintf(t.out, "Inductive %s : Type := I%s %s.\n", rn, rn[1:], strings.Join(args, " "))
		for i := 0; i < s.NumFields(); i++ {
			pat := append([]string{}, wild...)
			pat[i] = "x"
			fmt.Fprintf(t.out, "Definition %s_%s (r : %s) : %s := match r with I%s %s => x end.\n", rn, s.Field(i).Name(), rn, ftys[i], rn[1:], strings.Join(pat, " "))
		}
	} else {
		fmt.Fprintf(t.out, "Record %s : Type := I%s { %s }.\n", rn, rn[1:], strings.Join(fields, "; "))
	}
	for i := 0; i < s.NumFields(); i++ {
		parts := []string{"I" + rn[1:]}
		for j := 0; j < s.NumFields(); j++ {
			if i == j {
				parts = append(parts, "v")
			} else {
				parts = append(parts, fmt.Sprintf("(%s_%s r)", rn, s.Field(j).Name()))
			}
		}
		fmt.Fprintf(t.out, "Definition %s_with_%s (r : %s) (v : %s) : %s := %s.\n", rn, s.Field(i).Name(), rn, ftys[i], rn, strings.Join(parts, " "))
	}
}

// anyOf wraps the value x of static type ty into go_any.
func (t *impTr) anyOf(x string, ty types.Type, n ast.Node) string {
	switch u := ty.Underlying().(type) {
	case *types.Basic:
		switch {
		case u.Kind() == types.Uint8:
			return "(AnyByte " + x + ")"
		case u.Info()&types.IsFloat != 0:
			return "(AnyFloat " + x + ")"
		case u.Info()&types.IsInteger != 0:
			return "(AnyInt " + x + ")"
		case u.Info()&types.IsString != 0:
			return "(AnyString " + x + ")"
		}
	case *types.Slice:
		if isByte(u.Elem()) {
			return "(AnyBytes " + x + ")"
		}
	case *types.Interface:
		return x
	}
	t.fail(n, "a value of type %s stored as any", ty)
	return ""
}

// ---- expressions -----------------------------------------------------------------------

func wrapOpeners(pre []opener, body string) string {
	sb := &strings.Builder{}
	for _, o := range pre {
		sb.WriteString(o.open)
	}
	sb.WriteString(body)
	for i := len(pre) - 1; i >= 0; i-- {
		sb.WriteString(pre[i].close)
	}
	return sb.String()
}

func (t *impTr) typeOf(e ast.Expr) types.Type {
	tv, ok := t.info.Types[e]
	if !ok || tv.Type == nil {
		t.fail(e, "no type for expression")
	}
	return tv.Type
}

func (t *impTr) lit(v constant.Value, ty types.Type, n ast.Node) string {
	switch {
	case isByte(ty):
		i, ok := constant.Int64Val(constant.ToInt(v))
		if !ok || i < 0 || i > 255 {
			t.fail(n, "bad byte constant %v", v)
		}
		return fmt.Sprintf("%d%%N", i)
	default:
		b, ok := ty.Underlying().(*types.Basic)
		if !ok {
			t.fail(n, "constant of type %s", ty)
		}
		switch {
		case b.Info()&types.IsBoolean != 0:
			if constant.BoolVal(v) {
				return "true"
			}
			return "false"
		case b.Info()&(types.IsInteger|types.IsFloat) != 0:
			iv := constant.ToInt(v)
			if iv.Kind() != constant.Int {
				t.fail(n, "non-integral constant %v", v)
			}
			return fmt.Sprintf("(%s)%%Z", iv.ExactString())
		case b.Info()&types.IsString != 0:
			s := constant.StringVal(v)
			if len(s) == 0 {
				return "(@nil N)"
			}
			parts := make([]string, len(s))
			for i := 0; i < len(s); i++ {
				parts[i] = fmt.Sprintf("%d%%N", s[i])
			}
			return "[" + strings.Join(parts, "; ") + "]"
		}
	}
	t.fail(n, "unsupported constant %v of type %s", v, ty)
	return ""
}

// asZ converts an index or shift operand to Z.
func (t *impTr) asZ(e ast.Expr, pre *[]opener) string {
	x := t.ex(e, pre)
	if isByte(t.typeOf(e)) {
		return "(Z.of_N " + x + ")"
	}
	return x
}

func (t *impTr) ex(e ast.Expr, pre *[]opener) string {
	if tv, ok := t.info.Types[e]; ok && tv.Value != nil {
		return t.lit(tv.Value, tv.Type, e)
	}
	switch e := e.(type) {
	case *ast.ParenExpr:
		return t.ex(e.X, pre)
	case *ast.Ident:
		if e.Name == "nil" {
			if tv, ok := t.info.Types[e]; ok && t.isOptPtr(tv.Type) {
				return "None"
			}
			return "[]"
		}
		if e.Name == "true" || e.Name == "false" {
			return e.Name
		}
		o := t.info.Uses[e]
		if o == nil {
			o = t.info.Defs[e]
		}
		if v, ok := o.(*types.Var); ok {
			if v.Parent() == v.Pkg().Scope() && t.initVars[o] {
				return t.nameOf(o)
			}
			if v.Parent() == v.Pkg().Scope() { // package-level variable
				g, ok := t.globals[e.Name]
				if !ok {
					t.fail(e, "package-level variable %s has no model", e.Name)
				}
				return g
			}
			return t.nameOf(o)
		}
		t.fail(e, "unsupported identifier %s", e.Name)
	case *ast.UnaryExpr:
		switch e.Op {
		case token.NOT:
			return "(negb " + t.ex(e.X, pre) + ")"
		case token.SUB:
			if isByte(t.typeOf(e.X)) {
				t.fail(e, "negated byte")
			}
			return "(Z.opp " + t.ex(e.X, pre) + ")"
		case token.AND:
			if t.isOptPtr(t.typeOf(e)) {
				return "(Some " + t.ex(e.X, pre) + ")"
			}
			if cl, ok := e.X.(*ast.CompositeLit); ok && t.isHeapPtr(t.typeOf(e)) && t.heapRec {
				return t.heapAlloc(cl, pre)
			}
			if cl, ok := e.X.(*ast.CompositeLit); ok && t.isHeapPtr(t.typeOf(e)) {
				// &Trie{m: map[byte]*Trie{}}: a fresh node with an empty map
				for _, el := range cl.Elts {
					kv, ok := el.(*ast.KeyValueExpr)
					if !ok {
						t.fail(e, "unsupported heap literal")
					}
					if inner, ok := kv.Value.(*ast.CompositeLit); !ok || len(inner.Elts) != 0 {
						t.fail(e, "a heap node allocated with a non-empty map")
					}
				}
				v := t.fresh()
				*pre = append(*pre, opener{fmt.Sprintf("let %s := go_len h__ in let h__ := h__ ++ [[]] in ", v), ""})
				return v
			}
			if _, ok := e.X.(*ast.CompositeLit); ok {
				return t.ex(e.X, pre)
			}
		}
	case *ast.BinaryExpr:
		return t.binary(e, pre)
	case *ast.SelectorExpr:
		if o := t.info.Uses[e.Sel]; o != nil && o.Pkg() != nil && o.Pkg().Path() == "io" && t.errZ {
			switch o.Name() {
			case "EOF":
				return "1%Z"
			case "ErrUnexpectedEOF":
				return "3%Z"
			}
		}
		if sl, ix, ok := t.aliasBase(e.X); ok {
			n := t.typeOf(e.X).(*types.Pointer).Elem().(*types.Named)
			t.record(n)
			el := t.fresh()
			*pre = append(*pre, opener{fmt.Sprintf("go_index %s %s (fun %s => ", t.ex(sl, pre), ix, el), ")"})
			return fmt.Sprintf("(imp_%s_%s_%s %s)", t.recPkgOf(n.Obj().Name()), n.Obj().Name(), e.Sel.Name, el)
		}
		if px, n, f, ok := t.heapField(e); ok {
			t.record(n)
			pp := t.ex(px, pre)
			nd := t.fresh()
			*pre = append(*pre, opener{fmt.Sprintf("go_index h__ %s (fun %s => ", pp, nd), ")"})
			return fmt.Sprintf("(imp_%s_%s_%s %s)", t.pkg, n.Obj().Name(), f, nd)
		}
		if sel, ok := t.info.Selections[e]; ok && sel.Kind() == types.FieldVal {
			x := t.ex(e.X, pre)
			rt := sel.Recv()
			if p, ok := rt.Underlying().(*types.Pointer); ok {
				rt = p.Elem()
			}
			n, ok := rt.(*types.Named)
			if !ok {
				t.fail(e, "field of an unnamed struct")
			}
			t.record(n)
			return fmt.Sprintf("(imp_%s_%s_%s %s)", t.recPkgOf(n.Obj().Name()), n.Obj().Name(), e.Sel.Name, x)
		}
	case *ast.IndexExpr:
		if p, ok := t.heapMap(e.X); ok {
			pp := t.ex(p, pre)
			k := t.ex(e.Index, pre)
			v := t.fresh()
			*pre = append(*pre, opener{fmt.Sprintf("go_heap_get h__ %s %s (fun %s => ", pp, k, v), ")"})
			return v
		}
		xt := t.typeOf(e.X)
		switch u := xt.Underlying().(type) {
		case *types.Slice, *types.Array, *types.Basic:
			if arr, ok := u.(*types.Array); ok && arr.Len() == 2 {
				if iv, ok := t.info.Types[e.Index]; ok && iv.Value != nil {
					x := t.ex(e.X, pre)
					if iv.Value.ExactString() == "0" {
						return "(fst " + x + ")"
					}
					return "(snd " + x + ")"
				}
			}
			_ = u
			x := t.ex(e.X, pre)
			i := t.asZ(e.Index, pre)
			v := t.fresh()
			*pre = append(*pre, opener{fmt.Sprintf("go_index %s %s (fun %s => ", x, i, v), ")"})
			return v
		case *types.Map:
			// only package-level lookup tables with a total model: g k
			if id, ok := e.X.(*ast.Ident); ok {
				if g, ok := t.globals[id.Name]; ok {
					return fmt.Sprintf("(%s %s)", g, t.ex(e.Index, pre))
				}
			}
			t.fail(e, "map read outside a comma-ok assignment")
		}
	case *ast.SliceExpr:
		if e.Slice3 {
			t.fail(e, "3-index slice")
		}
		x := t.ex(e.X, pre)
		if e.Low == nil && e.High == nil {
			return x
		}
		lo, hi := "0%Z", "(go_len "+x+")"
		if e.Low != nil {
			lo = t.asZ(e.Low, pre)
		}
		if e.High != nil {
			hi = t.asZ(e.High, pre)
		}
		v := t.fresh()
		*pre = append(*pre, opener{fmt.Sprintf("go_slice %s %s %s (fun %s => ", x, lo, hi, v), ")"})
		return v
	case *ast.CompositeLit:
		ty := t.typeOf(e)
		if isBuilder(ty) {
			return "[]"
		}
		if t.heapRec && t.isHeapPtr(ty) { // {} standing for &T{} inside a []*T literal
			return t.heapAlloc(e, pre)
		}
		if p, ok := ty.(*types.Pointer); ok && t.isValPtr(ty) { // {..} standing for &S{..}: the value
			ty = p.Elem()
		}
		switch u := ty.Underlying().(type) {
		case *types.Struct:
			if u.NumFields() == 0 {
				return "tt"
			}
			n, ok := ty.(*types.Named)
			if !ok {
				t.fail(e, "literal of an unnamed struct")
			}
			t.record(n)
			vals := make([]string, u.NumFields())
			for i, el := range e.Elts {
				if kv, ok := el.(*ast.KeyValueExpr); ok {
					k := kv.Key.(*ast.Ident).Name
					found := false
					for j := 0; j < u.NumFields(); j++ {
						if u.Field(j).Name() == k {
							vals[j] = t.ex(kv.Value, pre)
							found = true
						}
					}
					if !found {
						t.fail(e, "unknown field %s", k)
					}
				} else {
					vals[i] = t.ex(el, pre)
				}
			}
			for j := range vals {
				if vals[j] == "" {
					vals[j] = t.zero(u.Field(j).Type())
				}
			}
			return fmt.Sprintf("(Imp_%s_%s %s)", t.recPkgOf(n.Obj().Name()), n.Obj().Name(), strings.Join(vals, " "))
		case *types.Array:
			if u.Len() == 2 && len(e.Elts) == 2 {
				return "(" + t.ex(e.Elts[0], pre) + ", " + t.ex(e.Elts[1], pre) + ")"
			}
			if int(u.Len()) == len(e.Elts) {
				parts := make([]string, len(e.Elts))
				for i, el := range e.Elts {
					parts[i] = t.ex(el, pre)
				}
				return "[" + strings.Join(parts, "; ") + "]"
			}
		case *types.Map, *types.Slice:
			if len(e.Elts) == 0 {
				return "[]"
			}
			if _, isMap := u.(*types.Map); isMap {
				// a map literal: its entries in source order, as an association list
				parts := make([]string, len(e.Elts))
				for i, el := range e.Elts {
					kv, ok := el.(*ast.KeyValueExpr)
					if !ok {
						t.fail(el, "map literal element without a key")
					}
					parts[i] = "(" + t.ex(kv.Key, pre) + ", " + t.ex(kv.Value, pre) + ")"
				}
				return "[" + strings.Join(parts, "; ") + "]"
			}
			if _, ok := u.(*types.Slice); ok {
				parts := make([]string, len(e.Elts))
				for i, el := range e.Elts {
					parts[i] = t.ex(el, pre)
				}
				return "[" + strings.Join(parts, "; ") + "]"
			}
		}
	case *ast.CallExpr:
		return t.call(e, pre)
	case *ast.StarExpr:
		return t.ex(e.X, pre)
	}
	t.fail(e, "unsupported expression %T", e)
	return ""
}

func (t *impTr) binary(e *ast.BinaryExpr, pre *[]opener) string {
	lt := t.typeOf(e.X)
	if e.Op == token.LAND || e.Op == token.LOR {
		if t.hasStateEffect(e.Y) {
			t.fail(e, "the right operand of && / || calls the callback, the reader or a heap function (only supported as the condition of an if)")
		}
		a := t.ex(e.X, pre)
		var preB []opener
		b := t.ex(e.Y, &preB)
		f := map[token.Token]string{token.LAND: "andb", token.LOR: "orb"}[e.Op]
		if len(preB) == 0 {
			return fmt.Sprintf("(%s %s %s)", f, a, b)
		}
		// short circuit: the right operand is evaluated (and may panic) only when needed
		v, kk := t.fresh(), t.fresh()
		comb := "go_andalso"
		if e.Op == token.LOR {
			comb = "go_orelse"
		}
		*pre = append(*pre, opener{fmt.Sprintf("%s %s (fun %s => %s) (fun %s => ", comb, a, kk, wrapOpeners(preB, kk+" "+b), v), ")"})
		return v
	}
	// comparison with nil
	if id, ok := e.Y.(*ast.Ident); ok && id.Name == "nil" && (e.Op == token.EQL || e.Op == token.NEQ) && t.isHeapPtr(lt) {
		x := t.ex(e.X, pre)
		if e.Op == token.EQL {
			return "(Z.eqb " + x + " (-1)%Z)"
		}
		return "(negb (Z.eqb " + x + " (-1)%Z))"
	}
	if id, ok := e.Y.(*ast.Ident); ok && id.Name == "nil" && (e.Op == token.EQL || e.Op == token.NEQ) && t.isOptPtr(lt) {
		x := t.ex(e.X, pre)
		if e.Op == token.EQL {
			return "(match " + x + " with None => true | Some _ => false end)"
		}
		return "(match " + x + " with None => false | Some _ => true end)"
	}
	if id, ok := e.Y.(*ast.Ident); ok && id.Name == "nil" && (e.Op == token.EQL || e.Op == token.NEQ) && isError(lt) && t.errZ {
		x := t.ex(e.X, pre)
		if e.Op == token.EQL {
			return "(Z.eqb " + x + " 0%Z)"
		}
		return "(negb (Z.eqb " + x + " 0%Z))"
	}
	if isError(lt) && t.errZ && (e.Op == token.EQL || e.Op == token.NEQ) {
		a, b := t.ex(e.X, pre), t.ex(e.Y, pre)
		if e.Op == token.EQL {
			return fmt.Sprintf("(Z.eqb %s %s)", a, b)
		}
		return fmt.Sprintf("(negb (Z.eqb %s %s))", a, b)
	}
	if id, ok := e.Y.(*ast.Ident); ok && id.Name == "nil" && (e.Op == token.EQL || e.Op == token.NEQ) && isError(lt) {
		x := t.ex(e.X, pre)
		if e.Op == token.EQL {
			return "(negb " + x + ")"
		}
		return x
	}
	if id, ok := e.Y.(*ast.Ident); ok && id.Name == "nil" && (e.Op == token.EQL || e.Op == token.NEQ) {
		if _, ok := lt.Underlying().(*types.Slice); !ok {
			t.fail(e, "comparison of a non-slice with nil")
		}
		x := t.ex(e.X, pre)
		r := "match " + x + " with [] => true | _ => false end"
		if e.Op == token.NEQ {
			return "(negb (" + r + "))"
		}
		return "(" + r + ")"
	}
	if lb, ok := lt.Underlying().(*types.Basic); ok && lb.Info()&types.IsFloat != 0 && t.floatAs != "" {
		if yv, ok := t.info.Types[e.Y]; ok && yv.Value != nil && constant.Sign(yv.Value) == 0 && (e.Op == token.EQL || e.Op == token.NEQ) {
			x := t.ex(e.X, pre)
			if e.Op == token.EQL {
				return "(is_zeroF " + x + ")"
			}
			return "(negb (is_zeroF " + x + "))"
		}
		if e.Op == token.EQL || e.Op == token.NEQ {
			a, b := t.ex(e.X, pre), t.ex(e.Y, pre)
			if e.Op == token.EQL {
				return fmt.Sprintf("(go_feq %s %s)", a, b)
			}
			return fmt.Sprintf("(negb (go_feq %s %s))", a, b)
		}
		t.fail(e, "float operation other than == and !=")
	}
	rt := t.typeOf(e.Y)
	switch e.Op {
	case token.SHL, token.SHR:
		a := t.ex(e.X, pre)
		s := t.asZ(e.Y, pre)
		if isByte(lt) {
			if e.Op == token.SHL {
				return fmt.Sprintf("(wrap8 (N.shiftl %s (Z.to_N %s)))", a, s)
			}
			return fmt.Sprintf("(N.shiftr %s (Z.to_N %s))", a, s)
		}
		if e.Op == token.SHL {
			return fmt.Sprintf("(Z.shiftl %s %s)", a, s)
		}
		return fmt.Sprintf("(Z.shiftr %s %s)", a, s)
	}
	a := t.ex(e.X, pre)
	b := t.ex(e.Y, pre)
	return t.binop(e, e.Op, a, b, lt, rt, e.Y, pre)
}

// binop builds  a op b  for operands of Go types lt, rt.
func (t *impTr) binop(n ast.Node, op token.Token, a, b string, lt, rt types.Type, divisor ast.Expr, pre *[]opener) string {
	bt, ok := lt.Underlying().(*types.Basic)
	if !ok {
		t.fail(n, "operator on %s", lt)
	}
	if bt.Info()&types.IsBoolean != 0 {
		switch op {
		case token.EQL:
			return fmt.Sprintf("(Bool.eqb %s %s)", a, b)
		case token.NEQ:
			return fmt.Sprintf("(negb (Bool.eqb %s %s))", a, b)
		}
		t.fail(n, "operator %s on bool", op)
	}
	if bt.Info()&types.IsString != 0 {
		switch op {
		case token.ADD:
			return fmt.Sprintf("(%s ++ %s)", a, b)
		case token.EQL:
			return fmt.Sprintf("(beqb %s %s)", a, b)
		case token.NEQ:
			return fmt.Sprintf("(negb (beqb %s %s))", a, b)
		}
		t.fail(n, "operator %s on strings", op)
	}
	if isByte(lt) != isByte(rt) {
		t.fail(n, "operands of different kinds: %s, %s", lt, rt)
	}
	m := "Z"
	if isByte(lt) {
		m = "N"
	}
	switch op {
	case token.EQL:
		return fmt.Sprintf("(%s.eqb %s %s)", m, a, b)
	case token.NEQ:
		return fmt.Sprintf("(negb (%s.eqb %s %s))", m, a, b)
	case token.LSS:
		return fmt.Sprintf("(%s.ltb %s %s)", m, a, b)
	case token.LEQ:
		return fmt.Sprintf("(%s.leb %s %s)", m, a, b)
	case token.GTR:
		return fmt.Sprintf("(%s.ltb %s %s)", m, b, a)
	case token.GEQ:
		return fmt.Sprintf("(%s.leb %s %s)", m, b, a)
	case token.AND:
		return fmt.Sprintf("(%s.land %s %s)", m, a, b)
	case token.OR:
		return fmt.Sprintf("(%s.lor %s %s)", m, a, b)
	}
	if m == "N" {
		switch op {
		case token.ADD:
			return fmt.Sprintf("(wrap8 (N.add %s %s))", a, b)
		case token.SUB:
			return fmt.Sprintf("(sub8 %s %s)", a, b)
		}
		t.fail(n, "operator %s on bytes", op)
	}
	switch op {
	case token.ADD:
		return fmt.Sprintf("(Z.add %s %s)", a, b)
	case token.SUB:
		return fmt.Sprintf("(Z.sub %s %s)", a, b)
	case token.MUL:
		return fmt.Sprintf("(Z.mul %s %s)", a, b)
	case token.QUO, token.REM:
		if bt.Info()&types.IsFloat != 0 {
			t.fail(n, "float division")
		}
		f := map[token.Token]string{token.QUO: "quot", token.REM: "rem"}[op]
		if divisor != nil {
			if tv, ok := t.info.Types[divisor]; ok && tv.Value != nil && constant.Sign(tv.Value) != 0 {
				return fmt.Sprintf("(Z.%s %s %s)", f, a, b)
			}
		}
		v := t.fresh()
		*pre = append(*pre, opener{fmt.Sprintf("go_%s %s %s (fun %s => ", f, a, b, v), ")"})
		return v
	}
	t.fail(n, "unsupported operator %s", op)
	return ""
}

func (t *impTr) calleeObj(fun ast.Expr) types.Object {
	switch f := fun.(type) {
	case *ast.Ident:
		return t.info.Uses[f]
	case *ast.SelectorExpr:
		return t.info.Uses[f.Sel]
	}
	return nil
}

func (t *impTr) call(e *ast.CallExpr, pre *[]opener) string {
	// conversions
	if tv, ok := t.info.Types[e.Fun]; ok && tv.IsType() {
		if len(e.Args) != 1 {
			t.fail(e, "conversion with %d arguments", len(e.Args))
		}
		from, to := t.typeOf(e.Args[0]), tv.Type
		x := t.ex(e.Args[0], pre)
		fb, fok := from.Underlying().(*types.Basic)
		tb, tok := to.Underlying().(*types.Basic)
		switch {
		case fok && tok && fb.Info()&types.IsNumeric != 0 && tb.Info()&types.IsNumeric != 0:
			switch {
			case isByte(from) && isByte(to):
				return x
			case isByte(from):
				return "(Z.of_N " + x + ")"
			case isByte(to):
				return "(go_byte " + x + ")"
			case fb.Info()&types.IsFloat != 0 && tb.Info()&types.IsInteger != 0:
				t.fail(e, "float to int conversion")
			default:
				return x // int kinds and int -> float64 (Z)
			}
		case t.ty(from) == t.ty(to):
			return x
		}
		t.fail(e, "unsupported conversion %s -> %s", from, to)
	}
	if id, ok := e.Fun.(*ast.Ident); ok {
		if _, isBuiltin := t.info.Uses[id].(*types.Builtin); isBuiltin {
			switch id.Name {
			case "len":
				if p, ok := t.heapMap(e.Args[0]); ok {
					pp := t.ex(p, pre)
					v := t.fresh()
					*pre = append(*pre, opener{fmt.Sprintf("go_heap_len h__ %s (fun %s => ", pp, v), ")"})
					return v
				}
				return "(go_len " + t.ex(e.Args[0], pre) + ")"
			case "append":
				x := t.ex(e.Args[0], pre)
				if e.Ellipsis != token.NoPos {
					return fmt.Sprintf("(%s ++ %s)", x, t.ex(e.Args[1], pre))
				}
				parts := []string{}
				for _, a := range e.Args[1:] {
					parts = append(parts, t.ex(a, pre))
				}
				return fmt.Sprintf("(%s ++ [%s])", x, strings.Join(parts, "; "))
			case "make":
				ty := t.typeOf(e)
				switch u := ty.Underlying().(type) {
				case *types.Map:
					return "[]"
				case *types.Slice:
					n := t.ex(e.Args[1], pre)
					if len(e.Args) == 3 { // make([]T, n, c): c only matters for aliasing
						t.ex(e.Args[2], pre)
					}
					v := t.fresh()
					*pre = append(*pre, opener{fmt.Sprintf("go_make %s %s (fun %s => ", t.zero(u.Elem()), n, v), ")"})
					return v
				}
			case "min", "max":
				if len(e.Args) == 2 && !isByte(t.typeOf(e)) {
					return fmt.Sprintf("(Z.%s %s %s)", id.Name, t.ex(e.Args[0], pre), t.ex(e.Args[1], pre))
				}
			}
			t.fail(e, "unsupported builtin %s", id.Name)
		}
	}
	obj := t.calleeObj(e.Fun)
	if obj != nil && t.yield != nil && obj == t.yield {
		if len(e.Args) != 1 && len(e.Args) != 2 {
			t.fail(e, "callback with %d arguments", len(e.Args))
		}
		ysig := obj.Type().(*types.Signature)
		var xs []string
		for i, a := range e.Args {
			if id, ok := a.(*ast.Ident); ok && id.Name == "nil" {
				xs = append(xs, t.zero(ysig.Params().At(i).Type()))
				continue
			}
			xs = append(xs, t.ex(a, pre))
		}
		x := strings.Join(xs, ", ")
		if len(xs) > 1 {
			x = "(" + x + ")"
		}
		v := t.fresh()
		if t.stopMode {
			// the consumer declines after the stop__-th item (0: never)
			*pre = append(*pre, opener{fmt.Sprintf("(let out__ := out__ ++ [%s] in let %s := negb (Nat.eqb (length out__) stop__) in ", x, v), ")"})
			return v
		}
		*pre = append(*pre, opener{fmt.Sprintf("(let out__ := out__ ++ [%s] in let %s := true in ", x, v), ")"})
		return v
	}
	if obj != nil && obj.Pkg() != nil {
		full := obj.Pkg().Path() + "." + obj.Name()
		switch full {
		case "fmt.Errorf", "errors.New":
			if t.errZ {
				return "2%Z"
			}
			return "true"
		case "strings.HasPrefix":
			return fmt.Sprintf("(go_has_prefix %s %s)", t.ex(e.Args[0], pre), t.ex(e.Args[1], pre))
		case "strings.ContainsAny":
			return fmt.Sprintf("(go_contains_any %s %s)", t.ex(e.Args[0], pre), t.ex(e.Args[1], pre))
		case "strings.Split":
			sep, ok := t.info.Types[e.Args[1]]
			if !ok || sep.Value == nil || len(constant.StringVal(sep.Value)) != 1 {
				t.fail(e, "strings.Split with a separator that is not a one-byte constant")
			}
			return fmt.Sprintf("(split_on %d%%N %s)", constant.StringVal(sep.Value)[0], t.ex(e.Args[0], pre))
		case "github.com/fluhus/gostuff/snm.At":
			l := t.ex(e.Args[0], pre)
			idx := t.ex(e.Args[1], pre)
			v := t.fresh()
			*pre = append(*pre, opener{fmt.Sprintf("go_snm_at %s %s (fun %s => ", l, idx, v), ")"})
			return v
		case "strconv.Itoa":
			return "(itoa " + t.ex(e.Args[0], pre) + ")"
		case "strconv.FormatFloat":
			if t.floatAs == "" {
				t.fail(e, "FormatFloat in a package whose floats are integers")
			}
			t.oracle = true
			return "(fmtF o " + t.ex(e.Args[0], pre) + ")"
		case "encoding/hex.EncodeToString":
			return "(go_hex_encode " + t.ex(e.Args[0], pre) + ")"
		case "strings.TrimSuffix":
			return fmt.Sprintf("(go_trim_suffix %s %s)", t.ex(e.Args[0], pre), t.ex(e.Args[1], pre))
		case "strings.ReplaceAll":
			return fmt.Sprintf("(go_replace_all %s %s %s)", t.ex(e.Args[0], pre), t.ex(e.Args[1], pre), t.ex(e.Args[2], pre))
		case "fmt.Fprintf":
			if id, ok := e.Args[0].(*ast.Ident); !ok || t.writer == nil || t.info.Uses[id] != t.writer {
				t.fail(e, "Fprintf to something other than the Write method's writer")
			}
			chunk := t.fmtChunk(e, pre)
			v := t.fresh()
			noErr := "false"
			if t.errZ {
				noErr = "0%Z"
			}
			*pre = append(*pre, opener{fmt.Sprintf("(let out__ := out__ ++ [%s] in let %s := (0%%Z, %s) in ", chunk, v, noErr), ")"})
			return v
		case "bytes.Compare":
			return fmt.Sprintf("(go_bytes_compare %s %s)", t.ex(e.Args[0], pre), t.ex(e.Args[1], pre))
		case "sort.Search":
			n := t.ex(e.Args[0], pre)
			f := t.closure(e.Args[1])
			v := t.fresh()
			*pre = append(*pre, opener{fmt.Sprintf("go_call (go_sort_search %s %s) (fun %s => ", n, f, v), ")"})
			return v
		}
	}
	if f, ok := obj.(*types.Func); ok {
		if sig := f.Type().(*types.Signature); sig.Recv() != nil && isBuilder(sig.Recv().Type()) {
			sel := e.Fun.(*ast.SelectorExpr)
			switch f.Name() {
			case "String", "Bytes":
				return t.ex(sel.X, pre)
			case "Len":
				return "(go_len " + t.ex(sel.X, pre) + ")"
			}
		}
	}
	if obj != nil && t.stream {
		if f, ok := obj.(*types.Func); ok {
			if sig := f.Type().(*types.Signature); sig.Recv() != nil && strings.HasSuffix(sig.Recv().Type().String(), "bufio.Scanner") {
				switch f.Name() {
				case "Scan":
					v := t.fresh()
					*pre = append(*pre, opener{fmt.Sprintf("let '(%s, rd__) := go_scan rd__ in ", v), ""})
					return v
				case "Err":
					return "(go_scan_err rd__)"
				case "Bytes", "Text":
					return "(sc_cur rd__)"
				}
			}
		}
	}
	if f, ok := obj.(*types.Func); ok && f.Name() == "FindAllString" {
		if sig := f.Type().(*types.Signature); sig.Recv() != nil && strings.HasSuffix(sig.Recv().Type().String(), "regexp.Regexp") {
			if tv, ok := t.info.Types[e.Args[1]]; !ok || tv.Value == nil || tv.Value.ExactString() != "-1" {
				t.fail(e, "FindAllString with a limit")
			}
			return "(go_fields " + t.ex(e.Args[0], pre) + ")"
		}
	}
	if obj != nil && obj.Pkg() != nil {
		switch obj.Pkg().Path() + "." + obj.Name() {
		case "slices.Clone":
			return t.ex(e.Args[0], pre)
		case "bytes.NewBuffer":
			if id, ok := e.Args[0].(*ast.Ident); ok && id.Name == "nil" {
				return "(@nil N)"
			}
			return t.ex(e.Args[0], pre)
		case "bytes.HasPrefix":
			return fmt.Sprintf("(is_prefix %s %s)", t.ex(e.Args[1], pre), t.ex(e.Args[0], pre))
		}
	}
	if obj != nil && obj.Name() == "newReader" && t.ioReader != nil && len(e.Args) == 1 {
		if id, ok := e.Args[0].(*ast.Ident); ok && t.info.Uses[id] == t.ioReader {
			// newReader(r): the reader object around the stream; its own fields start at zero
			return t.zero(t.typeOf(e))
		}
	}
	if fn, ok := t.fns[obj]; ok && fn.writer >= 0 {
		// x.Write(buf) with a *bytes.Buffer: the chunks are appended to the buffer; the value is the result
		args := []string{}
		if fn.fuel {
			t.fuel = true
			args = append(args, "fuel")
		}
		if fn.oracle {
			args = append(args, "o")
		}
		idx := fn.writer
		if sel, ok := e.Fun.(*ast.SelectorExpr); ok {
			if s, ok := t.info.Selections[sel]; ok && s.Kind() == types.MethodVal {
				args = append(args, t.ex(sel.X, pre))
				idx--
			}
		}
		var wr ast.Expr
		for i, a := range e.Args {
			if i == idx {
				wr = a
				continue
			}
			args = append(args, t.ex(a, pre))
		}
		if wr == nil || !isBuilder(t.typeOf(wr)) {
			t.fail(e, "a Write method called with something other than a buffer")
		}
		b := t.ex(wr, pre)
		ch, v := t.fresh(), t.fresh()
		*pre = append(*pre, opener{fmt.Sprintf("go_call (%s %s) (fun '(%s, %s) => ", fn.name, strings.Join(args, " "), ch, v), ")"})
		t.store(wr, fmt.Sprintf("(%s ++ concat %s)", b, ch), pre)
		return v
	}
	if fn, ok := t.fns[obj]; ok {
		args := []string{}
		if fn.fuel {
			t.fuel = true
			args = append(args, "fuel")
		}
		if fn.oracle {
			args = append(args, "o")
		}
		if fn.heap {
			args = append(args, "h__")
		}
		if sel, ok := e.Fun.(*ast.SelectorExpr); ok {
			if s, ok := t.info.Selections[sel]; ok && s.Kind() == types.MethodVal {
				args = append(args, t.ex(sel.X, pre))
			}
		}
		for _, a := range e.Args {
			args = append(args, t.ex(a, pre))
		}
		v := t.fresh()
		pat := v
		if fn.heap {
			pat = "'(h__, " + v + ")"
		}
		*pre = append(*pre, opener{fmt.Sprintf("go_call (%s %s) (fun %s => ", fn.name, strings.Join(args, " "), pat), ")"})
		return v
	}
	t.fail(e, "call of a function that is not translated: %s", types.ExprString(e.Fun))
	return ""
}

// closure translates  func(params) T { return e }  to a function into res unit T.
func (t *impTr) closure(e ast.Expr) string {
	fl, ok := e.(*ast.FuncLit)
	if !ok || len(fl.Body.List) != 1 {
		t.fail(e, "unsupported function value")
	}
	ret, ok := fl.Body.List[0].(*ast.ReturnStmt)
	if !ok || len(ret.Results) != 1 {
		t.fail(e, "unsupported function value")
	}
	var params []string
	for _, p := range fl.Type.Params.List {
		for _, n := range p.Names {
			params = append(params, t.nameOf(t.info.Defs[n]))
		}
	}
	var pre []opener
	v := t.ex(ret.Results[0], &pre)
	return fmt.Sprintf("(fun %s => %s)", strings.Join(params, " "), wrapOpeners(pre, "Ret "+v))
}

// ---- statements ------------------------------------------------------------------------

// assigned collects the variables declared outside n that n assigns (including through
// an index or a field), in order of first appearance; the pseudo variable of the yielded
// items is reported through the flag.
func (t *impTr) assigned(n ast.Node) ([]types.Object, int) {
	var out []types.Object
	seen := map[types.Object]bool{}
	yields := 0
	add := func(e ast.Expr) {
		for {
			switch x := e.(type) {
			case *ast.IndexExpr:
				e = x.X
				continue
			case *ast.SelectorExpr:
				e = x.X
				continue
			case *ast.ParenExpr:
				e = x.X
				continue
			case *ast.SliceExpr:
				e = x.X
				continue
			case *ast.StarExpr:
				e = x.X
				continue
			}
			break
		}
		id, ok := e.(*ast.Ident)
		if !ok || id.Name == "_" {
			return
		}
		o := t.info.Uses[id]
		if o == nil {
			return // a definition inside n
		}
		if sl, isAlias := t.aliasOf[o]; isAlias { // a store through an alias is a store into its slice
			id = sl.(*ast.Ident)
			o = t.info.Uses[id]
		}
		if o.Pos() >= n.Pos() && o.Pos() < n.End() {
			return
		}
		if v, ok := o.(*types.Var); ok && v.Parent() == v.Pkg().Scope() && !t.initVars[o] {
			t.fail(id, "assignment to a package-level variable")
		}
		if !seen[o] {
			seen[o] = true
			out = append(out, o)
		}
	}
	ast.Inspect(n, func(m ast.Node) bool {
		switch s := m.(type) {
		case *ast.AssignStmt:
			for _, l := range s.Lhs {
				if ie, ok := l.(*ast.IndexExpr); ok && t.heapType != "" {
					if _, ok := t.heapMap(ie.X); ok {
						yields |= 4
						continue
					}
				}
				if _, _, _, ok := t.heapField(l); ok {
					yields |= 4
					continue
				}
				add(l)
			}
		case *ast.IncDecStmt:
			add(s.X)
		case *ast.CallExpr:
			if o := t.calleeObj(s.Fun); o != nil {
				if t.yield != nil && o == t.yield {
					yields |= 1
				}
				if t.writer != nil && o.Pkg() != nil && o.Pkg().Path() == "fmt" && o.Name() == "Fprintf" {
					yields |= 1
				}
				if t.writer != nil && o.Name() == "Write" {
					if sel, ok := s.Fun.(*ast.SelectorExpr); ok {
						if id, ok := sel.X.(*ast.Ident); ok && t.info.Uses[id] == t.writer {
							yields |= 1
						}
					}
				}
				if t.stream && isBufioMethod(o) {
					yields |= 2
				}
				if fn, ok := t.fns[o]; ok && fn.heap {
					yields |= 4
				}
				if _, ok := o.(*types.Builtin); ok && o.Name() == "delete" && t.heapType != "" {
					if _, ok := t.heapMap(s.Args[0]); ok {
						yields |= 4
					}
				}
				if fn, ok := t.fns[o]; ok && fn.stream {
					yields |= 2
					if fn.recv {
						if sel, ok := s.Fun.(*ast.SelectorExpr); ok {
							add(sel.X)
						}
					}
				}
				if fn, ok := t.fns[o]; ok && fn.writer >= 0 {
					idx := fn.writer
					if sel, ok := s.Fun.(*ast.SelectorExpr); ok {
						if sl, ok := t.info.Selections[sel]; ok && sl.Kind() == types.MethodVal {
							idx--
						}
					}
					if idx >= 0 && idx < len(s.Args) {
						add(s.Args[idx])
					}
				}
				if fn, ok := t.fns[o]; ok && fn.buf >= 0 {
					idx := fn.buf
					if sel, ok := s.Fun.(*ast.SelectorExpr); ok {
						if sl, ok := t.info.Selections[sel]; ok && sl.Kind() == types.MethodVal {
							idx--
						}
					}
					if idx >= 0 && idx < len(s.Args) {
						add(s.Args[idx])
					}
				}
				if o.Pkg() != nil && o.Pkg().Path() == "fmt" && o.Name() == "Fprint" && len(s.Args) > 0 {
					add(s.Args[0])
				}
				if o.Pkg() != nil {
					switch o.Pkg().Path() + "." + o.Name() {
					case "sort.Slice", "sort.Ints", "sort.Strings":
						add(s.Args[0])
					}
				}
				if _, ok := o.(*types.Builtin); ok && (o.Name() == "copy" || o.Name() == "delete") {
					add(s.Args[0])
				}
				if f, ok := o.(*types.Func); ok {
					if sig := f.Type().(*types.Signature); sig.Recv() != nil && isBuilder(sig.Recv().Type()) && (strings.HasPrefix(f.Name(), "Write") || f.Name() == "Reset") {
						if sel, ok := s.Fun.(*ast.SelectorExpr); ok {
							add(sel.X)
						}
					}
				}
			}
		case *ast.CompositeLit:
			if t.heapRec {
				if tv, ok := t.info.Types[s]; ok && t.isHeapPtr(tv.Type) {
					yields |= 4
				}
			}
		case *ast.UnaryExpr:
			if s.Op == token.AND && t.heapType != "" {
				if tv, ok := t.info.Types[s]; ok && t.isHeapPtr(tv.Type) {
					yields |= 4
				}
			}
		case *ast.FuncLit:
			return false
		}
		return true
	})
	return out, yields
}

func isBufioMethod(o types.Object) bool {
	f, ok := o.(*types.Func)
	if !ok {
		return false
	}
	sig := f.Type().(*types.Signature)
	return sig.Recv() != nil && (strings.HasSuffix(sig.Recv().Type().String(), "bufio.Reader") ||
		(strings.HasSuffix(sig.Recv().Type().String(), "bufio.Scanner") && f.Name() == "Scan"))
}

func (t *impTr) tuple(objs []types.Object, yields int) string {
	var names, tys []string
	for _, o := range objs {
		names = append(names, t.nameOf(o))
		tys = append(tys, t.ty(o.Type()))
	}
	if yields&1 != 0 {
		names = append(names, "out__")
		tys = append(tys, "_")
	}
	if yields&2 != 0 {
		names = append(names, "rd__")
		tys = append(tys, t.streamTy)
	}
	if yields&4 != 0 {
		names = append(names, "h__")
		tys = append(tys, t.heapTy())
	}
	t.tupleTys[strings.Join(names, ", ")] = strings.Join(tys, " * ")
	switch len(names) {
	case 0:
		return "tt"
	case 1:
		return names[0]
	}
	return "(" + strings.Join(names, ", ") + ")"
}

func pat(tuple string) string {
	if tuple == "tt" || strings.HasPrefix(tuple, "(") {
		return "'" + tuple
	}
	return tuple
}

// patT is pat with a type annotation (the tuple was built by t.tuple).
func (t *impTr) patT(tuple string) string {
	if tuple == "tt" {
		return "'tt"
	}
	if strings.HasPrefix(tuple, "(") {
		if ty, ok := t.tupleTys[tuple[1:len(tuple)-1]]; ok {
			return "'(" + tuple + " : (" + ty + "))"
		}
		return "'" + tuple
	}
	return tuple
}

// mentions reports whether e mentions one of the objects.
func (t *impTr) mentions(e ast.Node, objs []types.Object) bool {
	found := false
	ast.Inspect(e, func(n ast.Node) bool {
		if id, ok := n.(*ast.Ident); ok {
			for _, o := range objs {
				if t.info.Uses[id] == o {
					found = true
				}
			}
		}
		return true
	})
	return found
}

// store translates an assignment of the (already evaluated) value v to the place lhs and
// returns the openers that perform it.
func (t *impTr) store(lhs ast.Expr, v string, pre *[]opener) {
	switch l := lhs.(type) {
	case *ast.ParenExpr:
		t.store(l.X, v, pre)
		return
	case *ast.StarExpr:
		t.store(l.X, v, pre) // *p[i] = n on out-parameters kept as values
		return
	case *ast.Ident:
		if l.Name == "_" {
			return
		}
		o := t.info.Defs[l]
		if o == nil {
			o = t.info.Uses[l]
		}
		if vv, ok := o.(*types.Var); ok && vv.Parent() == vv.Pkg().Scope() && !t.initVars[o] {
			t.fail(l, "assignment to a package-level variable")
		}
		*pre = append(*pre, opener{fmt.Sprintf("let %s := %s in ", t.nameOf(o), v), ""})
		return
	case *ast.IndexExpr:
		if p, ok := t.heapMap(l.X); ok {
			pp := t.ex(p, pre)
			k := t.ex(l.Index, pre)
			*pre = append(*pre, opener{fmt.Sprintf("go_heap_put h__ %s %s %s (fun h__ => ", pp, k, v), ")"})
			return
		}
		xt := t.typeOf(l.X)
		if isSetMap(xt) {
			k := t.ex(l.Index, pre)
			t.store(l.X, fmt.Sprintf("(set_insert %s %s)", k, t.ex(l.X, pre)), pre)
			return
		}
		if mt, ok := xt.Underlying().(*types.Map); ok && isAny(mt.Elem()) {
			k := t.ex(l.Index, pre)
			t.store(l.X, fmt.Sprintf("(go_map_set %s %s %s)", k, v, t.ex(l.X, pre)), pre)
			return
		}
		if mt, ok := xt.Underlying().(*types.Map); ok {
			if arr, ok := mt.Key().Underlying().(*types.Array); ok && arr.Len() == 2 {
				k := t.ex(l.Index, pre)
				t.store(l.X, fmt.Sprintf("(go_map_set2 %s %s %s)", k, v, t.ex(l.X, pre)), pre)
				return
			}
		}
		switch xt.Underlying().(type) {
		case *types.Slice, *types.Array:
			x := t.ex(l.X, pre)
			i := t.asZ(l.Index, pre)
			nv := t.fresh()
			*pre = append(*pre, opener{fmt.Sprintf("go_set %s %s %s (fun %s => ", x, i, v, nv), ")"})
			t.store(l.X, nv, pre)
			return
		}
	case *ast.SelectorExpr:
		if sl, ix, ok := t.aliasBase(l.X); ok {
			n := t.typeOf(l.X).(*types.Pointer).Elem().(*types.Named)
			t.record(n)
			el, nv := t.fresh(), t.fresh()
			slx := t.ex(sl, pre)
			*pre = append(*pre, opener{fmt.Sprintf("go_index %s %s (fun %s => go_set %s %s (imp_%s_%s_with_%s %s %s) (fun %s => ", slx, ix, el, slx, ix, t.recPkgOf(n.Obj().Name()), n.Obj().Name(), l.Sel.Name, el, v, nv), "))"})
			t.store(sl, nv, pre)
			return
		}
		if px, n, f, ok := t.heapField(l); ok {
			t.record(n)
			pp := t.ex(px, pre)
			nd := t.fresh()
			*pre = append(*pre, opener{fmt.Sprintf("go_index h__ %s (fun %s => go_set h__ %s (imp_%s_%s_with_%s %s %s) (fun h__ => ", pp, nd, pp, t.pkg, n.Obj().Name(), f, nd, v), "))"})
			return
		}
		if sel, ok := t.info.Selections[l]; ok && sel.Kind() == types.FieldVal {
			rt := sel.Recv()
			if p, ok := rt.Underlying().(*types.Pointer); ok {
				rt = p.Elem()
			}
			n, ok := rt.(*types.Named)
			if !ok {
				break
			}
			t.record(n)
			x := t.ex(l.X, pre)
			t.store(l.X, fmt.Sprintf("(imp_%s_%s_with_%s %s %s)", t.recPkgOf(n.Obj().Name()), n.Obj().Name(), l.Sel.Name, x, v), pre)
			return
		}
	}
	t.fail(lhs, "unsupported assignment target %T", lhs)
}

var assignOps = map[token.Token]token.Token{token.ADD_ASSIGN: token.ADD, token.SUB_ASSIGN: token.SUB,
	token.MUL_ASSIGN: token.MUL, token.OR_ASSIGN: token.OR, token.AND_ASSIGN: token.AND,
	token.QUO_ASSIGN: token.QUO, token.REM_ASSIGN: token.REM}

// block translates a statement list followed by the continuation k (Gallina text that
// may mention the current variables).
func (t *impTr) block(list []ast.Stmt, k string, lc *loopCtx) string {
	if len(list) == 0 {
		return k
	}
	rest := func() string { return t.block(list[1:], k, lc) }
	var pre []opener
	switch s := list[0].(type) {
	case *ast.EmptyStmt:
		return rest()
	case *ast.BlockStmt:
		return t.block(append(append([]ast.Stmt{}, s.List...), list[1:]...), k, lc)
	case *ast.LabeledStmt:
		if _, ok := s.Stmt.(*ast.ForStmt); !ok {
			t.fail(s, "label on something other than a for loop")
		}
		t.label = s.Label.Name
		return t.block(append([]ast.Stmt{s.Stmt}, list[1:]...), k, lc)
	case *ast.DeclStmt:
		gd := s.Decl.(*ast.GenDecl)
		if gd.Tok == token.CONST {
			return rest() // constants are folded by go/types
		}
		if gd.Tok != token.VAR {
			t.fail(s, "unsupported declaration")
		}
		for _, sp := range gd.Specs {
			vs := sp.(*ast.ValueSpec)
			for i, n := range vs.Names {
				o := t.info.Defs[n]
				v := ""
				if i < len(vs.Values) {
					v = t.ex(vs.Values[i], &pre)
				} else {
					v = t.zero(o.Type())
				}
				pre = append(pre, opener{fmt.Sprintf("let %s : %s := %s in ", t.nameOf(o), t.ty(o.Type()), v), ""})
			}
		}
		return wrapOpeners(pre, rest())
	case *ast.DeferStmt:
		if sel, ok := s.Call.Fun.(*ast.SelectorExpr); ok && sel.Sel.Name == "Close" && len(s.Call.Args) == 0 {
			if id, ok := sel.X.(*ast.Ident); ok && t.ioReader != nil && t.info.Uses[id] == t.ioReader {
				return rest() // closing the opened file has no effect the translated code can see
			}
		}
		t.fail(s, "unsupported defer")
	case *ast.IncDecStmt:
		one := "(1)%Z"
		f := "Z.add"
		if s.Tok == token.DEC {
			f = "Z.sub"
		}
		if isByte(t.typeOf(s.X)) {
			t.fail(s, "++/-- on a byte")
		}
		x := t.ex(s.X, &pre)
		t.store(s.X, fmt.Sprintf("(%s %s %s)", f, x, one), &pre)
		return wrapOpeners(pre, rest())
	case *ast.AssignStmt:
		if len(s.Rhs) == 1 {
			if call, ok := s.Rhs[0].(*ast.CallExpr); ok {
				if o := t.calleeObj(call.Fun); o != nil && o.Pkg() != nil {
					switch o.Pkg().Path() + "." + o.Name() {
					case "github.com/fluhus/gostuff/aio.Open":
						// f, err := aio.Open(file): whether the file opens, and its content as a stream,
						// is the function's parameter open__ (None: the open fails)
						if len(s.Lhs) != 2 || !t.openMode {
							t.fail(s, "unsupported use of aio.Open")
						}
						fid, ok := s.Lhs[0].(*ast.Ident)
						if !ok {
							t.fail(s, "aio.Open into something other than a variable")
						}
						t.ioReader = t.info.Defs[fid]
						ev := t.fresh()
						errv := ev
						if !t.errZ {
							errv = "(negb (Z.eqb " + ev + " 0%Z))"
						}
						empty := "(Stream [] 2%Z None)"
						if t.streamTy == "go_scanner" {
							empty = "(Scanner [] [] 2%Z true)"
						}
						pre = append(pre, opener{fmt.Sprintf("let '(rd__, %s) := go_open %s open__ in ", ev, empty), ""})
						t.store(s.Lhs[1], errv, &pre)
						return wrapOpeners(pre, rest())
					case "bufio.NewScanner", "bufio.NewReader":
						if id, ok := call.Args[0].(*ast.Ident); ok && t.ioReader != nil && t.info.Uses[id] == t.ioReader {
							return rest() // the wrapper around the stream: its methods act on rd__
						}
					case "regexp.MustCompile":
						if tv, ok := t.info.Types[call.Args[0]]; ok && tv.Value != nil && constant.StringVal(tv.Value) == `\S+` {
							return rest() // only FindAllString(_, -1) is supported on it: the non-space fields
						}
						t.fail(s, "a regular expression other than \\S+")
					}
				}
			}
		}
		if len(s.Lhs) == 1 && len(s.Rhs) == 1 {
			if id, ok := s.Lhs[0].(*ast.Ident); ok {
				if o := t.info.Defs[id]; o != nil {
					if _, isAlias := t.aliasOf[o]; isAlias {
						ie := s.Rhs[0].(*ast.IndexExpr)
						ix := t.ex(ie.Index, &pre)
						v := t.fresh()
						pre = append(pre, opener{fmt.Sprintf("let %s := %s in ", v, ix), ""})
						t.aliasIdx[o] = v
						return wrapOpeners(pre, rest())
					}
				}
			}
		}
		t.assign(s, &pre)
		return wrapOpeners(pre, rest())
	case *ast.ExprStmt:
		call, ok := s.X.(*ast.CallExpr)
		if !ok {
			t.fail(s, "unsupported expression statement")
		}
		if id, ok := call.Fun.(*ast.Ident); ok {
			if _, isBuiltin := t.info.Uses[id].(*types.Builtin); isBuiltin {
				switch id.Name {
				case "panic":
					return "Panics"
				case "copy":
					dst := call.Args[0]
					if se, ok := dst.(*ast.SliceExpr); ok && se.Low == nil && se.High == nil {
						dst = se.X
					}
					d := t.ex(dst, &pre)
					src := t.ex(call.Args[1], &pre)
					t.store(dst, fmt.Sprintf("(go_copy %s %s)", d, src), &pre)
					return wrapOpeners(pre, rest())
				case "delete":
					if p, ok := t.heapMap(call.Args[0]); ok {
						pp := t.ex(p, &pre)
						key := t.ex(call.Args[1], &pre)
						pre = append(pre, opener{fmt.Sprintf("go_heap_del h__ %s %s (fun h__ => ", pp, key), ")"})
						return wrapOpeners(pre, rest())
					}
					if !isSetMap(t.typeOf(call.Args[0])) {
						t.fail(s, "delete on a map with values")
					}
					m := t.ex(call.Args[0], &pre)
					key := t.ex(call.Args[1], &pre)
					t.store(call.Args[0], fmt.Sprintf("(set_delete %s %s)", key, m), &pre)
					return wrapOpeners(pre, rest())
				}
			}
		}
		if f, ok := t.calleeObj(call.Fun).(*types.Func); ok {
			if sig := f.Type().(*types.Signature); sig.Recv() != nil && isBuilder(sig.Recv().Type()) {
				sel := call.Fun.(*ast.SelectorExpr)
				switch f.Name() {
				case "Grow":
					t.ex(call.Args[0], &pre)
					return wrapOpeners(pre, rest())
				case "Reset":
					t.store(sel.X, "[]", &pre)
					return wrapOpeners(pre, rest())
				case "WriteByte":
					b := t.ex(sel.X, &pre)
					x := t.ex(call.Args[0], &pre)
					t.store(sel.X, fmt.Sprintf("(%s ++ [%s])", b, x), &pre)
					return wrapOpeners(pre, rest())
				case "WriteString", "Write":
					b := t.ex(sel.X, &pre)
					x := t.ex(call.Args[0], &pre)
					t.store(sel.X, fmt.Sprintf("(%s ++ %s)", b, x), &pre)
					return wrapOpeners(pre, rest())
				}
			}
		}
		if o := t.calleeObj(call.Fun); o != nil && t.stream && isBufioMethod(o) && o.Name() == "UnreadByte" {
			pre = append(pre, opener{"let rd__ := go_unreadbyte rd__ in ", ""})
			return wrapOpeners(pre, rest())
		}
		if o := t.calleeObj(call.Fun); o != nil && o.Pkg() != nil {
			switch o.Pkg().Path() + "." + o.Name() {
			case "sort.Ints":
				x := t.ex(call.Args[0], &pre)
				t.store(call.Args[0], fmt.Sprintf("(go_sort Z.ltb %s)", x), &pre)
				return wrapOpeners(pre, rest())
			case "sort.Strings":
				x := t.ex(call.Args[0], &pre)
				t.store(call.Args[0], fmt.Sprintf("(go_sort go_string_lt %s)", x), &pre)
				return wrapOpeners(pre, rest())
			case "sort.Slice":
				// sort.Slice(x, func(i, j int) bool { return less(x[i], x[j]) })
				x := t.ex(call.Args[0], &pre)
				less := t.lessOf(call.Args[0], call.Args[1])
				t.store(call.Args[0], fmt.Sprintf("(go_sort %s %s)", less, x), &pre)
				return wrapOpeners(pre, rest())
			}
		}
		if o := t.calleeObj(call.Fun); o != nil && o.Pkg() != nil && o.Pkg().Path() == "fmt" && o.Name() == "Fprint" && isBuilder(t.typeOf(call.Args[0])) {
			b := t.ex(call.Args[0], &pre)
			parts := []string{b}
			for _, a := range call.Args[1:] {
				x := t.ex(a, &pre)
				at := t.typeOf(a)
				if bb, ok := at.Underlying().(*types.Basic); ok && bb.Info()&types.IsFloat != 0 && t.floatAs != "" {
					parts = append(parts, "fmtF o "+x)
				} else if ok && bb.Info()&types.IsString != 0 {
					parts = append(parts, x)
				} else {
					t.fail(a, "unsupported operand of fmt.Fprint")
				}
			}
			t.store(call.Args[0], "("+strings.Join(parts, " ++ ")+")", &pre)
			return wrapOpeners(pre, rest())
		}
		if fn, ok := t.fns[t.calleeObj(call.Fun)]; ok && fn.buf >= 0 {
			// the callee writes into the buffer passed to it: its result is the new buffer
			v := t.ex(call, &pre)
			idx := fn.buf
			if sel, ok := call.Fun.(*ast.SelectorExpr); ok {
				if s, ok := t.info.Selections[sel]; ok && s.Kind() == types.MethodVal {
					idx-- // the receiver is parameter 0
				}
			}
			t.store(call.Args[idx], v, &pre)
			return wrapOpeners(pre, rest())
		}
		// a call for its effect only: evaluate it (it may panic)
		t.ex(call, &pre)
		return wrapOpeners(pre, rest())
	case *ast.ReturnStmt:
		var vals []string
		for i, r := range s.Results {
			if t.optRes && t.results != nil && i < t.results.Len() && len(s.Results) == t.results.Len() {
				t.inResTy = true
				opt := t.isOptPtr(t.results.At(i).Type())
				t.inResTy = false
				if opt {
					if id, ok := r.(*ast.Ident); ok && id.Name == "nil" {
						vals = append(vals, "None")
					} else {
						vals = append(vals, "(Some "+t.ex(r, &pre)+")")
					}
					continue
				}
			}
			if id, ok := r.(*ast.Ident); ok && id.Name == "nil" && t.results != nil && i < t.results.Len() {
				vals = append(vals, t.zero(t.results.At(i).Type()))
				continue
			}
			vals = append(vals, t.ex(r, &pre))
		}
		return wrapOpeners(pre, t.retWrap(strings.Join(vals, ", ")))
	case *ast.BranchStmt:
		if s.Tok == token.BREAK && s.Label == nil && lc != nil && lc.swBreak != nil {
			return lc.swBreak()
		}
		if lc == nil || lc.state == "" || (s.Label != nil && (s.Label.Name != lc.label || lc.label == "")) {
			t.fail(s, "unsupported branch")
		}
		switch s.Tok {
		case token.BREAK:
			return "Brk " + lc.state
		case token.CONTINUE:
			if lc.post != nil {
				return t.block([]ast.Stmt{lc.post}, "Next "+lc.state, nil)
			}
			return "Next " + lc.state
		}
		t.fail(s, "unsupported branch")
	case *ast.IfStmt:
		stmts := []ast.Stmt{}
		if s.Init != nil {
			stmts = append(stmts, s.Init)
		}
		if len(stmts) > 0 {
			cp := *s
			cp.Init = nil
			return t.block(append(append(stmts, &cp), list[1:]...), k, lc)
		}
		if be, ok := s.Cond.(*ast.BinaryExpr); ok && be.Op == token.LAND && t.hasStateEffect(be.Y) {
			// if A && B {X} else {Y}  with an effect in B:  if A { if B {X} else {Y} } else {Y}
			inner := &ast.IfStmt{If: s.If, Cond: be.Y, Body: s.Body, Else: s.Else}
			outer := &ast.IfStmt{If: s.If, Cond: be.X, Body: &ast.BlockStmt{Lbrace: s.Body.Lbrace, List: []ast.Stmt{inner}, Rbrace: s.Body.Rbrace}, Else: s.Else}
			return t.block(append([]ast.Stmt{outer}, list[1:]...), k, lc)
		}
		c := t.ex(s.Cond, &pre)
		if t.join && len(list) > 1 && !hasBranch(s) {
			// join: the if statement as a computation of the variables it assigns
			objs, yields := t.assigned(s)
			state := t.tuple(objs, yields)
			thenJ := t.block(s.Body.List, "Next "+state, nil)
			elseJ := "Next " + state
			switch e := s.Else.(type) {
			case *ast.BlockStmt:
				elseJ = t.block(e.List, "Next "+state, nil)
			case *ast.IfStmt:
				elseJ = t.block([]ast.Stmt{e}, "Next "+state, nil)
			}
			return wrapOpeners(pre, fmt.Sprintf("after (if %s then %s else %s) (fun %s => %s)", c, thenJ, elseJ, pat(state), rest()))
		}
		thenB := t.block(append(append([]ast.Stmt{}, s.Body.List...), list[1:]...), k, lc)
		var elseB string
		switch e := s.Else.(type) {
		case nil:
			elseB = rest()
		case *ast.BlockStmt:
			elseB = t.block(append(append([]ast.Stmt{}, e.List...), list[1:]...), k, lc)
		case *ast.IfStmt:
			elseB = t.block(append([]ast.Stmt{e}, list[1:]...), k, lc)
		}
		return wrapOpeners(pre, fmt.Sprintf("(if %s then %s else %s)", c, thenB, elseB))
	case *ast.SwitchStmt:
		if s.Init != nil || s.Tag == nil {
			t.fail(s, "unsupported switch")
		}
		tag := t.ex(s.Tag, &pre)
		tt := t.typeOf(s.Tag)
		def := ""
		hasDef := false
		type arm struct{ cond, body string }
		var arms []arm
		for _, cc := range s.Body.List {
			cl := cc.(*ast.CaseClause)
			for _, st := range cl.Body {
				if b, ok := st.(*ast.BranchStmt); ok && b.Tok == token.FALLTHROUGH {
					t.fail(b, "fallthrough in a switch")
				}
			}
			lc2 := &loopCtx{}
			if lc != nil {
				cp := *lc
				lc2 = &cp
			}
			lc2.swBreak = rest // an unlabelled break inside the clause: on to what follows the switch
			body := t.block(append(append([]ast.Stmt{}, cl.Body...), list[1:]...), k, lc2)
			if cl.List == nil {
				def, hasDef = body, true
				continue
			}
			var conds []string
			for _, kx := range cl.List {
				var p2 []opener
				kv := t.ex(kx, &p2)
				if len(p2) > 0 {
					t.fail(kx, "case expression with effects")
				}
				conds = append(conds, t.binop(kx, token.EQL, tag, kv, tt, t.typeOf(kx), nil, nil))
			}
			c := conds[0]
			for _, x := range conds[1:] {
				c = fmt.Sprintf("(orb %s %s)", c, x)
			}
			arms = append(arms, arm{c, body})
		}
		if !hasDef {
			def = rest()
		}
		out := def
		for i := len(arms) - 1; i >= 0; i-- {
			out = fmt.Sprintf("(if %s then %s else %s)", arms[i].cond, arms[i].body, out)
		}
		return wrapOpeners(pre, out)
	case *ast.TypeSwitchStmt:
		// switch v := x.(type) { case byte: ... }  on a go_any
		as, ok := s.Assign.(*ast.AssignStmt)
		if !ok || len(as.Rhs) != 1 {
			t.fail(s, "unsupported type switch")
		}
		ta := as.Rhs[0].(*ast.TypeAssertExpr)
		x := t.ex(ta.X, &pre)
		arms := map[string]string{}
		def := "Panics"
		for _, cc := range s.Body.List {
			cl := cc.(*ast.CaseClause)
			if hasBranch(cl) {
				t.fail(cl, "break in a type switch")
			}
			impl := t.info.Implicits[cl]
			if cl.List == nil {
				nm := "_"
				if impl != nil {
					nm = t.nameOf(impl)
				}
				def = "let " + nm + " := " + x + " in " + t.block(append(append([]ast.Stmt{}, cl.Body...), list[1:]...), k, lc)
				continue
			}
			if len(cl.List) != 1 {
				t.fail(cl, "a case with several types")
			}
			cty := t.info.Types[cl.List[0]].Type
			ctor := strings.Trim(strings.Fields(t.anyOf("v", cty, cl))[0], "(")
			nm := "_"
			if impl != nil {
				nm = t.nameOf(impl)
			}
			arms[ctor] = "| " + ctor + " " + nm + " => " + t.block(append(append([]ast.Stmt{}, cl.Body...), list[1:]...), k, lc)
		}
		out := "(match " + x + " with "
		for _, c := range []string{"AnyByte", "AnyInt", "AnyFloat", "AnyString", "AnyBytes"} {
			if a, ok := arms[c]; ok {
				out += a + " "
			} else {
				out += "| " + c + " _ => " + def + " "
			}
		}
		return wrapOpeners(pre, out+"end)")
	case *ast.RangeStmt:
		return t.rangeStmt(s, rest)
	case *ast.ForStmt:
		return t.forStmt(s, rest)
	}
	t.fail(list[0], "unsupported statement %T", list[0])
	return ""
}

// lessOf recognises  func(i, j int) bool { return f(x[i], x[j]) }  for a translated f.
func (t *impTr) lessOf(x ast.Expr, fn ast.Expr) string {
	fl, ok := fn.(*ast.FuncLit)
	if ok && len(fl.Body.List) == 1 {
		if ret, ok := fl.Body.List[0].(*ast.ReturnStmt); ok && len(ret.Results) == 1 {
			if call, ok := ret.Results[0].(*ast.CallExpr); ok && len(call.Args) == 2 {
				var ps []string
				for _, p := range fl.Type.Params.List {
					for _, n := range p.Names {
						ps = append(ps, n.Name)
					}
				}
				okShape := len(ps) == 2
				for i, a := range call.Args {
					ie, ok := a.(*ast.IndexExpr)
					if !ok || types.ExprString(ie.X) != types.ExprString(x) || !okShape || types.ExprString(ie.Index) != ps[i] {
						okShape = false
					}
				}
				if f, ok := t.fns[t.calleeObj(call.Fun)]; ok && okShape && !f.fuel {
					return fmt.Sprintf("(fun a__ b__ => match %s a__ b__ with Ret true => true | _ => false end)", f.name)
				}
			}
		}
	}
	t.fail(fn, "unsupported less function")
	return ""
}

func (t *impTr) assign(s *ast.AssignStmt, pre *[]opener) {
	if op, ok := assignOps[s.Tok]; ok {
		if len(s.Lhs) != 1 {
			t.fail(s, "unsupported assignment")
		}
		cur := t.ex(s.Lhs[0], pre)
		rhs := t.ex(s.Rhs[0], pre)
		v := t.binop(s, op, cur, rhs, t.typeOf(s.Lhs[0]), t.typeOf(s.Rhs[0]), s.Rhs[0], pre)
		t.store(s.Lhs[0], v, pre)
		return
	}
	if s.Tok != token.ASSIGN && s.Tok != token.DEFINE {
		t.fail(s, "unsupported assignment operator %s", s.Tok)
	}
	if len(s.Lhs) == 2 && len(s.Rhs) == 1 {
		// v, ok := m[[2]byte{a, b}]
		if ie, ok := s.Rhs[0].(*ast.IndexExpr); ok {
			if mt, ok := t.typeOf(ie.X).Underlying().(*types.Map); ok {
				if id, isId := ie.X.(*ast.Ident); isId {
					if g, isGlobal := t.globals[id.Name]; isGlobal {
						key := t.ex(ie.Index, pre)
						v, okv := t.fresh(), t.fresh()
						*pre = append(*pre, opener{fmt.Sprintf("let '(%s, %s) := match %s %s with Some v__ => (v__, true) | None => (%s, false) end in ", v, okv, g, key, t.zero(mt.Elem())), ""})
						t.store(s.Lhs[0], v, pre)
						t.store(s.Lhs[1], okv, pre)
						return
					}
				}
				cl, ok := ie.Index.(*ast.CompositeLit)
				var m, a, b string
				if ok && len(cl.Elts) == 2 {
					m = t.ex(ie.X, pre)
					a, b = t.ex(cl.Elts[0], pre), t.ex(cl.Elts[1], pre)
				} else if arr, isArr := mt.Key().Underlying().(*types.Array); isArr && arr.Len() == 2 {
					m = t.ex(ie.X, pre)
					k := t.ex(ie.Index, pre)
					a, b = "(fst "+k+")", "(snd "+k+")"
				} else {
					t.fail(s, "comma-ok read with an unsupported key")
				}
				v, okv := t.fresh(), t.fresh()
				*pre = append(*pre, opener{fmt.Sprintf("let '(%s, %s) := match assoc2 %s %s %s with Some v__ => (v__, true) | None => (%s, false) end in ", v, okv, m, a, b, t.zero(mt.Elem())), ""})
				t.store(s.Lhs[0], v, pre)
				t.store(s.Lhs[1], okv, pre)
				return
			}
		}
	}
	if len(s.Rhs) == 1 && len(s.Lhs) > 1 {
		// a, b, c := f(...)
		call, ok := s.Rhs[0].(*ast.CallExpr)
		if !ok {
			t.fail(s, "unsupported multi-value assignment")
		}
		if o := t.calleeObj(call.Fun); o != nil && t.stream && isBufioMethod(o) && o.Name() == "ReadString" && len(s.Lhs) == 2 {
			d := t.ex(call.Args[0], pre)
			b, e := t.fresh(), t.fresh()
			*pre = append(*pre, opener{fmt.Sprintf("let '(%s, %s, rd__) := go_readstring rd__ %s in ", b, e, d), ""})
			t.store(s.Lhs[0], b, pre)
			t.store(s.Lhs[1], e, pre)
			return
		}
		if o := t.calleeObj(call.Fun); o != nil && t.stream && isBufioMethod(o) && o.Name() == "ReadByte" && len(s.Lhs) == 2 {
			b, e := t.fresh(), t.fresh()
			*pre = append(*pre, opener{fmt.Sprintf("let '(%s, %s, rd__) := go_readbyte rd__ in ", b, e), ""})
			t.store(s.Lhs[0], b, pre)
			t.store(s.Lhs[1], e, pre)
			return
		}
		if o := t.calleeObj(call.Fun); o != nil && o.Pkg() != nil && len(s.Lhs) == 2 {
			lib := ""
			switch o.Pkg().Path() + "." + o.Name() {
			case "strconv.Atoi":
				lib = "go_atoi "
				if t.errZ {
					lib = "go_atoi_z "
				}
				lib += t.ex(call.Args[0], pre)
			case "strconv.ParseFloat":
				if t.floatAs == "" {
					t.fail(s, "ParseFloat in a package whose floats are integers")
				}
				t.oracle = true
				lib = "go_parse_float o "
				if t.errZ {
					lib = "go_parse_float_z o "
				}
				lib += t.ex(call.Args[0], pre)
			case "encoding/hex.DecodeString":
				lib = "go_hex_decode " + t.ex(call.Args[0], pre)
			case "strconv.ParseUint":
				b, bok := t.info.Types[call.Args[1]]
				w, wok := t.info.Types[call.Args[2]]
				if !bok || !wok || b.Value == nil || w.Value == nil || b.Value.ExactString() != "0" || w.Value.ExactString() != "8" {
					t.fail(s, "strconv.ParseUint with a base / size other than 0, 8")
				}
				lib = "go_parse_uint_0_8 "
				if t.errZ {
					lib = "go_parse_uint_0_8_z "
				}
				lib += t.ex(call.Args[0], pre)
			}
			if lib != "" {
				v, e := t.fresh(), t.fresh()
				*pre = append(*pre, opener{fmt.Sprintf("let '(%s, %s) := %s in ", v, e, lib), ""})
				t.store(s.Lhs[0], v, pre)
				t.store(s.Lhs[1], e, pre)
				return
			}
		}
		if sel, ok := call.Fun.(*ast.SelectorExpr); ok && t.writer != nil && sel.Sel.Name == "Write" && len(s.Lhs) == 2 {
			if id, ok := sel.X.(*ast.Ident); ok && t.info.Uses[id] == t.writer {
				x := t.ex(call.Args[0], pre)
				noErr := "false"
				if t.errZ {
					noErr = "0%Z"
				}
				*pre = append(*pre, opener{fmt.Sprintf("(let out__ := out__ ++ [%s] in ", x), ")"})
				t.store(s.Lhs[1], noErr, pre)
				return
			}
		}
		if o := t.calleeObj(call.Fun); o != nil && o.Pkg() != nil && o.Pkg().Path() == "fmt" && o.Name() == "Fprintf" {
			if id, ok := s.Lhs[0].(*ast.Ident); !ok || id.Name != "_" || len(s.Lhs) != 2 {
				t.fail(s, "the byte count of Fprintf is used")
			}
			v := t.call(call, pre)
			t.store(s.Lhs[1], "(snd "+v+")", pre)
			return
		}
		if x := t.extFn(t.calleeObj(call.Fun)); x != nil && len(s.Lhs) == 2 {
			args := []string{}
			if x.oracle {
				t.oracle = true
				args = append(args, "o")
			}
			for _, a := range call.Args {
				args = append(args, t.ex(a, pre))
			}
			v, eb := t.fresh(), t.fresh()
			*pre = append(*pre, opener{fmt.Sprintf("go_call (%s %s) (fun '(%s, %s) => ", x.coq, strings.Join(args, " "), v, eb), ")"})
			ev := eb
			if x.errBool && t.errZ {
				ev = "(if " + eb + " then 2%Z else 0%Z)"
			}
			t.store(s.Lhs[0], v, pre)
			t.store(s.Lhs[1], ev, pre)
			return
		}
		fn, ok := t.fns[t.calleeObj(call.Fun)]
		if !ok {
			t.fail(s, "multi-value call of a function that is not translated")
		}
		args := []string{}
		if fn.fuel {
			t.fuel = true
			args = append(args, "fuel")
		}
		if fn.oracle {
			args = append(args, "o")
		}
		if fn.heap {
			args = append(args, "h__")
		}
		if fn.stream {
			args = append(args, "rd__")
		}
		var recvX ast.Expr
		if fn.recv {
			sel, ok := call.Fun.(*ast.SelectorExpr)
			if !ok {
				t.fail(s, "a reader method called without a receiver")
			}
			recvX = sel.X
			args = append(args, t.ex(recvX, pre))
		} else if sel, ok := call.Fun.(*ast.SelectorExpr); ok && !fn.stream {
			if sl, ok := t.info.Selections[sel]; ok && sl.Kind() == types.MethodVal {
				args = append(args, t.ex(sel.X, pre))
			}
		}
		for _, a := range call.Args {
			args = append(args, t.ex(a, pre))
		}
		var tmps []string
		for range s.Lhs {
			tmps = append(tmps, t.fresh())
		}
		resPat := "(" + strings.Join(tmps, ", ") + ")"
		if fn.heap {
			resPat = "(h__, " + resPat + ")"
		}
		if fn.stream {
			if fn.recv {
				rv := t.fresh()
				*pre = append(*pre, opener{fmt.Sprintf("go_call (%s %s) (fun '(rd__, %s, %s) => ", fn.name, strings.Join(args, " "), rv, resPat), ")"})
				t.store(recvX, rv, pre)
			} else {
				*pre = append(*pre, opener{fmt.Sprintf("go_call (%s %s) (fun '(rd__, %s) => ", fn.name, strings.Join(args, " "), resPat), ")"})
			}
			for i, l := range s.Lhs {
				t.store(l, tmps[i], pre)
			}
			return
		}
		if fn.heap {
			*pre = append(*pre, opener{fmt.Sprintf("go_call (%s %s) (fun '%s => ", fn.name, strings.Join(args, " "), resPat), ")"})
		} else {
			*pre = append(*pre, opener{fmt.Sprintf("go_call (%s %s) (fun '(%s) => ", fn.name, strings.Join(args, " "), strings.Join(tmps, ", ")), ")"})
		}
		for i, l := range s.Lhs {
			t.store(l, tmps[i], pre)
		}
		return
	}
	if len(s.Lhs) != len(s.Rhs) {
		t.fail(s, "unsupported assignment")
	}
	if len(s.Lhs) == 1 {
		if call, ok := s.Rhs[0].(*ast.CallExpr); ok {
			if fn, ok := t.fns[t.calleeObj(call.Fun)]; ok && fn.out >= 0 {
				t.callWithOut(call, fn, []ast.Expr{s.Lhs[0]}, pre)
				return
			}
		}
		v := t.ex(s.Rhs[0], pre)
		if ie, ok := s.Lhs[0].(*ast.IndexExpr); ok {
			if mt, ok := t.typeOf(ie.X).Underlying().(*types.Map); ok && isAny(mt.Elem()) {
				v = t.anyOf(v, t.typeOf(s.Rhs[0]), s)
			}
		}
		t.store(s.Lhs[0], v, pre)
		return
	}
	// parallel assignment: all right-hand sides first
	var vals []string
	for _, r := range s.Rhs {
		v := t.ex(r, pre)
		tmp := t.fresh()
		*pre = append(*pre, opener{fmt.Sprintf("let %s := %s in ", tmp, v), ""})
		vals = append(vals, tmp)
	}
	for i, l := range s.Lhs {
		t.store(l, vals[i], pre)
	}
}

func (t *impTr) rangeStmt(s *ast.RangeStmt, rest func() string) string {
	if s.Tok != token.DEFINE && (s.Key != nil || s.Value != nil) {
		t.fail(s, "range assigning to existing variables")
	}
	objs, yields := t.assigned(s.Body)
	state := t.tuple(objs, yields)
	var pre []opener
	if call, ok := s.X.(*ast.CallExpr); ok {
		if fn, ok := t.fns[t.calleeObj(call.Fun)]; ok && fn.iter {
			// for a, b := range it(): all items of the translated iterator, then the loop over them
			// (the same items in the same order as long as the consumer of it() never stops it,
			// and a break only means the remaining items are dropped)
			args := []string{}
			if fn.fuel {
				t.fuel = true
				args = append(args, "fuel")
			}
			if fn.oracle {
				args = append(args, "o")
			}
			if fn.heap {
				args = append(args, "h__")
			}
			if fn.stream {
				args = append(args, "rd__")
			}
			if sel, ok := call.Fun.(*ast.SelectorExpr); ok && fn.recv {
				args = append(args, t.ex(sel.X, &pre))
			}
			for _, a := range call.Args {
				if id, ok := a.(*ast.Ident); ok && t.ioReader != nil && t.info.Uses[id] == t.ioReader {
					continue // the reader is the stream state rd__, passed above
				}
				args = append(args, t.ex(a, &pre))
			}
			items := t.fresh()
			patIt := items
			if fn.heap {
				patIt = "(h__, " + items + ")"
				yields |= 4
				state = t.tuple(objs, yields)
			}
			if fn.stream {
				patIt = "(rd__, " + patIt + ")"
				yields |= 2
				state = t.tuple(objs, yields)
			}
			if fn.heap || fn.stream {
				patIt = "'" + patIt
			}
			nm := func(e ast.Expr) string {
				if e == nil {
					return "_"
				}
				id := e.(*ast.Ident)
				if id.Name == "_" {
					return "_"
				}
				return t.nameOf(t.info.Defs[id])
			}
			elem := nm(s.Key)
			if s.Value != nil {
				elem = "'(" + nm(s.Key) + ", " + nm(s.Value) + ")"
			}
			body := t.block(s.Body.List, "Next "+state, &loopCtx{state: state})
			loop := fmt.Sprintf("go_range %s (fun _ %s %s => %s) %s", items, elem, pat(state), body, state)
			return wrapOpeners(pre, fmt.Sprintf("go_call (%s %s) (fun %s => after (%s) (fun %s => %s))", fn.name, strings.Join(args, " "), patIt, loop, pat(state), rest()))
		}
	}
	if p, ok := t.heapMap(s.X); ok && !t.heapRec {
		if s.Value != nil {
			t.fail(s, "range over a heap map with values")
		}
		// for k := range p.m: the keys in the order the node holds them (ascending; Go's order is
		// unspecified, this is one of the possible ones)
		pp := t.ex(p, &pre)
		nd := t.fresh()
		kn := "_"
		if s.Key != nil {
			if id := s.Key.(*ast.Ident); id.Name != "_" {
				kn = t.nameOf(t.info.Defs[id])
			}
		}
		body := t.block(s.Body.List, "Next "+state, &loopCtx{state: state})
		loop := fmt.Sprintf("go_index h__ %s (fun %s => go_range (map fst %s) (fun _ %s %s => %s) %s)", pp, nd, nd, kn, pat(state), body, state)
		return wrapOpeners(pre, fmt.Sprintf("after (%s) (fun %s => %s)", loop, pat(state), rest()))
	}
	x := t.ex(s.X, &pre)
	name := func(e ast.Expr) string {
		if e == nil {
			return "_"
		}
		id := e.(*ast.Ident)
		if id.Name == "_" {
			return "_"
		}
		return t.nameOf(t.info.Defs[id])
	}
	body := func() string {
		return t.block(s.Body.List, "Next "+state, &loopCtx{state: state})
	}
	xt := t.typeOf(s.X)
	var loop string
	switch u := xt.Underlying().(type) {
	case *types.Basic:
		if u.Info()&types.IsString != 0 {
			// the runes of a string: taken bytewise, which is the same as long as the rune is
			// only compared with ASCII constants (a byte below 0x80 is never part of a longer rune)
			if s.Value != nil {
				t.asciiOnly(s.Body, t.info.Defs[s.Value.(*ast.Ident)])
			}
			vn := name(s.Value)
			conv := ""
			if vn != "_" {
				conv = fmt.Sprintf("let %s := Z.of_N %s__ in ", vn, vn)
				vn += "__"
			}
			loop = fmt.Sprintf("go_range %s (fun %s %s %s => %s%s) %s", x, name(s.Key), vn, pat(state), conv, body(), state)
			break
		}
		if u.Info()&types.IsInteger == 0 || s.Value != nil {
			t.fail(s, "unsupported range")
		}
		loop = fmt.Sprintf("go_range_int %s (fun %s %s => %s) %s", x, name(s.Key), pat(state), body(), state)
	case *types.Slice, *types.Array:
		if s.Value == nil {
			loop = fmt.Sprintf("go_range_int (go_len %s) (fun %s %s => %s) %s", x, name(s.Key), pat(state), body(), state)
		} else {
			if t.mentions(s.X, objs) {
				t.fail(s, "the ranged slice is assigned in its loop")
			}
			loop = fmt.Sprintf("go_range %s (fun %s %s %s => %s) %s", x, name(s.Key), name(s.Value), pat(state), body(), state)
		}
	case *types.Map:
		if t.mentions(s.X, objs) {
			t.fail(s, "the ranged map is assigned in its loop")
		}
		if isSetMap(xt) && s.Value == nil {
			loop = fmt.Sprintf("go_range %s (fun _ %s %s => %s) %s", x, name(s.Key), pat(state), body(), state)
		} else if !isSetMap(xt) {
			// an association list: (key, value) pairs in list order (one of Go's possible orders)
			loop = fmt.Sprintf("go_range %s (fun _ '(%s, %s) %s => %s) %s", x, name(s.Key), name(s.Value), pat(state), body(), state)
		} else {
			t.fail(s, "unsupported range over a map")
		}
	default:
		t.fail(s, "unsupported range over %s", xt)
	}
	return wrapOpeners(pre, fmt.Sprintf("after (%s) (fun %s => %s)", loop, pat(state), rest()))
}

func (t *impTr) forStmt(s *ast.ForStmt, rest func() string) string {
	label := t.label
	t.label = ""
	objs, yields := t.assigned(s.Body)
	// counted shapes
	if as, ok := s.Init.(*ast.AssignStmt); ok && as.Tok == token.DEFINE && len(as.Lhs) == 1 && s.Cond != nil && s.Post != nil {
		iv := t.info.Defs[as.Lhs[0].(*ast.Ident)]
		cond, cok := s.Cond.(*ast.BinaryExpr)
		inc, iok := s.Post.(*ast.IncDecStmt)
		if cok && iok {
			cx, _ := cond.X.(*ast.Ident)
			px, _ := inc.X.(*ast.Ident)
			if cx != nil && px != nil && t.info.Uses[cx] == iv && t.info.Uses[px] == iv &&
				!t.assignsObj(s.Body, iv) && !t.mentions(cond.Y, objs) {
				state := t.tuple(objs, yields)
				var pre []opener
				lo := t.ex(as.Rhs[0], &pre)
				var preB []opener
				bound := t.ex(cond.Y, &preB)
				if len(preB) == 0 {
					body := func() string { return t.block(s.Body.List, "Next "+state, &loopCtx{state: state}) }
					var loop string
					switch {
					case cond.Op == token.LSS && inc.Tok == token.INC:
						loop = fmt.Sprintf("go_for_up %s %s (fun %s %s => %s) %s", lo, bound, t.nameOf(iv), pat(state), body(), state)
					case cond.Op == token.GEQ && inc.Tok == token.DEC:
						loop = fmt.Sprintf("go_for_down %s %s (fun %s %s => %s) %s", lo, bound, t.nameOf(iv), pat(state), body(), state)
					}
					if loop != "" {
						return wrapOpeners(pre, fmt.Sprintf("after (%s) (fun %s => %s)", loop, pat(state), rest()))
					}
				}
			}
		}
	}
	// a condition that changes the stream (for sc.Scan() { ... }):  for { if !cond { break }; ... }
	if s.Cond != nil && s.Init == nil && s.Post == nil {
		_, cf := t.assigned(s.Cond)
		if cf&2 != 0 {
			brk := &ast.IfStmt{Cond: &ast.UnaryExpr{Op: token.NOT, X: s.Cond}, Body: &ast.BlockStmt{List: []ast.Stmt{&ast.BranchStmt{Tok: token.BREAK}}}}
			cp := *s
			cp.Cond = nil
			cp.Body = &ast.BlockStmt{Lbrace: s.Body.Lbrace, Rbrace: s.Body.Rbrace, List: append([]ast.Stmt{brk}, s.Body.List...)}
			t.info.Types[brk.Cond] = types.TypeAndValue{Type: types.Typ[types.Bool]}
			return t.forStmt(&cp, rest)
		}
	}
	// general: init; go_while fuel cond (body; post)
	t.fuel = true
	var initObjs []types.Object
	if s.Init != nil {
		if as, ok := s.Init.(*ast.AssignStmt); ok && as.Tok == token.DEFINE {
			for _, l := range as.Lhs {
				if id, ok := l.(*ast.Ident); ok && id.Name != "_" {
					initObjs = append(initObjs, t.info.Defs[id])
				}
			}
		} else if ok && as.Tok == token.ASSIGN {
			// the variables are outer ones: they enter the state through the post statement or the body
			_, f := t.assigned(s.Init)
			yields |= f
		} else {
			t.fail(s, "unsupported loop initialisation")
		}
	}
	all := append([]types.Object{}, initObjs...)
	for _, o := range objs {
		dup := false
		for _, p := range all {
			if p == o {
				dup = true
			}
		}
		if !dup {
			all = append(all, o)
		}
	}
	if s.Post != nil {
		po, pf := t.assigned(s.Post)
		yields |= pf
		for _, o := range po {
			dup := false
			for _, p := range all {
				if p == o {
					dup = true
				}
			}
			if !dup {
				all = append(all, o)
			}
		}
	}
	state := t.tuple(all, yields)
	cond := "(fun _ => Ret true)"
	if s.Cond != nil {
		var pc []opener
		c := t.ex(s.Cond, &pc)
		cond = fmt.Sprintf("(fun %s => %s)", t.patT(state), wrapOpeners(pc, "Ret "+c))
	}
	end := "Next " + state
	if s.Post != nil {
		end = t.block([]ast.Stmt{s.Post}, "Next "+state, nil)
	}
	body := t.block(s.Body.List, end, &loopCtx{state: state, post: s.Post, label: label})
	loop := fmt.Sprintf("after (go_while fuel %s (fun %s => %s) %s) (fun %s => %s)", cond, t.patT(state), body, state, pat(state), rest())
	if s.Init != nil {
		return t.block([]ast.Stmt{s.Init}, loop, nil)
	}
	return loop
}

// hasBranch reports whether n contains a break, continue, goto or fallthrough.
func hasBranch(n ast.Node) bool {
	found := false
	ast.Inspect(n, func(m ast.Node) bool {
		if _, ok := m.(*ast.BranchStmt); ok {
			found = true
		}
		return true
	})
	return found
}

// asciiOnly checks that every use of the rune variable v in n is a comparison with a constant
// below 0x80.
func (t *impTr) asciiOnly(n ast.Node, v types.Object) {
	ok := map[*ast.Ident]bool{}
	ast.Inspect(n, func(m ast.Node) bool {
		if be, isBin := m.(*ast.BinaryExpr); isBin && (be.Op == token.EQL || be.Op == token.NEQ) {
			for _, pair := range [][2]ast.Expr{{be.X, be.Y}, {be.Y, be.X}} {
				if id, isId := pair[0].(*ast.Ident); isId && t.info.Uses[id] == v {
					if tv, has := t.info.Types[pair[1]]; has && tv.Value != nil {
						if c, exact := constant.Int64Val(constant.ToInt(tv.Value)); exact && c >= 0 && c < 0x80 {
							ok[id] = true
						}
					}
				}
			}
		}
		return true
	})
	ast.Inspect(n, func(m ast.Node) bool {
		if id, isId := m.(*ast.Ident); isId && t.info.Uses[id] == v && !ok[id] {
			t.fail(id, "a rune of a ranged string is used other than in a comparison with an ASCII constant")
		}
		return true
	})
}

// callWithOut translates  lhs... = f(args..., &a, &b, ...)  where f takes out-parameters.
func (t *impTr) callWithOut(call *ast.CallExpr, fn *impFn, lhs []ast.Expr, pre *[]opener) {
	args := []string{}
	if fn.fuel {
		t.fuel = true
		args = append(args, "fuel")
	}
	if fn.oracle {
		args = append(args, "o")
	}
	var places []ast.Expr
	var cur []string
	for i, a := range call.Args {
		if i < fn.out {
			args = append(args, t.ex(a, pre))
			continue
		}
		// &x  or  (*T)(&x)
		for {
			if c, ok := a.(*ast.CallExpr); ok && len(c.Args) == 1 {
				a = c.Args[0]
				continue
			}
			if p, ok := a.(*ast.ParenExpr); ok {
				a = p.X
				continue
			}
			break
		}
		u, ok := a.(*ast.UnaryExpr)
		if !ok || u.Op != token.AND {
			t.fail(a, "an out-parameter that is not an address")
		}
		places = append(places, u.X)
		cur = append(cur, t.ex(u.X, pre))
	}
	args = append(args, "["+strings.Join(cur, "; ")+"]")
	p := t.fresh()
	var tmps []string
	for range lhs {
		tmps = append(tmps, t.fresh())
	}
	*pre = append(*pre, opener{fmt.Sprintf("go_call (%s %s) (fun '(%s, %s) => ", fn.name, strings.Join(args, " "), p, strings.Join(tmps, ", ")), ")"})
	for i, pl := range places {
		t.store(pl, fmt.Sprintf("(nth %d %s 0%%Z)", i, p), pre)
	}
	for i, l := range lhs {
		t.store(l, tmps[i], pre)
	}
}

func objNames(objs []types.Object) []string {
	var out []string
	for _, o := range objs {
		out = append(out, o.Name())
	}
	return out
}

func (t *impTr) assignsObj(n ast.Node, o types.Object) bool {
	found := false
	ast.Inspect(n, func(m ast.Node) bool {
		check := func(e ast.Expr) {
			if id, ok := e.(*ast.Ident); ok && t.info.Uses[id] == o {
				found = true
			}
		}
		switch s := m.(type) {
		case *ast.AssignStmt:
			for _, l := range s.Lhs {
				check(l)
			}
		case *ast.IncDecStmt:
			check(s.X)
		}
		return true
	})
	return found
}

// ---- functions -------------------------------------------------------------------------

func (t *impTr) function(fd *ast.FuncDecl, coqName string) *impFn {
	t.names = map[types.Object]string{}
	t.tupleTys = map[string]string{}
	t.used = map[string]int{}
	t.tmp = 0
	t.fuel = false
	t.yield = nil
	t.fnName = fd.Name.Name
	var params []string
	t.stream = false
	t.openMode = false
	t.ioReader = nil
	t.nparams = 0
	t.recv = ""
	t.bufName = ""
	t.outName = ""
	// aliases of elements of value-pointer slices
	t.aliasOf = map[types.Object]ast.Expr{}
	t.aliasIdx = map[types.Object]string{}
	if len(t.valPtr) > 0 {
		ast.Inspect(fd, func(n ast.Node) bool {
			if as, ok := n.(*ast.AssignStmt); ok && len(as.Lhs) == 1 && len(as.Rhs) == 1 {
				if id, ok := as.Lhs[0].(*ast.Ident); ok {
					if ie, ok := as.Rhs[0].(*ast.IndexExpr); ok {
						if o := t.info.Defs[id]; o != nil && t.isValPtr(o.Type()) {
							if _, ok := ie.X.(*ast.Ident); !ok {
								t.fail(as, "alias of something other than a local slice")
							}
							t.aliasOf[o] = ie.X
						}
					}
				}
			}
			return true
		})
	}
	// does this function touch the heap at all?
	t.fnHeap = false
	if t.heapType != "" {
		ast.Inspect(fd, func(n ast.Node) bool {
			if e, ok := n.(ast.Expr); ok {
				if tv, ok := t.info.Types[e]; ok && tv.Type != nil {
					ty := tv.Type
					if sl, ok := ty.Underlying().(*types.Slice); ok {
						ty = sl.Elem()
					}
					if t.isHeapPtr(ty) {
						t.fnHeap = true
					}
				}
			}
			return true
		})
	}
	// pre-scan: recursion, float formatting
	t.self = t.info.Defs[fd.Name]
	t.calleeSty = "go_stream"
	t.oracle = false
	recursive := false
	ast.Inspect(fd.Body, func(n ast.Node) bool {
		if c, ok := n.(*ast.CallExpr); ok {
			o := t.calleeObj(c.Fun)
			if o == t.self {
				recursive = true
			}
			if o != nil && o.Pkg() != nil && o.Pkg().Path() == "fmt" && o.Name() == "Fprint" && t.floatAs != "" {
				t.oracle = true
			}
			if o != nil && o.Pkg() != nil && o.Pkg().Path() == "strconv" && (o.Name() == "FormatFloat" || o.Name() == "ParseFloat") && t.floatAs != "" {
				t.oracle = true
			}
			if fn, ok := t.fns[o]; ok && fn.oracle {
				t.oracle = true
			}
			if x := t.extFn(o); x != nil && x.oracle {
				t.oracle = true
			}
			if fn, ok := t.fns[o]; ok && fn.stream {
				t.calleeSty = fn.sty
			}
			if o != nil && o.Pkg() != nil && o.Pkg().Path() == "bufio" && o.Name() == "NewScanner" {
				t.calleeSty = "go_scanner"
			}
			if o != nil && o.Pkg() != nil && o.Pkg().Path() == "github.com/fluhus/gostuff/aio" && o.Name() == "Open" {
				t.openMode = true
			}
		}
		return true
	})
	t.selfFn = &impFn{name: coqName, fuel: recursive, oracle: t.oracle, buf: -1, out: -1, writer: -1}
	t.initVars = map[types.Object]bool{}
	var initOrder []types.Object
	if fd.Name.Name == "init" && fd.Recv == nil {
		ast.Inspect(fd.Body, func(n ast.Node) bool {
			var lhs []ast.Expr
			switch st := n.(type) {
			case *ast.AssignStmt:
				lhs = st.Lhs
			case *ast.IncDecStmt:
				lhs = []ast.Expr{st.X}
			case *ast.CallExpr:
				if id, ok := st.Fun.(*ast.Ident); ok && id.Name == "copy" && len(st.Args) == 2 {
					lhs = []ast.Expr{st.Args[0]}
				}
			}
			for _, e := range lhs {
				for {
					switch x := e.(type) {
					case *ast.IndexExpr:
						e = x.X
						continue
					case *ast.SliceExpr:
						e = x.X
						continue
					case *ast.SelectorExpr:
						e = x.X
						continue
					}
					break
				}
				if id, ok := e.(*ast.Ident); ok {
					if v, ok := t.info.Uses[id].(*types.Var); ok && v.Parent() == v.Pkg().Scope() && !t.initVars[v] {
						t.initVars[v] = true
						initOrder = append(initOrder, v)
					}
				}
			}
			return true
		})
	}
	if recursive {
		t.fuel = true
		t.fns[t.self] = t.selfFn
	}
	if t.openMode {
		// the file the function opens: None if it cannot be opened, else its content as a stream
		t.stream = true
		t.streamTy = t.calleeSty
		params = append(params, "(open__ : option "+t.streamTy+")")
	}
	addParam := func(n *ast.Ident) {
		o := t.info.Defs[n]
		if o.Type().String() == "io.Writer" {
			t.selfFn.writer = t.nparams
			t.nparams++
			return // the writer is the list of emitted chunks
		}
		defer func() { t.nparams++ }()
		if _, isFunc := o.Type().(*types.Signature); isFunc {
			return // the callback of a push iterator: its calls are the items
		}
		if o.Type().String() == "io.Reader" {
			// the reader is wrapped by newReader / bufio.NewReader: the threaded stream state
			t.stream = true
			t.streamTy = t.calleeSty
			t.ioReader = o
			params = append(params, "(rd__ : "+t.streamTy+")")
			return
		}
		if isBuilder(o.Type()) {
			t.bufName = t.nameOf(o)
			t.selfFn.buf = len(params)
		}
		if sl, ok := o.Type().Underlying().(*types.Slice); ok {
			if _, ok := sl.Elem().Underlying().(*types.Pointer); ok {
				// p ...*int: the pointed-to values; `*p[i] = n` updates the list, which is returned
				t.outName = t.nameOf(o)
				t.selfFn.out = len(params)
			}
		}
		if p, ok := o.Type().Underlying().(*types.Pointer); ok {
			if st, ok := p.Elem().Underlying().(*types.Struct); ok {
				for i := 0; i < st.NumFields(); i++ {
					if strings.HasSuffix(st.Field(i).Type().String(), "bufio.Reader") {
						// a reader object: its *bufio.Reader is the threaded stream state rd__
						t.stream = true
						t.streamTy = "go_stream"
						params = append(params, "(rd__ : go_stream)")
						if st.NumFields() > 1 {
							// its other fields are a record that is threaded and returned too
							t.recv = t.nameOf(o)
							params = append(params, fmt.Sprintf("(%s : %s)", t.recv, t.ty(o.Type())))
						}
						return
					}
					if strings.HasSuffix(st.Field(i).Type().String(), "bufio.Scanner") {
						t.stream = true
						t.streamTy = "go_scanner"
						params = append(params, "(rd__ : go_scanner)")
						return
					}
				}
			}
		}
		params = append(params, fmt.Sprintf("(%s : %s)", t.nameOf(o), t.ty(o.Type())))
	}
	if fd.Recv != nil {
		for _, n := range fd.Recv.List[0].Names {
			addParam(n)
		}
	}
	for _, p := range fd.Type.Params.List {
		for _, n := range p.Names {
			addParam(n)
		}
	}
	sig := t.info.Defs[fd.Name].Type().(*types.Signature)
	t.results = sig.Results()
	t.writer = nil
	for i := 0; i < sig.Params().Len(); i++ {
		if sig.Params().At(i).Type().String() == "io.Writer" {
			t.writer = sig.Params().At(i)
		}
	}
	body := fd.Body.List
	var rt, text string
	// an iterator constructor:  return func(yield func(T) bool) { ... }
	if len(body) == 1 {
		if ret, ok := body[0].(*ast.ReturnStmt); ok && len(ret.Results) == 1 {
			if fl, ok := ret.Results[0].(*ast.FuncLit); ok && len(fl.Type.Params.List) == 1 && len(fl.Type.Params.List[0].Names) == 1 {
				y := t.info.Defs[fl.Type.Params.List[0].Names[0]]
				if ys, ok := y.Type().(*types.Signature); ok && (ys.Params().Len() == 1 || ys.Params().Len() == 2) {
					t.yield = y
					rt = "(list " + t.ty(ys.Params()) + ")"
					if ys.Params().Len() == 1 {
						rt = "(list " + t.ty(ys.Params().At(0).Type()) + ")"
					}
					ret := "Ret out__"
					outTy := rt
					if t.fnHeap { // the items are addresses: the final heap comes with them
						ret = "Ret (h__, out__)"
						rt = "(" + t.heapTy() + " * " + rt + ")"
					}
					if t.stream {
						ret = "Ret (rd__, " + strings.TrimPrefix(ret, "Ret ") + ")"
						rt = "(" + t.streamTy + " * " + rt + ")"
					}
					t.retWrap = func(string) string { return ret }
					text = "let out__ : " + outTy + " := [] in " + t.block(fl.Body.List, ret, nil)
					if !t.stream {
						text = "let out__ := [] in " + t.block(fl.Body.List, ret, nil)
					}
				}
			}
		}
	}
	// a push iterator: a parameter  f func(T) bool  that is called with every item
	if t.yield == nil {
		for i := 0; i < sig.Params().Len(); i++ {
			if ys, ok := sig.Params().At(i).Type().(*types.Signature); ok && ys.Params().Len() == 1 && ys.Results().Len() == 1 && sig.Results().Len() == 0 {
				t.yield = sig.Params().At(i)
				rt = "(list " + t.ty(ys.Params().At(0).Type()) + ")"
				ret := "Ret out__"
				if t.fnHeap {
					ret = "Ret (h__, out__)"
					rt = "(" + t.heapTy() + " * " + rt + ")"
				}
				t.retWrap = func(string) string { return ret }
				text = "let out__ := [] in " + t.block(body, ret, nil)
			}
		}
	}
	// a wrapper that returns another translated iterator:  return n.traverse(true)
	wrapper := false
	if len(body) == 1 && t.yield == nil {
		if ret, ok := body[0].(*ast.ReturnStmt); ok && len(ret.Results) == 1 {
			if call, ok := ret.Results[0].(*ast.CallExpr); ok {
				if fn, ok := t.fns[t.calleeObj(call.Fun)]; ok && fn.iter && !fn.stream && !fn.heap {
					var pre []opener
					args := []string{}
					if t.stopMode {
						args = append(args, "stop__")
					}
					if fn.fuel {
						t.fuel = true
						args = append(args, "fuel")
					}
					if fn.oracle {
						t.oracle = true
						args = append(args, "o")
					}
					if sel, ok := call.Fun.(*ast.SelectorExpr); ok {
						if sl, ok := t.info.Selections[sel]; ok && sl.Kind() == types.MethodVal {
							args = append(args, t.ex(sel.X, &pre))
						}
					}
					for _, a := range call.Args {
						args = append(args, t.ex(a, &pre))
					}
					name := fn.name
					if t.stopMode {
						name += "_stop"
					}
					text = wrapOpeners(pre, name+" "+strings.Join(args, " "))
					ys := sig.Results().At(0).Type().Underlying().(*types.Signature).Params().At(0).Type().(*types.Signature)
					rt = "(list " + t.ty(ys.Params().At(0).Type()) + ")"
					wrapper = true
				}
			}
		}
	}
	if t.yield == nil && !wrapper {
		// named results are declared with their zero values
		var pre []opener
		var resNames []string
		if sig.Results().Len() > 0 && sig.Results().At(0).Name() != "" {
			for i := 0; i < sig.Results().Len(); i++ {
				r := sig.Results().At(i)
				pre = append(pre, opener{fmt.Sprintf("let %s : %s := %s in ", t.nameOf(r), t.ty(r.Type()), t.zero(r.Type())), ""})
				resNames = append(resNames, t.nameOf(r))
			}
		}
		t.inResTy = true
		rt = t.ty(sig.Results())
		t.inResTy = false
		end := "Panics" // falling off the end of a function with results does not compile
		if sig.Results().Len() == 0 {
			end = "Ret tt"
		}
		if t.writer != nil {
			// a Write method: the result is (the chunks written, the returned values)
			rt = "(list (list N) * " + rt + ")"
			pre = append(pre, opener{"let out__ : list (list N) := [] in ", ""})
			inner := func(v string) string {
				if v == "" {
					return "tt"
				}
				return v
			}
			t.retWrap = func(v string) string { return "Ret (out__, " + inner(v) + ")" }
			if sig.Results().Len() == 0 {
				end = "Ret (out__, tt)"
			}
			text = wrapOpeners(pre, t.block(body, end, nil))
		}
	}
	if t.yield == nil && t.writer == nil && !wrapper {
		var pre []opener
		var resNames []string
		if sig.Results().Len() > 0 && sig.Results().At(0).Name() != "" {
			for i := 0; i < sig.Results().Len(); i++ {
				r := sig.Results().At(i)
				pre = append(pre, opener{fmt.Sprintf("let %s : %s := %s in ", t.nameOf(r), t.ty(r.Type()), t.zero(r.Type())), ""})
				resNames = append(resNames, t.nameOf(r))
			}
		}
		end := "Panics"
		if sig.Results().Len() == 0 {
			end = "Ret tt"
		}
		t.retWrap = func(v string) string {
			if v == "" {
				if len(resNames) > 0 {
					return "Ret (" + strings.Join(resNames, ", ") + ")"
				}
				return "Ret tt"
			}
			return "Ret (" + v + ")"
		}
		if len(initOrder) > 0 {
			// an init function: the package-level variables it assigns start from their declared
			// initialisers (or zero values) and are its results
			var names, tys []string
			for _, v := range initOrder {
				names = append(names, t.nameOf(v))
				tys = append(tys, t.ty(v.Type()))
				val := t.zero(v.Type())
				for _, f := range t.files {
					for _, d := range f.Decls {
						if gd, ok := d.(*ast.GenDecl); ok && gd.Tok == token.VAR {
							for _, sp := range gd.Specs {
								vs := sp.(*ast.ValueSpec)
								for i, n := range vs.Names {
									if t.info.Defs[n] == v && i < len(vs.Values) {
										val = t.ex(vs.Values[i], &pre)
									}
								}
							}
						}
					}
				}
				pre = append(pre, opener{fmt.Sprintf("let %s : %s := %s in ", t.nameOf(v), t.ty(v.Type()), val), ""})
			}
			end = "Ret (" + strings.Join(names, ", ") + ")"
			t.retWrap = func(string) string { return end }
			rt = "(" + strings.Join(tys, " * ") + ")"
		}
		if t.bufName != "" && sig.Results().Len() == 0 {
			// a function that writes into its *bytes.Buffer parameter: the result is the buffer
			end = "Ret " + t.bufName
			t.retWrap = func(string) string { return "Ret " + t.bufName }
			rt = "(list N)"
		}
		if t.fnHeap {
			inner := t.retWrap
			t.retWrap = func(v string) string {
				return "Ret (h__, " + strings.TrimPrefix(inner(v), "Ret ") + ")"
			}
			if end == "Ret tt" {
				end = "Ret (h__, tt)"
			}
			rt = "(" + t.heapTy() + " * " + rt + ")"
		}
		if t.outName != "" {
			inner := t.retWrap
			on := t.outName
			t.retWrap = func(v string) string {
				return "Ret (" + on + ", " + strings.TrimPrefix(inner(v), "Ret ") + ")"
			}
			rt = "((list Z) * " + rt + ")"
		}
		if t.stream {
			inner := t.retWrap
			t.retWrap = func(v string) string {
				r := inner(v) // "Ret (...)" or "Ret tt"
				if t.recv != "" {
					return "Ret (rd__, " + t.recv + ", " + strings.TrimPrefix(r, "Ret ") + ")"
				}
				return "Ret (rd__, " + strings.TrimPrefix(r, "Ret ") + ")"
			}
			if t.recv != "" {
				rt = "(" + t.streamTy + " * imp_" + t.pkg + "_reader * " + rt + ")"
			} else {
				rt = "(" + t.streamTy + " * " + rt + ")"
			}
		}
		text = wrapOpeners(pre, t.block(body, end, nil))
	}
	fn := t.selfFn
	fn.fuel = t.fuel
	fn.stream = t.stream
	fn.heap = t.fnHeap
	fn.sty = t.streamTy
	fn.iter = t.yield != nil || wrapper
	fn.recv = t.recv != ""
	fuel := ""
	if t.stopMode {
		fuel = "(stop__ : nat) "
	}
	if fn.fuel {
		fuel += "(fuel : nat) "
	}
	if fn.oracle {
		fuel += "(o : foracle) "
	}
	if t.fnHeap {
		fuel += "(h__ : " + t.heapTy() + ") "
	}
	if recursive {
		fmt.Fprintf(t.out, "Fixpoint %s %s%s {struct fuel} : res unit %s :=\n  match fuel with O => NoFuel | Datatypes.S fuel =>\n  %s\n  end.\n\n", coqName, fuel, strings.Join(params, " "), rt, text)
	} else {
		fmt.Fprintf(t.out, "Definition %s %s%s : res unit %s :=\n  %s.\n\n", coqName, fuel, strings.Join(params, " "), rt, text)
	}
	return fn
}

func genImp(repo, out string) {
	defer func() {
		if os.Getenv("VERIF_DEBUG") != "" {
			return
		}
		if r := recover(); r != nil {
			fmt.Fprintln(os.Stderr, "gen-imp: cannot translate:", r)
			os.Exit(1)
		}
	}()
	cwd, _ := os.Getwd()
	if !strings.HasPrefix(out, "/") {
		out = cwd + "/" + out
	}
	if err := os.Chdir(repo); err != nil { // the source importer resolves module imports from here
		panic(err)
	}
	defer os.Chdir(cwd)
	sb := &strings.Builder{}
	sb.WriteString("(* GENERATED by `harness gen-imp` from the Go source in /repo. Do not edit. *)\n")
	sb.WriteString("From Coq Require Import ZArith NArith Bool List.\nImport ListNotations.\nFrom Bio Require Import Base.\nFrom Bio.Model Require Import GoSem GoGlobals GoLib.\n\n")
	for _, want := range impWants {
		fset := token.NewFileSet()
		pkgs, err := parser.ParseDir(fset, repo+"/"+want.dir, func(fi os.FileInfo) bool { return !strings.HasSuffix(fi.Name(), "_test.go") }, 0)
		if err != nil {
			panic(err)
		}
		var files []*ast.File
		for _, p := range pkgs {
			names := make([]string, 0, len(p.Files))
			for n := range p.Files {
				names = append(names, n)
			}
			sort.Strings(names)
			for _, n := range names {
				files = append(files, p.Files[n])
			}
		}
		info := &types.Info{Types: map[ast.Expr]types.TypeAndValue{}, Defs: map[*ast.Ident]types.Object{},
			Uses: map[*ast.Ident]types.Object{}, Selections: map[*ast.SelectorExpr]*types.Selection{},
			Implicits: map[ast.Node]types.Object{}}
		conf := types.Config{Importer: importer.ForCompiler(fset, "source", nil)}
		if _, err := conf.Check(want.pkg, fset, files, info); err != nil {
			panic(fmt.Sprintf("type-checking %s: %v", want.dir, err))
		}
		t := &impTr{pkg: want.pkg, info: info, fset: fset, fns: map[types.Object]*impFn{}, globals: want.globals,
			records: map[string]bool{}, join: want.join, floatAs: want.floatAs, errZ: want.errZ, heapType: want.heap, heapRec: want.heapRec, optRes: want.optRes, optPtr: want.optPtr, ext: want.ext, extRecs: want.extRecs, valPtr: want.valPtr}
		fmt.Fprintf(sb, "(* ---- package %s ---- *)\n", want.dir)
		for _, fname := range want.funcs {
			if strings.HasPrefix(fname, "var:") { // the initialiser of a package-level variable, as a constant
				vn := strings.TrimPrefix(fname, "var:")
				found := false
				for _, f := range files {
					for _, d := range f.Decls {
						gd, ok := d.(*ast.GenDecl)
						if !ok || gd.Tok != token.VAR {
							continue
						}
						for _, sp := range gd.Specs {
							vs := sp.(*ast.ValueSpec)
							for i, n := range vs.Names {
								if n.Name != vn || i >= len(vs.Values) {
									continue
								}
								t.names = map[types.Object]string{}
								t.tupleTys = map[string]string{}
								t.used = map[string]int{}
								t.fnName = fname
								body := &strings.Builder{}
								t.out = body
								var pre []opener
								x := t.ex(vs.Values[i], &pre)
								if len(pre) > 0 {
									t.fail(vs, "a package-level initialiser that can panic")
								}
								fmt.Fprintf(body, "Definition imp_%s_var_%s : %s :=\n  %s.\n\n", want.pkg, vn, t.ty(info.Defs[n].Type()), x)
								sb.WriteString(body.String())
								found = true
							}
						}
					}
				}
				if !found {
					panic("variable not found: " + want.dir + " " + vn)
				}
				continue
			}
			recv, name := "", fname
			initFile, initIdx := "", -1
			if strings.HasPrefix(fname, "init@") { // init@file.go#k : the k-th init function of that file
				rest := strings.TrimPrefix(fname, "init@")
				h := strings.IndexByte(rest, '#')
				initFile = rest[:h]
				fmt.Sscanf(rest[h+1:], "%d", &initIdx)
				name = "init"
			} else if i := strings.IndexByte(fname, '.'); i >= 0 {
				recv, name = fname[:i], fname[i+1:]
			}
			var decl *ast.FuncDecl
			seenInit := 0
			for _, f := range files {
				for _, d := range f.Decls {
					fd, ok := d.(*ast.FuncDecl)
					if !ok || fd.Name.Name != name {
						continue
					}
					if initFile != "" {
						if !strings.HasSuffix(fset.Position(fd.Pos()).Filename, "/"+initFile) {
							continue
						}
						if seenInit == initIdx {
							decl = fd
						}
						seenInit++
						continue
					}
					r := ""
					if fd.Recv != nil {
						rt := fd.Recv.List[0].Type
						if st, ok := rt.(*ast.StarExpr); ok {
							rt = st.X
						}
						if id, ok := rt.(*ast.Ident); ok {
							r = id.Name
						}
					}
					if r == recv {
						decl = fd
					}
				}
			}
			if decl == nil {
				panic("function not found: " + want.dir + " " + fname)
			}
			body := &strings.Builder{}
			t.out = body
			coqName := "imp_" + want.pkg + "_" + strings.NewReplacer(".", "_", "@", "_", "#", "_").Replace(strings.ReplaceAll(fname, ".go", ""))
			t.files = files
			fn := t.function(decl, coqName)
			t.fns[info.Defs[decl.Name]] = fn
			if fn.iter && want.stops {
				// the same iterator for a consumer that stops after stop__ items
				t.stopMode = true
				t.function(decl, coqName+"_stop")
				t.stopMode = false
				t.fns[info.Defs[decl.Name]] = fn
			}
			sb.WriteString(body.String())
		}
	}
	writeIfChanged(out, sb.String())
}

// fmtChunk builds the bytes that fmt.Fprintf(w, format, args...) writes: for a literal
// format, literal text as bytes, %s / %v of a string or []byte as the bytes, %d / %v of an
// integer as Base.itoa; for a format held in a string variable and one integer argument,
// GoSem.go_fmt1 (the first %v is replaced by the number).
func (t *impTr) fmtChunk(call *ast.CallExpr, pre *[]opener) string {
	args := call.Args[2:]
	argText := func(a ast.Expr, verb byte) string {
		ty := t.typeOf(a)
		x := t.ex(a, pre)
		switch u := ty.Underlying().(type) {
		case *types.Basic:
			switch {
			case u.Info()&types.IsString != 0 && (verb == 's' || verb == 'v'):
				return x
			case u.Kind() == types.Uint8 && (verb == 'd' || verb == 'v'):
				return "itoa (Z.of_N " + x + ")"
			case u.Info()&types.IsInteger != 0 && (verb == 'd' || verb == 'v'):
				return "itoa " + x
			}
		case *types.Slice:
			if isByte(u.Elem()) && (verb == 's' || verb == 'v') {
				return x
			}
		}
		t.fail(a, "unsupported verb %%%c for %s", verb, ty)
		return ""
	}
	tv := t.info.Types[call.Args[1]]
	if tv.Value == nil {
		if len(args) != 1 {
			t.fail(call, "computed format with %d arguments", len(args))
		}
		f := t.ex(call.Args[1], pre)
		return fmt.Sprintf("go_fmt1 %s (%s)", f, argText(args[0], 'v'))
	}
	format := constant.StringVal(tv.Value)
	var pieces []string
	var lits []byte
	flush := func() {
		if len(lits) > 0 {
			nums := make([]string, len(lits))
			for i, b := range lits {
				nums[i] = fmt.Sprintf("%d%%N", b)
			}
			pieces = append(pieces, "["+strings.Join(nums, "; ")+"]")
			lits = nil
		}
	}
	ai := 0
	for i := 0; i < len(format); i++ {
		if format[i] != '%' {
			lits = append(lits, format[i])
			continue
		}
		i++
		if i >= len(format) {
			t.fail(call, "format ends with %%")
		}
		if format[i] == '%' {
			lits = append(lits, '%')
			continue
		}
		if ai >= len(args) {
			t.fail(call, "too few arguments for %q", format)
		}
		flush()
		pieces = append(pieces, argText(args[ai], format[i]))
		ai++
	}
	flush()
	if ai != len(args) {
		t.fail(call, "too many arguments for %q", format)
	}
	if len(pieces) == 0 {
		return "[]"
	}
	return strings.Join(pieces, " ++ ")
}
