package main

// Package formats/fastq: C02 (FASTQ records survive write -> read; malformed
// records are rejected). Kinds mirror coq/Corr/FastqCorr.v.
//
//	fastq_write     [name seq quals]         -> [[chunk ...] marshal]   marshal = [i0 bytes] | [i2]
//	fastq_decode    [bytes term]             -> [item ...]              item = [i0 [name seq quals]] | [i1]
//	fastq_roundtrip [[[name seq quals] ...] mode] -> [file [item ...]]  (mode: how the file is written; not observable)
//	fastq_corrupt   [[[name seq quals] ...] k bytes] -> [item ...]      (Reader on bytes, EOF-terminated; the record
//	                                                   list and k are for the oracle only)
//
// All identifiers of this file carry the prefix fq (one Go package for all families).

import (
	"bytes"
	"fmt"
	"io"
	"slices"

	"github.com/fluhus/biostuff/formats/fastq"
)

// ---- running the implementation ------------------------------------------------

type fqChunkRecorder struct{ chunks [][]byte }

func (w *fqChunkRecorder) Write(p []byte) (int, error) {
	w.chunks = append(w.chunks, slices.Clone(p))
	return len(p), nil
}

func fqRecVal(name, seq, quals []byte) Val { return L(B(name), B(seq), B(quals)) }

func fqRecsVal(recs []*fastq.Fastq) Val {
	v := Val{K: 'l'}
	for _, r := range recs {
		v.L = append(v.L, fqRecVal(r.Name, r.Sequence, r.Quals))
	}
	return v
}

func fqRecsOf(v Val) []*fastq.Fastq {
	var recs []*fastq.Fastq
	for _, e := range v.List() {
		recs = append(recs, &fastq.Fastq{Name: e.At(0).Bytes(), Sequence: e.At(1).Bytes(), Quals: e.At(2).Bytes()})
	}
	return recs
}

// fqItems runs the iterator to its end (at most limit items) and only then
// encodes what it yielded, so that a reader handing out slices of its scan
// buffer would be seen.
func fqItems(r io.Reader, limit int) Val {
	type it struct {
		fq  *fastq.Fastq
		err error
	}
	var got []it
	for fq, err := range fastq.Reader(r) {
		got = append(got, it{fq, err})
		if len(got) >= limit {
			break
		}
	}
	v := Val{K: 'l'}
	for _, g := range got {
		switch {
		case g.err != nil && g.fq != nil:
			v.L = append(v.L, L(I(3), S("record together with an error")))
		case g.err != nil:
			v.L = append(v.L, L(I(1)))
		case g.fq == nil:
			v.L = append(v.L, L(I(3), S("nil record without error")))
		default:
			v.L = append(v.L, L(I(0), fqRecVal(g.fq.Name, g.fq.Sequence, g.fq.Quals)))
		}
	}
	return v
}

// fqDecodeImpl runs fastq.Reader on a stream that delivers data and then ends
// with EOF or with an error. The result must not depend on how the bytes are
// delivered nor on whether the reader fails once or forever.
func fqDecodeImpl(data []byte, termErr bool) Val {
	limit := len(data) + 8
	var runs []Val
	if termErr {
		runs = append(runs, fqItems(&faultReader{data: slices.Clone(data), forever: false}, limit))
		runs = append(runs, fqItems(&faultReader{data: slices.Clone(data), forever: true}, limit))
		if len(data) <= 2048 {
			runs = append(runs, fqItems(&faultReader{data: slices.Clone(data), forever: true, chunk: 1}, limit))
			runs = append(runs, fqItems(&faultReader{data: slices.Clone(data), forever: false, chunk: 3}, limit))
		}
	} else {
		runs = append(runs, fqItems(bytes.NewReader(data), limit))
		if len(data) <= 2048 {
			ones := make([]int, len(data))
			for i := range ones {
				ones[i] = 1
			}
			runs = append(runs, fqItems(&chunkReader{data: slices.Clone(data), chunks: ones}, limit))
			runs = append(runs, fqItems(&chunkReader{data: slices.Clone(data), withEOF: true}, limit))
		}
	}
	s0 := runs[0].String()
	for i, r := range runs[1:] {
		if r.String() != s0 {
			return L(I(3), S(fmt.Sprintf("delivery %d yields different items", i+1)))
		}
	}
	return runs[0]
}

// ---- independent reference -----------------------------------------------------

func fqFieldOK(s []byte) bool { return !bytes.ContainsAny(s, "\r\n") }

func fqRecOK(r *fastq.Fastq) bool {
	return fqFieldOK(r.Name) && fqFieldOK(r.Sequence) && fqFieldOK(r.Quals) && len(r.Sequence) == len(r.Quals)
}

// fqRefText is the four-line layout, written without the library.
func fqRefText(r *fastq.Fastq) []byte {
	var b []byte
	b = append(b, '@')
	b = append(b, r.Name...)
	b = append(b, '\n')
	b = append(b, r.Sequence...)
	b = append(b, "\n+\n"...)
	b = append(b, r.Quals...)
	b = append(b, '\n')
	return b
}

// fqRefDecode is a reference reader for arbitrary bytes: lines are the pieces
// between LFs (a final unterminated non-empty piece counts), one trailing CR is
// not part of a line; records are groups of four lines.
func fqRefDecode(data []byte, termErr bool) Val {
	var lines [][]byte
	for len(data) > 0 {
		i := bytes.IndexByte(data, '\n')
		var ln []byte
		if i < 0 {
			ln, data = data, nil
		} else {
			ln, data = data[:i], data[i+1:]
		}
		if n := len(ln); n > 0 && ln[n-1] == '\r' {
			ln = ln[:n-1]
		}
		lines = append(lines, ln)
	}
	out := Val{K: 'l'}
	bad := func() Val { out.L = append(out.L, L(I(1))); return out }
	for {
		if len(lines) == 0 {
			if termErr {
				return bad()
			}
			return out
		}
		if len(lines[0]) == 0 || lines[0][0] != '@' {
			return bad()
		}
		if len(lines) < 3 {
			return bad()
		}
		if len(lines[2]) == 0 || lines[2][0] != '+' {
			return bad()
		}
		if len(lines) < 4 || len(lines[3]) != len(lines[1]) {
			return bad()
		}
		out.L = append(out.L, L(I(0), fqRecVal(lines[0][1:], lines[1], lines[3])))
		lines = lines[4:]
	}
}

// fqExpect: the items "these records, then (optionally) one error".
func fqExpect(recs []*fastq.Fastq, thenErr bool) Val {
	v := Val{K: 'l'}
	for _, r := range recs {
		v.L = append(v.L, L(I(0), fqRecVal(r.Name, r.Sequence, r.Quals)))
	}
	if thenErr {
		v.L = append(v.L, L(I(1)))
	}
	return v
}

func fqDescribeItems(v Val) string {
	if v.K != 'l' {
		return v.String()
	}
	s := ""
	for _, e := range v.L {
		switch {
		case e.K == 'l' && len(e.L) == 2 && e.L[0].I == 0:
			s += "R"
		case e.K == 'l' && len(e.L) == 1 && e.L[0].I == 1:
			s += "E"
		default:
			s += "?"
		}
	}
	return s
}

// ---- kinds -----------------------------------------------------------------------

var kFastqWrite = register(&Kind{Name: "fastq_write",
	Project: func(out Val) Val { return L(joinChunks(out.At(0)), out.At(1)) },
	Impl: func(in Val) Val {
		n0, s0, q0 := in.At(0).Bytes(), in.At(1).Bytes(), in.At(2).Bytes()
		// the three fields are carved from one buffer (spare capacity over the neighbours)
		carved := append(append(append(append([]byte{}, n0...), s0...), q0...), "GUARDguard"...)
		carved0 := slices.Clone(carved)
		f := &fastq.Fastq{Name: carved[:len(n0)], Sequence: carved[len(n0) : len(n0)+len(s0)], Quals: carved[len(n0)+len(s0) : len(n0)+len(s0)+len(q0)]}
		orig := fqRecVal(f.Name, f.Sequence, f.Quals).String()
		poisonWriters(func(w io.Writer) error {
			return (&fastq.Fastq{Name: []byte("poison"), Sequence: []byte("NNNN"), Quals: []byte("!!!!")}).Write(w)
		})
		w := &fqChunkRecorder{}
		if err := f.Write(w); err != nil {
			return L(I(3), S("Write to a writer that never fails returned an error"))
		}
		var m Val
		func() {
			defer func() {
				if recover() != nil {
					m = vPanic
				}
			}()
			b, err := f.MarshalText()
			if err != nil {
				m = vErr
			} else if !marshalKeeps(b, func() {
				(&fastq.Fastq{Name: []byte("another record"), Sequence: bytes.Repeat([]byte("T"), 200), Quals: bytes.Repeat([]byte("#"), 200)}).MarshalText()
			}) {
				m = vMarshalAliased
			} else {
				m = vOk(B(b))
			}
		}()
		if fqRecVal(f.Name, f.Sequence, f.Quals).String() != orig || !bytes.Equal(carved, carved0) {
			return L(I(3), S("record (or memory next to its fields) modified by Write/MarshalText"))
		}
		return L(BL(w.chunks), m)
	},
	Oracle: func(in, out Val) string {
		f := &fastq.Fastq{Name: in.At(0).Bytes(), Sequence: in.At(1).Bytes(), Quals: in.At(2).Bytes()}
		if out.K != 'l' || len(out.L) != 2 || out.L[0].K != 'l' {
			return "unexpected result: " + clip(out.String())
		}
		want := fqRefText(f)
		written := bytes.Join(out.At(0).BytesList(), nil)
		if !bytes.Equal(written, want) {
			return "Write does not produce '@'name LF seq LF '+' LF quals LF"
		}
		if !isOk(out.At(1)) {
			return "MarshalText did not succeed: " + clip(out.At(1).String())
		}
		if !bytes.Equal(out.At(1).At(1).Bytes(), want) {
			return "MarshalText differs from the four-line layout"
		}
		if !fqRecOK(f) {
			return "" // outside the domain of the round trip
		}
		if n := bytes.Count(written, []byte{'\n'}); n != 4 {
			return fmt.Sprintf("record written as %d lines, want 4", n)
		}
		ls := bytes.Split(written, []byte{'\n'})
		if len(ls) != 5 || len(ls[4]) != 0 || !bytes.Equal(ls[0][1:], f.Name) || ls[0][0] != '@' ||
			!bytes.Equal(ls[1], f.Sequence) || string(ls[2]) != "+" || !bytes.Equal(ls[3], f.Quals) {
			return "the four lines are not '@name', sequence, '+', qualities"
		}
		back := fqItems(bytes.NewReader(written), 8)
		if back.String() != fqExpect([]*fastq.Fastq{f}, false).String() {
			return "reading the written record back gives " + fqDescribeItems(back) + ", want the record"
		}
		return ""
	}})

var kFastqDecode = register(&Kind{Name: "fastq_decode",
	Impl: func(in Val) Val { return fqDecodeImpl(in.At(0).Bytes(), in.At(1).Int() == 1) },
	Oracle: func(in, out Val) string {
		data, termErr := in.At(0).Bytes(), in.At(1).Int() == 1
		if out.K != 'l' {
			return "unexpected result: " + clip(out.String())
		}
		for i, e := range out.L {
			if e.K == 'l' && len(e.L) == 2 && e.L[0].I == 3 {
				return e.L[1].Str()
			}
			if e.K == 'l' && len(e.L) == 1 && e.L[0].I == 1 && i != len(out.L)-1 {
				return "iteration continued after an error item"
			}
			if e.K == 'l' && len(e.L) == 2 && e.L[0].I == 0 {
				if len(e.L[1].At(1).Bytes()) != len(e.L[1].At(2).Bytes()) {
					return "yielded a record whose qualities and sequence differ in length"
				}
			}
		}
		if len(out.L) == 2 && out.L[0].K == 'i' && out.L[0].I == 3 {
			return out.L[1].Str()
		}
		want := fqRefDecode(data, termErr)
		if out.String() != want.String() {
			return "items " + fqDescribeItems(out) + " differ from the reference reader's " + fqDescribeItems(want)
		}
		if termErr && (len(out.L) == 0 || len(out.L[len(out.L)-1].L) != 1) {
			return "stream ended with an error but the iteration ended without one"
		}
		return ""
	}})

func fqRoundtripImpl(in Val) Val {
	recs := fqRecsOf(in.At(0))
	mode := in.At(1).Int()
	var buf bytes.Buffer
	for i, r := range recs {
		useMarshal := mode == 1 || (mode == 2 && i%2 == 1)
		if useMarshal {
			b, err := r.MarshalText()
			if err != nil {
				return L(I(3), S("MarshalText returned an error"))
			}
			buf.Write(b)
		} else if err := r.Write(&buf); err != nil {
			return L(I(3), S("Write returned an error"))
		}
	}
	file := slices.Clone(buf.Bytes())
	return L(B(file), fqItems(bytes.NewReader(file), len(recs)+8))
}

func fqRoundtripOracle(in, out Val) string {
	recs := fqRecsOf(in.At(0))
	for _, r := range recs {
		if !fqRecOK(r) {
			return "" // outside the domain
		}
	}
	if out.K != 'l' || len(out.L) != 2 || out.L[0].K != 'x' {
		return "unexpected result: " + clip(out.String())
	}
	file := out.At(0).Bytes()
	var want []byte
	for _, r := range recs {
		want = append(want, fqRefText(r)...)
	}
	if !bytes.Equal(file, want) {
		return "written file is not the concatenation of the four-line records"
	}
	if n := bytes.Count(file, []byte{'\n'}); n != 4*len(recs) {
		return fmt.Sprintf("%d records written as %d lines", len(recs), n)
	}
	if out.At(1).String() != fqExpect(recs, false).String() {
		got := out.At(1)
		msg := fmt.Sprintf("read back %s, want %d records", fqDescribeItems(got), len(recs))
		for i, r := range recs {
			if i >= len(got.L) || got.L[i].String() != L(I(0), fqRecVal(r.Name, r.Sequence, r.Quals)).String() {
				msg += fmt.Sprintf("; first difference at record %d (read length %d)", i, len(r.Sequence))
				break
			}
		}
		return msg
	}
	return ""
}

var kFastqRoundtrip = register(&Kind{Name: "fastq_roundtrip", Impl: fqRoundtripImpl, Oracle: fqRoundtripOracle})

var kFastqCorrupt = register(&Kind{Name: "fastq_corrupt",
	Impl: func(in Val) Val {
		data := in.At(2).Bytes()
		return fqItems(bytes.NewReader(data), len(data)+8)
	},
	Oracle: func(in, out Val) string {
		recs := fqRecsOf(in.At(0))
		k := in.At(1).Int()
		if k < 0 || k > len(recs) {
			return ""
		}
		want := fqExpect(recs[:k], true)
		if out.String() != want.String() {
			return fmt.Sprintf("corruption in record %d: got %s, want %d intact records then one error", k, fqDescribeItems(out), k)
		}
		return ""
	}})

// ---- generators ------------------------------------------------------------------

// bytes free of CR/LF
func (c *Ctx) fqField(n int, style int) []byte {
	b := make([]byte, n)
	for i := range b {
		switch style {
		case 0: // DNA / Phred-like
			b[i] = "ACGTN"[c.Intn(5)]
		case 1: // printable, heavy on the format's own characters
			b[i] = "@+@+ !IA~>;\t"[c.Intn(12)]
		default: // arbitrary bytes except CR/LF
			for {
				b[i] = byte(c.Intn(256))
				if b[i] != '\n' && b[i] != '\r' {
					break
				}
			}
		}
	}
	return b
}

var fqNamePool = []string{"", "@", "@@", "+", "r1", "@r1", "read 1/2", "+x", " ", "a\tb", ">fasta", "\x00", "\xff\xfe"}

func (c *Ctx) fqName() []byte {
	if c.Intn(2) == 0 {
		return []byte(fqNamePool[c.Intn(len(fqNamePool))])
	}
	return c.fqField(c.Choose(0, 1, 2, 5, 20), c.Intn(3))
}

// a record in the domain with the given read length
func (c *Ctx) fqRecord(n int) *fastq.Fastq {
	style := c.Intn(3)
	r := &fastq.Fastq{Name: c.fqName(), Sequence: c.fqField(n, style), Quals: c.fqField(n, (style+c.Intn(2))%3)}
	switch c.Intn(8) {
	case 0:
		if n >= 1 { // sequence / qualities that look like the other lines
			r.Sequence[0], r.Quals[0] = '+', '@'
		}
	case 1:
		if n >= 1 {
			r.Sequence[0], r.Quals[0] = '@', '+'
		}
	case 2:
		if n >= 1 {
			r.Sequence = append([]byte("+"), r.Sequence[1:]...)
			if n == 1 {
				r.Quals = []byte("+")
			}
		}
	}
	return r
}

func (c *Ctx) fqSmallLen() int { return c.Choose(0, 0, 1, 1, 2, 3, 4, 8, 30, 100, 151, 300) }

func fqStrataOf(recs []*fastq.Fastq) (strata []string, nontrivial bool) {
	strata = append(strata, fmt.Sprintf("records=%d", min(len(recs), 6)))
	seen := map[string]bool{}
	add := func(s string) {
		if !seen[s] {
			seen[s] = true
			strata = append(strata, s)
		}
	}
	for _, r := range recs {
		n := len(r.Sequence)
		switch {
		case n == 0:
			add("readlen=0")
		case n == 1:
			add("readlen=1")
		case n < 65535:
			add("readlen=2..65534")
		case n <= 65537:
			add(fmt.Sprintf("readlen=%d", n))
		default:
			add("readlen>65537")
		}
		if len(r.Name) > 0 && r.Name[0] == '@' {
			add("name-starts-with-@")
		}
		if string(r.Sequence) == "+" {
			add("sequence-is-+")
		}
		if n > 0 && (r.Quals[0] == '@' || r.Quals[0] == '+') {
			add("quals-start-with-@-or-+")
		}
		if n >= 1 {
			nontrivial = true
		}
	}
	return strata, nontrivial
}

func (c *Ctx) fqRunRoundtrip(recs []*fastq.Fastq, noModel bool, extra ...string) {
	strata, nt := fqStrataOf(recs)
	strata = append(strata, extra...)
	k := kFastqRoundtrip
	if noModel {
		cp := *kFastqRoundtrip
		cp.NoModel = true
		k = &cp
	}
	c.Run(k, L(fqRecsVal(recs), I(c.Intn(3))), nt, strata...)
}

// fqCorruptions enumerates every structural corruption of record i of the file
// made of recs: f(kind, line, corrupted file). Each yields an input whose first
// i records are intact and whose record i falls into one of the property's
// classes (no '@', no '+', lengths differ, cut before the fourth line).
func fqCorruptions(recs []*fastq.Fastq, i int, f func(kind string, line int, data []byte)) {
	var pre, post []byte
	for j, r := range recs {
		if j < i {
			pre = append(pre, fqRefText(r)...)
		} else if j > i {
			post = append(post, fqRefText(r)...)
		}
	}
	r := recs[i]
	l1 := append([]byte("@"), r.Name...)
	l2 := r.Sequence
	l3 := []byte("+")
	l4 := r.Quals
	build := func(lines ...[]byte) []byte {
		b := slices.Clone(pre)
		for _, l := range lines {
			b = append(b, l...)
			b = append(b, '\n')
		}
		return append(b, post...)
	}
	cat := func(a []byte, b ...byte) []byte { return append(slices.Clone(a), b...) }

	// line 1: the leading '@'
	if len(r.Name) == 0 || r.Name[0] != '@' {
		f("missing-@", 1, build(r.Name, l2, l3, l4)) // includes the empty line when the name is empty
	}
	f("@-replaced-by->", 1, build(cat([]byte(">"), r.Name...), l2, l3, l4))
	f("@-preceded-by-space", 1, build(cat([]byte(" "), l1...), l2, l3, l4))
	f("blank-line-before-record", 1, build(nil, l1, l2, l3, l4))
	// line 3: the '+' separator
	f("+-line-empty", 3, build(l1, l2, nil, l4))
	f("+-replaced-by--", 3, build(l1, l2, []byte("-"), l4))
	f("+-not-first", 3, build(l1, l2, []byte(" +"), l4))
	if len(l4) == 0 || l4[0] != '+' {
		f("+-line-dropped", 3, build(l1, l2, l4))
	}
	// lines 2 and 4: lengths differ
	f("sequence-one-longer", 2, build(l1, cat(l2, 'A'), l3, l4))
	f("qualities-one-longer", 4, build(l1, l2, l3, cat(l4, 'I')))
	if len(l2) > 0 {
		f("sequence-one-shorter", 2, build(l1, l2[1:], l3, l4))
		f("qualities-one-shorter", 4, build(l1, l2, l3, l4[:len(l4)-1]))
		f("qualities-empty", 4, build(l1, l2, l3, nil))
	}
	f("qualities-doubled", 4, build(l1, l2, l3, cat(cat(l4, l4...), 'I')))
	// cut short before the fourth line (the file ends there), with and without
	// the final newline
	cutAt := func(lines ...[]byte) (withNL, withoutNL []byte) {
		b := slices.Clone(pre)
		for _, l := range lines {
			b = append(b, l...)
			b = append(b, '\n')
		}
		return b, b[:len(b)-1]
	}
	a, b := cutAt(l1)
	f("cut-after-line-1", 1, a)
	f("cut-after-line-1-no-newline", 1, b)
	a, b = cutAt(l1, l2)
	f("cut-after-line-2", 2, a)
	f("cut-after-line-2-no-newline", 2, b)
	a, b = cutAt(l1, l2, l3)
	f("cut-after-line-3", 3, a)
	f("cut-after-line-3-no-newline", 3, b)
	if len(l4) > 0 {
		a, _ = cutAt(l1, l2, l3, l4[:len(l4)-1])
		f("cut-inside-line-4", 4, a[:len(a)-1])
	}
	// the fourth line of the last record missing although more text follows is
	// the "qualities of a different length" class unless the next header happens
	// to have the read's length; only the unambiguous case is generated.
	if i+1 < len(recs) && len(recs[i+1].Name)+1 != len(l2) {
		f("line-4-dropped", 4, build(l1, l2, l3))
	}
}

func fqCRLF(data []byte) []byte { return bytes.ReplaceAll(data, []byte("\n"), []byte("\r\n")) }

func init() {
	registerProp("C02", "round trip of generated record lists (0..6 records; read lengths 0, 1, small, 65535..65537 through the model, 1 MiB / 8 MiB on the implementation and oracle only; names starting with '@', sequences equal to '+', qualities starting with '@'/'+', arbitrary bytes except CR/LF); exhaustive: all records over the alphabet {@,+,A} with name and read length <= 2 and all pairs of those with length <= 1; every structural corruption (record index x line x kind) of 1..5-record files; all byte strings over {@,+,LF,CR,A} up to length L through the reader with both terminal conditions; random malformed streams (CRLF, lone CR, blank lines, missing final newline, byte edits, every fault offset of small files). non-trivial = at least one record with a non-empty read (round trip), every corruption case, every stream with at least one LF or '@' (decode)", func(c *Ctx) {
		// ---- single records through Write / MarshalText (any bytes, also outside the domain)
		n := c.Pick(400, 4000)
		for i := 0; i < n; i++ {
			var name, seq, quals []byte
			strat := "write/in-domain"
			switch c.Intn(4) {
			case 0: // arbitrary bytes incl. CR/LF, unequal lengths
				name, seq, quals = c.RandBytes(c.Intn(6), nil), c.RandBytes(c.Intn(9), []byte("AC\n\r+@")), c.RandBytes(c.Intn(9), []byte("I!\n\r+@"))
				strat = "write/any-bytes"
			default:
				r := c.fqRecord(c.fqSmallLen())
				name, seq, quals = r.Name, r.Sequence, r.Quals
			}
			c.Run(kFastqWrite, L(B(name), B(seq), B(quals)), len(seq) > 0, strat)
		}

		// ---- exhaustive small scope: all records over {@,+,A}
		alpha := []byte("@+A")
		var small []*fastq.Fastq
		allStrings(alpha, 2, func(nm []byte) {
			allStrings(alpha, 2, func(sq []byte) {
				allStrings(alpha, 2, func(ql []byte) {
					if len(ql) != len(sq) {
						return
					}
					r := &fastq.Fastq{Name: nm, Sequence: sq, Quals: ql}
					small = append(small, r)
					c.Run(kFastqWrite, L(B(nm), B(sq), B(ql)), len(sq) > 0, "write/exhaustive")
					c.fqRunRoundtrip([]*fastq.Fastq{r}, false, "roundtrip/exhaustive-1")
				})
			})
		})
		var tiny []*fastq.Fastq
		for _, r := range small {
			if len(r.Name) <= 1 && len(r.Sequence) <= 1 {
				tiny = append(tiny, r)
			}
		}
		for _, a := range tiny {
			for _, b := range tiny {
				c.fqRunRoundtrip([]*fastq.Fastq{a, b}, false, "roundtrip/exhaustive-2")
			}
		}
		c.Exhaustive("all records over {@,+,A} with name and read length <= 2 (single), all ordered pairs with lengths <= 1")
		c.fqRunRoundtrip(nil, false, "roundtrip/empty-list")

		// ---- random record lists
		n = c.Pick(1500, 20000)
		for i := 0; i < n; i++ {
			cnt := c.Choose(1, 1, 2, 3, 4, 5, 6)
			var recs []*fastq.Fastq
			for j := 0; j < cnt; j++ {
				recs = append(recs, c.fqRecord(c.fqSmallLen()))
			}
			c.fqRunRoundtrip(recs, false, "roundtrip/random")
		}
		// ---- long reads around the Scanner's default 64 KiB token ceiling
		for _, ln := range []int{65535, 65536, 65537} {
			reps := c.Pick(1, 3)
			for k := 0; k < reps; k++ {
				recs := []*fastq.Fastq{c.fqRecord(c.Choose(0, 1, 5)), c.fqRecord(ln), c.fqRecord(c.Choose(0, 1, 5))}
				c.fqRunRoundtrip(recs, false, "roundtrip/long-read")
			}
		}
		for _, ln := range []int{4095, 4096, 4097, 20000, 65534, 65535, 65536, 65537, 65538, 70000, 131072, 200000, 1 << 20, 1<<20 + 1, 2<<20 + 5} {
			recs := []*fastq.Fastq{c.fqRecord(3), c.fqRecord(ln), c.fqRecord(2)}
			c.fqRunRoundtrip(recs, true, "roundtrip/long-read-impl-only")
		}
		if c.Thorough() {
			for _, ln := range []int{3 << 20, 8 << 20} {
				recs := []*fastq.Fastq{c.fqRecord(ln), c.fqRecord(1)}
				c.fqRunRoundtrip(recs, true, "roundtrip/long-read-impl-only")
			}
		}

		// ---- structural corruptions, exhaustively per file
		files := c.Pick(60, 600)
		for fi := 0; fi < files; fi++ {
			cnt := 1 + fi%5
			var recs []*fastq.Fastq
			for j := 0; j < cnt; j++ {
				recs = append(recs, c.fqRecord(c.Choose(0, 1, 1, 2, 3, 8, 30)))
			}
			rv := fqRecsVal(recs)
			for i := range recs {
				fqCorruptions(recs, i, func(kind string, line int, data []byte) {
					c.Run(kFastqCorrupt, L(rv, I(i), B(data)), true,
						"corrupt/"+kind, fmt.Sprintf("corrupt/line=%d", line), fmt.Sprintf("corrupt/record=%d-of-%d", i+1, cnt))
				})
			}
		}
		c.Exhaustive("every (record index, line, corruption kind) of each generated 1..5-record file")

		// ---- the reader on arbitrary bytes
		maxLen := c.Pick(5, 7)
		allStrings([]byte("@+\n\rA"), maxLen, func(s []byte) {
			nt := bytes.ContainsAny(s, "\n@")
			c.Run(kFastqDecode, L(B(s), I(0)), nt, "decode/exhaustive", "decode/term=EOF")
			c.Run(kFastqDecode, L(B(s), I(1)), nt, "decode/exhaustive", "decode/term=error")
		})
		c.Exhaustive(fmt.Sprintf("all byte strings over {@,+,LF,CR,A} of length <= %d, both terminal conditions", maxLen))

		n = c.Pick(1500, 20000)
		for i := 0; i < n; i++ {
			cnt := c.Choose(1, 2, 3)
			var data []byte
			for j := 0; j < cnt; j++ {
				data = append(data, fqRefText(c.fqRecord(c.Choose(0, 1, 2, 5, 12)))...)
			}
			strat := "decode/valid-file"
			switch c.Intn(8) {
			case 0:
				data = fqCRLF(data)
				strat = "decode/crlf-file"
			case 1:
				data = data[:len(data)-1]
				strat = "decode/no-final-newline"
			case 2:
				p := c.Intn(len(data) + 1)
				data = slices.Insert(data, p, '\r')
				strat = "decode/lone-cr-inserted"
			case 3:
				p := c.Intn(len(data) + 1)
				data = slices.Insert(data, p, '\n')
				strat = "decode/newline-inserted"
			case 4:
				for e := 0; e <= c.Intn(3); e++ {
					data[c.Intn(len(data))] = "\n\r@+A"[c.Intn(5)]
				}
				strat = "decode/byte-edits"
			case 5:
				data = fqCRLF(data)
				data = data[:c.Intn(len(data)+1)]
				strat = "decode/crlf-file-cut"
			case 6:
				data = c.RandBytes(c.Intn(40), []byte("@+\n\n\r\rACGI"))
				strat = "decode/noise"
			}
			term := c.Intn(2)
			c.Run(kFastqDecode, L(B(data), I(term)), true, strat, fmt.Sprintf("decode/term=%d", term))
		}
		// every fault offset of a few small files
		for fi := 0; fi < c.Pick(6, 40); fi++ {
			var data []byte
			for j := 0; j < 1+fi%3; j++ {
				data = append(data, fqRefText(c.fqRecord(c.Choose(0, 1, 3, 6)))...)
			}
			if fi%2 == 1 {
				data = fqCRLF(data)
			}
			for k := 0; k <= len(data); k++ {
				c.Run(kFastqDecode, L(B(data[:k]), I(1)), true, "decode/every-fault-offset", "decode/term=error")
				c.Run(kFastqDecode, L(B(data[:k]), I(0)), true, "decode/every-cut-offset", "decode/term=EOF")
			}
		}
		c.Exhaustive("every cut / fault offset of the generated small files")
	})
}
