package main

// Package align: C08 (alignments are valid and score what they claim), C09
// (zero gap-open: optimal; Levenshtein; shipped matrices), C10 (non-zero
// gap-open: optimal -- known finding D7). Kinds mirror coq/Corr/AlignCorr.v.
//
//	align_global, align_global_v : [a b matrix] -> outcome [steps score]
//	align_local,  align_local_v  : [a b matrix] -> outcome [steps ai bi score]
//	align_shipped                : [name a b]   -> [global-outcome local-outcome]
//
// matrix = sorted list of [a b score]. The plain kinds carry the strict oracle
// (validity + optimality against an independent three-state DP, whatever the
// gap-open); the _v kinds carry validity + the bounds that hold of the
// single-state recurrence for every gap-open (linear-gap optimum <= score <=
// affine optimum). The implementation run and the model run are the same.

import (
	"bytes"
	"fmt"
	"math"
	"slices"
	"sort"

	"github.com/fluhus/biostuff/align"
)

const gapByte = 255

// imat is the oracle's own integer view of a case's matrix.
type imat map[[2]byte]int64

func decodeMatrix(v Val) (align.SubstitutionMatrix, imat) {
	sm := align.SubstitutionMatrix{}
	im := imat{}
	for _, e := range v.List() {
		k := [2]byte{byte(e.At(0).Int()), byte(e.At(1).Int())}
		s := e.At(2).Int()
		sm[k] = float64(s)
		im[k] = int64(s)
	}
	return sm, im
}

func matrixVal(m imat) Val {
	keys := make([][2]byte, 0, len(m))
	for k := range m {
		keys = append(keys, k)
	}
	sort.Slice(keys, func(i, j int) bool {
		if keys[i][0] != keys[j][0] {
			return keys[i][0] < keys[j][0]
		}
		return keys[i][1] < keys[j][1]
	})
	r := Val{K: 'l'}
	for _, k := range keys {
		r.L = append(r.L, L(I(int(k[0])), I(int(k[1])), I(int(m[k]))))
	}
	return r
}

func imatOf(sm align.SubstitutionMatrix) imat {
	im := imat{}
	for k, v := range sm {
		im[k] = int64(v)
	}
	return im
}

func stepBytes(steps []align.Step) []byte {
	r := make([]byte, len(steps))
	for i, s := range steps {
		r[i] = byte(s)
	}
	return r
}

func scoreVal(x float64) (Val, bool) {
	if x != math.Trunc(x) || math.IsInf(x, 0) || math.Abs(x) > 1e15 {
		return Val{}, false
	}
	return I(int(x)), true
}

func sameMatrix(a, b align.SubstitutionMatrix) bool {
	if len(a) != len(b) {
		return false
	}
	for k, v := range a {
		if w, ok := b[k]; !ok || w != v {
			return false
		}
	}
	return true
}

// catching runs f and turns a panic into vPanic (used where one case makes
// several calls).
func catching(f func() Val) (out Val) {
	defer func() {
		if r := recover(); r != nil {
			out = vPanic
		}
	}()
	return f()
}

// mutatedMatrixMsg: a matrix is a map the caller may change between calls. One entry
// is changed in place (same map object, same size), the alignment is computed again
// on it and on a fresh copy with the same content: the answers must be identical (an
// implementation that caches a matrix by identity answers with stale scores).
func mutatedMatrixMsg(a, b []byte, sm align.SubstitutionMatrix, frozen, global bool) string {
	if frozen || len(a) == 0 || len(b) == 0 {
		return ""
	}
	key := [2]byte{a[0], b[0]}
	old, ok := sm[key]
	if !ok {
		return ""
	}
	run := func(m align.SubstitutionMatrix) (res string) {
		defer func() {
			if recover() != nil {
				res = "panic"
			}
		}()
		if global {
			st, sc := align.Global(a, b, m)
			return fmt.Sprint(st, sc)
		}
		st, ai, bi, sc := align.Local(a, b, m)
		return fmt.Sprint(st, ai, bi, sc)
	}
	msg := ""
	for _, delta := range []float64{7, -7} {
		sm[key] = old + delta
		onSame := run(sm)
		fresh := align.SubstitutionMatrix{}
		for k, v := range sm {
			fresh[k] = v
		}
		if onFresh := run(fresh); onSame != onFresh {
			msg = "after an entry of the matrix was changed in place the answer differs from the answer on a fresh copy of the same matrix (stale scores)"
		}
	}
	sm[key] = old
	run(sm)
	return msg
}

// quietly runs f and ignores a panic (used for auxiliary calls only).
func quietly(f func()) {
	defer func() { recover() }()
	f()
}

func runGlobal(a0, b0 []byte, sm align.SubstitutionMatrix, frozen bool) Val {
	a, b := slices.Clone(a0), slices.Clone(b0)
	var before align.SubstitutionMatrix
	if !frozen {
		before = align.SubstitutionMatrix{}
		for k, v := range sm {
			before[k] = v
		}
	}
	steps, score := align.Global(a, b, sm)
	if !bytes.Equal(a, a0) || !bytes.Equal(b, b0) {
		return L(I(3), S("input sequence modified"))
	}
	// a returned alignment belongs to the caller: later calls (same pair swapped, a
	// shorter pair, the other function) must not change it
	keep := slices.Clone(steps)
	quietly(func() { align.Global(b, a, sm) }) // the matrix need not cover the swapped pair
	quietly(func() { align.Global(a[:len(a)/2], b[:len(b)/2], sm) })
	quietly(func() { align.Local(b, a, sm) })
	if !slices.Equal(steps, keep) {
		return L(I(3), S("the steps returned by Global were changed by later calls"))
	}
	if msg := mutatedMatrixMsg(a, b, sm, frozen, true); msg != "" {
		return L(I(3), S(msg))
	}
	if !frozen && !sameMatrix(before, sm) {
		return L(I(3), S("matrix modified"))
	}
	sv, ok := scoreVal(score)
	if !ok {
		return L(I(4), S(canonF(score)))
	}
	return vOk(L(B(stepBytes(steps)), sv))
}

func runLocal(a0, b0 []byte, sm align.SubstitutionMatrix, frozen bool) Val {
	a, b := slices.Clone(a0), slices.Clone(b0)
	var before align.SubstitutionMatrix
	if !frozen {
		before = align.SubstitutionMatrix{}
		for k, v := range sm {
			before[k] = v
		}
	}
	steps, ai, bi, score := align.Local(a, b, sm)
	if !bytes.Equal(a, a0) || !bytes.Equal(b, b0) {
		return L(I(3), S("input sequence modified"))
	}
	keep := slices.Clone(steps)
	quietly(func() { align.Local(b, a, sm) })
	quietly(func() { align.Local(a[:len(a)/2], b[:len(b)/2], sm) })
	quietly(func() { align.Global(b, a, sm) })
	if !slices.Equal(steps, keep) {
		return L(I(3), S("the steps returned by Local were changed by later calls"))
	}
	if msg := mutatedMatrixMsg(a, b, sm, frozen, false); msg != "" {
		return L(I(3), S(msg))
	}
	if !frozen && !sameMatrix(before, sm) {
		return L(I(3), S("matrix modified"))
	}
	sv, ok := scoreVal(score)
	if !ok {
		return L(I(4), S(canonF(score)))
	}
	return vOk(L(B(stepBytes(steps)), I(ai), I(bi), sv))
}

// ---- the independent reference ------------------------------------------------

func (m imat) has(x, y byte) bool { _, ok := m[[2]byte{x, y}]; return ok }
func (m imat) at(x, y byte) int64 { return m[[2]byte{x, y}] }

// covers: every pair the alignment of a with b can ask for is in the matrix.
func covers(m imat, a, b []byte) bool {
	if !m.has(gapByte, gapByte) {
		return false
	}
	for _, x := range a {
		if !m.has(x, gapByte) {
			return false
		}
		for _, y := range b {
			if !m.has(x, y) {
				return false
			}
		}
	}
	for _, y := range b {
		if !m.has(gapByte, y) {
			return false
		}
	}
	return true
}

// nonposGaps: per-character gap scores over a and b and the gap-open are <= 0.
func nonposGaps(m imat, a, b []byte) bool {
	if m.at(gapByte, gapByte) > 0 {
		return false
	}
	for _, x := range a {
		if m.at(x, gapByte) > 0 {
			return false
		}
	}
	for _, y := range b {
		if m.at(gapByte, y) > 0 {
			return false
		}
	}
	return true
}

// rescore: the documented scoring of a step list read from the start of a and b:
// pair score per match, per-character gap score per gap step, gap-open once per
// maximal run of equal gap steps. Returns the score and how much was consumed.
func rescore(steps, a, b []byte, m imat) (score int64, na, nb int, problem string) {
	prev := byte(0)
	for k, s := range steps {
		switch s {
		case 1:
			if na >= len(a) || nb >= len(b) {
				return 0, 0, 0, fmt.Sprintf("step %d (match) runs past the end of a sequence", k)
			}
			score += m.at(a[na], b[nb])
			na++
			nb++
		case 2:
			if na >= len(a) {
				return 0, 0, 0, fmt.Sprintf("step %d (deletion) runs past the end of a", k)
			}
			score += m.at(a[na], gapByte)
			if prev != 2 {
				score += m.at(gapByte, gapByte)
			}
			na++
		case 3:
			if nb >= len(b) {
				return 0, 0, 0, fmt.Sprintf("step %d (insertion) runs past the end of b", k)
			}
			score += m.at(gapByte, b[nb])
			if prev != 3 {
				score += m.at(gapByte, gapByte)
			}
			nb++
		default:
			return 0, 0, 0, fmt.Sprintf("step %d has value %d", k, s)
		}
		prev = s
	}
	return score, na, nb, ""
}

const negInf = math.MinInt64 / 4

// optAffine: the best score over all alignments under the documented scoring,
// by a DP whose state is the kind of the last step (0 match, 1 deletion,
// 2 insertion); exact for any sign of any score. local: over all pairs of
// substrings (an alignment may start at any cell and end at any cell; the
// empty alignment scores 0).
func optAffine(a, b []byte, m imat, local bool) int64 {
	an, bn := len(a)+1, len(b)+1
	open := m.at(gapByte, gapByte)
	var S [3][]int64
	for k := range S {
		S[k] = make([]int64, an*bn)
		for i := range S[k] {
			S[k][i] = negInf
		}
	}
	// best value of the alignment so far at cell p, about to take a step of kind k
	from := func(p int, k int) int64 {
		best := int64(negInf)
		if local || p == 0 {
			best = 0 // start here
			if k != 0 {
				best += open
			}
		}
		for k2 := 0; k2 < 3; k2++ {
			v := S[k2][p]
			if v == negInf {
				continue
			}
			if k != 0 && k2 != k {
				v += open
			}
			if v > best {
				best = v
			}
		}
		return best
	}
	res := int64(0)
	for i := 0; i < an; i++ {
		for j := 0; j < bn; j++ {
			p := i*bn + j
			if i > 0 && j > 0 {
				if v := from(p-bn-1, 0); v != negInf {
					S[0][p] = v + m.at(a[i-1], b[j-1])
				}
			}
			if i > 0 {
				if v := from(p-bn, 1); v != negInf {
					S[1][p] = v + m.at(a[i-1], gapByte)
				}
			}
			if j > 0 {
				if v := from(p-1, 2); v != negInf {
					S[2][p] = v + m.at(gapByte, b[j-1])
				}
			}
			if local {
				for k := 0; k < 3; k++ {
					if S[k][p] > res {
						res = S[k][p]
					}
				}
			}
		}
	}
	if local {
		return res
	}
	if an == 1 && bn == 1 {
		return 0
	}
	last := an*bn - 1
	return max(S[0][last], S[1][last], S[2][last])
}

// bruteAffine: the same optimum by enumerating every alignment and scoring it
// step by step (documented scoring). For small inputs only.
func bruteAffine(a, b []byte, m imat, local bool) int64 {
	open := m.at(gapByte, gapByte)
	best := int64(negInf)
	if local || (len(a) == 0 && len(b) == 0) {
		best = 0
	}
	var rec func(i, j int, prev byte, sc int64)
	rec = func(i, j int, prev byte, sc int64) {
		if local {
			if sc > best {
				best = sc
			}
		} else if i == len(a) && j == len(b) {
			if sc > best {
				best = sc
			}
			return
		}
		if i < len(a) && j < len(b) {
			rec(i+1, j+1, 1, sc+m.at(a[i], b[j]))
		}
		if i < len(a) {
			s := sc + m.at(a[i], gapByte)
			if prev != 2 {
				s += open
			}
			rec(i+1, j, 2, s)
		}
		if j < len(b) {
			s := sc + m.at(gapByte, b[j])
			if prev != 3 {
				s += open
			}
			rec(i, j+1, 3, s)
		}
	}
	if !local {
		rec(0, 0, 0, 0)
		return best
	}
	for i := 0; i <= len(a); i++ {
		for j := 0; j <= len(b); j++ {
			rec(i, j, 0, 0)
		}
	}
	return best
}

// optLinear: the optimum when [extra] is charged on every gap step (no run
// structure): plain Needleman-Wunsch / Smith-Waterman.
func optLinear(a, b []byte, m imat, extra int64, local bool) int64 {
	bn := len(b) + 1
	prev := make([]int64, bn)
	cur := make([]int64, bn)
	res := int64(0)
	for j := 1; j < bn; j++ {
		prev[j] = prev[j-1] + m.at(gapByte, b[j-1]) + extra
		if local && prev[j] < 0 {
			prev[j] = 0
		}
		res = max(res, prev[j])
	}
	for i := 1; i <= len(a); i++ {
		cur[0] = prev[0] + m.at(a[i-1], gapByte) + extra
		if local && cur[0] < 0 {
			cur[0] = 0
		}
		res = max(res, cur[0])
		for j := 1; j < bn; j++ {
			v := max(prev[j-1]+m.at(a[i-1], b[j-1]),
				prev[j]+m.at(a[i-1], gapByte)+extra,
				cur[j-1]+m.at(gapByte, b[j-1])+extra)
			if local && v < 0 {
				v = 0
			}
			cur[j] = v
			res = max(res, v)
		}
		prev, cur = cur, prev
	}
	if local {
		return res
	}
	return prev[bn-1]
}

// editDistance: Wagner-Fischer, unit costs.
func editDistance(a, b []byte) int {
	d := make([]int, len(b)+1)
	for j := range d {
		d[j] = j
	}
	for i := 1; i <= len(a); i++ {
		diag := d[0]
		d[0] = i
		for j := 1; j <= len(b); j++ {
			t := d[j]
			c := diag
			if a[i-1] != b[j-1] {
				c++
			}
			d[j] = min(c, t+1, d[j-1]+1)
			diag = t
		}
	}
	return d[len(b)]
}

// crossCheck says whether the brute-force enumeration is affordable for the case.
func crossCheck(a, b []byte, local bool) bool {
	n := len(a) + len(b)
	if local {
		return n <= 7
	}
	return n <= 9
}

// optimum computes the affine optimum and cross-checks the DP against the
// enumeration on small inputs; a disagreement is a harness bug and is reported.
func optimum(a, b []byte, m imat, local bool) (int64, string) {
	o := optAffine(a, b, m, local)
	if crossCheck(a, b, local) {
		if br := bruteAffine(a, b, m, local); br != o {
			return o, fmt.Sprintf("HARNESS BUG: three-state DP says %d, enumeration of all alignments says %d", o, br)
		}
	}
	return o, ""
}

// ---- oracles ----------------------------------------------------------------------

type globalOut struct {
	steps []byte
	score int64
}

func validGlobal(a, b []byte, m imat, out Val) (globalOut, string) {
	if !isOk(out) {
		return globalOut{}, "Global on sequences the matrix covers: " + clip(out.String())
	}
	r := globalOut{out.At(1).At(0).Bytes(), int64(out.At(1).At(1).Int())}
	sc, na, nb, prob := rescore(r.steps, a, b, m)
	if prob != "" {
		return r, "Global: " + prob
	}
	if na != len(a) || nb != len(b) {
		return r, fmt.Sprintf("Global: steps consume (%d,%d) of (%d,%d)", na, nb, len(a), len(b))
	}
	if sc != r.score {
		return r, fmt.Sprintf("Global: returned score %d but the returned steps score %d", r.score, sc)
	}
	return r, ""
}

type localOut struct {
	steps  []byte
	ai, bi int
	score  int64
}

func anyPositivePair(a, b []byte, m imat) bool {
	for _, x := range a {
		for _, y := range b {
			if m.at(x, y) > 0 {
				return true
			}
		}
	}
	return false
}

func validLocal(a, b []byte, m imat, out Val) (localOut, string) {
	if !isOk(out) {
		return localOut{}, "Local on sequences the matrix covers: " + clip(out.String())
	}
	o := out.At(1)
	r := localOut{o.At(0).Bytes(), o.At(1).Int(), o.At(2).Int(), int64(o.At(3).Int())}
	if !nonposGaps(m, a, b) {
		return r, "" // validity of the offsets is claimed for non-positive gap scores only
	}
	pos := anyPositivePair(a, b, m)
	if len(r.steps) == 0 {
		if r.score != 0 || r.ai != -1 || r.bi != -1 {
			return r, fmt.Sprintf("Local: no steps but score %d offsets (%d,%d)", r.score, r.ai, r.bi)
		}
		if pos {
			return r, "Local: a positive-scoring pair exists but no alignment was returned"
		}
		return r, ""
	}
	if !pos {
		return r, "Local: steps returned although no pair scores above 0"
	}
	if r.ai < 0 || r.bi < 0 || r.ai > len(a) || r.bi > len(b) {
		return r, fmt.Sprintf("Local: offsets (%d,%d) outside the sequences", r.ai, r.bi)
	}
	sc, _, _, prob := rescore(r.steps, a[r.ai:], b[r.bi:], m)
	if prob != "" {
		return r, "Local: from its offsets, " + prob
	}
	if sc != r.score {
		return r, fmt.Sprintf("Local: returned score %d but the returned steps score %d from offsets (%d,%d)", r.score, sc, r.ai, r.bi)
	}
	if r.score <= 0 {
		return r, fmt.Sprintf("Local: steps returned with score %d", r.score)
	}
	return r, ""
}

func decodeCase(in Val) (a, b []byte, m imat) {
	_, m = decodeMatrix(in.At(2))
	return in.At(0).Bytes(), in.At(1).Bytes(), m
}

func oracleGlobal(strict bool) func(in, out Val) string {
	return func(in, out Val) string {
		a, b, m := decodeCase(in)
		if !covers(m, a, b) {
			return "" // outside the domain; the correspondence still compares the outcome
		}
		r, msg := validGlobal(a, b, m, out)
		if msg != "" {
			return msg
		}
		opt, bug := optimum(a, b, m, false)
		if bug != "" {
			return bug
		}
		if r.score > opt {
			return fmt.Sprintf("Global: score %d above the optimum %d", r.score, opt)
		}
		if strict || m.at(gapByte, gapByte) == 0 {
			if r.score != opt {
				return fmt.Sprintf("Global: score %d, but an alignment scoring %d exists (gap-open %d)", r.score, opt, m.at(gapByte, gapByte))
			}
			return ""
		}
		if lin := optLinear(a, b, m, min(m.at(gapByte, gapByte), 0), false); r.score < lin {
			return fmt.Sprintf("Global: score %d below the linear-gap optimum %d", r.score, lin)
		}
		return ""
	}
}

func oracleLocal(strict bool) func(in, out Val) string {
	return func(in, out Val) string {
		a, b, m := decodeCase(in)
		if !covers(m, a, b) {
			return ""
		}
		r, msg := validLocal(a, b, m, out)
		if msg != "" {
			return msg
		}
		opt, bug := optimum(a, b, m, true)
		if bug != "" {
			return bug
		}
		if nonposGaps(m, a, b) && r.score > opt {
			return fmt.Sprintf("Local: score %d above the optimum %d", r.score, opt)
		}
		if strict || m.at(gapByte, gapByte) == 0 {
			if r.score != opt {
				return fmt.Sprintf("Local: score %d, but a pair of substrings aligns with score %d (gap-open %d)", r.score, opt, m.at(gapByte, gapByte))
			}
			return ""
		}
		if lin := optLinear(a, b, m, min(m.at(gapByte, gapByte), 0), true); r.score < lin {
			return fmt.Sprintf("Local: score %d below the linear-gap optimum %d", r.score, lin)
		}
		return ""
	}
}

func implGlobal(in Val) Val {
	sm, _ := decodeMatrix(in.At(2))
	return runGlobal(in.At(0).Bytes(), in.At(1).Bytes(), sm, false)
}

func implLocal(in Val) Val {
	sm, _ := decodeMatrix(in.At(2))
	return runLocal(in.At(0).Bytes(), in.At(1).Bytes(), sm, false)
}

var kAlignGlobal = register(&Kind{Name: "align_global", Impl: implGlobal, Oracle: oracleGlobal(true)})
var kAlignGlobalV = register(&Kind{Name: "align_global_v", Impl: implGlobal, Oracle: oracleGlobal(false)})
var kAlignLocal = register(&Kind{Name: "align_local", Impl: implLocal, Oracle: oracleLocal(true)})
var kAlignLocalV = register(&Kind{Name: "align_local_v", Impl: implLocal, Oracle: oracleLocal(false)})

// ---- shipped matrices -------------------------------------------------------------

const proteinAlphabet = "ABCDEFGHIKLMNPQRSTVWXYZ"

var shippedNames = []string{"pam120", "pam160", "pam250", "blosum45", "blosum62", "blosum80", "lev"}

func shippedMatrix(name string) align.SubstitutionMatrix {
	switch name {
	case "pam120":
		return align.PAM120
	case "pam160":
		return align.PAM160
	case "pam250":
		return align.PAM250
	case "blosum45":
		return align.BLOSUM45
	case "blosum62":
		return align.BLOSUM62
	case "blosum80":
		return align.BLOSUM80
	case "lev":
		return align.Levenshtein
	}
	panic(badCase("unknown shipped matrix " + name))
}

var shippedIntCache = map[string]imat{}

func shippedInt(name string) imat {
	if m, ok := shippedIntCache[name]; ok {
		return m
	}
	m := imatOf(shippedMatrix(name))
	shippedIntCache[name] = m
	return m
}

var kAlignShipped = register(&Kind{Name: "align_shipped",
	Impl: func(in Val) Val {
		sm := shippedMatrix(in.At(0).Str())
		a, b := in.At(1).Bytes(), in.At(2).Bytes()
		g := catching(func() Val { return runGlobal(a, b, sm, true) })
		l := catching(func() Val { return runLocal(a, b, sm, true) })
		return L(g, l)
	},
	Oracle: func(in, out Val) string {
		name := in.At(0).Str()
		a, b := in.At(1).Bytes(), in.At(2).Bytes()
		m := shippedInt(name)
		inAlphabet := name == "lev" || (allIn(a, []byte(proteinAlphabet)) && allIn(b, []byte(proteinAlphabet)))
		if !inAlphabet {
			return ""
		}
		if !covers(m, a, b) {
			return "shipped matrix " + name + " does not cover its alphabet (aligning would panic)"
		}
		g, msg := validGlobal(a, b, m, out.At(0))
		if msg != "" {
			return name + ": " + msg
		}
		l, msg := validLocal(a, b, m, out.At(1))
		if msg != "" {
			return name + ": " + msg
		}
		og, bug := optimum(a, b, m, false)
		if bug != "" {
			return bug
		}
		if g.score != og {
			return fmt.Sprintf("%s: Global score %d, optimum %d", name, g.score, og)
		}
		ol, bug := optimum(a, b, m, true)
		if bug != "" {
			return bug
		}
		if l.score != ol {
			return fmt.Sprintf("%s: Local score %d, optimum over substring pairs %d", name, l.score, ol)
		}
		if name == "lev" {
			if d := editDistance(a, b); g.score != -int64(d) {
				return fmt.Sprintf("Levenshtein: Global score %d, edit distance %d", g.score, d)
			}
		}
		// swapping the arguments leaves the scores unchanged
		sm := shippedMatrix(name)
		sw := catching(func() Val { return runGlobal(b, a, sm, true) })
		if !isOk(sw) || int64(sw.At(1).At(1).Int()) != g.score {
			return fmt.Sprintf("%s: Global(b,a) = %s but Global(a,b) scored %d", name, clip(sw.String()), g.score)
		}
		sl := catching(func() Val { return runLocal(b, a, sm, true) })
		if !isOk(sl) || int64(sl.At(1).At(3).Int()) != l.score {
			return fmt.Sprintf("%s: Local(b,a) = %s but Local(a,b) scored %d", name, clip(sl.String()), l.score)
		}
		return ""
	}})

// sweepShipped checks every entry of every shipped matrix on the implementation:
// total over the 23 letters + Gap, symmetric, gap-open 0, integral; Levenshtein:
// 65,536 entries, 0 on the diagonal, -1 elsewhere.
func sweepShipped(c *Ctx) {
	letters := append([]byte(proteinAlphabet), gapByte)
	for _, name := range shippedNames[:6] {
		sm := shippedMatrix(name)
		bad := ""
		if len(sm) != len(letters)*len(letters) {
			bad = fmt.Sprintf("%d entries, want %d", len(sm), len(letters)*len(letters))
		}
		for _, x := range letters {
			for _, y := range letters {
				v, ok := sm[[2]byte{x, y}]
				w, ok2 := sm[[2]byte{y, x}]
				if !ok || !ok2 {
					bad = fmt.Sprintf("pair (%d,%d) missing", x, y)
				} else if v != w {
					bad = fmt.Sprintf("not symmetric at (%d,%d): %v vs %v", x, y, v, w)
				} else if v != math.Trunc(v) {
					bad = fmt.Sprintf("non-integral score at (%d,%d)", x, y)
				}
			}
		}
		if v := sm[[2]byte{gapByte, gapByte}]; v != 0 {
			bad = fmt.Sprintf("gap-open is %v, not 0", v)
		}
		if bad != "" {
			c.Fail(kAlignShipped, L(S(name), S("A"), S("A")), "shipped matrix "+name+": "+bad)
		}
	}
	lev := align.Levenshtein
	bad := ""
	if len(lev) != 65536 {
		bad = fmt.Sprintf("%d entries, want 65536", len(lev))
	}
	for x := 0; x < 256 && bad == ""; x++ {
		for y := 0; y < 256; y++ {
			v, ok := lev[[2]byte{byte(x), byte(y)}]
			want := -1.0
			if x == y {
				want = 0
			}
			if !ok || v != want {
				bad = fmt.Sprintf("entry (%d,%d) is %v (present %v), want %v", x, y, v, ok, want)
				break
			}
		}
	}
	if bad != "" {
		c.Fail(kAlignShipped, L(S("lev"), S("a"), S("b")), "Levenshtein: "+bad)
	}
	c.Exhaustive("all 6 x 576 entries of the shipped PAM/BLOSUM matrices (total, symmetric, integral, gap-open 0) and all 65,536 Levenshtein entries, on the implementation")
}

// ---- generators -------------------------------------------------------------------

type poolMat struct {
	m   imat
	tag string
}

func simpleMat(alpha []byte, match, mismatch, gap, open int64) imat {
	m := imat{}
	for _, x := range alpha {
		for _, y := range alpha {
			if x == y {
				m[[2]byte{x, y}] = match
			} else {
				m[[2]byte{x, y}] = mismatch
			}
		}
		m[[2]byte{x, gapByte}] = gap
		m[[2]byte{gapByte, x}] = gap
	}
	m[[2]byte{gapByte, gapByte}] = open
	return m
}

// randMat: random integer matrix over alpha; pair scores in [-lim, lim], gap
// scores in [gapLo, gapHi].
func (c *Ctx) randMat(alpha []byte, symmetric bool, lim, gapLo, gapHi int, open int64) imat {
	m := imat{}
	r := func(lo, hi int) int64 { return int64(lo + c.Intn(hi-lo+1)) }
	for i, x := range alpha {
		for j, y := range alpha {
			if symmetric && j < i {
				m[[2]byte{x, y}] = m[[2]byte{y, x}]
			} else {
				v := r(-lim, lim)
				if x == y && c.Intn(3) > 0 {
					v = r(0, lim) // mostly a non-negative diagonal
				}
				m[[2]byte{x, y}] = v
			}
		}
		g := r(gapLo, gapHi)
		m[[2]byte{x, gapByte}] = g
		if symmetric {
			m[[2]byte{gapByte, x}] = g
		} else {
			m[[2]byte{gapByte, x}] = r(gapLo, gapHi)
		}
	}
	m[[2]byte{gapByte, gapByte}] = open
	return m
}

func cloneMat(m imat) imat {
	r := imat{}
	for k, v := range m {
		r[k] = v
	}
	return r
}

func withOpen(m imat, open int64) imat {
	r := cloneMat(m)
	r[[2]byte{gapByte, gapByte}] = open
	return r
}

func matNonpos(m imat) bool {
	for k, v := range m {
		if (k[0] == gapByte || k[1] == gapByte) && v > 0 {
			return false
		}
	}
	return true
}

// basePool: 40 small matrices over alpha: symmetric textbook ones with every
// gap-open in -3..3, zero / positive / all-negative corners, and random
// symmetric and asymmetric ones.
func (c *Ctx) basePool(alpha []byte) []poolMat {
	var p []poolMat
	add := func(m imat, tag string) { p = append(p, poolMat{m, tag}) }
	for o := int64(-3); o <= 3; o++ {
		add(simpleMat(alpha, 1, -1, -1, o), "simple")
	}
	add(simpleMat(alpha, 2, -1, -2, -2), "simple")
	add(simpleMat(alpha, 2, -1, -2, 0), "simple")
	add(simpleMat(alpha, 2, -1, -2, 1), "simple")
	add(simpleMat(alpha, 1, 0, 0, -1), "zero-gap")
	add(simpleMat(alpha, 1, 0, 0, 0), "zero-gap")
	add(simpleMat(alpha, 2, 0, 0, -1), "zero-gap")
	add(simpleMat(alpha, 0, 0, 0, 0), "all-zero")
	add(simpleMat(alpha, 3, -2, -1, -3), "simple")
	add(simpleMat(alpha, 1, -1, 1, 1), "positive-gap")
	add(simpleMat(alpha, -1, -1, -1, -1), "all-negative")
	add(simpleMat(alpha, 0, -1, -1, 0), "levenshtein-like")
	add(simpleMat(alpha, 1, 1, -1, -1), "mismatch=match")
	add(simpleMat(alpha, 5, -4, -3, -2), "simple")
	for i := 0; i < 8; i++ {
		add(c.randMat(alpha, true, 3, -3, 0, int64(-c.Intn(4))), "random-symmetric-nonpos")
	}
	for i := 0; i < 8; i++ {
		add(c.randMat(alpha, false, 3, -3, 0, int64(-c.Intn(4))), "random-asymmetric-nonpos")
	}
	for i := 0; i < 4; i++ {
		add(c.randMat(alpha, false, 3, -3, 2, int64(c.Intn(7)-3)), "random-asymmetric-anysign")
	}
	return p
}

func alphabetOf(n int) []byte { return []byte("abcdef")[:n] }

func (c *Ctx) randSeq(maxLen int, alpha []byte) []byte {
	n := c.Choose(0, 1, 2, 3, 5, 8, 13, 21, 34, maxLen/2, maxLen-1, maxLen)
	if n > maxLen {
		n = maxLen
	}
	return c.RandBytes(n, alpha)
}

// relatedSeq: a mutated copy of s (so that long alignments with gaps occur).
func (c *Ctx) relatedSeq(s []byte, alpha []byte, maxLen int) []byte {
	var r []byte
	for _, x := range s {
		switch c.Intn(10) {
		case 0: // drop
		case 1:
			r = append(r, x, alpha[c.Intn(len(alpha))])
		case 2:
			r = append(r, alpha[c.Intn(len(alpha))])
		default:
			r = append(r, x)
		}
	}
	if len(r) > maxLen {
		r = r[:maxLen]
	}
	return r
}

func nontrivialAlign(a, b []byte) bool { return len(a) >= 2 && len(b) >= 2 }

type alignGen struct {
	c                *Ctx
	kGlobal, kLocal  *Kind
	localNeedsNonpos bool // C08: Local only on matrices with non-positive gap scores
}

func (g *alignGen) run(a, b []byte, pm poolMat, strat string) {
	c := g.c
	mv := matrixVal(pm.m)
	in := L(B(a), B(b), mv)
	c.Run(g.kGlobal, in, nontrivialAlign(a, b), "global/"+strat, "matrix/"+pm.tag)
	if !g.localNeedsNonpos || matNonpos(pm.m) {
		c.Run(g.kLocal, in, nontrivialAlign(a, b), "local/"+strat, "matrix/"+pm.tag)
	}
}

func (g *alignGen) exhaustiveScope(pool []poolMat, alpha []byte, maxLen int) {
	c := g.c
	var seqs [][]byte
	allStrings(alpha, maxLen, func(s []byte) { seqs = append(seqs, s) })
	for _, pm := range pool {
		for _, a := range seqs {
			for _, b := range seqs {
				g.run(a, b, pm, "exhaustive")
			}
		}
	}
	c.Exhaustive(fmt.Sprintf("all pairs of sequences over %q of length <= %d x %d matrices", alpha, maxLen, len(pool)))
}

// exhaustive: quick: {a,b}, length <= 4, the whole pool. thorough: {a,b,c},
// length <= 4, the whole pool, and length <= 5 with every fifth matrix of it.
func (g *alignGen) exhaustive(pool []poolMat) {
	if !g.c.Thorough() {
		g.exhaustiveScope(pool, alphabetOf(2), 4)
		return
	}
	g.exhaustiveScope(pool, alphabetOf(3), 4)
	var sub []poolMat
	for i, pm := range pool {
		if i%5 == 0 {
			sub = append(sub, pm)
		}
	}
	g.exhaustiveScope(sub, alphabetOf(3), 5)
}

// random: lengths to 60, alphabets to 6, a fresh random matrix per case.
func (g *alignGen) random(n int, mk func(alpha []byte) poolMat) {
	c := g.c
	for i := 0; i < n; i++ {
		alpha := alphabetOf(1 + c.Intn(6))
		a := c.randSeq(60, alpha)
		var b []byte
		strat := "random"
		if c.Intn(2) == 0 {
			b = c.relatedSeq(a, alpha, 60)
			strat = "random-related"
		} else {
			b = c.randSeq(60, alpha)
		}
		if len(a) == 0 || len(b) == 0 {
			strat = "random-empty"
		}
		pm := mk(alpha)
		if c.Intn(5) == 0 {
			// weights that need more than 24 (and more than 32) bits: exact in float64,
			// not in a narrower type
			f := []int64{1<<24 + 1, 100000007, 1<<33 + 1}[c.Intn(3)]
			big := imat{}
			for k, v := range pm.m {
				big[k] = v * f
			}
			pm = poolMat{big, pm.tag + "-big-weights"}
		}
		g.run(a, b, pm, strat)
	}
}

// shipped: every shipped matrix with random protein strings; the model is asked
// for lengths <= 40 only (576-entry association lists are slow to search).
func shippedCases(c *Ctx, n int) {
	prot := []byte(proteinAlphabet)
	// Levenshtein on UTF-8 text: every 2-byte sequence of U+0080..U+00FF (C2 80 .. C3 BF)
	// against an ASCII string and against its neighbour: byte strings that happen to
	// be multi-byte characters must be treated as bytes (rune/byte confusions show here)
	for r := 0x80; r <= 0xff; r++ {
		ch := []byte(string(rune(r)))
		other := []byte(string(rune(0x80 + (r-0x80+1)%0x80)))
		c.Run(kAlignShipped, L(S("lev"), B(append([]byte("a"), ch...)), B([]byte("ab"))), true, "shipped/lev", "shipped/utf8-text")
		c.Run(kAlignShipped, L(S("lev"), B(append(append([]byte{}, ch...), other...)), B(append(append([]byte{}, other...), ch...))), true, "shipped/lev", "shipped/utf8-text")
	}
	for i := 0; i < n; i++ {
		name := shippedNames[i%len(shippedNames)]
		alpha := prot
		if name == "lev" {
			alpha = nil
		}
		maxLen := 200
		small := i%3 != 2
		if small {
			maxLen = 40
		}
		la := c.Choose(0, 1, 2, 5, 10, 20, maxLen/2, maxLen)
		a := c.RandBytes(la, alpha)
		var b []byte
		if c.Intn(2) == 0 {
			al := alpha
			if al == nil {
				al = []byte{0, 1, 2, 97, 98, 127, 128, 200, 254}
			}
			b = c.relatedSeq(a, al, maxLen)
		} else {
			b = c.RandBytes(c.Choose(0, 1, 3, 7, 15, 30, maxLen/2, maxLen), alpha)
		}
		if name == "lev" {
			// bytes 0..254: byte 255 is the gap
			for _, s := range [][]byte{a, b} {
				for j := range s {
					if s[j] == gapByte {
						s[j] = byte(c.Intn(255))
					}
				}
			}
		}
		in := L(S(name), B(a), B(b))
		if small {
			c.Run(kAlignShipped, in, nontrivialAlign(a, b), "shipped/"+name, "shipped/model")
		} else {
			k := *kAlignShipped
			k.NoModel = true
			c.Run(&k, in, nontrivialAlign(a, b), "shipped/"+name, "shipped/impl-only-long")
		}
	}
	// empty sequences and single letters with every shipped matrix
	for _, name := range shippedNames {
		for _, p := range [][2]string{{"", ""}, {"A", ""}, {"", "A"}, {"A", "A"}, {"W", "C"}, {"ACD", "ACD"}} {
			c.Run(kAlignShipped, L(S(name), S(p[0]), S(p[1])), false, "shipped/"+name, "shipped/tiny")
		}
	}
}

func init() {
	registerProp("C08", "exhaustive: all pairs of sequences over {a,b} of length <= 4 (thorough: {a,b,c} <= 4, and <= 5 with every fifth matrix) x a pool of 40 integer matrices (symmetric and asymmetric, gap-open -3..3; Local on the ones with non-positive gap scores), through Global and Local; random: lengths to 60, alphabets of 1..6 letters, a fresh random matrix per case; every shipped matrix (and Levenshtein) with random protein strings to 200 (model for lengths <= 40); empty sequences; matrices with a missing pair (panic stream). Oracle: independent re-scorer of the returned steps, consumption / offsets, nil-iff-no-positive-pair, inputs unchanged, no panic. non-trivial = both sequences of length >= 2", func(c *Ctx) {
		g := &alignGen{c: c, kGlobal: kAlignGlobalV, kLocal: kAlignLocalV, localNeedsNonpos: true}
		pool := c.basePool(alphabetOf(3))
		g.exhaustive(pool)
		g.random(c.Pick(600, 6000), func(alpha []byte) poolMat {
			switch c.Intn(4) {
			case 0:
				return poolMat{c.randMat(alpha, true, 5, -4, 0, int64(-c.Intn(4))), "random-symmetric-nonpos"}
			case 1:
				return poolMat{c.randMat(alpha, false, 5, -4, 0, int64(-c.Intn(4))), "random-asymmetric-nonpos"}
			case 2:
				return poolMat{c.randMat(alpha, false, 5, -4, 2, int64(c.Intn(7)-3)), "random-asymmetric-anysign"}
			}
			return poolMat{c.randMat(alpha, true, 5, -4, 0, int64(c.Intn(7)-3)), "random-symmetric-anyopen"}
		})
		shippedCases(c, c.Pick(140, 1400))
		// a pair missing from the matrix: Get panics exactly when the pair is asked for
		n := c.Pick(300, 3000)
		for i := 0; i < n; i++ {
			alpha := alphabetOf(2 + c.Intn(3))
			m := c.randMat(alpha, false, 3, -3, 0, int64(-c.Intn(3)))
			keys := make([][2]byte, 0, len(m))
			for k := range m {
				keys = append(keys, k)
			}
			sort.Slice(keys, func(i, j int) bool {
				return keys[i][0] < keys[j][0] || (keys[i][0] == keys[j][0] && keys[i][1] < keys[j][1])
			})
			delete(m, keys[c.Intn(len(keys))])
			a, b := c.randSeq(8, alpha), c.randSeq(8, alpha)
			g.run(a, b, poolMat{m, "missing-pair"}, "missing-pair")
		}
	})

	registerProp("C09", "gap-open = 0. exhaustive: all pairs over {a,b} of length <= 4 (thorough: {a,b,c} <= 4, and <= 5 with every fifth matrix) x the zero-gap-open variants of the matrix pool (any sign of the gap scores), through Global and Local; random: lengths to 60, alphabets to 6; every shipped PAM/BLOSUM matrix with random protein strings to 200 and Levenshtein over random byte strings 0..254 (model for lengths <= 40), arguments swapped; sweep of all 6 x 576 + 65,536 shipped entries. Oracle: score == optimum of an independent three-state DP (cross-checked against enumeration of all alignments for |a|+|b| <= 9, Local <= 7), Local == best over all substring pairs, Levenshtein == -(edit distance). non-trivial = both sequences of length >= 2", func(c *Ctx) {
		sweepShipped(c)
		g := &alignGen{c: c, kGlobal: kAlignGlobal, kLocal: kAlignLocal}
		var pool []poolMat
		seen := map[string]bool{}
		for _, pm := range c.basePool(alphabetOf(3)) {
			m := withOpen(pm.m, 0)
			key := matrixVal(m).String()
			if seen[key] {
				continue
			}
			seen[key] = true
			pool = append(pool, poolMat{m, pm.tag})
		}
		if !c.Thorough() && len(pool) > 20 {
			var sub []poolMat
			for i, pm := range pool {
				if i*20/len(pool) != (i+1)*20/len(pool) {
					sub = append(sub, pm)
				}
			}
			pool = sub
		}
		g.exhaustive(pool)
		g.random(c.Pick(600, 6000), func(alpha []byte) poolMat {
			switch c.Intn(3) {
			case 0:
				return poolMat{c.randMat(alpha, true, 5, -4, 0, 0), "random-symmetric-nonpos"}
			case 1:
				return poolMat{c.randMat(alpha, false, 5, -4, 0, 0), "random-asymmetric-nonpos"}
			}
			return poolMat{c.randMat(alpha, false, 5, -4, 2, 0), "random-asymmetric-anysign"}
		})
		shippedCases(c, c.Pick(210, 2100))
	})

	registerProp("C10", "gap-open != 0, non-positive gap scores. The corpus holds the two witnesses of known finding D7 as strict cases (kinds align_global / align_local: score == affine optimum, which they fail). Generated cases use the _v kinds: model == implementation (pins the implementation to the single-state recurrence whose non-optimality is proved) and linear-gap optimum <= score <= affine optimum, returned steps re-scored. exhaustive: all pairs over {a,b} of length <= 4 (thorough: {a,b,c} <= 4, and <= 5 with every fifth matrix) x the pool matrices with non-positive gap scores and gap-open in {-3,-2,-1} (Global also {1,2}); random: lengths to 60, alphabets to 6. non-trivial = both sequences of length >= 2", func(c *Ctx) {
		g := &alignGen{c: c, kGlobal: kAlignGlobalV, kLocal: kAlignLocalV, localNeedsNonpos: true}
		var pool []poolMat
		seen := map[string]bool{}
		i := 0
		for _, pm := range c.basePool(alphabetOf(3)) {
			if !matNonpos(withOpen(pm.m, 0)) {
				continue
			}
			opens := []int64{-1, -2, -3, 1, 2}
			o := pm.m.at(gapByte, gapByte)
			if o == 0 {
				o = opens[i%len(opens)]
				i++
			}
			m := withOpen(pm.m, o)
			key := matrixVal(m).String()
			if seen[key] {
				continue
			}
			seen[key] = true
			pool = append(pool, poolMat{m, pm.tag})
		}
		if !c.Thorough() && len(pool) > 24 {
			pool = pool[:24]
		}
		g.exhaustive(pool)
		g.random(c.Pick(600, 6000), func(alpha []byte) poolMat {
			o := int64(c.Choose(-3, -2, -1, -1, -2, 1, 2))
			if c.Intn(2) == 0 {
				return poolMat{c.randMat(alpha, true, 5, -4, 0, o), "random-symmetric"}
			}
			return poolMat{c.randMat(alpha, false, 5, -4, 0, o), "random-asymmetric"}
		})
	})
}
