package main

// The correspondence framework: a Kind couples an implementation runner with the
// direct property oracle; a Ctx runs generated cases through both and records
// what the model driver must be asked, what the implementation answered, oracle
// failures, and the realised case distribution.

import (
	"bufio"
	"crypto/sha256"
	"encoding/json"
	"fmt"
	"math/rand"
	"os"
	"path/filepath"
	"sort"
)

type Kind struct {
	Name string
	// Impl runs the implementation on a decoded case and returns its projected
	// observable. A panic of the implementation is caught and becomes vPanic.
	Impl func(in Val) Val
	// Oracle evaluates the property directly on the implementation's answer
	// (and may call the implementation again). "" means the property holds.
	Oracle func(in, out Val) string
	// NoModel: the case is run on the implementation and the oracle only.
	NoModel bool
	// Project, if set, maps the implementation's observable to the part that is
	// compared with the model (the oracle still sees the full observable). Used to
	// keep incidental detail (e.g. how output is split into Write calls) out of the
	// correspondence.
	Project func(out Val) Val
}

var kinds = map[string]*Kind{}

func register(k *Kind) *Kind {
	if _, dup := kinds[k.Name]; dup {
		panic("duplicate kind " + k.Name)
	}
	kinds[k.Name] = k
	return k
}

func project(k *Kind, out Val) (p Val) {
	if k.Project == nil {
		return out
	}
	defer func() {
		if recover() != nil {
			p = out // unexpected shape: compare as is
		}
	}()
	return k.Project(out)
}

// joinChunks turns a list of byte chunks into the single byte string written.
func joinChunks(v Val) Val {
	var all []byte
	for _, c := range v.List() {
		all = append(all, c.Bytes()...)
	}
	return B(all)
}

func runImpl(k *Kind, in Val) (out Val) {
	defer func() {
		if r := recover(); r != nil {
			if bc, ok := r.(badCase); ok {
				panic("harness bug: " + string(bc))
			}
			out = vPanic
		}
	}()
	return k.Impl(in)
}

type Ctx struct {
	Prop, Tier string
	Seed       int64
	Rng        *rand.Rand
	outDir     string
	cases      *bufio.Writer
	impl       *bufio.Writer
	oracle     *bufio.Writer
	files      []*os.File
	n          int
	nontrivial map[[32]byte]struct{}
	strata     map[string]int
	samples    []map[string]string
	perKind    map[string]int
	oracleFail int
	notes      []string
	exhaustive []string
}

func newCtx(prop, tier string, seed int64, outDir string) *Ctx {
	c := &Ctx{Prop: prop, Tier: tier, Seed: seed, Rng: rand.New(rand.NewSource(seed)), outDir: outDir,
		nontrivial: map[[32]byte]struct{}{}, strata: map[string]int{}, perKind: map[string]int{}}
	os.MkdirAll(outDir, 0o755)
	open := func(name string) *bufio.Writer {
		f, err := os.Create(filepath.Join(outDir, name))
		if err != nil {
			panic(err)
		}
		c.files = append(c.files, f)
		return bufio.NewWriterSize(f, 1<<20)
	}
	c.cases, c.impl, c.oracle = open("cases.txt"), open("impl.txt"), open("oracle.txt")
	return c
}

func (c *Ctx) Thorough() bool { return c.Tier == "thorough" }

// Pick returns q in the quick tier and t in the thorough tier.
func (c *Ctx) Pick(q, t int) int {
	if c.Thorough() {
		return t
	}
	return q
}

// Run runs one case. nontrivial: whether the case is non-trivial by the
// property's stated rule. strata: generator strata the case belongs to.
func (c *Ctx) Run(k *Kind, in Val, nontrivial bool, strata ...string) Val {
	id := c.n
	c.n++
	out := runImpl(k, in)
	ins := in.String()
	outs := out.String()
	if !k.NoModel {
		fmt.Fprintf(c.cases, "%d %s %s\n", id, k.Name, ins)
		fmt.Fprintf(c.impl, "%d %s\n", id, project(k, out).String())
	}
	if k.Oracle != nil {
		if msg := k.Oracle(in, out); msg != "" {
			c.oracleFail++
			fmt.Fprintf(c.oracle, "%d\t%s\t%s\t%s\t%s\n", id, k.Name, ins, outs, cleanMsg(msg))
		}
	}
	c.perKind[k.Name]++
	for _, s := range strata {
		c.strata[s]++
	}
	if nontrivial {
		c.nontrivial[sha256.Sum256([]byte(k.Name+" "+ins))] = struct{}{}
	}
	if len(c.samples) < 6 || (c.perKind[k.Name] == 1 && len(c.samples) < 40) {
		c.samples = append(c.samples, map[string]string{"kind": k.Name, "input": clip(ins), "impl": clip(outs)})
	}
	return out
}

// Fail records a direct-oracle failure that is not tied to a single Run.
func (c *Ctx) Fail(k *Kind, in Val, msg string) {
	c.oracleFail++
	fmt.Fprintf(c.oracle, "%d\t%s\t%s\t%s\t%s\n", -1, k.Name, in.String(), "-", cleanMsg(msg))
}

func (c *Ctx) Note(format string, a ...any) { c.notes = append(c.notes, fmt.Sprintf(format, a...)) }

// Exhaustive records that a finite space was enumerated completely.
func (c *Ctx) Exhaustive(what string) { c.exhaustive = append(c.exhaustive, what) }

// cleanMsg keeps an oracle message on one line of printable ASCII.
func cleanMsg(s string) string {
	b := []byte(s)
	for i, c := range b {
		if c < 32 || c > 126 {
			b[i] = '?'
		}
	}
	if len(b) > 600 {
		b = append(b[:600], "..."...)
	}
	return string(b)
}

func clip(s string) string {
	if len(s) > 300 {
		return s[:300] + fmt.Sprintf("...(%d chars)", len(s))
	}
	return s
}

func (c *Ctx) Close(rule string) {
	c.cases.Flush()
	c.impl.Flush()
	c.oracle.Flush()
	for _, f := range c.files {
		f.Close()
	}
	keys := make([]string, 0, len(c.strata))
	for k := range c.strata {
		keys = append(keys, k)
	}
	sort.Strings(keys)
	st := map[string]any{
		"property": c.Prop, "tier": c.Tier, "seed": c.Seed,
		"evaluations": c.n, "distinct_nontrivial": len(c.nontrivial),
		"rule": rule, "strata": c.strata, "per_kind": c.perKind,
		"samples": c.samples, "oracle_failures": c.oracleFail,
		"notes": c.notes, "exhaustive": c.exhaustive,
	}
	b, _ := json.MarshalIndent(st, "", " ")
	os.WriteFile(filepath.Join(c.outDir, "stats.json"), b, 0o644)
}

// ---- random helpers -------------------------------------------------------

func (c *Ctx) Intn(n int) int { return c.Rng.Intn(n) }

func (c *Ctx) Choose(xs ...int) int { return xs[c.Rng.Intn(len(xs))] }

// RandBytes returns n bytes drawn from alphabet (all 256 values if alphabet is nil).
func (c *Ctx) RandBytes(n int, alphabet []byte) []byte {
	b := make([]byte, n)
	for i := range b {
		if alphabet == nil {
			b[i] = byte(c.Rng.Intn(256))
		} else {
			b[i] = alphabet[c.Rng.Intn(len(alphabet))]
		}
	}
	return b
}

// allStrings enumerates every string over alphabet of length 0..maxLen.
func allStrings(alphabet []byte, maxLen int, f func([]byte)) {
	var rec func(cur []byte)
	rec = func(cur []byte) {
		f(append([]byte(nil), cur...))
		if len(cur) == maxLen {
			return
		}
		for _, a := range alphabet {
			rec(append(cur, a))
		}
	}
	rec(nil)
}
