package main

// Package trie: C15 (the trie is the set of maximal sequences under any history
// of Add/Delete; Has, ForEach and the JSON round trip observe exactly that set).
// Kind mirrors coq/Corr/TrieCorr.v.

import (
	"bytes"
	"encoding/json"
	"fmt"
	"slices"
	"sort"

	"github.com/fluhus/biostuff/trie"
)

type trieOp struct {
	del bool
	b   []byte
}

type trieCase struct {
	ops     []trieOp
	queries [][]byte
	k, p    int
}

func decodeTrieCase(in Val) trieCase {
	var c trieCase
	for _, o := range in.At(0).List() {
		c.ops = append(c.ops, trieOp{o.At(0).Int() == 1, o.At(1).Bytes()})
	}
	c.queries = in.At(1).BytesList()
	c.k, c.p = in.At(2).Int(), in.At(3).Int()
	return c
}

func encodeTrieCase(c trieCase) Val {
	ops := Val{K: 'l'}
	for _, o := range c.ops {
		d := 0
		if o.del {
			d = 1
		}
		ops.L = append(ops.L, L(I(d), B(o.b)))
	}
	return L(ops, BL(c.queries), I(c.k), I(c.p))
}

// trieReports runs ForEach with a callback that returns false at its p-th call
// (p = 0: never) and returns copies of what was reported, in call order.
func trieReports(t *trie.Trie, p int) [][]byte {
	triePoison(t)
	var r [][]byte
	t.ForEach(func(b []byte) bool {
		r = append(r, slices.Clone(b))
		return len(r) != p
	})
	return r
}

// triePoison: a ForEach whose callback panics at its first call (the caller recovers),
// and one that is stopped at once. Whatever ForEach keeps between calls must be in
// order again for the next ForEach, on this trie or any other.
func triePoison(t *trie.Trie) {
	func() {
		defer func() { recover() }()
		t.ForEach(func([]byte) bool { panic("injected callback panic") })
	}()
	func() {
		defer func() { recover() }()
		n := 0
		t.ForEach(func([]byte) bool {
			n++
			if n == 2 {
				panic("injected callback panic")
			}
			return true
		})
	}()
	t.ForEach(func([]byte) bool { return false })
}

func trieObs(t *trie.Trie, qs [][]byte, p int) Val {
	all := trieReports(t, 0)
	sort.Slice(all, func(i, j int) bool { return bytes.Compare(all[i], all[j]) < 0 })
	has := Val{K: 'l'}
	for _, q := range qs {
		has.L = append(has.L, Bool(t.Has(slices.Clone(q))))
	}
	return L(vOk(BL(all)), has, vOk(I(len(trieReports(t, p)))))
}

func trieJSONCopy(t *trie.Trie) (*trie.Trie, error) {
	data, err := json.Marshal(t)
	if err != nil {
		return nil, err
	}
	t2 := trie.New()
	if err := json.Unmarshal(data, t2); err != nil {
		return nil, err
	}
	return t2, nil
}

// ---- the reference: the set M of the property text ---------------------------

type refSet map[string]struct{}

func (m refSet) hasPrefix(x []byte) bool {
	for s := range m {
		if len(s) >= len(x) && s[:len(x)] == string(x) {
			return true
		}
	}
	return false
}

func (m refSet) has(x []byte) bool { return len(x) == 0 || m.hasPrefix(x) }

// add reports whether M changed.
func (m refSet) add(b []byte) bool {
	if len(b) == 0 || m.hasPrefix(b) {
		return false
	}
	for s := range m {
		if len(s) < len(b) && string(b[:len(s)]) == s {
			delete(m, s)
		}
	}
	m[string(b)] = struct{}{}
	return true
}

// delete returns what Delete must return.
func (m refSet) delete(b []byte) bool {
	if len(b) == 0 {
		return true // the code's answer for the empty sequence; nothing is removed
	}
	found := false
	for s := range m {
		if len(s) >= len(b) && s[:len(b)] == string(b) {
			delete(m, s)
			found = true
		}
	}
	return found
}

func (m refSet) sorted() []string {
	r := make([]string, 0, len(m))
	for s := range m {
		r = append(r, s)
	}
	sort.Strings(r)
	return r
}

// checkTrieAgainst evaluates the observational part of the property on one trie.
func checkTrieAgainst(t *trie.Trie, m refSet, qs [][]byte, p int, what string) string {
	reports := trieReports(t, 0)
	seen := map[string]int{}
	for _, r := range reports {
		seen[string(r)]++
		if _, ok := m[string(r)]; !ok {
			return fmt.Sprintf("%s: ForEach reports %q which is not a member of M=%q", what, r, m.sorted())
		}
		if seen[string(r)] > 1 {
			return fmt.Sprintf("%s: ForEach reports %q more than once", what, r)
		}
	}
	for s := range m {
		if seen[s] == 0 {
			return fmt.Sprintf("%s: ForEach does not report member %q", what, s)
		}
	}
	if p > 0 {
		part := trieReports(t, p)
		if len(part) != min(p, len(m)) {
			return fmt.Sprintf("%s: ForEach stopped at report %d called back %d times (|M|=%d)", what, p, len(part), len(m))
		}
		dup := map[string]bool{}
		for _, r := range part {
			if _, ok := m[string(r)]; !ok || dup[string(r)] {
				return fmt.Sprintf("%s: stopped ForEach reports %q (not a member, or twice)", what, r)
			}
			dup[string(r)] = true
		}
	}
	ask := func(q []byte) string {
		q0 := slices.Clone(q)
		if got, want := t.Has(q), m.has(q); got != want {
			return fmt.Sprintf("%s: Has(%q)=%v, M=%q says %v", what, q, got, m.sorted(), want)
		}
		if !bytes.Equal(q, q0) {
			return what + ": Has modified its argument"
		}
		return ""
	}
	for _, q := range qs {
		if msg := ask(q); msg != "" {
			return msg
		}
	}
	// every prefix of a member is there; no member has an extension
	for s := range m {
		for i := 0; i <= len(s); i++ {
			if msg := ask([]byte(s[:i])); msg != "" {
				return msg
			}
		}
		for _, x := range []byte{0, 'a', 'b', 255} {
			if msg := ask(append([]byte(s), x)); msg != "" {
				return msg
			}
		}
	}
	return ""
}

// trieOracle replays the history on a fresh trie next to the reference set and
// checks every observable after every step. It also returns whether the history
// had an effective Add and an effective Delete.
func trieOracle(c trieCase) (msg string, effAdd, effDel bool) {
	t := trie.New()
	m := refSet{}
	for i, o := range c.ops {
		b0 := slices.Clone(o.b)
		b := slices.Clone(o.b)
		// the description of the step, built only when a check fails
		what := func() string {
			if o.del {
				return fmt.Sprintf("step %d Delete(%q)", i, b0)
			}
			return fmt.Sprintf("step %d Add(%q)", i, b0)
		}
		fail := func(where, msg string) (string, bool, bool) {
			return where + what() + msg, effAdd, effDel
		}
		if o.del {
			before := len(m)
			want := m.delete(b0)
			got := t.Delete(b)
			if got != want {
				return fail("", fmt.Sprintf(" returned %v, want %v", got, want))
			}
			if len(m) != before {
				effDel = true
			}
		} else {
			if m.add(b0) {
				effAdd = true
			}
			t.Add(b)
		}
		if !bytes.Equal(b, b0) {
			return fail("", " modified its argument")
		}
		if msg := checkTrieAgainst(t, m, c.queries, c.p, ""); msg != "" {
			return fail("after ", msg)
		}
		// the JSON-rebuilt trie: after every step of a short history, every k-th otherwise
		if len(c.ops) <= 60 || c.k <= 1 || (i+1)%c.k == 0 || i == len(c.ops)-1 {
			t2, err := trieJSONCopy(t)
			if err != nil {
				return fail("after ", fmt.Sprintf(": JSON round trip fails: %v", err))
			}
			if msg := checkTrieAgainst(t2, m, c.queries, c.p, ""); msg != "" {
				return fail("JSON-rebuilt trie after ", msg)
			}
			// and it keeps behaving: one more op on the copy
			if len(m) > 0 && i%3 == 0 {
				m2 := refSet{}
				first := ""
				for s := range m {
					m2[s] = struct{}{}
					if first == "" || s < first {
						first = s
					}
				}
				victim := []byte(first[:(len(first)+1)/2])
				if t2.Delete(slices.Clone(victim)) != m2.delete(victim) {
					return fail("Delete on the JSON-rebuilt trie after ", " returns the wrong result")
				}
				if msg := checkTrieAgainst(t2, m2, c.queries, 0, ""); msg != "" {
					return fail("JSON-rebuilt trie after ", fmt.Sprintf(" and Delete(%q)", victim)+msg)
				}
			}
		}
	}
	return "", effAdd, effDel
}

var kTrieHistory = register(&Kind{Name: "trie_history",
	Impl: func(in Val) Val {
		c := decodeTrieCase(in)
		t := trie.New()
		steps := Val{K: 'l'}
		for i, o := range c.ops {
			r := 0
			if o.del {
				if t.Delete(slices.Clone(o.b)) {
					r = 1
				}
			} else {
				t.Add(slices.Clone(o.b))
			}
			if (c.k > 0 && (i+1)%c.k == 0) || i == len(c.ops)-1 {
				steps.L = append(steps.L, L(I(r), trieObs(t, c.queries, c.p)))
			} else {
				steps.L = append(steps.L, L(I(r)))
			}
		}
		final := vErr
		if t2, err := trieJSONCopy(t); err == nil {
			final = vOk(trieObs(t2, c.queries, c.p))
		}
		return L(steps, final)
	},
	Oracle: func(in, out Val) string {
		if isPanic(out) {
			return "panic"
		}
		msg, _, _ := trieOracle(decodeTrieCase(in))
		return msg
	}})

// ---- generators -----------------------------------------------------------------

// trieEffective: whether the history has an Add that changes M and a Delete that
// removes a member (the non-triviality rule), by the reference alone.
func trieEffective(tc trieCase) (effAdd, effDel bool) {
	m := refSet{}
	for _, o := range tc.ops {
		if o.del {
			before := len(m)
			m.delete(o.b)
			effDel = effDel || len(m) != before
		} else if m.add(o.b) {
			effAdd = true
		}
	}
	return
}

func (c *Ctx) runTrie(tc trieCase, strata ...string) {
	effAdd, effDel := trieEffective(tc)
	c.Run(kTrieHistory, encodeTrieCase(tc), effAdd && effDel, strata...)
}

// all histories of exactly depth d over the given ops
func allHistories(ops []trieOp, d int, first []trieOp, f func([]trieOp)) {
	cur := make([]trieOp, 0, d)
	var rec func()
	rec = func() {
		if len(cur) == d {
			f(slices.Clone(cur))
			return
		}
		choices := ops
		if len(cur) == 0 && first != nil {
			choices = first
		}
		for _, o := range choices {
			cur = append(cur, o)
			rec()
			cur = cur[:len(cur)-1]
		}
	}
	rec()
}

func trieOpsOver(alphabet []byte, maxLen int) (all, effAdds []trieOp) {
	allStrings(alphabet, maxLen, func(s []byte) {
		all = append(all, trieOp{false, s}, trieOp{true, s})
		if len(s) > 0 {
			effAdds = append(effAdds, trieOp{false, s})
		}
	})
	return
}

// randTrieString: biased to share prefixes with what is in the set / was used.
func (c *Ctx) randTrieString(alphabet []byte, maxLen int, pool [][]byte) []byte {
	if len(pool) > 0 && c.Intn(10) < 6 {
		s := slices.Clone(pool[c.Intn(len(pool))])
		switch c.Intn(4) {
		case 0: // exact
		case 1: // a prefix (possibly empty, possibly all)
			s = s[:c.Intn(len(s)+1)]
		case 2: // an extension
			s = append(s, c.RandBytes(1+c.Intn(2), alphabet)...)
		case 3: // fork: common prefix then something else
			s = append(s[:c.Intn(len(s)+1)], c.RandBytes(1+c.Intn(2), alphabet)...)
		}
		if len(s) > maxLen {
			s = s[:maxLen]
		}
		return s
	}
	n := c.Intn(maxLen + 1)
	s := make([]byte, n)
	for i := range s {
		// skewed letters: the first two letters half of the time
		if c.Intn(2) == 0 {
			s[i] = alphabet[c.Intn(min(2, len(alphabet)))]
		} else {
			s[i] = alphabet[c.Intn(len(alphabet))]
		}
	}
	return s
}

func (c *Ctx) randTrieHistory(n int, alphabet []byte, maxLen int) trieCase {
	var tc trieCase
	m := refSet{}
	var pool [][]byte
	for i := 0; i < n; i++ {
		var o trieOp
		if c.Intn(100) < 55 || len(m) == 0 && c.Intn(4) != 0 {
			o = trieOp{false, c.randTrieString(alphabet, maxLen, pool)}
			m.add(o.b)
		} else {
			mem := m.sorted()
			var b []byte
			switch r := c.Intn(10); {
			case r < 3 && len(mem) > 0: // a member
				b = []byte(mem[c.Intn(len(mem))])
			case r < 6 && len(mem) > 0: // a proper prefix of a member (possibly empty)
				s := mem[c.Intn(len(mem))]
				b = []byte(s[:c.Intn(len(s))])
			case r < 8 && len(mem) > 0: // an extension of a member: absent
				b = append([]byte(mem[c.Intn(len(mem))]), c.RandBytes(1, alphabet)...)
			default:
				b = c.randTrieString(alphabet, maxLen, pool)
			}
			o = trieOp{true, b}
			m.delete(b)
		}
		tc.ops = append(tc.ops, o)
		pool = append(pool, o.b)
	}
	// queries: op strings, their prefixes and extensions, fresh strings
	nq := 8 + c.Intn(16)
	for i := 0; i < nq; i++ {
		tc.queries = append(tc.queries, c.randTrieString(alphabet, maxLen+1, pool))
	}
	tc.queries = append(tc.queries, nil)
	tc.k = 1
	if n > 40 {
		tc.k = c.Choose(7, 10, 25)
	}
	tc.p = c.Choose(0, 1, 2, 3, 5, 1000)
	return tc
}

func init() {
	registerProp("C15", "exhaustive: every history of Add/Delete of depth <= 3 over all strings of length <= 3 over {a,b} (empty string included), every history of depth 4 over strings of length <= 2 that starts with an effective Add (thorough: depth 4 over length <= 3 in full, depth 5 over length <= 2 starting with an effective Add, depth 3 over {a,b,c}); Has asked for all strings of length <= 4 over {a,b} and two with a foreign letter, ForEach, early-stopped ForEach and the JSON round trip observed after every step; random histories up to 300 steps over 5 letters with strings up to length 6 biased to share prefixes (Delete of members, proper prefixes, extensions, absent and empty strings), observed every step up to 40 steps and every k-th beyond; histories over all 256 byte values (decimal JSON keys); non-trivial = at least one Add that changes M and one Delete that removes a member", func(c *Ctx) {
		ab := []byte("ab")
		var queries [][]byte
		allStrings(ab, 4, func(s []byte) { queries = append(queries, s) })
		queries = append(queries, []byte("c"), []byte("ac"))
		n := 0
		emit := func(stratum string) func(h []trieOp) {
			return func(h []trieOp) {
				n++
				c.runTrie(trieCase{ops: h, queries: queries, k: 1, p: n % 4}, stratum)
			}
		}
		ops3, eff3 := trieOpsOver(ab, 3)
		ops2, eff2 := trieOpsOver(ab, 2)
		c.runTrie(trieCase{queries: queries, k: 1}, "exhaustive/depth=0")
		full3 := c.Pick(3, 4)
		for d := 1; d <= full3; d++ {
			allHistories(ops3, d, nil, emit(fmt.Sprintf("exhaustive/ab-len<=3/depth=%d", d)))
		}
		c.Exhaustive(fmt.Sprintf("all histories of depth <= %d over Add/Delete of the 15 strings of length <= 3 over {a,b}", full3))
		d2 := c.Pick(4, 5)
		allHistories(ops2, d2, eff2, emit(fmt.Sprintf("exhaustive/ab-len<=2/depth=%d-first-op-effective-Add", d2)))
		c.Exhaustive(fmt.Sprintf("all histories of depth %d over Add/Delete of the 7 strings of length <= 2 over {a,b} whose first op is an Add of a non-empty string", d2))
		_ = eff3
		if c.Thorough() {
			abc := []byte("abc")
			opsC, _ := trieOpsOver(abc, 2)
			qc := append(slices.Clone(queries), []byte("cc"), []byte("ca"), []byte("cb"), []byte("bc"), []byte("cab"))
			allHistories(opsC, 3, nil, func(h []trieOp) {
				n++
				c.runTrie(trieCase{ops: h, queries: qc, k: 1, p: n % 4}, "exhaustive/abc-len<=2/depth=3")
			})
			c.Exhaustive("all histories of depth 3 over Add/Delete of the 13 strings of length <= 2 over {a,b,c}")
		}

		// random long histories
		abcde := []byte("abcde")
		nr := c.Pick(1500, 20000)
		for i := 0; i < nr; i++ {
			ln := c.Choose(3, 8, 20, 40, 60, 150, 300)
			if i%2 == 0 {
				ln = 1 + c.Intn(ln)
			}
			tc := c.randTrieHistory(ln, abcde, 6)
			st := "random/len<=40-observed-every-step"
			if ln > 40 {
				st = "random/len>40-observed-every-kth-step"
			}
			c.runTrie(tc, st)
		}

		// all byte values as keys: the decimal object keys of the JSON form
		{
			var tc trieCase
			for b := 0; b < 256; b++ {
				tc.ops = append(tc.ops, trieOp{false, []byte{byte(b), byte(255 - b)}})
				tc.queries = append(tc.queries, []byte{byte(b)})
			}
			for b := 0; b < 256; b += 3 {
				tc.ops = append(tc.ops, trieOp{true, []byte{byte(b)}})
			}
			tc.k, tc.p = 64, 7
			c.runTrie(tc, "bytes256/every-key")
		}
		// long sequences (deep, unbranched paths): Delete must prune every emptied
		// ancestor however deep; lengths around 64, 256 and beyond
		for _, ln := range []int{63, 64, 65, 66, 127, 128, 129, 255, 256, 257, 1000, 4999} { // 5000 and deeper: known finding D11 (corpus/C15.txt)
			x := c.RandBytes(ln, []byte("ab"))
			y := append(append([]byte{}, x[:ln/2]...), 'c') // branches off half way down
			var tc trieCase
			tc.ops = []trieOp{{false, x}, {true, x}, {false, x}, {false, y}, {true, x}, {true, y}, {false, x}, {true, x[:1]}, {false, x}, {true, x[:ln-1]}}
			tc.queries = [][]byte{x, x[:1], x[:ln/2], x[:ln-1], y, []byte("a"), []byte("b")}
			tc.k, tc.p = 1, 2
			c.runTrie(tc, "long-sequences", fmt.Sprintf("long-sequences/len=%d", ln))
		}
		nb := c.Pick(200, 3000)
		for i := 0; i < nb; i++ {
			var alpha []byte
			if i%2 == 0 {
				alpha = []byte{0, 1, 9, 10, 47, 48, 57, 99, 100, 127, 128, 199, 200, 254, 255}
			} else {
				alpha = c.RandBytes(6, nil)
			}
			c.runTrie(c.randTrieHistory(1+c.Intn(30), alpha, 4), "bytes256/random")
		}
	})
}
