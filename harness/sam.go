package main

// Package formats/sam: C03 (records, typed tags, headers and flag bits survive
// write -> read). Kinds mirror coq/Corr/SamCorr.v.
//
// record = [qname flag rname pos mapq cigar rnext pnext tlen seq qual tags]
// tags   = [[name [type value]] ...] sorted by name; type/value:
//          [i0 i<byte>] A | [i1 i<int>] i | [i2 x<canonical float>] f |
//          [i3 x<string>] Z | [i4 x<bytes>] H
// item   = [i0 [i0 header]] | [i0 [i1 record]] | [i1]

import (
	"bytes"
	"fmt"
	"io"
	"math"
	"math/big"
	"sort"
	"strconv"
	"strings"

	"github.com/fluhus/biostuff/formats/sam"
)

func samFmtFloat(x float64) string { return strconv.FormatFloat(x, 'e', -1, 64) }

// ---- records <-> case values --------------------------------------------------

func samTagVal(v any) Val {
	switch v := v.(type) {
	case byte:
		return L(I(0), I(int(v)))
	case int:
		return L(I(1), I(v))
	case float64:
		return L(I(2), S(canonF(v)))
	case string:
		return L(I(3), S(v))
	case []byte:
		return L(I(4), B(v))
	}
	return L(I(9), S(fmt.Sprintf("%T", v)))
}

func samTagsVal(tags map[string]any) Val {
	keys := make([]string, 0, len(tags))
	for k := range tags {
		keys = append(keys, k)
	}
	sort.Strings(keys)
	r := Val{K: 'l'}
	for _, k := range keys {
		r.L = append(r.L, L(S(k), samTagVal(tags[k])))
	}
	return r
}

func samVal(s *sam.SAM) Val {
	return L(S(s.Qname), I(int(s.Flag)), S(s.Rname), I(s.Pos), I(s.Mapq), S(s.Cigar), S(s.Rnext),
		I(s.Pnext), I(s.Tlen), S(s.Seq), S(s.Qual), samTagsVal(s.Tags))
}

func samFromVal(v Val) *sam.SAM {
	s := &sam.SAM{Qname: v.At(0).Str(), Flag: sam.Flag(v.At(1).Int()), Rname: v.At(2).Str(),
		Pos: v.At(3).Int(), Mapq: v.At(4).Int(), Cigar: v.At(5).Str(), Rnext: v.At(6).Str(),
		Pnext: v.At(7).Int(), Tlen: v.At(8).Int(), Seq: v.At(9).Str(), Qual: v.At(10).Str(),
		Tags: map[string]any{}}
	for _, t := range v.At(11).List() {
		name, tv := t.At(0).Str(), t.At(1)
		if _, dup := s.Tags[name]; dup {
			panic(badCase("duplicate tag name in a record case"))
		}
		switch tv.At(0).Int() {
		case 0:
			s.Tags[name] = byte(tv.At(1).Int())
		case 1:
			s.Tags[name] = tv.At(1).Int()
		case 2:
			x, err := strconv.ParseFloat(tv.At(1).Str(), 64)
			if err != nil {
				panic(badCase("bad canonical float " + tv.At(1).Str()))
			}
			s.Tags[name] = x
		case 3:
			s.Tags[name] = tv.At(1).Str()
		case 4:
			s.Tags[name] = tv.At(1).Bytes()
		default:
			panic(badCase("bad tag type"))
		}
	}
	return s
}

func samTagEqual(a, b any) bool {
	switch a := a.(type) {
	case byte:
		b, ok := b.(byte)
		return ok && a == b
	case int:
		b, ok := b.(int)
		return ok && a == b
	case float64:
		b, ok := b.(float64)
		return ok && (math.Float64bits(a) == math.Float64bits(b) || (math.IsNaN(a) && math.IsNaN(b)))
	case string:
		b, ok := b.(string)
		return ok && a == b
	case []byte:
		b, ok := b.([]byte)
		return ok && bytes.Equal(a, b)
	}
	return false
}

// samSame: identical records (the property's "identical"), independent of the
// case-value encoding.
func samSame(a, b *sam.SAM) string {
	if a.Qname != b.Qname || a.Rname != b.Rname || a.Cigar != b.Cigar || a.Rnext != b.Rnext || a.Seq != b.Seq || a.Qual != b.Qual {
		return "a text field differs"
	}
	if a.Flag != b.Flag || a.Pos != b.Pos || a.Mapq != b.Mapq || a.Pnext != b.Pnext || a.Tlen != b.Tlen {
		return "an integer field differs"
	}
	if len(a.Tags) != len(b.Tags) {
		return fmt.Sprintf("%d tags became %d", len(a.Tags), len(b.Tags))
	}
	for k, v := range a.Tags {
		w, ok := b.Tags[k]
		if !ok {
			return fmt.Sprintf("tag %q lost", k)
		}
		if !samTagEqual(v, w) {
			return fmt.Sprintf("tag %q: %T %v became %T %v", k, v, v, w, w)
		}
	}
	return ""
}

func tsvClean(s string) bool { return !strings.ContainsAny(s, "\t\r\n") }

// samInDomain: the round-trip domain of the property (Spec/SamSpec.v sam_ok).
func samInDomain(s *sam.SAM) bool {
	for _, f := range []string{s.Qname, s.Rname, s.Cigar, s.Rnext, s.Seq, s.Qual} {
		if !tsvClean(f) {
			return false
		}
	}
	if strings.HasPrefix(s.Qname, "@") {
		return false
	}
	for k, v := range s.Tags {
		if !tsvClean(k) || strings.Contains(k, ":") {
			return false
		}
		switch v := v.(type) {
		case byte:
			if v == '\t' || v == '\r' || v == '\n' {
				return false
			}
		case string:
			if !tsvClean(v) {
				return false
			}
		}
	}
	return true
}

// ---- an independent reference reader (used by the oracles only) ------------------

func refAtoi(s string) (int, bool) {
	t := s
	if t != "" && (t[0] == '+' || t[0] == '-') {
		t = t[1:]
	}
	if t == "" {
		return 0, false
	}
	for i := 0; i < len(t); i++ {
		if t[i] < '0' || t[i] > '9' {
			return 0, false
		}
	}
	n, ok := new(big.Int).SetString(s, 10)
	if !ok || !n.IsInt64() {
		return 0, false
	}
	return int(n.Int64()), true
}

func refHex(s string) ([]byte, bool) {
	if len(s)%2 != 0 {
		return nil, false
	}
	digit := func(c byte) int { return strings.IndexByte("0123456789abcdef", c|0x20) }
	out := []byte{}
	for i := 0; i < len(s); i += 2 {
		a, b := digit(s[i]), digit(s[i+1])
		isHex := func(c byte) bool { return (c >= '0' && c <= '9') || (c >= 'a' && c <= 'f') || (c >= 'A' && c <= 'F') }
		if !isHex(s[i]) || !isHex(s[i+1]) {
			return nil, false
		}
		out = append(out, byte(a<<4|b))
	}
	return out, true
}

func refParseLine(line string) (*sam.SAM, bool) {
	f := strings.Split(line, "\t")
	if len(f) < 11 {
		return nil, false
	}
	s := &sam.SAM{Qname: f[0], Rname: f[2], Cigar: f[5], Rnext: f[6], Seq: f[9], Qual: f[10], Tags: map[string]any{}}
	var ok [5]bool
	var fl int
	fl, ok[0] = refAtoi(f[1])
	s.Flag = sam.Flag(fl)
	s.Pos, ok[1] = refAtoi(f[3])
	s.Mapq, ok[2] = refAtoi(f[4])
	s.Pnext, ok[3] = refAtoi(f[7])
	s.Tlen, ok[4] = refAtoi(f[8])
	for _, o := range ok {
		if !o {
			return nil, false
		}
	}
	for _, t := range f[11:] {
		p := strings.SplitN(t, ":", 3)
		if len(p) < 3 {
			return nil, false
		}
		switch p[1] {
		case "A":
			if len(p[2]) != 1 {
				return nil, false
			}
			s.Tags[p[0]] = p[2][0]
		case "i":
			n, ok := refAtoi(p[2])
			if !ok {
				return nil, false
			}
			s.Tags[p[0]] = n
		case "f":
			x, err := strconv.ParseFloat(p[2], 64)
			if err != nil {
				return nil, false
			}
			s.Tags[p[0]] = x
		case "Z", "B":
			s.Tags[p[0]] = p[2]
		case "H":
			h, ok := refHex(p[2])
			if !ok {
				return nil, false
			}
			s.Tags[p[0]] = h
		default:
			return nil, false
		}
	}
	return s, true
}

var samErrItem = L(I(1))

func samHdrItem(h string) Val     { return L(I(0), L(I(0), S(h))) }
func samRecItem(s *sam.SAM) Val   { return L(I(0), L(I(1), samVal(s))) }
func samRecOnly(s *sam.SAM) Val   { return L(I(0), samVal(s)) }
func samItemsVal(items []Val) Val { return Val{K: 'l', L: items} }

// refRead: what ReaderHeader (hdr=true) / Reader must return for the delivered
// bytes and terminal condition, by the documented behaviour.
func refRead(data []byte, isErr, hdr bool) Val {
	var items []Val
	parts := strings.Split(string(data), "\n")
	for i, line := range parts {
		if i == len(parts)-1 && isErr {
			items = append(items, samErrItem)
			break
		}
		line = strings.TrimSuffix(line, "\r")
		if line == "" {
			continue
		}
		if line[0] == '@' {
			if hdr {
				items = append(items, samHdrItem(line))
			}
			continue
		}
		s, ok := refParseLine(line)
		switch {
		case !ok:
			items = append(items, samErrItem)
		case hdr:
			items = append(items, samRecItem(s))
		default:
			items = append(items, samRecOnly(s))
		}
	}
	return samItemsVal(items)
}

// ---- running the readers -----------------------------------------------------------

func samReaderFor(data []byte, isErr bool) io.Reader {
	if isErr {
		return &faultReader{data: data, forever: len(data)%2 == 0, chunk: len(data) % 5}
	}
	if len(data)%3 == 0 {
		return &chunkReader{data: data, chunks: []int{1, 0, 2, 5}, withEOF: len(data)%2 == 0}
	}
	return bytes.NewReader(data)
}

func samRunReaderHeader(data []byte, isErr bool) Val {
	var items []Val
	limit := len(data) + 10
	for sh, err := range sam.ReaderHeader(samReaderFor(data, isErr)) {
		switch {
		case err != nil:
			items = append(items, samErrItem)
		case sh.H != nil && sh.S == nil:
			items = append(items, samHdrItem(*sh.H))
		case sh.S != nil && sh.H == nil:
			items = append(items, samRecItem(sh.S))
		default:
			return L(I(3), S("neither or both of H and S set without an error"))
		}
		if len(items) > limit {
			return L(I(3), S("more items than input bytes"))
		}
	}
	return samItemsVal(items)
}

func samRunReader(data []byte, isErr bool) Val {
	var items []Val
	limit := len(data) + 10
	for s, err := range sam.Reader(samReaderFor(data, isErr)) {
		switch {
		case err != nil:
			items = append(items, samErrItem)
		case s != nil:
			items = append(items, samRecOnly(s))
		default:
			return L(I(3), S("nil record without an error"))
		}
		if len(items) > limit {
			return L(I(3), S("more items than input bytes"))
		}
	}
	return samItemsVal(items)
}

type chunkRecorder struct{ chunks [][]byte }

func (w *chunkRecorder) Write(p []byte) (int, error) {
	w.chunks = append(w.chunks, append([]byte{}, p...))
	return len(p), nil
}

// ---- kinds ----------------------------------------------------------------------

var kSamWrite = register(&Kind{Name: "sam_write",
	Project: func(out Val) Val { return L(joinChunks(out.At(0)), out.At(1)) },
	Impl: func(in Val) Val {
		s := samFromVal(in.At(0))
		poison := &sam.SAM{Qname: "poison", Rname: "chrP", Cigar: "*", Rnext: "*", Seq: "NNNN", Qual: "!!!!", Tags: map[string]any{"PZ": "poison"}}
		poisonWriters(func(w io.Writer) error { return poison.Write(w) })
		func() { // a tag of an unsupported type makes the writers panic
			defer func() { recover() }()
			bad := &sam.SAM{Qname: "bad", Rname: "chrX", Cigar: "*", Rnext: "*", Seq: "N", Qual: "*", Tags: map[string]any{"ZZ": struct{}{}, "AA": "first"}}
			bad.MarshalText()
		}()
		func() {
			defer func() { recover() }()
			bad := &sam.SAM{Qname: "bad", Rname: "chrX", Cigar: "*", Rnext: "*", Seq: "N", Qual: "*", Tags: map[string]any{"ZZ": []int{1}}}
			bad.Write(&chunkRecorder{})
		}()
		w := &chunkRecorder{}
		if err := s.Write(w); err != nil {
			return L(I(3), S("Write to a good writer failed"))
		}
		mt, err := s.MarshalText()
		if err != nil {
			return L(BL(w.chunks), vErr)
		}
		if !marshalKeeps(mt, func() {
			(&sam.SAM{Qname: "another record", Rname: "chrZ", Cigar: "200M", Rnext: "=", Seq: strings.Repeat("T", 200), Qual: "*",
				Tags: map[string]any{"ZZ": "other"}}).MarshalText()
		}) {
			return L(BL(w.chunks), vMarshalAliased)
		}
		return L(BL(w.chunks), vOk(B(mt)))
	},
	Oracle: func(in, out Val) string {
		s := samFromVal(in.At(0))
		if out.At(0).K != 'l' || !isOk(out.At(1)) {
			return "Write/MarshalText failed: " + out.String()
		}
		chunks := out.At(0).BytesList()
		text := out.At(1).At(1).Bytes()
		if !bytes.Equal(bytes.Join(chunks, nil), text) {
			return "MarshalText differs from the bytes written by Write"
		}
		if !samInDomain(s) {
			return ""
		}
		// one line
		if bytes.Count(text, []byte{'\n'}) != 1 || text[len(text)-1] != '\n' {
			return "record does not occupy exactly one line"
		}
		fields := strings.Split(string(text[:len(text)-1]), "\t")
		if len(fields) != 11+len(s.Tags) {
			return fmt.Sprintf("%d fields written for %d tags", len(fields), len(s.Tags))
		}
		if !sort.StringsAreSorted(fields[11:]) {
			return "tags are not written sorted"
		}
		// write -> read
		n := 0
		for sh, err := range sam.ReaderHeader(bytes.NewReader(text)) {
			n++
			if n > 1 {
				return "more than one item read back"
			}
			if err != nil {
				return "read back: error " + err.Error()
			}
			if sh.S == nil || sh.H != nil {
				return "read back: not a record"
			}
			if msg := samSame(s, sh.S); msg != "" {
				return "read back: " + msg
			}
		}
		if n != 1 {
			return "nothing read back"
		}
		n = 0
		for s2, err := range sam.Reader(bytes.NewReader(text)) {
			n++
			if n > 1 || err != nil || s2 == nil || samSame(s, s2) != "" {
				return "Reader: did not return exactly the record"
			}
		}
		if n != 1 {
			return "Reader: nothing read back"
		}
		return ""
	}})

var kSamReadHdr = register(&Kind{Name: "sam_readhdr",
	Impl: func(in Val) Val { return samRunReaderHeader(in.At(0).Bytes(), in.At(1).Int() == 1) },
	Oracle: func(in, out Val) string {
		want := refRead(in.At(0).Bytes(), in.At(1).Int() == 1, true)
		if want.String() != out.String() {
			return "ReaderHeader differs from the reference reader: want " + clip(want.String())
		}
		return ""
	}})

var kSamRead = register(&Kind{Name: "sam_read",
	Impl: func(in Val) Val { return samRunReader(in.At(0).Bytes(), in.At(1).Int() == 1) },
	Oracle: func(in, out Val) string {
		want := refRead(in.At(0).Bytes(), in.At(1).Int() == 1, false)
		if want.String() != out.String() {
			return "Reader differs from the reference reader: want " + clip(want.String())
		}
		return ""
	}})

func samFileText(in Val) ([]byte, []string, []*sam.SAM) {
	var buf bytes.Buffer
	eol := in.At(2).Bytes()
	var hs []string
	for _, h := range in.At(0).BytesList() {
		hs = append(hs, string(h))
		buf.Write(h)
		buf.Write(eol)
	}
	var rs []*sam.SAM
	for _, rv := range in.At(1).List() {
		s := samFromVal(rv)
		rs = append(rs, s)
		var b bytes.Buffer
		s.Write(&b)
		t := b.Bytes()
		if len(t) > 0 {
			t = t[:len(t)-1]
		}
		buf.Write(t)
		buf.Write(eol)
	}
	return buf.Bytes(), hs, rs
}

var kSamFile = register(&Kind{Name: "sam_file",
	Impl: func(in Val) Val {
		text, _, _ := samFileText(in)
		return L(B(text), samRunReaderHeader(text, false), samRunReader(text, false))
	},
	Oracle: func(in, out Val) string {
		text, hs, rs := samFileText(in)
		eol := in.At(2).Str()
		if eol != "\n" && eol != "\r\n" {
			return ""
		}
		for _, h := range hs {
			if !strings.HasPrefix(h, "@") || strings.Contains(h, "\n") || strings.HasSuffix(h, "\r") {
				return ""
			}
		}
		for _, s := range rs {
			if !samInDomain(s) {
				return ""
			}
		}
		// ReaderHeader: line for line, in order, headers verbatim
		i := 0
		for sh, err := range sam.ReaderHeader(bytes.NewReader(text)) {
			if err != nil {
				return fmt.Sprintf("item %d: error %v", i, err)
			}
			switch {
			case i < len(hs):
				if sh.H == nil || sh.S != nil || *sh.H != hs[i] {
					return fmt.Sprintf("item %d: header not returned verbatim", i)
				}
			case i < len(hs)+len(rs):
				if sh.S == nil || sh.H != nil {
					return fmt.Sprintf("item %d: not a record", i)
				}
				if msg := samSame(rs[i-len(hs)], sh.S); msg != "" {
					return fmt.Sprintf("item %d: %s", i, msg)
				}
			default:
				return "more items than lines"
			}
			i++
		}
		if i != len(hs)+len(rs) {
			return fmt.Sprintf("%d items for %d lines", i, len(hs)+len(rs))
		}
		i = 0
		for s, err := range sam.Reader(bytes.NewReader(text)) {
			if err != nil || s == nil || i >= len(rs) || samSame(rs[i], s) != "" {
				return fmt.Sprintf("Reader item %d: not exactly the records", i)
			}
			i++
		}
		if i != len(rs) {
			return fmt.Sprintf("Reader: %d items for %d records", i, len(rs))
		}
		return ""
	}})

// flags, in the order of the SAM specification (0x1 .. 0x800)
var samGetters = []func(sam.Flag) bool{
	sam.Flag.Multiple, sam.Flag.Each, sam.Flag.Unmapped, sam.Flag.Unmapped2,
	sam.Flag.ReverseComplement, sam.Flag.ReverseComplement2, sam.Flag.First, sam.Flag.Last,
	sam.Flag.Secondary, sam.Flag.NotPassing, sam.Flag.Duplicate, sam.Flag.Supplementary}

var samSetters = []func(*sam.Flag, bool){
	(*sam.Flag).SetMultiple, (*sam.Flag).SetEach, (*sam.Flag).SetUnmapped, (*sam.Flag).SetUnmapped2,
	(*sam.Flag).SetReverseComplement, (*sam.Flag).SetReverseComplement2, (*sam.Flag).SetFirst, (*sam.Flag).SetLast,
	(*sam.Flag).SetSecondary, (*sam.Flag).SetNotPassing, (*sam.Flag).SetDuplicate, (*sam.Flag).SetSupplementary}

var samFlagConsts = []sam.Flag{sam.FlagMultiple, sam.FlagEach, sam.FlagUnmapped, sam.FlagUnmapped2,
	sam.FlagReverseComplement, sam.FlagReverseComplement2, sam.FlagFirst, sam.FlagLast,
	sam.FlagSecondary, sam.FlagNotPassing, sam.FlagDuplicate, sam.FlagSupplementary}

var kSamFlagGet = register(&Kind{Name: "sam_flag_get",
	Impl: func(in Val) Val {
		f := sam.Flag(in.Int())
		r := Val{K: 'l'}
		for _, g := range samGetters {
			r.L = append(r.L, Bool(g(f)))
		}
		return r
	},
	Oracle: func(in, out Val) string {
		f := uint64(in.Int())
		for i, v := range out.List() {
			if v.Int() != int(f>>uint(i)&1) {
				return fmt.Sprintf("accessor %d does not read bit %#x", i, 1<<uint(i))
			}
		}
		if len(out.List()) != 12 {
			return "want 12 accessors"
		}
		for i, c := range samFlagConsts {
			if int(c) != 1<<uint(i) {
				return fmt.Sprintf("constant %d is %#x", i, int(c))
			}
		}
		return ""
	}})

var kSamFlagSet = register(&Kind{Name: "sam_flag_set",
	Impl: func(in Val) Val {
		v := in.At(1).Int() != 0
		r := Val{K: 'l'}
		for _, set := range samSetters {
			f := sam.Flag(in.At(0).Int())
			set(&f, v)
			r.L = append(r.L, I(int(f)))
		}
		return r
	},
	Oracle: func(in, out Val) string {
		f0 := in.At(0).Int()
		v := in.At(1).Int() != 0
		if len(out.List()) != 12 {
			return "want 12 setters"
		}
		for i, o := range out.List() {
			want := f0 &^ (1 << uint(i))
			if v {
				want = f0 | 1<<uint(i)
			}
			if o.Int() != want {
				return fmt.Sprintf("setter %d(%v) on %#x gives %#x, want %#x", i, v, f0, o.Int(), want)
			}
			// every accessor after every setter: only the one bit may differ
			for j, g := range samGetters {
				wantBit := uint64(f0)>>uint(j)&1 == 1
				if j == i {
					wantBit = v
				}
				if g(sam.Flag(o.Int())) != wantBit {
					return fmt.Sprintf("after setter %d(%v) on %#x accessor %d reads %v", i, v, f0, j, !wantBit)
				}
			}
		}
		return ""
	}})

// ---- generators -----------------------------------------------------------------

// samScanTokens registers every candidate float token of an input text: for
// every line, every TAB-separated field, the text after the second ':'.
func samScanTokens(o *FloatOracle, data []byte) {
	for _, line := range strings.Split(string(data), "\n") {
		line = strings.TrimSuffix(line, "\r")
		for _, f := range strings.Split(line, "\t") {
			c1 := strings.IndexByte(f, ':')
			if c1 < 0 {
				continue
			}
			c2 := strings.IndexByte(f[c1+1:], ':')
			if c2 < 0 {
				continue
			}
			o.Token(f[c1+1+c2+1:])
		}
	}
}

func samRecordOracle(o *FloatOracle, s *sam.SAM) {
	for _, v := range s.Tags {
		if x, ok := v.(float64); ok {
			o.Float(x)
		}
	}
}

var samIntPool = []int{0, 1, -1, 2, 7, 16, 99, 255, 4095, 1 << 31, -(1 << 31), 1<<31 - 1, 1 << 32,
	math.MaxInt64, math.MinInt64, math.MaxInt64 - 1, math.MinInt64 + 1, 1000000007, -42}

func (c *Ctx) samInt() int {
	if c.Intn(4) == 0 {
		return int(c.Rng.Uint64())
	}
	return samIntPool[c.Intn(len(samIntPool))]
}

// samText: a text field free of TAB/CR/LF over the full byte domain, biased to
// double quotes at the start / middle / end, empty fields and "*".
func (c *Ctx) samText(maxLen int) string {
	switch c.Intn(12) {
	case 0:
		return ""
	case 1:
		return "*"
	case 2:
		return "\""
	}
	var b []byte
	n := c.Intn(maxLen + 1)
	switch c.Intn(3) {
	case 0:
		b = c.RandBytes(n, nil)
	case 1:
		b = c.RandBytes(n, []byte("ACGTN!#IJ=*0123456789MIDS:@\"' ,;"))
	default:
		b = c.RandBytes(n, []byte("abcXYZ019._-/|"))
	}
	for i := range b {
		if b[i] == '\t' || b[i] == '\r' || b[i] == '\n' {
			b[i] = byte("\"\x00\x0b\x0c\x7f\xff"[c.Intn(6)])
		}
	}
	switch c.Intn(6) {
	case 0:
		b = append([]byte{'"'}, b...)
	case 1:
		b = append(b, '"')
	case 2:
		if len(b) > 0 {
			b[len(b)/2] = '"'
		}
	case 3:
		b = append(append([]byte{'"'}, b...), '"')
	}
	return string(b)
}

var samTagNames = []string{"NM", "AS", "XS", "MD", "RG", "X0", "X1", "XA", "ZZ", "co", "", "N", "N!", "N M", "N\"", "\"q", "XX9", "\xc3\xa9", "\xff", "@x", "nm"}

func (c *Ctx) samTagValue() any {
	switch c.Intn(5) {
	case 0:
		if c.Intn(3) == 0 {
			return byte(c.Intn(256))
		}
		return []byte("Aa!~\" :\x00\x7f\x80\xc3\xff@")[c.Intn(13)]
	case 1:
		return c.samInt()
	case 2:
		return c.RandFloat()
	case 3:
		if c.Intn(5) == 0 {
			return ""
		}
		return c.samText(12)
	}
	if c.Intn(4) == 0 {
		return []byte{}
	}
	return c.RandBytes(c.Intn(6), nil)
}

func (c *Ctx) samRecord() *sam.SAM {
	s := &sam.SAM{Qname: c.samText(10), Flag: sam.Flag(c.samInt()), Rname: c.samText(6), Pos: c.samInt(),
		Mapq: c.samInt(), Cigar: c.samText(8), Rnext: c.samText(4), Pnext: c.samInt(), Tlen: c.samInt(),
		Seq: c.samText(30), Qual: c.samText(30), Tags: map[string]any{}}
	if c.Intn(3) == 0 {
		s.Flag = sam.Flag(c.Intn(4096))
	}
	for strings.HasPrefix(s.Qname, "@") {
		s.Qname = s.Qname[1:]
	}
	nt := c.Intn(7)
	for i := 0; i < nt; i++ {
		name := samTagNames[c.Intn(len(samTagNames))]
		if c.Intn(6) == 0 {
			name = strings.ReplaceAll(c.samText(3), ":", "")
		}
		v := c.samTagValue()
		if b, ok := v.(byte); ok && (b == '\t' || b == '\r' || b == '\n') {
			v = byte('"')
		}
		s.Tags[name] = v
	}
	return s
}

// samSpoil takes a record out of the round-trip domain.
func (c *Ctx) samSpoil(s *sam.SAM) string {
	bad := []string{"\t", "\r", "\n", "\r\n", "a\tb", "x\n@y"}[c.Intn(6)]
	switch c.Intn(6) {
	case 0:
		s.Qname = "@" + s.Qname
		return "qname-at"
	case 1:
		s.Qname += bad
	case 2:
		s.Qual = bad + s.Qual
	case 3:
		s.Tags["X"+bad] = 5
	case 4:
		s.Tags["Y:"] = "v"
		return "tagname-colon"
	case 5:
		s.Tags["ZQ"] = "a" + bad
	}
	return "delimiter-inside"
}

func samWriteCase(s *sam.SAM) Val {
	o := newFloatOracle(samFmtFloat)
	samRecordOracle(o, s)
	return L(samVal(s), o.Val())
}

func samReadCase(data []byte, isErr bool) Val {
	o := newFloatOracle(samFmtFloat)
	samScanTokens(o, data)
	return L(B(data), termVal(isErr), o.Val())
}

func samText(s *sam.SAM) []byte {
	b, _ := s.MarshalText()
	return b
}

var samBadInts = []string{"", "+", "-", "1.5", "9223372036854775808", "-9223372036854775809", "+5", "-0", "007", "0x10", " 1", "1 ", "1_000", "1e3", "٣", "--1", "+-1", "99999999999999999999999"}

var samOddTags = []string{"XX", "XX:i", "XX:i:abc", "XX:i:", "XX:i:+7", "XX:i:-0", "XX:i:9223372036854775808", "XX:A:ab", "XX:A:", "XX:A::", "XX:A:\xc3\xa9", "XX:A:\xff",
	"XX:H:abc", "XX:H:zz", "XX:H:AbCd", "XX:H:", "XX:H:0g", "XX:H:g", "XX:H:00ff7F", "XX:Q:1", "XX:B:c,1,2", "XX:B:", "XX:f:1e999", "XX:f:nan", "XX:f:NaN", "XX:f:0x1p-2", "XX:f:1_0",
	"XX:f:", "XX:f:inf", "XX:f:+Inf", "XX:f:-infinity", "XX:f:1e-400", "XX:f:.5", "XX:f:5.", "XX:f:1e", "XX:f:0x1_0p0", "XX:f: 1", "XX:f:1:2", "XX:f:-0", "XX:f:4.9e-324", "XX:f:1.7976931348623157e308", "XX:f:1.7976931348623159e308",
	"XX::5", ":i:5", "::", ":::", ":", "", "a:b:c:d", "XX:Z:a:b:c", "XX:Z:", "XX:ii:5", "XX:I:5", "XX:z:5", "\xc3\xa9:Z:x", "\xff:Z:\xfe", "X\xe2\x80\xa8:Z:y", "XX:\xc3\xa9:1", "XX:Z:\"q", "\"X:Z:q\"",
	"XX:i:1\tXX:i:2", "XX:i:1\tXX:Z:s", "XX:Z:b\tXX:Z:a"}

func (c *Ctx) samMalformed() ([]byte, string) {
	s := c.samRecord()
	if c.Intn(2) == 0 {
		s.Tags = map[string]any{}
	}
	line := strings.TrimSuffix(string(samText(s)), "\n")
	f := strings.Split(line, "\t")
	kind := ""
	switch c.Intn(6) {
	case 0:
		f = f[:c.Intn(11)]
		kind = "too-few-fields"
	case 1:
		if len(f) >= 11 {
			f[[]int{1, 3, 4, 7, 8}[c.Intn(5)]] = samBadInts[c.Intn(len(samBadInts))]
		}
		kind = "bad-int"
	case 2, 3:
		f = append(f[:min(11, len(f))], samOddTags[c.Intn(len(samOddTags))])
		if c.Intn(2) == 0 {
			f = append(f, samOddTags[c.Intn(len(samOddTags))])
		}
		kind = "odd-tag"
	case 4:
		f = f[:min(11, len(f))]
		if c.Intn(2) == 0 {
			f = append(f, "")
		}
		kind = "exactly-11-or-empty-tag"
	case 5:
		// grammar soup
		n := c.Intn(40)
		b := c.RandBytes(n, []byte("\t\t\t::AifZHB1-@\r\n\"x.0e+"))
		return b, "soup"
	}
	return []byte(strings.Join(f, "\t")), kind
}

func init() {
	registerProp("C03", "records over the full byte domain outside TAB/CR/LF (quotes at start/middle/end, empty fields, '*'), ints incl. int64 edges, 0..6 tags of the five types incl. NaN/Inf/-0/subnormals/empty Z and H: written (chunks of Write, MarshalText) and read back through ReaderHeader and Reader, with LF / CRLF / unterminated / failing-stream variants; records outside the domain (model agreement only); files of 0..4 headers + 0..5 records with LF or CRLF; malformed lines (too few fields, bad ints, odd tags, grammar soup) mixed with good lines; flags: all 4096 values x 12 accessors, x 12 setters x {true,false} with all 12 accessors re-read after each setter, plus random 64-bit values; non-trivial = a record with at least one tag or a quote, a file with at least two lines, any malformed line, any flag case", func(c *Ctx) {
		// --- fixed cases (the D2 / D8 inputs and a few edges)
		fixed := []*sam.SAM{
			{Qname: "\"q", Rname: "chr1", Pos: 1, Mapq: 30, Cigar: "4M", Rnext: "*", Seq: "ACGT", Qual: "\"!!!", Tags: map[string]any{"XX": 77}},
			{Qname: "q\"", Rname: "\"", Cigar: "\"\"", Rnext: "a\"b", Seq: "\"", Qual: "!\"#", Tags: map[string]any{"XA": byte(0xc3), "XB": byte('"'), "XZ": "\"", "XH": []byte{}, "XE": ""}},
			{Tags: map[string]any{}},
			{Qname: "r", Flag: 4095, Pos: math.MaxInt64, Mapq: math.MinInt64, Pnext: -1 << 31, Tlen: 1 << 31, Tags: map[string]any{
				"F0": math.NaN(), "F1": math.Inf(1), "F2": math.Inf(-1), "F3": math.Copysign(0, -1), "F4": 5e-324, "F5": math.MaxFloat64, "F6": 1e21}},
			{Qname: "s", Tags: map[string]any{"N": 1, "N!": 2, "N:": 3}},
		}
		for _, s := range fixed {
			c.Run(kSamWrite, samWriteCase(s), true, "fixed")
			t := samText(s)
			c.Run(kSamReadHdr, samReadCase(t, false), true, "fixed")
			c.Run(kSamRead, samReadCase(t, false), true, "fixed")
			c.Run(kSamReadHdr, samReadCase(t, true), true, "fixed/fault")
		}
		for _, t := range []string{"", "\n", "\r\n", "\r", "@", "@\n", "@HD\tVN:1.6\r\n", "\n\n@a\n\n", "a\r\r\n", "@h\r\r\n", "\r\r\n", " @x\n",
			"q\t0\t*\t0\t0\t*\t*\t0\t0\t*\t*", "q\t0\t*\t0\t0\t*\t*\t0\t0\t*\t*\r", "q\t0\t*\t0\t0\t*\t*\t0\t0\t*\t*\t\n", "q\t0\t*\t0\t0\t*\t*\t0\t0\t*\n",
			"q\t0\t*\t0\t0\t*\t*\t0\t0\t*\t*\tXX:i:77\n", "q\t0\t*\t0\t0\t*\t*\t0\t0\t*\t*\tXX:i:7", "bad\n@h\nq\t0\t*\t0\t0\t*\t*\t0\t0\t*\t*\nbad2\n"} {
			for _, e := range []bool{false, true} {
				c.Run(kSamReadHdr, samReadCase([]byte(t), e), true, "fixed/text")
				c.Run(kSamRead, samReadCase([]byte(t), e), true, "fixed/text")
			}
		}

		// --- random records
		n := c.Pick(1500, 20000)
		for i := 0; i < n; i++ {
			s := c.samRecord()
			strat := "record/in-domain"
			if c.Intn(10) == 0 {
				strat = "record/outside:" + c.samSpoil(s)
			}
			nontriv := len(s.Tags) > 0 || strings.Contains(string(samText(s)), "\"")
			c.Run(kSamWrite, samWriteCase(s), nontriv, strat, fmt.Sprintf("tags=%d", len(s.Tags)))
			t := samText(s)
			switch c.Intn(5) {
			case 0:
				t = append(t[:len(t)-1], '\r', '\n')
				strat += "/crlf"
			case 1:
				t = t[:len(t)-1]
				strat += "/unterminated"
			}
			isErr := c.Intn(6) == 0
			if isErr {
				t = t[:c.Intn(len(t)+1)]
				strat += "/fault"
			}
			c.Run(kSamReadHdr, samReadCase(t, isErr), nontriv, "read:"+strat)
			if c.Intn(2) == 0 {
				c.Run(kSamRead, samReadCase(t, isErr), nontriv, "read:"+strat)
			}
		}

		// --- long lines (past bufio's 4096-byte buffer and 64 KiB)
		for _, n := range []int{4095, 4096, 4097, 70000} {
			s := c.samRecord()
			s.Seq = string(c.RandBytes(n, []byte("ACGT\"")))
			s.Qual = string(c.RandBytes(n, []byte("!\"#I")))
			c.Run(kSamWrite, samWriteCase(s), true, "record/long-line")
			c.Run(kSamReadHdr, samReadCase(samText(s), false), true, "read:record/long-line")
			c.Run(kSamReadHdr, samReadCase(samText(s)[:n+n/2], true), true, "read:record/long-line/fault")
		}

		// exhaustive small scope: every tail over {a TAB LF : i 1 @ A} up to a length after
		// the first nine fields of an alignment line (the SEQ, QUAL and tag region), and
		// every short input over {@ a TAB LF CR} from the start of the stream
		{
			tailLen := c.Pick(5, 6)
			allStrings([]byte("a\t\n:i1@A"), tailLen, func(t []byte) {
				s := append([]byte("q\t0\tr\t1\t2\tc\t=\t3\t4\t"), t...)
				c.Run(kSamReadHdr, samReadCase(s, false), true, "read:exhaustive-tail")
			})
			allStrings([]byte("@a\t\n\r"), 6, func(s []byte) {
				c.Run(kSamReadHdr, samReadCase(s, false), len(s) >= 2, "read:exhaustive-head")
				if len(s) <= 4 {
					c.Run(kSamRead, samReadCase(s, true), len(s) >= 2, "read:exhaustive-head-fault")
				}
			})
			c.Exhaustive(fmt.Sprintf("sam_readhdr: all tails over {a TAB LF : i 1 @ A} of length <= %d after nine fields; all inputs over {@ a TAB LF CR} of length <= 6", tailLen))
		}

		// very long lines, implementation and oracle only (a reader with a fixed
		// line-length limit, e.g. a 1 MiB buffer, breaks here)
		{
			k := *kSamWrite
			k.NoModel = true
			for _, n := range []int{1 << 20, 1<<20 + 1, c.Pick(2<<20+3, 9<<20+1)} {
				s := c.samRecord()
				s.Seq = string(c.RandBytes(n, []byte("ACGT")))
				s.Qual = "*"
				c.Run(&k, samWriteCase(s), true, "record/very-long-line-impl-only")
			}
		}

		// --- files
		n = c.Pick(500, 5000)
		for i := 0; i < n; i++ {
			var hs [][]byte
			for j := c.Intn(5); j > 0; j-- {
				h := "@" + []string{"HD\tVN:1.6\tSO:coordinate", "SQ\tSN:chr1\tLN:100", "CO\t\"quoted\" text", "PG\tID:\"x\tCL:a \"b\" c", "", "@", "CO\t"}[c.Intn(7)]
				if c.Intn(4) == 0 {
					h += c.samText(8)
				}
				h = strings.TrimRight(h, "\r")
				hs = append(hs, []byte(h))
			}
			o := newFloatOracle(samFmtFloat)
			rs := Val{K: 'l'}
			for j := c.Intn(6); j > 0; j-- {
				s := c.samRecord()
				samRecordOracle(o, s)
				rs.L = append(rs.L, samVal(s))
			}
			eol := "\n"
			if c.Intn(3) == 0 {
				eol = "\r\n"
			}
			in := L(BL(hs), rs, S(eol), o.Val())
			// the record texts may contain further float-looking tokens (Z values)
			text, _, _ := samFileText(in)
			samScanTokens(o, text)
			in = L(BL(hs), rs, S(eol), o.Val())
			c.Run(kSamFile, in, len(hs)+len(rs.L) >= 2, "file/eol="+strconv.Quote(eol), fmt.Sprintf("file/h=%d,r=%d", len(hs), len(rs.L)))
			if c.Intn(4) == 0 && len(text) > 0 {
				cut := c.Intn(len(text) + 1)
				c.Run(kSamReadHdr, samReadCase(text[:cut], true), true, "file/fault")
				c.Run(kSamRead, samReadCase(text[:cut], c.Intn(2) == 0), true, "file/cut")
			}
		}

		// --- malformed lines mixed with good ones
		n = c.Pick(2500, 30000)
		for i := 0; i < n; i++ {
			var buf bytes.Buffer
			strat := ""
			for j := 1 + c.Intn(3); j > 0; j-- {
				switch c.Intn(4) {
				case 0:
					buf.Write(samText(c.samRecord()))
				case 1:
					buf.WriteString([]string{"\n", "\r\n", "@CO\tx\n", "@\r\n"}[c.Intn(4)])
				default:
					b, k := c.samMalformed()
					strat = "malformed/" + k
					buf.Write(b)
					buf.WriteString([]string{"\n", "\r\n", ""}[c.Intn(3)])
				}
			}
			if strat == "" {
				strat = "malformed/none"
			}
			isErr := c.Intn(8) == 0
			c.Run(kSamReadHdr, samReadCase(buf.Bytes(), isErr), true, strat)
			if c.Intn(3) == 0 {
				c.Run(kSamRead, samReadCase(buf.Bytes(), isErr), true, strat)
			}
		}
		// every odd tag once, alone
		for _, t := range samOddTags {
			line := "q\t0\t*\t0\t0\t*\t*\t0\t0\t*\t*\t" + t + "\n"
			c.Run(kSamReadHdr, samReadCase([]byte(line), false), true, "malformed/odd-tag-sweep")
		}
		for _, t := range samBadInts {
			for _, k := range []int{1, 3, 4, 7, 8} {
				f := strings.Split("q\t0\t*\t0\t0\t*\t*\t0\t0\t*\t*", "\t")
				f[k] = t
				c.Run(kSamReadHdr, samReadCase([]byte(strings.Join(f, "\t")+"\n"), false), true, "malformed/bad-int-sweep")
			}
		}
		// every byte value as an 'A' value, as a tag type, and in a field
		for b := 0; b < 256; b++ {
			for _, line := range []string{
				"q\t0\t*\t0\t0\t*\t*\t0\t0\t*\t*\tXX:A:" + string([]byte{byte(b)}) + "\n",
				"q\t0\t*\t0\t0\t*\t*\t0\t0\t*\t*\tXX:" + string([]byte{byte(b)}) + ":1\n",
				string([]byte{byte(b)}) + "q\t0\t*\t0\t0\t" + string([]byte{byte(b)}) + "\t*\t0\t0\t*\t*" + string([]byte{byte(b)}) + "\n",
				"q\t0\t*\t0\t0\t*\t*\t0\t0\t*\t*\tXX:H:0" + string([]byte{byte(b)}) + "\n",
			} {
				c.Run(kSamReadHdr, samReadCase([]byte(line), false), true, "byte-sweep")
			}
			s := &sam.SAM{Qname: "q", Tags: map[string]any{"XX": byte(b), "XH": []byte{byte(b)}}}
			c.Run(kSamWrite, samWriteCase(s), true, "byte-sweep/write")
		}
		c.Exhaustive("all 256 byte values as 'A' value (read and write), as tag type, as hex digit, as first/last field byte")

		// --- flags
		for f := 0; f < 4096; f++ {
			c.Run(kSamFlagGet, I(f), true, "flags/all-4096")
			c.Run(kSamFlagSet, L(I(f), I(0)), true, "flags/all-4096")
			c.Run(kSamFlagSet, L(I(f), I(1)), true, "flags/all-4096")
		}
		c.Exhaustive("all 4096 flag values x 12 accessors; x 12 setters x {true,false}, all 12 accessors re-read after each")
		n = c.Pick(1000, 10000)
		for i := 0; i < n; i++ {
			f := int(c.Rng.Uint64())
			switch c.Intn(8) {
			case 0:
				f = []int{math.MaxInt64, math.MinInt64, -1, -4096, 4096, 1 << 62, -1 << 62}[c.Intn(7)]
			}
			c.Run(kSamFlagGet, I(f), true, "flags/random-64-bit")
			c.Run(kSamFlagSet, L(I(f), I(c.Intn(2))), true, "flags/random-64-bit")
		}
	})
}
