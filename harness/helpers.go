package main

// Shared helpers for the per-family harness files: float oracles, fault-injecting
// and chunking readers, limited writers, item collection with a cap.

import (
	"bytes"
	"errors"
	"io"
	"math"
	"sort"
	"strconv"
)

// ---- float oracle (coq/Base.v [foracle]) ------------------------------------

// canonF is the identity of a float64 in the model: its shortest 'g' text.
func canonF(x float64) string { return strconv.FormatFloat(x, 'g', -1, 64) }

func sameF(a, b float64) bool { return a == b || (math.IsNaN(a) && math.IsNaN(b)) }

// FloatOracle collects, for one case, the answers of the real strconv: which
// candidate tokens parse (and to which float), and how each float is written by
// the writer under test.
type FloatOracle struct {
	parse map[string]string
	fmt   map[string]string
	fmtFn func(float64) string
}

func newFloatOracle(fmtFn func(float64) string) *FloatOracle {
	return &FloatOracle{parse: map[string]string{}, fmt: map[string]string{}, fmtFn: fmtFn}
}

// Token records the answer of strconv.ParseFloat for a candidate token.
func (o *FloatOracle) Token(tok string) {
	if x, err := strconv.ParseFloat(tok, 64); err == nil {
		o.parse[tok] = canonF(x)
		o.Float(x)
	}
}

// Float records how x is written, and that the written text parses.
func (o *FloatOracle) Float(x float64) string {
	c := canonF(x)
	if _, ok := o.fmt[c]; !ok {
		t := o.fmtFn(x)
		o.fmt[c] = t
		o.Token(t)
	}
	return c
}

func (o *FloatOracle) Val() Val {
	pk := make([]string, 0, len(o.parse))
	for k := range o.parse {
		pk = append(pk, k)
	}
	sort.Strings(pk)
	p := Val{K: 'l'}
	for _, k := range pk {
		p.L = append(p.L, L(S(k), S(o.parse[k])))
	}
	fk := make([]string, 0, len(o.fmt))
	for k := range o.fmt {
		fk = append(fk, k)
	}
	sort.Strings(fk)
	f := Val{K: 'l'}
	for _, k := range fk {
		f.L = append(f.L, L(S(k), S(o.fmt[k])))
	}
	return L(p, f)
}

// splitRuns returns the maximal runs of bytes of s that are not in delims.
func splitRuns(s []byte, delims string) []string {
	var r []string
	start := -1
	isDelim := func(b byte) bool {
		for i := 0; i < len(delims); i++ {
			if delims[i] == b {
				return true
			}
		}
		return false
	}
	for i, b := range s {
		if isDelim(b) {
			if start >= 0 {
				r = append(r, string(s[start:i]))
				start = -1
			}
		} else if start < 0 {
			start = i
		}
	}
	if start >= 0 {
		r = append(r, string(s[start:]))
	}
	return r
}

// interesting float64 values
var floatPool = []float64{0, math.Copysign(0, -1), 1, -1, 0.5, 3.1415, 1.07e-05, 1e21, 1e20, 123456789, 1e-7, 5e-324,
	math.MaxFloat64, -math.MaxFloat64, math.Inf(1), math.Inf(-1), math.NaN(), 2.2250738585072014e-308, 100, -2.5e-10}

func (c *Ctx) RandFloat() float64 {
	if c.Intn(3) == 0 {
		return floatPool[c.Intn(len(floatPool))]
	}
	switch c.Intn(3) {
	case 0:
		return float64(c.Intn(2000)-1000) / 8
	case 1:
		return math.Float64frombits(c.Rng.Uint64())
	}
	return c.Rng.NormFloat64() * math.Pow(10, float64(c.Intn(40)-20))
}

// ---- readers ------------------------------------------------------------------

var errInjected = errors.New("injected read fault")

// chunkReader delivers data in the given chunk sizes (then in one piece); a
// chunk size of 0 is a zero-length read. withEOF: the last data is returned
// together with io.EOF.
type chunkReader struct {
	data    []byte
	chunks  []int
	withEOF bool
}

func (r *chunkReader) Read(p []byte) (int, error) {
	if len(r.data) == 0 {
		return 0, io.EOF
	}
	n := len(r.data)
	if len(r.chunks) > 0 {
		n = r.chunks[0]
		r.chunks = r.chunks[1:]
	}
	n = min(n, len(p), len(r.data))
	copy(p, r.data[:n])
	r.data = r.data[n:]
	if len(r.data) == 0 && r.withEOF {
		return n, io.EOF
	}
	return n, nil
}

// faultReader delivers data[:k] and then fails: once (then EOF) or forever.
type faultReader struct {
	data     []byte
	forever  bool
	failed   bool
	chunk    int
	together bool // the last bytes are returned together with the error (allowed by io.Reader)
	err      error // the error to fail with (errInjected when nil)
	resume   []byte // after failing once the reader recovers and delivers these bytes, then io.EOF
}

func (r *faultReader) fault() error {
	if r.err != nil {
		return r.err
	}
	return errInjected
}

func (r *faultReader) Read(p []byte) (int, error) {
	if r.together && !r.failed && len(r.data) > 0 && len(r.data) <= len(p) && (r.chunk == 0 || len(r.data) <= r.chunk) {
		n := copy(p, r.data)
		r.data = nil
		r.failed = true
		return n, r.fault()
	}
	if len(r.data) == 0 {
		if r.forever || !r.failed {
			r.failed = true
			return 0, r.fault()
		}
		if len(r.resume) > 0 {
			r.data, r.resume = r.resume, nil
		} else {
			return 0, io.EOF
		}
	}
	n := min(len(p), len(r.data))
	if r.chunk > 0 {
		n = min(n, r.chunk)
	}
	copy(p, r.data[:n])
	r.data = r.data[n:]
	return n, nil
}

// limitWriter accepts limit bytes in total, then fails.
type limitWriter struct {
	limit int
	buf   []byte
}

var errWriteInjected = errors.New("injected write fault")

func (w *limitWriter) Write(p []byte) (int, error) {
	if len(w.buf)+len(p) > w.limit {
		n := w.limit - len(w.buf)
		w.buf = append(w.buf, p[:n]...)
		return n, errWriteInjected
	}
	w.buf = append(w.buf, p...)
	return len(p), nil
}

func termVal(isErr bool) Val {
	if isErr {
		return I(1)
	}
	return I(0)
}

// marshalKeeps reports whether a MarshalText result is still intact after further
// MarshalText calls on other records (a result that aliases a pooled or shared
// buffer is overwritten by the next call).
func marshalKeeps(first []byte, other func()) bool {
	snapshot := append([]byte(nil), first...)
	for i := 0; i < 3; i++ {
		other()
	}
	return bytes.Equal(first, snapshot)
}

var vMarshalAliased = L(I(3), S("a MarshalText result is overwritten by later MarshalText calls"))

// ---- "poison then use" ---------------------------------------------------------
// Before the call that is observed, the writers are used once in ways that fail: a
// destination that errors at once, one that errors after a few bytes, one that
// panics. All of it is recovered and ignored. Internal state that survives a failed
// call (a pooled buffer that is only reset on success, a cached partial result) then
// shows in the observed call.

type panicWriter struct{ after int }

func (w *panicWriter) Write(p []byte) (int, error) {
	if w.after <= 0 {
		panic("injected writer panic")
	}
	w.after--
	return len(p), nil
}

func poisonWriters(write func(w io.Writer) error) {
	// the last ones fail at the first byte: a writer that makes a single Write call must end up failed
	for _, w := range []io.Writer{&panicWriter{after: 1}, &limitWriter{limit: 3}, &panicWriter{after: 0}, &limitWriter{limit: 0}} {
		func() {
			defer func() { recover() }()
			write(w)
		}()
	}
}

// fullButFailingWriter accepts every byte it is given (n == len(p)) but returns an
// error from the call in which the total reaches failAt: a legal io.Writer.
type fullButFailingWriter struct {
	failAt int
	n      int
}

func (w *fullButFailingWriter) Write(p []byte) (int, error) {
	before := w.n
	w.n += len(p)
	if before <= w.failAt && w.failAt < w.n {
		return len(p), errWriteInjected
	}
	return len(p), nil
}
