package main

// Package formats/bed: C04 (BED lines with 3..12 fields survive write -> read).
// Kinds mirror coq/Corr/BedCorr.v.

import (
	"bytes"
	"fmt"
	"io"
	"math"
	"os"
	"path/filepath"
	"slices"
	"strconv"
	"strings"

	"github.com/fluhus/biostuff/formats/bed"
)

// ---- case values ------------------------------------------------------------

// A record: [N chrom start end name score strand thickStart thickEnd [r g b]
// blockCount [sizes] [starts]] — always all twelve fields and N.
func bedVal(b *bed.BED) Val {
	return L(I(b.N), S(b.Chrom), I(b.ChromStart), I(b.ChromEnd), S(b.Name), I(b.Score),
		S(b.Strand), I(b.ThickStart), I(b.ThickEnd),
		L(I(int(b.ItemRGB[0])), I(int(b.ItemRGB[1])), I(int(b.ItemRGB[2]))),
		I(b.BlockCount), IL(b.BlockSizes), IL(b.BlockStarts))
}

func valBed(v Val) *bed.BED {
	rgb := v.At(9)
	return &bed.BED{N: v.At(0).Int(), Chrom: v.At(1).Str(), ChromStart: v.At(2).Int(), ChromEnd: v.At(3).Int(),
		Name: v.At(4).Str(), Score: v.At(5).Int(), Strand: v.At(6).Str(), ThickStart: v.At(7).Int(),
		ThickEnd:   v.At(8).Int(),
		ItemRGB:    [3]byte{byte(rgb.At(0).Int()), byte(rgb.At(1).Int()), byte(rgb.At(2).Int())},
		BlockCount: v.At(10).Int(), BlockSizes: v.At(11).IntList(), BlockStarts: v.At(12).IntList()}
}

// chunkWriter records every Write call.
type chunkWriter struct{ chunks [][]byte }

func (w *chunkWriter) Write(p []byte) (int, error) {
	w.chunks = append(w.chunks, slices.Clone(p))
	return len(p), nil
}

func bedItems(r io.Reader, limit int) Val {
	// retain every yielded record until the iteration is over, then encode
	type pair struct {
		b   *bed.BED
		err error
	}
	var got []pair
	capHit := false
	for b, err := range bed.Reader(r) {
		got = append(got, pair{b, err})
		if len(got) > limit {
			capHit = true
			break
		}
	}
	items := Val{K: 'l'}
	for _, g := range got {
		if g.err != nil {
			items.L = append(items.L, vErr)
		} else {
			items.L = append(items.L, vOk(bedVal(g.b)))
		}
	}
	if capHit {
		items.L = append(items.L, L(I(3), S("item cap hit")))
	}
	return items
}

// ---- the property's domain and expectation, independently of the model ------

func cleanText(s string) bool { return !strings.ContainsAny(s, "\t\r\n") }

// inDomain: the first N fields are populated as C04 requires (DESIGN.md section
// 1 "Boundaries": the block lists as written have length BlockCount).
func bedInDomain(b *bed.BED) bool {
	n := b.N
	if n < 3 || n > 12 {
		return false
	}
	if !cleanText(b.Chrom) || strings.HasPrefix(b.Chrom, "#") {
		return false
	}
	if n > 3 && !cleanText(b.Name) {
		return false
	}
	if n > 5 && b.Strand != "" && b.Strand != "+" && b.Strand != "-" && b.Strand != "." {
		return false
	}
	count, sizes, starts := 0, 0, 0
	if n > 9 {
		count = b.BlockCount
	}
	if n > 10 {
		sizes = len(b.BlockSizes)
	}
	if n > 11 {
		starts = len(b.BlockStarts)
	}
	return sizes == count && starts == count
}

// firstN is the record the property promises after write -> read: the first N
// fields, zero values beyond.
func bedFirstN(b *bed.BED) *bed.BED {
	r := &bed.BED{N: b.N, Chrom: b.Chrom, ChromStart: b.ChromStart, ChromEnd: b.ChromEnd}
	if b.N > 3 {
		r.Name = b.Name
	}
	if b.N > 4 {
		r.Score = b.Score
	}
	if b.N > 5 {
		r.Strand = b.Strand
	}
	if b.N > 6 {
		r.ThickStart = b.ThickStart
	}
	if b.N > 7 {
		r.ThickEnd = b.ThickEnd
	}
	if b.N > 8 {
		r.ItemRGB = b.ItemRGB
	}
	if b.N > 9 {
		r.BlockCount = b.BlockCount
	}
	if b.N > 10 {
		r.BlockSizes = b.BlockSizes
	}
	if b.N > 11 {
		r.BlockStarts = b.BlockStarts
	}
	return r
}

func bedSame(a, b *bed.BED) string {
	switch {
	case a.N != b.N:
		return fmt.Sprintf("N is %d, want %d", a.N, b.N)
	case a.Chrom != b.Chrom:
		return "Chrom differs"
	case a.ChromStart != b.ChromStart:
		return "ChromStart differs"
	case a.ChromEnd != b.ChromEnd:
		return "ChromEnd differs"
	case a.Name != b.Name:
		return fmt.Sprintf("Name is %q, want %q", a.Name, b.Name)
	case a.Score != b.Score:
		return "Score differs"
	case a.Strand != b.Strand:
		return fmt.Sprintf("Strand is %q, want %q", a.Strand, b.Strand)
	case a.ThickStart != b.ThickStart:
		return "ThickStart differs"
	case a.ThickEnd != b.ThickEnd:
		return "ThickEnd differs"
	case a.ItemRGB != b.ItemRGB:
		return "ItemRGB differs"
	case a.BlockCount != b.BlockCount:
		return "BlockCount differs"
	case !slices.Equal(a.BlockSizes, b.BlockSizes): // nil == empty
		return "BlockSizes differ"
	case !slices.Equal(a.BlockStarts, b.BlockStarts):
		return "BlockStarts differ"
	}
	return ""
}

// readBack reads text with the real reader and compares with the expected records.
func bedReadBack(text []byte, want []*bed.BED) string {
	i := 0
	for got, err := range bed.Reader(bytes.NewReader(text)) {
		if err != nil {
			return fmt.Sprintf("reading back record %d of %q: %v", i, clipBytes(text), err)
		}
		if i >= len(want) {
			return "more records read than written"
		}
		if msg := bedSame(got, want[i]); msg != "" {
			return fmt.Sprintf("record %d read back from %q: %s", i, clipBytes(text), msg)
		}
		i++
	}
	if i != len(want) {
		return fmt.Sprintf("%d records read back, %d written", i, len(want))
	}
	return ""
}

func clipBytes(b []byte) string {
	if len(b) > 120 {
		return string(b[:120]) + "..."
	}
	return string(b)
}

// ---- kinds ------------------------------------------------------------------

// bed_write: record -> [i0 [[chunks] bytes]] | [i1]
var kBedWrite = register(&Kind{Name: "bed_write",
	Project: func(out Val) Val {
		if !isOk(out) {
			return out
		}
		return vOk(out.At(1).At(1))
	},
	Impl: func(in Val) Val {
		b := valBed(in)
		poisonWriters(func(w io.Writer) error {
			return (&bed.BED{N: 6, Chrom: "poison", ChromStart: 1, ChromEnd: 2, Name: "lost", Strand: "+"}).Write(w)
		})
		w := &chunkWriter{}
		err := b.Write(w)
		mt, merr := b.MarshalText()
		if merr == nil && !marshalKeeps(mt, func() {
			(&bed.BED{N: 6, Chrom: "another-record", ChromStart: 123456, ChromEnd: 654321, Name: strings.Repeat("T", 200), Strand: "+"}).MarshalText()
		}) {
			return vMarshalAliased
		}
		if err != nil {
			if len(w.chunks) > 0 {
				return L(I(3), S("Write returned an error after emitting bytes"))
			}
			if merr == nil || len(mt) > 0 {
				return L(I(3), S("Write fails, MarshalText does not"))
			}
			return vErr
		}
		all := bytes.Join(w.chunks, nil)
		if merr != nil || !bytes.Equal(mt, all) {
			return L(I(3), S("MarshalText differs from Write"))
		}
		return vOk(L(BL(w.chunks), B(all)))
	},
	Oracle: func(in, out Val) string {
		b := valBed(in)
		if b.N < 3 || b.N > 12 {
			if out.String() != vErr.String() {
				return fmt.Sprintf("N=%d outside 3..12 is not refused with nothing emitted: %s", b.N, clip(out.String()))
			}
			return ""
		}
		if !bedInDomain(b) {
			return ""
		}
		if !isOk(out) {
			return "record in the domain is not written: " + clip(out.String())
		}
		line := out.At(1).At(1).Bytes()
		if bytes.Count(line, []byte("\n")) != 1 || line[len(line)-1] != '\n' {
			return fmt.Sprintf("written text %q is not one line ending in LF", clipBytes(line))
		}
		if got := bytes.Count(line, []byte("\t")); got != b.N-1 {
			return fmt.Sprintf("written line %q has %d tab-separated fields, want N=%d", clipBytes(line), got+1, b.N)
		}
		return bedReadBack(line, []*bed.BED{bedFirstN(b)})
	}})

// bed_file: [records] -> [i0 items] | [i1]   (write all, read the text back)
var kBedFile = register(&Kind{Name: "bed_file",
	Impl: func(in Val) Val {
		buf := &bytes.Buffer{}
		for _, rv := range in.List() {
			if err := valBed(rv).Write(buf); err != nil {
				return vErr
			}
		}
		return vOk(bedItems(bytes.NewReader(buf.Bytes()), len(in.List())+8))
	},
	Oracle: func(in, out Val) string {
		var recs, want []*bed.BED
		if len(in.List()) == 0 {
			return ""
		}
		for _, rv := range in.List() {
			b := valBed(rv)
			if !bedInDomain(b) || b.N != valBed(in.At(0)).N {
				return "" // outside the property's domain
			}
			recs = append(recs, b)
			want = append(want, bedFirstN(b))
		}
		if !isOk(out) {
			return "file of records in the domain is not written"
		}
		wantItems := Val{K: 'l'}
		for _, w := range want {
			wantItems.L = append(wantItems.L, vOk(bedVal(w)))
		}
		if out.At(1).String() != wantItems.String() {
			return fmt.Sprintf("file of %d records with N=%d does not read back as written", len(recs), valBed(in.At(0)).N)
		}
		// the same through MarshalText, also with CRLF line ends and without the final LF
		var text []byte
		for _, b := range recs {
			mt, err := b.MarshalText()
			if err != nil {
				return "MarshalText fails on a record in the domain"
			}
			text = append(text, mt...)
		}
		if msg := bedReadBack(text, want); msg != "" {
			return "MarshalText: " + msg
		}
		if msg := bedReadBack(bytes.ReplaceAll(text, []byte("\n"), []byte("\r\n")), want); msg != "" {
			return "CRLF line ends: " + msg
		}
		if msg := bedReadBack(bytes.TrimSuffix(text, []byte("\n")), want); msg != "" {
			return "no final LF: " + msg
		}
		// and read back from a file with bed.File (small files only)
		if len(text) < 1<<16 {
			dir, err := os.MkdirTemp("", "verif-c04-")
			if err != nil {
				panic(badCase("cannot create a temp dir"))
			}
			defer os.RemoveAll(dir)
			path := filepath.Join(dir, "in.bed")
			if err := os.WriteFile(path, text, 0o644); err != nil {
				panic(badCase("cannot write the temp file"))
			}
			var got []*bed.BED
			for b, err := range bed.File(path) {
				if err != nil {
					return "bed.File: error on a written file"
				}
				got = append(got, b)
				if len(got) > len(want)+4 {
					break
				}
			}
			if len(got) != len(want) {
				return fmt.Sprintf("bed.File reads %d records of a written file of %d", len(got), len(want))
			}
			for i := range got {
				if bedVal(got[i]).String() != bedVal(want[i]).String() {
					return fmt.Sprintf("bed.File: record %d does not read back as written", i)
				}
			}
		}
		return ""
	}})

// bed_decode: [bytes term] -> items
var kBedDecode = register(&Kind{Name: "bed_decode",
	Impl: func(in Val) Val {
		data := in.At(0).Bytes()
		var r io.Reader = bytes.NewReader(data)
		if in.At(1).Int() == 1 {
			r = &faultReader{data: data, forever: len(data)%2 == 0, chunk: 1 + len(data)%7}
		}
		return bedItems(r, bytes.Count(data, []byte("\n"))+8)
	},
	Oracle: func(in, out Val) string {
		// Invariants of any BED reading (not the model): records share one N in
		// 3..12, fields beyond N are zero, block lists match the count, an error
		// is the last item; a failing stream ends with exactly one error.
		items := out.List()
		n := 0
		for i, it := range items {
			if it.At(0).Int() == 3 {
				return "iteration did not end"
			}
			if it.At(0).Int() == 1 {
				if i != len(items)-1 {
					return "items after an error"
				}
				continue
			}
			b := valBed(it.At(1))
			if b.N < 3 || b.N > 12 {
				return "record with N outside 3..12"
			}
			if n != 0 && b.N != n {
				return "records with different N"
			}
			n = b.N
			if msg := bedSame(b, bedFirstN(b)); msg != "" {
				return "field beyond N is not zero: " + msg
			}
			if len(b.BlockSizes) != b.BlockCount || len(b.BlockStarts) != b.BlockCount {
				return "block list length differs from BlockCount"
			}
		}
		if in.At(1).Int() == 1 && (len(items) == 0 || items[len(items)-1].At(0).Int() != 1) {
			return "failing stream: iteration does not end with an error"
		}
		return ""
	}})

// bed_parseuint: token -> [i0 v] | [i1]: strconv.ParseUint(tok, 0, 8), the
// standard-library leaf of the RGB field, against the model's parse_uint8.
var kBedParseUint = register(&Kind{Name: "bed_parseuint",
	Impl: func(in Val) Val {
		v, err := strconv.ParseUint(in.Str(), 0, 8)
		if err != nil {
			return vErr
		}
		return vOk(I(int(v)))
	},
	Oracle: func(in, out Val) string {
		// the contract the round trip relies on: the decimal text of a byte parses to it
		tok := in.Str()
		for v := 0; v < 256; v++ {
			if tok == fmt.Sprint(byte(v)) {
				if !isOk(out) || out.At(1).Int() != v {
					return "decimal text of a byte does not parse to that byte"
				}
			}
		}
		return ""
	}})

// ---- generators ---------------------------------------------------------------

var bedIntPool = []int{0, 1, -1, 7, 10, 99, 1000, -1000, 1 << 31, -(1 << 31), 1<<31 - 1, 1 << 32,
	math.MaxInt64, math.MinInt64, math.MaxInt64 - 1, math.MinInt64 + 1, 123456789012345678}

func (c *Ctx) bedInt() int {
	if c.Intn(3) == 0 {
		return int(c.Rng.Uint64())
	}
	return bedIntPool[c.Intn(len(bedIntPool))]
}

var bedRGBPool = []byte{0, 1, 9, 10, 99, 100, 255, 8, 64, 128, 200, 254}

func (c *Ctx) bedByte() byte {
	if c.Intn(4) == 0 {
		return byte(c.Intn(256))
	}
	return bedRGBPool[c.Intn(len(bedRGBPool))]
}

// text free of TAB/CR/LF, biased to bytes that trouble line/CSV readers
var bedTextAlphabet = []byte("\"\"##  ,,;:'\\+-._0123456789abcXYZchr\x00\x01\x7f\x80\xc3\xff\x0b\x0c")

// words that other BED tools give a meaning to (UCSC header lines, placeholders,
// byte-order marks): to this library they are ordinary field values
var bedWords = []string{"track", "track7", "browser", "browser position chr1:1-100", "track name=x", ".", "..", "-", "+", "*",
	"chr1", "chrM", "\xef\xbb\xbfchr1", "\xef\xbb\xbf", "0", "-1", "1e3", "0x10", "NA", "null", "nil", "//", "/*"}

func (c *Ctx) bedText(allowHash bool) string {
	var s []byte
	switch c.Intn(9) {
	case 8:
		return bedWords[c.Intn(len(bedWords))]
	case 0:
		s = nil
	case 1:
		s = c.RandBytes(1+c.Intn(40), nil)
	default:
		s = c.RandBytes(c.Choose(1, 1, 2, 3, 5, 8), bedTextAlphabet)
	}
	for i := range s {
		if s[i] == '\t' || s[i] == '\r' || s[i] == '\n' {
			s[i] = '"'
		}
	}
	if !allowHash && len(s) > 0 && s[0] == '#' {
		s[0] = 'c'
	}
	return string(s)
}

func (c *Ctx) bedInts(n int) []int {
	r := make([]int, n)
	for i := range r {
		r[i] = c.bedInt()
	}
	if n == 0 && c.Intn(2) == 0 {
		return nil
	}
	return r
}

var bedStrands = []string{"", "+", "-", "."}

// bedRecord returns a record with the given N in the domain of C04 (when n is
// in 3..12). Fields beyond N are filled with arbitrary (also illegal) values:
// they must not be written.
func (c *Ctx) bedRecord(n int) *bed.BED {
	b := &bed.BED{N: n, Chrom: c.bedText(false), ChromStart: c.bedInt(), ChromEnd: c.bedInt(),
		Name: c.bedText(true), Score: c.bedInt(), Strand: bedStrands[c.Intn(4)],
		ThickStart: c.bedInt(), ThickEnd: c.bedInt(),
		ItemRGB: [3]byte{c.bedByte(), c.bedByte(), c.bedByte()}}
	count := c.Choose(0, 0, 1, 2, 3, 5)
	b.BlockCount = count
	b.BlockSizes = c.bedInts(count)
	b.BlockStarts = c.bedInts(count)
	// empty optional fields
	if c.Intn(4) == 0 {
		b.Name = ""
	}
	switch {
	case n == 10:
		b.BlockCount = 0 // the reader sees no block lists
	case n == 11:
		b.BlockCount, b.BlockSizes = 0, nil // BlockStarts is not written
	}
	// beyond N: garbage
	if n < 12 && c.Intn(2) == 0 {
		b.BlockStarts = c.bedInts(c.Intn(4))
	}
	if n < 11 && c.Intn(2) == 0 {
		b.BlockSizes = c.bedInts(c.Intn(4))
	}
	if n < 10 && c.Intn(2) == 0 {
		b.BlockCount = c.bedInt()
	}
	if n < 6 && c.Intn(2) == 0 {
		b.Strand = c.bedText(true) + "\t\n"
	}
	if n < 4 && c.Intn(2) == 0 {
		b.Name = "x\ty\r\n"
	}
	return b
}

var bedUintTokens = []string{"", "0", "1", "9", "10", "99", "100", "255", "256", "300", "00", "01", "007", "08", "0377", "0400",
	"0x", "0x0", "0xff", "0xFF", "0XfF", "0x100", "0x_f", "0x_", "0xf_", "0x1_0", "0b", "0b1", "0b11111111", "0b100000000",
	"0B101", "0b2", "0o", "0o7", "0o377", "0o400", "0O17", "0o8", "1_0", "1__0", "_1", "1_", "0_7", "0__7", "0_", "_", "+1", "-1",
	"-0", " 1", "1 ", "1.0", "1e2", "a", "ff", "0xg", "2_5_5", "2_5_6", "18446744073709551616", "0000000000000000000000255",
	"0x0000000000000000000000ff", "1\x00", "\xff", "٣", "0b_1", "0o_7", "0_x1", "0x1__1", "0_0", "0b1_", "0x_1_f"}

func (c *Ctx) bedUintToken() string {
	switch c.Intn(4) {
	case 0:
		return bedUintTokens[c.Intn(len(bedUintTokens))]
	case 1:
		return strconv.Itoa(c.Intn(300))
	}
	return string(c.RandBytes(c.Choose(1, 2, 3, 3, 4, 5, 7), []byte("0011257899_xXbBoOafF-+ g")))
}

// a candidate field text for field i (0-based) of a malformed line
func (c *Ctx) bedFieldText(i int) string {
	if c.Intn(10) == 0 {
		return ""
	}
	intText := func() string {
		switch c.Intn(8) {
		case 0:
			return []string{"", "+", "-", "+5", "-0", "007", "1e3", "0x10", "1_000", " 1", "9223372036854775808",
				"-9223372036854775809", "9223372036854775807", "-9223372036854775808", "12a", "٣", "--1"}[c.Intn(17)]
		}
		return strconv.Itoa(c.bedInt())
	}
	list := func() string {
		n := c.Choose(0, 1, 1, 2, 3, 5)
		parts := make([]string, n)
		for j := range parts {
			parts[j] = intText()
		}
		s := strings.Join(parts, ",")
		if c.Intn(6) == 0 {
			s += "," // BED files in the wild end block lists with a comma
		}
		return s
	}
	switch i {
	case 0, 3:
		return c.bedText(true)
	case 5:
		return []string{"", "+", "-", ".", "+", "-", "++", "*", "+-", " "}[c.Intn(10)]
	case 8:
		n := c.Choose(3, 3, 3, 3, 3, 1, 2, 4)
		parts := make([]string, n)
		for j := range parts {
			if c.Intn(3) == 0 {
				parts[j] = c.bedUintToken()
			} else {
				parts[j] = strconv.Itoa(int(c.bedByte()))
			}
		}
		return strings.Join(parts, ",")
	case 10, 11:
		return list()
	}
	return intText()
}

// a line of n fields that is valid more often than not
func (c *Ctx) bedLooseLine(n int) string {
	f := make([]string, n)
	for i := range f {
		f[i] = c.bedFieldText(i % 12)
	}
	if n > 9 && c.Intn(3) > 0 { // make the block counts agree most of the time
		k := 0
		if n > 10 && f[10] != "" {
			k = strings.Count(f[10], ",") + 1
		}
		f[9] = strconv.Itoa(k)
		if n > 11 {
			parts := make([]string, k)
			for j := range parts {
				parts[j] = strconv.Itoa(c.Intn(1000))
			}
			f[11] = strings.Join(parts, ",")
		}
	}
	return strings.Join(f, "\t")
}

func init() {
	registerProp("C04", "for every N in 3..12 (one stratum each) records in the domain (text over a hostile alphabet incl. double quotes, '#' inside, 0x00, 0xFF; ints incl. int64 extremes; RGB over boundary bytes; 0..5 blocks; empty optionals; garbage beyond N) through Write/MarshalText (chunks) and through write->read of files of 1..5 records sharing one N; N outside 3..12; out-of-domain records; reader inputs: written files re-laid (CRLF, no final LF, blank and comment lines), loosely valid and malformed lines (wrong field counts, bad ints, bad RGB, block-count mismatches), arbitrary bytes, failing streams cut at every kind of offset; strconv.ParseUint(_,0,8) tokens (pool, all decimals 0..300, exhaustive short strings over a prefix/underscore alphabet). Non-trivial = a record with 3<=N<=12 in the domain (write/file), an input with at least one TAB (decode), a non-empty token (parseuint)", func(c *Ctx) {
		// 1. write and write->read, per N
		perN := c.Pick(120, 1500)
		for n := 3; n <= 12; n++ {
			for i := 0; i < perN; i++ {
				b := c.bedRecord(n)
				st := fmt.Sprintf("N=%d", n)
				c.Run(kBedWrite, bedVal(b), true, "write/"+st)
				recs := []Val{bedVal(b)}
				k := c.Choose(0, 0, 1, 2, 4)
				for j := 0; j < k; j++ {
					recs = append(recs, bedVal(c.bedRecord(n)))
				}
				c.Run(kBedFile, L(recs...), true, "file/"+st, fmt.Sprintf("file/records=%d", len(recs)))
			}
		}
		// minimal records for every N: everything empty / zero
		for n := 3; n <= 12; n++ {
			b := &bed.BED{N: n}
			c.Run(kBedWrite, bedVal(b), true, "write/zero-record")
			c.Run(kBedFile, L(bedVal(b), bedVal(b)), true, "file/zero-record")
		}
		c.Run(kBedFile, L(), false, "file/empty")
		// long lines: past bufio's 4096-byte buffer and past 64 KiB (a reader that
		// only handles lines that fit a buffer breaks here)
		for _, ln := range []int{4000, 4090, 4095, 4096, 4097, 8192, 65535, 65536, 70000} {
			n := 4 + c.Intn(9)
			b := c.bedRecord(n)
			b.Name = string(c.RandBytes(ln, []byte("abcXYZ\"#,;' ")))
			small := c.bedRecord(n)
			c.Run(kBedFile, L(bedVal(small), bedVal(b), bedVal(small)), true, "file/long-line", fmt.Sprintf("file/long-line-%d", ln))
		}
		{
			k := *kBedFile
			k.NoModel = true
			for _, ln := range []int{1 << 20, 1<<20 + 1, c.Pick(2<<20+3, 9<<20+1)} {
				b := c.bedRecord(4)
				b.Name = string(c.RandBytes(ln, []byte("abcXYZ ")))
				c.Run(&k, L(bedVal(c.bedRecord(4)), bedVal(b), bedVal(c.bedRecord(4))), true, "file/very-long-line-impl-only")
			}
		}
		for _, blocks := range []int{300, 450, 1200, 9000} {
			b := c.bedRecord(12)
			b.BlockCount, b.BlockSizes, b.BlockStarts = blocks, c.bedInts(blocks), c.bedInts(blocks)
			c.Run(kBedFile, L(bedVal(b), bedVal(c.bedRecord(12))), true, "file/long-line", fmt.Sprintf("file/many-blocks-%d", blocks))
		}
		// 2. N outside 3..12
		for _, n := range []int{-1, 0, 1, 2, 13, 14, 100, -12, math.MaxInt64, math.MinInt64} {
			for i := 0; i < c.Pick(5, 40); i++ {
				b := c.bedRecord(12)
				b.N = n
				c.Run(kBedWrite, bedVal(b), true, "write/N-outside")
				c.Run(kBedFile, L(bedVal(c.bedRecord(5)), bedVal(b)), false, "file/N-outside")
			}
		}
		// 3. records outside the domain: model == implementation only
		for i := 0; i < c.Pick(300, 3000); i++ {
			n := 3 + c.Intn(10)
			b := c.bedRecord(n)
			strat := ""
			switch c.Intn(6) {
			case 0:
				b.Chrom = "#" + b.Chrom
				strat = "chrom-hash"
			case 1:
				b.Name += string("\t\r\n"[c.Intn(3)]) + c.bedText(true)
				strat = "name-delimiter"
			case 2:
				b.Chrom += string("\t\r\n"[c.Intn(3)])
				strat = "chrom-delimiter"
			case 3:
				b.Strand = c.bedText(true)
				strat = "strand-free"
			case 4:
				b.BlockCount = c.Choose(0, 1, 2, 3, -1)
				b.BlockSizes = c.bedInts(c.Intn(4))
				b.BlockStarts = c.bedInts(c.Intn(4))
				strat = "block-mismatch"
			case 5:
				strat = "mixed-N"
			}
			if strat == "mixed-N" {
				c.Run(kBedFile, L(bedVal(c.bedRecord(n)), bedVal(c.bedRecord(3+c.Intn(10))), bedVal(c.bedRecord(n))), false, "file/mixed-N")
				continue
			}
			c.Run(kBedWrite, bedVal(b), false, "write/outside-domain/"+strat)
			c.Run(kBedFile, L(bedVal(c.bedRecord(n)), bedVal(b), bedVal(c.bedRecord(n))), false, "file/outside-domain/"+strat)
		}
		// 4. reader inputs
		term := func() Val { return termVal(c.Intn(5) == 0) }
		nDec := c.Pick(1500, 15000)
		for i := 0; i < nDec; i++ {
			n := 3 + c.Intn(10)
			var lines []string
			k := c.Choose(0, 1, 1, 2, 3, 5)
			strat := ""
			switch c.Intn(5) {
			case 0, 1: // written records, re-laid
				strat = "relaid"
				for j := 0; j < k; j++ {
					mt, _ := c.bedRecord(n).MarshalText()
					lines = append(lines, strings.TrimSuffix(string(mt), "\n"))
				}
			case 2: // loosely valid lines of one width
				strat = "loose"
				for j := 0; j < k; j++ {
					lines = append(lines, c.bedLooseLine(n))
				}
			case 3: // widths vary: 0..14 fields
				strat = "widths"
				for j := 0; j < k; j++ {
					w := n
					if c.Intn(3) == 0 {
						w = c.Choose(1, 2, 3, n-1, n+1, 12, 13, 14)
					}
					lines = append(lines, c.bedLooseLine(max(w, 1)))
				}
			case 4: // arbitrary bytes over a delimiter-rich alphabet
				strat = "bytes"
				lines = append(lines, string(c.RandBytes(c.Intn(60), []byte("\t\t\t\n\r#01259,+-.ac_x\"\xff"))))
			}
			// interleave blank and comment lines
			var sb strings.Builder
			for j, l := range lines {
				for c.Intn(6) == 0 {
					sb.WriteString([]string{"", "#", "# comment\twith\ttabs", "#\r", "\r"}[c.Intn(5)])
					sb.WriteString("\n")
				}
				sb.WriteString(l)
				last := j == len(lines)-1
				switch e := c.Intn(8); {
				case e == 0:
					sb.WriteString("\r\n")
				case e == 1 && last: // no final newline
				case e == 2 && last:
					sb.WriteString("\r")
				case e == 3:
					sb.WriteString("\r\r\n")
				default:
					sb.WriteString("\n")
				}
			}
			text := []byte(sb.String())
			t := term()
			if t.I == 1 || c.Intn(8) == 0 { // a cut stream
				strat += "-cut"
				text = text[:c.Intn(len(text)+1)]
			}
			nt := bytes.IndexByte(text, '\t') >= 0
			c.Run(kBedDecode, L(B(text), t), nt, "decode/"+strat, fmt.Sprintf("decode/term=%d", t.I))
		}
		for _, s := range []string{"", "\n", "\r\n", "#", "#\n", "\t", "\t\t", "a\t1\t2", "a\t1\t2\n", "a\t1\t2\r\n", "a\t1\t2\r",
			"\t0\t0\n", "a\t1\t2\n\n\nb\t3\t4", "a\t1\t2\nb\t3\t4\t\n", "a\t1\t2\t\nb\t3\t4\n", "a\t1\n", "a\t1\t2\t3\t4\t5\t6\t7\t8\t9\t10\t11\t12\n",
			"c\t1\t2\tn\t0\t+\t1\t2\t1,2\n", "c\t1\t2\tn\t0\t+\t1\t2\t256,0,0\n", "c\t1\t2\tn\t0\t+\t1\t2\t0x10,1,1\n", "c\t1\t2\tn\t0\t+\t1\t2\t1,2,3,4\n",
			"c\t1\t2\tn\t0\t+\t1\t2\t0,0,0\t2\t1,2\t3,4\n", "c\t1\t2\tn\t0\t+\t1\t2\t0,0,0\t2\t1,2,\t3,4,\n", "c\t1\t2\tn\t0\t+\t1\t2\t0,0,0\t1\t\t\n",
			"c\t1\t2\tn\t0\t+\t1\t2\t0,0,0\t0\t\t\n", "c\t1\t2\tn\t\t\t\t\t\t\t\t\n", "c\t1\t2\tn\t0\t*\n", "c\t+1\t-2\n", "c\t1\t2\n#x\ny\t3\t4\n",
			"c\t1\t2\t\"a\tb\"\n", "\"c\t1\t2\n"} {
			c.Run(kBedDecode, L(S(s), I(0)), true, "decode/literal")
			c.Run(kBedDecode, L(S(s), I(1)), true, "decode/literal")
		}
		// 4b. exhaustive small scope: every input over {a TAB 1 LF # CR} up to a length
		// (the shortest record "a\t1\t1" has 5 bytes), clean end of stream and failing stream
		maxLen := c.Pick(6, 7)
		allStrings([]byte("a\t1\n#\r"), maxLen, func(s []byte) {
			c.Run(kBedDecode, L(B(s), I(0)), bytes.Count(s, []byte("\t")) >= 2, "decode/exhaustive")
			if len(s) <= 5 {
				c.Run(kBedDecode, L(B(s), I(1)), bytes.Count(s, []byte("\t")) >= 2, "decode/exhaustive-fault")
			}
		})
		// every tail over {1 TAB , LF - a} up to length 5 after the prefix of an N=8 line:
		// the RGB, block count and block list fields
		allStrings([]byte("1\t,\n-a"), c.Pick(5, 6), func(t []byte) {
			s := append([]byte("c\t1\t2\tn\t0\t+\t3\t4\t"), t...)
			c.Run(kBedDecode, L(B(s), I(0)), true, "decode/exhaustive-tail")
		})
		c.Exhaustive(fmt.Sprintf("bed_decode: all inputs over {a TAB 1 LF # CR} of length <= %d; all tails over {1 TAB , LF - a} of length <= %d after an 8-field prefix", maxLen, c.Pick(5, 6)))

		// 5. strconv.ParseUint(_, 0, 8)
		for _, tok := range bedUintTokens {
			c.Run(kBedParseUint, S(tok), tok != "", "parseuint/pool")
		}
		for v := 0; v <= 300; v++ {
			c.Run(kBedParseUint, S(strconv.Itoa(v)), true, "parseuint/decimal")
			c.Run(kBedParseUint, S("0"+strconv.Itoa(v)), true, "parseuint/leading-zero")
			c.Run(kBedParseUint, S(fmt.Sprintf("0x%x", v)), true, "parseuint/hex")
			c.Run(kBedParseUint, S(fmt.Sprintf("0o%o", v)), true, "parseuint/octal")
			c.Run(kBedParseUint, S(fmt.Sprintf("0b%b", v)), true, "parseuint/binary")
		}
		allStrings([]byte("017_xbo9fX"), c.Pick(4, 5), func(s []byte) {
			c.Run(kBedParseUint, B(s), len(s) > 0, "parseuint/exhaustive")
		})
		c.Exhaustive(fmt.Sprintf("ParseUint(_,0,8): all strings over 017_xbo9fX of length <= %d; all decimals 0..300", c.Pick(4, 5)))
		for b := 0; b < 256; b++ {
			c.Run(kBedParseUint, B([]byte{byte(b)}), true, "parseuint/all-bytes")
			c.Run(kBedParseUint, B([]byte{'0', 'x', byte(b)}), true, "parseuint/all-bytes")
			c.Run(kBedParseUint, B([]byte{'0', byte(b), '1'}), true, "parseuint/all-bytes")
			c.Run(kBedParseUint, B([]byte{'1', byte(b)}), true, "parseuint/all-bytes")
		}
		for i := 0; i < c.Pick(500, 5000); i++ {
			tok := c.bedUintToken()
			c.Run(kBedParseUint, S(tok), tok != "", "parseuint/random")
		}
	})
}
