package main

// gen-src: a small translator from selected pure functions and constants of the
// library's Go source (go/ast) to Gallina (DESIGN.md section 0, "translated
// sources"). It covers: constant declarations with literal values; functions whose
// body is a chain of `if c { return e } else if ... else { return e }` / `return e`
// statements or a `switch x { case k: return e ... default: return e }`, over
// parameters of type int, float64 (integer-valued: Z), byte, bool, named integer
// types and struct types (translated to Records); expressions built from
// comparisons, + - * , && || !, field selectors, struct literals (tuples in field
// order), identifiers, integer and character literals. Anything else makes the
// translator fail, which the check reports as a broken correspondence.

import (
	"fmt"
	"go/ast"
	"go/importer"
	"go/parser"
	"go/token"
	"go/types"
	"os"
	"sort"
	"strconv"
	"strings"
)

type srcStruct struct {
	name   string
	fields []string
	types  []string // "Z" or "bool"
}

type srcTr struct {
	pkg     string
	structs map[string]*srcStruct
	consts  map[string]bool
	vars    map[string]string // identifier -> coq type ("Z", "bool", struct name)
	named   map[string]string // named non-struct types -> "Z"
}

func (t *srcTr) coqType(e ast.Expr) string {
	switch e := e.(type) {
	case *ast.Ident:
		switch e.Name {
		case "int", "float64", "byte", "int64", "uint8":
			return "Z"
		case "bool":
			return "bool"
		}
		if _, ok := t.structs[e.Name]; ok {
			return e.Name
		}
		if c, ok := t.named[e.Name]; ok {
			return c
		}
	}
	panic(fmt.Sprintf("unsupported type %T", e))
}

func (t *srcTr) coqTypeName(ty string) string {
	if ty == "Z" || ty == "bool" {
		return ty
	}
	return "src_" + t.pkg + "_" + ty
}

// expr returns the Gallina text and the type of e.
func (t *srcTr) expr(e ast.Expr) (string, string) {
	switch e := e.(type) {
	case *ast.ParenExpr:
		return t.expr(e.X)
	case *ast.BasicLit:
		switch e.Kind {
		case token.INT:
			n, err := strconv.ParseInt(e.Value, 0, 64)
			if err != nil {
				panic("unsupported literal " + e.Value)
			}
			return fmt.Sprintf("(%d)", n), "Z"
		case token.CHAR:
			r, _, _, err := strconv.UnquoteChar(e.Value[1:len(e.Value)-1], '\'')
			if err != nil {
				panic("unsupported literal " + e.Value)
			}
			return fmt.Sprintf("(%d)", r), "Z"
		}
	case *ast.Ident:
		if e.Name == "true" || e.Name == "false" {
			return e.Name, "bool"
		}
		if ty, ok := t.vars[e.Name]; ok {
			return e.Name, ty
		}
		if t.consts[e.Name] {
			return "k_" + t.pkg + "_" + e.Name, "Z"
		}
	case *ast.SelectorExpr:
		x, ty := t.expr(e.X)
		st, ok := t.structs[ty]
		if !ok {
			panic("selector on a non-struct")
		}
		for i, f := range st.fields {
			if f == e.Sel.Name {
				return fmt.Sprintf("(src_%s_%s_%s %s)", t.pkg, st.name, f, x), st.types[i]
			}
		}
	case *ast.UnaryExpr:
		x, ty := t.expr(e.X)
		switch {
		case e.Op == token.NOT && ty == "bool":
			return "(negb " + x + ")", "bool"
		case e.Op == token.SUB && ty == "Z":
			return "(Z.opp " + x + ")", "Z"
		}
	case *ast.BinaryExpr:
		a, ta := t.expr(e.X)
		b, tb := t.expr(e.Y)
		if ta != tb {
			panic("operands of different types")
		}
		if ta == "Z" {
			f := map[token.Token]string{token.ADD: "Z.add", token.SUB: "Z.sub", token.MUL: "Z.mul"}[e.Op]
			if f != "" {
				return fmt.Sprintf("(%s %s %s)", f, a, b), "Z"
			}
			c := map[token.Token]string{token.GTR: "Z.gtb", token.GEQ: "Z.geb", token.LSS: "Z.ltb", token.LEQ: "Z.leb", token.EQL: "Z.eqb"}[e.Op]
			if c != "" {
				return fmt.Sprintf("(%s %s %s)", c, a, b), "bool"
			}
			if e.Op == token.NEQ {
				return fmt.Sprintf("(negb (Z.eqb %s %s))", a, b), "bool"
			}
		}
		if ta == "bool" {
			switch e.Op {
			case token.LAND:
				return fmt.Sprintf("(andb %s %s)", a, b), "bool"
			case token.LOR:
				return fmt.Sprintf("(orb %s %s)", a, b), "bool"
			case token.EQL:
				return fmt.Sprintf("(Bool.eqb %s %s)", a, b), "bool"
			case token.NEQ:
				return fmt.Sprintf("(negb (Bool.eqb %s %s))", a, b), "bool"
			}
		}
	case *ast.CompositeLit:
		id, ok := e.Type.(*ast.Ident)
		if !ok {
			break
		}
		st, ok := t.structs[id.Name]
		if !ok {
			break
		}
		vals := make([]string, len(st.fields))
		for i, el := range e.Elts {
			if kv, ok := el.(*ast.KeyValueExpr); ok {
				k := kv.Key.(*ast.Ident).Name
				found := false
				for j, f := range st.fields {
					if f == k {
						v, ty := t.expr(kv.Value)
						if ty != st.types[j] {
							panic("field type mismatch")
						}
						vals[j] = v
						found = true
					}
				}
				if !found {
					panic("unknown field " + k)
				}
			} else {
				v, ty := t.expr(el)
				if i >= len(vals) || ty != st.types[i] {
					panic("field type mismatch")
				}
				vals[i] = v
			}
		}
		for i := range vals {
			if vals[i] == "" { // zero value
				if st.types[i] == "bool" {
					vals[i] = "false"
				} else {
					vals[i] = "(0)"
				}
			}
		}
		return fmt.Sprintf("(Src_%s_%s %s)", t.pkg, st.name, strings.Join(vals, " ")), st.name
	}
	panic(fmt.Sprintf("unsupported expression %T", e))
}

// stmts translates a statement list every path of which returns a value of type want.
func (t *srcTr) stmts(list []ast.Stmt, want string) string {
	if len(list) == 0 {
		panic("a path does not return")
	}
	switch s := list[0].(type) {
	case *ast.ReturnStmt:
		if len(s.Results) != 1 {
			panic("unsupported return")
		}
		v, ty := t.expr(s.Results[0])
		if ty != want {
			panic("return type mismatch: " + ty + " vs " + want)
		}
		return v
	case *ast.IfStmt:
		if s.Init != nil {
			panic("unsupported if")
		}
		c, ty := t.expr(s.Cond)
		if ty != "bool" {
			panic("condition is not bool")
		}
		var els string
		switch e := s.Else.(type) {
		case nil:
			els = t.stmts(list[1:], want)
		case *ast.BlockStmt:
			els = t.stmts(e.List, want)
		case *ast.IfStmt:
			els = t.stmts([]ast.Stmt{e}, want)
		}
		return fmt.Sprintf("(if %s then %s else %s)", c, t.stmts(s.Body.List, want), els)
	case *ast.SwitchStmt:
		if s.Init != nil || s.Tag == nil {
			panic("unsupported switch")
		}
		tag, tty := t.expr(s.Tag)
		if tty != "Z" {
			panic("switch on a non-integer")
		}
		def := ""
		type arm struct{ cond, body string }
		var arms []arm
		for _, cc := range s.Body.List {
			cl := cc.(*ast.CaseClause)
			body := t.stmts(cl.Body, want)
			if cl.List == nil {
				def = body
				continue
			}
			var conds []string
			for _, k := range cl.List {
				kv, kt := t.expr(k)
				if kt != "Z" {
					panic("case of a non-integer")
				}
				conds = append(conds, fmt.Sprintf("(Z.eqb %s %s)", tag, kv))
			}
			c := conds[0]
			for _, x := range conds[1:] {
				c = fmt.Sprintf("(orb %s %s)", c, x)
			}
			arms = append(arms, arm{c, body})
		}
		if def == "" {
			def = t.stmts(list[1:], want)
		}
		out := def
		for i := len(arms) - 1; i >= 0; i-- {
			out = fmt.Sprintf("(if %s then %s else %s)", arms[i].cond, arms[i].body, out)
		}
		return out
	}
	panic(fmt.Sprintf("unsupported statement %T", list[0]))
}

type srcWant struct {
	file   string   // path relative to the repository root
	pkg    string   // prefix used in the generated names
	consts []string // constants to translate (literal values)
	types  []string // struct types to translate to Records; named int types
	funcs  []string // functions to translate
}

var srcWants = []srcWant{
	{file: "align/align.go", pkg: "align", consts: []string{"Match", "Deletion", "Insertion", "Gap"}, types: []string{"Step", "block"}},
	{file: "align/global.go", pkg: "align", funcs: []string{"decideOnStep"}},
	{file: "regions/regions.go", pkg: "regions", types: []string{"event"}, funcs: []string{"eventLess"}},
	{file: "sequtil/sequtil.go", pkg: "sequtil", funcs: []string{"Iton"}},
	{file: "formats/fasta/fasta.go", pkg: "fasta", consts: []string{"textLineLen"}},
}

func genSrc(repo, out string) {
	defer func() {
		if r := recover(); r != nil {
			fmt.Fprintln(os.Stderr, "gen-src: cannot translate:", r)
			os.Exit(1)
		}
	}()
	sb := &strings.Builder{}
	w := func(format string, a ...any) { fmt.Fprintf(sb, format, a...) }
	w("(* GENERATED by `harness gen-src` from the Go source in /repo. Do not edit. *)\n")
	w("From Coq Require Import ZArith NArith Bool List String.\nImport ListNotations.\nFrom Bio Require Import Base.\nOpen Scope Z_scope.\n\n")
	trs := map[string]*srcTr{}
	for _, want := range srcWants {
		t := trs[want.pkg]
		if t == nil {
			t = &srcTr{pkg: want.pkg, structs: map[string]*srcStruct{}, consts: map[string]bool{}, named: map[string]string{}}
			trs[want.pkg] = t
		}
		fset := token.NewFileSet()
		file, err := parser.ParseFile(fset, repo+"/"+want.file, nil, 0)
		if err != nil {
			panic(err)
		}
		w("(* %s *)\n", want.file)
		done := map[string]bool{}
		// types first
		for _, d := range file.Decls {
			gd, ok := d.(*ast.GenDecl)
			if !ok || gd.Tok != token.TYPE {
				continue
			}
			for _, sp := range gd.Specs {
				ts := sp.(*ast.TypeSpec)
				if !contains(want.types, ts.Name.Name) {
					continue
				}
				done[ts.Name.Name] = true
				switch ty := ts.Type.(type) {
				case *ast.StructType:
					st := &srcStruct{name: ts.Name.Name}
					t.structs[st.name] = st // allow the name while translating field types
					for _, f := range ty.Fields.List {
						ct := t.coqType(f.Type)
						for _, n := range f.Names {
							st.fields = append(st.fields, n.Name)
							st.types = append(st.types, ct)
						}
					}
					w("Record src_%s_%s : Type := Src_%s_%s {", t.pkg, st.name, t.pkg, st.name)
					for i, f := range st.fields {
						if i > 0 {
							w(";")
						}
						w(" src_%s_%s_%s : %s", t.pkg, st.name, f, t.coqTypeName(st.types[i]))
					}
					w(" }.\n")
				default:
					t.named[ts.Name.Name] = t.coqType(ts.Type)
				}
			}
		}
		// constants
		for _, d := range file.Decls {
			gd, ok := d.(*ast.GenDecl)
			if !ok || gd.Tok != token.CONST {
				continue
			}
			for _, sp := range gd.Specs {
				vs := sp.(*ast.ValueSpec)
				for i, n := range vs.Names {
					if !contains(want.consts, n.Name) {
						continue
					}
					if i >= len(vs.Values) {
						panic("constant " + n.Name + " has no literal value")
					}
					t.vars = map[string]string{}
					v, ty := t.expr(vs.Values[i])
					if ty != "Z" {
						panic("constant " + n.Name + " is not an integer")
					}
					w("Definition k_%s_%s : Z := %s.\n", t.pkg, n.Name, v)
					t.consts[n.Name] = true
					done[n.Name] = true
				}
			}
		}
		// functions
		for _, d := range file.Decls {
			fd, ok := d.(*ast.FuncDecl)
			if !ok || fd.Recv != nil || !contains(want.funcs, fd.Name.Name) {
				continue
			}
			done[fd.Name.Name] = true
			t.vars = map[string]string{}
			var params []string
			for _, p := range fd.Type.Params.List {
				ct := t.coqType(p.Type)
				for _, n := range p.Names {
					t.vars[n.Name] = ct
					params = append(params, fmt.Sprintf("(%s : %s)", n.Name, t.coqTypeName(ct)))
				}
			}
			if fd.Type.Results == nil || len(fd.Type.Results.List) != 1 || len(fd.Type.Results.List[0].Names) > 1 {
				panic("unsupported result of " + fd.Name.Name)
			}
			rt := t.coqType(fd.Type.Results.List[0].Type)
			w("Definition src_%s_%s %s : %s :=\n  %s.\n", t.pkg, fd.Name.Name, strings.Join(params, " "), t.coqTypeName(rt), t.stmts(fd.Body.List, rt))
		}
		for _, n := range append(append(append([]string{}, want.consts...), want.types...), want.funcs...) {
			if !done[n] {
				panic("declaration not found: " + want.file + " " + n)
			}
		}
		w("\n")
	}
	genFmtCalls(repo, w)
	genIterShapes(repo, w)
	writeIfChanged(out, sb.String())
}

// ---- format strings of the writers ------------------------------------------------
//
// For each Write method listed below, every call fmt.Fprintf(w, "<literal>", args...)
// in source order becomes a Gallina function of its arguments that builds the bytes
// the call writes: literal text as bytes, %s of a string / []byte as the bytes, %d and
// %v of an integer (int, named int, byte) as Base.itoa, %v of a string as the bytes.
// The argument types come from go/types. Calls whose format is not a literal (the
// per-element calls of the BED block lists) are skipped and counted in a comment.

type fmtWant struct {
	dir, pkg, recv, method string
}

var fmtWants = []fmtWant{
	{"formats/fasta", "fasta", "Fasta", "Write"},
	{"formats/fastq", "fastq", "Fastq", "Write"},
	{"formats/sam", "sam", "SAM", "Write"},
	{"formats/bed", "bed", "BED", "Write"},
}

func genFmtCalls(repo string, w func(string, ...any)) {
	cwd, _ := os.Getwd()
	if err := os.Chdir(repo); err != nil { // the source importer resolves module imports from here
		panic(err)
	}
	defer os.Chdir(cwd)
	for _, want := range fmtWants {
		fset := token.NewFileSet()
		pkgs, err := parser.ParseDir(fset, repo+"/"+want.dir, func(fi os.FileInfo) bool { return !strings.HasSuffix(fi.Name(), "_test.go") }, 0)
		if err != nil {
			panic(err)
		}
		var files []*ast.File
		for _, p := range pkgs {
			names := make([]string, 0, len(p.Files))
			for n := range p.Files {
				names = append(names, n)
			}
			sort.Strings(names)
			for _, n := range names {
				files = append(files, p.Files[n])
			}
		}
		info := &types.Info{Types: map[ast.Expr]types.TypeAndValue{}}
		conf := types.Config{Importer: importer.ForCompiler(fset, "source", nil)}
		if _, err := conf.Check(want.pkg, fset, files, info); err != nil {
			panic(fmt.Sprintf("type-checking %s: %v", want.dir, err))
		}
		var method *ast.FuncDecl
		for _, f := range files {
			for _, d := range f.Decls {
				fd, ok := d.(*ast.FuncDecl)
				if !ok || fd.Recv == nil || fd.Name.Name != want.method {
					continue
				}
				rt := fd.Recv.List[0].Type
				if st, ok := rt.(*ast.StarExpr); ok {
					rt = st.X
				}
				if id, ok := rt.(*ast.Ident); ok && id.Name == want.recv {
					method = fd
				}
			}
		}
		if method == nil {
			panic("method not found: " + want.dir + " " + want.recv + "." + want.method)
		}
		w("(* %s: the fmt.Fprintf calls of (%s).%s, in source order *)\n", want.dir, want.recv, want.method)
		k, dynamic := 0, 0
		ast.Inspect(method.Body, func(n ast.Node) bool {
			call, ok := n.(*ast.CallExpr)
			if !ok {
				return true
			}
			sel, ok := call.Fun.(*ast.SelectorExpr)
			if !ok || sel.Sel.Name != "Fprintf" {
				return true
			}
			if id, ok := sel.X.(*ast.Ident); !ok || id.Name != "fmt" || len(call.Args) < 2 {
				return true
			}
			lit, ok := call.Args[1].(*ast.BasicLit)
			if !ok || lit.Kind != token.STRING {
				dynamic++
				return true
			}
			format, err := strconv.Unquote(lit.Value)
			if err != nil {
				panic("bad format literal " + lit.Value)
			}
			args := call.Args[2:]
			var params, pieces []string
			lits := []byte{}
			flush := func() {
				if len(lits) > 0 {
					nums := make([]string, len(lits))
					for i, b := range lits {
						nums[i] = fmt.Sprintf("%d%%N", b)
					}
					pieces = append(pieces, "["+strings.Join(nums, "; ")+"]")
					lits = lits[:0]
				}
			}
			ai := 0
			for i := 0; i < len(format); i++ {
				if format[i] != '%' {
					lits = append(lits, format[i])
					continue
				}
				i++
				if i >= len(format) {
					panic("format ends with %")
				}
				if format[i] == '%' {
					lits = append(lits, '%')
					continue
				}
				if ai >= len(args) {
					panic("too few arguments for " + format)
				}
				ty := info.Types[args[ai]].Type
				if ty == nil {
					panic("untyped argument in " + format)
				}
				kind := ""
				switch u := ty.Underlying().(type) {
				case *types.Basic:
					switch {
					case u.Info()&types.IsString != 0:
						kind = "bytes"
					case u.Info()&types.IsInteger != 0:
						kind = "int"
					}
				case *types.Slice:
					if b, ok := u.Elem().Underlying().(*types.Basic); ok && b.Kind() == types.Uint8 {
						kind = "bytes"
					}
				}
				verb := format[i]
				name := fmt.Sprintf("a%d", ai)
				flush()
				switch {
				case kind == "bytes" && (verb == 's' || verb == 'v'):
					params = append(params, "("+name+" : list N)")
					pieces = append(pieces, name)
				case kind == "int" && (verb == 'd' || verb == 'v'):
					params = append(params, "("+name+" : Z)")
					pieces = append(pieces, "itoa "+name)
				default:
					panic(fmt.Sprintf("unsupported verb %%%c for %s in %q", verb, ty, format))
				}
				ai++
			}
			flush()
			if ai != len(args) {
				panic("too many arguments for " + format)
			}
			body := "[]"
			if len(pieces) > 0 {
				body = strings.Join(pieces, " ++ ")
			}
			w("Definition src_%s_%s_%d %s : list N := %s.   (* %s *)\n", want.pkg, want.method, k, strings.Join(params, " "), body, strings.ReplaceAll(lit.Value, "*)", "* )"))
			k++
			return true
		})
		w("(* %d calls with a literal format, %d with a computed format (skipped) *)\n\n", k, dynamic)
	}
}

// ---- where the iterators call yield --------------------------------------------------
//
// For every function literal of the form func(yield func(...) bool) in the listed files
// (and for trie.ForEach, whose callback parameter is f), each call of the callback is
// classified by its syntactic context:
//   0 guarded   the call is negated inside the condition of an if whose body is a single
//               return or break:  if !yield(x) { return }   if len(cur) > 0 && !f(cur) { break }
//   1 terminal  the call is an expression statement directly followed by return or break
//               (or is the last statement of the function literal)
//   2 bare      anything else: the iterator may call the callback again after it
//               answered false
// The model of C18 (Model/Iterators.v) assumes there is no call of kind 2.

var iterFiles = []struct{ file, pkg string }{
	{"formats/fasta/iter.go", "fasta"}, {"formats/fastq/iter.go", "fastq"}, {"formats/sam/iter.go", "sam"},
	{"formats/bed/iter.go", "bed"}, {"formats/newick/newick.go", "newick"}, {"formats/newick/traverse.go", "newick"},
	{"trie/trie.go", "trie"}, {"sequtil/sequtil.go", "sequtil"},
}

func genIterShapes(repo string, w func(string, ...any)) {
	w("(* the callback calls of the iterators, by syntactic context: 0 guarded, 1 terminal, 2 bare *)\n")
	w("Definition iter_yields : list (String.string * list N) := [\n")
	first := true
	for _, it := range iterFiles {
		fset := token.NewFileSet()
		file, err := parser.ParseFile(fset, repo+"/"+it.file, nil, 0)
		if err != nil {
			panic(err)
		}
		for _, d := range file.Decls {
			fd, ok := d.(*ast.FuncDecl)
			if !ok || fd.Body == nil {
				continue
			}
			name := fd.Name.Name
			if fd.Recv != nil {
				rt := fd.Recv.List[0].Type
				if st, ok := rt.(*ast.StarExpr); ok {
					rt = st.X
				}
				if id, ok := rt.(*ast.Ident); ok {
					name = id.Name + "." + name
				}
			}
			// callback names and the bodies they are called in
			type site struct {
				cb   string
				body *ast.BlockStmt
			}
			var sites []site
			if it.pkg == "trie" && name == "Trie.ForEach" {
				sites = append(sites, site{fd.Type.Params.List[0].Names[0].Name, fd.Body})
			}
			ast.Inspect(fd.Body, func(n ast.Node) bool {
				fl, ok := n.(*ast.FuncLit)
				if !ok || fl.Type.Params.NumFields() != 1 {
					return true
				}
				p := fl.Type.Params.List[0]
				if ft, ok := p.Type.(*ast.FuncType); ok && len(p.Names) == 1 && ft.Results.NumFields() == 1 {
					if id, ok := ft.Results.List[0].Type.(*ast.Ident); ok && id.Name == "bool" {
						sites = append(sites, site{p.Names[0].Name, fl.Body})
					}
				}
				return true
			})
			for k, st := range sites {
				kinds := classifyYields(st.cb, st.body)
				if len(kinds) == 0 {
					continue
				}
				if !first {
					w(";\n")
				}
				first = false
				strs := make([]string, len(kinds))
				for i, c := range kinds {
					strs[i] = fmt.Sprintf("%d%%N", c)
				}
				w("  (\"%s.%s#%d\"%%string, [%s])", it.pkg, name, k, strings.Join(strs, "; "))
			}
		}
	}
	w("\n].\n")
}

// inSwitchDepth > 0: the statement being classified sits inside a switch/select case
// (since the innermost enclosing for): an unlabelled break there leaves the switch, not
// the loop, so it is not an exit.
var inSwitchDepth int

func isExit(s ast.Stmt) bool {
	switch s := s.(type) {
	case *ast.ReturnStmt:
		return true
	case *ast.BranchStmt:
		return s.Tok == token.BREAK && (inSwitchDepth == 0 || s.Label != nil)
	}
	return false
}

// negatedCall: e contains !cb(...) as an operand of && / || (or is it).
func negatedCall(e ast.Expr, cb string) bool {
	switch e := e.(type) {
	case *ast.ParenExpr:
		return negatedCall(e.X, cb)
	case *ast.UnaryExpr:
		if e.Op == token.NOT {
			if c, ok := e.X.(*ast.CallExpr); ok {
				if id, ok := c.Fun.(*ast.Ident); ok && id.Name == cb {
					return true
				}
			}
		}
	case *ast.BinaryExpr:
		if e.Op == token.LAND || e.Op == token.LOR {
			return negatedCall(e.X, cb) || negatedCall(e.Y, cb)
		}
	}
	return false
}

func classifyYields(cb string, body *ast.BlockStmt) []int {
	var kinds []int
	isCall := func(e ast.Expr) bool {
		c, ok := e.(*ast.CallExpr)
		if !ok {
			return false
		}
		id, ok := c.Fun.(*ast.Ident)
		return ok && id.Name == cb
	}
	counted := map[*ast.CallExpr]bool{}
	var walkBlock func(list []ast.Stmt, last bool)
	var walkStmt func(s ast.Stmt, next ast.Stmt, last bool)
	walkStmt = func(s ast.Stmt, next ast.Stmt, last bool) {
		switch s := s.(type) {
		case *ast.IfStmt:
			if negatedCall(s.Cond, cb) {
				k := 2
				if len(s.Body.List) == 1 && isExit(s.Body.List[0]) {
					k = 0
				}
				kinds = append(kinds, k)
				ast.Inspect(s.Cond, func(n ast.Node) bool {
					if c, ok := n.(*ast.CallExpr); ok && isCall(c) {
						counted[c] = true
					}
					return true
				})
			}
			// the last statement of a branch is followed by whatever follows the if
			after := (next != nil && isExit(next)) || (next == nil && last)
			walkBlock(s.Body.List, after)
			switch e := s.Else.(type) {
			case *ast.BlockStmt:
				walkBlock(e.List, after)
			case *ast.IfStmt:
				walkStmt(e, next, last)
			}
		case *ast.ExprStmt:
			if c, ok := s.X.(*ast.CallExpr); ok && isCall(c) {
				counted[c] = true
				if (next != nil && isExit(next)) || (next == nil && last) {
					kinds = append(kinds, 1)
				} else {
					kinds = append(kinds, 2)
				}
			}
		case *ast.ForStmt:
			saved := inSwitchDepth
			inSwitchDepth = 0
			walkBlock(s.Body.List, false)
			inSwitchDepth = saved
		case *ast.RangeStmt:
			saved := inSwitchDepth
			inSwitchDepth = 0
			walkBlock(s.Body.List, false)
			inSwitchDepth = saved
		case *ast.BlockStmt:
			walkBlock(s.List, last)
		case *ast.SwitchStmt:
			inSwitchDepth++
			for _, cc := range s.Body.List {
				walkBlock(cc.(*ast.CaseClause).Body, false)
			}
			inSwitchDepth--
		case *ast.TypeSwitchStmt:
			inSwitchDepth++
			for _, cc := range s.Body.List {
				walkBlock(cc.(*ast.CaseClause).Body, false)
			}
			inSwitchDepth--
		case *ast.SelectStmt:
			inSwitchDepth++
			for _, cc := range s.Body.List {
				walkBlock(cc.(*ast.CommClause).Body, false)
			}
			inSwitchDepth--
		case *ast.LabeledStmt:
			walkStmt(s.Stmt, next, last)
		}
	}
	walkBlock = func(list []ast.Stmt, last bool) {
		for i, s := range list {
			var next ast.Stmt
			if i+1 < len(list) {
				next = list[i+1]
			}
			walkStmt(s, next, last && i == len(list)-1)
		}
	}
	walkBlock(body.List, true)
	// any call of the callback in a context not understood above is bare
	ast.Inspect(body, func(n ast.Node) bool {
		if fl, ok := n.(*ast.FuncLit); ok && fl.Body != body {
			return false // nested literals are sites of their own
		}
		if c, ok := n.(*ast.CallExpr); ok && isCall(c) && !counted[c] {
			kinds = append(kinds, 2)
		}
		return true
	})
	return kinds
}

func contains(l []string, s string) bool {
	for _, x := range l {
		if x == s {
			return true
		}
	}
	return false
}
