// Command harness is the Go side of the correspondence check (DESIGN.md 4):
//
//	harness gen-tables <dir>            read finite tables out of the implementation -> <dir>/Tables.v, Lev.v
//	harness gen-flags  <file>           translate formats/sam/flag.go -> FlagGen.v
//	harness gen-src <repo> <out.v>      translate selected pure functions and constants -> SrcGen.v
//	harness gen-imp <repo> <out.v>      translate whole imperative function bodies -> ImpGen.v
//	harness run <prop> <tier> <seed> <outdir>   generate cases, run implementation + direct oracle
//	harness replay <kind> <val>         run one recorded case on the implementation
//
// It is rebuilt against /repo's working tree by every check.
package main

import (
	"fmt"
	"os"
	"sort"
	"strconv"
)

type propRunner struct {
	rule string
	run  func(c *Ctx)
}

var props = map[string]*propRunner{}

func registerProp(id, rule string, run func(c *Ctx)) { props[id] = &propRunner{rule, run} }

func main() {
	if len(os.Args) < 2 {
		usage()
	}
	switch os.Args[1] {
	case "gen-tables":
		if len(os.Args) != 3 {
			usage()
		}
		genTables(os.Args[2])
	case "gen-flags":
		if len(os.Args) != 4 {
			usage()
		}
		genFlags(os.Args[2], os.Args[3])
	case "gen-src":
		if len(os.Args) != 4 {
			usage()
		}
		genSrc(os.Args[2], os.Args[3])
	case "gen-imp":
		if len(os.Args) != 4 {
			usage()
		}
		genImp(os.Args[2], os.Args[3])
	case "run":
		if len(os.Args) != 6 {
			usage()
		}
		p := props[os.Args[2]]
		if p == nil {
			fmt.Fprintln(os.Stderr, "unknown property", os.Args[2])
			os.Exit(2)
		}
		seed, err := strconv.ParseInt(os.Args[4], 10, 64)
		if err != nil {
			usage()
		}
		c := newCtx(os.Args[2], os.Args[3], seed, os.Args[5])
		runCorpus(c)
		p.run(c)
		c.Close(p.rule)
	case "replay":
		if len(os.Args) != 4 {
			usage()
		}
		k := kinds[os.Args[2]]
		if k == nil {
			fmt.Fprintln(os.Stderr, "unknown kind", os.Args[2])
			os.Exit(2)
		}
		in, err := ParseVal(argOrFile(os.Args[3]))
		if err != nil {
			fmt.Fprintln(os.Stderr, "bad case:", err)
			os.Exit(2)
		}
		out := runImpl(k, in)
		fmt.Println("impl", project(k, out).String())
		msg := ""
		if k.Oracle != nil {
			msg = k.Oracle(in, out)
		}
		if msg == "" {
			fmt.Println("oracle holds")
		} else {
			fmt.Println("oracle FAILS:", cleanMsg(msg))
		}
	case "shrink":
		if len(os.Args) != 4 {
			usage()
		}
		k := kinds[os.Args[2]]
		in, err := ParseVal(argOrFile(os.Args[3]))
		if k == nil || err != nil || k.Oracle == nil {
			fmt.Fprintln(os.Stderr, "bad shrink request")
			os.Exit(2)
		}
		fmt.Println("shrunk", shrinkCase(k, in).String())
	case "kinds":
		var ks []string
		for k := range kinds {
			ks = append(ks, k)
		}
		sort.Strings(ks)
		for _, k := range ks {
			fmt.Println(k)
		}
	default:
		usage()
	}
}

// argOrFile: an argument of the form @path is replaced by the contents of the file
// (case values can be longer than the OS allows for one argument).
func argOrFile(a string) string {
	if len(a) > 0 && a[0] == '@' {
		b, err := os.ReadFile(a[1:])
		if err != nil {
			fmt.Fprintln(os.Stderr, err)
			os.Exit(2)
		}
		return string(b)
	}
	return a
}

func usage() {
	fmt.Fprintln(os.Stderr, "usage: harness gen-tables <dir> | gen-flags <flag.go> <out.v> | gen-src <repo> <out.v> | gen-imp <repo> <out.v> | run <prop> <tier> <seed> <outdir> | replay <kind> <val> | kinds")
	os.Exit(2)
}
