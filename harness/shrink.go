package main

// Generic shrinking of a case whose direct oracle fails, and the corpus runner.

import (
	"bufio"
	"os"
	"path/filepath"
	"strings"
	"time"
)

func oracleFails(k *Kind, in Val) (failed bool) {
	defer func() {
		if r := recover(); r != nil {
			failed = false // undecodable candidate
		}
	}()
	out := runImpl(k, in)
	return k.Oracle(in, out) != ""
}

// candidates returns simpler variants of v, most aggressive first.
func candidates(v Val) []Val {
	var r []Val
	switch v.K {
	case 'i':
		if v.I != 0 {
			r = append(r, Val{K: 'i', I: 0}, Val{K: 'i', I: v.I / 2})
			if v.I > 0 {
				r = append(r, Val{K: 'i', I: v.I - 1})
			} else {
				r = append(r, Val{K: 'i', I: v.I + 1})
			}
		}
	case 'x':
		n := len(v.B)
		if n > 0 {
			r = append(r, B(nil), B(v.B[:n/2]), B(v.B[n/2:]))
			if n <= 64 {
				for i := 0; i < n; i++ {
					c := append(append([]byte{}, v.B[:i]...), v.B[i+1:]...)
					r = append(r, B(c))
				}
				for i := 0; i < n; i++ {
					if v.B[i] != 'A' && v.B[i] != 'a' {
						c := append([]byte{}, v.B...)
						c[i] = 'a'
						r = append(r, B(c))
					}
				}
			}
		}
	case 'l':
		for i := range v.L {
			c := append(append([]Val{}, v.L[:i]...), v.L[i+1:]...)
			r = append(r, Val{K: 'l', L: c})
		}
		for i := range v.L {
			for _, e := range candidates(v.L[i]) {
				c := append([]Val{}, v.L...)
				c[i] = e
				r = append(r, Val{K: 'l', L: c})
			}
		}
	}
	return r
}

func shrinkCase(k *Kind, in Val) Val {
	if !oracleFails(k, in) {
		return in
	}
	deadline := time.Now().Add(60 * time.Second)
	for progress := true; progress && time.Now().Before(deadline); {
		progress = false
		for _, c := range candidates(in) {
			if len(c.String()) < len(in.String()) || (len(c.String()) == len(in.String()) && c.String() < in.String()) {
				if oracleFails(k, c) {
					in = c
					progress = true
					break
				}
			}
			if time.Now().After(deadline) {
				break
			}
		}
	}
	return in
}

// runCorpus runs the committed corpus of the property first: lines "<kind> <val>".
func runCorpus(c *Ctx) {
	dir := os.Getenv("VERIF_CORPUS")
	if dir == "" {
		return
	}
	f, err := os.Open(filepath.Join(dir, c.Prop+".txt"))
	if err != nil {
		return
	}
	defer f.Close()
	sc := bufio.NewScanner(f)
	sc.Buffer(nil, 1<<26)
	for sc.Scan() {
		line := strings.TrimSpace(sc.Text())
		if line == "" || line[0] == '#' {
			continue
		}
		sp := strings.IndexByte(line, ' ')
		if sp < 0 {
			continue
		}
		k := kinds[line[:sp]]
		v, err := ParseVal(line[sp+1:])
		if k == nil || err != nil {
			c.Note("corpus line not understood: %s", clip(line))
			continue
		}
		c.Run(k, v, true, "corpus")
	}
}
